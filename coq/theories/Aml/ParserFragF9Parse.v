(** C11 (fragment F9): passes 3 to 6 and ParseAML for the items of F9 (no Scope directives).
    Passes 3 and 4 leave the tree of connectNamedObjArgs alone, resolveMethodCalls attaches the operands of the statements
    ([rspec_all]), connectNonNamedObjArgs finds nothing left to do. *)
From Coq Require Import NArith ZArith Arith List Bool Lia.
From Coq Require Import ZifyBool ZifyN ZifyNat.
From FF Require Import Lib.Word Gen.Consts_device_acpi_aml Gen.Consts_aml_tree Aml.Stream Aml.Lex Aml.LexProofs
  Aml.Tree Aml.TreeSpec Aml.TreeProofs Aml.TreeProofsOps Aml.TreeProofsFind Aml.Parser Aml.Grammar Aml.LexRoundtrip
  Aml.ParserTotalTree Aml.ParserTotalBase
  Aml.ParserFragBase Aml.ParserFragFirst Aml.ParserFragF0 Aml.ParserFragF0Shape Aml.ParserFragConn Aml.ParserFragF0Conn Aml.ParserFragWalk
  Aml.ParserFragF0Top Aml.ParserFragRose Aml.ParserFragDev Aml.ParserFragArgs Aml.ParserFragF9 Aml.ParserFragF9First Aml.ParserFragF9Conn Aml.ParserFragF9Top
  Aml.ParserFragF9Calls.
Import ListNotations.
Local Open Scope N_scope.

Ltac Zify.zify_post_hook ::= Z.div_mod_to_equations.

Lemma lay5_nodes_all h tbl : forall l b off y, b <= y < b + N.of_nat (iszs l) -> In y (rnodesl (lay5 h tbl b off l)).
Proof.
  induction l as [|d rest IH|bk k seg fa body rest IHb IH|lk seg fa ta rest IH|seg k n elems rest IH|sk ta rest IH] using items_ind; intros b off y Hy; [cbn in Hy; lia| | | | |].
  5:{ rewrite lay5_cons, rnodesl_app. rewrite iszs_cons, isz_stmt in Hy. apply in_or_app.
      destruct (N.ltb_spec y (b + N.of_nat (1 + length ta))) as [Hlt|Hge].
      - left. cbn [lay5_item]. unfold rnodesl. cbn [flat_map]. rewrite app_nil_r, rnodes_eq.
        destruct (N.eq_dec y b) as [->|Hne]; [left; reflexivity|right]. apply leaf_row_nodes. rewrite len_cst_pays. lia.
      - right. apply IH. rewrite isz_stmt. lia. }
  - rewrite lay5_cons, rnodesl_app. rewrite iszs_cons in Hy. cbn [isz] in Hy. apply in_or_app.
    destruct (N.ltb_spec y (b + 3)) as [Hlt|Hge].
    + left. cbn [lay5_item rnodesl flat_map rnodes app In]. lia.
    + right. apply IH. cbn [isz]. lia.
  - rewrite lay5_cons, rnodesl_app. rewrite iszs_cons, isz_blk in Hy. apply in_or_app.
    set (nf := length (bfx bk fa)) in *.
    destruct (N.ltb_spec y (b + N.of_nat (3 + nf + iszs body))) as [Hlt|Hge].
    + left. rewrite lay5_blk. unfold rnodesl. cbn [flat_map]. rewrite app_nil_r, rnodes_eq.
      destruct (N.eq_dec y b) as [->|Hne]; [left; reflexivity|right].
      rewrite rnodesl_app. apply in_or_app. unfold nfx. fold nf.
      destruct (N.ltb_spec y (b + 2 + N.of_nat nf)) as [Hl2|Hg2].
      * left. apply leaf_row_nodes. rewrite len_hd_pays. fold nf. lia.
      * right. unfold rnodesl. cbn [flat_map]. rewrite app_nil_r, rnodes_eq.
        destruct (N.eq_dec y (b + 2 + N.of_nat nf)) as [->|Hne2]; [left; reflexivity|right]. apply IHb. lia.
    + right. apply IH. rewrite isz_blk. fold nf. lia.
  - rewrite lay5_cons, rnodesl_app. rewrite iszs_cons, isz_leaf in Hy. apply in_or_app.
    destruct (N.ltb_spec y (b + N.of_nat (2 + length (lfx lk fa) + length ta))) as [Hlt|Hge].
    + left. cbn [lay5_item]. unfold rnodesl. cbn [flat_map]. rewrite app_nil_r, rnodes_eq.
      destruct (N.eq_dec y b) as [->|Hne]; [left; reflexivity|right].
      apply leaf_row_nodes. rewrite app_length, len_lhd_pays, len_cst_pays. lia.
    + right. apply IH. rewrite isz_leaf. lia.
  - rewrite lay5_cons, rnodesl_app. rewrite iszs_cons, isz_pkg in Hy. apply in_or_app.
    destruct (N.ltb_spec y (b + N.of_nat (5 + pels_sz elems))) as [Hlt|Hge].
    + left. cbn [lay5_item]. unfold rnodesl. cbn [flat_map]. rewrite app_nil_r, rnodes_eq.
      destruct (N.eq_dec y b) as [->|Hne]; [left; reflexivity|right].
      unfold rnodesl. cbn [flat_map]. rewrite app_nil_r. apply in_or_app.
      destruct (N.eq_dec y (b + 1)) as [->|Hne1]; [left; rewrite rnodes_eq; left; reflexivity|right]. apply pkg_tree_nodes. lia.
    + right. apply IH. rewrite isz_pkg. lia.
Qed.

Lemma lay5_rsizes h tbl : forall l b off, rsizes (lay5 h tbl b off l) = iszs l.
Proof.
  induction l as [|d rest IH|bk k seg fa body rest IHb IH|lk seg fa ta rest IH|seg k n elems rest IH|sk ta rest IH] using items_ind; intros b off; [reflexivity| | | | |].
  5:{ rewrite lay5_cons, rsizes_app, IH, iszs_cons, isz_stmt. cbn [lay5_item rsizes fold_right]. rewrite rsize_eq, leaf_row_rsizes, len_cst_pays. lia. }
  - rewrite lay5_cons, rsizes_app, IH, iszs_cons. reflexivity.
  - rewrite lay5_cons, rsizes_app, IH, iszs_cons, lay5_blk, isz_blk. cbn [rsizes fold_right]. rewrite !rsize_eq.
    rewrite rsizes_app, leaf_row_rsizes, len_hd_pays. cbn [rsizes fold_right]. rewrite rsize_eq, IHb. lia.
  - rewrite lay5_cons, rsizes_app, IH, iszs_cons, isz_leaf. cbn [lay5_item rsizes fold_right]. rewrite rsize_eq, leaf_row_rsizes, app_length, len_lhd_pays, len_cst_pays. lia.
  - rewrite lay5_cons, rsizes_app, IH, iszs_cons, isz_pkg. cbn [lay5_item]. rewrite rsizes_cons, rsize_eq, rsizes_cons, rsizes_cons, rsize_eq, pkg_tree_rsize. cbn [rsizes fold_right]. lia.
Qed.

(** ---- the final tree ---- *)
Definition root_tree5 (its : list item) : rose :=
  RN 0 (scope_pay 0 [92; 0; 0; 0]) (dflt_leaves ++ lay5 1 0 6 aml_sizeofSDTHeader its).

Lemma root_tree5_size its : rsize (root_tree5 its) = (6 + iszs its)%nat.
Proof. unfold root_tree5. rewrite rsize_eq, rsizes_app, lay5_rsizes. reflexivity. Qed.

Lemma dflt_ok5 i nm ks : f9_ok5E (RN i (mkPay opScopeBlock 113 0 nm 0 0 None) ks).
Proof. exists 0, 0. left. cbn [f1_ok]. left. eexists. reflexivity. Qed.

Lemma root_tree5_ok its : forallb item_okb its = true -> rallr f9_ok5E (root_tree5 its).
Proof.
  intros Hok. unfold root_tree5. constructor; [apply dflt_ok5|].
  apply Forall_app. split; [|apply lay5_ok5; exact Hok].
  unfold dflt_leaves. repeat (constructor; [constructor; [apply dflt_ok5|constructor]|]). constructor.
Qed.

Lemma root_tree5_nodes its y : y < 6 + N.of_nat (iszs its) -> In y (rnodes (root_tree5 its)).
Proof.
  intros Hy. unfold root_tree5. rewrite rnodes_eq, rnodesl_app.
  destruct (N.ltb_spec y 6) as [Hlt|Hge].
  - assert (Hc : y = 0 \/ y = 1 \/ y = 2 \/ y = 3 \/ y = 4 \/ y = 5) by lia.
    destruct Hc as [ -> | [ -> | [ -> | [ -> | [ -> | -> ] ] ] ] ]; cbn; tauto.
  - right. apply in_or_app. right. apply lay5_nodes_all. lia.
Qed.

(** ---- passes 3 to 6 ---- *)
Lemma rest_f9 its fuel s g pl :
  Rep (p_tree s) g pl -> Desc g pl (root_tree its) -> forallb item_okb its = true ->
  N.of_nat (length pl) <= 6 + N.of_nat (iszs its) ->
  p_handle s = 1 -> p_mergedScopes s = 0 -> p_relocatedObjects s = 0 -> (rfuel its + 3 * (6 + iszs its) + 30 <= fuel)%nat ->
  wp False (rest_passes fuel) s (fun b s' => b = true /\ exists g5,
    Rep (p_tree s') g5 pl /\ Desc g5 pl (root_tree5 its) /\ p_tables s' = p_tables s).
Proof.
  intros H2 HD Hok Hl2 Hh Hm Hr Hfuel. unfold rest_passes.
  destruct (Desc_inv _ _ _ _ _ HD) as (Hp0 & K0 & HDk). rewrite map_app in K0. change (map ridx dflt_leaves) with D0 in K0.
  apply Forall_app in HDk. destruct HDk as [HDd HDl].
  assert (Hl0 : y_op (scope_pay 0 [92; 0; 0; 0]) <> opFreed) by discriminate.
  assert (Hc3 : forall y a, pget pl y = Some a -> y_op a <> opFreed -> merge_ok 1 a /\ defer_ok 1 a /\ reloc_ok g pl 1 y a).
  { intros y a Hy Hly.
    destruct (f1_conds (p_tree s) g pl (root_tree its) 1 H2 HD (root_tree_ok its Hok) y a) as (A & B & C & _);
      [apply root_tree_nodes; pose proof (pget_lt _ _ _ Hy); lia|exact Hy|exact Hly|]. auto. }
  apply wp_bind. unfold wp at 1.
  set (s3 := with_counters s 1 (p_mergedScopes s) (p_relocatedObjects s)).
  assert (H3 : Rep (p_tree s3) g pl) by exact H2.
  assert (Hfw : fwalk g fuel 0) by (change 0 with (ridx (root_tree its)); apply (fwalk_size g pl _ HD); rewrite root_tree_size; lia).
  destruct fuel as [|F]; [lia|].
  apply wp_bind. rewrite resolve_loop_S.
  apply wp_bind. eapply wp_conseq.
  { apply (proj1 (merge_all g pl 1 (fun y a A B => proj1 (Hc3 y a A B)) (S F)) 0 _ s3 H3 Hh Hm Hp0 Hl0 Hfw). }
  intros r s' (-> & ->). change (pres_eqb ROk RFailed) with false. cbv iota.
  apply wp_bind. eapply wp_conseq.
  { apply (proj1 (reloc_all g pl 1 (fun y a A B => proj2 (proj2 (Hc3 y a A B))) (S F)) 0 _ s3 H3 Hh Hr Hp0 Hl0 Hfw). }
  intros r s' (-> & ->). change (pres_eqb ROk RFailed) with false. change (pres_eqb ROk ROk && pres_eqb ROk ROk) with true. cbv iota.
  apply wp_ret. change (negb (pres_eqb ROk ROk)) with false. cbv iota.
  apply wp_bind. eapply wp_conseq.
  { apply (proj1 (defer_all g pl 1 (fun y a A B => proj1 (proj2 (Hc3 y a A B))) (S F)) (S F) 0 _ s3 H3 Hh Hp0 Hl0 Hfw). }
  intros r s' (-> & ->). change (negb (pres_eqb ROk ROk)) with false. cbv iota.
  (* resolveMethodCalls: the statements get their operands *)
  apply wp_bind. rewrite resolveMethodCalls_S.
  apply wp_bind. eapply wp_objectAt_rep; [exact H3|exact Hp0|exact Hl0|].
  apply wp_bind. eapply wp_rdf_rep; [exact H3|exact Hp0|exact Hl0|]. intros o0 _ _ _ Hlast. rewrite Hlast, K0.
  eapply (rspec_all 1 0 its 0 D0 [] 6 aml_sizeofSDTHeader s3 g pl F _ (F - rfuel its)%nat);
    [exact H3|rewrite K0, app_nil_r; reflexivity|exact HDl|exact Hp0|exact Hl0|left; lia|exact Hh|exact Hok|lia|lia|].
  intros t5 g5 H5 [Q1 Q2 Q3 _]. rewrite app_nil_r in Q1.
  assert (HD0 : forall d, In d D0 -> kids g5 d = [] /\ exists a, pget pl d = Some a /\ y_op a <> opFreed /\ calls_ok g5 1 d a).
  { intros d Hd.
    assert (Hdl : exists nm, In (RN d (scope_pay 0 nm) []) dflt_leaves).
    { unfold D0 in Hd. cbn [In] in Hd. unfold dflt_leaves. destruct Hd as [ <- | [ <- | [ <- | [ <- | [ <- | [] ] ] ] ] ]; eexists; cbn [In]; eauto 10. }
    destruct Hdl as (nm & Hin). rewrite Forall_forall in HDd. destruct (Desc_inv _ _ _ _ _ (HDd _ Hin)) as (Pd & Kd & _).
    assert (Hdr : d < 6 /\ d <> 0) by (unfold D0 in Hd; cbn [In] in Hd; lia).
    assert (Kd5 : kids g5 d = []) by (rewrite Q3 by lia; exact Kd).
    split; [exact Kd5|]. exists (scope_pay 0 nm). split; [exact Pd|]. split; [discriminate|].
    assert (D1 : Desc g5 pl (RN d (scope_pay 0 nm) [])) by (constructor; [exact Pd|exact Kd5|constructor]).
    apply (f5_conds t5 g5 pl _ 1 H5 D1 (rallr_node _ _ _ _ (dflt_ok5 d _ []) (Forall_nil _)) d _); [rewrite rnodes_eq; left; reflexivity|exact Pd|discriminate]. }
  pose proof (rlen_le_rfuel its) as Hrl.
  eapply (loop_fuel_eq _ (length D0 + S (S (F - rlen its - 7)))%nat); [cbn [D0 length]; lia|].
  eapply (calls_leaves 1 D0 _ 0 (map ridx (lay5 1 0 6 aml_sizeofSDTHeader its)) _ g5 pl); [exact H5|exact Hh|exact Q1|exact HD0|].
  rewrite resolveCalls_loop_S, N.eqb_refl. apply wp_ret.
  change (negb (pres_eqb ROk ROk)) with false. cbv iota.
  (* connectNonNamedObjArgs: nothing left to do *)
  set (s5 := with_tree s3 t5).
  assert (HD5 : Desc g5 pl (root_tree5 its)).
  { unfold root_tree5. constructor; [exact Hp0|rewrite Q1, map_app; reflexivity|].
    apply Forall_app. split; [|exact Q2]. apply (Desc_frame_l g pl); [exact HDd|].
    intros y Hy. assert (Hyr : 1 <= y <= 5) by (cbn in Hy; lia). split; [apply Q3; lia|reflexivity]. }
  assert (Hc5 : forall y a, pget pl y = Some a -> y_op a <> opFreed -> nonnamed_ok g5 1 y a).
  { intros y a Hy Hly.
    apply (f5_conds t5 g5 pl (root_tree5 its) 1 H5 HD5 (root_tree5_ok its Hok) y a); [|exact Hy|exact Hly].
    apply root_tree5_nodes. pose proof (pget_lt _ _ _ Hy). lia. }
  assert (Hfwb : fwalkb g5 (S F) 0) by (change 0 with (ridx (root_tree5 its)); apply (fwalkb_size g5 pl _ HD5); rewrite root_tree5_size; lia).
  apply wp_bind. eapply wp_conseq.
  { apply (proj1 (nonnamed_all g5 pl 1 Hc5 (S F)) 0 _ s5 H5 Hh Hp0 Hl0 Hfwb). }
  intros r s' (-> & ->). change (negb (pres_eqb ROk ROk)) with false. cbv iota.
  apply wp_ret. split; [reflexivity|]. exists g5. split; [exact H5|]. split; [exact HD5|reflexivity].
Qed.

(** the fuel of resolveMethodCalls against the length of the encoding *)
Lemma rfuel_item_len : forall it, (rfuel_item it + 3 * isz it <= 8 * length (enc_item it))%nat.
Proof.
  fix IH 1. intros [d|bk k seg fa body|lk seg fa ta|seg k n elems|sk ta].
  - cbn [rfuel_item isz enc_item]. unfold enc_decl, enc_const. cbn [length]. rewrite !app_length. cbn [seg_bytes length].
    destruct (enc_op_nonempty (d_op d)) as (x & l & E). rewrite E. cbn [length]. lia.
  - rewrite rfuel_blk, isz_blk, enc_blk. rewrite !app_length. cbn [seg_bytes length].
    destruct (enc_op_nonempty (bk_op bk)) as (x0 & l0 & E). rewrite E. cbn [length].
    assert (Hb : (rfuel body + 3 * iszs body <= 8 * length (enc_items body))%nat).
    { induction body as [|x t IHt]; [cbn; lia|]. pose proof (IH x). rewrite rfuel_cons, iszs_cons, enc_items_cons, app_length. lia. }
    assert (Hk : (1 <= length (enc_pkglen k (k + lenN (seg_bytes seg ++ enc_fx (bfx bk fa) ++ enc_items body))))%nat).
    { unfold enc_pkglen. destruct (k =? 1); cbn [length]; lia. }
    pose proof (len_enc_fx (bfx bk fa)). lia.
  - cbn [rfuel_item]. rewrite isz_leaf, enc_leaf. rewrite !app_length. cbn [seg_bytes length].
    destruct (enc_op_nonempty (lk_op lk)) as (x0 & l0 & E). rewrite E. cbn [length].
    pose proof (len_enc_fx (lfx lk fa)). pose proof (len_enc_ta ta). lia.
  - cbn [rfuel_item]. rewrite isz_pkg, enc_pkg_item. cbn [length]. rewrite !app_length. cbn [seg_bytes length].
    assert (Hk : (1 <= length (enc_pkglen k (k + lenN ([n] ++ enc_pels elems))))%nat).
    { unfold enc_pkglen. destruct (k =? 1); cbn [length]; lia. }
    pose proof (enc_pels_len elems). lia.
  - cbn [rfuel_item]. rewrite isz_stmt, enc_stmt, app_length. destruct (enc_op_nonempty (sk_op sk)) as (x0 & l0 & E). rewrite E. cbn [length].
    pose proof (len_enc_ta ta). lia.
Qed.
Lemma rfuel_len l : (rfuel l + 3 * iszs l <= 8 * length (enc_items l))%nat.
Proof. induction l as [|x t IH]; [cbn; lia|]. pose proof (rfuel_item_len x). rewrite rfuel_cons, iszs_cons, enc_items_cons, app_length. lia. Qed.

(** ---- ParseAML ---- *)
Theorem parse_f9x its t0 :
  forallb item_okb its = true -> lenN (enc_items its) < 0x10000000 -> Rep t0 g0c pl0c ->
  exists s' gF plF,
    parseAML t0 [] 1 (table_image (enc_items its)) = Ok (true, s') /\
    Rep (p_tree s') gF plF /\ Desc gF plF (root_tree5 its) /\ p_tables s' = [table_image (enc_items its)] /\
    N.of_nat (length plF) <= 6 + N.of_nat (iszs its).
Proof.
  intros Hok Hsz H0.
  destruct (enc_items_len its) as (Hcf & Hsz' & Hcn).
  rewrite table_image_hdr. set (hdr := hdr_of (enc_items its)). set (data := hdr ++ enc_items its).
  assert (Hhdr : lenN hdr = aml_sizeofSDTHeader) by reflexivity.
  assert (HlenD : lenN data = aml_sizeofSDTHeader + lenN (enc_items its)) by (unfold data; rewrite lenN_app, Hhdr; reflexivity).
  assert (Hpool : length (t_pool t0) = 6%nat) by (rewrite <- (rep_len_pool _ _ _ H0); reflexivity).
  unfold parseAML. rewrite Hpool.
  set (fuel := parse_fuel (length data + 6)).
  assert (Hfuel : (400 + 8 * length (enc_items its) <= fuel)%nat).
  { unfold fuel, parse_fuel. unfold lenN in *. change aml_sizeofSDTHeader with 36 in HlenD. lia. }
  clearbody fuel.
  assert (Hgoal : wp False (parseAML_body fuel) (init_state t0 [] 1 data) (fun b s' => b = true /\
            exists gF plF, Rep (p_tree s') gF plF /\ Desc gF plF (root_tree5 its) /\ p_tables s' = [data] /\ N.of_nat (length plF) <= 6 + N.of_nat (iszs its))).
  2:{ destruct (wp_run _ _ _ Hgoal) as (b & s' & E & -> & gF & plF & A & B & C & D). exists s', gF, plF. auto. }
  unfold wp. rewrite parseAML_body_eq.
  match goal with |- match ?m ?s with _ => _ end => change (wp False m s (fun b s' => b = true /\
            exists gF plF, Rep (p_tree s') gF plF /\ Desc gF plF (root_tree5 its) /\ p_tables s' = [data] /\ N.of_nat (length plF) <= 6 + N.of_nat (iszs its))) end.
  (* the first pass *)
  apply wp_bind. eapply wp_conseq.
  { eapply (first_f1 its fuel t0 g0c pl0c 1 hdr (scope_pay 0 [92; 0; 0; 0])); [exact Hhdr| | |exact H0|reflexivity| |reflexivity|discriminate|exact Hok|lia].
    - apply Forall_app. split; [apply hdr_bytes|apply enc_items_bytes; exact Hok].
    - fold data. rewrite HlenD. unfold two32. change aml_sizeofSDTHeader with 36. lia.
    - cbn [pl0c map length tree_defaultScopeNames]. change InvalidIndex with 0xffffffff. unfold lenN in *. lia. }
  intros res s1 (-> & t1 & g1 & pl1 & -> & H1 & P1). fold data in H1, P1 |- *.
  change (pres_eqb ROk RFailed) with false. cbv iota. change (N.of_nat (length pl0c)) with 6 in P1.
  (* connectNamedObjArgs *)
  apply wp_bind. eapply wp_conseq.
  { apply (pass2_f1 its fuel t1 g1 pl1 hdr Hok Hhdr H1 P1). lia. }
  intros r s2 (-> & t2 & g2 & pl2 & -> & H2 & D2 & Hl2).
  change (negb (pres_eqb ROk ROk)) with false. cbv iota.
  (* the remaining passes *)
  eapply wp_conseq.
  { apply (rest_f9 its fuel (with_tree (after_first t1 [] 1 data) t2) g2 pl2 H2 D2 Hok Hl2); [reflexivity|reflexivity|reflexivity|].
    pose proof (rfuel_len its). lia. }
  intros b s3 (-> & g5 & H5 & D5 & Etb). split; [reflexivity|]. exists g5, pl2. rewrite Etb. split; [exact H5|]. split; [exact D5|split; [reflexivity|exact Hl2]].
Qed.
