(** C12 (stretch): no parser function changes the parse mode (p_allBlocks), and in the mode of the deferred pass none creates a
    pOpIntNamePathOrMethodCall object (partial-correctness facts, by structural decomposition). *)
From Coq Require Import NArith Arith List Bool Lia.
From FF Require Import Lib.Word Gen.Consts_device_acpi_aml Aml.Stream Aml.Lex Aml.Tree Aml.Parser Aml.TreeSpec Aml.TreeProofs
  Aml.ParserTotalTree Aml.ParserTotalTree2 Aml.ParserTotalBase Aml.ParserTotalLeaf Aml.ParserTotalFrame.
Import ListNotations.
Local Open Scope N_scope.

Definition msame {A} (m : M A) : Prop := forall s a s', m s = Ok (a, s') -> p_allBlocks s' = p_allBlocks s.

Lemma msame_ret {A} (a : A) : msame (ret a).
Proof. intros s a' s' H. inversion H; subst. reflexivity. Qed.
Lemma msame_bind {A B} (m : M A) (f : A -> M B) : msame m -> (forall a, msame (f a)) -> msame (bindM m f).
Proof.
  intros Hm Hf s b s' H. unfold bindM in H. destruct (m s) as [[a s1]| |] eqn:E; try discriminate.
  rewrite (Hf a _ _ _ H). apply (Hm _ _ _ E).
Qed.
Lemma msame_fail {A} (m : M A) : (forall s, m s = Panic \/ m s = OutOfFuel) -> msame m.
Proof. intros H s a s' E. destruct (H s) as [F|F]; rewrite F in E; discriminate. Qed.
Lemma msame_panic {A} : msame (@panic A).
Proof. apply msame_fail. intros s. left. reflexivity. Qed.
Lemma msame_outOfFuel {A} : msame (@outOfFuel A).
Proof. apply msame_fail. intros s. right. reflexivity. Qed.
Lemma msame_get {A} (f : pstate -> A) : msame (Parser.get f).
Proof. intros s a s' H. inversion H; subst. reflexivity. Qed.
Lemma msame_lex {A} (f : reader -> outcome (A * bool * reader)) : msame (lex f).
Proof. intros s a s' H. unfold lex in H. destruct (f (p_r s)) as [[[x ok] r]| |]; try discriminate. inversion H; subst. reflexivity. Qed.
Lemma msame_ru f : msame (ru f).
Proof. intros s a s' H. inversion H; subst. reflexivity. Qed.
Lemma msame_setPkgEndM e : msame (setPkgEndM e).
Proof. intros s a s' H. unfold setPkgEndM in H. destruct (setPkgEnd (p_r s) e). inversion H; subst. reflexivity. Qed.
Lemma msame_readByteM : msame readByteM.
Proof. intros s a s' H. unfold readByteM in H. destruct (readByte (p_r s)) as [[b r]| |]; try discriminate. inversion H; subst. reflexivity. Qed.
Lemma msame_tq {A} (f : T -> outcome A) : msame (tq f).
Proof. intros s a s' H. unfold tq in H. destruct (f (p_tree s)); try discriminate. inversion H; subst. reflexivity. Qed.
Lemma msame_tu (f : T -> outcome T) : msame (tu f).
Proof. intros s a s' H. unfold tu in H. destruct (f (p_tree s)); try discriminate. inversion H; subst. reflexivity. Qed.
Lemma msame_lift {A} (o : outcome A) : msame (lift o).
Proof. intros s a s' H. unfold lift in H. destruct o; try discriminate. inversion H; subst. reflexivity. Qed.
Lemma msame_newObj op : msame (newObj op).
Proof. intros s a s' H. unfold newObj in H. destruct (newObject (p_tree s) op (p_handle s)) as [[t p]| |]; try discriminate. inversion H; subst. reflexivity. Qed.
Lemma msame_scopeEnter i : msame (scopeEnter i).
Proof. intros s a s' H. inversion H; subst. reflexivity. Qed.
Lemma msame_scopeExit : msame scopeExit.
Proof. intros s a s' H. unfold scopeExit in H. destruct (p_scopeStack s); try discriminate. inversion H; subst. reflexivity. Qed.
Lemma msame_popPkgEnd : msame popPkgEnd.
Proof.
  intros s a s' H. unfold popPkgEnd in H. destruct (match p_pkgEndStack s with [] => [] | _ :: rest => rest end); inversion H; subst; reflexivity.
Qed.
Lemma msame_upd (f : pstate -> pstate) : (forall s, p_allBlocks (f s) = p_allBlocks s) -> msame (fun s => Ok (tt, f s)).
Proof. intros Hf s a s' H. inversion H; subst. apply Hf. Qed.
Lemma msame_if {A} (b : bool) (m1 m2 : M A) : msame m1 -> msame m2 -> msame (if b then m1 else m2).
Proof. destruct b; auto. Qed.

Lemma msame_liftf {A} (f : pstate -> outcome A) : msame (fun s => lift (f s) s).
Proof. intros s a s' H. unfold lift in H. destruct (f s); try discriminate. inversion H; subst. reflexivity. Qed.
Lemma msame_need (o : option N) : msame (need o).
Proof. destruct o; [apply msame_ret|apply msame_panic]. Qed.
Lemma msame_info i : msame (info i).
Proof. unfold info. destruct (opInfo i); [apply msame_ret|apply msame_panic]. Qed.
Lemma msame_tableIndex op b : msame (tableIndex op b).
Proof. unfold tableIndex. destruct (opcodeTableIndex op b); [apply msame_ret|apply msame_panic]. Qed.

Ltac msame_prim :=
  first [ apply msame_ret | apply msame_panic | apply msame_outOfFuel | apply msame_get | apply msame_lex | apply msame_ru
        | apply msame_setPkgEndM | apply msame_readByteM | apply msame_tq | apply msame_tu | apply msame_lift | apply msame_newObj
        | apply msame_scopeEnter | apply msame_scopeExit | apply msame_popPkgEnd | apply msame_liftf | apply msame_need | apply msame_info | apply msame_tableIndex
        | (apply msame_upd; intros; reflexivity) ].

Ltac msame_unf :=
  unfold rq, offsetM, eofM, curTable, rdf, rdo, wrf, objectAt, objectAt', appendM, detachM,
         setOffsetM, pushPkgEnd, bytesOf, scopeCurrent, methodArgCountPanic, streamFuel, fieldByte.

Ltac msame_tac :=
  repeat first
    [ msame_prim | apply msame_if | (apply msame_bind; [|intros ?])
    | match goal with |- msame (match ?x with _ => _ end) => destruct x end
    | match goal with |- msame (let '(_, _) := ?x in _) => destruct x end ].

Lemma parseByteList_msame obj n : msame (parseByteList obj n).
Proof. unfold parseByteList. msame_unf. msame_tac. Qed.

Lemma parseSimpleArg_msame ty : msame (parseSimpleArg ty).
Proof. unfold parseSimpleArg. msame_unf. cbv zeta. msame_tac. Qed.

Lemma readName_go_msame field cnt : forall i, msame (readName_go cnt i field).
Proof. induction cnt as [|cnt IH]; intros i; cbn [readName_go]; msame_unf; msame_tac; apply IH. Qed.

Lemma fieldElements_go_msame fuel : forall curObj f, msame (fieldElements_go fuel curObj f).
Proof.
  induction fuel as [|fuel IH]; intros curObj f; cbn [fieldElements_go]; [apply msame_outOfFuel|].
  msame_unf. msame_tac; first [apply IH | apply readName_go_msame | apply parseByteList_msame | idtac].
Qed.

Lemma parseFieldElements_msame curObj : msame (parseFieldElements curObj).
Proof. unfold parseFieldElements. msame_unf. msame_tac; apply fieldElements_go_msame. Qed.

(** the nine mutually recursive functions *)
Definition mblock (fuel : nat) : Prop :=
  msame (parseNextObject fuel) /\ (forall c, msame (parseObjectArgs fuel c)) /\
  (forall inf c i, msame (parseArgs fuel inf c i)) /\ (forall inf c ty, msame (parseArg fuel inf c ty)) /\
  msame (termList_go fuel) /\ msame (parseNamePathOrMethodCall fuel) /\ (forall n, msame (callArgs_go fuel n)) /\
  (forall c, msame (parseStrictTermArg fuel c)) /\ msame (parseTarget fuel).

Lemma mblock_all : forall fuel, mblock fuel.
Proof.
  induction fuel as [|fuel (H1 & H2 & H3 & H4 & H5 & H6 & H7 & H8 & H9)].
  - unfold mblock. repeat match goal with |- _ /\ _ => split end; intros; cbn; apply msame_outOfFuel.
  - Ltac mrec H1 H2 H3 H4 H5 H6 H7 H8 H9 :=
      first [ apply H1 | apply H2 | apply H3 | apply H4 | apply H5 | apply H6 | apply H7 | apply H8 | apply H9
            | apply parseSimpleArg_msame | apply parseByteList_msame | apply parseFieldElements_msame | apply fieldElements_go_msame ].
    unfold mblock. repeat match goal with |- _ /\ _ => split end; intros.
    + cbn [parseNextObject]. msame_unf. repeat (first [mrec H1 H2 H3 H4 H5 H6 H7 H8 H9 | progress msame_tac]).
    + cbn [parseObjectArgs]. msame_unf. repeat (first [mrec H1 H2 H3 H4 H5 H6 H7 H8 H9 | progress msame_tac]).
    + cbn [parseArgs]. destruct inf as [[? ?] ?]. msame_unf. repeat (first [mrec H1 H2 H3 H4 H5 H6 H7 H8 H9 | progress msame_tac]).
    + cbn [parseArg]. destruct inf as [[? ?] ?]. msame_unf. repeat (first [mrec H1 H2 H3 H4 H5 H6 H7 H8 H9 | progress msame_tac]).
    + cbn [termList_go]. msame_unf. repeat (first [mrec H1 H2 H3 H4 H5 H6 H7 H8 H9 | progress msame_tac]).
    + cbn [parseNamePathOrMethodCall]. msame_unf. repeat (first [mrec H1 H2 H3 H4 H5 H6 H7 H8 H9 | progress msame_tac]).
    + cbn [callArgs_go]. msame_unf. repeat (first [mrec H1 H2 H3 H4 H5 H6 H7 H8 H9 | progress msame_tac]).
    + cbn [parseStrictTermArg]. msame_unf. repeat (first [mrec H1 H2 H3 H4 H5 H6 H7 H8 H9 | progress msame_tac]).
    + cbn [parseTarget]. msame_unf. repeat (first [mrec H1 H2 H3 H4 H5 H6 H7 H8 H9 | progress msame_tac]).
Qed.

Lemma parseObjectArgs_msame fuel c : msame (parseObjectArgs fuel c).
Proof. apply (mblock_all fuel). Qed.

Lemma popAll_go_msame fuel : msame (popAll_go fuel).
Proof. induction fuel as [|fuel IH]; cbn [popAll_go]; [apply msame_outOfFuel|]. msame_tac. apply IH. Qed.

(** ---- in the mode of the deferred pass no pOpIntNamePathOrMethodCall object appears ---- *)
Definition NN (s s' : pstate) : Prop :=
  forall i o, tget (p_tree s') i = Some o -> o_opcode o = aml_pOpIntNamePathOrMethodCall ->
    exists o0, tget (p_tree s) i = Some o0 /\ o_opcode o0 = aml_pOpIntNamePathOrMethodCall.

Lemma NN_tree s s' : p_tree s' = p_tree s -> NN s s'.
Proof. intros E i o Ho Hop. rewrite E in Ho. eauto. Qed.

Lemma NN_trans s s1 s2 : NN s s1 -> NN s1 s2 -> NN s s2.
Proof. intros A B i o Ho Hop. destruct (B i o Ho Hop) as (o1 & Ho1 & Hop1). exact (A i o1 Ho1 Hop1). Qed.

Definition nnp {A} (m : M A) : Prop :=
  forall s a s', m s = Ok (a, s') -> p_allBlocks s = true -> p_allBlocks s' = true /\ NN s s'.

Lemma nnp_bind {A B} (m : M A) (f : A -> M B) : nnp m -> (forall a, nnp (f a)) -> nnp (bindM m f).
Proof.
  intros Hm Hf s b s' H Hmd. unfold bindM in H. destruct (m s) as [[a s1]| |] eqn:E; try discriminate.
  destruct (Hm _ _ _ E Hmd) as (M1 & N1). destruct (Hf a _ _ _ H M1) as (M2 & N2). split; [exact M2|exact (NN_trans _ _ _ N1 N2)].
Qed.
Lemma nnp_if {A} (b : bool) (m1 m2 : M A) : nnp m1 -> nnp m2 -> nnp (if b then m1 else m2).
Proof. destruct b; auto. Qed.
Lemma nnp_getmode {B} (f : bool -> M B) : nnp (f true) -> nnp (bindM (Parser.get p_allBlocks) f).
Proof. intros Hf s b s' H Hmd. unfold bindM, Parser.get in H. rewrite Hmd in H. exact (Hf _ _ _ H Hmd). Qed.
Lemma nnp_stay {A} (m : M A) : msame m -> notree m -> nnp m.
Proof. intros Hm Ht s a s' H Hmd. split; [rewrite (Hm _ _ _ H); exact Hmd|apply NN_tree; exact (Ht _ _ _ H)]. Qed.
Lemma nnp_fail {A} (m : M A) : (forall s, m s = Panic \/ m s = OutOfFuel) -> nnp m.
Proof. intros H s a s' E. destruct (H s) as [F|F]; rewrite F in E; discriminate. Qed.

Lemma nnp_wrf p f : (forall o, o_opcode (f o) = aml_pOpIntNamePathOrMethodCall -> o_opcode o = aml_pOpIntNamePathOrMethodCall) -> nnp (wrf p f).
Proof.
  intros Hf s a s' H Hmd. split; [rewrite (msame_tu _ _ _ _ H); exact Hmd|].
  intros i o Ho Hop. unfold wrf, tu in H. destruct (wr (p_tree s) p f) as [t'| |] eqn:E; try discriminate.
  inversion H; subst. destruct (wr_inv _ _ _ _ E) as (-> & _). cbn [p_tree with_tree] in Ho. rewrite get_tset in Ho.
  destruct (N.eqb_spec i p) as [->|_]; [|eauto].
  destruct (tget (p_tree s) p) as [o0|] eqn:E0; cbn [option_map] in Ho; [|discriminate]. inversion Ho; subst o.
  exists o0. split; [reflexivity|apply Hf; exact Hop].
Qed.

Lemma nnp_newObj opc : opc <> aml_pOpIntNamePathOrMethodCall -> nnp (newObj opc).
Proof.
  intros Hne s a s' H Hmd. split; [rewrite (msame_newObj _ _ _ _ H); exact Hmd|].
  intros i o Ho Hop. unfold newObj in H. destruct (newObject (p_tree s) opc (p_handle s)) as [[t' p]| |] eqn:E; try discriminate.
  inversion H; subst a s'. cbn [p_tree with_tree] in Ho.
  destruct (newObject_shape _ _ _ _ _ E) as ((po & Hpo & Hpop & _) & _ & Hbw & _).
  destruct (N.eq_dec i p) as [->|Hip].
  - exfalso. assert (Epo : po = o) by congruence. rewrite Epo in Hpop. rewrite Hop in Hpop. apply Hne. symmetry. exact Hpop.
  - exists o. split; [apply (Hbw i o Hip Ho)|exact Hop].
Qed.

Lemma nnp_tu_pframe (f : T -> outcome T) : (forall t t', f t = Ok t' -> pframe t t') -> nnp (tu f).
Proof.
  intros Hf s a s' H Hmd. split; [rewrite (msame_tu _ _ _ _ H); exact Hmd|].
  intros i o Ho Hop. unfold tu in H. destruct (f (p_tree s)) as [t'| |] eqn:E; try discriminate.
  inversion H; subst. cbn [p_tree with_tree] in Ho. destruct (pframe_inv _ _ _ _ (Hf _ _ E) Ho) as (o0 & Ho0 & E0 & _).
  exists o0. split; [exact Ho0|congruence].
Qed.

Lemma notree_panic {A} : notree (@panic A).
Proof. intros s a s' H. discriminate. Qed.
Lemma notree_outOfFuel {A} : notree (@outOfFuel A).
Proof. intros s a s' H. discriminate. Qed.
Lemma notree_scopeEnter i : notree (scopeEnter i).
Proof. intros s a s' H. inversion H; subst. reflexivity. Qed.
Lemma notree_scopeExit : notree scopeExit.
Proof. intros s a s' H. unfold scopeExit in H. destruct (p_scopeStack s); try discriminate. inversion H; subst. reflexivity. Qed.
Lemma notree_popPkgEnd : notree popPkgEnd.
Proof.
  intros s a s' H. unfold popPkgEnd in H. destruct (match p_pkgEndStack s with [] => [] | _ :: rest => rest end); inversion H; subst; reflexivity.
Qed.
Lemma notree_info i : notree (info i).
Proof. unfold info. destruct (opInfo i); [apply notree_ret|apply notree_panic]. Qed.
Lemma notree_liftf {A} (f : pstate -> outcome A) : notree (fun s => lift (f s) s).
Proof. intros s a s' H. unfold lift in H. destruct (f s); try discriminate. inversion H; subst. reflexivity. Qed.
Lemma notree_upd (f : pstate -> pstate) : (forall s, p_tree (f s) = p_tree s) -> notree (fun s => Ok (tt, f s)).
Proof. intros Hf s a s' H. inversion H; subst. apply Hf. Qed.

(** nextOpcode never accepts the internal opcode pOpIntNamePathOrMethodCall (its row in the lookup map is badOpcode) *)
Lemma nextOpcode_not_npc r op r' : nextOpcode r = Ok (op, true, r') -> op <> aml_pOpIntNamePathOrMethodCall.
Proof.
  unfold nextOpcode. destruct (readByte r) as [[nx r1]| |]; cbn [bind]; try discriminate.
  destruct nx as [next|]; [|discriminate].
  assert (K : forall o l rr, match opcodeTableIndex o false with
                             | None => Panic
                             | Some idx => if idx =? aml_badOpcode then Ok (0xffff, false, setOffset rr (w32 (r_offset rr + two32 - l)))
                                           else Ok (o, true, rr) end = Ok (op, true, r') -> op <> aml_pOpIntNamePathOrMethodCall).
  { intros o l rr H. destruct (opcodeTableIndex o false) as [idx|] eqn:E; [|discriminate].
    destruct (idx =? aml_badOpcode) eqn:Eb; [discriminate|]. inversion H; subst. intros F. rewrite F in E. vm_compute in E.
    inversion E; subst idx. vm_compute in Eb. discriminate. }
  destruct (next =? aml_extOpPrefix).
  - destruct (readByte r1) as [[nx2 r2]| |]; cbn [bind]; try discriminate. destruct nx2 as [next2|]; [|discriminate]. apply K.
  - apply K.
Qed.

Lemma peekNextOpcode_not_npc r op r' : peekNextOpcode r = Ok (op, true, r') -> op <> aml_pOpIntNamePathOrMethodCall.
Proof.
  unfold peekNextOpcode. destruct (nextOpcode r) as [[[op1 ok1] r1]| |] eqn:E; cbn [bind]; try discriminate.
  intros H. inversion H; subst. exact (nextOpcode_not_npc _ _ _ E).
Qed.

Lemma nnp_lex_op {B} (f : reader -> outcome (N * bool * reader)) (k : N * bool -> M B) :
  (forall r op r', f r = Ok (op, true, r') -> op <> aml_pOpIntNamePathOrMethodCall) ->
  (forall op, op <> aml_pOpIntNamePathOrMethodCall -> nnp (k (op, true))) -> (forall op, nnp (k (op, false))) ->
  nnp (bindM (lex f) k).
Proof.
  intros Hf Ht Hn s b s' H Hmd. unfold bindM, lex in H. destruct (f (p_r s)) as [[[op ok] r1]| |] eqn:E; try discriminate.
  assert (Hst : p_allBlocks (with_r s r1) = true) by exact Hmd.
  assert (N0 : NN s (with_r s r1)) by (apply NN_tree; reflexivity).
  destruct ok.
  - destruct (Ht op (Hf _ _ _ E) _ _ _ H Hst) as (M1 & N1). split; [exact M1|exact (NN_trans _ _ _ N0 N1)].
  - destruct (Hn op _ _ _ H Hst) as (M1 & N1). split; [exact M1|exact (NN_trans _ _ _ N0 N1)].
Qed.

Ltac notree_prim2 :=
  first [ apply notree_ret | apply notree_get | apply notree_lex | apply notree_ru | apply notree_setPkgEndM | apply notree_readByteM
        | apply notree_tq | apply notree_lift | apply notree_tableIndex | apply notree_need | apply notree_panic | apply notree_outOfFuel
        | apply notree_scopeEnter | apply notree_scopeExit | apply notree_popPkgEnd | apply notree_info | apply notree_liftf
        | (apply notree_upd; intros; reflexivity) ].

Ltac nnp_prim :=
  first [ (apply nnp_stay; [msame_prim|notree_prim2])
        | (apply nnp_wrf; let o := fresh "o" in intros o;
           cbn [o_opcode set_opcode set_name set_amlOffset set_pkgEnd set_value set_infoIndex]; first [tauto | intros; discriminate])
        | (apply nnp_newObj; first [discriminate | assumption])
        | (apply nnp_tu_pframe; let t := fresh in let t' := fresh in let E := fresh in intros t t' E;
           first [solve [eapply append_pframe; eauto] | solve [eapply appendAfter_pframe; eauto] | solve [eapply detach_pframe; eauto]]) ].

Ltac nnp_unf :=
  unfold rq, offsetM, eofM, curTable, rdf, rdo, objectAt, objectAt', appendM, detachM,
         setOffsetM, pushPkgEnd, bytesOf, scopeCurrent, methodArgCountPanic, streamFuel, fieldByte.

Ltac nnp_tac :=
  repeat first
    [ match goal with |- nnp (bindM (Parser.get p_allBlocks) _) => apply nnp_getmode; cbv beta; cbn [negb] end
    | match goal with
      | |- nnp (bindM (lex nextOpcode) (fun _ => let '(_, _) := _ in _)) =>
          apply nnp_lex_op; [exact nextOpcode_not_npc|intros ? ?; cbv beta iota; cbn [negb]|intros ?; cbv beta iota; cbn [negb]]
      | |- nnp (bindM (lex peekNextOpcode) (fun _ => let '(_, _) := _ in _)) =>
          apply nnp_lex_op; [exact peekNextOpcode_not_npc|intros ? ?; cbv beta iota; cbn [negb]|intros ?; cbv beta iota; cbn [negb]]
      end
    | nnp_prim | apply nnp_if | (apply nnp_bind; [|intros ?])
    | match goal with |- nnp (match ?x with _ => _ end) => destruct x end
    | match goal with |- nnp (let '(_, _) := ?x in _) => destruct x end ].

Lemma parseByteList_nnp obj n : nnp (parseByteList obj n).
Proof. unfold parseByteList. nnp_unf. nnp_tac. Qed.

Lemma parseSimpleArg_nnp ty : nnp (parseSimpleArg ty).
Proof. unfold parseSimpleArg. nnp_unf. cbv zeta. nnp_tac. Qed.

Lemma readName_go_nnp field cnt : forall i, nnp (readName_go cnt i field).
Proof. induction cnt as [|cnt IH]; intros i; cbn [readName_go]; nnp_unf; nnp_tac; apply IH. Qed.

Lemma fieldElements_go_nnp fuel : forall curObj f, nnp (fieldElements_go fuel curObj f).
Proof.
  induction fuel as [|fuel IH]; intros curObj f; cbn [fieldElements_go]; [apply nnp_fail; intros; right; reflexivity|].
  nnp_unf. nnp_tac; first [apply IH | apply readName_go_nnp | apply parseByteList_nnp | idtac].
Qed.

Lemma parseFieldElements_nnp curObj : nnp (parseFieldElements curObj).
Proof. unfold parseFieldElements. nnp_unf. nnp_tac; apply fieldElements_go_nnp. Qed.


Definition nblock (fuel : nat) : Prop :=
  nnp (parseNextObject fuel) /\ (forall c, nnp (parseObjectArgs fuel c)) /\
  (forall inf c i, nnp (parseArgs fuel inf c i)) /\ (forall inf c ty, nnp (parseArg fuel inf c ty)) /\
  nnp (termList_go fuel) /\ nnp (parseNamePathOrMethodCall fuel) /\ (forall n, nnp (callArgs_go fuel n)) /\
  (forall c, nnp (parseStrictTermArg fuel c)) /\ nnp (parseTarget fuel).

Ltac nrec H1 H2 H3 H4 H5 H6 H7 H8 H9 :=
  first [ apply H1 | apply H2 | apply H3 | apply H4 | apply H5 | apply H6 | apply H7 | apply H8 | apply H9
        | apply parseSimpleArg_nnp | apply parseByteList_nnp | apply parseFieldElements_nnp | apply fieldElements_go_nnp ].

Lemma nblock_all : forall fuel, nblock fuel.
Proof.
  induction fuel as [|fuel (H1 & H2 & H3 & H4 & H5 & H6 & H7 & H8 & H9)].
  - unfold nblock. repeat match goal with |- _ /\ _ => split end; intros; cbn; apply nnp_fail; intros; right; reflexivity.
  - unfold nblock. repeat match goal with |- _ /\ _ => split end; intros.
    + cbn [parseNextObject]. nnp_unf. repeat (first [nrec H1 H2 H3 H4 H5 H6 H7 H8 H9 | progress nnp_tac]).
    + cbn [parseObjectArgs]. nnp_unf. repeat (first [nrec H1 H2 H3 H4 H5 H6 H7 H8 H9 | progress nnp_tac]).
    + cbn [parseArgs]. destruct inf as [[? ?] ?]. nnp_unf. repeat (first [nrec H1 H2 H3 H4 H5 H6 H7 H8 H9 | progress nnp_tac]).
    + cbn [parseArg]. destruct inf as [[? ?] ?]. nnp_unf. repeat (first [nrec H1 H2 H3 H4 H5 H6 H7 H8 H9 | progress nnp_tac]).
    + cbn [termList_go]. nnp_unf. repeat (first [nrec H1 H2 H3 H4 H5 H6 H7 H8 H9 | progress nnp_tac]).
    + cbn [parseNamePathOrMethodCall]. nnp_unf. repeat (first [nrec H1 H2 H3 H4 H5 H6 H7 H8 H9 | progress nnp_tac]).
    + cbn [callArgs_go]. nnp_unf. repeat (first [nrec H1 H2 H3 H4 H5 H6 H7 H8 H9 | progress nnp_tac]).
    + cbn [parseStrictTermArg]. nnp_unf. repeat (first [nrec H1 H2 H3 H4 H5 H6 H7 H8 H9 | progress nnp_tac]).
    + cbn [parseTarget]. nnp_unf. repeat (first [nrec H1 H2 H3 H4 H5 H6 H7 H8 H9 | progress nnp_tac]).
Qed.

Lemma parseObjectArgs_nnp fuel c : nnp (parseObjectArgs fuel c).
Proof. apply (nblock_all fuel). Qed.

Lemma popAll_go_nnp fuel : nnp (popAll_go fuel).
Proof. induction fuel as [|fuel IH]; cbn [popAll_go]; [apply nnp_fail; intros; right; reflexivity|]. nnp_tac. apply IH. Qed.
