(** C12 (stretch): connectNonNamedObjArgs (the last pass of ParseAML) never panics and keeps C13's tree relation.
    For every object that is not named and lacks arguments, attachSiblingsAsArgs(useParent = true) moves the siblings that
    follow it - and then the siblings that follow its parent - below it. *)
From Coq Require Import NArith Arith List Bool Lia.
From Coq Require Import ZifyBool ZifyN ZifyNat.
From FF Require Import Lib.Word Gen.Consts_device_acpi_aml Gen.Consts_aml_tree Aml.Stream Aml.Lex Aml.LexProofs
  Aml.Tree Aml.Parser Aml.ParserProofs Aml.TreeSpec Aml.TreeProofs Aml.TreeProofsOps Aml.TreeProofsFind
  Aml.ParserTotalTree Aml.ParserTotalTree2 Aml.ParserTotalLex Aml.ParserTotalTable Aml.ParserTotalBase Aml.ParserTotalLeaf
  Aml.ParserTotalConn.
Import ListNotations.
Local Open Scope N_scope.

(** ---- moving an object from one parent to another ---- *)
Lemma move_wp P par x target pre post (m : M pres) s g (Q : pres -> pstate -> Prop) :
  TI s g -> kids g par = pre ++ x :: post -> glive g target -> target <> par -> ~ desc g x target ->
  (forall t2,
     let g2 := astep (astep g (OpDetach par x)) (OpAppend target x) in
     TI (with_tree s t2) g2 -> kids g2 par = pre ++ post -> kids g2 target = kids g target ++ [x] ->
     (forall q, q <> par -> q <> target -> kids g2 q = kids g q) ->
     (forall S : N -> Prop, S par -> S target -> S x -> reloc g g2 S) ->
     (forall r, groot g r -> groot g2 r) ->
     pframe (p_tree s) t2 ->
     wp P m (with_tree s t2) Q) ->
  wp P (detachM (Some par) (Some x) ;;; appendM (Some target) x ;;; m) s Q.
Proof.
  intros H Hk Hlt Hne Hnd K. pose proof (ti_R _ _ H) as HR.
  assert (Hin : In x (kids g par)) by (rewrite Hk; apply in_or_app; right; left; reflexivity).
  pose proof (R_gwf _ _ HR) as Hwf. destruct (Hwf _ _ Hin) as (Hlp & Hlx).
  destruct (TI_live_get _ _ _ H Hlp) as (po & Hpo & Hlpo).
  destruct (R_kids _ _ HR _ _ Hpo Hlpo) as (_ & _ & _ & Hnd0). rewrite Hk in Hnd0.
  destruct (detach_full (p_tree s) g par x HR Hin) as (t1 & E1 & HR1 & Hpf1).
  apply wp_bind. apply wp_detachM. exists t1. split; [exact E1|].
  set (g1 := astep g (OpDetach par x)) in *.
  assert (H1 : TI (with_tree s t1) g1) by (eapply TI_pframe; eauto).
  assert (Hplt : par < N.of_nat (length (g_kids g))) by (apply glive_lt; exact Hlp).
  assert (Hk1 : kids g1 par = pre ++ post).
  { unfold g1. cbn [astep]. rewrite kids_set_kids by exact Hplt. rewrite N.eqb_refl, Hk.
    apply remove1_split. apply NoDup_remove_2 in Hnd0. intros Hi. apply Hnd0. apply in_or_app. left. exact Hi. }
  assert (Hk1' : forall q, q <> par -> kids g1 q = kids g q).
  { intros q Hq. unfold g1. cbn [astep]. rewrite kids_set_kids by exact Hplt. apply N.eqb_neq in Hq. rewrite Hq. reflexivity. }
  assert (Hsub1 : forall p c, In c (kids g1 p) -> In c (kids g p)).
  { intros p c. destruct (N.eq_dec p par) as [->|Hq]; [|rewrite Hk1' by exact Hq; auto].
    rewrite Hk1, Hk. intros Hi. apply in_app_or in Hi. apply in_or_app. destruct Hi; [left|right; right]; assumption. }
  assert (Hshape1 : forall y, glive g y -> glive g1 y) by (intros y Hy; unfold g1; cbn [astep]; apply glive_set_kids; exact Hy).
  assert (Hroot1 : groot g1 x).
  { intros q Hq. destruct (N.eq_dec q par) as [->|Hq'].
    - rewrite Hk1 in Hq. apply NoDup_remove_2 in Hnd0. contradiction.
    - rewrite Hk1' in Hq by exact Hq'. apply Hq'. eapply (R_parent_unique _ _ HR); eauto. }
  assert (Hnd1 : ~ desc g1 x target) by (intros Hd; apply Hnd; eapply desc_mono; eauto).
  destruct (append_full2 (p_tree (with_tree s t1)) g1 target x HR1 (Hshape1 _ Hlt) (Hshape1 _ Hlx) Hroot1 Hnd1) as (t2 & E2 & HR2 & Hpf2).
  apply wp_bind. apply wp_appendM. exists t2. split; [exact E2|].
  set (g2 := astep g1 (OpAppend target x)) in *.
  assert (H2 : TI (with_tree (with_tree s t1) t2) g2) by (eapply TI_pframe; eauto).
  assert (Htlt : target < N.of_nat (length (g_kids g1))) by (apply glive_lt; apply Hshape1; exact Hlt).
  assert (Hk2 : forall q, kids g2 q = if q =? target then kids g1 target ++ [x] else kids g1 q).
  { intros q. unfold g2. cbn [astep]. rewrite kids_set_kids by exact Htlt. destruct (q =? target) eqn:E; [apply N.eqb_eq in E; subst|]; reflexivity. }
  apply (K t2); [exact H2| | | | | |eapply pframe_trans; [exact Hpf1|exact Hpf2]].
  - rewrite Hk2. apply not_eq_sym in Hne. apply N.eqb_neq in Hne. rewrite Hne. exact Hk1.
  - rewrite Hk2, N.eqb_refl, Hk1' by exact Hne. reflexivity.
  - intros q Hq1 Hq2. rewrite Hk2. apply N.eqb_neq in Hq2. rewrite Hq2. apply Hk1'. exact Hq1.
  - intros S HSp HSt HSx. eapply reloc_trans; [apply (reloc_detach g par x S Hplt HSp)|]. apply (reloc_append g1 target x S Htlt HSt HSx).
  - intros r Hr q Hq. rewrite Hk2 in Hq. destruct (q =? target) eqn:Eqt.
    + apply in_app_or in Hq. destruct Hq as [Hq|[Hq|[]]].
      * apply (Hr target). apply Hsub1. exact Hq.
      * subst r. apply (Hr par). exact Hin.
    + apply (Hr q). apply Hsub1. exact Hq.
Qed.

(** ---- attachSiblingsAsArgs with useParent = true ---- *)
Definition ctx (g : ghost) (P : N) (GP : option N) (m1 m2 : list N) : Prop :=
  match GP with Some gp => kids g gp = m1 ++ P :: m2 | None => groot g P /\ m2 = [] end.

Definition top (P : N) (GP : option N) : N := match GP with Some gp => gp | None => P end.

Definition sib_ok (l2 m2 : list N) (sib : N) : Prop :=
  match l2 with x :: _ => sib = x | [] => sib = InvalidIndex \/ sib = hd InvalidIndex m2 end.

Lemma desc_top g P GP m1 m2 : ctx g P GP m1 m2 -> desc g (top P GP) P.
Proof.
  destruct GP as [gp|]; cbn [ctx top]; [|intros _; constructor].
  intros Hk. eapply desc_step; [constructor|]. rewrite Hk. apply in_or_app. right. left. reflexivity.
Qed.

Lemma grandchild_neq s g gp P x : TI s g -> In P (kids g gp) -> In x (kids g P) -> x <> gp.
Proof.
  intros H HP Hx E. subst x. pose proof (ti_R _ _ H) as HR.
  apply (child_not_desc _ _ HR _ _ HP). eapply desc_step; [constructor|exact Hx].
Qed.

(** the row of a name-path object (no arguments): such an object never receives siblings *)
Definition tgt (s : pstate) (target : N) : Prop := exists o, tget (p_tree s) target = Some o /\ o_infoIndex o <> npIdx.

Lemma tgt_pframe s (t2 : T) target : tgt s target -> pframe (p_tree s) t2 -> tgt (with_tree s t2) target.
Proof.
  intros (o & Ho & Hn) Hpf. destruct (proj2 Hpf _ _ Ho) as (o2 & Ho2 & (_ & E2 & _)). exists o2. split; [exact Ho2|]. rewrite E2. exact Hn.
Qed.

Lemma np_row op fl af : opInfo npIdx = Some (op, fl, af) -> (argCount af <=? termArgIndex af) = true.
Proof. intros H. vm_compute in H. injection H as _ _ <-. reflexivity. Qed.

Definition Kmove (K : T -> ghost -> Prop) : Prop := forall s g par x target pre post (t2 : T),
  TI s g -> K (p_tree s) g -> kids g par = pre ++ x :: post -> glive g target -> target <> par -> tgt s target ->
  ((exists pre', pre = pre' ++ [target]) \/ (exists pre' P l1, pre = pre' ++ [P] /\ kids g P = l1 ++ [target])) ->
  let g2 := astep (astep g (OpDetach par x)) (OpAppend target x) in
  TI (with_tree s t2) g2 -> kids g2 par = pre ++ post -> kids g2 target = kids g target ++ [x] ->
  (forall q, q <> par -> q <> target -> kids g2 q = kids g q) -> pframe (p_tree s) t2 ->
  K t2 g2.

Definition KT : T -> ghost -> Prop := fun _ _ => True.
Lemma KT_move : Kmove KT.
Proof. unfold Kmove. intros. exact I. Qed.

Section Inv.
(** an invariant [K] of the rearrangements: it survives the move of [x] - the sibling that follows [target] or, when [target] is
    the last child of [P], the sibling that follows [P] - to the end of [target]'s child list, [target] not carrying the name-path row *)
Variable K : T -> ghost -> Prop.
Hypothesis K_move : Kmove K.

(** what attachSiblingsAsArgs leaves alone: every child list but those of [P], of [target] and of the parent of [P] *)
Definition others (g g' : ghost) (P target : N) (GP : option N) : Prop :=
  forall q, q <> P -> q <> target -> q <> top P GP -> kids g' q = kids g q.

Definition a2post (s : pstate) (g : ghost) (P target : N) (GP : option N) (l1 l2 m1 m2 : list N) (s' : pstate) : Prop :=
  exists g' l2' m2',
     TI s' g' /\ reloc g g' (desc g (top P GP)) /\ kids g' P = l1 ++ target :: l2' /\ ctx g' P GP m1 m2' /\ (forall r, groot g r -> groot g' r) /\
     pframe (p_tree s) (p_tree s') /\ K (p_tree s') g' /\
     (length l2' <= length l2)%nat /\ (length m2' <= length m2)%nat /\ others g g' P target GP.

(** out of fuel only if the fuel is at most the number of siblings that can still be taken *)
Lemma attach2_spec : forall fuel P target sib n s g l1 l2 GP m1 m2,
  TI s g -> glive g P -> kids g P = l1 ++ target :: l2 -> ctx g P GP m1 m2 -> sib_ok l2 m2 sib -> K (p_tree s) g -> tgt s target ->
  wp (fuel <= length l2 + length m2)%nat (attachSiblings_go fuel P target sib n true) s (fun r s' => a2post s g P target GP l1 l2 m1 m2 s').
Proof.
  induction fuel as [|fuel IH]; intros P target sib n s g l1 l2 GP m1 m2 H HlP Hk Hctx Hsib HK Htg; cbn [attachSiblings_go].
  { apply wp_outOfFuel. lia. }
  pose proof (ti_R _ _ H) as HR. pose proof (R_gwf _ _ HR) as Hwf.
  assert (Hdone : forall (PP : Prop) (r : pres), wp PP (ret r) s (fun r s' => a2post s g P target GP l1 l2 m1 m2 s')).
  { intros PP r. apply wp_ret. exists g, l2, m2. split; auto. split; [apply reloc_refl|]. split; auto. split; auto. split; auto. split; [apply pframe_refl|].
    split; [exact HK|]. split; [lia|]. split; [lia|]. intros q _ _ _. reflexivity. }
  destruct (n =? 0); [apply Hdone|].
  rewrite andb_true_r.
  assert (Hin_t : In target (kids g P)) by (rewrite Hk; apply in_or_app; right; left; reflexivity).
  destruct (Hwf _ _ Hin_t) as (_ & Hlt).
  assert (Hne_tP : target <> P) by (eapply (R_child_neq_parent _ _ HR); eauto).
  assert (HStop : desc g (top P GP) (top P GP)) by constructor.
  assert (HSP : desc g (top P GP) P) by (eapply desc_top; eauto).
  assert (HSt : desc g (top P GP) target) by (eapply desc_step; [exact HSP|exact Hin_t]).
  (* the continuation after a move *)
  assert (Hrec : forall s2 g2 l2' m2' sib', TI s2 g2 -> reloc g g2 (desc g (top P GP)) -> kids g2 P = l1 ++ target :: l2' ->
            ctx g2 P GP m1 m2' -> sib_ok l2' m2' sib' -> (forall r, groot g r -> groot g2 r) -> pframe (p_tree s) (p_tree s2) ->
            K (p_tree s2) g2 -> tgt s2 target ->
            (length l2' <= length l2)%nat -> (length m2' <= length m2)%nat -> (length l2' + length m2' < length l2 + length m2)%nat ->
            others g g2 P target GP ->
            wp (Datatypes.S fuel <= length l2 + length m2)%nat (attachSiblings_go fuel P target sib' (n - 1) true) s2
               (fun r s' => a2post s g P target GP l1 l2 m1 m2 s')).
  { intros s2 g2 l2' m2' sib' H2 Rl2 Hk2 Hc2 Hs2 Hroots2 Hpf2 HK2 Htg2 Hl1' Hl2' Hlt' Hoth2.
    assert (HlP2 : glive g2 P) by (apply (reloc_glive _ _ _ P Rl2); exact HlP).
    eapply wp_weaken; [apply (IH P target sib' (n - 1) s2 g2 l1 l2' GP m1 m2' H2 HlP2 Hk2 Hc2 Hs2 HK2 Htg2)|lia|].
    intros r s' (g' & l2'' & m2'' & F1 & F2 & F3 & F4 & F5 & F6 & F7 & F8 & F9 & F10). exists g', l2'', m2''. split; auto.
    split; [eapply reloc_chain; [apply closed_desc|exact HStop|exact Rl2|exact F2]|].
    split; auto. split; auto. split; auto. split; [eapply pframe_trans; eauto|]. split; [exact F7|]. split; [lia|]. split; [lia|].
    intros q Q1 Q2 Q3. rewrite (F10 q Q1 Q2 Q3). apply (Hoth2 q Q1 Q2 Q3). }
  destruct l2 as [|x l2r].
  - (* the siblings of the target are used up: the siblings of the parent *)
    cbn [sib_ok] in Hsib.
    assert (Heff : forall (PP : Prop) (Q : N -> pstate -> Prop), Q (hd InvalidIndex m2) s ->
              wp PP (if sib =? InvalidIndex then rdf P o_next else ret sib) s Q).
    { intros PP Q HQ. destruct Hsib as [->| ->].
      - rewrite N.eqb_refl. destruct GP as [gp|]; cbn [ctx] in Hctx.
        + assert (Hlgp : glive g gp) by (apply (Hwf gp P); rewrite Hctx; apply in_or_app; right; left; reflexivity).
          destruct (sibling_links _ _ HR gp m1 P m2 Hlgp Hctx) as (o & Ho & _ & _ & _ & Hnx & _).
          apply wp_rdf. exists o. split; [exact Ho|]. rewrite Hnx. exact HQ.
        + destruct Hctx as (Hroot & ->). destruct (root_links _ _ HR P HlP Hroot) as (o & Ho & _ & _ & Hnx).
          apply wp_rdf. exists o. split; [exact Ho|]. rewrite Hnx. exact HQ.
      - destruct (hd InvalidIndex m2 =? InvalidIndex) eqn:E.
        + apply N.eqb_eq in E. destruct GP as [gp|]; cbn [ctx] in Hctx.
          * assert (Hlgp : glive g gp) by (apply (Hwf gp P); rewrite Hctx; apply in_or_app; right; left; reflexivity).
            destruct (sibling_links _ _ HR gp m1 P m2 Hlgp Hctx) as (o & Ho & _ & _ & _ & Hnx & _).
            apply wp_rdf. exists o. split; [exact Ho|]. rewrite Hnx. exact HQ.
          * destruct Hctx as (Hroot & ->). destruct (root_links _ _ HR P HlP Hroot) as (o & Ho & _ & _ & Hnx).
            apply wp_rdf. exists o. split; [exact Ho|]. rewrite Hnx. exact HQ.
        + apply wp_ret. exact HQ. }
    apply wp_bind. apply Heff.
    destruct (N.eqb_spec (hd InvalidIndex m2) InvalidIndex) as [Eu|Eu]; [apply Hdone|].
    destruct (hd_nonempty _ _ _ eq_refl Eu) as (m2r & Em2). set (u := hd InvalidIndex m2) in *. clearbody u. subst m2.
    destruct GP as [gp|]; cbn [ctx] in Hctx; [|destruct Hctx as (_ & E); discriminate].
    assert (Hin_P : In P (kids g gp)) by (rewrite Hctx; apply in_or_app; right; left; reflexivity).
    assert (Hin_u : In u (kids g gp)) by (rewrite Hctx; apply in_or_app; right; right; left; reflexivity).
    destruct (Hwf _ _ Hin_u) as (Hlgp & Hlu).
    destruct (TI_live_get _ _ _ H Hlgp) as (gpo & Hgpo & Hlgpo).
    destruct (R_kids _ _ HR _ _ Hgpo Hlgpo) as (_ & _ & _ & Hndg). rewrite Hctx in Hndg.
    assert (Hne_uP : u <> P).
    { intros E. subst u. apply NoDup_remove_2 in Hndg. apply Hndg. apply in_or_app. right. left. reflexivity. }
    replace (m1 ++ P :: u :: m2r) with ((m1 ++ [P]) ++ u :: m2r) in Hctx by (rewrite <- app_assoc; reflexivity).
    destruct (sibling_links _ _ HR gp _ u m2r Hlgp Hctx) as (uo & Huo & _ & Hupar & _ & Hunx & _).
    apply wp_bind, wp_get. rewrite (TI_ObjectAt _ _ _ H Hlu). apply wp_bind. cbn [need]. apply wp_ret.
    apply wp_bind. apply wp_rdf. exists uo. split; [exact Huo|]. rewrite Hunx.
    apply wp_bind. apply wp_rdf. exists uo. split; [exact Huo|]. rewrite Hupar.
    apply wp_bind, wp_get. rewrite (TI_ObjectAt _ _ _ H Hlgp).
    assert (Hne_tgp : target <> gp) by (apply (grandchild_neq s g gp P target H Hin_P Hin_t)).
    eapply (move_wp _ gp u target (m1 ++ [P]) m2r _ s g); [exact H|exact Hctx|exact Hlt|exact Hne_tgp| |].
    { eapply (uncle_not_desc _ _ HR gp P u target); eauto. }
    intros t2 g2 H2 Hk2 Hkt2 Hko2 Hrl2 Hroots2 Hpf2.
    assert (HK2 : K t2 g2).
    { apply (K_move s g gp u target (m1 ++ [P]) m2r t2 H HK Hctx Hlt Hne_tgp Htg); auto.
      right. exists m1, P, l1. split; [reflexivity|exact Hk]. }
    apply (Hrec _ g2 [] m2r (hd InvalidIndex m2r)); auto; try (cbn [length]; lia).
    + apply Hrl2; [exact HStop| exact HSt|]. eapply desc_step; [constructor|exact Hin_u].
    + rewrite Hko2; auto. intros E. apply (R_child_neq_parent _ _ HR _ _ Hin_P). exact E.
    + cbn [ctx]. rewrite Hk2, <- app_assoc. reflexivity.
    + cbn [sib_ok]. right. reflexivity.
    + apply tgt_pframe; auto.
    + intros q Q1 Q2 Q3. cbn [top] in Q3. apply Hko2; auto.
  - (* a following sibling of the target *)
    cbn [sib_ok] in Hsib. subst sib.
    assert (Hin_x : In x (kids g P)) by (rewrite Hk; apply in_or_app; right; right; left; reflexivity).
    destruct (Hwf _ _ Hin_x) as (_ & Hlx).
    assert (Ex : (x =? InvalidIndex) = false).
    { destruct (TI_live_get _ _ _ H Hlx) as (o & Ho & _). apply N.eqb_neq. eapply (R_pos_not_Inv _ _ HR); eauto. }
    rewrite Ex. apply wp_bind. apply wp_ret. rewrite Ex.
    destruct (TI_live_get _ _ _ H HlP) as (po & Hpo & Hlpo).
    destruct (R_kids _ _ HR _ _ Hpo Hlpo) as (_ & _ & _ & Hnd). rewrite Hk in Hnd.
    assert (Hne_xt : x <> target).
    { intros E. subst x. apply NoDup_remove_2 in Hnd. apply Hnd. apply in_or_app. right. left. reflexivity. }
    replace (l1 ++ target :: x :: l2r) with ((l1 ++ [target]) ++ x :: l2r) in Hk by (rewrite <- app_assoc; reflexivity).
    destruct (sibling_links _ _ HR P _ x l2r HlP Hk) as (xo & Hxo & _ & Hxpar & _ & Hxnx & _).
    apply wp_bind, wp_get. rewrite (TI_ObjectAt _ _ _ H Hlx). apply wp_bind. cbn [need]. apply wp_ret.
    apply wp_bind. apply wp_rdf. exists xo. split; [exact Hxo|]. rewrite Hxnx.
    apply wp_bind. apply wp_rdf. exists xo. split; [exact Hxo|]. rewrite Hxpar.
    apply wp_bind, wp_get. rewrite (TI_ObjectAt _ _ _ H HlP).
    eapply (move_wp _ P x target (l1 ++ [target]) l2r _ s g); [exact H|exact Hk|exact Hlt|exact Hne_tP| |].
    { intros Hd. apply Hne_xt. symmetry. eapply (sibling_not_desc _ _ HR P x target); eauto. }
    intros t2 g2 H2 Hk2 Hkt2 Hko2 Hrl2 Hroots2 Hpf2.
    assert (HK2 : K t2 g2).
    { apply (K_move s g P x target (l1 ++ [target]) l2r t2 H HK Hk Hlt Hne_tP Htg); auto.
      left. exists l1. reflexivity. }
    apply (Hrec _ g2 l2r m2 (hd InvalidIndex l2r)); auto; try (cbn [length]; lia).
    + apply Hrl2; [exact HSP|exact HSt|]. eapply desc_step; [exact HSP|exact Hin_x].
    + rewrite Hk2, <- app_assoc. reflexivity.
    + destruct GP as [gp|]; cbn [ctx] in Hctx |- *.
      * assert (Hin_P : In P (kids g gp)) by (rewrite Hctx; apply in_or_app; right; left; reflexivity).
        rewrite Hko2; [exact Hctx| |].
        -- intros E. apply (R_child_neq_parent _ _ HR _ _ Hin_P). symmetry. exact E.
        -- intros E. apply (grandchild_neq _ _ _ _ _ H Hin_P Hin_t). symmetry. exact E.
      * destruct Hctx as (Hroot & Em). split; [|exact Em]. intros q Hq.
        destruct (N.eq_dec q P) as [->|Hq1].
        -- rewrite Hk2 in Hq. apply (Hroot P). rewrite Hk. apply in_app_or in Hq. apply in_or_app. destruct Hq; [left|right; right]; assumption.
        -- destruct (N.eq_dec q target) as [->|Hq2].
           ++ rewrite Hkt2 in Hq. apply in_app_or in Hq. destruct Hq as [Hq|[Hq|[]]]; [apply (Hroot target Hq)|].
              subst x. apply (R_child_neq_parent _ _ HR _ _ Hin_x). reflexivity.
           ++ rewrite Hko2 in Hq by assumption. apply (Hroot q Hq).
    + destruct l2r as [|y l2rr]; cbn [sib_ok hd]; [left|]; reflexivity.
    + apply tgt_pframe; auto.
    + intros q Q1 Q2 Q3. apply Hko2; auto.
Qed.

(** ---- connectNonNamedObjArg ---- *)
Definition apost (s : pstate) (g : ghost) (P : N) (GP : option N) (m1 : list N) (s' : pstate) (g' : ghost) (m2' : list N) : Prop :=
  TI s' g' /\ reloc g g' (desc g (top P GP)) /\ ctx g' P GP m1 m2' /\ (forall r, groot g r -> groot g' r) /\
  pframe (p_tree s) (p_tree s') /\ K (p_tree s') g'.

Lemma arg_spec fuel obj arg s g l1 l2 GP m1 m2 :
  TI s g -> glive g obj -> kids g obj = l1 ++ arg :: l2 -> ctx g obj GP m1 m2 -> K (p_tree s) g ->
  wp (fuel <= length l2 + length m2)%nat (connectNonNamedObjArg fuel obj arg) s (fun r s' => exists g' l2' m2',
     apost s g obj GP m1 s' g' m2' /\ kids g' obj = l1 ++ arg :: l2' /\
     (length l2' <= length l2)%nat /\ (length m2' <= length m2)%nat /\ others g g' obj arg GP).
Proof.
  intros H Hl Hk Hctx HK. unfold connectNonNamedObjArg.
  pose proof (ti_R _ _ H) as HR.
  assert (Hin : In arg (kids g obj)) by (rewrite Hk; apply in_or_app; right; left; reflexivity).
  destruct ((R_gwf _ _ HR) _ _ Hin) as (_ & Hla).
  assert (Hdone : forall (PP : Prop) (r : pres), wp PP (ret r) s (fun r s' => exists g' l2' m2',
     apost s g obj GP m1 s' g' m2' /\ kids g' obj = l1 ++ arg :: l2' /\
     (length l2' <= length l2)%nat /\ (length m2' <= length m2)%nat /\ others g g' obj arg GP)).
  { intros PP r. apply wp_ret. exists g, l2, m2. split; [|split; [exact Hk|split; [lia|split; [lia|intros q _ _ _; reflexivity]]]].
    split; auto. split; [apply reloc_refl|]. split; auto. split; auto. split; [apply pframe_refl|exact HK]. }
  destruct (TI_live_get _ _ _ H Hla) as (ao & Hao & Hlao).
  apply wp_bind. apply wp_rdo. exists ao. split; [exact Hao|].
  pose proof (ti_info _ _ H _ _ Hao Hlao) as Hinfo.
  destruct (opInfo (o_infoIndex ao)) as [[[op fl] af]|] eqn:Erow; [|contradiction].
  apply wp_bind. eapply wp_info; [exact Erow|].
  apply wp_bind, wp_get.
  destruct (hasFlag fl aml_pOpFlagNamed || negb (o_tableHandle ao =? p_handle s)); [apply Hdone|].
  assert (Hlive : live (p_tree s) arg) by (apply (R_live_glive _ _ HR); exact Hla).
  apply wp_bind. eapply wp_tq; [apply (NumArgs_spec _ _ HR arg Hlive)|].
  destruct ((argCount af <=? termArgIndex af) || (termArgIndex af <? N.of_nat (length (kids g arg)))) eqn:Ecnt; [apply Hdone|].
  assert (Htg : tgt s arg).
  { exists ao. split; [exact Hao|]. intros E. rewrite E in Erow. rewrite (np_row _ _ _ Erow) in Ecnt. discriminate. }
  unfold attachSiblingsAsArgs.
  destruct (sibling_links _ _ HR obj l1 arg l2 Hl Hk) as (ao' & Hao' & _ & _ & _ & Hnx & _).
  apply wp_bind. apply wp_rdf. exists ao'. split; [exact Hao'|]. rewrite Hnx.
  eapply wp_weaken; [apply (attach2_spec fuel obj arg (hd InvalidIndex l2) _ s g l1 l2 GP m1 m2 H Hl Hk Hctx)|auto|].
  - destruct l2 as [|y l2']; cbn [sib_ok hd]; [left|]; reflexivity.
  - exact HK.
  - exact Htg.
  - intros r s' (g' & l2' & m2' & F1 & F2 & F3 & F4 & F5 & F6 & F7 & F8 & F9 & F10). exists g', l2', m2'.
    split; [split; auto|]. split; [exact F3|]. split; [exact F8|]. split; [exact F9|exact F10].
Qed.

(** ---- the walk ---- *)
Definition wpost (s : pstate) (g : ghost) (x : N) (GP : option N) (m1 m2 : list N) (s' : pstate) : Prop :=
  exists g' m2', apost s g x GP m1 s' g' m2' /\ (length m2' <= length m2)%nat /\
    (forall q, ~ desc g x q -> q <> top x GP -> kids g' q = kids g q).

Definition lpost (s : pstate) (g : ghost) (obj : N) (GP : option N) (m1 m2 l : list N) (s' : pstate) : Prop :=
  exists g' m2', apost s g obj GP m1 s' g' m2' /\ (length m2' <= length m2)%nat /\
    (forall q, (forall c, In c l -> ~ desc g c q) -> q <> obj -> q <> top obj GP -> kids g' q = kids g q).

Definition CNN_spec (fuel : nat) : Prop := forall x s g GP m1 m2, TI s g -> glive g x -> ctx g x GP m1 m2 -> K (p_tree s) g ->
  wp (PO2 g x m2 fuel) (connectNonNamedObjArgs fuel x) s (fun r s' => wpost s g x GP m1 m2 s').

Definition NNloop_spec (fuel : nat) : Prop := forall obj argIndex s g GP m1 m2 l r, TI s g -> glive g obj -> ctx g obj GP m1 m2 -> K (p_tree s) g ->
  kids g obj = l ++ r -> argIndex = last l InvalidIndex ->
  wp (PL2 g l r m2 fuel) (connectNonNamed_loop fuel obj argIndex) s (fun r0 s' => lpost s g obj GP m1 m2 l s').

Lemma step_CNN fuel : NNloop_spec fuel -> CNN_spec (S fuel).
Proof.
  intros IHl x s g GP m1 m2 H Hl Hctx HK. cbn [connectNonNamedObjArgs].
  pose proof (ti_R _ _ H) as HR.
  apply wp_bind. apply wp_objectAt'; [apply (TI_ObjectAt _ _ _ H Hl)|].
  destruct (TI_live_get _ _ _ H Hl) as (o & Ho & Hlo).
  apply wp_bind. apply wp_rdf. exists o. split; [exact Ho|].
  destruct (R_kids _ _ HR _ _ Ho Hlo) as (_ & Hlast & _). rewrite Hlast.
  eapply wp_weaken; [apply (IHl x _ s g GP m1 m2 (kids g x) [] H Hl Hctx HK (eq_sym (app_nil_r _)) eq_refl)| |].
  - intros HP n Hn. inversion Hn as [x' n' Hs]; subst. specialize (HP n' Hs). cbn [length] in HP. lia.
  - intros r s' (g' & m2' & A & B & C). exists g', m2'. split; [exact A|]. split; [exact B|].
    intros q Hq Hqt. apply C; [|intros ->; apply Hq; constructor|exact Hqt].
    intros c Hc Hd. apply Hq. eapply desc_trans2; [eapply desc_step; [constructor|exact Hc]|exact Hd].
Qed.

(** the position of [obj] below its parent survives a rearrangement inside the subtree of [obj] *)
Lemma ctx_inside s g g' obj GP m1 m2 : TI s g -> ctx g obj GP m1 m2 -> reloc g g' (desc g obj) ->
  (forall r, groot g r -> groot g' r) -> ctx g' obj GP m1 m2.
Proof.
  intros H Hctx Rl Hroots. destruct GP as [gp|]; cbn [ctx] in *.
  - rewrite (rl_out _ _ _ Rl); [exact Hctx|]. apply (child_not_desc _ _ (ti_R _ _ H)).
    rewrite Hctx. apply in_or_app. right. left. reflexivity.
  - destruct Hctx as (Hr & E). split; auto.
Qed.

Lemma last_split (l : list N) d : l <> [] -> exists l', l = l' ++ [last l d].
Proof. intros H. exists (removelast l). apply app_removelast_last. exact H. Qed.

Lemma step_NNloop fuel : CNN_spec fuel -> NNloop_spec fuel -> NNloop_spec (S fuel).
Proof.
  intros IHc IHl obj argIndex s g GP m1 m2 l r H Hl Hctx HK Hkl Harg. cbn [connectNonNamed_loop].
  set (S0 := desc g (top obj GP)).
  assert (HS0top : S0 (top obj GP)) by constructor.
  assert (HS0obj : S0 obj) by (eapply desc_top; eauto).
  destruct (N.eqb_spec argIndex InvalidIndex) as [Ei|Ei].
  { apply wp_ret. exists g, m2. split; [split; auto; split; [apply reloc_refl|]; split; auto; split; auto; split; [apply pframe_refl|exact HK]|].
    split; [lia|]. intros q _ _ _. reflexivity. }
  assert (Hne : l <> []) by (intros ->; cbn in Harg; contradiction).
  destruct (last_split l InvalidIndex Hne) as (l' & El). rewrite <- Harg in El. subst l. rewrite <- app_assoc in Hkl. cbn [app] in Hkl.
  assert (Hin : In argIndex (kids g obj)) by (rewrite Hkl; apply in_or_app; right; left; reflexivity).
  pose proof (ti_R _ _ H) as HR. pose proof (R_gwf _ _ HR) as Hwf. destruct (Hwf _ _ Hin) as (_ & Hla).
  apply wp_bind. apply wp_objectAt'; [apply (TI_ObjectAt _ _ _ H Hla)|].
  destruct (TI_live_get _ _ _ H Hla) as (ao0 & Hao0 & Hlao0).
  apply wp_bind. apply wp_rdf. exists ao0. split; [exact Hao0|]. rewrite (R_index _ _ HR _ _ Hao0).
  assert (Hsplit : forall m, szl g (l' ++ [argIndex]) m -> exists a n, szl g l' a /\ sz g argIndex n /\ m = (a + n)%nat).
  { intros m Hm. destruct (szl_app g l' [argIndex] m Hm) as (a & b & A & B & E). exists a, b. split; [exact A|]. split; [apply szl_one; exact B|exact E]. }
  assert (Hin' : forall c, In c l' -> In c (kids g obj)) by (intros c Hc; rewrite Hkl; apply in_or_app; left; exact Hc).
  assert (Hnd : NoDup (l' ++ argIndex :: r)).
  { destruct (TI_live_get _ _ _ H Hl) as (oo & Hoo & Hloo). destruct (R_kids _ _ HR _ _ Hoo Hloo) as (_ & _ & _ & Hn). rewrite Hkl in Hn. exact Hn. }
  assert (Hca : forall c, In c l' -> c <> argIndex).
  { intros c Hc ->. apply NoDup_remove_2 in Hnd. apply Hnd. apply in_or_app. left. exact Hc. }
  (* the subtree of the argument *)
  apply wp_bind. eapply wp_weaken; [apply (IHc argIndex s g (Some obj) l' r H Hla Hkl HK)| |].
  { intros HP m Hm. destruct (Hsplit m Hm) as (a & n & A & B & ->). specialize (HP n B). lia. }
  intros res s1 (g1 & r1 & (H1 & Rl1 & Hk1 & Hroots1 & Hpf1 & HK1) & Hlen1 & HF1). cbn [top ctx] in Rl1, Hk1, HF1.
  assert (Rl1' : reloc g g1 S0).
  { eapply reloc_lift; [|exact Rl1]. intros y Hy. eapply desc_in_closed; [apply closed_desc|exact HS0obj|exact Hy]. }
  assert (Hctx1 : ctx g1 obj GP m1 m2) by (apply (ctx_inside s g g1 obj GP m1 m2 H Hctx Rl1 Hroots1)).
  assert (Hl1 : glive g1 obj) by (apply (reloc_glive _ _ _ obj Rl1); exact Hl).
  pose proof (ti_R _ _ H1) as HR1.
  assert (Hsame1 : forall c y, In c l' -> desc g c y -> kids g1 y = kids g y).
  { intros c y Hc Hd. apply HF1.
    - intros Hd'. apply (Hca c Hc). apply (siblings_disjoint2 (p_tree s) g obj c argIndex y HR (Hin' c Hc) Hin Hd Hd').
    - intros ->. apply (child_not_desc _ _ HR obj c (Hin' c Hc) Hd). }
  assert (Htr1 : forall a, szl g l' a -> szl g1 l' a) by (intros a Ha; apply (proj2 (sz_same g g1) l' a Ha Hsame1)).
  (* what the loop leaves alone, so far *)
  assert (HFq1 : forall q, (forall c, In c (l' ++ [argIndex]) -> ~ desc g c q) -> q <> obj -> kids g1 q = kids g q).
  { intros q Hq Hqo. apply HF1; [apply Hq; apply in_or_app; right; left; reflexivity|exact Hqo]. }
  destruct (negb (pres_eqb res ROk)).
  { apply wp_ret. exists g1, m2. split; [split; auto|]. split; [lia|]. intros q Hq Hqo _. apply HFq1; auto. }
  (* the argument itself *)
  apply wp_bind. eapply wp_weaken; [apply (arg_spec fuel obj argIndex s1 g1 l' r1 GP m1 m2 H1 Hl1 Hk1 Hctx1 HK1)| |].
  { intros HP m Hm. destruct (Hsplit m Hm) as (a & n & A & B & ->). pose proof (sz_pos _ _ _ B). lia. }
  intros r0 s2 (g2 & r2 & m2b & (H2 & Rl2 & Hctx2 & Hroots2 & Hpf2 & HK2) & Hk2 & Hlen2 & Hlenm2 & HF2).
  assert (Hpf02 : pframe (p_tree s) (p_tree s2)) by (eapply pframe_trans; eauto).
  assert (Rl2' : reloc g g2 S0) by (eapply reloc_chain; [apply closed_desc|exact HS0top|exact Rl1'|exact Rl2]).
  assert (Hin1' : forall c, In c l' -> In c (kids g1 obj)) by (intros c Hc; rewrite Hk1; apply in_or_app; left; exact Hc).
  assert (Hin1a : In argIndex (kids g1 obj)) by (rewrite Hk1; apply in_or_app; right; left; reflexivity).
  assert (Hnottop : forall c y, In c l' -> desc g1 c y -> y <> top obj GP).
  { intros c y Hc Hd ->. destruct GP as [gp|]; cbn [top ctx] in *.
    - assert (Hin_o : In obj (kids g1 gp)) by (rewrite Hctx1; apply in_or_app; right; left; reflexivity).
      apply (child_not_desc _ _ HR1 gp obj Hin_o). eapply desc_trans2; [eapply desc_step; [constructor|exact (Hin1' c Hc)]|exact Hd].
    - apply (child_not_desc _ _ HR1 obj c (Hin1' c Hc) Hd). }
  assert (Hsame2 : forall c y, In c l' -> desc g1 c y -> kids g2 y = kids g1 y).
  { intros c y Hc Hd. apply HF2.
    - intros ->. apply (child_not_desc _ _ HR1 obj c (Hin1' c Hc) Hd).
    - intros ->. apply (Hca c Hc). apply (siblings_disjoint2 (p_tree s1) g1 obj c argIndex argIndex HR1 (Hin1' c Hc) Hin1a Hd). constructor.
    - apply (Hnottop c y Hc Hd). }
  assert (Hsame12 : forall c y, In c l' -> desc g c y -> kids g2 y = kids g y).
  { intros c y Hc Hd. rewrite (Hsame2 c y Hc); [apply (Hsame1 c y Hc Hd)|].
    apply (desc_same_fwd g g1 c y); [intros z Hz; apply (Hsame1 c z Hc Hz)|exact Hd]. }
  assert (Htr2 : forall a, szl g l' a -> szl g2 l' a) by (intros a Ha; apply (proj2 (sz_same g g2) l' a Ha Hsame12)).
  assert (HFq2 : forall q, (forall c, In c (l' ++ [argIndex]) -> ~ desc g c q) -> q <> obj -> q <> top obj GP -> kids g2 q = kids g q).
  { intros q Hq Hqo Hqt. rewrite HF2; [apply HFq1; auto|exact Hqo| |exact Hqt].
    intros ->. apply (Hq argIndex); [apply in_or_app; right; left; reflexivity|constructor]. }
  destruct (pres_eqb r0 RFailed).
  { apply wp_ret. exists g2, m2b. split; [split; [exact H2|]; split; [exact Rl2'|]; split; [exact Hctx2|];
      split; [intros r' Hr'; apply Hroots2; apply Hroots1; exact Hr'|]; split; [exact Hpf02|exact HK2]|].
    split; [exact Hlenm2|]. intros q Hq Hqo Hqt. apply HFq2; auto. }
  (* the previous argument *)
  pose proof (ti_R _ _ H2) as HR2.
  assert (Hlo2 : glive g2 obj) by (apply (reloc_glive _ _ _ obj Rl2'); exact Hl).
  destruct (sibling_links _ _ HR2 obj l' argIndex r2 Hlo2 Hk2) as (ao2 & Hao2 & _ & _ & Hprev & _).
  apply wp_bind. apply wp_rdf. exists ao2. split; [exact Hao2|]. rewrite Hprev.
  eapply wp_weaken; [apply (IHl obj (last l' InvalidIndex) s2 g2 GP m1 m2b l' (argIndex :: r2) H2 Hlo2 Hctx2 HK2 Hk2 eq_refl)| |].
  - intros HP m Hm. destruct (Hsplit m Hm) as (a & n & A & B & ->). specialize (HP a (Htr2 a A)). pose proof (sz_pos _ _ _ B). cbn [length] in HP. lia.
  - intros r' s' (g' & m2' & (F1 & F2 & F3 & F4 & F5 & F6) & Flen & FF). exists g', m2'.
    split; [split; [exact F1|]; split; [eapply reloc_chain; [apply closed_desc|exact HS0top|exact Rl2'|exact F2]|]|].
    + split; [exact F3|]. split; [intros r0' Hr0; apply F4; apply Hroots2; apply Hroots1; exact Hr0|].
      split; [eapply pframe_trans; eauto|exact F6].
    + split; [lia|]. intros q Hq Hqo Hqt. rewrite FF; [apply HFq2; auto| |exact Hqo|exact Hqt].
      intros c Hc Hd. apply (Hq c); [apply in_or_app; left; exact Hc|].
      apply (desc_same g g2 c q (fun y Hy => Hsame12 c y Hc Hy) Hd).
Qed.

Lemma nonNamed_all : forall fuel, CNN_spec fuel /\ NNloop_spec fuel.
Proof.
  induction fuel as [|fuel (IHc & IHl)].
  - split; intro; intros; cbn [connectNonNamedObjArgs connectNonNamed_loop]; apply wp_outOfFuel.
    + intros n Hn. pose proof (sz_pos _ _ _ Hn). lia.
    + intros m Hm. lia.
  - split; [apply step_CNN; exact IHl|apply step_NNloop; assumption].
Qed.
End Inv.

(** connectNonNamedObjArgs from a root object: never panics, keeps the invariants *)
Theorem connectNonNamedObjArgs_never_panics : forall fuel x s g,
  R (p_tree s) g -> info_valid (p_tree s) -> pool_ok (p_tables s) (p_tree s) -> glive g x -> groot g x ->
  match connectNonNamedObjArgs fuel x s with
  | Ok (_, s') => exists g', R (p_tree s') g' /\ info_valid (p_tree s') /\ pool_ok (p_tables s') (p_tree s')
  | Panic => False
  | OutOfFuel => True
  end.
Proof.
  intros fuel x s g HR Hi Hp Hl Hroot.
  pose proof (proj1 (nonNamed_all KT KT_move fuel) x s g None [] [] (mkTI _ _ HR Hi Hp) Hl (conj Hroot eq_refl) I) as W. unfold wp in W.
  destruct (connectNonNamedObjArgs fuel x s) as [[r s']| |]; auto.
  destruct W as (g' & m2' & ([A B C] & _) & _). eauto.
Qed.
