(** C12 (stretch): connectNamedObjArgs (the pass after the first pass) never panics and keeps C13's tree
    relation.  The pass walks the tree bottom-up, copies the name of every named object out of its
    name-path argument and moves following siblings below the object as its arguments
    (attachSiblingsAsArgs: detach + append).  The forest is rearranged only inside the subtree the call
    was made for ([reloc]). *)
From Coq Require Import NArith Arith List Bool Lia.
From Coq Require Import ZifyBool ZifyN ZifyNat.
From FF Require Import Lib.Word Gen.Consts_device_acpi_aml Gen.Consts_aml_tree Aml.Stream Aml.Lex Aml.LexProofs
  Aml.Tree Aml.Parser Aml.ParserProofs Aml.TreeSpec Aml.TreeProofs Aml.TreeProofsOps Aml.TreeProofsFind
  Aml.ParserTotalTree Aml.ParserTotalTree2 Aml.ParserTotalLex Aml.ParserTotalTable Aml.ParserTotalBase Aml.ParserTotalLeaf.
Import ListNotations.
Local Open Scope N_scope.

(** ---- the invariant of the passes that work on the tree only ---- *)
Record TI (s : pstate) (g : ghost) : Prop := mkTI {
  ti_R : R (p_tree s) g;
  ti_info : info_valid (p_tree s);
  ti_pool : pool_ok (p_tables s) (p_tree s)
}.

Lemma pool_ok_get tbls (t : T) i o : pool_ok tbls t -> tget t i = Some o -> value_ok tbls (o_value o).
Proof.
  intros Hp Hg. unfold pool_ok in Hp. rewrite Forall_forall in Hp. apply Hp. eapply nth_error_In. exact Hg.
Qed.

Lemma pool_ok_pframe tbls (t t' : T) : pool_ok tbls t -> pframe t t' -> pool_ok tbls t'.
Proof.
  intros Hp Hf. unfold pool_ok. rewrite Forall_forall. intros o' Hin.
  destruct (In_nth_error _ _ Hin) as (n & Hn).
  assert (Hg : tget t' (N.of_nat n) = Some o') by (unfold TreeSpec.get; rewrite Nat2N.id; exact Hn).
  destruct (pframe_inv _ _ _ _ Hf Hg) as (o & Ho & _ & _ & _ & _ & _ & _ & _ & Ev).
  rewrite Ev. eapply pool_ok_get; eauto.
Qed.

Lemma pool_ok_tset tbls (t : T) p f : pool_ok tbls t -> (forall o, o_value (f o) = o_value o) -> pool_ok tbls (tset t p f).
Proof.
  intros Hp Hf. unfold pool_ok, tset. cbn [t_pool]. apply list_upd_Forall; auto.
  intros o Ho. rewrite Hf. exact Ho.
Qed.

Lemma TI_pframe s g t' g' : TI s g -> R t' g' -> pframe (p_tree s) t' -> TI (with_tree s t') g'.
Proof.
  intros [A B C] HR Hf. constructor; auto.
  - eapply info_valid_pframe; eauto.
  - eapply pool_ok_pframe; eauto.
Qed.

Lemma TI_live_get s g p : TI s g -> glive g p -> exists o, tget (p_tree s) p = Some o /\ o_opcode o <> opFreed.
Proof. intros H Hl. apply (R_live_glive _ _ (ti_R _ _ H)) in Hl. exact Hl. Qed.

Lemma TI_ObjectAt s g p : TI s g -> glive g p -> ObjectAt (p_tree s) p = Some p.
Proof.
  intros H Hl. destruct (TI_live_get _ _ _ H Hl) as (o & Hg & Ho).
  eapply ObjectAt_live; eauto. apply (R_bound _ _ (ti_R _ _ H)).
Qed.

(** ---- bytesOf ---- *)
Lemma take_bytes_ok d : forall len start, (start + len <= length d)%nat ->
  exists l, take_bytes d start len = Some l /\ length l = len.
Proof.
  induction len as [|len IH]; intros start H; cbn [take_bytes]; [exists []; auto|].
  destruct (nth_error d start) as [b|] eqn:E; [|apply nth_error_None in E; lia].
  destruct (IH (S start)) as (l & El & Hl); [lia|]. rewrite El. exists (b :: l). split; auto. cbn. lia.
Qed.

Lemma slice_bytes_ok s tbl sl : slice_ok (p_tables s) tbl sl ->
  exists l, slice_bytes s tbl sl = Ok l /\ length l = N.to_nat (s_len sl).
Proof.
  intros (d & Hd & Hin). unfold slice_bytes. destruct (N.eqb_spec (s_len sl) 0) as [E|E].
  - exists []. rewrite E. auto.
  - destruct Hin as [Hz|(p & Hp & Hle)]; [contradiction|]. rewrite Hp, Hd.
    destruct (take_bytes_ok d (N.to_nat (s_len sl)) (N.to_nat p)) as (l & El & Hl); [lia|].
    rewrite El. eauto.
Qed.

Lemma wp_detachM P o a s (Q : unit -> pstate -> Prop) :
  (exists t', detach (p_tree s) o a = Ok t' /\ Q tt (with_tree s t')) -> wp P (detachM (Some o) (Some a)) s Q.
Proof. intros H. unfold detachM. apply wp_bind. cbn [need]. apply wp_ret. apply wp_bind. apply wp_ret. apply wp_tu. exact H. Qed.

(** a rearrangement inside the subtree of [p] as seen later is one inside the set fixed at the start *)
Lemma reloc_chain g g1 g2 (S : N -> Prop) p :
  closed g S -> S p -> reloc g g1 S -> reloc g1 g2 (desc g1 p) -> reloc g g2 S.
Proof.
  intros Hc Hp H1 H2. eapply reloc_trans; [exact H1|].
  eapply reloc_lift; [|exact H2]. intros y Hy. eapply desc_in_closed; [eapply reloc_closed; eauto|exact Hp|exact Hy].
Qed.

Lemma hd_nonempty (l : list N) d x : hd d l = x -> x <> d -> exists l', l = x :: l'.
Proof. destruct l as [|y l]; cbn [hd]; intros E Hne; [congruence|]. subst. eauto. Qed.

(** ---- attachSiblingsAsArgs ---- *)
Lemma attach_spec : forall fuel parent target sib n s g l1 l2,
  TI s g -> kids g parent = l1 ++ target :: l2 -> sib = hd InvalidIndex l2 ->
  wp True (attachSiblings_go fuel parent target sib n false) s (fun r s' =>
    exists g' l2', TI s' g' /\ reloc g g' (desc g parent) /\ kids g' parent = l1 ++ target :: l2').
Proof.
  induction fuel as [|fuel IH]; intros parent target sib n s g l1 l2 H Hk Hs; cbn [attachSiblings_go].
  { apply wp_outOfFuel. exact I. }
  pose proof (ti_R _ _ H) as HR.
  destruct (n =? 0).
  { apply wp_ret. exists g, l2. split; auto. split; [apply reloc_refl|exact Hk]. }
  rewrite andb_false_r. apply wp_bind. apply wp_ret.
  destruct (N.eqb_spec sib InvalidIndex) as [Es|Es].
  { apply wp_ret. exists g, l2. split; auto. split; [apply reloc_refl|exact Hk]. }
  destruct (hd_nonempty _ _ _ (eq_sym Hs) Es) as (l2' & El2). subst l2.
  assert (Hin_t : In target (kids g parent)) by (rewrite Hk; apply in_or_app; right; left; reflexivity).
  assert (Hin_s : In sib (kids g parent)) by (rewrite Hk; apply in_or_app; right; right; left; reflexivity).
  destruct (R_In_kids _ _ HR _ _ Hin_s) as ((po & Hpo & Hlpo) & so & Hso & Hlso & Hspar).
  destruct (R_kids _ _ HR _ _ Hpo Hlpo) as (_ & _ & Hch & Hnd).
  rewrite Hk in Hch, Hnd.
  assert (Hnode : node (p_tree s) sib parent (last (l1 ++ [target]) InvalidIndex) (hd InvalidIndex l2')).
  { apply (chain_mid (p_tree s) parent (l1 ++ [target]) sib l2'). rewrite <- app_assoc. exact Hch. }
  destruct Hnode as (so' & Hso' & _ & _ & _ & Hnext). assert (so' = so) by congruence. subst so'.
  pose proof (R_gwf _ _ HR) as Hwf. destruct (Hwf _ _ Hin_s) as (Hlp & Hls). destruct (Hwf _ _ Hin_t) as (_ & Hlt).
  apply wp_bind, wp_get. rewrite (TI_ObjectAt _ _ _ H Hls). apply wp_bind. cbn [need]. apply wp_ret.
  apply wp_bind. apply wp_rdf. exists so. split; [exact Hso|]. rewrite Hnext.
  apply wp_bind. apply wp_rdf. exists so. split; [exact Hso|]. rewrite Hspar.
  apply wp_bind, wp_get. rewrite (TI_ObjectAt _ _ _ H Hlp).
  (* detach(parent, sib) *)
  destruct (detach_full (p_tree s) g parent sib HR Hin_s) as (t1 & E1 & HR1 & Hpf1).
  apply wp_bind. apply wp_detachM. exists t1. split; [exact E1|].
  set (g1 := astep g (OpDetach parent sib)) in *.
  assert (H1 : TI (with_tree s t1) g1) by (eapply TI_pframe; eauto).
  assert (Hplt : parent < N.of_nat (length (g_kids g))) by (apply glive_lt; exact Hlp).
  assert (Hk1 : kids g1 parent = l1 ++ target :: l2').
  { unfold g1. cbn [astep]. rewrite kids_set_kids by exact Hplt. rewrite N.eqb_refl, Hk.
    replace (l1 ++ target :: sib :: l2') with ((l1 ++ [target]) ++ sib :: l2') by (rewrite <- app_assoc; reflexivity).
    rewrite remove1_split; [rewrite <- app_assoc; reflexivity|].
    replace (l1 ++ target :: sib :: l2') with ((l1 ++ [target]) ++ sib :: l2') in Hnd by (rewrite <- app_assoc; reflexivity).
    apply NoDup_remove_2 in Hnd. intros Hi. apply Hnd. apply in_or_app. left. exact Hi. }
  assert (Hsub1 : forall p c, In c (kids g1 p) -> In c (kids g p)).
  { intros p c. unfold g1. cbn [astep]. rewrite kids_set_kids by exact Hplt.
    destruct (N.eqb_spec p parent) as [->|Hne]; auto. apply remove1_In. }
  assert (Hshape1 : forall x, glive g x -> glive g1 x) by (intros x Hx; unfold g1; cbn [astep]; apply glive_set_kids; exact Hx).
  assert (Hnotin : ~ In sib (l1 ++ target :: l2')).
  { replace (l1 ++ target :: sib :: l2') with ((l1 ++ [target]) ++ sib :: l2') in Hnd by (rewrite <- app_assoc; reflexivity).
    apply NoDup_remove_2 in Hnd. rewrite <- app_assoc in Hnd. exact Hnd. }
  assert (Hroot1 : groot g1 sib).
  { intros q Hq. destruct (N.eq_dec q parent) as [->|Hne].
    - rewrite Hk1 in Hq. contradiction.
    - assert (Hq' : In sib (kids g q)) by (apply Hsub1; exact Hq).
      apply Hne. eapply (R_parent_unique _ _ HR); eauto. }
  assert (Hnd1 : ~ desc g1 sib target).
  { intros Hd. pose proof (desc_mono g1 g sib target Hsub1 Hd) as Hd'.
    pose proof (sibling_not_desc _ _ HR parent sib target Hin_s Hin_t Hd') as E. subst target.
    apply Hnotin. apply in_or_app. right. left. reflexivity. }
  destruct (append_full2 (with_tree s t1).(p_tree) g1 target sib HR1 (Hshape1 _ Hlt) (Hshape1 _ Hls) Hroot1 Hnd1) as (t2 & E2 & HR2 & Hpf2).
  apply wp_bind. apply wp_appendM. exists t2. split; [exact E2|].
  set (g2 := astep g1 (OpAppend target sib)) in *.
  assert (H2 : TI (with_tree (with_tree s t1) t2) g2) by (eapply TI_pframe; eauto).
  assert (Htlt : target < N.of_nat (length (g_kids g1))) by (apply glive_lt; apply Hshape1; exact Hlt).
  assert (Hne_tp : target <> parent) by (eapply (R_child_neq_parent _ _ HR); eauto).
  assert (Hk2 : kids g2 parent = l1 ++ target :: l2').
  { unfold g2. cbn [astep]. rewrite kids_set_kids by exact Htlt.
    apply not_eq_sym in Hne_tp. apply N.eqb_neq in Hne_tp. rewrite Hne_tp. exact Hk1. }
  assert (HSp : desc g parent parent) by constructor.
  assert (HSt : desc g parent target) by (apply (desc_step g parent parent target HSp Hin_t)).
  assert (HSs : desc g parent sib) by (apply (desc_step g parent parent sib HSp Hin_s)).
  assert (Hrl : reloc g g2 (desc g parent)).
  { eapply reloc_trans; [apply (reloc_detach g parent sib _ Hplt HSp)|]. apply (reloc_append g1 target sib _ Htlt HSt HSs). }
  eapply wp_weaken; [apply (IH parent target (hd InvalidIndex l2') (n - 1) _ g2 l1 l2' H2 Hk2 eq_refl)|auto|].
  intros r s' (g' & l2'' & F1 & F2 & F3). exists g', l2''. split; auto. split; [|exact F3].
  eapply reloc_chain; [apply closed_desc|exact HSp|exact Hrl|exact F2].
Qed.

(** ---- connectNamedObjArgs ---- *)
Lemma TI_set_name s g p nm : TI s g -> TI (with_tree s (tset (p_tree s) p (set_name nm))) g.
Proof.
  intros [A B C]. constructor; pcbn.
  - apply R_set_name. exact A.
  - apply info_valid_tset; [exact B| |].
    + intros o Ho Hlo. cbn [o_infoIndex set_name]. apply (B _ _ Ho Hlo).
    + intros o _. cbn [o_opcode set_name]. tauto.
  - apply pool_ok_tset; auto.
Qed.

Lemma wp_bytesOf P tbl sl l s (Q : list N -> pstate -> Prop) :
  slice_bytes s tbl sl = Ok l -> Q l s -> wp P (bytesOf tbl sl) s Q.
Proof. intros E H. unfold wp, bytesOf. rewrite E. exact H. Qed.

Lemma rev_four (l : list N) : (4 <= length l)%nat -> exists b3 b2 b1 b0 r, rev l = b3 :: b2 :: b1 :: b0 :: r.
Proof.
  intros H. rewrite <- rev_length in H. destruct (rev l) as [|b3 [|b2 [|b1 [|b0 r]]]]; cbn [length] in H; try lia. eauto 6.
Qed.

Definition CN_spec (fuel : nat) : Prop := forall x s g, TI s g -> glive g x ->
  wp True (connectNamedObjArgs fuel x) s (fun r s' => exists g', TI s' g' /\ reloc g g' (desc g x)).

Definition loop_spec (fuel : nat) : Prop := forall obj argIndex s g, TI s g -> glive g obj ->
  (argIndex = InvalidIndex \/ In argIndex (kids g obj)) ->
  wp True (connectNamed_loop fuel obj argIndex) s (fun r s' => exists g', TI s' g' /\ reloc g g' (desc g obj)).

Lemma step_CN fuel : loop_spec fuel -> CN_spec (S fuel).
Proof.
  intros IHl x s g H Hl. cbn [connectNamedObjArgs].
  pose proof (ti_R _ _ H) as HR.
  apply wp_bind. apply wp_objectAt'; [apply (TI_ObjectAt _ _ _ H Hl)|].
  destruct (TI_live_get _ _ _ H Hl) as (o & Ho & Hlo).
  apply wp_bind. apply wp_rdf. exists o. split; [exact Ho|].
  destruct (R_kids _ _ HR _ _ Ho Hlo) as (_ & Hlast & _). rewrite Hlast.
  apply IHl; auto.
  destruct (kids g x) as [|c l]; [left; reflexivity|right; apply last_In].
Qed.

Lemma step_loop fuel : CN_spec fuel -> loop_spec fuel -> loop_spec (S fuel).
Proof.
  intros IHc IHl obj argIndex s g H Hl Harg. cbn [connectNamed_loop].
  destruct (N.eqb_spec argIndex InvalidIndex) as [Ei|Ei].
  { apply wp_ret. exists g. split; auto. apply reloc_refl. }
  destruct Harg as [?|Hin]; [contradiction|].
  pose proof (ti_R _ _ H) as HR. pose proof (R_gwf _ _ HR) as Hwf. destruct (Hwf _ _ Hin) as (_ & Hla).
  apply wp_bind. apply wp_objectAt'; [apply (TI_ObjectAt _ _ _ H Hla)|].
  destruct (TI_live_get _ _ _ H Hla) as (ao0 & Hao0 & Hlao0).
  apply wp_bind. apply wp_rdf. exists ao0. split; [exact Hao0|]. rewrite (R_index _ _ HR _ _ Hao0).
  apply wp_bind. eapply wp_weaken; [apply (IHc argIndex s g H Hla)|auto|].
  intros res s1 (g1 & H1 & Rl1).
  set (S := desc g obj).
  assert (HSo : S obj) by constructor.
  assert (HSa : S argIndex) by (apply (desc_step g obj obj argIndex HSo Hin)).
  assert (Rl1' : reloc g g1 S).
  { eapply reloc_lift; [|exact Rl1]. intros y Hy. eapply desc_in_closed; [apply closed_desc|exact HSa|exact Hy]. }
  assert (Hk1 : kids g1 obj = kids g obj) by (apply (rl_out _ _ _ Rl1); apply (child_not_desc _ _ HR); exact Hin).
  assert (Hin1 : In argIndex (kids g1 obj)) by (rewrite Hk1; exact Hin).
  assert (Hl1 : glive g1 obj) by (apply (reloc_glive _ _ _ obj Rl1); exact Hl).
  assert (Hla1 : glive g1 argIndex) by (apply (reloc_glive _ _ _ argIndex Rl1); exact Hla).
  destruct (negb (pres_eqb res ROk)).
  { apply wp_ret. exists g1. split; auto. }
  assert (Hcont : forall s2 g2, TI s2 g2 -> reloc g g2 S -> In argIndex (kids g2 obj) ->
     wp True (mlet prev <~ rdf argIndex o_prev ;; connectNamed_loop fuel obj prev) s2
        (fun r s' => exists g', TI s' g' /\ reloc g g' S)).
  { intros s2 g2 H2 Rl2 Hin2. pose proof (ti_R _ _ H2) as HR2.
    destruct ((R_gwf _ _ HR2) _ _ Hin2) as (Hlo2 & Hla2).
    destruct (TI_live_get _ _ _ H2 Hla2) as (ao2 & Hao2 & Hlao2).
    apply wp_bind. apply wp_rdf. exists ao2. split; [exact Hao2|].
    eapply wp_weaken; [apply (IHl obj (o_prev ao2) s2 g2 H2 Hlo2)|auto|].
    - apply (prev_sibling _ _ HR2 obj argIndex ao2 Hin2 Hao2).
    - intros r s' (g' & F1 & F2). exists g'. split; auto.
      eapply reloc_chain; [apply closed_desc|exact HSo|exact Rl2|exact F2]. }
  pose proof (ti_R _ _ H1) as HR1.
  destruct (TI_live_get _ _ _ H1 Hla1) as (ao & Hao & Hlao).
  apply wp_bind. apply wp_rdo. exists ao. split; [exact Hao|].
  pose proof (ti_info _ _ H1 _ _ Hao Hlao) as Hinfo.
  destruct (opInfo (o_infoIndex ao)) as [[[op flags] argFlags]|] eqn:Erow; [|contradiction].
  apply wp_bind. eapply wp_info; [exact Erow|].
  apply wp_bind, wp_get.
  destruct (negb (hasFlag flags aml_pOpFlagNamed) || negb (o_tableHandle ao =? p_handle s1) || (o_first ao =? InvalidIndex) ||
            (o_opcode ao =? aml_pOpIntScopeBlock)) eqn:Ec.
  { apply (Hcont s1 g1 H1 Rl1' Hin1). }
  apply orb_false_elim in Ec. destruct Ec as (Ec & _). apply orb_false_elim in Ec. destruct Ec as (_ & Efirst).
  apply N.eqb_neq in Efirst.
  destruct (R_kids _ _ HR1 _ _ Hao Hlao) as (Hfirst & _).
  destruct (hd_nonempty _ _ _ (eq_sym Hfirst) Efirst) as (krest & Ek).
  assert (Hin_n : In (o_first ao) (kids g1 argIndex)) by (rewrite Ek; left; reflexivity).
  destruct ((R_gwf _ _ HR1) _ _ Hin_n) as (_ & Hln).
  apply wp_bind. apply wp_objectAt'; [apply (TI_ObjectAt _ _ _ H1 Hln)|].
  destruct (TI_live_get _ _ _ H1 Hln) as (no & Hno & Hlno).
  apply wp_bind. apply wp_rdo. exists no. split; [exact Hno|].
  destruct (valueBytes no) as [[tbl sl]|] eqn:Ev.
  2:{ apply wp_ret. exists g1. split; auto. }
  destruct (s_len sl <? aml_amlNameLen) eqn:Elen.
  { apply wp_ret. exists g1. split; auto. }
  apply N.ltb_ge in Elen.
  assert (Hsl : slice_ok (p_tables s1) tbl sl).
  { pose proof (pool_ok_get _ _ _ _ (ti_pool _ _ H1) Hno) as Hv. unfold valueBytes in Ev.
    destruct (o_value no) as [[n|tb sl0|i|f]|]; try discriminate. inversion Ev; subst. exact Hv. }
  destruct (slice_bytes_ok s1 tbl sl Hsl) as (bytes & Eb & Hblen).
  apply wp_bind. eapply wp_bytesOf; [exact Eb|].
  destruct (rev_four bytes) as (b3 & b2 & b1 & b0 & rb & Erev).
  { rewrite Hblen. unfold aml_amlNameLen in Elen. lia. }
  apply wp_bind. unfold setNameFrom. rewrite Erev.
  apply wp_wrf; [eauto|].
  set (s2 := with_tree s1 (tset (p_tree s1) argIndex (set_name (b0, b1, b2, b3)))).
  assert (H2 : TI s2 g1) by (apply TI_set_name; exact H1).
  pose proof (ti_R _ _ H2) as HR2.
  assert (Hlive2 : live (p_tree s2) argIndex) by (apply (R_live_glive _ _ HR2); exact Hla1).
  apply wp_bind. eapply wp_tq; [apply (NumArgs_spec _ _ HR2 argIndex Hlive2)|].
  destruct ((N.of_nat (length (kids g1 argIndex)) =? argCount argFlags) || (argCount argFlags <=? termArgIndex argFlags)).
  { apply (Hcont s2 g1 H2 Rl1' Hin1). }
  (* attachSiblingsAsArgs *)
  apply wp_bind. unfold attachSiblingsAsArgs.
  destruct (in_split _ _ Hin1) as (l1 & l2 & Ekids).
  destruct (TI_live_get _ _ _ H2 Hl1) as (oo & Hoo & Hloo).
  destruct (R_kids _ _ HR2 _ _ Hoo Hloo) as (_ & _ & Hch & _). rewrite Ekids in Hch.
  destruct (chain_mid _ _ _ _ _ Hch) as (ao2 & Hao2 & _ & _ & _ & Hnext).
  apply wp_bind. apply wp_rdf. exists ao2. split; [exact Hao2|]. rewrite Hnext.
  eapply wp_weaken; [apply (attach_spec fuel obj argIndex (hd InvalidIndex l2) _ s2 g1 l1 l2 H2 Ekids eq_refl)|auto|].
  intros r s3 (g3 & l2' & H3 & Rl3 & Ek3).
  assert (Rl3' : reloc g g3 S) by (eapply reloc_chain; [apply closed_desc|exact HSo|exact Rl1'|exact Rl3]).
  destruct (negb (pres_eqb r ROk)).
  { apply wp_ret. exists g3. split; auto. }
  apply (Hcont s3 g3 H3 Rl3'). rewrite Ek3. apply in_or_app. right. left. reflexivity.
Qed.

Lemma conn_all : forall fuel, CN_spec fuel /\ loop_spec fuel.
Proof.
  induction fuel as [|fuel (IHc & IHl)].
  - split; intro; intros; cbn [connectNamedObjArgs connectNamed_loop]; apply wp_outOfFuel; exact I.
  - split; [apply step_CN; exact IHl|apply step_loop; assumption].
Qed.

(** connectNamedObjArgs from the root: never panics, keeps the tree relation *)
Theorem connectNamedObjArgs_never_panics : forall fuel x s g,
  R (p_tree s) g -> info_valid (p_tree s) -> pool_ok (p_tables s) (p_tree s) -> glive g x ->
  match connectNamedObjArgs fuel x s with
  | Ok (_, s') => exists g', R (p_tree s') g' /\ info_valid (p_tree s') /\ pool_ok (p_tables s') (p_tree s')
  | Panic => False
  | OutOfFuel => True
  end.
Proof.
  intros fuel x s g HR Hi Hp Hl. pose proof (proj1 (conn_all fuel) x s g (mkTI _ _ HR Hi Hp) Hl) as W. unfold wp in W.
  destruct (connectNamedObjArgs fuel x s) as [[r s']| |]; auto.
  destruct W as (g' & [A B C] & _). eauto.
Qed.

(** the opcode-table rows of the two leading arguments of a Method: a name path (no arguments) and a byte constant *)
Definition npIdx : N := match opcodeTableIndex aml_pOpIntNamePath true with Some i => i | None => 0 end.
Definition bpIdx : N := match opcodeTableIndex aml_pOpBytePrefix true with Some i => i | None => 0 end.

(** ---- subtree sizes over the forest, the measure of the fuel of the tree walks ---- *)
Inductive sz (g : ghost) : N -> nat -> Prop :=
| sz_node x n : szl g (kids g x) n -> sz g x (S n)
with szl (g : ghost) : list N -> nat -> Prop :=
| szl_nil : szl g [] 0
| szl_cons c l n m : sz g c n -> szl g l m -> szl g (c :: l) (n + m).

Scheme sz_mut := Minimality for sz Sort Prop
  with szl_mut := Minimality for szl Sort Prop.
Combined Scheme sz_szl_ind from sz_mut, szl_mut.

Lemma desc_trans2 g a b c : desc g a b -> desc g b c -> desc g a c.
Proof. intros H1 H2. induction H2 as [|p q H2 IH Hin]; [exact H1|eapply desc_step; eauto]. Qed.

Lemma sz_pos g x n : sz g x n -> (1 <= n)%nat.
Proof. intros H. inversion H. lia. Qed.

Lemma szl_app g l1 : forall l2 n, szl g (l1 ++ l2) n -> exists a b, szl g l1 a /\ szl g l2 b /\ n = (a + b)%nat.
Proof.
  induction l1 as [|c l1 IH]; intros l2 n H; cbn [app] in H.
  - exists 0%nat, n. split; [constructor|auto].
  - inversion H as [|c' l' n1 m1 Hc Hl]; subst. destruct (IH l2 m1 Hl) as (a & b & A & B & E).
    exists (n1 + a)%nat, b. split; [constructor; auto|]. split; [exact B|lia].
Qed.

Lemma szl_one g c b : szl g [c] b -> sz g c b.
Proof. intros H. inversion H as [|c' l' n m Hc Hl]; subst. inversion Hl; subst. rewrite Nat.add_0_r. exact Hc. Qed.

(** the size of a subtree depends on the child lists inside it only *)
Lemma sz_same g g' :
  (forall x n, sz g x n -> (forall y, desc g x y -> kids g' y = kids g y) -> sz g' x n) /\
  (forall l n, szl g l n -> (forall c y, In c l -> desc g c y -> kids g' y = kids g y) -> szl g' l n).
Proof.
  apply sz_szl_ind.
  - intros x n _ IH Hk. constructor. rewrite (Hk x (desc_refl g x)). apply IH.
    intros c y Hc Hd. apply Hk. eapply desc_trans2; [eapply desc_step; [apply desc_refl|exact Hc]|exact Hd].
  - intros _. constructor.
  - intros c l n m _ IH1 _ IH2 Hk. constructor.
    + apply IH1. intros y Hd. apply (Hk c y); [left; reflexivity|exact Hd].
    + apply IH2. intros c' y Hc' Hd. apply (Hk c' y); [right; exact Hc'|exact Hd].
Qed.

(** "the fuel does not suffice": the measures of the walk from an object / over the first children [l] of an object whose last
    children [r] are done *)
Definition PO (g : ghost) (x : N) (fuel : nat) : Prop := forall n, sz g x n -> (fuel < 2 * n)%nat.
Definition PL (g : ghost) (l r : list N) (fuel : nat) : Prop := forall m, szl g l m -> (fuel < 2 * m + length r + 1)%nat.

Lemma desc_chain2 (t : T) g a b y : R t g -> desc g a y -> desc g b y -> desc g a b \/ desc g b a.
Proof.
  intros HR Ha. revert b. induction Ha as [|p c Ha IH Hin]; intros b Hb.
  - right. exact Hb.
  - inversion Hb as [|p' c' Hb' Hin']; subst.
    + left. eapply desc_step; eauto.
    + assert (p' = p) by (eapply (R_parent_unique _ _ HR); eauto). subst p'. apply IH. exact Hb'.
Qed.

Lemma siblings_disjoint2 (t : T) g p a b y : R t g -> In a (kids g p) -> In b (kids g p) -> desc g a y -> desc g b y -> a = b.
Proof.
  intros HR Ha Hb Da Db. destruct (desc_chain2 t g a b y HR Da Db) as [D|D].
  - symmetry. eapply (sibling_not_desc _ _ HR); eauto.
  - eapply (sibling_not_desc _ _ HR); [exact Hb|exact Ha|exact D].
Qed.


Lemma desc_same g g' c q : (forall y, desc g c y -> kids g' y = kids g y) -> desc g' c q -> desc g c q.
Proof.
  intros Hk Hd. induction Hd as [|p y Hd IH Hin]; [constructor|]. eapply desc_step; [exact IH|]. rewrite <- (Hk p IH). exact Hin.
Qed.

(** the measures of the walks with useParent: the siblings [m2] that follow the object may be taken too *)
Definition PO2 (g : ghost) (x : N) (m2 : list N) (fuel : nat) : Prop := forall n, sz g x n -> (fuel < 2 * n + length m2)%nat.
Definition PL2 (g : ghost) (l r m2 : list N) (fuel : nat) : Prop :=
  forall m, szl g l m -> (fuel < 2 * m + length r + length m2 + 1)%nat.

Lemma desc_same_fwd g g' c q : (forall y, desc g c y -> kids g' y = kids g y) -> desc g c q -> desc g' c q.
Proof.
  intros Hk Hd. induction Hd as [|p y Hd IH Hin]; [constructor|]. eapply desc_step; [exact IH|]. rewrite (Hk p Hd). exact Hin.
Qed.
