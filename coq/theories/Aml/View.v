(** The namespace view of an object tree: how the kernel reads the parser's result as a namespace.
    Definitions only.  It is the Coq counterpart of the harness function verifC11View
    (zz_verif_c11_test.go): the children of a Device / Method / ... are the children of its nested
    ScopeBlock, named objects are listed at their absolute path with kind and rendered arguments, the
    remaining statements of a scope are listed anonymously, nested ScopeBlocks inside expressions are
    transparent, null targets are dropped, the block extent of If / Else / While is not part of the
    view.  The token format is the one of Aml/Grammar.v ([ns]), so that the full statement of C11 is
    [sort (view t) = ns p]. *)
From Coq Require Import NArith List Bool.
From FF Require Import Lib.Word Gen.Consts_device_acpi_aml Aml.Stream Aml.Lex Aml.Tree Aml.Parser Aml.Grammar.
Import ListNotations.
Local Open Scope N_scope.

Section View.
Variable t : ObjectTree value.
Variable tables : list (list N).

Definition obj (p : N) : option (Object value) := nth_error (t_pool t) (N.to_nat p).
Definition pool_fuel : nat := S (S (length (t_pool t))).

Fixpoint kids_go (fuel : nat) (idx : N) : list N :=
  match fuel with O => [] | S f =>
  if idx =? InvalidIndex then [] else
  match obj idx with None => [] | Some o => idx :: kids_go f (o_next o) end
  end.
Definition kids (o : Object value) : list N := kids_go pool_fuel (o_first o).

Definition is_zero_scopeblock (o : Object value) : bool :=
  (o_opcode o =? aml_pOpIntScopeBlock) && name_eqb (o_name o) (0, 0, 0, 0).

(** absolute path of a named object: nested ScopeBlocks are transparent *)
Fixpoint objPath_go (fuel : nat) (idx : N) (acc : path) : path :=
  match fuel with O => acc | S f =>
  if idx =? 0 then acc else
  match obj idx with
  | None => acc
  | Some o =>
      let acc' := if is_zero_scopeblock o then acc else name_num (o_name o) :: acc in
      if o_parent o =? InvalidIndex then acc' else objPath_go f (o_parent o) acc'
  end end.
Definition objPath (idx : N) : path := objPath_go pool_fuel idx [].

Definition is_declop (op : N) : bool :=
  (op =? aml_pOpDevice) || (op =? aml_pOpThermalZone) || (op =? aml_pOpProcessor) || (op =? aml_pOpPowerRes) || (op =? aml_pOpMethod) ||
  (op =? aml_pOpName) || (op =? aml_pOpOpRegion) || (op =? aml_pOpMutex) || (op =? aml_pOpEvent) || (op =? aml_pOpIntNamedField).
Definition is_fieldcontainerop (op : N) : bool :=
  (op =? aml_pOpField) || (op =? aml_pOpIndexField) || (op =? aml_pOpBankField).

(** first pass: the absolute paths of all named objects *)
Fixpoint collect_known (fuel : nat) (scope : N) (p : path) : list path :=
  match fuel with O => [] | S f =>
  match obj scope with
  | None => []
  | Some so =>
      flat_map (fun c =>
        match obj c with
        | None => []
        | Some co =>
            if (o_opcode co =? aml_pOpIntScopeBlock) && negb (is_zero_scopeblock co) then
              let p' := p ++ [name_num (o_name co)] in p' :: collect_known f c p'
            else if is_declop (o_opcode co) then
              let p' := p ++ [name_num (o_name co)] in
              p' :: flat_map (fun k => match obj k with
                                       | Some ko => if o_opcode ko =? aml_pOpIntScopeBlock then collect_known f k p' else []
                                       | None => [] end) (kids co)
            else []
        end) (kids so)
  end end.

Definition known_mem (known : list path) (p : path) : bool := existsb (path_eqb p) known.

(** the bytes of a []byte value *)
Definition value_bytes (v : option value) : option (list N) :=
  match v with
  | Some (VBytes tbl s) =>
      if s_len s =? 0 then Some [] else
      match s_ptr s, nth_error tables (N.to_nat tbl) with
      | Some p, Some d => take_bytes d (N.to_nat p) (N.to_nat (s_len s))
      | _, _ => None
      end
  | _ => None
  end.

Fixpoint segs_of (cnt : nat) (l : list N) : option (list N) :=
  match cnt with
  | O => match l with [] => Some [] | _ => None end
  | S c => match l with
           | a :: b :: c' :: d :: r => match segs_of c r with Some ss => Some (seg4 a b c' d :: ss) | None => None end
           | _ => None
           end
  end.

Fixpoint strip_prefix (l : list N) (root : bool) (carets : N) : bool * N * list N :=
  match l with
  | b :: r => if b =? 0x5c then strip_prefix r true carets
              else if b =? 0x5e then strip_prefix r root (carets + 1)
              else (root, carets, l)
  | [] => (root, carets, [])
  end.

Fixpoint search_up_known (fuel : nat) (known : list path) (scope : path) (s : N) : option path :=
  if known_mem known (scope ++ [s]) then Some (scope ++ [s])
  else match fuel with
       | O => None
       | S f => match scope with [] => None | _ => search_up_known f known (removelast scope) s end
       end.

(** ACPI lookup of a raw name string seen from [scope], over the known paths *)
Definition resolveRaw (known : list path) (scope : path) (raw : list N) : option path :=
  let '(root, carets, rest) := strip_prefix raw false 0 in
  let osegs := match rest with
               | [] => Some []
               | 0x2e :: r => segs_of 2 r
               | 0x2f :: n :: r => segs_of (N.to_nat n) r
               | _ => segs_of 1 rest
               end in
  match osegs with
  | None => None
  | Some segs =>
      if negb root && (lenN scope <? carets) then None else
      let start := if root then [] else firstn (length scope - N.to_nat carets) scope in
      match segs with
      | [s] => if negb root && (carets =? 0) then search_up_known (length scope) known scope s
               else let p := start ++ [s] in if known_mem known p then Some p else None
      | _ => let p := start ++ segs in
             if (match p with [] => true | _ => false end) || known_mem known p then Some p else None
      end
  end.

(** argument types of the opcode's args that produce a child (everything but PkgLen) *)
Fixpoint argTypes_go (cnt : nat) (i : N) (argFlags : N) : list N :=
  match cnt with O => [] | S c =>
  if argCount argFlags <=? i then [] else
  let ty := argType argFlags i in
  (if ty =? aml_pArgTypePkgLen then [] else [ty]) ++ argTypes_go c (i + 1) argFlags
  end.
Definition argTypesOf (o : Object value) : list N :=
  match opInfo (o_infoIndex o) with Some (_, _, af) => argTypes_go 8 0 af | None => [] end.

(** children with nested ScopeBlocks spliced in and null targets dropped *)
Fixpoint exprKids_go (ks : list N) (types : list N) : list N :=
  match ks with
  | [] => []
  | k :: r =>
      let types' := match types with [] => [] | _ :: tr => tr end in
      match obj k with
      | None => exprKids_go r types'
      | Some ko =>
          if o_opcode ko =? aml_pOpIntScopeBlock then kids ko ++ exprKids_go r types'
          else if (o_opcode ko =? aml_pOpZero) &&
                  match types with
                  | ty :: _ => (ty =? aml_pArgTypeTarget) || (ty =? aml_pArgTypeSuperName) || (ty =? aml_pArgTypeSimpleName)
                  | [] => false end
               then exprKids_go r types'
          else k :: exprKids_go r types'
      end
  end.
Definition exprKids (o : Object value) : list N := exprKids_go (kids o) (argTypesOf o).

Definition bad : list N := [0xbadbad].

Fixpoint renderExpr (fuel : nat) (known : list path) (scope : path) (idx : N) : list N :=
  match fuel with O => bad | S f =>
  match obj idx with
  | None => bad
  | Some o =>
      let op := o_opcode o in
      if op =? aml_pOpIntResolvedNamePath then
        match o_value o with Some (VIdx i) => [TOK_NAMEREF; 1] ++ tok_path (objPath i) | _ => bad end
      else if (op =? aml_pOpIntNamePath) || (op =? aml_pOpIntNamePathOrMethodCall) then
        match value_bytes (o_value o) with
        | None => bad
        | Some raw =>
            match resolveRaw known scope raw with
            | Some p => if (lenN raw =? 0) then [TOK_NAMEREF; 0; 0] else [TOK_NAMEREF; 1] ++ tok_path p
            | None => [TOK_NAMEREF; 0; lenN raw] ++ raw
            end
        end
      else if op =? aml_pOpIntMethodCall then
        match o_value o with
        | Some (VIdx i) =>
            let ks := exprKids o in
            [TOK_CALL] ++ tok_path (objPath i) ++ [lenN ks] ++ flat_map (renderExpr f known scope) ks
        | _ => bad
        end
      else
        let ks := exprKids o in
        [op] ++ (match o_value o with
                 | None => [0]
                 | Some (VNum v) => [1; v]
                 | Some (VBytes _ _) => match value_bytes (o_value o) with Some b => [2; lenN b] ++ b | None => bad end
                 | _ => [9]
                 end) ++ [lenN ks] ++ flat_map (renderExpr f known scope) ks
  end end.

Fixpoint renderStmt (fuel : nat) (known : list path) (scope : path) (idx : N) : list N :=
  match fuel with O => bad | S f =>
  match obj idx with
  | None => bad
  | Some o =>
      let op := o_opcode o in
      if (op =? aml_pOpIf) || (op =? aml_pOpElse) || (op =? aml_pOpWhile) then
        [op] ++ flat_map (fun k => match obj k with
                                   | Some ko => if o_opcode ko =? aml_pOpIntScopeBlock
                                                then flat_map (renderStmt f known scope) (kids ko)
                                                else renderStmt f known scope k
                                   | None => bad end) (kids o)
      else renderExpr pool_fuel known scope idx
  end end.

(** ordinal (1-based) of connection [conn] among the Connection children of the field container *)
Fixpoint conn_ordinal (ks : list N) (conn : N) (n : N) : N :=
  match ks with
  | [] => 0xffff
  | k :: r => match obj k with
              | Some ko => if o_opcode ko =? aml_pOpIntConnection
                           then (if k =? conn then n + 1 else conn_ordinal r conn (n + 1))
                           else conn_ordinal r conn n
              | None => conn_ordinal r conn n
              end
  end.

(** second pass over the children of [scope] (a ScopeBlock): the entries of the declarations found there
    (recursively), and the rendered non-declaration statements of this block in order; the caller turns the
    latter into the body of a Method entry or into anonymous entries *)
Definition anon (p : path) (stmts : list (list N)) : list (list N) := map (fun s => [2] ++ tok_path p ++ s) stmts.

Fixpoint walk (fuel : nat) (known : list path) (scope : N) (p : path) : list (list N) * list (list N) :=
  match fuel with O => ([bad], []) | S f =>
  match obj scope with
  | None => ([bad], [])
  | Some so =>
      fold_left (fun (acc : list (list N) * list (list N)) c =>
        let '(es, stmts) := acc in
        match obj c with
        | None => (es ++ [bad], stmts)
        | Some co =>
            let op := o_opcode co in
            if (op =? aml_pOpIntScopeBlock) && negb (is_zero_scopeblock co) then
              let p' := p ++ [name_num (o_name co)] in
              let '(es', st') := walk f known c p' in
              (es ++ es' ++ anon p' st', stmts)
            else if op =? aml_pOpIntNamedField then
              match o_value co with
              | Some (VField fe) =>
                  let cont := obj (fe_fieldIndex fe) in
                  let kind := match cont with Some k => o_opcode k | None => 0 end in
                  let conn := if fe_connectionIndex fe =? InvalidIndex then 0
                              else match cont with Some k => conn_ordinal (kids k) (fe_connectionIndex fe) 0 | None => 0xffff end in
                  (es ++ [[1] ++ tok_path (p ++ [name_num (o_name co)]) ++
                          [aml_pOpIntNamedField; kind; fe_offset fe; fe_width fe; fe_accessLength fe; fe_accessType fe; fe_accessAttrib fe;
                           fe_lockType fe; fe_updateType fe; conn]], stmts)
              | _ => (es ++ [bad], stmts)
              end
            else if is_declop op then
              let p' := p ++ [name_num (o_name co)] in
              let argScope := if op =? aml_pOpMethod then p' else p in
              match kids co with
              | nameArg :: rest =>
                  let '(sub, args) :=
                    fold_left (fun (a : list (list N) * list N) k =>
                      let '(sub, args) := a in
                      match obj k with
                      | Some ko =>
                          if o_opcode ko =? aml_pOpIntScopeBlock then
                            let '(es', st') := walk f known k p' in
                            if op =? aml_pOpMethod then (sub ++ es', args ++ concat st')
                            else (sub ++ es' ++ anon p' st', args)
                          else (sub, args ++ renderExpr pool_fuel known argScope k)
                      | None => (sub ++ [bad], args)
                      end) rest ([], []) in
                  (es ++ sub ++ [[1] ++ tok_path p' ++ [op] ++ args], stmts)
              | [] => (es ++ [bad], stmts)
              end
            else if op =? aml_pOpScope then (es ++ [[3] ++ tok_path p], stmts)
            else if is_fieldcontainerop op then (es ++ [[2] ++ tok_path p ++ renderStmt pool_fuel known p c], stmts)
            else (es, stmts ++ [renderStmt pool_fuel known p c])
        end) (kids so) ([], [])
  end end.

End View.

(** the namespace view: statements of non-method scopes become anonymous entries *)
Definition view (t : ObjectTree value) (tables : list (list N)) : list (list N) :=
  let known := [] :: collect_known t (pool_fuel t) 0 [] in
  let '(es, stmts) := walk t tables (pool_fuel t) known 0 [] in
  es ++ anon [] stmts.
