From Coq Require Import NArith Arith List Bool Lia.
From Coq Require Import ZifyBool ZifyN ZifyNat.
From FF Require Import Lib.Word Gen.Consts_device_acpi_aml Gen.Consts_aml_tree Aml.Stream Aml.Lex Aml.LexProofs
  Aml.Tree Aml.Parser Aml.ParserProofs Aml.TreeSpec Aml.TreeProofs Aml.TreeProofsOps Aml.TreeProofsFind Aml.TreeProofsAnc
  Aml.ParserTotalTree Aml.ParserTotalTree2 Aml.ParserTotalLex Aml.ParserTotalTable Aml.ParserTotalBase Aml.ParserTotalLeaf
  Aml.ParserTotalFrame Aml.ParserTotalLeaf2 Aml.ParserTotalFirst Aml.ParserTotalConn Aml.ParserTotalReloc Aml.ParserTotalDefer.
Import ListNotations.
Local Open Scope N_scope.

Section StepN.
Variable tbls : list (list N).
Notation IV := (Inv tbls).
Notation FD := (FIm true).

Ltac wwrfI I H Hl :=
  wbi tbls I; eapply (wrf_step _ _ _ _ _ _ H Hl);
  [ let o := fresh "o" in let Ho := fresh "Ho" in intros o Ho; lk_tac
  | let o := fresh "o" in let Ho := fresh "Ho" in let Hi := fresh "Hi" in intros o Ho Hi; info_tac
  | ].

Lemma glive_append g o a x : glive (astep g (OpAppend o a)) x <-> glive g x.
Proof. cbn [astep]. unfold glive. rewrite set_kids_len, set_kids_free. tauto. Qed.

Lemma wp_scopeExit P s x st (Q : unit -> pstate -> Prop) :
  p_scopeStack s = x :: st -> Q tt (with_scopeStack s st) -> wp P scopeExit s Q.
Proof. intros E H. unfold wp, scopeExit. rewrite E. exact H. Qed.

Lemma step_Dname fuel : D_callargs tbls fuel -> D_name tbls (S fuel).
Proof.
  intros IHc s g top rest H I0 H0 Est Hroom HTM Hnnp. cbn [parseNamePathOrMethodCall].
  pose proof (fi_rok _ _ H) as Hrok. pose proof (roomD_lp _ _ Hroom) as Hlp.
  pose proof (fi_R _ _ H) as HR. pose proof (R_gwf _ _ HR) as Hwf.
  pose proof (scope_topD _ _ _ _ H Est) as Htop.
  wbi tbls I0. apply wp_get. intros _.
  wbi tbls I0. apply wp_get. intros _.
  apply (wp_bind_hoare tbls _ _ _ _ _ (fun x => slice_ok tbls (cur tbls) (fst x)) I0);
    [apply hoare_lex_slice; [apply safe2_parseNameString|right; reflexivity]|].
  apply wp_namestring; auto. intros v ok r1 Hadv Hok I1 Hsl. cbn [fst] in Hsl.
  set (s1 := with_r s r1) in *.
  assert (H1 : FD s1 g) by (apply FI_adv; auto).
  assert (F1 : Fr NoP (eq top) NoP s g s1 g) by (eapply Fr_tree_eq; [apply Fr_refl|reflexivity]).
  assert (A1 : at_ s s1 0 0) by (apply at_adv0; [apply at_refl; auto|exact Hadv]).
  destruct ok; cbn [negb].
  2:{ apply wp_ret. exists g. split; [exact H1|]. split; [eapply at_ExtD; [exact A1|apply gext_refl]|]. split; [exact F1|].
      pose proof (at_Psi _ _ _ _ A1). split; [lia|]. split; [discriminate|]. intros E; discriminate. }
  specialize (Hok eq_refl).
  assert (A1' : at_ s s1 1 0).
  { eapply at_r; [apply at_refl; auto|destruct Hadv as ((_ & E & _) & _); exact E|lia|destruct Hadv as (_ & _ & L); exact L]. }
  pose proof (at_Psi _ _ _ _ A1') as P1.
  wbi tbls I1. apply wp_get. intros _. rewrite (fi_skip _ _ H1). cbn [negb].
  wbi tbls I1. eapply wp_scopeCurrent; [exact Est|]. intros _.
  rewrite (FI_ObjectAt _ _ _ H1 Htop).
  assert (Hlive_top : live (p_tree s1) top) by (apply (R_live_glive _ _ (fi_R _ _ H1)); exact Htop).
  assert (Hlive_0 : True) by exact I.
  wbi tbls I1. eapply wp_tq; [apply (ClosestNamedAncestor_spec _ _ (fi_R _ _ H1) (info_valid_ok _ (fi_info _ _ H1)) top Hlive_top)|]. intros _.
  assert (Hsl1 : slice_ok (p_tables s1) (N.of_nat (length (p_tables s1)) - 1) v).
  { rewrite (inv_tbls _ _ I1). exact Hsl. }
  destruct (slice_bytes_ok s1 _ v Hsl1) as (bytes & Eb & _).
  wbi tbls I1. eapply wp_bytesOf; [exact Eb|]. intros _.
  assert (Hlive_r : live (p_tree s1) 0) by (apply (R_live_glive _ _ (fi_R _ _ H1)); exact H0).
  assert (Hfind : exists target, Find (p_tree s1) (enc_result (closest_ref (p_tree s1) g top)) bytes = Ok target /\
                                 (target = InvalidIndex \/ glive g target)).
  { destruct (closest_ref (p_tree s1) g top) as [a|] eqn:Ea; cbn [enc_result].
    - pose proof (closest_ref_live _ _ (fi_R _ _ H1) top a Hlive_top Ea) as Hla.
      pose proof (Find_spec _ _ (fi_R _ _ H1) a bytes Hla Hlive_r) as Ef. eexists. split; [exact Ef|].
      destruct (Find_result_live _ _ (fi_R _ _ H1) a bytes _ Hla Hlive_r Ef) as [E|E]; [left; exact E|right].
      apply (R_live_glive _ _ (fi_R _ _ H1)). exact E.
    - exists InvalidIndex. split; [apply Find_invalid|left; reflexivity]. }
  destruct Hfind as (target & Efind & Htarget).
  wbi tbls I1. eapply wp_tq; [exact Efind|]. intros _.
  destruct (N.eqb_spec target InvalidIndex) as [Et|Et].
  { apply wp_ret. exists g. split; [exact H1|]. split; [eapply at_ExtD; [exact A1'|apply gext_refl]|]. split; [exact F1|].
    split; [lia|]. split; [discriminate|]. intros E; discriminate. }
  destruct Htarget as [?|Hlt]; [contradiction|].
  wbi tbls I1. apply wp_get. intros _. rewrite (FI_ObjectAt _ _ _ H1 Hlt).
  (* the new object *)
  wbi tbls I1. eapply new_step2; [exact H1|apply (newokb_sound aml_pOpIntResolvedNamePath eq_refl)| |].
  { unfold lp in *. unfold s1. pcbn. lia. }
  intros p t2 g2 po H2 Hext2 Hfresh2 Hlive2 Hroot2 Hkids2 Hpo Hpop _ _ Hl2 Hfw2 Hks2 Hlv2 I2.
  set (s2 := with_tree s1 t2) in *.
  assert (F2 : Fr NoP (eq top) NoP s g s2 g2) by (apply (Fr_new NoP (eq top) NoP s g s1 g t2 g2 p F1 (fun x Hx => Hx) Hfresh2 Hfw2 Hks2)).
  assert (A2 : at_ s s2 1 1) by (eapply at_new'; [exact A1'|exact Hl2|reflexivity]).
  wwrfI I2 H2 Hlive2. intros o3 Hg3 Hlo3 H3 I3.
  match type of H3 with FIm true ?st _ => set (s3 := st) in * end.
  assert (F3 : Fr NoP (eq top) NoP s g s3 g2) by (apply Fr_tset_fresh; [exact F2|exact Hfresh2]).
  assert (A3 : at_ s s3 1 1) by (apply at_tset; exact A2).
  wwrfI I3 H3 Hlive2. intros o4 Hg4 Hlo4 H4 I4.
  match type of H4 with FIm true ?st _ => set (s4 := st) in * end.
  assert (F4 : Fr NoP (eq top) NoP s g s4 g2) by (apply Fr_tset_fresh; [exact F3|exact Hfresh2]).
  assert (A4 : at_ s s4 1 1) by (apply at_tset; exact A3).
  assert (Est4 : p_scopeStack s4 = top :: rest) by exact Est.
  assert (Htop2 : glive g2 top) by (apply (ge_live _ _ Hext2); exact Htop).
  wbi tbls I4. eapply wp_scopeCurrent; [exact Est4|]. intros _.
  rewrite (FI_ObjectAt _ _ _ H4 Htop2).
  wbi tbls I4. eapply (append_step _ top p s4 g2 g); [exact H4|exact Hwf|exact Hext2|exact Htop|exact Hfresh2|exact Hlive2|exact Hroot2|].
  intros t5 H5 Hext5 Hpf5 Hk5 Hk5' I5.
  set (g5 := astep g2 (OpAppend top p)) in *. set (s5 := with_tree s4 t5) in *.
  assert (F5 : Fr NoP (eq top) NoP s g s5 g5).
  { apply (Fr_append NoP (eq top) NoP s g s4 g2 t5 g5 top p F4 Hpf5 Hk5 Hk5'). intros _. left. reflexivity. }
  assert (A5 : at_ s s5 1 1) by (apply at_pframe; [exact A4|exact Hpf5]).
  pose proof (at_Psi _ _ _ _ A5) as P5.
  assert (Hktop5 : kids g5 top = kids g top ++ [p]) by (rewrite Hk5, Hks2; reflexivity).
  assert (Hlive5 : glive g5 p) by (apply glive_append; exact Hlive2).
  cbn [need]. wbi tbls I5. apply wp_ret. intros _.
  assert (Hlt5 : glive g5 target) by (apply glive_append; apply (ge_live _ _ Hext2); exact Hlt).
  destruct (FI_live_get _ _ _ H5 Hlt5) as (tgo5 & Htgo5 & Hltgo5).
  wbi tbls I5. apply wp_rdf. exists tgo5. split; [exact Htgo5|]. intros _.
  (* the object at [p]: its opcode is not Method *)
  assert (Hp5 : exists po5, tget (p_tree s5) p = Some po5 /\ o_opcode po5 = aml_pOpIntResolvedNamePath).
  { assert (Hp4 : exists po4, tget (p_tree s4) p = Some po4 /\ o_opcode po4 = aml_pOpIntResolvedNamePath).
    { unfold s4, s3, s2. pcbn. rewrite !get_tset, !N.eqb_refl. assert (Hy : tget t2 p = Some po) by exact Hpo.
      rewrite Hy. cbn [option_map]. eexists. split; [reflexivity|]. cbn [o_opcode set_value set_amlOffset]. exact Hpop. }
    destruct Hp4 as (po4 & Hpo4 & Eop4). destruct (proj2 Hpf5 _ _ Hpo4) as (po5 & Hpo5 & E5 & _).
    exists po5. split; [exact Hpo5|congruence]. }
  assert (Hnew5 : forall m mo, tget (p_tree s5) m = Some mo -> o_opcode mo = aml_pOpMethod -> ~ glive g m -> False).
  { intros m mo Hm Hmop Hnl.
    assert (Hl5m : glive g5 m) by (apply (R_live_glive _ _ (fi_R _ _ H5)); exists mo; split; [exact Hm|rewrite Hmop; discriminate]).
    apply glive_append in Hl5m. destruct (Hlv2 m Hl5m) as [F|F]; [contradiction|]. subst m.
    destruct Hp5 as (po5 & Hpo5 & Eop5). assert (po5 = mo) by congruence. subst. rewrite Hmop in Eop5. discriminate. }
  assert (HTM5 : TM NoX s5 g5).
  { eapply (TM_frame2 NoX NoX NoP (eq top) NoP s g s5 g5 Hwf HR HTM F5); try (intros; contradiction); try apply Eok_NoP; [intros i <-; exact Hnnp|].
    intros m mo Hm Hmop Hnl. exfalso. eapply Hnew5; eauto. }
  assert (Est5 : p_scopeStack s5 = top :: rest) by exact Est.
  destruct (negb (o_opcode tgo5 =? aml_pOpMethod)) eqn:Enm.
  { apply wp_ret. exists g5. split; [exact H5|]. split; [eapply at_ExtD; [exact A5|exact Hext5]|]. split; [exact F5|].
    split; [lia|]. split; [discriminate|]. intros _. split; [lia|]. split; [exact HTM5|]. split; [exact (eq_trans Est5 (eq_sym Est))|].
    exists p. split; [exact Hktop5|exact Hfresh2]. }
  apply negb_false_iff in Enm. apply N.eqb_eq in Enm.
  (* a method call *)
  wwrfI I5 H5 Hlive5. intros o6 Hg6 Hlo6 H6 I6.
  match type of H6 with FIm true ?st _ => set (s6 := st) in * end.
  assert (F6 : Fr NoP (eq top) NoP s g s6 g5) by (apply Fr_tset_fresh; [exact F5|exact Hfresh2]).
  assert (A6 : at_ s s6 1 1) by (apply at_tset; exact A5).
  destruct (nk_info _ (newokb_sound aml_pOpIntMethodCall eq_refl)) as (idx & Hidx & Hinf).
  wbi tbls I6. eapply wp_tableIndex; [exact Hidx|]. intros _.
  wwrfI I6 H6 Hlive5. intros o7 Hg7 Hlo7 H7 I7.
  match type of H7 with FIm true ?st _ => set (s7 := st) in * end.
  assert (F7 : Fr NoP (eq top) NoP s g s7 g5) by (apply Fr_tset_fresh; [exact F6|exact Hfresh2]).
  assert (A7 : at_ s s7 1 1) by (apply at_tset; exact A6).
  pose proof (at_Psi _ _ _ _ A7) as P7.
  destruct (FI_live_get _ _ _ H7 Hlive5) as (po7 & Hpo7 & _).
  wbi tbls I7. apply wp_rdf. exists po7. split; [exact Hpo7|]. intros _. rewrite (R_index _ _ (fi_R _ _ H7) _ _ Hpo7).
  wbi tbls I7. apply wp_scopeEnter. intros I8.
  set (s8 := with_scopeStack s7 (p :: p_scopeStack s7)) in *.
  assert (Est7 : p_scopeStack s7 = top :: rest) by exact Est.
  assert (Est8 : p_scopeStack s8 = p :: top :: rest) by (unfold s8; pcbn; rewrite Est7; reflexivity).
  assert (H8 : FD s8 g5).
  { apply FI_with_scope; [exact H7|]. constructor; [exact Hlive5|]. apply (fi_scopes _ _ H7). }
  assert (F8 : Fr NoP (eq top) NoP s g s8 g5) by (eapply Fr_tree_eq; [exact F7|reflexivity]).
  (* the object at [p] is a method call now *)
  assert (Hp8 : exists po8, tget (p_tree s8) p = Some po8 /\ o_opcode po8 = aml_pOpIntMethodCall).
  { unfold s8, s7, s6. pcbn. rewrite !get_tset, !N.eqb_refl. destruct Hp5 as (po5 & Hpo5 & _). rewrite Hpo5. cbn [option_map].
    eexists. split; [reflexivity|]. reflexivity. }
  assert (Htg8 : tget (p_tree s8) target = Some tgo5).
  { unfold s8, s7, s6. pcbn. rewrite !get_tset.
    assert (Hne : (target =? p) = false) by (apply N.eqb_neq; intros E; apply Hfresh2; rewrite <- E; exact Hlt). rewrite !Hne. exact Htgo5. }
  assert (HTM8 : TM NoX s8 g5).
  { eapply (TM_frame2 NoX NoX NoP (eq top) NoP s g s8 g5 Hwf HR HTM F8); try (intros; contradiction); try apply Eok_NoP; [intros i <-; exact Hnnp|].
    intros m mo Hm Hmop Hnl. exfalso.
    assert (Hl5m : glive g5 m) by (apply (R_live_glive _ _ (fi_R _ _ H8)); exists mo; split; [exact Hm|rewrite Hmop; discriminate]).
    apply glive_append in Hl5m. destruct (Hlv2 m Hl5m) as [F|F]; [contradiction|]. subst m.
    destruct Hp8 as (po8 & Hpo8 & Eop8). assert (po8 = mo) by congruence. subst. rewrite Hmop in Eop8. discriminate. }
  destruct (HTM8 target tgo5 Htg8 Enm (fun F => F)) as (a0 & a1 & rest' & a0o & a1o & vv & Hk8 & _ & _ & Ha1 & Hv & _).
  wbi tbls I8.
  { unfold methodArgCountPanic.
    apply wp_bind. eapply wp_tq.
    { apply (ArgAt_spec _ _ (fi_R _ _ H8) target 1). apply (R_live_glive _ _ (fi_R _ _ H8)). exact Hlt5. }
    rewrite Hk8. change (N.to_nat 1) with 1%nat. cbn [nth_error need].
    apply wp_bind. apply wp_ret.
    apply wp_bind. apply wp_rdo. exists a1o. split; [exact Ha1|]. rewrite Hv. apply wp_ret.
    intros _.
    (* the arguments of the call *)
    assert (H05 : glive g5 0) by (apply glive_append; apply (ge_live _ _ Hext2); exact H0).
    assert (Hroom8 : roomD 0 s8).
    { assert (EP : Psi s8 = Psi s7) by reflexivity. unfold roomD in *. lia. }
    assert (Hnnp8 : nnp s8 p).
    { intros co Hco. unfold s8, s7, s6 in Hco. pcbn_in Hco. rewrite !get_tset, !N.eqb_refl in Hco. destruct Hp5 as (po5 & Hpo5 & _). rewrite Hpo5 in Hco.
      cbn [option_map] in Hco. inversion Hco. cbn [o_infoIndex set_infoIndex set_opcode]. intros E. rewrite E in Hidx. vm_compute in Hidx. discriminate. }
    wbi tbls I8. eapply wp_weaken; [apply (IHc (N.to_nat (N.land vv 7)) s8 g5 p (top :: rest) H8 I8 H05 Est8 Hroom8 HTM8 Hnnp8)| |].
    { auto. }
    intros ok2 s9 (g9 & H9 & X9 & Fr9 & Psi9 & Hok9) I9.
    destruct (xd_scopes _ _ _ _ X9) as (extra & Es9). rewrite Est8 in Es9.
    assert (Hst9 : exists x st, p_scopeStack s9 = x :: st /\ exists e2, st = e2 ++ top :: rest /\ (ok2 = true -> e2 = [])).
    { destruct extra as [|e extra'].
      - exists p, (top :: rest). split; [exact Es9|]. exists []. split; [reflexivity|auto].
      - exists e, (extra' ++ p :: top :: rest). split; [exact Es9|]. exists (extra' ++ [p]). split; [rewrite <- app_assoc; reflexivity|].
        intros Eok. destruct (Hok9 Eok) as (_ & _ & Est9). rewrite Est8 in Est9. rewrite Est9 in Es9.
        exfalso. assert (Hlen : length (p :: top :: rest) = length ((e :: extra') ++ p :: top :: rest)) by (rewrite <- Es9; reflexivity).
        rewrite app_length in Hlen. cbn [length] in Hlen. lia. }
    destruct Hst9 as (x9 & st9 & Es9' & e2 & Est9 & He2).
    wbi tbls I9. eapply wp_scopeExit; [exact Es9'|]. intros I10.
    set (s10 := with_scopeStack s9 st9) in *.
    assert (H10 : FD s10 g9).
    { apply FI_with_scope; [exact H9|]. pose proof (fi_scopes _ _ H9) as Fs. rewrite Es9' in Fs. inversion Fs; auto. }
    apply wp_ret. exists g9. split; [exact H10|].
    assert (Hext9 : gext g g9) by (eapply gext_trans; [exact Hext5|apply (xd_g _ _ _ _ X9)]).
    split.
    { constructor; [exact Hext9| | |].
      - change (r_len (p_r s10)) with (r_len (p_r s9)). rewrite (xd_len _ _ _ _ X9). destruct A7 as (L & _). exact L.
      - change (r_offset (p_r s10)) with (r_offset (p_r s9)). pose proof (xd_off _ _ _ _ X9) as O9. destruct A7 as (_ & O7 & _).
        change (r_offset (p_r s8)) with (r_offset (p_r s7)) in O9. lia.
      - exists e2. unfold s10. pcbn. rewrite Est, Est9. reflexivity. }
    split.
    { apply (Fr_tree_eq NoP (eq top) NoP s g s9 g9 s10); [|reflexivity]. eapply Fr_trans; [exact F8|exact Fr9| | | |].
      - intros y Hy. apply glive_append. apply (ge_live _ _ Hext2). exact Hy.
      - intros i _ [].
      - intros y Hy E. subst y. contradiction.
      - intros y _ []. }
    assert (EP10 : Psi s10 = Psi s9) by reflexivity. assert (EP8 : Psi s8 = Psi s7) by reflexivity.
    split; [lia|]. split; [destruct ok2; discriminate|]. intros Eok. destruct ok2; [|discriminate]. destruct (Hok9 eq_refl) as (K1 & K2 & K3).
    split; [lia|]. split; [eapply TM_tree_eq; [exact K2|reflexivity]|].
    split; [unfold s10; pcbn; rewrite Est, Est9, (He2 eq_refl); reflexivity|].
    exists p. split; [|exact Hfresh2].
    destruct (fr_kids _ _ _ _ _ _ _ Fr9 top) as (_ & Hex); [apply glive_append; exact Htop2|intros []|].
    rewrite Hex; [exact Hktop5|]. intros E. subst top. contradiction. }
Qed.
End StepN.
