(** Concrete well-formed programs on which the faithful model of the UNCHANGED parser violates the full statement
    of C11 (one per known finding of known_findings/C11.json); checked by computation. *)
From Coq Require Import NArith List Bool.
From FF Require Import Lib.Word Gen.Consts_device_acpi_aml Aml.Stream Aml.Lex Aml.Tree Aml.Parser Aml.Grammar Aml.View Aml.WfProgram.
Import ListNotations.
Local Open Scope N_scope.

Definition sg (a b c d : N) : N := seg4 a b c d.
Definition nm1 (s : N) : namestr := mkName false 0 false [s].
Definition _SB_ := sg 0x5f 0x53 0x42 0x5f.
Definition _SI_ := sg 0x5f 0x53 0x49 0x5f.
Definition DEV0 := sg 0x44 0x45 0x56 0x30.
Definition DEV1 := sg 0x44 0x45 0x56 0x31.
Definition NAM0 := sg 0x4e 0x41 0x4d 0x30.
Definition MTH0 := sg 0x4d 0x54 0x48 0x30.
Definition REG0 := sg 0x52 0x45 0x47 0x30.
Definition BUF0 := sg 0x42 0x55 0x46 0x30.
Definition One := AConst 1 0.
Definition byte (v : N) := AConst OP_BYTE v.

(** Scope(\_SB_.DEV0.DEV1) after Scope(_SB_){Device(DEV0){Device(DEV1){}}} : path through a Device *)
Definition w_path_through_device : list (list ast) :=
  [[AScope 1 (nm1 _SB_) [ADevice 1 (nm1 DEV0) [ADevice 1 (nm1 DEV1) []]];
    AScope 1 (mkName true 0 false [_SB_; DEV0; DEV1]) [AName (nm1 NAM0) One]]].

(** Scope(_SB_){Device(DEV0){Device(^DEV1){Name(NAM0, One)}}} : '^' inside a Device scope *)
Definition w_caret_in_device : list (list ast) :=
  [[AScope 1 (nm1 _SB_) [ADevice 1 (nm1 DEV0) [ADevice 1 (mkName false 1 false [DEV1]) [AName (nm1 NAM0) One]]]]].

(** Name(NAM0, One) with the name written 2f 01 NAM0 *)
Definition w_noncanonical_multiname : list (list ast) := [[AName (mkName false 0 true [NAM0]) One]].

(** Method(MTH0){If(One){}} *)
Definition w_if_without_body : list (list ast) := [[AMethod 1 (nm1 MTH0) 0 [AIf 1 One []]]].

(** Name(NAM0, 1) OperationRegion(REG0, 0, Add(NAM0, 0x10), 0x20) *)
Definition w_named_object_operator_arg : list (list ast) :=
  [[AName (nm1 NAM0) (byte 1); AOpRegion (nm1 REG0) 0 (AOp aml_pOpAdd [ARef (nm1 NAM0); byte 0x10; ANull]) (byte 0x20)]].

(** Scope(_SI_){Method(MTH0){}}  Scope(_SB_){Name(NAM0, ^_SI_.MTH0())} *)
Definition w_path_inside_named_object_arg : list (list ast) :=
  [[AScope 1 (nm1 _SI_) [AMethod 1 (nm1 MTH0) 0 []];
    AScope 1 (nm1 _SB_) [AName (nm1 NAM0) (ACall (mkName false 1 false [_SI_; MTH0]) [])]]].

(** Method(MTH0){While(One){If(One){Continue} Else{Break}}} : the Else branch disappears *)
Definition w_deferred_block_truncated : list (list ast) :=
  [[AMethod 1 (nm1 MTH0) 0 [AWhile 1 One [AIf 1 One [AOp aml_pOpContinue []]; AElse 1 [AOp aml_pOpBreak []]]]]].

(** Name(BUF0, Buffer(Buffer(Zero){}){0x0a}) *)
Definition w_empty_buffer_in_deferred_block : list (list ast) :=
  [[AName (nm1 BUF0) (ABuffer 1 (ABuffer 1 (AConst 0 0) []) [0x0a])]].

Fixpoint leqb (a b : list N) : bool :=
  match a, b with [], [] => true | x :: a', y :: b' => (x =? y) && leqb a' b' | _, _ => false end.
Fixpoint lleqb (a b : list (list N)) : bool :=
  match a, b with [], [] => true | x :: a', y :: b' => leqb x y && lleqb a' b' | _, _ => false end.

Lemma leqb_refl a : leqb a a = true.
Proof. induction a as [|x a IH]; cbn; [reflexivity|]. rewrite N.eqb_refl, IH. reflexivity. Qed.
Lemma lleqb_refl a : lleqb a a = true.
Proof. induction a as [|x a IH]; cbn; [reflexivity|]. rewrite leqb_refl, IH. reflexivity. Qed.

(** decidable form of the statement *)
Definition parse_ok (p : list (list ast)) : bool :=
  let '(c, v) := parse_program p in (c =? 0) && lleqb v (ns p).

Lemma parse_ok_complete p : parse_encode_statement p -> parse_ok p = true.
Proof. unfold parse_encode_statement, parse_ok. intros ->. rewrite N.eqb_refl. cbn [andb]. apply lleqb_refl. Qed.

Definition refutes (p : list (list ast)) : bool := wf_program p && negb (parse_ok p).

Lemma refutes_sound p : refutes p = true -> wf_program p = true /\ ~ parse_encode_statement p.
Proof.
  unfold refutes. intros H. apply andb_true_iff in H. destruct H as (H1 & H2). split; [exact H1|].
  intros Hs. pose proof (parse_ok_complete p Hs) as Hc.
  destruct (parse_ok p); [discriminate H2|discriminate Hc].
Qed.

Lemma witnesses_refute :
  forallb refutes [w_path_through_device; w_caret_in_device; w_noncanonical_multiname; w_if_without_body;
                   w_named_object_operator_arg; w_path_inside_named_object_arg; w_deferred_block_truncated;
                   w_empty_buffer_in_deferred_block] = true.
Proof. vm_compute. reflexivity. Qed.

Definition witnesses : list (list (list ast)) :=
  [w_path_through_device; w_caret_in_device; w_noncanonical_multiname; w_if_without_body;
   w_named_object_operator_arg; w_path_inside_named_object_arg; w_deferred_block_truncated;
   w_empty_buffer_in_deferred_block].

Lemma witnesses_all : Forall (fun p => wf_program p = true /\ ~ parse_encode_statement p) witnesses.
Proof.
  unfold witnesses. repeat (constructor; [apply refutes_sound; vm_compute; reflexivity|]). constructor.
Qed.

(** a program on which the statement holds (non-vacuity of its conclusion): scopes, a device, a method with a call
    to a method declared later, a region with fields, a package, a buffer *)
Definition MTH1 := sg 0x4d 0x54 0x48 0x31.
Definition FLD0 := sg 0x46 0x4c 0x44 0x30.
Definition good_program : list (list ast) :=
  [[AScope 2 (nm1 _SB_)
      [ADevice 2 (nm1 DEV0)
         [AName (nm1 NAM0) (APackage 1 2 [byte 7; AStr [0x61; 0x62]]);
          AMethod 1 (nm1 MTH0) 1 [AOp aml_pOpReturn [ACall (nm1 MTH1) [AOp aml_pOpAdd [AOp aml_pOpArg0 []; byte 1; ANull]; One]]];
          AOpRegion (nm1 REG0) 1 (byte 0x10) (byte 4);
          AField 1 (nm1 REG0) 1 [FNamed FLD0 1 8; FReserved 1 8; FAccess 2 0]]];
    AMethod 1 (mkName true 0 false [_SB_; MTH1]) 2 [AOp aml_pOpReturn [AOp aml_pOpArg1 []]];
    AName (nm1 BUF0) (ABuffer 1 (byte 4) [1; 2; 3])]].

Lemma good_program_ok : wf_program good_program = true /\ parse_encode_statement good_program.
Proof. split; [vm_compute; reflexivity|]. unfold parse_encode_statement. vm_compute. reflexivity. Qed.
