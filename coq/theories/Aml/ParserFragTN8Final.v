(** C11 (fragment TN8): [parse_encode] for programs of any number of tables with the items of F8.

    As TN (see ParserFragTNFinal.v) with the items of the fragment F8 in every table: in addition to TN, package elements
    may be packages (nested to any depth).  All tables but the last one are without Scope directives; 6 + the sum of the
    encoded table lengths is below 2^28.  Subsumes F8 and TN. *)
From Coq Require Import NArith ZArith Arith List Bool Lia Permutation.
From Coq Require Import ZifyBool ZifyN ZifyNat.
From FF Require Import Lib.Word Gen.Consts_device_acpi_aml Gen.Consts_aml_tree Aml.Stream Aml.Lex Aml.LexProofs
  Aml.Tree Aml.TreeSpec Aml.Parser Aml.Grammar Aml.LexRoundtrip
  Aml.ParserFragBase Aml.ParserFragFirst Aml.ParserFragF0 Aml.ParserFragF0Conn Aml.ParserFragF0Top
  Aml.ParserFragRose Aml.ParserFragDev Aml.ParserFragArgs Aml.ParserFragF1 Aml.ParserFragF1First Aml.ParserFragF1Conn Aml.ParserFragF1Top
  Aml.View Aml.ParserFragView Aml.ParserFragF0View Aml.ParserFragF0Final Aml.ParserFragSort Aml.ParserFragF1View Aml.WfProgram
  Aml.ParserFragF1Final Aml.ParserFragScope Aml.ParserFragScope3 Aml.ParserFragF3Top Aml.ParserFragF3View Aml.ParserFragF3Final
  Aml.ParserFragF8Final Aml.ParserFragT2Top Aml.ParserFragTNTop Aml.ParserFragTNView Aml.ParserFragTNFinal.
Import ListNotations.
Local Open Scope N_scope.

Ltac Zify.zify_post_hook ::= Z.div_mod_to_equations.

Fixpoint f8_tables (l : list (list ast)) : option (list (list titem)) :=
  match l with
  | [] => Some []
  | p :: r => match f8_titems p, f8_tables r with Some ts, Some tss => Some (ts :: tss) | _, _ => None end
  end.

Definition in_fragment_TN8 (tables : list (list ast)) : bool :=
  match tables with
  | [] => false
  | _ => match f8_tables tables with
         | Some tss => forallb noscope (removelast tss) && (6 + lenN (flat_map encode_table tables) <? 0x10000000)
         | None => false
         end
  end.

Lemma f8_tables_ast : forall l tss, f8_tables l = Some tss -> l = map (map titem_ast) tss /\ Forall tables_ok tss.
Proof.
  induction l as [|p r IH]; intros tss Hl; cbn [f8_tables] in Hl.
  - inversion Hl. split; [reflexivity|constructor].
  - destruct (f8_titems p) as [ts|] eqn:Ep; [|discriminate]. destruct (f8_tables r) as [tss'|] eqn:Er; [|discriminate].
    inversion Hl; subst tss. destruct (f8_titems_ast p ts Ep) as (-> & Hd & Hs). destruct (IH tss' eq_refl) as (-> & Hr).
    split; [reflexivity|constructor; [split; assumption|exact Hr]].
Qed.

(** THE THEOREM for the fragment TN *)
Theorem parse_encode_TN8 : forall tables,
  wf_program tables = true -> in_fragment_TN8 tables = true -> parse_encode_statement tables.
Proof.
  intros tables Hwf Hfr. unfold in_fragment_TN8 in Hfr.
  assert (Hne : tables <> []) by (intros ->; discriminate Hfr).
  assert (Hfr' : match f8_tables tables with
                 | Some tss => forallb noscope (removelast tss) && (6 + lenN (flat_map encode_table tables) <? 0x10000000)
                 | None => false
                 end = true) by (destruct tables; [congruence|exact Hfr]).
  clear Hfr. destruct (f8_tables tables) as [tss|] eqn:Ets; [|discriminate].
  apply andb_prop in Hfr'. destruct Hfr' as [Hns Hsz]. apply N.ltb_lt in Hsz.
  destruct (f8_tables_ast tables tss Ets) as (E & Hok). subst tables.
  destruct (exists_last (l := tss)) as (front & ts & ->).
  { intros ->. apply Hne. reflexivity. }
  rewrite removelast_last in Hns.
  apply parse_encode_tables; assumption.
Qed.
