(** C11 (stretch): the first pass of ParseAML on the encoding of a flat list of
    [Name(<one name segment>, <integer constant>)] statements, as a function: which objects it creates, with which
    payload, and where it hangs them.  (Productions: DefName with a single-segment NameString and a ComputationalData
    constant: ZeroOp / OneOp / OnesOp / ByteConst / WordConst / DWordConst / QWordConst.) *)
From Coq Require Import NArith Arith List Bool Lia.
From Coq Require Import ZifyBool ZifyN ZifyNat.
From FF Require Import Lib.Word Gen.Consts_device_acpi_aml Gen.Consts_aml_tree Aml.Stream Aml.Lex Aml.LexProofs
  Aml.Grammar Aml.View Aml.WfProgram Aml.LexRoundtrip
  Aml.Tree Aml.TreeSpec Aml.TreeProofs Aml.TreeProofsOps Aml.Parser
  Aml.ParserTotalTree Aml.ParserTotalLex Aml.ParserTotalTable Aml.ParserTotalBase Aml.ParserTotalLeaf Aml.ParserTotalFirst.
Import ListNotations.
Local Open Scope N_scope.

(** ---- exact versions of the tree steps ---- *)
Lemma kids_new g opc th i : kids (astep g (OpNew opc th)) i = kids g i.
Proof. cbn [astep]. destruct (g_free g); [apply kids_app_nil|reflexivity]. Qed.

Lemma kids_append g o a i : o < N.of_nat (length (g_kids g)) ->
  kids (astep g (OpAppend o a)) i = if i =? o then kids g o ++ [a] else kids g i.
Proof. intros H. cbn [astep]. rewrite kids_set_kids by exact H. destruct (i =? o) eqn:E; [apply N.eqb_eq in E; subst|]; reflexivity. Qed.

(** the payload of the objects that existed in [g] *)
Definition oldframe (g : ghost) (t t' : T) : Prop :=
  forall i o, glive g i -> tget t i = Some o -> exists o', tget t' i = Some o' /\ pay_eq o o'.

Lemma oldframe_refl g t : oldframe g t t.
Proof. intros i o _ H. exists o. split; auto. apply pay_eq_refl. Qed.

Lemma oldframe_trans g t1 t2 t3 : oldframe g t1 t2 -> oldframe g t2 t3 -> oldframe g t1 t3.
Proof.
  intros H1 H2 i o Hl Hg. destruct (H1 _ _ Hl Hg) as (o' & Hg' & E). destruct (H2 _ _ Hl Hg') as (o'' & Hg'' & E').
  exists o''. split; auto. unfold pay_eq in *. intuition congruence.
Qed.

Lemma oldframe_pframe g t t' : pframe t t' -> oldframe g t t'.
Proof. intros [_ H] i o _ Hg. apply H. exact Hg. Qed.

Lemma oldframe_tset g (t : T) p f : ~ glive g p -> oldframe g t (tset t p f).
Proof.
  intros Hp i o Hl Hg. exists o. split; [|apply pay_eq_refl]. rewrite get_tset.
  destruct (N.eqb_spec i p) as [->|Hne]; [contradiction|exact Hg].
Qed.

Lemma new_step_x P opc s g (Q : N -> pstate -> Prop) :
  FI s g -> newok opc -> lp s + 1 < InvalidIndex ->
  (forall p t' po,
     let g' := astep g (OpNew opc (p_handle s)) in
     FI (with_tree s t') g' -> ~ glive g p -> glive g' p -> groot g' p -> kids g' p = [] -> gext g g' ->
     tget t' p = Some po -> o_opcode po = opc -> o_value po = None -> o_tableHandle po = p_handle s ->
     opcodeTableIndex opc true = Some (o_infoIndex po) ->
     oldframe g (p_tree s) t' ->
     (length (t_pool t') <= S (length (t_pool (p_tree s))))%nat ->
     Q p (with_tree s t')) ->
  wp P (newObj opc) s Q.
Proof.
  intros H (Hnf & Hmaps & i0 & Hi0 & Hinfo) Hroom K.
  pose proof (fi_R _ _ H) as HR.
  destruct (newObject_R (p_tree s) g opc (p_handle s) HR) as (t' & p & E & HR' & _ & Hp).
  { split; auto. split; auto. intros _. rewrite (R_len _ _ HR). unfold lp in Hroom. lia. }
  destruct (newObject_shape _ _ _ _ _ E) as ((po & Hpo & Hop & Hidx & Hth & Hval) & Hfw & Hbw & Hl1 & Hl2).
  destruct (new_slot_fresh (p_tree s) g opc (p_handle s) HR) as (F1 & F2 & F3 & F4). fold (new_slot (p_tree s) g) in Hp.
  rewrite <- Hp in F1, F2, F3, F4.
  rewrite pOpcodeTableIndex_eq, Hi0 in Hidx. inversion Hidx as [Hii].
  unfold wp, newObj. rewrite E.
  apply (K p t' po); auto.
  - apply FI_with_tree with (g := g); auto.
    + intros i o Hg Hl. destruct (N.eqb_spec i p) as [->|Hne].
      * assert (o = po) by congruence. subst o. rewrite <- Hii. exact Hinfo.
      * apply (fi_info _ _ H i o); auto.
    + apply (ge_live _ _ (gext_new g opc (p_handle s))).
  - apply gext_new.
  - rewrite <- Hii. exact Hi0.
  - intros i o Hl Hg. exists o. split; [|apply pay_eq_refl]. apply Hfw; auto. intros ->. contradiction.
Qed.

(** ---- tokens ---- *)
Lemma at_token_shift r pre a b post : at_token r pre (a ++ b) post ->
  at_token (set_offset_raw r (lenN pre + lenN a)) (pre ++ a) b post.
Proof.
  intros [D O E W]. constructor; cbn [r_data r_offset r_pkgEnd set_offset_raw].
  - rewrite D. rewrite <- !app_assoc. reflexivity.
  - rewrite lenN_app. reflexivity.
  - rewrite lenN_app in *. lia.
  - unfold reader_wf in *. cbn [r_data r_len r_pkgEnd set_offset_raw]. exact W.
Qed.

Lemma at_token_rok r pre tok post : at_token r pre tok post -> small_table r -> rok r.
Proof.
  intros [D O E W] S. split; [exact W|]. split; [exact S|]. destruct W as (_ & W2 & _). lia.
Qed.

Lemma small_table_set_offset r o : small_table r -> small_table (set_offset_raw r o).
Proof. intros H. exact H. Qed.

(** everything but the tree and the reader *)
Definition same_rest (s s' : pstate) : Prop :=
  p_scopeStack s' = p_scopeStack s /\ p_pkgEndStack s' = p_pkgEndStack s /\ p_streamEnd s' = p_streamEnd s /\
  p_resolvePasses s' = p_resolvePasses s /\ p_mergedScopes s' = p_mergedScopes s /\ p_relocatedObjects s' = p_relocatedObjects s /\
  p_allBlocks s' = p_allBlocks s /\ p_handle s' = p_handle s /\ p_tables s' = p_tables s.

Lemma same_rest_refl s : same_rest s s.
Proof. unfold same_rest. repeat split. Qed.

Lemma same_rest_trans a b c : same_rest a b -> same_rest b c -> same_rest a c.
Proof. unfold same_rest. intros (A1&A2&A3&A4&A5&A6&A7&A8&A9) (B1&B2&B3&B4&B5&B6&B7&B8&B9). repeat split; congruence. Qed.

(** ---- the rows of the opcode table that matter ---- *)
Lemma name_row : exists i fl af,
  opcodeTableIndex aml_pOpName false = Some i /\ i <> aml_badOpcode /\ opInfo i = Some (aml_pOpName, fl, af) /\
  argCount af = 2 /\ argType af 0 = aml_pArgTypeNameString /\ argType af 1 = aml_pArgTypeDataRefObj /\
  hasFlag fl aml_pOpFlagNamed = true /\ termArgIndex af = 1.
Proof. do 3 eexists. repeat split; try reflexivity. discriminate. Qed.

Definition nmstr (seg : N) : namestr := mkName false 0 false [seg].

Lemma enc_nmstr seg : enc_name (nmstr seg) = seg_bytes seg.
Proof. unfold enc_name, nmstr. cbn [n_root n_carets n_segs n_multi N.to_nat repeat app orb flat_map]. cbn. reflexivity. Qed.

Lemma lenN_seg_bytes seg : lenN (seg_bytes seg) = 4.
Proof. reflexivity. Qed.

Lemma wf_nmstr seg : seg_ok seg = true -> wf_name (nmstr seg).
Proof.
  intros H. unfold wf_name, nmstr. cbn [n_segs n_multi]. split; [reflexivity|]. right.
  unfold seg_ok in H. cbn [seg_bytes] in H. unfold seg_lead.
  apply andb_prop in H. destruct H as (H & _). apply andb_prop in H. destruct H as (H & _). apply andb_prop in H. destruct H as (H & _).
  apply andb_prop in H. destruct H as (_ & H).
  unfold lead_charb in H. unfold lead_char. remember (N.land (N.shiftr seg 24) 255) as a eqn:Ea. clear Ea. lia.
Qed.

Lemma at_token_split r pre a b post : at_token r pre (a ++ b) post -> at_token r pre a (b ++ post).
Proof.
  intros [D O E W]. constructor; auto.
  - rewrite D. rewrite <- app_assoc. reflexivity.
  - rewrite lenN_app in E. lia.
Qed.

(** decide the closed conditions of the goal by computation *)
Ltac ifc :=
  match goal with
  | |- context [if ?c then _ else _] =>
      let v := eval vm_compute in c in
      match v with
      | true => change c with true
      | false => change c with false
      end; cbv iota
  end.

Lemma name_row_t : exists i fl af,
  opcodeTableIndex aml_pOpName true = Some i /\ opInfo i = Some (aml_pOpName, fl, af) /\
  argCount af = 2 /\ argType af 0 = aml_pArgTypeNameString /\ argType af 1 = aml_pArgTypeDataRefObj /\
  hasFlag fl aml_pOpFlagNamed = true /\ termArgIndex af = 1.
Proof. do 3 eexists. repeat split; reflexivity. Qed.

Lemma valid_name_op : valid_opcode aml_pOpName.
Proof. split; [vm_compute; discriminate|]. eexists. split; [reflexivity|discriminate]. Qed.

Definition cur_tbl (s : pstate) : N := N.of_nat (length (p_tables s)) - 1.

Lemma name_stmt_spec seg f s g pre rest :
  seg_ok seg = true ->
  FI s g -> glive g 0 -> p_scopeStack s = [0] -> lp s + 3 < InvalidIndex ->
  at_token (p_r s) pre (OP_NAME :: seg_bytes seg ++ rest) [] ->
  wp False (parseNextObject (5 + f)) s (fun res s' => res = ROk /\ exists g' n p,
     FI s' g' /\ same_rest s s' /\ p_r s' = set_offset_raw (p_r s) (lenN pre + 5) /\
     ~ glive g n /\ ~ glive g p /\ n <> p /\ glive g' n /\ glive g' p /\ gext g g' /\
     kids g' 0 = kids g 0 ++ [n] /\ kids g' n = [p] /\ kids g' p = [] /\
     (forall q, glive g q -> q <> 0 -> kids g' q = kids g q) /\
     oldframe g (p_tree s) (p_tree s') /\ lp s' <= lp s + 2 /\
     (exists o, tget (p_tree s') n = Some o /\ o_opcode o = aml_pOpName /\ o_tableHandle o = p_handle s /\ o_value o = None /\
                opcodeTableIndex aml_pOpName true = Some (o_infoIndex o)) /\
     (exists o, tget (p_tree s') p = Some o /\ o_opcode o = aml_pOpIntNamePath /\ o_tableHandle o = p_handle s /\
                o_value o = Some (VBytes (cur_tbl s) (mkSlice (Some (lenN pre + 1)) 4)) /\
                opcodeTableIndex aml_pOpIntNamePath true = Some (o_infoIndex o))).
Proof.
  intros Hseg H H0 Hst Hlp Htok.
  change (5 + f)%nat with (S (S (S (S (S f))))). cbn [parseNextObject].
  pose proof (fi_rok _ _ H) as (_ & Hsm & _).
  pose proof (R_gwf _ _ (fi_R _ _ H)) as Hwf.
  apply wp_bind, wp_get.
  (* the opcode *)
  change (OP_NAME :: seg_bytes seg ++ rest) with (enc_op aml_pOpName ++ (seg_bytes seg ++ rest)) in Htok.
  pose proof (opcode_roundtrip aml_pOpName _ _ _ valid_name_op (at_token_split _ _ _ _ _ Htok)) as Eop.
  apply wp_bind. apply wp_lex. do 3 eexists. split; [exact Eop|].
  pose proof (at_token_shift _ _ _ _ _ Htok) as Htok1.
  change (lenN (enc_op aml_pOpName)) with 1 in *.
  set (r1 := set_offset_raw (p_r s) (lenN pre + 1)) in *.
  assert (Hrok1 : rok r1) by (eapply at_token_rok; [exact Htok1|exact Hsm]).
  assert (H1 : FI (with_r s r1) g) by (apply FI_with_r; auto).
  ifc. cbn [negb]. cbv iota.
  (* the Name object *)
  apply wp_bind. eapply new_step_x; [exact H1|apply (newokb_sound aml_pOpName eq_refl)|unfold lp in *; pcbn; lia|].
  intros n t2 no g2 H2 Hfn Hln Hrn Hkn Hext2 Hno Hnop Hnval Hnth Hnidx Hof2 Hl2.
  set (s2 := with_tree (with_r s r1) t2) in *.
  wwrf H2 Hln. intros o3 Hg3 Hlo3 H3.
  match type of H3 with FI ?st _ => set (s3 := st) in * end.
  assert (Hg3' : tget t2 n = Some o3) by exact Hg3. assert (o3 = no) by congruence. subst o3.
  (* append to the root *)
  assert (Est3 : p_scopeStack s3 = [0]) by exact Hst.
  apply wp_bind. eapply wp_scopeCurrent; [exact Est3|].
  rewrite (FI_ObjectAt _ _ _ H3 (ge_live _ _ Hext2 _ H0)).
  apply wp_bind. eapply (append_step _ 0 n s3 g2 g); [exact H3|exact Hwf|exact Hext2|exact H0|exact Hfn|exact Hln|exact Hrn|].
  intros t4 H4 Hext4 Hpf4 Hk4 Hk4'.
  set (g4 := astep g2 (OpAppend 0 n)) in *.
  set (s4 := with_tree s3 t4) in *.
  (* parseObjectArgs *)
  cbn [parseObjectArgs].
  assert (Hno3 : tget (p_tree s3) n = Some (set_amlOffset (r_offset (p_r s)) no)).
  { unfold s3, s2. pcbn. rewrite get_tset, N.eqb_refl, Hno. reflexivity. }
  destruct (pframe_get _ _ _ _ Hpf4 Hno3) as (no4 & Hno4 & Eop4 & Eii4 & Eval4).
  cbn [o_opcode o_infoIndex o_value set_amlOffset] in Eop4, Eii4, Eval4.
  apply wp_bind. apply wp_rdf. exists no4. split; [exact Hno4|]. rewrite Eop4, Hnop.
  apply wp_bind, wp_get.
  apply wp_bind. repeat ifc.
  apply wp_bind. apply wp_rdf. exists no4. split; [exact Hno4|]. rewrite Eii4.
  destruct name_row_t as (i8 & fl & af & Hi8 & Hrow & Hcnt & Ht0 & Ht1 & Hnamed & Htai).
  rewrite Hi8 in Hnidx. inversion Hnidx as [Hii]. rewrite <- Hii.
  apply wp_bind. eapply wp_info; [exact Hrow|].
  (* parseArgs, argument 0: the name string *)
  cbn [parseArgs]. rewrite Hcnt. repeat ifc.
  apply wp_bind. cbn [parseArg]. rewrite Ht0. repeat ifc.
  unfold parseSimpleArg.
  assert (Hlp4 : lp s4 + 1 < InvalidIndex).
  { unfold lp. unfold s4. pcbn. destruct Hpf4 as (L4 & _). rewrite L4. unfold s3. pcbn. rewrite tset_len. unfold s2. pcbn.
    pcbn_in Hl2. unfold lp in Hlp. lia. }
  apply wp_bind. eapply new_step_x; [exact H4|apply (newokb_sound 0 eq_refl)|exact Hlp4|].
  intros p t5 po g5 H5 Hfp Hlp5 Hrp Hkp Hext5 Hpo Hpop Hpval Hpth Hpidx Hof5 Hl5.
  set (s5 := with_tree s4 t5) in *.
  apply wp_bind, wp_get.
  wwrf H5 Hlp5. intros o6 Hg6 Hlo6 H6.
  apply wp_bind, wp_get.
  repeat ifc.
  wwrf H6 Hlp5. intros o7 Hg7 Hlo7 H7.
  (* the name *)
  pose proof (at_token_shift r1 (pre ++ enc_op aml_pOpName) (seg_bytes seg) rest []) as Hsh.
  rewrite <- (enc_nmstr seg) in Htok1.
  pose proof (name_roundtrip (nmstr seg) r1 _ _ (wf_nmstr seg Hseg) (at_token_split _ _ _ _ _ Htok1)) as Enm.
  apply wp_bind. apply wp_lex. do 3 eexists. split; [exact Enm|].
  rewrite (enc_nmstr seg) in *.
  assert (Esl : name_slice_len (nmstr seg) = 4) by reflexivity. rewrite Esl.
  rewrite lenN_app, lenN_seg_bytes. change (lenN (enc_op aml_pOpName)) with 1.
  set (r8 := set_offset_raw r1 (lenN pre + 1 + 4)).
  assert (Hrok8 : rok r8).
  { pose proof (at_token_shift _ _ _ _ _ Htok1) as Ht8. rewrite lenN_app, lenN_seg_bytes in Ht8.
    change (lenN (enc_op aml_pOpName)) with 1 in Ht8. eapply at_token_rok; [exact Ht8|exact Hsm]. }
  match type of H7 with FI ?st _ => set (s7 := st) in * end.
  assert (H8 : FI (with_r s7 r8) g5) by (apply FI_with_r; auto).
  wwrf H8 Hlp5. intros o9 Hg9 Hlo9 H9.
  apply wp_bind. eapply wp_tableIndex; [reflexivity|].
  wwrf H9 Hlp5. { intros E. vm_compute in E. discriminate E. } intros o10 Hg10 Hlo10 H10.
  apply wp_ret.
  match type of H10 with FI ?st _ => set (s10 := st) in * end.
  (* append the name path to the Name object *)
  assert (Hwf4 : gwf g4) by (apply (R_gwf _ _ (fi_R _ _ H4))).
  assert (Hln4 : glive g4 n) by (apply glive_set_kids; exact Hln).
  apply wp_bind. eapply (append_step _ n p s10 g5 g4); [exact H10|exact Hwf4|exact Hext5|exact Hln4|exact Hfp|exact Hlp5|exact Hrp|].
  intros t11 H11 Hext11 Hpf11 Hk11 Hk11'.
  set (g11 := astep g5 (OpAppend n p)) in *.
  set (s11 := with_tree s10 t11) in *.
  (* argument 1: DataRefObj *)
  cbn [pres_of_bool pres_eqb]. cbv iota. change (w8 (0 + 1)) with 1. rewrite Ht1. repeat ifc.
  apply wp_bind. apply wp_bind, wp_get. rewrite (fi_skip _ _ H11). apply wp_ret.
  apply wp_bind. apply wp_ret. cbn [pres_eqb]. cbv iota. apply wp_ret. apply wp_ret.
  split; [reflexivity|].
  exists g11, n, p.
  assert (Hn0 : n <> 0) by (intros ->; contradiction).
  assert (Hfp0 : ~ glive g p) by (intros Hc; apply Hfp; apply (ge_live _ _ Hext4); exact Hc).
  assert (Hnp : n <> p) by (intros ->; contradiction).
  assert (Hp0 : p <> 0) by (intros ->; apply Hfp0; exact H0).
  assert (H0lt2 : 0 < N.of_nat (length (g_kids g2))) by (apply glive_lt; apply (ge_live _ _ Hext2); exact H0).
  assert (Hnlt5 : n < N.of_nat (length (g_kids g5))) by (apply glive_lt; apply (ge_live _ _ Hext5); exact Hln4).
  assert (K11 : forall q, kids g11 q = if q =? n then kids g5 n ++ [p] else kids g5 q) by (intros q; apply kids_append; exact Hnlt5).
  assert (K5 : forall q, kids g5 q = kids g4 q) by (intros q; apply kids_new).
  assert (K4 : forall q, kids g4 q = if q =? 0 then kids g2 0 ++ [n] else kids g2 q) by (intros q; apply kids_append; exact H0lt2).
  assert (K2 : forall q, kids g2 q = kids g q) by (intros q; apply kids_new).
  split; [exact H11|].
  split; [unfold same_rest; repeat split|].
  split. { change (p_r s11) with r8. unfold r8, r1. rewrite set_offset_raw_twice. f_equal. lia. }
  split; [exact Hfn|]. split; [exact Hfp0|]. split; [exact Hnp|].
  split; [apply glive_set_kids; apply (ge_live _ _ Hext5); exact Hln4|].
  split; [apply glive_set_kids; exact Hlp5|].
  split; [eapply gext_trans; [exact Hext4|exact Hext11]|].
  assert (E0n : (0 =? n) = false) by (apply N.eqb_neq; intros E; apply Hn0; symmetry; exact E).
  assert (En0 : (n =? 0) = false) by (apply N.eqb_neq; exact Hn0).
  assert (Epn : (p =? n) = false) by (apply N.eqb_neq; intros E; apply Hnp; symmetry; exact E).
  split. { rewrite K11, E0n, K5, K4, N.eqb_refl, K2. reflexivity. }
  split. { rewrite K11, N.eqb_refl, K5, K4, En0. rewrite Hkn. reflexivity. }
  split. { rewrite K11, Epn. exact Hkp. }
  split. { intros q Hq Hq0. assert (Hqn : q <> n) by (intros ->; contradiction).
           apply N.eqb_neq in Hqn. apply N.eqb_neq in Hq0. rewrite K11, Hqn, K5, K4, Hq0, K2. reflexivity. }
  (* the objects *)
  assert (E7 : o7 = set_amlOffset (r_offset (p_r s5)) o6).
  { pcbn_in Hg7. rewrite get_tset, N.eqb_refl in Hg7. pcbn_in Hg6. rewrite Hg6 in Hg7. inversion Hg7. reflexivity. }
  assert (E9 : o9 = set_opcode aml_pOpIntNamePath o7).
  { unfold s7 in Hg9. pcbn_in Hg9. rewrite get_tset, N.eqb_refl in Hg9. pcbn_in Hg7. rewrite Hg7 in Hg9. inversion Hg9. reflexivity. }
  assert (E10 : exists vv, o10 = set_value vv o9 /\ vv = Some (bytesValue (cur_tbl s) (mkSlice (Some (lenN pre + 1)) 4))).
  { eexists. split; [|reflexivity]. pcbn_in Hg10. rewrite get_tset, N.eqb_refl in Hg10. pcbn_in Hg9. rewrite Hg9 in Hg10. inversion Hg10. reflexivity. }
  destruct E10 as (vv & E10 & Evv).
  assert (Hp10 : tget (p_tree s10) p = Some (set_infoIndex 118 o10)).
  { unfold s10. pcbn. rewrite get_tset, N.eqb_refl. pcbn_in Hg10. rewrite Hg10. reflexivity. }
  assert (o6 = po) by (unfold s5 in Hg6; pcbn_in Hg6; congruence). subst o6.
  destruct Hpf11 as (L11 & Hpf11).
  destruct (Hpf11 _ _ Hp10) as (po11 & Hpo11 & Q1 & Q2 & Q3 & Q4 & Q5 & Q6 & Q7 & Q8).
  (* frames *)
  assert (Hp4 : forall i o, i <> p -> tget (p_tree s4) i = Some o -> glive g4 i ->
                 exists o', tget (p_tree s11) i = Some o' /\ pay_eq o o').
  { intros i o Hip Hg Hli. destruct (Hof5 i o Hli Hg) as (o5 & G5 & E5).
    assert (G10 : tget (p_tree s10) i = Some o5).
    { apply N.eqb_neq in Hip. unfold s10. pcbn. rewrite get_tset, Hip. unfold s7. pcbn. rewrite !get_tset, Hip. exact G5. }
    destruct (Hpf11 _ _ G10) as (o11 & G11 & E11). exists o11. split; [exact G11|].
    unfold pay_eq in *. intuition congruence. }
  assert (Hof : oldframe g (p_tree s) (p_tree s11)).
  { intros i o Hi Hg. destruct (Hof2 i o Hi Hg) as (o2 & G2 & E2).
    assert (Hin : i <> n) by (intros ->; contradiction). assert (Hip : i <> p) by (intros ->; contradiction).
    assert (G3 : tget (p_tree s3) i = Some o2).
    { apply N.eqb_neq in Hin. unfold s3, s2. pcbn. rewrite get_tset, Hin. exact G2. }
    destruct Hpf4 as (_ & Hpf4'). destruct (Hpf4' _ _ G3) as (o4 & G4 & E4).
    destruct (Hp4 i o4 Hip G4 (ge_live _ _ Hext4 _ Hi)) as (o11 & G11 & E11). exists o11. split; [exact G11|].
    unfold pay_eq in *. intuition congruence. }
  split; [exact Hof|].
  split.
  { unfold lp, s11. pcbn. rewrite L11. unfold s10. pcbn. rewrite !tset_len. unfold s7. pcbn. rewrite !tset_len. unfold s5. pcbn.
    destruct Hpf4 as (L4 & _). pcbn_in Hl5. unfold s4 in Hl5. pcbn_in Hl5. rewrite L4 in Hl5. unfold s3 in Hl5. pcbn_in Hl5. rewrite tset_len in Hl5.
    unfold s2 in Hl5. pcbn_in Hl5. pcbn_in Hl2. lia. }
  split.
  { (* the Name object: unchanged since the append to the root *)
    destruct (Hp4 n no4 Hnp Hno4 Hln4) as (no11 & Hno11 & R1 & R2 & R3 & R4 & R5 & R6 & R7 & R8).
    destruct Hpf4 as (_ & Hpf4). destruct (Hpf4 _ _ Hno3) as (no4' & Hno4' & S1 & S2 & S3 & S4 & S5 & S6 & S7 & S8).
    assert (no4' = no4) by congruence. subst no4'.
    cbn [o_opcode o_infoIndex o_tableHandle o_value set_amlOffset] in S1, S2, S3, S8.
    exists no11. split; [exact Hno11|]. split; [congruence|]. split; [rewrite R3, S3; exact Hnth|]. split; [congruence|].
    rewrite R2, S2, <- Hii. exact Hi8. }
  exists po11. split; [exact Hpo11|].
  rewrite E10, E9, E7 in Q1, Q2, Q3, Q8. cbn [o_opcode o_infoIndex o_tableHandle o_value set_infoIndex set_value set_opcode set_amlOffset] in Q1, Q2, Q3, Q8.
  split; [exact Q1|]. split; [rewrite Q3; exact Hpth|]. split.
  - rewrite Q8, Evv. unfold bytesValue. cbn [s_ptr]. reflexivity.
  - rewrite Q2. reflexivity.
Qed.

(** ---- the constant that follows: a statement of its own for the first pass ---- *)
Definition const_value (op v : N) : option value := match const_bytes op with O => None | _ => Some (VNum v) end.

Definition const_post (op v : N) (s : pstate) (g : ghost) (pre : list N) (res : pres) (s' : pstate) : Prop :=
  res = ROk /\ exists g' c,
     FI s' g' /\ same_rest s s' /\ p_r s' = set_offset_raw (p_r s) (lenN pre + 1 + N.of_nat (const_bytes op)) /\
     ~ glive g c /\ glive g' c /\ gext g g' /\
     kids g' 0 = kids g 0 ++ [c] /\ kids g' c = [] /\ (forall q, glive g q -> q <> 0 -> kids g' q = kids g q) /\
     oldframe g (p_tree s) (p_tree s') /\ lp s' <= lp s + 1 /\
     (exists o, tget (p_tree s') c = Some o /\ o_opcode o = op /\ o_tableHandle o = p_handle s /\ o_value o = const_value op v /\
                opcodeTableIndex op true = Some (o_infoIndex o)).

(** the common part: opcode, object, append to the root; [K] continues with parseObjectArgs *)
Lemma const_head op f s g pre tok (Q : pres -> pstate -> Prop) :
  valid_opcode op -> newok op -> enc_op op = [op] -> (op =? aml_pOpNoop) = false ->
  FI s g -> glive g 0 -> p_scopeStack s = [0] -> lp s + 3 < InvalidIndex ->
  at_token (p_r s) pre (enc_op op ++ tok) [] ->
  (forall c t4 co,
     let r1 := set_offset_raw (p_r s) (lenN pre + 1) in
     let g2 := astep g (OpNew op (p_handle s)) in
     let g4 := astep g2 (OpAppend 0 c) in
     let s4 := with_tree (with_r s r1) t4 in
     FI s4 g4 -> ~ glive g c -> glive g4 c -> gext g g4 -> at_token r1 (pre ++ [op]) tok [] ->
     kids g4 0 = kids g 0 ++ [c] -> kids g4 c = [] -> (forall q, glive g q -> q <> 0 -> kids g4 q = kids g q) ->
     oldframe g (p_tree s) t4 -> (length (t_pool t4) <= S (length (t_pool (p_tree s))))%nat ->
     tget t4 c = Some co -> o_opcode co = op -> o_tableHandle co = p_handle s -> o_value co = None ->
     opcodeTableIndex op true = Some (o_infoIndex co) ->
     wp False (parseObjectArgs (4 + f) c) s4 Q) ->
  wp False (parseNextObject (5 + f)) s Q.
Proof.
  intros Hvalid Hnk Henc Hnoop H H0 Hst Hlp Htok K.
  change (5 + f)%nat with (S (4 + f)). cbn [parseNextObject].
  pose proof (fi_rok _ _ H) as (_ & Hsm & _).
  pose proof (R_gwf _ _ (fi_R _ _ H)) as Hwf.
  apply wp_bind, wp_get.
  pose proof (opcode_roundtrip op _ _ _ Hvalid (at_token_split _ _ _ _ _ Htok)) as Eop.
  apply wp_bind. apply wp_lex. do 3 eexists. split; [exact Eop|].
  pose proof (at_token_shift _ _ _ _ _ Htok) as Htok1.
  rewrite Henc in *. change (lenN [op]) with 1 in *.
  set (r1 := set_offset_raw (p_r s) (lenN pre + 1)) in *.
  assert (Hrok1 : rok r1) by (eapply at_token_rok; [exact Htok1|exact Hsm]).
  assert (H1 : FI (with_r s r1) g) by (apply FI_with_r; auto).
  rewrite Hnoop. cbn [negb]. cbv iota.
  apply wp_bind. eapply new_step_x; [exact H1|exact Hnk|unfold lp in *; pcbn; lia|].
  intros c t2 co g2 H2 Hfc Hlc Hrc Hkc Hext2 Hco Hcop Hcval Hcth Hcidx Hof2 Hl2.
  set (s2 := with_tree (with_r s r1) t2) in *.
  wwrf H2 Hlc. intros o3 Hg3 Hlo3 H3.
  match type of H3 with FI ?st _ => set (s3 := st) in * end.
  assert (Hg3' : tget t2 c = Some o3) by exact Hg3. assert (o3 = co) by congruence. subst o3.
  assert (Est3 : p_scopeStack s3 = [0]) by exact Hst.
  apply wp_bind. eapply wp_scopeCurrent; [exact Est3|].
  rewrite (FI_ObjectAt _ _ _ H3 (ge_live _ _ Hext2 _ H0)).
  apply wp_bind. eapply (append_step _ 0 c s3 g2 g); [exact H3|exact Hwf|exact Hext2|exact H0|exact Hfc|exact Hlc|exact Hrc|].
  intros t4 H4 Hext4 Hpf4 Hk4 Hk4'.
  assert (Hc0 : c <> 0) by (intros ->; contradiction).
  assert (H0lt2 : 0 < N.of_nat (length (g_kids g2))) by (apply glive_lt; apply (ge_live _ _ Hext2); exact H0).
  assert (K4 : forall q, kids (astep g2 (OpAppend 0 c)) q = if q =? 0 then kids g2 0 ++ [c] else kids g2 q) by (intros q; apply kids_append; exact H0lt2).
  assert (K2 : forall q, kids g2 q = kids g q) by (intros q; apply kids_new).
  assert (Hco3 : tget (p_tree s3) c = Some (set_amlOffset (r_offset (p_r s)) co)).
  { unfold s3, s2. pcbn. rewrite get_tset, N.eqb_refl, Hco. reflexivity. }
  destruct Hpf4 as (L4 & Hpf4).
  destruct (Hpf4 _ _ Hco3) as (co4 & Hco4 & S1 & S2 & S3 & S4 & S5 & S6 & S7 & S8).
  cbn [o_opcode o_infoIndex o_tableHandle o_value set_amlOffset] in S1, S2, S3, S8.
  apply (K c t4 co4); auto.
  - apply glive_set_kids. exact Hlc.
  - rewrite K4, N.eqb_refl, K2. reflexivity.
  - apply N.eqb_neq in Hc0. rewrite K4, Hc0. exact Hkc.
  - intros q Hq Hq0. apply N.eqb_neq in Hq0. rewrite K4, Hq0, K2. reflexivity.
  - intros i o Hi Hg. destruct (Hof2 i o Hi Hg) as (o2 & G2 & E2).
    assert (Hic : i <> c) by (intros ->; contradiction).
    assert (G3 : tget (p_tree s3) i = Some o2).
    { apply N.eqb_neq in Hic. unfold s3, s2. pcbn. rewrite get_tset, Hic. exact G2. }
    destruct (Hpf4 _ _ G3) as (o4 & G4 & E4). exists o4. split; [exact G4|]. unfold pay_eq in *. intuition congruence.
  - unfold s3, s2 in L4. pcbn_in L4. rewrite tset_len in L4. rewrite L4. pcbn_in Hl2. exact Hl2.
  - congruence.
  - rewrite S3. exact Hcth.
  - congruence.
  - rewrite S2. exact Hcidx.
Qed.

Lemma is_const_op_cases op : is_const_op op = true ->
  op = aml_pOpZero \/ op = aml_pOpOne \/ op = aml_pOpOnes \/ op = OP_BYTE \/ op = OP_WORD \/ op = OP_DWORD \/ op = OP_QWORD.
Proof. unfold is_const_op. intros H. repeat (apply orb_prop in H; destruct H as [H|H]); apply N.eqb_eq in H; tauto. Qed.

Lemma const_fin op v s g pre c g4 (k : nat) s5 : const_bytes op = k ->
     FI s5 g4 -> same_rest s s5 -> p_r s5 = set_offset_raw (p_r s) (lenN pre + 1 + N.of_nat k) ->
     ~ glive g c -> glive g4 c -> gext g g4 ->
     kids g4 0 = kids g 0 ++ [c] -> kids g4 c = [] -> (forall q, glive g q -> q <> 0 -> kids g4 q = kids g q) ->
     oldframe g (p_tree s) (p_tree s5) -> lp s5 <= lp s + 1 ->
     (exists o, tget (p_tree s5) c = Some o /\ o_opcode o = op /\ o_tableHandle o = p_handle s /\ o_value o = const_value op v /\
                opcodeTableIndex op true = Some (o_infoIndex o)) ->
     const_post op v s g pre ROk s5.
Proof. intros Ek F1 F2 F3 G1 G2 G3 G4 G5 G6 F4 F5 F6. split; [reflexivity|]. exists g4, c. rewrite Ek. auto 14. Qed.

Lemma const_simple_spec op v f s g pre rest :
  op = aml_pOpZero \/ op = aml_pOpOne \/ op = aml_pOpOnes ->
  FI s g -> glive g 0 -> p_scopeStack s = [0] -> lp s + 3 < InvalidIndex ->
  at_token (p_r s) pre (enc_op op ++ rest) [] ->
  wp False (parseNextObject (5 + f)) s (const_post op v s g pre).
Proof.
  intros Hop H H0 Hst Hlp Htok.
  destruct Hop as [->|[->| ->]];
  (refine (const_head _ f s g pre rest _ _ _ _ _ H H0 Hst Hlp Htok _);
     [split; [vm_compute; discriminate|eexists; split; [reflexivity|discriminate]]
     |apply newokb_sound; reflexivity|reflexivity|reflexivity|];
   intros c t4 co r1 g2 g4 s4 H4 Hfc Hlc Hext4 Htok1 Hk0 Hkc Hko Hof Hl4 Hco Hcop Hcth Hcval Hcidx;
   change (4 + f)%nat with (S (3 + f)); cbn [parseObjectArgs];
   apply wp_bind; apply wp_rdf; exists co; split; [exact Hco|]; rewrite Hcop;
   apply wp_bind, wp_get;
   apply wp_bind; repeat ifc;
   apply wp_bind; apply wp_rdf; exists co; split; [exact Hco|];
   match type of Hcidx with ?lhs = _ => let vv := eval vm_compute in lhs in change lhs with vv in Hcidx end;
   injection Hcidx as Hii; rewrite <- Hii;
   apply wp_bind; eapply wp_info; [reflexivity|];
   change (3 + f)%nat with (S (2 + f)); cbn [parseArgs]; repeat ifc; apply wp_ret; apply wp_ret;
   refine (const_fin _ v s g pre c g4 0%nat s4 _ H4 _ _ Hfc Hlc Hext4 Hk0 Hkc Hko Hof _ _);
   [reflexivity|unfold same_rest; repeat split|unfold s4; pcbn; unfold r1; f_equal; lia|unfold lp, s4 in *; pcbn; lia|
    exists co; repeat split; auto; rewrite <- Hii; reflexivity]).
Qed.

Lemma const_prefix_spec op v f s g pre rest :
  op = OP_BYTE \/ op = OP_WORD \/ op = OP_DWORD \/ op = OP_QWORD ->
  v < N.shiftl 1 (N.of_nat (const_bytes op) * 8) ->
  FI s g -> glive g 0 -> p_scopeStack s = [0] -> lp s + 3 < InvalidIndex ->
  at_token (p_r s) pre (enc_op op ++ le_bytes (const_bytes op) v ++ rest) [] ->
  wp False (parseNextObject (5 + f)) s (const_post op v s g pre).
Proof.
  intros Hop Hv H H0 Hst Hlp Htok.
  pose proof (fi_rok _ _ H) as (_ & Hsm & _).
  destruct Hop as [->|[->|[->| ->]]];
  (refine (const_head _ f s g pre _ _ _ _ _ _ H H0 Hst Hlp Htok _);
     [split; [vm_compute; discriminate|eexists; split; [reflexivity|discriminate]]
     |apply newokb_sound; reflexivity|reflexivity|reflexivity|];
   intros c t4 co r1 g2 g4 s4 H4 Hfc Hlc Hext4 Htok1 Hk0 Hkc Hko Hof Hl4 Hco Hcop Hcth Hcval Hcidx;
   change (4 + f)%nat with (S (3 + f)); cbn [parseObjectArgs];
   apply wp_bind; apply wp_rdf; exists co; split; [exact Hco|]; rewrite Hcop;
   apply wp_bind, wp_get;
   apply wp_bind; repeat ifc;
   match goal with |- context [parseNumConstant ?kk] =>
     pose proof (num_roundtrip (N.to_nat kk) v r1 _ _ ltac:(cbn; lia) ltac:(cbn in Hv |- *; lia) (at_token_split _ _ _ _ _ Htok1)) as Enum;
     pose proof (at_token_shift _ _ _ _ _ Htok1) as Htok5
   end;
   cbn [N.to_nat Pos.to_nat Pos.iter_op Nat.add N.of_nat Pos.of_succ_nat Pos.succ] in Enum;
   apply wp_bind; apply wp_lex; do 3 eexists; (split; [exact Enum|]);
   match goal with |- context [with_r s4 ?rr] => set (r5 := rr) in * end;
   assert (Hrok5 : rok r5) by (eapply at_token_rok; [exact Htok5|exact Hsm]);
   assert (H5 : FI (with_r s4 r5) g4) by (apply FI_with_r; auto);
   wwrf H5 Hlc; intros o6 Hg6 Hlo6 H6;
   apply wp_ret; apply wp_ret;
   match type of H6 with FI ?st _ => set (s6 := st) in * end;
   refine (const_fin _ v s g pre c g4 _ s6 eq_refl H6 _ _ Hfc Hlc Hext4 Hk0 Hkc Hko _ _ _);
   [unfold same_rest; repeat split
   |unfold s6; pcbn; unfold r5, r1; rewrite set_offset_raw_twice; f_equal; rewrite lenN_app; cbn; lia
   |intros i o Hi Hg; destruct (Hof i o Hi Hg) as (o4 & G4 & E4); exists o4; split; [|exact E4];
    assert (Hic : i <> c) by (intros ->; contradiction); apply N.eqb_neq in Hic;
    unfold s6; pcbn; rewrite get_tset, Hic; exact G4
   |unfold lp, s6 in *; pcbn; rewrite tset_len; unfold s4; pcbn; lia
   |eexists; split; [unfold s6; pcbn; rewrite get_tset, N.eqb_refl; unfold s4; pcbn; rewrite Hco; reflexivity|];
    cbn [o_opcode o_tableHandle o_value o_infoIndex set_value]; repeat split; auto]).
Qed.

Lemma const_stmt_spec op v f s g pre rest :
  is_const_op op = true -> v < N.shiftl 1 (N.of_nat (const_bytes op) * 8) ->
  FI s g -> glive g 0 -> p_scopeStack s = [0] -> lp s + 3 < InvalidIndex ->
  at_token (p_r s) pre (enc_op op ++ le_bytes (const_bytes op) v ++ rest) [] ->
  wp False (parseNextObject (5 + f)) s (const_post op v s g pre).
Proof.
  intros Hop Hv H H0 Hst Hlp Htok.
  destruct (is_const_op_cases op Hop) as [E|[E|[E|E]]].
  - apply (const_simple_spec op v f s g pre rest); auto. subst op. exact Htok.
  - apply (const_simple_spec op v f s g pre rest); auto. subst op. exact Htok.
  - apply (const_simple_spec op v f s g pre rest); auto. subst op. exact Htok.
  - apply (const_prefix_spec op v f s g pre rest); auto.
Qed.

(** ---- items ---- *)
Record item : Type := mkItem { i_seg : N; i_op : N; i_v : N }.

Definition item_ok (it : item) : Prop :=
  seg_ok (i_seg it) = true /\ is_const_op (i_op it) = true /\ i_v it < N.shiftl 1 (N.of_nat (const_bytes (i_op it)) * 8).

Definition item_ast (it : item) : ast := AName (nmstr (i_seg it)) (AConst (i_op it) (i_v it)).

Definition item_bytes (it : item) : list N :=
  OP_NAME :: seg_bytes (i_seg it) ++ enc_op (i_op it) ++ le_bytes (const_bytes (i_op it)) (i_v it).

Lemma encode_item it : encode (item_ast it) = item_bytes it.
Proof. unfold item_ast, item_bytes. cbn [encode]. rewrite enc_nmstr. reflexivity. Qed.

(** the objects the first pass creates for an item: the Name object, its name path, the constant *)
Record iobj : Type := mkIobj { io_n : N; io_p : N; io_c : N; io_off : N }.

Definition has_pay (t : T) (i opc h : N) (v : option value) : Prop :=
  exists o, tget t i = Some o /\ o_opcode o = opc /\ o_tableHandle o = h /\ o_value o = v /\
            opcodeTableIndex opc true = Some (o_infoIndex o).

Lemma has_pay_frame g t t' i opc h v : oldframe g t t' -> glive g i -> has_pay t i opc h v -> has_pay t' i opc h v.
Proof.
  intros Hf Hl (o & Hg & A & B & C & D). destruct (Hf i o Hl Hg) as (o' & Hg' & E1 & E2 & E3 & _ & _ & _ & _ & E8).
  exists o'. split; [exact Hg'|]. repeat split; congruence.
Qed.

(** what the first pass leaves for one item (before connectNamedObjArgs) *)
Definition item_shape1 (t : T) (g : ghost) (h tbl : N) (it : item) (io : iobj) : Prop :=
  glive g (io_n io) /\ glive g (io_p io) /\ glive g (io_c io) /\
  io_n io <> 0 /\ io_p io <> 0 /\ io_c io <> 0 /\
  kids g (io_n io) = [io_p io] /\ kids g (io_p io) = [] /\ kids g (io_c io) = [] /\
  has_pay t (io_n io) aml_pOpName h None /\
  has_pay t (io_p io) aml_pOpIntNamePath h (Some (VBytes tbl (mkSlice (Some (io_off io)) 4))) /\
  has_pay t (io_c io) (i_op it) h (const_value (i_op it) (i_v it)).

(** later statements leave earlier objects alone *)
Definition frame1 (g : ghost) (t : T) (g' : ghost) (t' : T) : Prop :=
  gext g g' /\ (forall q, glive g q -> q <> 0 -> kids g' q = kids g q) /\ oldframe g t t'.

Lemma frame1_trans g0 t0 g1 t1 g2 t2 : frame1 g0 t0 g1 t1 -> frame1 g1 t1 g2 t2 -> frame1 g0 t0 g2 t2.
Proof.
  intros (A1 & A2 & A3) (B1 & B2 & B3). split; [eapply gext_trans; eauto|]. split.
  - intros q Hq Hq0. rewrite B2; auto. apply (ge_live _ _ A1). exact Hq.
  - intros i o Hi Hg. destruct (A3 i o Hi Hg) as (o1 & G1 & E1).
    destruct (B3 i o1 (ge_live _ _ A1 _ Hi) G1) as (o2 & G2 & E2). exists o2. split; auto. unfold pay_eq in *. intuition congruence.
Qed.

Lemma item_shape1_frame t g t' g' h tbl it io : frame1 g t g' t' -> item_shape1 t g h tbl it io -> item_shape1 t' g' h tbl it io.
Proof.
  intros (F1 & F2 & F3) (L1 & L2 & L3 & N1 & N2 & N3 & K1 & K2 & K3 & P1 & P2 & P3).
  unfold item_shape1.
  split; [apply (ge_live _ _ F1); exact L1|]. split; [apply (ge_live _ _ F1); exact L2|]. split; [apply (ge_live _ _ F1); exact L3|].
  split; [exact N1|]. split; [exact N2|]. split; [exact N3|].
  split; [rewrite F2; auto|]. split; [rewrite F2; auto|]. split; [rewrite F2; auto|].
  split; [eapply has_pay_frame; eauto|]. split; eapply has_pay_frame; eauto.
Qed.

(** ---- the inner loop of parseObjectList over the items ---- *)
Definition pairs_kids (l : list (item * iobj)) : list N := flat_map (fun x => [io_n (snd x); io_c (snd x)]) l.

Fixpoint offs_ok (pre : list N) (l : list (item * iobj)) : Prop :=
  match l with
  | [] => True
  | x :: r => io_off (snd x) = lenN pre + 1 /\ offs_ok (pre ++ item_bytes (fst x)) r
  end.

Definition items_bytes (l : list item) : list N := flat_map item_bytes l.

Lemma offs_ok_app pre l1 l2 : offs_ok pre (l1 ++ l2) <-> offs_ok pre l1 /\ offs_ok (pre ++ items_bytes (map fst l1)) l2.
Proof.
  revert pre. induction l1 as [|x l1 IH]; intros pre; cbn [app offs_ok map items_bytes flat_map].
  - rewrite app_nil_r. tauto.
  - rewrite IH. rewrite <- app_assoc. tauto.
Qed.

Record Inv1 (hdr D : list N) (g0 : ghost) (t0 : T) (lp0 : N) (done : list (item * iobj)) (s : pstate) (g : ghost) : Prop := mkInv1 {
  i1_FI : FI s g;
  i1_st : p_scopeStack s = [0];
  i1_live0 : glive g 0;
  i1_kids0 : kids g 0 = D ++ pairs_kids done;
  i1_items : Forall (fun x => item_shape1 (p_tree s) g (p_handle s) (cur_tbl s) (fst x) (snd x)) done;
  i1_offs : offs_ok hdr done;
  i1_frame : frame1 g0 t0 g (p_tree s);
  i1_lp : lp s <= lp0 + 3 * lenN done;
  i1_end : r_pkgEnd (p_r s) = lenN (r_data (p_r s))
}.

Lemma eof_at_token r pre tok : at_token r pre tok [] -> r_pkgEnd r = lenN (r_data r) ->
  eof r = match tok with [] => true | _ => false end.
Proof.
  intros [D O E W] Hend. unfold eof. rewrite O, Hend, D, app_nil_r, lenN_app.
  destruct tok as [|b tok]; [apply N.leb_le; cbn; lia|apply N.leb_gt; rewrite lenN_cons; lia].
Qed.

Lemma inner_names hdr D g0 t0 lp0 : forall rest done fuel s g,
  Inv1 hdr D g0 t0 lp0 done s g -> Forall item_ok rest ->
  at_token (p_r s) (hdr ++ items_bytes (map fst done)) (items_bytes rest) [] ->
  lp0 + 3 * lenN done + 3 * lenN rest + 3 < InvalidIndex ->
  (2 * length rest + 7 <= fuel)%nat ->
  wp False (objectList_inner fuel) s (fun ok s' => ok = true /\ exists g' done',
     Inv1 hdr D g0 t0 lp0 (done ++ done') s' g' /\ map fst done' = rest /\ same_rest s s' /\
     at_token (p_r s') (hdr ++ items_bytes (map fst (done ++ done'))) [] []).
Proof.
  induction rest as [|it rest IH]; intros done fuel s g HI Hok Htok Hlp Hf.
  - destruct fuel as [|fuel]; [lia|]. cbn [objectList_inner].
    apply wp_bind, wp_get. rewrite (eof_at_token _ _ _ Htok (i1_end _ _ _ _ _ _ _ _ HI)). cbn [items_bytes flat_map].
    apply wp_ret. split; [reflexivity|]. exists g, []. rewrite app_nil_r. split; [exact HI|]. split; [reflexivity|].
    split; [apply same_rest_refl|exact Htok].
  - destruct fuel as [|fuel]; [lia|]. cbn [objectList_inner].
    inversion Hok as [|x l (Hseg & Hop & Hv) Hok' E1]; subst x l.
    destruct HI as [HFI Hst H0 Hk0 Hitems Hoffs Hframe Hlpi Hend].
    apply wp_bind, wp_get. rewrite (eof_at_token _ _ _ Htok Hend).
    cbn [items_bytes flat_map] in Htok |- *. unfold item_bytes at 1 in Htok. cbn [app] in Htok |- *.
    rewrite <- !app_assoc in Htok.
    replace (lenN (it :: rest)) with (1 + lenN rest) in Hlp by (unfold lenN; cbn [length]; lia).
    (* the Name statement *)
    apply wp_bind. destruct fuel as [|[|[|[|[|[|fuel]]]]]]; try (cbn [length] in Hf; lia).
    assert (Hlp' : lp s + 3 < InvalidIndex) by lia.
    eapply wp_weaken; [exact (name_stmt_spec (i_seg it) (S fuel) s g _ _ Hseg HFI H0 Hst Hlp' Htok)|intros []|].
    intros res s1 (-> & g1 & n & p & H1 & SR1 & Er1 & Hfn & Hfp & Hnp & Hln & Hlp1 & Hext1 & K0 & Kn & Kp & Ko & Hof1 & Hlp1' & Pn & Pp).
    cbn [pres_eqb]. cbv iota.
    (* the constant *)
    cbn [objectList_inner].
    assert (Htok1 : at_token (p_r s1) ((hdr ++ items_bytes (map fst done)) ++ OP_NAME :: seg_bytes (i_seg it))
                       (enc_op (i_op it) ++ le_bytes (const_bytes (i_op it)) (i_v it) ++ items_bytes rest) []).
    { rewrite Er1. pose proof (at_token_shift (p_r s) _ (OP_NAME :: seg_bytes (i_seg it)) _ [] Htok) as Hs.
      rewrite lenN_cons, lenN_seg_bytes in Hs. replace (lenN (hdr ++ items_bytes (map fst done)) + 5) with (lenN (hdr ++ items_bytes (map fst done)) + (1 + 4)) by lia.
      exact Hs. }
    destruct SR1 as (S1 & S2 & S3 & S4 & S5 & S6 & S7 & S8 & S9).
    assert (Hend1 : r_pkgEnd (p_r s1) = lenN (r_data (p_r s1))) by (rewrite Er1; exact Hend).
    apply wp_bind, wp_get. rewrite (eof_at_token _ _ _ Htok1 Hend1).
    assert (Hne : exists b tl, enc_op (i_op it) ++ le_bytes (const_bytes (i_op it)) (i_v it) ++ items_bytes rest = b :: tl).
    { unfold enc_op. destruct (i_op it <=? 255); cbn [app]; eauto. }
    destruct Hne as (b & tl & Ene). rewrite Ene. cbv iota.
    assert (Hst1 : p_scopeStack s1 = [0]) by (rewrite S1; exact Hst).
    assert (Hlp1'' : lp s1 + 3 < InvalidIndex) by lia.
    apply wp_bind. eapply wp_weaken; [exact (const_stmt_spec (i_op it) (i_v it) fuel s1 g1 _ _ Hop Hv H1 (ge_live _ _ Hext1 _ H0) Hst1 Hlp1'' Htok1)|intros []|].
    intros res s2 (-> & g2 & c & H2 & SR2 & Er2 & Hfc & Hlc & Hext2 & K0' & Kc & Ko' & Hof2 & Hlp2 & Pc).
    cbn [pres_eqb]. cbv iota.
    (* the rest *)
    set (io := mkIobj n p c (lenN (hdr ++ items_bytes (map fst done)) + 1)).
    destruct SR2 as (T1 & T2 & T3 & T4 & T5 & T6 & T7 & T8 & T9).
    assert (HI2 : Inv1 hdr D g0 t0 lp0 (done ++ [(it, io)]) s2 g2).
    { assert (Fr1 : frame1 g (p_tree s) g1 (p_tree s1)) by (split; [exact Hext1|split; [exact Ko|exact Hof1]]).
      assert (Fr2 : frame1 g1 (p_tree s1) g2 (p_tree s2)) by (split; [exact Hext2|split; [exact Ko'|exact Hof2]]).
      assert (Fr : frame1 g (p_tree s) g2 (p_tree s2)) by (eapply frame1_trans; eauto).
      assert (Hn0 : n <> 0) by (intros ->; contradiction).
      assert (Hp0 : p <> 0) by (intros ->; contradiction).
      assert (Hc0 : c <> 0) by (intros ->; apply Hfc; apply (ge_live _ _ Hext1); exact H0).
      constructor.
      - exact H2.
      - rewrite T1, S1. exact Hst.
      - apply (ge_live _ _ Hext2). apply (ge_live _ _ Hext1). exact H0.
      - rewrite K0', K0, Hk0. unfold pairs_kids. rewrite flat_map_app. cbn [flat_map snd io_n io_c io app]. rewrite <- !app_assoc. reflexivity.
      - apply Forall_app. split.
        + eapply Forall_impl; [|exact Hitems]. intros x Hx. rewrite T8, S8. unfold cur_tbl. rewrite T9, S9.
          eapply item_shape1_frame; [exact Fr|exact Hx].
        + constructor; [|constructor]. cbn [fst snd]. unfold item_shape1. cbn [io_n io_p io_c io_off io].
          split; [apply (ge_live _ _ Hext2); exact Hln|]. split; [apply (ge_live _ _ Hext2); exact Hlp1|]. split; [exact Hlc|].
          split; [exact Hn0|]. split; [exact Hp0|]. split; [exact Hc0|].
          split; [rewrite Ko'; auto|]. split; [rewrite Ko'; auto|]. split; [exact Kc|].
          rewrite T8, S8. unfold cur_tbl. rewrite T9, S9.
          split; [eapply has_pay_frame; [exact Hof2|exact Hln|exact Pn]|].
          split; [eapply has_pay_frame; [exact Hof2|exact Hlp1|exact Pp]|].
          rewrite <- S8. exact Pc.
      - apply offs_ok_app. split; [exact Hoffs|]. cbn [offs_ok fst snd io_off io]. split; [reflexivity|exact I].
      - eapply frame1_trans; [exact Hframe|exact Fr].
      - rewrite lenN_app. change (lenN [(it, io)]) with 1. lia.
      - rewrite Er2, Er1. exact Hend. }
    assert (Htok2 : at_token (p_r s2) (hdr ++ items_bytes (map fst (done ++ [(it, io)]))) (items_bytes rest) []).
    { rewrite Er2.
      assert (Htok1' : at_token (p_r s1) ((hdr ++ items_bytes (map fst done)) ++ OP_NAME :: seg_bytes (i_seg it))
                         ((enc_op (i_op it) ++ le_bytes (const_bytes (i_op it)) (i_v it)) ++ items_bytes rest) [])
        by (replace ((enc_op (i_op it) ++ le_bytes (const_bytes (i_op it)) (i_v it)) ++ items_bytes rest)
              with (enc_op (i_op it) ++ le_bytes (const_bytes (i_op it)) (i_v it) ++ items_bytes rest) by (rewrite app_assoc; reflexivity);
            exact Htok1).
      pose proof (at_token_shift _ _ _ _ _ Htok1') as Hs.
      assert (Epre : hdr ++ items_bytes (map fst (done ++ [(it, io)])) =
                     ((hdr ++ items_bytes (map fst done)) ++ OP_NAME :: seg_bytes (i_seg it)) ++ enc_op (i_op it) ++ le_bytes (const_bytes (i_op it)) (i_v it)).
      { rewrite map_app. cbn [map fst]. unfold items_bytes. rewrite flat_map_app. cbn [flat_map]. rewrite app_nil_r.
        unfold item_bytes. rewrite <- !app_assoc. reflexivity. }
      rewrite Epre.
      assert (El : lenN (enc_op (i_op it) ++ le_bytes (const_bytes (i_op it)) (i_v it)) = 1 + N.of_nat (const_bytes (i_op it))).
      { destruct (is_const_op_cases _ Hop) as [E|[E|[E|[E|[E|[E|E]]]]]]; rewrite E; reflexivity. }
      rewrite El in Hs. rewrite N.add_assoc in Hs. exact Hs. }
    eapply wp_weaken; [apply (IH (done ++ [(it, io)]) (S (S (S (S (S fuel))))) s2 g2 HI2 Hok' Htok2)| |].
    + rewrite lenN_app. change (lenN [(it, io)]) with 1. lia.
    + cbn [length] in Hf. lia.
    + intros [].
    + intros ok s' (-> & g' & done' & F1 & F2 & F3 & F4). split; [reflexivity|].
      exists g', ((it, io) :: done'). rewrite <- app_assoc in F1, F4. cbn [app] in F1, F4.
      split; [exact F1|]. split; [cbn [map fst]; rewrite F2; reflexivity|]. split; [|exact F4].
      assert (SR1 : same_rest s s1) by (unfold same_rest; repeat split; assumption).
      assert (SR2 : same_rest s1 s2) by (unfold same_rest; repeat split; assumption).
      exact (same_rest_trans _ _ _ (same_rest_trans _ _ _ SR1 SR2) F3).
Qed.

(** ---- the table image ---- *)
Definition hdr_bytes (payload : list N) : list N :=
  [0x44; 0x53; 0x44; 0x54] ++ le_bytes 4 (aml_sizeofSDTHeader + N.of_nat (length payload)) ++ [2] ++ repeat 0 (N.to_nat aml_sizeofSDTHeader - 9).

Lemma table_image_split payload : table_image payload = hdr_bytes payload ++ payload.
Proof. unfold table_image, hdr_bytes. rewrite <- !app_assoc. reflexivity. Qed.

Lemma lenN_hdr payload : lenN (hdr_bytes payload) = aml_sizeofSDTHeader.
Proof. reflexivity. Qed.

Lemma le_bytes_lt n : forall v, Forall (fun b => b < 256) (le_bytes n v).
Proof.
  induction n as [|n IH]; intros v; cbn [le_bytes]; constructor; auto.
  change 0xff with (N.ones 8). rewrite N.land_ones. apply N.mod_lt. discriminate.
Qed.

Lemma hdr_bytes_lt payload : Forall (fun b => b < 256) (hdr_bytes payload).
Proof.
  unfold hdr_bytes. apply Forall_app. split; [repeat constructor; lia|]. apply Forall_app. split; [apply le_bytes_lt|].
  apply Forall_app. split; [repeat constructor; lia|].
  apply Forall_forall. intros x Hx. apply repeat_spec in Hx. subst x. lia.
Qed.

Lemma seg_bytes_lt s : Forall (fun b => b < 256) (seg_bytes s).
Proof.
  unfold seg_bytes. repeat constructor; change 0xff with (N.ones 8); rewrite N.land_ones; apply N.mod_lt; discriminate.
Qed.

Lemma item_bytes_lt it : item_ok it -> Forall (fun b => b < 256) (item_bytes it).
Proof.
  intros (_ & Hop & _). unfold item_bytes. constructor; [vm_compute; reflexivity|].
  apply Forall_app. split; [apply seg_bytes_lt|]. apply Forall_app. split; [|apply le_bytes_lt].
  destruct (is_const_op_cases _ Hop) as [E|[E|[E|[E|[E|[E|E]]]]]]; rewrite E; repeat constructor.
Qed.

Lemma items_bytes_lt l : Forall item_ok l -> Forall (fun b => b < 256) (items_bytes l).
Proof.
  induction 1 as [|it l Hit Hl IH]; cbn [items_bytes flat_map]; [constructor|]. apply Forall_app. split; [apply item_bytes_lt; exact Hit|exact IH].
Qed.

Lemma wp_ok {A} (m : M A) s (Q : A -> pstate -> Prop) : wp False m s Q -> exists a s', m s = Ok (a, s') /\ Q a s'.
Proof. unfold wp. destruct (m s) as [[a s']| |]; [eauto|contradiction|contradiction]. Qed.

Lemma wp_popPkgEnd_single P s x (Q : unit -> pstate -> Prop) :
  p_pkgEndStack s = [x] -> Q tt (with_pkgEndStack s []) -> wp P popPkgEnd s Q.
Proof. intros E H. unfold wp, popPkgEnd. rewrite E. exact H. Qed.

(** the state after the first pass over the items *)
Record Post1 (tree : T) (g : ghost) (earlier : list (list N)) (h : N) (data : list N) (items : list item)
             (s' : pstate) (g' : ghost) (done : list (item * iobj)) : Prop := mkPost1 {
  p1_R : R (p_tree s') g';
  p1_info : info_valid (p_tree s');
  p1_rok : rok (p_r s');
  p1_items : map fst done = items;
  p1_kids0 : kids g' 0 = kids g 0 ++ pairs_kids done;
  p1_shape : Forall (fun x => item_shape1 (p_tree s') g' h (lenN earlier) (fst x) (snd x)) done;
  p1_offs : offs_ok (hdr_bytes (items_bytes items)) done;
  p1_frame : frame1 g tree g' (p_tree s');
  p1_live0 : glive g' 0;
  p1_tables : p_tables s' = earlier ++ [data];
  p1_handle : p_handle s' = h;
  p1_skip : p_allBlocks s' = false;
  p1_scope : p_scopeStack s' = [];
  p1_pk : p_pkgEndStack s' = [];
  p1_counters : p_resolvePasses s' = 0 /\ p_mergedScopes s' = 0 /\ p_relocatedObjects s' = 0
}.

Theorem names_pass1 tree g earlier h items fuel :
  let data := table_image (items_bytes items) in
  R tree g -> info_valid tree -> glive g 0 -> Forall item_ok items ->
  N.of_nat (length data) + 0x10000400 <= two32 ->
  N.of_nat (length (t_pool tree)) + 4 * N.of_nat (length data) + 4 <= InvalidIndex ->
  (2 * length items + 9 <= fuel)%nat ->
  exists s' g' done,
    first_pass fuel (init_state tree earlier h data) = Ok (ROk, s') /\ Post1 tree g earlier h data items s' g' done.
Proof.
  intros data HR Hi H0 Hok Hsmall Hcap Hf.
  assert (Hb : Forall (fun b => b < 256) data).
  { unfold data. rewrite table_image_split. apply Forall_app. split; [apply hdr_bytes_lt|apply items_bytes_lt; exact Hok]. }
  destruct (init_FI tree g earlier h data HR Hi H0 (conj Hb Hsmall) Hcap) as (HFI & Hroom & HJ & _).
  set (s0 := with_scopeStack (init_state tree earlier h data) [0]) in *.
  (* the reader of the initial state *)
  assert (Hlen : aml_sizeofSDTHeader <= N.of_nat (length data)).
  { unfold data. rewrite table_image_split, app_length, Nat2N.inj_add. fold (lenN (hdr_bytes (items_bytes items))). rewrite lenN_hdr. lia. }
  assert (Er0 : p_r s0 = mkReader data (N.of_nat (length data)) aml_sizeofSDTHeader (N.of_nat (length data))).
  { unfold s0, init_state. pcbn. rewrite init_reader_val. unfold setPkgEnd. cbn [r_len fst]. rewrite N.ltb_irrefl. cbn [fst].
    unfold set_pkgEnd_raw. cbn [r_data r_len r_offset].
    destruct (N.of_nat (length data) <? aml_sizeofSDTHeader) eqn:E; [apply N.ltb_lt in E; lia|reflexivity]. }
  assert (Htok0 : at_token (p_r s0) (hdr_bytes (items_bytes items) ++ items_bytes (map fst (@nil (item * iobj)))) (items_bytes items) []).
  { cbn [map items_bytes flat_map]. rewrite app_nil_r. rewrite Er0. constructor; cbn [r_data r_offset r_pkgEnd].
    - unfold data. rewrite table_image_split, app_nil_r. reflexivity.
    - rewrite lenN_hdr. reflexivity.
    - unfold data. rewrite table_image_split. unfold lenN. rewrite app_length, Nat2N.inj_add. lia.
    - pose proof (fi_rok _ _ HFI) as (W & _). rewrite Er0 in W. exact W. }
  assert (HI0 : Inv1 (hdr_bytes (items_bytes items)) (kids g 0) g tree (N.of_nat (length (t_pool tree))) [] s0 g).
  { constructor; auto.
    - cbn [pairs_kids flat_map]. rewrite app_nil_r. reflexivity.
    - exact I.
    - split; [apply gext_refl|]. split; [auto|apply oldframe_refl].
    - unfold lp, s0, init_state. pcbn. change (lenN (@nil (item * iobj))) with 0. lia.
    - rewrite Er0. reflexivity. }
  assert (Hn : 6 * lenN items + aml_sizeofSDTHeader <= N.of_nat (length data)).
  { unfold data. rewrite table_image_split, app_length, Nat2N.inj_add. fold (lenN (hdr_bytes (items_bytes items))). rewrite lenN_hdr.
    assert (6 * lenN items <= N.of_nat (length (items_bytes items))); [|lia].
    clear. induction items as [|it l IH]; [cbn; lia|]. cbn [items_bytes flat_map]. rewrite app_length. unfold item_bytes at 1.
    cbn [length]. rewrite !app_length. change (length (seg_bytes (i_seg it))) with 4%nat. unfold lenN in *. cbn [length].
    assert (1 <= length (enc_op (i_op it)))%nat by (unfold enc_op; destruct (i_op it <=? 255); cbn; lia). unfold items_bytes in IH. lia. }
  destruct fuel as [|[|[|fuel]]]; try lia.
  assert (Hinner := inner_names _ _ _ _ _ items [] (S (S fuel)) s0 g HI0 Hok Htok0).
  assert (W : wp False (first_pass (S (S (S fuel)))) (init_state tree earlier h data)
                (fun a s' => a = ROk /\ exists g' done, Post1 tree g earlier h data items s' g' done)).
  { unfold first_pass. apply wp_bind. apply wp_scopeEnter.
    change (with_scopeStack (init_state tree earlier h data) (0 :: p_scopeStack (init_state tree earlier h data))) with s0.
    cbn [parseObjectList]. apply wp_bind, wp_get.
    assert (Est0 : p_scopeStack s0 = [0]) by reflexivity. rewrite Est0.
    apply wp_bind. eapply wp_weaken; [apply Hinner|intros []|].
    { change (lenN (@nil (item * iobj))) with 0. unfold aml_sizeofSDTHeader in *. lia. } { lia. }
    intros ok s1 (-> & g1 & done & HI1 & Hmap & SR1 & Htok1).
    cbn [app] in HI1, Htok1.
    destruct HI1 as [H1 Hst1 Hl01 Hk01 Hit1 Hoffs1 Hfr1 Hlp1 Hend1].
    destruct SR1 as (S1 & S2 & S3 & S4 & S5 & S6 & S7 & S8 & S9).
    cbn [negb]. apply wp_bind, wp_get. apply wp_bind, wp_get. rewrite S2, Hst1.
    assert (Epk0 : p_pkgEndStack s0 = [r_len (init_reader data aml_sizeofSDTHeader)]) by reflexivity.
    rewrite Epk0. cbn [length Nat.eqb].
    apply wp_bind. eapply wp_scopeExit; [exact Hst1|].
    apply wp_bind. eapply wp_popPkgEnd_single; [cbn [p_pkgEndStack with_scopeStack]; rewrite S2; exact Epk0|].
    apply wp_bind, wp_get. cbn [p_scopeStack with_pkgEndStack with_scopeStack]. apply wp_ret.
    split; [reflexivity|]. exists g1, done.
    constructor; pcbn; auto.
    + apply (fi_R _ _ H1).
    + apply (fi_info _ _ H1).
    + apply (fi_rok _ _ H1).
    + rewrite S8 in Hit1. unfold cur_tbl in Hit1. rewrite S9 in Hit1.
      replace (N.of_nat (length (p_tables s0)) - 1) with (lenN earlier) in Hit1; [exact Hit1|].
      unfold s0, init_state. pcbn. unfold lenN. rewrite app_length. cbn [length]. lia. }
  destruct (wp_ok _ _ _ W) as (a & s' & E & -> & g' & done & HP). exists s', g', done. split; assumption.
Qed.
