(** The three read-only walks of obj_tree.go - NumArgs, ArgAt, ClosestNamedAncestor - : the hand-written model
    (Aml/Tree.v) equals the Go -> Gallina translation (Gen/Trans_aml_tree.v).  Continuation of Aml/TreeTrans.v. *)
From Coq Require Import NArith PeanoNat List Bool Lia.
From FF Require Import Lib.Word Lib.GoOps Lib.GoPool Gen.Consts_aml_tree Gen.Trans_aml_tree Aml.Stream Aml.Tree Aml.TreeTrans.
Import ListNotations.
Local Open Scope N_scope.

Section Queries.
Context {V : Type}.
Notation Obj := (Object V).
Notation Tree := (ObjectTree V).

(** ---- the three loops: [gloop] of the translation against the model's recursion on fuel; the exit test consumes one
    unit of fuel on both sides, so the equality holds for EVERY fuel (GFuel exactly where the model says OutOfFuel) ---- *)
Definition NumArgs_fuel (fuel : nat) (t : Tree) (obj : option N) : outcome N :=
  match obj with None => Ok 0 | Some p => do first <- rd t p o_first; numArgs_go fuel t first 0 end.
Definition ArgAt_fuel (fuel : nat) (t : Tree) (obj : option N) (index : N) : outcome (option N) :=
  match obj with None => Ok None | Some p => do first <- rd t p o_first; argAt_go fuel t 0 first index end.
Definition ClosestNamedAncestor_fuel (fuel : nat) (t : Tree) (obj : option N) : outcome N :=
  match obj with None => Ok InvalidIndex | Some p => do par <- rd t p o_parent; closest_go fuel t par end.

Theorem NumArgs_is_translation : forall (t : Tree) (obj : option N) (fuel : nat),
  go_aml_ObjectTree_NumArgs fuel (tr_tree t) obj = lift (fun n => (tr_tree t, n)) (NumArgs_fuel fuel t obj).
Proof.
  intros. unfold go_aml_ObjectTree_NumArgs, NumArgs_fuel. destruct obj as [p|]; cbn [gisnil]; [|reflexivity].
  cbv zeta. unfold rd. rewrite gderef_tr.
  destruct (deref t p) as [o| |] eqn:D; cbn [bind lift]; [ | reflexivity | exfalso; exact (deref_not_fuel _ _ D)].
  change (f_Object_firstArgIndex (tr_obj o)) with (o_first o).
  match goal with |- context [gloop _ ?S _] => set (STEP := S) end.
  assert (L : forall fuel c s,
    gloop fuel STEP (tr_tree t, c, s) =
    match numArgs_go fuel t s c with
    | Ok c' => GOk (inl (tr_tree t, c', tree_InvalidIndex)) | Panic => GPanic | OutOfFuel => GFuel end).
  { induction fuel0 as [|f IH]; intros c s; [reflexivity|].
    cbn [gloop numArgs_go]. unfold STEP at 1. cbv beta iota. unfold InvalidIndex.
    destruct (s =? tree_InvalidIndex) eqn:E; cbn [negb].
    - apply N.eqb_eq in E. now subst s.
    - rewrite ObjectAt_is_translation. unfold ObjectAt_deref, rd.
      destruct (ObjectAt t s) as [q|]; cbn [bind]; [|reflexivity].
      rewrite gderef_tr. destruct (deref t q) as [oq| |] eqn:Dq; cbn [bind]; [ | reflexivity | exfalso; exact (deref_not_fuel _ _ Dq)].
      change (f_Object_nextSiblingIndex (tr_obj oq)) with (o_next oq). change (gw 32 (c + 1)) with (w32 (c + 1)).
      apply IH. }
  rewrite L. destruct (numArgs_go fuel t (o_first o) 0); reflexivity.
Qed.

Theorem ArgAt_is_translation : forall (t : Tree) (obj : option N) (index : N) (fuel : nat),
  go_aml_ObjectTree_ArgAt fuel (tr_tree t) obj index = lift (fun r => (tr_tree t, r)) (ArgAt_fuel fuel t obj index).
Proof.
  intros. unfold go_aml_ObjectTree_ArgAt, ArgAt_fuel. destruct obj as [p|]; cbn [gisnil]; [|reflexivity].
  cbv zeta. unfold rd. rewrite gderef_tr.
  destruct (deref t p) as [o| |] eqn:D; cbn [bind lift]; [ | reflexivity | exfalso; exact (deref_not_fuel _ _ D)].
  change (f_Object_firstArgIndex (tr_obj o)) with (o_first o). change (gw 32 0) with 0.
  match goal with |- context [gloop _ ?S _] => set (STEP := S) end.
  assert (L : forall fuel ai s,
    match gloop (R := (@go_aml_ObjectTree V * option N)%type) fuel STEP (tr_tree t, ai, s) with
    | GPanic => GPanic | GFuel => GFuel
    | GOk (inr r) => GOk r
    | GOk (inl st) => let '(v_tree, _, _) := st in GOk (v_tree, None)
    end = lift (fun r => (tr_tree t, r)) (argAt_go fuel t ai s index)).
  { induction fuel0 as [|f IH]; intros ai s; [reflexivity|].
    cbn [gloop argAt_go]. unfold STEP at 1. cbv beta iota. unfold InvalidIndex.
    destruct (s =? tree_InvalidIndex) eqn:E; cbn [negb]; [reflexivity|].
    destruct (ai =? index) eqn:E2.
    - rewrite ObjectAt_is_translation. reflexivity.
    - cbv zeta. rewrite ObjectAt_is_translation. unfold ObjectAt_deref, rd.
      destruct (ObjectAt t s) as [q|]; cbn [bind lift]; [|reflexivity].
      rewrite gderef_tr. destruct (deref t q) as [oq| |] eqn:Dq; cbn [bind lift]; [ | reflexivity | exfalso; exact (deref_not_fuel _ _ Dq)].
      change (f_Object_nextSiblingIndex (tr_obj oq)) with (o_next oq). change (gw 32 (ai + 1)) with (w32 (ai + 1)).
      apply IH. }
  exact (L fuel 0 (o_first o)).
Qed.

Theorem ClosestNamedAncestor_is_translation : forall (t : Tree) (obj : option N) (fuel : nat),
  go_aml_ObjectTree_ClosestNamedAncestor fuel (tr_tree t) obj =
  lift (fun r => (tr_tree t, r)) (ClosestNamedAncestor_fuel fuel t obj).
Proof.
  intros. unfold go_aml_ObjectTree_ClosestNamedAncestor, ClosestNamedAncestor_fuel. destruct obj as [p|]; cbn [gisnil]; [|reflexivity].
  cbv zeta. unfold rd. rewrite gderef_tr.
  destruct (deref t p) as [o| |] eqn:D; cbn [bind lift]; [ | reflexivity | exfalso; exact (deref_not_fuel _ _ D)].
  change (f_Object_parentIndex (tr_obj o)) with (o_parent o).
  match goal with |- context [gloop _ ?S _] => set (STEP := S) end.
  assert (L : forall fuel a,
    match gloop (R := (@go_aml_ObjectTree V * N)%type) fuel STEP (tr_tree t, a) with
    | GPanic => GPanic | GFuel => GFuel
    | GOk (inr r) => GOk r
    | GOk (inl st) => let '(v_tree, _) := st in GOk (v_tree, tree_InvalidIndex)
    end = lift (fun r => (tr_tree t, r)) (closest_go fuel t a)).
  { induction fuel0 as [|f IH]; intros a; [reflexivity|].
    cbn [gloop closest_go]. unfold STEP at 1. cbv beta iota. unfold InvalidIndex, opScope.
    destruct (a =? tree_InvalidIndex) eqn:E; cbn [negb]; [reflexivity|].
    rewrite ObjectAt_is_translation. unfold ObjectAt_deref.
    destruct (ObjectAt t a) as [q|]; cbn [bind lift]; [|reflexivity].
    cbv zeta. rewrite !gderef_tr. destruct (deref t q) as [oq| |] eqn:Dq; cbn [bind lift]; [ | reflexivity | exfalso; exact (deref_not_fuel _ _ Dq)].
    change (f_Object_opcode (tr_obj oq)) with (o_opcode oq).
    destruct (o_opcode oq =? tree_pOpScope); [reflexivity|].
    change (f_Object_infoIndex (tr_obj oq)) with (o_infoIndex oq). unfold gidx.
    destruct (nth_error tree_opcodeTableFlags (N.to_nat (o_infoIndex oq))) as [fl|]; [|reflexivity].
    destruct (N.land fl tree_pOpFlagNamed =? 0); cbn [negb]; [|reflexivity].
    change (f_Object_parentIndex (tr_obj oq)) with (o_parent oq). apply IH. }
  exact (L fuel (o_parent o)).
Qed.

(** with the model's own fuel *)
Corollary queries_model_fuel : forall (t : Tree) (obj : option N) (index : N),
  go_aml_ObjectTree_NumArgs (chain_fuel t) (tr_tree t) obj = lift (fun n => (tr_tree t, n)) (NumArgs t obj) /\
  go_aml_ObjectTree_ArgAt (chain_fuel t) (tr_tree t) obj index = lift (fun r => (tr_tree t, r)) (ArgAt t obj index) /\
  go_aml_ObjectTree_ClosestNamedAncestor (chain_fuel t) (tr_tree t) obj =
    lift (fun r => (tr_tree t, r)) (ClosestNamedAncestor t obj).
Proof.
  intros. split; [|split].
  - apply NumArgs_is_translation. - apply ArgAt_is_translation. - apply ClosestNamedAncestor_is_translation.
Qed.
End Queries.

Section Scopes.
Context {V : Type}.
Notation Obj := (Object V).
Notation Tree := (ObjectTree V).

(** CreateDefaultScopes: six newNamedObject calls and five appends; the model takes the names from the regenerated
    constant [tree_defaultScopeNames], the translation from the array literals of the source *)
Theorem CreateDefaultScopes_is_translation : forall (t : Tree) (th : N),
  go_aml_ObjectTree_CreateDefaultScopes (tr_tree t) th table_oracle =
  lift (fun t' => (tr_tree t', tt)) (CreateDefaultScopes t th).
Proof.
  intros. unfold go_aml_ObjectTree_CreateDefaultScopes, CreateDefaultScopes.
  change tree_defaultScopeNames with [[92; 0; 0; 0]; [95; 71; 80; 69]; [95; 80; 82; 95]; [95; 83; 66; 95]; [95; 83; 73; 95]; [95; 84; 90; 95]].
  cbn [append_scopes name_of_list]. unfold opScopeBlock.
  repeat match goal with
  | |- context [gpad tree_amlNameLen ?l] =>
      let n := eval vm_compute in (gpad tree_amlNameLen l) in change (gpad tree_amlNameLen l) with n
  end.
  repeat match goal with
  | |- context [go_aml_ObjectTree_newNamedObject (tr_tree ?T) ?o ?h [?a; ?b; ?c; ?d] table_oracle] =>
      change [a; b; c; d] with (name_bytes (a, b, c, d));
      rewrite (newNamedObject_is_translation T o h (a, b, c, d));
      destruct (newNamedObject T o h (a, b, c, d)) as [[? ?]| |]; cbn [lift bind]; try reflexivity
  | |- context [go_aml_ObjectTree_append (tr_tree ?T) (Some ?x) (Some ?y)] =>
      rewrite (append_is_translation T x y);
      destruct (append T x y) as [?| |]; cbn [lift bind]; try reflexivity
  end.
Qed.
End Scopes.
