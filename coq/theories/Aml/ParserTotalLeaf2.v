(** C12 (stretch): parseFieldElements once more, now with the frame: the field list of an object that is the LAST child
    of its parent only appends NamedFields to the parent and Connections to the object; nothing that was live is rewritten. *)
From Coq Require Import NArith Arith List Bool Lia.
From Coq Require Import ZifyBool ZifyN ZifyNat.
From FF Require Import Lib.Word Gen.Consts_device_acpi_aml Gen.Consts_aml_tree Aml.Stream Aml.Lex Aml.LexProofs
  Aml.Tree Aml.TreeSpec Aml.TreeProofs Aml.TreeProofsOps Aml.Parser
  Aml.ParserTotalTree Aml.ParserTotalLex Aml.ParserTotalTable Aml.ParserTotalBase Aml.ParserTotalLeaf Aml.ParserTotalFrame.
Import ListNotations.
Local Open Scope N_scope.

(** the small leaf functions, with what they leave alone *)
Lemma fieldByte_spec2 {md} P s g : FIm md s g ->
  wp P fieldByte s (fun a s' => FIm md s' g /\ at_ s s' 0 0 /\ p_tree s' = p_tree s).
Proof.
  intros H. eapply wp_weaken; [apply (wp_and_pc P _ s _ (fun _ s' => p_tree s' = p_tree s) (fieldByte_spec P s g H))|auto|].
  - intros a s' E. exact (fieldByte_notree _ _ _ E).
  - intros a s' ((A & B) & C). auto.
Qed.

Lemma dl_block_spec2 {md} P origOffset pkgLen s g : FIm md s g ->
  wp P (dl_block origOffset pkgLen) s (fun a s' => FIm md s' g /\ at_ s s' 0 0 /\ p_tree s' = p_tree s).
Proof.
  intros H. eapply wp_weaken; [apply (wp_and_pc P _ s _ (fun _ s' => p_tree s' = p_tree s) (dl_block_spec P origOffset pkgLen s g H))|auto|].
  - intros a s' E. exact (dl_block_notree _ _ _ _ _ E).
  - intros a s' ((A & B) & C). auto.
Qed.

Lemma readName_go_ik field cnt : forall i s a s', readName_go cnt i field s = Ok (a, s') ->
  forall o, tget (p_tree s) field = Some o -> exists o', tget (p_tree s') field = Some o' /\ o_infoIndex o' = o_infoIndex o.
Proof.
  induction cnt as [|cnt IH]; intros i s a s' H o Ho; cbn [readName_go] in H.
  - inversion H; subst. eauto.
  - apply bindM_ok in H. destruct H as (b & s1 & E1 & H). rewrite <- (notree_readByteM _ _ _ E1) in Ho.
    apply bindM_ok in H. destruct H as (nm & s2 & E2 & H). rewrite <- (notree_tq _ _ _ _ E2) in Ho.
    assert (W : forall v s3 u, wrf field (set_name v) s2 = Ok (u, s3) ->
              exists o3, tget (p_tree s3) field = Some o3 /\ o_infoIndex o3 = o_infoIndex o).
    { intros v s3 u E. unfold wrf, tu in E. destruct (wr (p_tree s2) field (set_name v)) as [t'| |] eqn:Ew; try discriminate.
      inversion E; subst. destruct (wr_inv _ _ _ _ Ew) as (-> & _). cbn [p_tree with_tree]. rewrite get_tset, N.eqb_refl, Ho.
      cbn [option_map]. eexists. split; [reflexivity|reflexivity]. }
    destruct b as [b|]; apply bindM_ok in H; destruct H as (u & s3 & E3 & H); destruct (W _ _ _ E3) as (o3 & Ho3 & Ei).
    + destruct (IH _ _ _ _ H o3 Ho3) as (o' & Ho' & E'). exists o'. split; [exact Ho'|congruence].
    + inversion H; subst. eauto.
Qed.

Lemma readName_go_spec2 {md} P field cnt i s g : FIm md s g -> glive g field ->
  wp P (readName_go cnt i field) s (fun ok s' => FIm md s' g /\ at_ s s' 0 0 /\
     (forall j, j <> field -> tget (p_tree s') j = tget (p_tree s) j) /\
     (forall o, tget (p_tree s) field = Some o -> exists o', tget (p_tree s') field = Some o' /\ o_infoIndex o' = o_infoIndex o)).
Proof.
  intros H Hl. eapply wp_weaken; [apply (wp_and_pc P _ s _ (fun _ s' => (forall j, j <> field -> tget (p_tree s') j = tget (p_tree s) j) /\
     (forall o, tget (p_tree s) field = Some o -> exists o', tget (p_tree s') field = Some o' /\ o_infoIndex o' = o_infoIndex o))
     (readName_go_spec P field cnt i s g H Hl))|auto|].
  - intros a s' E. split; [intros j Hj; exact (readName_go_only field cnt i s a s' E j Hj)|exact (readName_go_ik field cnt i s a s' E)].
  - intros a s' ((A & B) & C & D). auto.
Qed.

(** the objects a field list inserts next to its object: new, childless, with the NamedField row *)
Definition nfrow (s : pstate) (x : N) : Prop :=
  exists o, tget (p_tree s) x = Some o /\ opcodeTableIndex aml_pOpIntNamedField true = Some (o_infoIndex o).
Definition sibs (g : ghost) (s' : pstate) (g' : ghost) (new : list N) : Prop :=
  Forall (fun x => ~ glive g x /\ glive g' x /\ kids g' x = [] /\ nfrow s' x) new.
Definition carry (g : ghost) (s1 : pstate) (g1 : ghost) (s2 : pstate) (g2 : ghost) : Prop :=
  forall x, glive g1 x -> ~ glive g x -> kids g1 x = [] -> nfrow s1 x -> glive g2 x /\ kids g2 x = [] /\ nfrow s2 x.

Lemma sibs_nil g s' g' : sibs g s' g' [].
Proof. constructor. Qed.

Lemma sibs_app g s' g' l1 l2 : sibs g s' g' l1 -> sibs g s' g' l2 -> sibs g s' g' (l1 ++ l2).
Proof. intros A B. apply Forall_app. split; assumption. Qed.

Lemma sibs_carry g s1 g1 s2 g2 new : sibs g s1 g1 new -> carry g s1 g1 s2 g2 -> sibs g s2 g2 new.
Proof.
  intros H C. unfold sibs in *. rewrite Forall_forall in *. intros x Hx. destruct (H x Hx) as (A & B & K & F).
  destruct (C x B A K F) as (B' & K' & F'). auto.
Qed.

Lemma sibs_old g0 g s' g' new : sibs g s' g' new -> (forall x, glive g0 x -> glive g x) -> sibs g0 s' g' new.
Proof.
  intros H L. unfold sibs in *. rewrite Forall_forall in *. intros x Hx. destruct (H x Hx) as (A & B). split; [|exact B].
  intros F. apply A. apply L. exact F.
Qed.

Lemma Fr_carry (P X E : N -> Prop) g s1 g1 s2 g2 :
  Fr P X E s1 g1 s2 g2 -> gext g1 g2 -> (forall x, X x -> glive g x) -> (forall y, E y -> kids g1 y <> []) -> carry g s1 g1 s2 g2.
Proof.
  intros [K Fk] G HX HE x Hl Hn Hk (o & Ho & Hrow).
  split; [apply (ge_live _ _ G); exact Hl|]. split.
  - destruct (Fk x Hl) as (_ & Hex); [intros F; apply (HE x F); exact Hk|]. rewrite Hex; [exact Hk|]. intros F. apply Hn. apply HX. exact F.
  - destruct (K x o Hl Ho) as (o' & Ho' & (_ & Ei & _) & _). exists o'. split; [exact Ho'|]. rewrite Ei. exact Hrow.
Qed.

Section Field2.
Variables (md : bool) (curObj par : N) (tl : list N).

(** the object gets Connections appended; nothing is said (in the frame) about the parent, whose list is described explicitly:
    the NamedFields are inserted right after the object, in front of the fixed tail [tl] *)
Definition XC (y : N) : Prop := y = curObj.
Definition EP (y : N) : Prop := y = par.

Definition FPre2 (s : pstate) (g : ghost) (f : fstate) (l1 : list N) : Prop :=
  FIm md s g /\ In curObj (kids g par) /\ kids g par = l1 ++ f_appendAfter f :: tl /\ Phi s + 4 <= InvalidIndex.
Definition FPost2 (s : pstate) (g : ghost) (l1 : list N) (a : N) (res : pres) (s' : pstate) (g' : ghost) : Prop :=
  FPost s res s' /\ Fr NoP XC EP s g s' g' /\ exists new, kids g' par = l1 ++ a :: new ++ tl /\ sibs g s' g' new.
Definition FSpec2 (fuel : nat) : Prop := forall f s g l1, FPre2 s g f l1 ->
  specm md (N.of_nat fuel <= rem s) (fieldElements_go fuel curObj f) s g (fun res s' g' => FPost2 s g l1 (f_appendAfter f) res s' g').

(** the recursive call, after at least one consumed byte and at most four created objects *)
Lemma frec fuel (IH : FSpec2 fuel) f1 s g s1 g1 c l1 a pre new1 :
  FIm md s1 g1 -> at_ s s1 1 c -> c <= 4 -> gext g g1 -> In curObj (kids g1 par) ->
  kids g1 par = pre ++ f_appendAfter f1 :: tl -> pre ++ [f_appendAfter f1] = l1 ++ a :: new1 ->
  Fr NoP XC EP s g s1 g1 ->
  Phi s + 4 <= InvalidIndex -> glive g curObj -> sibs g s1 g1 new1 ->
  wp (N.of_nat (S fuel) <= rem s) (fieldElements_go fuel curObj f1) s1
     (fun res s' => exists g', FIm md s' g' /\ Ext s g s' g' /\ FPost2 s g l1 a res s' g').
Proof.
  intros H1 A1 Hc Hext Hcur Hpos Hpre HF Hroom Hlc Hsib. destruct (at_Phi _ _ _ _ A1) as (P1 & P2).
  eapply wp_weaken; [apply (IH f1 s1 g1 pre)|..].
  - split; [exact H1|]. split; [exact Hcur|]. split; [exact Hpos|]. lia.
  - intros Hf. lia.
  - intros res s' (g' & F1 & F2 & (F3 & F4 & F5 & F6 & F7) & F8 & (new2 & F9 & S9)). exists g'. split; auto. split.
    + eapply Ext_trans; [eapply at_Ext; eauto|exact F2].
    + destruct A1 as (_ & _ & _ & _ & A5 & A6). split; [|split].
      * split; [lia|]. split; [|split; [exact F5|split; congruence]]. intros Hr. specialize (F4 Hr). lia.
      * eapply Fr_trans; [exact HF|exact F8|apply (ge_live _ _ Hext)|auto|auto|auto].
      * exists (new1 ++ new2). split.
        -- rewrite F9.
           change (pre ++ f_appendAfter f1 :: new2 ++ tl) with (pre ++ [f_appendAfter f1] ++ new2 ++ tl).
           rewrite app_assoc, Hpre. rewrite <- app_assoc. cbn [app]. rewrite <- app_assoc. reflexivity.
        -- apply sibs_app.
           ++ eapply sibs_carry; [exact Hsib|]. apply (Fr_carry NoP XC EP g s1 g1 s' g' F8 (ex_g _ _ _ _ F2)).
              ** intros x ->. exact Hlc.
              ** intros y -> E. rewrite E in Hcur. exact Hcur.
           ++ eapply sibs_old; [exact S9|apply (ge_live _ _ Hext)].
Qed.

(** a failing return *)
Lemma ffail (P : Prop) s g s1 g1 k c (res : pres) l1 a :
  FIm md s1 g1 -> at_ s s1 k c -> c <= 2 -> gext g g1 -> Fr NoP XC EP s g s1 g1 ->
  kids g1 par = l1 ++ a :: tl -> res = RFailed ->
  wp P (ret res) s1 (fun res s' => exists g', FIm md s' g' /\ Ext s g s' g' /\ FPost2 s g l1 a res s' g').
Proof.
  intros H1 A1 Hc Hext HF Hk ->. destruct (at_Phi _ _ _ _ A1) as (P1 & P2).
  apply wp_ret. exists g1. split; auto. split; [eapply at_Ext; eauto|]. split; [|split; [exact HF|exists []; split; [exact Hk|apply sibs_nil]]].
  split; [lia|]. split; [discriminate|].
  destruct A1 as (_ & _ & _ & _ & A5 & A6). split; [discriminate|split; assumption].
Qed.

Lemma fieldElements_spec2 : forall fuel, FSpec2 fuel.
Proof.
  induction fuel as [|fuel IH]; intros f s g l1 (H & Hcur & Hpos & Hroom); unfold specm; cbn [fieldElements_go].
  { apply wp_outOfFuel. change (0 <= rem s). apply N.le_0_l. }
  assert (Haft : In (f_appendAfter f) (kids g par)) by (rewrite Hpos; apply in_or_app; right; left; reflexivity).
  pose proof (fi_rok _ _ H) as Hrok.
  pose proof (R_gwf _ _ (fi_R _ _ H)) as Hwf.
  destruct (Hwf _ _ Hcur) as (Hlpar & Hlcur).
  assert (Hlp : lp s + 3 < InvalidIndex) by (unfold Phi in Hroom; lia).
  assert (F0 : Fr NoP XC EP s g s g) by apply Fr_refl.
  apply wp_bind, wp_get. destruct (eof (p_r s)) eqn:Ee.
  { apply wp_ret. exists g. split; auto. split; [apply Ext_refl|]. split; [|split; [exact F0|exists []; split; [exact Hpos|apply sibs_nil]]].
    split; [lia|]. split; [lia|]. split; [discriminate|split; reflexivity]. }
  apply wp_bind. apply wp_readByte; auto. intros nx r1 Hadv Hn Hs.
  destruct nx as [next|].
  2:{ exfalso. destruct (Hn eq_refl) as (_ & Hge). unfold eof in Ee. apply N.leb_gt in Ee. lia. }
  destruct (Hs _ eq_refl) as (Ho1 & Hb & Hlt). clear Hn Hs.
  set (s1 := with_r s r1).
  assert (H1 : FIm md s1 g) by (apply FI_adv; auto).
  assert (F1 : Fr NoP XC EP s g s1 g) by (eapply Fr_tree_eq; [exact F0|reflexivity]).
  assert (A1 : at_ s s1 1 0).
  { replace 1 with (0 + 1) by reflexivity. apply at_adv; [apply at_refl; auto|exact Hadv|lia]. }
  destruct (next =? 0) eqn:E0.
  { (* reserved field *)
    apply wp_bind. apply wp_pkglen; [apply (fi_rok _ _ H1)|]. intros v ok r2 Hadv2 Hok Hnok.
    assert (H2 : FIm md (with_r s1 r2) g) by (apply FI_adv; auto).
    assert (F2 : Fr NoP XC EP s g (with_r s1 r2) g) by (eapply Fr_tree_eq; [exact F1|reflexivity]).
    assert (A2 : at_ s (with_r s1 r2) 1 0).
    { apply at_adv0; auto. }
    destruct ok; cbn [negb].
    - eapply (frec fuel IH _ s g _ g _ l1 (f_appendAfter f) l1 []); eauto using gext_refl, sibs_nil. lia.
    - eapply (ffail _ s g _ g _ _ _ l1 (f_appendAfter f)); eauto using gext_refl; lia. }
  destruct (next =? 1) eqn:E1.
  { (* AccessField *)
    apply wp_bind. eapply wp_weaken; [apply (fieldByte_spec2 False s1 g H1)|intros []|]. intros a sa (Ha & Aa & Ta).
    assert (A2 : at_ s sa 1 0) by (eapply at_trans0; eauto).
    assert (Fa : Fr NoP XC EP s g sa g) by (eapply Fr_tree_eq; [exact F1|exact Ta]).
    destruct a as [accessType|]; [|eapply (ffail _ s g _ g _ _ _ l1 (f_appendAfter f)); eauto using gext_refl; lia].
    apply wp_bind. eapply wp_weaken; [apply (fieldByte_spec2 False sa g Ha)|intros []|]. intros b sb (Hb' & Ab & Tb).
    assert (A3 : at_ s sb 1 0) by (eapply at_trans0; eauto).
    assert (Fb : Fr NoP XC EP s g sb g) by (eapply Fr_tree_eq; [exact Fa|exact Tb]).
    destruct b as [accessAttrib|]; [|eapply (ffail _ s g _ g _ _ _ l1 (f_appendAfter f)); eauto using gext_refl; lia].
    eapply (frec fuel IH _ s g _ g _ l1 (f_appendAfter f) l1 []); eauto using gext_refl, sibs_nil. lia. }
  destruct (next =? 3) eqn:E3.
  { (* ExtAccessField *)
    apply wp_bind. eapply wp_weaken; [apply (fieldByte_spec2 False s1 g H1)|intros []|]. intros a sa (Ha & Aa & Ta).
    assert (A2 : at_ s sa 1 0) by (eapply at_trans0; eauto).
    assert (Fa : Fr NoP XC EP s g sa g) by (eapply Fr_tree_eq; [exact F1|exact Ta]).
    destruct a as [accessType|]; [|eapply (ffail _ s g _ g _ _ _ l1 (f_appendAfter f)); eauto using gext_refl; lia].
    apply wp_bind. eapply wp_weaken; [apply (fieldByte_spec2 False sa g Ha)|intros []|]. intros b sb (Hb' & Ab & Tb).
    assert (A3 : at_ s sb 1 0) by (eapply at_trans0; eauto).
    assert (Fb : Fr NoP XC EP s g sb g) by (eapply Fr_tree_eq; [exact Fa|exact Tb]).
    destruct b as [accessAttrib|]; [|eapply (ffail _ s g _ g _ _ _ l1 (f_appendAfter f)); eauto using gext_refl; lia].
    apply wp_bind. eapply wp_weaken; [apply (fieldByte_spec2 False sb g Hb')|intros []|]. intros c sc (Hc' & Ac & Tc).
    assert (A4 : at_ s sc 1 0) by (eapply at_trans0; eauto).
    assert (Fc : Fr NoP XC EP s g sc g) by (eapply Fr_tree_eq; [exact Fb|exact Tc]).
    destruct c as [accessLength|]; [|eapply (ffail _ s g _ g _ _ _ l1 (f_appendAfter f)); eauto using gext_refl; lia].
    eapply (frec fuel IH _ s g _ g _ l1 (f_appendAfter f) l1 []); eauto using gext_refl, sibs_nil. lia. }
  pose proof (fi_rok _ _ H1) as Hrok1.
  assert (Eo1 : r_offset (p_r s1) = r_offset (p_r s) + 1) by exact Ho1.
  assert (Hpc : par <> curObj) by (intros E; eapply (R_child_neq_parent _ _ (fi_R _ _ H)); [exact Hcur|symmetry; exact E]).
  destruct (next =? 2) eqn:E2.
  { (* Connection *)
    apply wp_bind. apply wp_readByte; [exact Hrok1|]. intros nx2 r2 Hadv2 Hn2 Hs2.
    assert (H2 : FIm md (with_r s1 r2) g) by (apply FI_adv; auto).
    assert (F2 : Fr NoP XC EP s g (with_r s1 r2) g) by (eapply Fr_tree_eq; [exact F1|reflexivity]).
    destruct nx2 as [next2|].
    2:{ eapply (ffail _ s g _ g _ _ _ l1 (f_appendAfter f)); [exact H2|apply at_adv0; eauto|lia|apply gext_refl|exact F2|exact Hpos|reflexivity]. }
    destruct (Hs2 _ eq_refl) as (Ho2 & Hb2 & Hlt2). clear Hn2 Hs2.
    set (s2 := with_r s1 r2) in *.
    assert (Eo2 : r_offset (p_r s2) = r_offset (p_r s) + 2) by (unfold s2; pcbn; lia).
    assert (A2 : at_ s s2 2 0).
    { replace 2 with (1 + 1) by reflexivity. apply at_adv; auto. lia. }
    apply wp_bind. eapply new_step2; [exact H2|apply (newokb_sound aml_pOpIntConnection eq_refl)| |].
    { destruct A2 as (_ & _ & _ & L & _). lia. }
    intros conn t3 g3 co H3 Hext3 Hfresh3 Hlive3 Hroot3 Hkids3 Hco Hcop Hcval Hcidx Hl3 Hfw3 Hks3 _.
    set (s3 := with_tree s2 t3) in *.
    assert (F3 : Fr NoP XC EP s g s3 g3) by (apply (Fr_new NoP XC EP s g s2 g t3 g3 conn F2 (fun x Hx => Hx) Hfresh3 Hfw3 Hks3)).
    assert (A3 : at_ s s3 2 1) by (replace 1 with (0 + 1) by reflexivity; apply at_new; auto).
    apply wp_bind. apply wp_rdf. exists co. split; [exact Hco|].
    apply wp_bind. eapply (append_step _ curObj conn s3 g3 g);
      [exact H3|exact Hwf|exact Hext3|exact Hlcur|exact Hfresh3|exact Hlive3|exact Hroot3|].
    intros t4 H4 Hext4 Hpf4 Hk4 Hk4'.
    set (g4 := astep g3 (OpAppend curObj conn)) in *.
    set (s4 := with_tree s3 t4) in *.
    assert (F4 : Fr NoP XC EP s g s4 g4) by (apply (Fr_append NoP XC EP s g s3 g3 t4 g4 curObj conn F3 Hpf4 Hk4 Hk4'); intros _; left; reflexivity).
    assert (Ekp4 : kids g4 par = kids g par) by (rewrite (Hk4' par Hpc); apply Hks3).
    assert (Hpos4 : kids g4 par = l1 ++ f_appendAfter f :: tl) by (rewrite Ekp4; exact Hpos).
    assert (A4 : at_ s s4 2 1) by (apply at_pframe; auto).
    assert (Hlconn4 : glive g4 conn) by (apply glive_set_kids; auto).
    assert (Hcur4 : In curObj (kids g4 par)) by (apply (ge_kids _ _ Hext4); auto).
    assert (Hwf4 : gwf g4) by (apply (R_gwf _ _ (fi_R _ _ H4))).
    assert (Eo4 : r_offset (p_r s4) = r_offset (p_r s) + 2) by exact Eo2.
    assert (El4 : r_len (p_r s4) = r_len (p_r s)) by (destruct A4 as (L & _); exact L).
    assert (Hpconn : par <> conn) by (intros E; apply Hfresh3; rewrite <- E; exact Hlpar).
    pose proof (fi_rok _ _ H4) as Hrok4.
    destruct (next2 =? w8 aml_pOpBuffer) eqn:EB.
    - (* Buffer *)
      apply wp_bind, wp_get. apply wp_bind, wp_get.
      apply wp_bind. apply wp_pkglen; [exact Hrok4|]. intros pkgLen ok r5 Hadv5 Hok5 Hnok5.
      assert (H5 : FIm md (with_r s4 r5) g4) by (apply FI_adv; auto).
      assert (F5 : Fr NoP XC EP s g (with_r s4 r5) g4) by (eapply Fr_tree_eq; [exact F4|reflexivity]).
      assert (A5 : at_ s (with_r s4 r5) 2 1) by (apply at_adv0; auto).
      destruct ok; cbn [negb]; [|eapply (ffail _ s g _ _ _ _ _ l1 (f_appendAfter f)); [exact H5|exact A5|lia|exact Hext4|exact F5|exact Hpos4|reflexivity]].
      destruct (Hok5 eq_refl) as (_ & Hpl).
      apply wp_bind. eapply wp_weaken; [apply (dl_block_spec2 False (r_offset (p_r s4)) pkgLen _ g4 H5)|intros []|].
      intros dl s6 (H6 & A6' & T6).
      assert (A6 : at_ s s6 2 1) by (eapply at_trans0; eauto).
      assert (F6 : Fr NoP XC EP s g s6 g4) by (eapply Fr_tree_eq; [exact F5|exact T6]).
      destruct dl as [dataLen|]; [|eapply (ffail _ s g _ _ _ _ _ l1 (f_appendAfter f)); [exact H6|exact A6|lia|exact Hext4|exact F6|exact Hpos4|reflexivity]].
      apply wp_bind. eapply new_step2; [exact H6|apply (newokb_sound aml_pOpIntByteList eq_refl)| |].
      { destruct A6 as (_ & _ & _ & L & _). lia. }
      intros carg t7 g7 cao H7 Hext7 Hfresh7 Hlive7 Hroot7 Hkids7 Hcao _ _ _ Hl7 Hfw7 Hks7 _.
      set (s7 := with_tree s6 t7) in *.
      assert (Hfresh7g : ~ glive g carg) by (intros h; apply Hfresh7; apply (ge_live _ _ Hext4); exact h).
      assert (F7 : Fr NoP XC EP s g s7 g7) by (apply (Fr_new NoP XC EP s g s6 g4 t7 g7 carg F6 (ge_live _ _ Hext4) Hfresh7 Hfw7 Hks7)).
      assert (A7 : at_ s s7 2 2) by (eapply at_new'; [exact A6|exact Hl7|reflexivity]).
      wwrf H7 Hlive7. intros o8 Hg8 Hlo8 H8.
      match type of H8 with FIm md ?st _ => assert (F8 : Fr NoP XC EP s g st g7) by (apply Fr_tset_fresh; [exact F7|exact Hfresh7g]) end.
      apply wp_bind. eapply wp_weaken; [apply (parseByteList_spec2 False carg (w32 dataLen) _ g7 H8 Hlive7)|intros []|].
      intros res s9 (H9 & R9 & T9).
      assert (F9 : Fr NoP XC EP s g s9 g7).
      { eapply Fr_gets; [exact F8|]. intros i Hi. apply T9. intros ->. contradiction. }
      assert (A9 : at_ s s9 2 2).
      { apply at_tset with (p := carg) (f := set_amlOffset (r_offset (p_r s4))) in A7.
        destruct A7 as (B1 & B2 & B3 & B4 & B5 & B6). destruct R9 as (C1 & C2 & C3 & C4 & C5).
        pose proof (fi_rok _ _ H9) as (_ & _ & O9).
        unfold at_. repeat split; try lia; try congruence. }
      destruct (pres_eqb res ROk); cbn [negb]; [|eapply (ffail _ s g _ _ _ _ _ l1 (f_appendAfter f)); [exact H9|exact A9|lia|eapply gext_trans; eauto|exact F9|rewrite Hks7; exact Hpos4|reflexivity]].
      apply wp_bind. apply wp_setPkgEnd.
      set (s10 := with_r s9 (fst (setPkgEnd (p_r s9) (r_pkgEnd (p_r s4))))).
      assert (Hrok10 : rok (p_r s10)) by (apply rok_setPkgEnd, (fi_rok _ _ H9)).
      destruct (setPkgEnd_off (p_r s9) (r_pkgEnd (p_r s4))) as (Eo10 & El10).
      apply wp_bind. apply wp_ru.
      set (o11 := w32 (r_offset (p_r s4) + pkgLen)).
      set (s11 := with_r s10 (setOffset (p_r s10) o11)).
      destruct (rok_setOffset (p_r s10) o11 Hrok10) as (Hrok11 & El11).
      assert (H11 : FIm md s11 g7) by (apply FI_with_r; [apply FI_with_r; [exact H9|exact Hrok10]|exact Hrok11]).
      assert (F11 : Fr NoP XC EP s g s11 g7) by (eapply Fr_tree_eq; [exact F9|reflexivity]).
      assert (A11 : at_ s s11 2 2).
      { destruct A9 as (B1 & B2 & B3 & B4 & B5 & B6).
        assert (El : r_len (p_r s10) = r_len (p_r s)) by (unfold s10; pcbn; congruence).
        eapply at_r with (s' := s10) (k := 2) (c := 2).
        - unfold at_, s10, lp in *. pcbn. repeat split; auto; try congruence; lia.
        - exact El11.
        - pcbn. unfold setOffset. cbn [r_offset set_offset_raw]. rewrite El.
          assert (Eo : o11 = r_offset (p_r s4) + pkgLen).
          { unfold o11, w32. apply N.mod_small. destruct Hrok4 as (_ & Sm & O4). unfold small_table, two32 in *. lia. }
          destruct Hrok4 as (_ & _ & O4). destruct (r_len (p_r s) <? o11) eqn:Ec; lia.
        - destruct Hrok11 as (_ & _ & O). exact O. }
      apply wp_bind. eapply (append_step _ conn carg s11 g7 g4);
        [exact H11|exact Hwf4|exact Hext7|exact Hlconn4|exact Hfresh7|exact Hlive7|exact Hroot7|].
      intros t12 H12 Hext12 Hpf12 Hk12 Hk12'.
      assert (F12 : Fr NoP XC EP s g (with_tree s11 t12) (astep g7 (OpAppend conn carg))).
      { apply (Fr_append NoP XC EP s g s11 g7 t12 _ conn carg F11 Hpf12 Hk12 Hk12'). intros h. contradiction. }
      eapply (frec fuel IH _ s g _ _ _ l1 (f_appendAfter f) l1 []); [exact H12| |reflexivity| | | |reflexivity|exact F12|exact Hroom|exact Hlcur|apply sibs_nil].
      + eapply at_weaken; [apply at_pframe; [exact A11|exact Hpf12]|lia|lia].
      + eapply gext_trans; eauto.
      + apply (ge_kids _ _ Hext12); auto.
      + rewrite (Hk12' par Hpconn), Hks7. exact Hpos4.
    - (* a name *)
      apply wp_bind. apply wp_ru.
      assert (Hz : (r_offset (p_r s4) =? 0) = false) by (apply N.eqb_neq; lia).
      unfold unreadByte. rewrite Hz. cbn [fst].
      set (r5 := set_offset_raw (p_r s4) (r_offset (p_r s4) - 1)).
      assert (Hrok5 : rok r5).
      { destruct Hrok4 as (W & Sm & O). split; [eapply wf_same_window; [exact W|apply same_window_set_offset]|].
        split; [exact Sm|]. unfold r5. cbn [r_offset r_len set_offset_raw]. lia. }
      assert (H5 : FIm md (with_r s4 r5) g4) by (apply FI_with_r; auto).
      assert (F5 : Fr NoP XC EP s g (with_r s4 r5) g4) by (eapply Fr_tree_eq; [exact F4|reflexivity]).
      assert (A5 : at_ s (with_r s4 r5) 1 1).
      { eapply at_r; [exact A4|reflexivity|unfold r5; cbn [r_offset r_len set_offset_raw]; lia|destruct Hrok5 as (_ & _ & O); exact O]. }
      apply wp_bind. eapply new_step2; [exact H5|apply (newokb_sound aml_pOpIntNamePath eq_refl)| |].
      { destruct A5 as (_ & _ & _ & L & _). lia. }
      intros carg t7 g7 cao H7 Hext7 Hfresh7 Hlive7 Hroot7 Hkids7 Hcao _ _ _ Hl7 Hfw7 Hks7 _.
      set (s7 := with_tree (with_r s4 r5) t7) in *.
      assert (Hfresh7g : ~ glive g carg) by (intros h; apply Hfresh7; apply (ge_live _ _ Hext4); exact h).
      assert (F7 : Fr NoP XC EP s g s7 g7) by (apply (Fr_new NoP XC EP s g (with_r s4 r5) g4 t7 g7 carg F5 (ge_live _ _ Hext4) Hfresh7 Hfw7 Hks7)).
      assert (A7 : at_ s s7 1 2) by (eapply at_new'; [exact A5|exact Hl7|reflexivity]).
      apply wp_bind, wp_get.
      wwrf H7 Hlive7. intros o8 Hg8 Hlo8 H8.
      apply wp_bind, wp_get.
      apply wp_bind. apply wp_namestring; [apply (fi_rok _ _ H8)|]. intros v ok r9 Hadv9 Hok9.
      match type of H8 with FIm md ?st _ => set (s8 := st) in * end.
      assert (F8 : Fr NoP XC EP s g s8 g7) by (apply Fr_tset_fresh; [exact F7|exact Hfresh7g]).
      assert (A8 : at_ s s8 1 2) by (apply at_tset; exact A7).
      assert (H9 : FIm md (with_r s8 r9) g7) by (apply FI_adv; auto).
      assert (F9 : Fr NoP XC EP s g (with_r s8 r9) g7) by (eapply Fr_tree_eq; [exact F8|reflexivity]).
      assert (A9 : at_ s (with_r s8 r9) 1 2) by (apply at_adv0; auto).
      wwrf H9 Hlive7. intros o10 Hg10 Hlo10 H10.
      match type of H10 with FIm md ?st _ => set (s10 := st) in * end.
      assert (F10 : Fr NoP XC EP s g s10 g7) by (apply Fr_tset_fresh; [exact F9|exact Hfresh7g]).
      assert (A10 : at_ s s10 1 2) by (apply at_tset; exact A9).
      destruct ok; cbn [negb]; [|eapply (ffail _ s g _ _ _ _ _ l1 (f_appendAfter f)); [exact H10|exact A10|lia|eapply gext_trans; eauto|exact F10|rewrite Hks7; exact Hpos4|reflexivity]].
      apply wp_bind. eapply (append_step _ conn carg s10 g7 g4);
        [exact H10|exact Hwf4|exact Hext7|exact Hlconn4|exact Hfresh7|exact Hlive7|exact Hroot7|].
      intros t12 H12 Hext12 Hpf12 Hk12 Hk12'.
      assert (F12 : Fr NoP XC EP s g (with_tree s10 t12) (astep g7 (OpAppend conn carg))).
      { apply (Fr_append NoP XC EP s g s10 g7 t12 _ conn carg F10 Hpf12 Hk12 Hk12'). intros h. contradiction. }
      eapply (frec fuel IH _ s g _ _ _ l1 (f_appendAfter f) l1 []); [exact H12| |reflexivity| | | |reflexivity|exact F12|exact Hroom|exact Hlcur|apply sibs_nil].
      + eapply at_weaken; [apply at_pframe; [exact A10|exact Hpf12]|lia|lia].
      + eapply gext_trans; eauto.
      + apply (ge_kids _ _ Hext12); auto.
      + rewrite (Hk12' par Hpconn), Hks7. exact Hpos4. }
  (* a named field *)
  apply wp_bind. apply wp_ru.
  assert (Hz : (r_offset (p_r s1) =? 0) = false) by (apply N.eqb_neq; lia).
  unfold unreadByte. rewrite Hz. cbn [fst].
  set (r2 := set_offset_raw (p_r s1) (r_offset (p_r s1) - 1)).
  assert (Hrok2 : rok r2).
  { destruct Hrok1 as (W & Sm & O). split; [eapply wf_same_window; [exact W|apply same_window_set_offset]|].
    split; [exact Sm|]. unfold r2. cbn [r_offset r_len set_offset_raw]. lia. }
  assert (H2 : FIm md (with_r s1 r2) g) by (apply FI_with_r; auto).
  assert (F2 : Fr NoP XC EP s g (with_r s1 r2) g) by (eapply Fr_tree_eq; [exact F1|reflexivity]).
  assert (A2 : at_ s (with_r s1 r2) 0 0).
  { eapply at_r; [exact A1|reflexivity|unfold r2; cbn [r_offset r_len set_offset_raw]; lia|destruct Hrok2 as (_ & _ & O); exact O]. }
  apply wp_bind. eapply new_step2; [exact H2|apply (newokb_sound aml_pOpIntNamedField eq_refl)| |].
  { destruct A2 as (_ & _ & _ & L & _). lia. }
  intros fld t3 g3 fo H3 Hext3 Hfresh3 Hlive3 Hroot3 Hkids3 Hfo _ _ Hrow3 Hl3 Hfw3 Hks3 _.
  set (s3 := with_tree (with_r s1 r2) t3) in *.
  assert (F3 : Fr NoP XC EP s g s3 g3) by (apply (Fr_new NoP XC EP s g (with_r s1 r2) g t3 g3 fld F2 (fun x Hx => Hx) Hfresh3 Hfw3 Hks3)).
  assert (A3 : at_ s s3 0 1) by (eapply at_new'; [exact A2|exact Hl3|reflexivity]).
  apply wp_bind, wp_get.
  wwrf H3 Hlive3. intros o4 Hg4 Hlo4 H4.
  match type of H4 with FIm md ?st _ => set (s4 := st) in * end.
  assert (F4 : Fr NoP XC EP s g s4 g3) by (apply Fr_tset_fresh; [exact F3|exact Hfresh3]).
  assert (A4 : at_ s s4 0 1) by (apply at_tset; exact A3).
  apply wp_bind. eapply wp_weaken; [apply (readName_go_spec2 False fld (N.to_nat aml_amlNameLen) 0%nat s4 g3 H4 Hlive3)|intros []|].
  intros okn s5 (H5 & A5' & T5 & I5).
  assert (F5 : Fr NoP XC EP s g s5 g3).
  { eapply Fr_gets; [exact F4|]. intros i Hi. apply T5. intros ->. contradiction. }
  assert (A5 : at_ s s5 0 1) by (eapply at_trans0; eauto).
  destruct okn; cbn [negb]; [|eapply (ffail _ s g _ _ _ _ _ l1 (f_appendAfter f)); [exact H5|exact A5|lia|exact Hext3|exact F5|rewrite Hks3; exact Hpos|reflexivity]].
  apply wp_bind. apply wp_pkglen; [apply (fi_rok _ _ H5)|]. intros pkgLen ok r6 Hadv6 Hok6 Hnok6.
  assert (H6 : FIm md (with_r s5 r6) g3) by (apply FI_adv; auto).
  assert (F6 : Fr NoP XC EP s g (with_r s5 r6) g3) by (eapply Fr_tree_eq; [exact F5|reflexivity]).
  destruct ok; cbn [negb]; [|eapply (ffail _ s g _ _ _ _ _ l1 (f_appendAfter f)); [exact H6|apply at_adv0; [exact A5|exact Hadv6]|lia|exact Hext3|exact F6|rewrite Hks3; exact Hpos|reflexivity]].
  destruct (Hok6 eq_refl) as (Hlt6 & _).
  set (s6 := with_r s5 r6) in *.
  assert (A6 : at_ s s6 1 1).
  { replace 1 with (0 + 1) at 1 by reflexivity. apply at_adv; [exact A5|exact Hadv6|lia]. }
  assert (Hcur3 : In curObj (kids g3 par)) by (apply (ge_kids _ _ Hext3); auto).
  assert (Haft3 : In (f_appendAfter f) (kids g3 par)) by (apply (ge_kids _ _ Hext3); auto).
  assert (Hlcur3 : glive g3 curObj) by (apply (ge_live _ _ Hext3); auto).
  assert (Hlpar3 : glive g3 par) by (apply (ge_live _ _ Hext3); auto).
  destruct (FI_live_get _ _ _ H6 Hlcur3) as (co & Hco & Hlco).
  apply wp_bind. apply wp_rdf. exists co. split; [exact Hco|].
  wwrf H6 Hlive3. intros o7 Hg7 Hlo7 H7.
  match type of H7 with FIm md ?st _ => set (s7 := st) in * end.
  assert (F7 : Fr NoP XC EP s g s7 g3) by (apply Fr_tset_fresh; [exact F6|exact Hfresh3]).
  assert (A7 : at_ s s7 1 1) by (apply at_tset; exact A6).
  destruct (R_In_kids _ _ (fi_R _ _ H7) _ _ Hcur3) as (_ & co7 & Hco7 & _ & Hpar7).
  apply wp_bind. apply wp_rdf. exists co7. split; [exact Hco7|]. rewrite Hpar7.
  apply wp_bind. apply wp_objectAt'; [apply (FI_ObjectAt _ _ _ H7 Hlpar3)|].
  apply wp_bind. eapply (appendAfter_step2 _ par fld (f_appendAfter f) s7 g3 g);
    [exact H7|exact Hwf|exact Hext3|exact Hlpar|exact Hfresh3|exact Hlive3|exact Hroot3|exact Haft3|].
  intros t8 H8 Hext8 Hpf8 Hk8 Hk8'.
  assert (Ekp3 : kids g3 par = l1 ++ f_appendAfter f :: tl) by (rewrite Hks3; exact Hpos).
  assert (Ek8 : kids (astep g3 (OpAppendAfter par fld (f_appendAfter f))) par = (l1 ++ [f_appendAfter f]) ++ fld :: tl).
  { rewrite Hk8, Ekp3. rewrite insert_after_split; [rewrite <- app_assoc; reflexivity|].
    destruct (FI_live_get _ _ _ H7 Hlpar3) as (po & Hpo & Hlpo).
    destruct (R_kids _ _ (fi_R _ _ H7) _ _ Hpo Hlpo) as (_ & _ & _ & Hnd). rewrite Ekp3 in Hnd.
    apply NoDup_remove_2 in Hnd. intros Hin. apply Hnd. apply in_or_app. left. exact Hin. }
  assert (F8 : Fr NoP XC EP s g (with_tree s7 t8) (astep g3 (OpAppendAfter par fld (f_appendAfter f)))).
  { apply (Fr_kids_E NoP XC EP s g s7 g3 t8 _ par F7 Hpf8 Hk8'). intros _. reflexivity. }
  assert (Hnf8 : nfrow (with_tree s7 t8) fld).
  { assert (E4 : o4 = fo) by (unfold s3 in Hg4; pcbn_in Hg4; congruence). subst o4.
    assert (E4 : exists o4', tget (p_tree s4) fld = Some o4' /\ o_infoIndex o4' = o_infoIndex fo).
    { unfold s4. pcbn. rewrite get_tset, N.eqb_refl, Hg4. cbn [option_map]. eexists. split; reflexivity. }
    destruct E4 as (o4' & Ho4' & Ei4). destruct (I5 _ Ho4') as (o5 & Ho5 & Ei5).
    assert (E7 : o7 = o5) by (unfold s6 in Hg7; pcbn_in Hg7; congruence). subst o7.
    assert (E7' : exists o7', tget (p_tree s7) fld = Some o7' /\ o_infoIndex o7' = o_infoIndex o5).
    { unfold s7. pcbn. rewrite get_tset, N.eqb_refl, Hg7. cbn [option_map]. eexists. split; reflexivity. }
    destruct E7' as (o7' & Ho7' & Ei7). destruct (proj2 Hpf8 _ _ Ho7') as (o8 & Ho8 & (_ & Ei8 & _)).
    exists o8. split; [exact Ho8|]. rewrite Ei8, Ei7, Ei5, Ei4. exact Hrow3. }
  assert (Hsib8 : sibs g (with_tree s7 t8) (astep g3 (OpAppendAfter par fld (f_appendAfter f))) [fld]).
  { constructor; [|constructor]. split; [exact Hfresh3|]. split.
    - apply ((R_gwf _ _ (fi_R _ _ H8)) par fld). rewrite Ek8. apply in_or_app. right. left. reflexivity.
    - split; [|exact Hnf8]. rewrite Hk8'; [exact Hkids3|]. intros E. apply Hfresh3. rewrite E. exact Hlpar. }
  eapply (frec fuel IH _ s g _ _ _ l1 (f_appendAfter f) (l1 ++ [f_appendAfter f]) [fld]); [exact H8| |reflexivity|exact Hext8| |exact Ek8| |exact F8|exact Hroom|exact Hlcur|exact Hsib8].
  + eapply at_weaken; [apply at_pframe; [exact A7|exact Hpf8]|lia|lia].
  + rewrite Hk8. apply In_insert_after_old. exact Hcur3.
  + cbn [f_appendAfter]. rewrite <- app_assoc. reflexivity.
Qed.

End Field2.

Lemma parseFieldElements_spec2 {md} curObj par l1 tl s g :
  FIm md s g -> kids g par = l1 ++ curObj :: tl -> Phi s + 4 <= InvalidIndex ->
  (exists co lo v, tget (p_tree s) curObj = Some co /\ tget (p_tree s) (o_last co) = Some lo /\
                   o_opcode lo <> opFreed /\ o_value lo = Some (VNum v)) ->
  specm md False (parseFieldElements curObj) s g (fun res s' g' =>
    FPost s res s' /\ Fr NoP (XC curObj) (EP par) s g s' g' /\ exists new, kids g' par = l1 ++ curObj :: new ++ tl /\ sibs g s' g' new).
Proof.
  intros H Hlast Hroom (co & lo & v & Hco & Hlo & Hllo & Hv). unfold specm, parseFieldElements.
  assert (Hcur : In curObj (kids g par)) by (rewrite Hlast; apply in_or_app; right; left; reflexivity).
  apply wp_bind. apply wp_rdf. exists co. split; [exact Hco|].
  apply wp_bind. apply wp_objectAt'.
  { eapply ObjectAt_live; eauto. apply (R_bound _ _ (fi_R _ _ H)). }
  apply wp_bind. apply wp_rdo. exists lo. split; [exact Hlo|]. rewrite Hv.
  apply wp_bind, wp_get.
  eapply wp_weaken; [apply (fieldElements_spec2 md curObj par tl _ _ s g l1)| |].
  - split; [exact H|]. split; [exact Hcur|]. split; [exact Hlast|exact Hroom].
  - intros Hf. pose proof (fi_rok _ _ H) as ((W1 & _) & _). unfold rem in Hf. lia.
  - intros res s' HQ. exact HQ.
Qed.
