(** C11 (fragment proofs): the insertion sort of Aml/Grammar.v gives the same list on permutations. *)
From Coq Require Import NArith List Bool Lia Permutation.
From FF Require Import Aml.Grammar.
Import ListNotations.
Local Open Scope N_scope.

Lemma lexlt_irrefl a : lexlt a a = false.
Proof. induction a as [|x a IH]; [reflexivity|]. cbn [lexlt]. rewrite N.ltb_irrefl. exact IH. Qed.

Lemma lexlt_trans : forall a b c, lexlt a b = true -> lexlt b c = true -> lexlt a c = true.
Proof.
  induction a as [|x a IH]; intros [|y b] [|z c] H1 H2; cbn [lexlt] in *; try discriminate; try reflexivity.
  destruct (N.ltb_spec x y) as [Hxy|Hxy].
  - destruct (N.ltb_spec y z) as [Hyz|Hyz].
    + assert (E : x <? z = true) by (apply N.ltb_lt; lia). rewrite E. reflexivity.
    + destruct (N.ltb_spec z y) as [Hzy|Hzy]; [discriminate|]. assert (y = z) by lia. subst z.
      assert (E : x <? y = true) by (apply N.ltb_lt; lia). rewrite E. reflexivity.
  - destruct (N.ltb_spec y x) as [Hyx|Hyx]; [discriminate|]. assert (x = y) by lia. subst y.
    destruct (N.ltb_spec x z) as [Hxz|Hxz]; [reflexivity|].
    destruct (N.ltb_spec z x) as [Hzx|Hzx]; [discriminate|]. eapply IH; eauto.
Qed.

Lemma lexlt_tri : forall a b, lexlt a b = false -> lexlt b a = false -> a = b.
Proof.
  induction a as [|x a IH]; intros [|y b] H1 H2; cbn [lexlt] in *; try discriminate; try reflexivity.
  destruct (N.ltb_spec x y) as [Hxy|Hxy]; [discriminate|].
  destruct (N.ltb_spec y x) as [Hyx|Hyx]; [discriminate|]. assert (x = y) by lia. subst y. f_equal. apply IH; assumption.
Qed.

Lemma lexlt_asym a b : lexlt a b = true -> lexlt b a = false.
Proof.
  intros H. destruct (lexlt b a) eqn:E; [|reflexivity]. pose proof (lexlt_trans _ _ _ H E) as C. rewrite lexlt_irrefl in C. discriminate.
Qed.

Lemma insert_cons x y l : insert x (y :: l) = if lexlt y x then y :: insert x l else x :: y :: l.
Proof. reflexivity. Qed.

Lemma insert_comm x y : forall l, insert x (insert y l) = insert y (insert x l).
Proof.
  induction l as [|z l IH].
  - cbn [insert]. destruct (lexlt y x) eqn:Eyx.
    + rewrite (lexlt_asym _ _ Eyx). reflexivity.
    + destruct (lexlt x y) eqn:Exy; [reflexivity|]. rewrite (lexlt_tri _ _ Exy Eyx). reflexivity.
  - rewrite (insert_cons y z l), (insert_cons x z l).
    destruct (lexlt z y) eqn:Ezy; destruct (lexlt z x) eqn:Ezx.
    + rewrite !insert_cons, Ezy, Ezx, IH. reflexivity.
    + rewrite !insert_cons, Ezx, Ezy.
      destruct (lexlt x y) eqn:Exy; [reflexivity|]. exfalso.
      destruct (lexlt y x) eqn:Eyx.
      * rewrite (lexlt_trans _ _ _ Ezy Eyx) in Ezx. discriminate.
      * rewrite (lexlt_tri _ _ Exy Eyx) in Ezx. congruence.
    + rewrite !insert_cons, Ezx, Ezy.
      destruct (lexlt y x) eqn:Eyx; [reflexivity|]. exfalso.
      destruct (lexlt x y) eqn:Exy.
      * rewrite (lexlt_trans _ _ _ Ezx Exy) in Ezy. discriminate.
      * rewrite (lexlt_tri _ _ Exy Eyx) in Ezx. congruence.
    + rewrite !insert_cons, Ezx, Ezy.
      destruct (lexlt y x) eqn:Eyx.
      * rewrite (lexlt_asym _ _ Eyx). reflexivity.
      * destruct (lexlt x y) eqn:Exy; [reflexivity|]. rewrite (lexlt_tri _ _ Exy Eyx). reflexivity.
Qed.

Lemma sort_from_perm l l' : Permutation l l' -> forall acc, fold_left (fun a x => insert x a) l acc = fold_left (fun a x => insert x a) l' acc.
Proof.
  induction 1 as [|x l l' Hp IH|x y l|l l' l'' Hp1 IH1 Hp2 IH2]; intros acc; cbn [fold_left].
  - reflexivity.
  - apply IH.
  - rewrite insert_comm. reflexivity.
  - rewrite IH1. apply IH2.
Qed.

Theorem sort_perm l l' : Permutation l l' -> sort l = sort l'.
Proof. intros H. unfold sort. apply sort_from_perm. exact H. Qed.
