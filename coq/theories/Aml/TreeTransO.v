(** pOpcodeTableIndex (parser_opcode_table.go) by translation, and the ties of newObject / newNamedObject /
    CreateDefaultScopes with the oracle for that callee replaced by the TRANSLATED function.  Continuation of Aml/TreeTrans.v.

    gen/gotrans translates pOpcodeTableIndex as a function over the synthetic record [go_aml_world] (an empty trace: the
    function makes no seam calls); the two [256]uint8 lookup arrays and len(pOpcodeTable) are the regenerated constants
    tree_opcodeMap / tree_extendedOpcodeMap / tree_opcodeTableLen of Gen/Consts_aml_tree.v (config "exttables"). *)
From Coq Require Import NArith PeanoNat List Bool Lia ZArith.
From Coq Require Import ZifyBool ZifyN ZifyNat.
From FF Require Import Lib.Word Lib.GoOps Lib.GoPool Gen.Consts_aml_tree Gen.Trans_aml_tree Aml.Stream Aml.Tree
                       Aml.TreeTrans Aml.TreeTransQ.
Import ListNotations.
Local Open Scope N_scope.
Ltac Zify.zify_post_hook ::= Z.div_mod_to_equations.

Theorem pOpcodeTableIndex_is_translation : forall (w : go_aml_world) (opcode : N) (b : bool),
  opcode < 2 ^ 16 ->
  go_aml_pOpcodeTableIndex w opcode b = lift (fun v => (w, v)) (pOpcodeTableIndex opcode b).
Proof.
  intros w opcode b Ho. unfold go_aml_pOpcodeTableIndex, pOpcodeTableIndex, gidx.
  change (2 ^ 16) with 65536 in Ho.
  destruct (N.leb_spec opcode 255) as [le|gt].
  - destruct (nth_error tree_opcodeMap (N.to_nat opcode)); reflexivity.
  - assert (S : gsub 16 opcode 255 = opcode - 255).
    { unfold gsub, gw. change (2 ^ 16) with 65536. lia. }
    rewrite S. destruct (nth_error tree_extendedOpcodeMap (N.to_nat (opcode - 255))) as [index|]; [|reflexivity].
    cbv zeta.
    destruct ((index =? tree_badOpcode) && b); cbn [lift]; [|reflexivity].
    do 2 f_equal. unfold gsub. unfold gw. unfold w8. change two8 with 256.
    assert (L : tree_opcodeTableLen < 65536) by reflexivity.
    change (2 ^ 64) with 18446744073709551616. change (2 ^ 8) with 256. change (0x200 - 0x1fe) with 2.
    lia.
Qed.

(** the translated pOpcodeTableIndex as the callee of the translated newObject *)
Definition trans_oracle (w : go_aml_world) (opc : N) (b : bool) : option N :=
  match go_aml_pOpcodeTableIndex w opc b with GOk (_, v) => Some v | _ => None end.

Lemma trans_oracle_eq : forall w opc b, opc < 2 ^ 16 -> trans_oracle w opc b = table_oracle opc b.
Proof.
  intros w opc b H. unfold trans_oracle, table_oracle. rewrite pOpcodeTableIndex_is_translation by assumption.
  destruct (pOpcodeTableIndex opc b); reflexivity.
Qed.

Section WithValue.
Context {V : Type}.
Notation Tree := (ObjectTree V).

(** the translated newObject applies its oracle to (opcode, true) only *)
Lemma newObject_oracle_ext : forall (g : @go_aml_ObjectTree V) opc th o1 o2,
  o1 opc true = o2 opc true ->
  go_aml_ObjectTree_newObject g opc th o1 = go_aml_ObjectTree_newObject g opc th o2.
Proof. intros g opc th o1 o2 H. unfold go_aml_ObjectTree_newObject. rewrite H. reflexivity. Qed.

Lemma newNamedObject_oracle_ext : forall (g : @go_aml_ObjectTree V) opc th nm o1 o2,
  o1 opc true = o2 opc true ->
  go_aml_ObjectTree_newNamedObject g opc th nm o1 = go_aml_ObjectTree_newNamedObject g opc th nm o2.
Proof.
  intros g opc th nm o1 o2 H. unfold go_aml_ObjectTree_newNamedObject.
  rewrite (newObject_oracle_ext g opc th o1 o2 H). reflexivity.
Qed.

Theorem newObject_is_translation_closed : forall (w : go_aml_world) (t : Tree) (opcode th : N),
  opcode < 2 ^ 16 ->
  go_aml_ObjectTree_newObject (tr_tree t) opcode th (trans_oracle w) =
  lift (fun '(t', p) => (tr_tree t', Some p)) (newObject t opcode th).
Proof.
  intros w t opcode th H. rewrite <- newObject_is_translation.
  apply newObject_oracle_ext. now apply trans_oracle_eq.
Qed.

Theorem newNamedObject_is_translation_closed : forall (w : go_aml_world) (t : Tree) (opcode th : N) (nm : Name),
  opcode < 2 ^ 16 ->
  go_aml_ObjectTree_newNamedObject (tr_tree t) opcode th (name_bytes nm) (trans_oracle w) =
  lift (fun '(t', p) => (tr_tree t', Some p)) (newNamedObject t opcode th nm).
Proof.
  intros w t opcode th nm H. rewrite <- newNamedObject_is_translation.
  apply newNamedObject_oracle_ext. now apply trans_oracle_eq.
Qed.

Theorem CreateDefaultScopes_is_translation_closed : forall (w : go_aml_world) (t : Tree) (th : N),
  go_aml_ObjectTree_CreateDefaultScopes (tr_tree t) th (trans_oracle w) =
  lift (fun t' => (tr_tree t', tt)) (CreateDefaultScopes t th).
Proof.
  intros w t th. rewrite <- CreateDefaultScopes_is_translation.
  unfold go_aml_ObjectTree_CreateDefaultScopes.
  assert (E : forall g th' nm, go_aml_ObjectTree_newNamedObject g tree_pOpIntScopeBlock th' nm (trans_oracle w) =
                               go_aml_ObjectTree_newNamedObject (V := V) g tree_pOpIntScopeBlock th' nm table_oracle).
  { intros. apply newNamedObject_oracle_ext. apply trans_oracle_eq. reflexivity. }
  rewrite !E. reflexivity.
Qed.
End WithValue.
