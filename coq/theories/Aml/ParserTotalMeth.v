(** C12 (stretch): the concrete typing [TM3] of Method objects (ParserTotalShape.v) is an invariant of each of the last two passes of
    ParseAML taken alone (resolveMethodCalls, connectNonNamedObjArgs), from any state with [R], valid indexes, slices inside, the
    []byte typing and a live parentless root; a witness state that holds a Method. *)
From Coq Require Import NArith Arith List Bool Lia.
From Coq Require Import ZifyBool ZifyN ZifyNat.
From FF Require Import Lib.Word Gen.Consts_device_acpi_aml Gen.Consts_aml_tree Aml.Stream Aml.Lex Aml.LexProofs
  Aml.Tree Aml.Parser Aml.ParserProofs Aml.TreeSpec Aml.TreeProofs Aml.TreeProofsOps Aml.TreeProofsFind Aml.TreeProofsAnc
  Aml.ParserTotalTree Aml.ParserTotalTree2 Aml.ParserTotalLex Aml.ParserTotalTable Aml.ParserTotalBase Aml.ParserTotalLeaf
  Aml.ParserTotalFrame Aml.ParserTotalFirst Aml.ParserTotalConn Aml.ParserTotalNonNamed Aml.ParserTotalCalls Aml.ParserTotalReloc
  Aml.ParserTotalMerge Aml.ParserTotalResolve Aml.ParserTotalDefer Aml.ParserTotalDeferW Aml.ParserTotalDeferV
  Aml.ParserTotalTyped Aml.ParserTotalShape Aml.ParserTotalChain Aml.ParserTotalConn2 Aml.ParserTotalPass2
  Aml.ParserTotalBenign Aml.ParserTotalFirst2 Aml.ParserTotalNameLex Aml.ParserTotalGoodPath Aml.ParserTotalPass1 Aml.ParserTotalHandle Aml.ParserTotalLoad.
Import ListNotations.
Local Open Scope N_scope.


Theorem resolveMethodCalls_keeps_TM3 : forall fuel s g,
  R (p_tree s) g -> info_valid (p_tree s) -> pool_ok (p_tables s) (p_tree s) -> typed (p_tree s) ->
  glive g 0 -> groot g 0 -> TM3 (p_tree s) g ->
  match resolveMethodCalls fuel 0 s with
  | Ok (_, s') => exists g', R (p_tree s') g' /\ info_valid (p_tree s') /\ pool_ok (p_tables s') (p_tree s') /\ typed (p_tree s') /\
      glive g' 0 /\ groot g' 0 /\ TM3 (p_tree s') g'
  | Panic => False
  | OutOfFuel => True
  end.
Proof.
  intros fuel s g HR Hi Hp Hty H0 Hroot HTM.
  pose proof (proj1 (calls_all TM3 TM3_move TM3_upd fuel) 0 s g None [] [] (mkTI _ _ HR Hi Hp) Hty H0 H0 (conj Hroot eq_refl) HTM) as W. unfold wp in W.
  destruct (resolveMethodCalls fuel 0 s) as [[r s']| |]; auto.
  destruct W as (g' & m2' & ([A B C] & Hrel & _ & Hroots & D & E) & _ & _). exists g'. repeat (split; [assumption|]).
  split; [apply (reloc_glive _ _ _ 0 Hrel); exact H0|]. split; [apply Hroots; exact Hroot|exact E].
Qed.

Theorem connectNonNamedObjArgs_keeps_TM3 : forall fuel s g,
  R (p_tree s) g -> info_valid (p_tree s) -> pool_ok (p_tables s) (p_tree s) -> typed (p_tree s) ->
  glive g 0 -> groot g 0 -> TM3 (p_tree s) g ->
  match connectNonNamedObjArgs fuel 0 s with
  | Ok (_, s') => exists g', R (p_tree s') g' /\ info_valid (p_tree s') /\ pool_ok (p_tables s') (p_tree s') /\ typed (p_tree s') /\
      glive g' 0 /\ groot g' 0 /\ TM3 (p_tree s') g'
  | Panic => False
  | OutOfFuel => True
  end.
Proof.
  intros fuel s g HR Hi Hp Hty H0 Hroot HTM.
  pose proof (proj1 (nonNamed_all TM3 TM3_move fuel) 0 s g None [] [] (mkTI _ _ HR Hi Hp) H0 (conj Hroot eq_refl) HTM) as W. unfold wp in W.
  destruct (connectNonNamedObjArgs fuel 0 s) as [[r s']| |]; auto.
  destruct W as (g' & m2' & ([A B C] & Hrel & _ & Hroots & Hpf & E) & _ & _). exists g'. repeat (split; [assumption|]).
  split; [eapply typed_pframe; eauto|]. split; [apply (reloc_glive _ _ _ 0 Hrel); exact H0|]. split; [apply Hroots; exact Hroot|exact E].
Qed.


(** ---- the hypotheses are satisfiable: a pool with a root scope and one Method (name path, flags byte); both passes return ok ---- *)
Definition mx_ops : list op :=
  [ OpNewNamed opScopeBlock 0 (name_of_list [0x5c; 0; 0; 0]);
    OpNew aml_pOpMethod 0; OpAppend 0 1;
    OpNew aml_pOpIntNamePath 0; OpAppend 1 2;
    OpNew aml_pOpBytePrefix 0; OpAppend 1 3 ].
Definition mx_tree0 : T := match run (@NewObjectTree value) mx_ops with Ok t => t | _ => NewObjectTree end.
Definition mx_tree : T := Eval vm_compute in tset mx_tree0 3 (set_value (Some (VNum 0))).
Definition mx_ghost : ghost := Eval vm_compute in arun ghost0 mx_ops.
Definition mx_state : pstate := mkP (init_reader [] 0) mx_tree [] [] 0 0 0 0 false 1 [].

Lemma mx_legal : legal_seq ghost0 mx_ops.
Proof.
  unfold mx_ops. cbn [legal_seq legal].
  split; [ds_new|]. split; [ds_new|]. split; [ds_app|]. split; [ds_new|]. split; [ds_app|]. split; [ds_new|]. split; [ds_app|]. exact I.
Qed.

Lemma mx_R : R mx_tree mx_ghost.
Proof.
  destruct (run_R mx_ops (@NewObjectTree value) ghost0 R_empty mx_legal) as (t' & Hrun & HR').
  change mx_tree with (tset mx_tree0 3 (set_value (Some (VNum 0)))). change mx_ghost with (arun ghost0 mx_ops).
  apply R_tset_lk; [unfold mx_tree0; rewrite Hrun; exact HR'|].
  intros o _. unfold lk_eq. cbn [o_opcode o_index o_parent o_prev o_next o_first o_last set_value]. repeat split; auto.
Qed.

Ltac mx_cases n Hn o tac :=
  do 4 (destruct n as [|n]; [vm_compute in Hn; inversion Hn; subst o; clear Hn; solve [tac]|]); vm_compute in Hn; destruct n; discriminate.

Lemma mx_hyps :
  R (p_tree mx_state) mx_ghost /\ info_valid (p_tree mx_state) /\ pool_ok (p_tables mx_state) (p_tree mx_state) /\ typed (p_tree mx_state) /\
  glive mx_ghost 0 /\ groot mx_ghost 0 /\ TM3 (p_tree mx_state) mx_ghost /\
  (exists m mo, tget (p_tree mx_state) m = Some mo /\ o_opcode mo = aml_pOpMethod) /\
  match resolveMethodCalls 10 0 mx_state with Ok (r, _) => r = ROk | _ => False end /\
  match connectNonNamedObjArgs 10 0 mx_state with Ok (r, _) => r = ROk | _ => False end.
Proof.
  change (p_tree mx_state) with mx_tree. change (p_tables mx_state) with (@nil (list N)).
  split; [exact mx_R|].
  split; [unfold info_valid; apply (pool_cases mx_tree (fun i o => o_opcode o <> opFreed -> opInfo (o_infoIndex o) <> None)); intros n o Hn _;
          mx_cases n Hn o ltac:(vm_compute; discriminate)|].
  split.
  { unfold pool_ok. rewrite Forall_forall. intros o Hin. destruct (In_nth_error _ _ Hin) as (n & Hn). mx_cases n Hn o ltac:(exact I). }
  split; [unfold typed; apply (pool_cases mx_tree (fun i o => o_opcode o <> opFreed -> o_opcode o = aml_pOpIntNamePathOrMethodCall -> exists tbl sl, o_value o = Some (VBytes tbl sl)));
          intros n o Hn _ Hop; mx_cases n Hn o ltac:(vm_compute in Hop; discriminate)|].
  split; [split; [vm_compute; reflexivity|vm_compute; intuition discriminate]|].
  split; [apply groot_chk; vm_compute; reflexivity|].
  split.
  { unfold TM3. apply (pool_cases mx_tree (fun m mo => o_opcode mo = aml_pOpMethod -> mtyped3 mx_tree mx_ghost m)). intros n o Hn Hop.
    destruct n as [|n]; [vm_compute in Hn; inversion Hn; subst o; vm_compute in Hop; discriminate|].
    destruct n as [|n].
    - eexists 2, 3, [], _, _, 0. split; [vm_compute; reflexivity|]. split; [vm_compute; reflexivity|].
      split; [vm_compute; reflexivity|]. split; [vm_compute; reflexivity|]. split; [vm_compute; reflexivity|].
      split; [vm_compute; reflexivity|]. split; [vm_compute; reflexivity|]. split; vm_compute; reflexivity.
    - do 2 (destruct n as [|n]; [vm_compute in Hn; inversion Hn; subst o; vm_compute in Hop; discriminate|]). vm_compute in Hn. destruct n; discriminate. }
  split; [eexists 1, _; split; vm_compute; reflexivity|].
  split; vm_compute; reflexivity.
Qed.
