(** C12 (stretch): the CONCRETE typing of Method objects - first child a childless pOpIntNamePath object with the name-path row, second
    child a pOpBytePrefix object with its row and a number ([TM3]) - implies [TM2] and, unlike [TM2], IS an invariant of the last two
    passes of ParseAML (resolveMethodCalls, connectNonNamedObjArgs): it satisfies the hypotheses [Kmove] / [Kupd] of the abstract
    invariant threaded through ParserTotalNonNamed.v / ParserTotalCalls.v. *)
From Coq Require Import NArith Arith List Bool Lia.
From Coq Require Import ZifyBool ZifyN ZifyNat.
From FF Require Import Lib.Word Gen.Consts_device_acpi_aml Gen.Consts_aml_tree Aml.Stream Aml.Lex Aml.LexProofs
  Aml.Tree Aml.Parser Aml.ParserProofs Aml.TreeSpec Aml.TreeProofs Aml.TreeProofsOps Aml.TreeProofsFind Aml.TreeProofsAnc
  Aml.ParserTotalTree Aml.ParserTotalTree2 Aml.ParserTotalLex Aml.ParserTotalTable Aml.ParserTotalBase Aml.ParserTotalLeaf
  Aml.ParserTotalFrame Aml.ParserTotalFirst Aml.ParserTotalConn Aml.ParserTotalNonNamed Aml.ParserTotalCalls Aml.ParserTotalReloc
  Aml.ParserTotalMerge Aml.ParserTotalResolve Aml.ParserTotalDefer Aml.ParserTotalDeferW Aml.ParserTotalDeferV
  Aml.ParserTotalTyped Aml.ParserTotalShape Aml.ParserTotalChain Aml.ParserTotalConn2 Aml.ParserTotalPass2
  Aml.ParserTotalBenign Aml.ParserTotalFirst2 Aml.ParserTotalNameLex Aml.ParserTotalGoodPath Aml.ParserTotalPass1 Aml.ParserTotalHandle Aml.ParserTotalLoad.
Import ListNotations.
Local Open Scope N_scope.

Definition bpIdx : N := match opcodeTableIndex aml_pOpBytePrefix true with Some i => i | None => 0 end.

Definition mtyped3 (t : T) (g : ghost) (m : N) : Prop :=
  exists a0 a1 rest a0o a1o v, kids g m = a0 :: a1 :: rest /\
    tget t a0 = Some a0o /\ o_opcode a0o = aml_pOpIntNamePath /\ o_infoIndex a0o = npIdx /\ kids g a0 = [] /\
    tget t a1 = Some a1o /\ o_opcode a1o = aml_pOpBytePrefix /\ o_infoIndex a1o = bpIdx /\ o_value a1o = Some (VNum v).

Definition TM3 (t : T) (g : ghost) : Prop :=
  forall m mo, tget t m = Some mo -> o_opcode mo = aml_pOpMethod -> mtyped3 t g m.

Lemma TM3_TM2 t g : TM3 t g -> TM2 t g.
Proof.
  intros H m mo Hm Hop. destruct (H m mo Hm Hop) as (a0 & a1 & rest & a0o & a1o & v & K1 & K2 & K3 & K4 & _ & K6 & K7 & K8 & K9).
  exists a0, a1, rest, a0o, a1o, v. split; [exact K1|]. split; [exact K2|].
  split; [apply namepath_plain; [exact K3|unfold rowis; rewrite K4; vm_compute; reflexivity]|]. split; [exact K6|]. split; [exact K9|].
  apply byteprefix_plain; [exact K7|unfold rowis; rewrite K8; vm_compute; reflexivity].
Qed.

Lemma TM3_move : Kmove TM3.
Proof.
  intros s g par x target pre post t2 HT HK Hkp Hlt Hne (to & Hto & Htn) Hprev g2 HT2 Hk2p Hk2t Hk2o Hpf m mo2 Hm2 Hop2.
  destruct (pframe_inv _ _ _ _ Hpf Hm2) as (mo & Hm & (E1 & _)).
  assert (Hop : o_opcode mo = aml_pOpMethod) by congruence.
  destruct (HK m mo Hm Hop) as (a0 & a1 & rest & a0o & a1o & v & K1 & K2 & K3 & K4 & K5 & K6 & K7 & K8 & K9).
  assert (Ha0t : a0 <> target) by (intros ->; assert (a0o = to) by congruence; subst; contradiction).
  assert (Ha0p : a0 <> par) by (intros ->; rewrite K5 in Hkp; destruct pre; discriminate).
  destruct (proj2 Hpf _ _ K2) as (a0o2 & K2' & (F1 & F2 & _)).
  destruct (proj2 Hpf _ _ K6) as (a1o2 & K6' & (G1 & G2 & _ & _ & _ & _ & _ & G8)).
  assert (Hkm : exists rest', kids g2 m = a0 :: a1 :: rest').
  { destruct (N.eq_dec m par) as [->|Hmp].
    - rewrite Hk2p. rewrite K1 in Hkp. destruct pre as [|p0 [|p1 pre'']].
      + exfalso. destruct Hprev as [(pre' & E)|(pre' & P & l1 & E & _)]; destruct pre'; discriminate.
      + exfalso. cbn [app] in Hkp. injection Hkp as E0 E1' _. subst p0 x.
        destruct Hprev as [(pre' & E)|(pre' & P & l1 & E & HkP)].
        * destruct pre' as [|q pre']; [injection E as E; apply Ha0t; exact E|destruct pre'; discriminate].
        * destruct pre' as [|q pre']; [injection E as E; subst P; rewrite K5 in HkP; destruct l1; discriminate|destruct pre'; discriminate].
      + cbn [app] in Hkp. injection Hkp as E0 E1' _. subst p0 p1. cbn [app]. eexists. reflexivity.
    - destruct (N.eq_dec m target) as [->|Hmt].
      + rewrite Hk2t, K1. cbn [app]. eexists. reflexivity.
      + rewrite (Hk2o m Hmp Hmt). exists rest. exact K1. }
  destruct Hkm as (rest' & Hkm).
  exists a0, a1, rest', a0o2, a1o2, v. split; [exact Hkm|]. split; [exact K2'|]. split; [congruence|]. split; [congruence|].
  split; [rewrite (Hk2o a0 Ha0p Ha0t); exact K5|]. split; [exact K6'|]. split; [congruence|]. split; [congruence|congruence].
Qed.

Lemma TM3_upd : Kupd TM3.
Proof.
  intros t g p o f HR HK Ho Hop Hnm Hnn m mo2 Hm2 Hop2.
  rewrite get_tset in Hm2. destruct (N.eqb_spec m p) as [->|Hmp].
  { rewrite Ho in Hm2. cbn [option_map] in Hm2. inversion Hm2; subst mo2. contradiction. }
  destruct (HK m mo2 Hm2 Hop2) as (a0 & a1 & rest & a0o & a1o & v & K1 & K2 & K3 & K4 & K5 & K6 & K7 & K8 & K9).
  assert (Ha0 : a0 <> p) by (intros ->; assert (a0o = o) by congruence; subst; rewrite Hop in K3; vm_compute in K3; discriminate).
  assert (Ha1 : a1 <> p) by (intros ->; assert (a1o = o) by congruence; subst; rewrite Hop in K7; vm_compute in K7; discriminate).
  exists a0, a1, rest, a0o, a1o, v. rewrite !get_tset.
  apply N.eqb_neq in Ha0. apply N.eqb_neq in Ha1. rewrite Ha0, Ha1. repeat (split; [assumption|]). assumption.
Qed.

(** the last two passes keep the concrete Method typing *)
Theorem resolveMethodCalls_keeps_TM3 : forall fuel s g,
  R (p_tree s) g -> info_valid (p_tree s) -> pool_ok (p_tables s) (p_tree s) -> typed (p_tree s) ->
  glive g 0 -> groot g 0 -> TM3 (p_tree s) g ->
  match resolveMethodCalls fuel 0 s with
  | Ok (_, s') => exists g', R (p_tree s') g' /\ info_valid (p_tree s') /\ pool_ok (p_tables s') (p_tree s') /\ typed (p_tree s') /\
      glive g' 0 /\ groot g' 0 /\ TM3 (p_tree s') g'
  | Panic => False
  | OutOfFuel => True
  end.
Proof.
  intros fuel s g HR Hi Hp Hty H0 Hroot HTM.
  pose proof (proj1 (calls_all TM3 TM3_move TM3_upd fuel) 0 s g None [] [] (mkTI _ _ HR Hi Hp) Hty H0 H0 (conj Hroot eq_refl) HTM) as W. unfold wp in W.
  destruct (resolveMethodCalls fuel 0 s) as [[r s']| |]; auto.
  destruct W as (g' & m2' & [A B C] & Hrel & _ & Hroots & D & E). exists g'. repeat (split; [assumption|]).
  split; [apply (reloc_glive _ _ _ 0 Hrel); exact H0|]. split; [apply Hroots; exact Hroot|exact E].
Qed.

Theorem connectNonNamedObjArgs_keeps_TM3 : forall fuel s g,
  R (p_tree s) g -> info_valid (p_tree s) -> pool_ok (p_tables s) (p_tree s) -> typed (p_tree s) ->
  glive g 0 -> groot g 0 -> TM3 (p_tree s) g ->
  match connectNonNamedObjArgs fuel 0 s with
  | Ok (_, s') => exists g', R (p_tree s') g' /\ info_valid (p_tree s') /\ pool_ok (p_tables s') (p_tree s') /\ typed (p_tree s') /\
      glive g' 0 /\ groot g' 0 /\ TM3 (p_tree s') g'
  | Panic => False
  | OutOfFuel => True
  end.
Proof.
  intros fuel s g HR Hi Hp Hty H0 Hroot HTM.
  pose proof (proj1 (nonNamed_all TM3 TM3_move fuel) 0 s g None [] [] (mkTI _ _ HR Hi Hp) H0 (conj Hroot eq_refl) HTM) as W. unfold wp in W.
  destruct (connectNonNamedObjArgs fuel 0 s) as [[r s']| |]; auto.
  destruct W as (g' & m2' & [A B C] & Hrel & _ & Hroots & Hpf & E). exists g'. repeat (split; [assumption|]).
  split; [eapply typed_pframe; eauto|]. split; [apply (reloc_glive _ _ _ 0 Hrel); exact H0|]. split; [apply Hroots; exact Hroot|exact E].
Qed.

(** ---- TM3 through the resolve loop: the abstract invariant [KS3] = [KS] /\ [TM3] ---- *)
Definition KS3 (s : pstate) (g : ghost) : Prop := KS s g /\ TM3 (p_tree s) g.

Lemma np_not_named (o : Obj) op fl af : o_infoIndex o = npIdx -> opInfo (o_infoIndex o) = Some (op, fl, af) -> hasFlag fl aml_pOpFlagNamed = false.
Proof. intros E H. rewrite E in H. vm_compute in H. injection H as _ <- _. reflexivity. Qed.
Lemma bp_not_named (o : Obj) op fl af : o_infoIndex o = bpIdx -> opInfo (o_infoIndex o) = Some (op, fl, af) -> hasFlag fl aml_pOpFlagNamed = false.
Proof. intros E H. rewrite E in H. vm_compute in H. injection H as _ <- _. reflexivity. Qed.

(** a rearrangement that keeps payloads (but for values outside the flags arguments) and the child lists of Methods and of their name paths *)
Lemma TM3_step (t t2 : T) g g2 :
  TM3 t g ->
  (forall i o2, tget t2 i = Some o2 -> exists o, tget t i = Some o /\ sameobj o o2) ->
  (forall i o, tget t i = Some o -> exists o2, tget t2 i = Some o2 /\ sameobj o o2) ->
  (forall m mo a0 a1 rest a1o, tget t m = Some mo -> o_opcode mo = aml_pOpMethod -> kids g m = a0 :: a1 :: rest -> kids g a0 = [] ->
     tget t a1 = Some a1o ->
     (exists rest', kids g2 m = a0 :: a1 :: rest') /\ kids g2 a0 = [] /\ (forall a1o2, tget t2 a1 = Some a1o2 -> o_value a1o2 = o_value a1o)) ->
  TM3 t2 g2.
Proof.
  intros H Hb Hf Hm m mo2 Hg2 Hop2. destruct (Hb m mo2 Hg2) as (mo & Hg & (E1 & _)).
  assert (Hop : o_opcode mo = aml_pOpMethod) by congruence.
  destruct (H m mo Hg Hop) as (a0 & a1 & rest & a0o & a1o & v & K1 & K2 & K3 & K4 & K5 & K6 & K7 & K8 & K9).
  destruct (Hm m mo a0 a1 rest a1o Hg Hop K1 K5 K6) as ((rest' & K1') & K5' & Hv).
  destruct (Hf a0 a0o K2) as (a0o2 & K2' & (F1 & F2 & _)). destruct (Hf a1 a1o K6) as (a1o2 & K6' & (G1 & G2 & _)).
  exists a0, a1, rest', a0o2, a1o2, v. split; [exact K1'|]. split; [exact K2'|]. split; [congruence|]. split; [congruence|]. split; [exact K5'|].
  split; [exact K6'|]. split; [congruence|]. split; [congruence|]. rewrite (Hv a1o2 K6'). exact K9.
Qed.

Lemma KS3_counters s g a b c : KS3 s g -> KS3 (with_counters s a b c) g.
Proof. intros H. exact H. Qed.

Lemma KS3_move s g c m tg (t2 : T) g2 : TI s g -> KS3 s g -> In m (kids g c) -> is_sb s c -> is_sb s tg ->
  pframe (p_tree s) t2 -> shape_eq g g2 ->
  (forall q, kids g2 q = (if q =? c then remove1 m (kids g c) else kids g q) ++ (if q =? tg then [m] else [])) ->
  KS3 (with_tree s t2) g2.
Proof.
  intros HT (HKS & HTM) Hin Hc Htg Hpf S2 Hk. split; [apply (KS_move s g c m tg t2 g2 HT HKS Hin Hc Htg Hpf S2 Hk)|].
  cbn [p_tree with_tree]. eapply TM3_step; [exact HTM|apply pframe_back; exact Hpf|apply pframe_fwd; exact Hpf|].
  intros m' mo a0 a1 rest a1o Hm' Hop Hkm Hk0 Ha1.
  assert (Hsame : forall q qo, tget (p_tree s) q = Some qo -> o_opcode qo <> aml_pOpIntScopeBlock -> kids g2 q = kids g q).
  { intros q qo Hq Hne. rewrite Hk.
    destruct (N.eqb_spec q c) as [->|_]; [exfalso; destruct Hc as (o' & Ho' & E); assert (o' = qo) by congruence; subst; contradiction|].
    destruct (N.eqb_spec q tg) as [->|_]; [exfalso; destruct Htg as (o' & Ho' & E); assert (o' = qo) by congruence; subst; contradiction|].
    apply app_nil_r. }
  destruct (HTM m' mo Hm' Hop) as (b0 & b1 & r & b0o & b1o & w & K1 & K2 & K3 & _).
  rewrite Hkm in K1. injection K1 as <- <- <-.
  split; [exists rest; rewrite (Hsame m' mo Hm'); [exact Hkm|rewrite Hop; discriminate]|].
  split; [rewrite (Hsame a0 b0o K2); [exact Hk0|rewrite K3; discriminate]|].
  intros a1o2 Ha12. destruct (proj2 Hpf _ _ Ha1) as (o' & Ho' & E). assert (o' = a1o2) by congruence. subst.
  destruct E as (_ & _ & _ & _ & _ & _ & _ & E8). exact E8.
Qed.

Lemma KS3_free s g y (t' : T) g' : TI s g -> KS3 s g -> glive g y -> kids g y = [] -> scoped s g y ->
  fframe y (p_tree s) t' -> (forall p, kids g' p = remove1 y (kids g p)) ->
  (forall z, glive g' z <-> glive g z /\ z <> y) -> (forall o', tget t' y = Some o' -> o_opcode o' = opFreed) ->
  KS3 (with_tree s t') g'.
Proof.
  intros HT (HKS & HTM) Hly Hky Hsc Hff Hk Hl' Hfr. split; [apply (KS_free s g y t' g' HT HKS Hly Hky Hsc Hff Hk Hl' Hfr)|].
  pose proof (ti_R _ _ HT) as HR. cbn [p_tree with_tree]. intros m mo2 Hg2 Hop2.
  assert (Hmy : m <> y) by (intros ->; rewrite (Hfr _ Hg2) in Hop2; discriminate).
  destruct (fframe_back _ _ _ Hff m mo2 Hmy Hg2) as (mo & Hg & (E1 & _)).
  assert (Hop : o_opcode mo = aml_pOpMethod) by congruence.
  destruct (HTM m mo Hg Hop) as (a0 & a1 & rest & a0o & a1o & v & K1 & K2 & K3 & K4 & K5 & K6 & K7 & K8 & K9).
  assert (Hny : forall a ao, In a (kids g m) -> tget (p_tree s) a = Some ao -> o_opcode ao <> aml_pOpScope -> y <> a).
  { intros a ao Hin Ha Hns ->. destruct Hsc as [(yo & Hyo & Eyo)|(d & dobj & Hind & Hd & Ed)].
    - assert (yo = ao) by congruence. subst. contradiction.
    - assert (d = m) by (eapply (R_parent_unique _ _ HR); eauto). subst d. assert (dobj = mo) by congruence. subst.
      rewrite Hop in Ed. discriminate. }
  assert (H0 : y <> a0) by (apply (Hny a0 a0o); [rewrite K1; left; reflexivity|exact K2|rewrite K3; discriminate]).
  assert (H1 : y <> a1) by (apply (Hny a1 a1o); [rewrite K1; right; left; reflexivity|exact K6|rewrite K7; discriminate]).
  destruct (proj2 Hff _ _ K2) as (a0o2 & K2' & _ & F0). destruct (proj2 Hff _ _ K6) as (a1o2 & K6' & V1 & F1).
  destruct (F0 (not_eq_sym H0)) as (A1 & A2 & _). destruct (F1 (not_eq_sym H1)) as (B1 & B2 & _).
  exists a0, a1, (remove1 y rest), a0o2, a1o2, v. split; [rewrite Hk, K1; apply remove1_two; auto|].
  split; [exact K2'|]. split; [congruence|]. split; [congruence|]. split; [rewrite Hk, K5; reflexivity|].
  split; [exact K6'|]. split; [congruence|]. split; [congruence|]. rewrite V1. exact K9.
Qed.

Lemma KS3_reloc s g x xo op fl af par tg (t2 : T) g2 v :
  TI s g -> KS3 s g -> tget (p_tree s) x = Some xo -> opInfo (o_infoIndex xo) = Some (op, fl, af) ->
  hasFlag fl aml_pOpFlagNamed = true -> o_opcode xo <> aml_pOpIntScopeBlock -> o_tableHandle xo = p_handle s ->
  In x (kids g par) -> is_sb s tg -> glive g tg -> kids g x <> [] ->
  pframe (p_tree s) t2 -> shape_eq g g2 -> roots_iff g g2 ->
  (forall q, kids g2 q = (if q =? par then remove1 x (kids g par) else kids g q) ++ (if q =? tg then [x] else [])) ->
  KS3 (with_tree s (tset t2 (hd InvalidIndex (kids g x)) (set_value v))) g2.
Proof.
  intros HT (HKS & HTM) Hxo Erow Enamed Hnsb Hh Hin Htg Hltg Hkx Hpf S2 R2 Hk.
  split; [apply (KS_reloc s g x xo op fl af par tg t2 g2 v HT HKS Hxo Erow Enamed Hnsb Hh Hin Htg Hltg Hkx Hpf S2 R2 Hk)|].
  pose proof (ti_R _ _ HT) as HR.
  set (n := hd InvalidIndex (kids g x)).
  assert (Hn_in : In n (kids g x)) by (unfold n; destruct (kids g x); [contradiction|left; reflexivity]).
  assert (Hback : forall i o2, tget (tset t2 n (set_value v)) i = Some o2 -> exists o, tget (p_tree s) i = Some o /\ sameobj o o2).
  { intros i o2 Hg. rewrite get_tset in Hg. destruct (N.eqb_spec i n) as [->|Hne].
    - destruct (tget t2 n) as [o'|] eqn:E2; [|discriminate]. cbn [option_map] in Hg. inversion Hg; subst o2.
      destruct (pframe_back _ _ Hpf n o' E2) as (o & Ho & So). exists o. split; [exact Ho|exact So].
    - apply (pframe_back _ _ Hpf i o2 Hg). }
  assert (Hfwd : forall i o, tget (p_tree s) i = Some o -> exists o2, tget (tset t2 n (set_value v)) i = Some o2 /\ sameobj o o2 /\
                                                              (i <> n -> o_value o2 = o_value o)).
  { intros i o Ho. destruct (proj2 Hpf _ _ Ho) as (o' & Ho' & E). rewrite get_tset, Ho'. cbn [option_map].
    destruct (N.eqb_spec i n) as [->|Hne].
    - eexists. split; [reflexivity|]. split; [apply (pay_same _ _ E)|intros F; contradiction].
    - exists o'. split; [reflexivity|]. split; [apply pay_same; exact E|]. intros _. destruct E as (_ & _ & _ & _ & _ & _ & _ & E8). exact E8. }
  cbn [p_tree with_tree]. eapply TM3_step; [exact HTM|exact Hback| |].
  - intros i o Ho. destruct (Hfwd i o Ho) as (o2 & Ho2 & So & _). eauto.
  - intros m mo a0 a1 rest a1o Hm Hop Hkm Hk0 Ha1.
    destruct (HTM m mo Hm Hop) as (b0 & b1 & r & b0o & b1o & w & K1 & K2 & K3 & K4 & K5 & K6 & K7 & K8 & K9).
    rewrite Hkm in K1. injection K1 as <- <- <-.
    assert (Hx0 : x <> a0).
    { intros ->. assert (b0o = xo) by congruence. subst. rewrite (np_not_named _ _ _ _ K4 Erow) in Enamed. discriminate. }
    assert (Hx1 : x <> a1).
    { intros ->. assert (b1o = xo) by congruence. subst. rewrite (bp_not_named _ _ _ _ K8 Erow) in Enamed. discriminate. }
    assert (Emt : (m =? tg) = false) by (apply N.eqb_neq; intros ->; exact (is_sb_not_method s tg mo Htg Hm Hop)).
    split; [|split].
    + rewrite Hk, Emt, app_nil_r. destruct (N.eqb_spec m par) as [->|_]; [|exists rest; exact Hkm].
      rewrite Hkm. rewrite remove1_two; auto. eexists. reflexivity.
    + rewrite Hk.
      assert (E0p : (a0 =? par) = false) by (apply N.eqb_neq; intros ->; rewrite Hk0 in Hin; contradiction).
      assert (E0t : (a0 =? tg) = false).
      { apply N.eqb_neq. intros ->. destruct Htg as (o' & Ho' & E). assert (o' = b0o) by congruence. subst. rewrite K3 in E. discriminate. }
      rewrite E0p, E0t, app_nil_r. exact Hk0.
    + intros a1o2 Ha12. destruct (Hfwd a1 a1o Ha1) as (o2 & Ho2 & _ & Hv). assert (o2 = a1o2) by congruence. subst. apply Hv.
      intros E.
      assert (Exm : x = m).
      { eapply (R_parent_unique _ _ HR); [exact Hn_in|]. rewrite <- E, Hkm. right. left. reflexivity. }
      assert (E' : a1 = a0) by (rewrite E; unfold n; rewrite Exm, Hkm; reflexivity).
      assert (Hlmo : o_opcode mo <> opFreed) by (rewrite Hop; discriminate).
      destruct (R_kids _ _ HR _ _ Hm Hlmo) as (_ & _ & _ & Hnd). rewrite Hkm in Hnd.
      apply NoDup_cons_iff in Hnd. destruct Hnd as (Hni & _). apply Hni. left. exact E'.
Qed.

Lemma KS3_loop : forall wf fuel s g, MI KS3 NoX s g ->
  wp True (resolve_loop fuel wf) s (fun _ s' => exists g', MI KS3 NoX s' g').
Proof. exact (resolve_loop_MI KS3 KS3_counters KS3_move KS3_free KS3_reloc). Qed.

(** ---- TM3 through connectNamedObjArgs: the abstract invariant [SH3] = [SH] /\ [TM3] ---- *)
Definition SH3 (s : pstate) (g : ghost) : Prop := SH s g /\ TM3 (p_tree s) g.

Lemma SH3_setname s g a nm : TI s g -> SH3 s g -> tgt_ok s g a -> SH3 (with_tree s (tset (p_tree s) a (set_name nm))) g.
Proof.
  intros HT (HS & HTM) Hok. split; [apply SH_setname; assumption|].
  cbn [p_tree with_tree]. set (t2 := tset (p_tree s) a (set_name nm)).
  assert (Hfwd : forall i o, tget (p_tree s) i = Some o -> exists o2, tget t2 i = Some o2 /\ sameobj o o2 /\ o_value o2 = o_value o).
  { intros i o Ho. unfold t2. rewrite get_tset, Ho. cbn [option_map]. destruct (i =? a); eexists; (split; [reflexivity|]); split; try reflexivity; repeat split. }
  assert (Hback : forall i o2, tget t2 i = Some o2 -> exists o, tget (p_tree s) i = Some o /\ sameobj o o2).
  { intros i o2 Hg. unfold t2 in Hg. rewrite get_tset in Hg. destruct (tget (p_tree s) i) as [o|] eqn:E; [|destruct (i =? a); discriminate].
    exists o. split; [reflexivity|]. destruct (i =? a); cbn [option_map] in Hg; inversion Hg; subst o2; repeat split. }
  eapply TM3_step; [exact HTM|exact Hback| |].
  - intros i o Ho. destruct (Hfwd i o Ho) as (o2 & Ho2 & So & _). eauto.
  - intros m mo a0 a1 rest a1o Hm Hop Hkm Hk0 Ha1. split; [exists rest; exact Hkm|]. split; [exact Hk0|].
    intros a1o2 Ha12. destruct (Hfwd a1 a1o Ha1) as (o2 & Ho2 & _ & Hv). assert (o2 = a1o2) by congruence. subst. exact Hv.
Qed.

Lemma SH3_attach s g parent target sib l1 l2 (t2 : T) g2 : TI s g -> SH3 s g ->
  kids g parent = l1 ++ target :: sib :: l2 -> tgt_ok s g target ->
  pframe (p_tree s) t2 -> shape_eq g g2 -> roots_iff g g2 ->
  (forall q, kids g2 q = (if q =? parent then remove1 sib (kids g parent) else kids g q) ++ (if q =? target then [sib] else [])) ->
  SH3 (with_tree s t2) g2.
Proof.
  intros HT (HS & HTM) Hkp Hok Hpf S2 R2 Hk. split; [eapply SH_attach; eauto|].
  destruct Hok as (ao & op & fl & af & Hao & Erow & En & Eh & Eo & Ek).
  pose proof (ti_R _ _ HT) as HR.
  assert (Hin_t : In target (kids g parent)) by (rewrite Hkp; apply in_or_app; right; left; reflexivity).
  destruct (TI_live_get _ _ _ HT (proj1 ((R_gwf _ _ HR) _ _ Hin_t))) as (po & Hpo & Hlpo).
  destruct (R_kids _ _ HR _ _ Hpo Hlpo) as (_ & _ & _ & Hnd). rewrite Hkp in Hnd.
  cbn [p_tree with_tree]. eapply TM3_step; [exact HTM|apply pframe_back; exact Hpf|apply pframe_fwd; exact Hpf|].
  intros m mo a0 a1 rest a1o Hm Hop Hkm Hk0 Ha1.
  destruct (HTM m mo Hm Hop) as (b0 & b1 & r & b0o & b1o & w & K1 & K2 & K3 & K4 & K5 & K6 & K7 & K8 & K9).
  rewrite Hkm in K1. injection K1 as <- <- <-.
  assert (Ht0 : target <> a0) by (intros ->; assert (b0o = ao) by congruence; subst; rewrite (np_not_named _ _ _ _ K4 Erow) in En; discriminate).
  assert (Ht1 : target <> a1) by (intros ->; assert (b1o = ao) by congruence; subst; rewrite (bp_not_named _ _ _ _ K8 Erow) in En; discriminate).
  split; [|split].
  - rewrite Hk. destruct (N.eqb_spec m parent) as [->|Hmp].
    + assert (Hs0 : sib <> a0 /\ sib <> a1).
      { rewrite Hkp in Hkm. destruct l1 as [|b l1']; cbn [app] in Hkm.
        - injection Hkm as E0 _ _. exfalso. apply Ht0. exact E0.
        - injection Hkm as E0 Hkm'. subst b. cbn [app] in Hnd. apply NoDup_cons_iff in Hnd. destruct Hnd as (Hn0 & Hnd').
          split; [intros E; apply Hn0; rewrite <- E; apply in_or_app; right; right; left; reflexivity|].
          destruct l1' as [|b' l1'']; cbn [app] in Hkm'.
          + injection Hkm' as E1 _. exfalso. apply Ht1. exact E1.
          + injection Hkm' as E1 _. subst b'. cbn [app] in Hnd'. apply NoDup_cons_iff in Hnd'. destruct Hnd' as (F & _).
            intros E. apply F. rewrite <- E. apply in_or_app. right. right. left. reflexivity. }
      destruct Hs0 as (S0 & S1). rewrite Hkm, (remove1_two sib a0 a1 rest S0 S1).
      destruct (parent =? target); cbn [app]; eexists; reflexivity.
    + destruct (N.eqb_spec m target) as [->|_]; [rewrite Hkm; cbn [app]; eexists; reflexivity|rewrite app_nil_r; exists rest; exact Hkm].
  - rewrite Hk.
    assert (E0p : (a0 =? parent) = false) by (apply N.eqb_neq; intros ->; rewrite Hk0 in Hin_t; contradiction).
    assert (E0t : (a0 =? target) = false) by (apply N.eqb_neq; intros E; apply Ht0; symmetry; exact E).
    rewrite E0p, E0t, app_nil_r. exact Hk0.
  - intros a1o2 Ha12. destruct (proj2 Hpf _ _ Ha1) as (o' & Ho' & E). assert (o' = a1o2) by congruence. subst.
    destruct E as (_ & _ & _ & _ & _ & _ & _ & E8). exact E8.
Qed.

Lemma SH3_conn : forall fuel, CN_spec2 SH3 fuel.
Proof. intros fuel. exact (proj1 (conn_all2 SH3 SH3_setname SH3_attach fuel)). Qed.

(** ---- TM3 through the first pass: the invariant [LI3] = [LI] /\ [TM3] of the object boundaries of parseObjectList ---- *)
Definition LI3 (X : N -> Prop) (s : pstate) (g : ghost) : Prop := LI X s g /\ TM3 (p_tree s) g.

Lemma rowis_np (o : Obj) : rowis aml_pOpIntNamePath o -> o_infoIndex o = npIdx.
Proof. unfold rowis. intros H. assert (E : opcodeTableIndex aml_pOpIntNamePath true = Some npIdx) by (vm_compute; reflexivity). congruence. Qed.
Lemma rowis_bp (o : Obj) : rowis aml_pOpBytePrefix o -> o_infoIndex o = bpIdx.
Proof. unfold rowis. intros H. assert (E : opcodeTableIndex aml_pOpBytePrefix true = Some bpIdx) by (vm_compute; reflexivity). congruence. Qed.

Lemma LI3_next_holds X s g top rest s' g' :
  FI s g -> LI3 X s g -> p_scopeStack s = top :: rest -> FI s' g' -> gext g g' ->
  Fw NoP (eq top) s g s' g' -> SSBx s s' -> p_handle s' = p_handle s ->
  (exists xs, newobjs g s' xs /\ forall x, xs = Some x -> ~ glive g x /\ xdesc s g s' g' top x) ->
  LI3 X s' g'.
Proof.
  intros H (HL & HTM) Est H' G F Hss Hh Hnx. split; [exact (LI_next_holds X s g top rest s' g' H HL Est H' G F Hss Hh Hnx)|].
  unfold TM3.
  destruct HL as (_ & _ & _ & Hssb & _). destruct F as [K Fk0]. destruct Hnx as (xs & Hnew & Hx).
  pose proof (fi_R _ _ H) as HR. pose proof (R_gwf _ _ HR) as Hwf.
  assert (Htop_sb : is_sb s top) by (rewrite Est in Hssb; inversion Hssb; auto).
  assert (Hkeepk : forall y yo, glive g y -> tget (p_tree s) y = Some yo -> o_opcode yo <> aml_pOpIntScopeBlock -> kids g' y = kids g y).
  { intros y yo Hy Hyo Hne. destruct (Fk0 y Hy (fun F => F)) as (_ & Hex). apply Hex. intros <-.
    destruct Htop_sb as (o & Ho & E). assert (o = yo) by congruence. subst. contradiction. }
  intros m mo' Hm' Hop'. assert (Hlm' : o_opcode mo' <> opFreed) by (rewrite Hop'; discriminate).
  destruct (glive_dec g m) as [Hlm|Hnm].
  - destruct (keepw_back NoP s g s' m mo' H K Hlm Hm') as (mo & Hm & (E1 & _) & _).
    assert (Hop : o_opcode mo = aml_pOpMethod) by congruence.
    destruct (HTM m mo Hm Hop) as (a0 & a1 & rest0 & a0o & a1o & v & K1 & K2 & K3 & K4 & K5 & K6 & K7 & K8 & K9).
    assert (Hl0 : glive g a0) by (apply (Hwf m a0); rewrite K1; left; reflexivity).
    assert (Hl1 : glive g a1) by (apply (Hwf m a1); rewrite K1; right; left; reflexivity).
    destruct (keepw_sameobj NoP s g s' a0 a0o K Hl0 K2) as (a0o' & K2' & (S1 & S2 & _) & _).
    destruct (keepw_sameobj NoP s g s' a1 a1o K Hl1 K6) as (a1o' & K6' & (T1 & T2 & _) & _ & V1).
    exists a0, a1, rest0, a0o', a1o', v. split; [rewrite (Hkeepk m mo Hlm Hm); [exact K1|rewrite Hop; discriminate]|].
    split; [exact K2'|]. split; [congruence|]. split; [congruence|].
    split; [rewrite (Hkeepk a0 a0o Hl0 K2); [exact K5|rewrite K3; discriminate]|].
    split; [exact K6'|]. split; [congruence|]. split; [congruence|]. rewrite V1; [exact K9|intros []].
  - destruct (Hnew m mo' Hm' Hlm' Hnm) as [E|(Hb & _)]; [|exfalso; apply Hb; left; exact Hop'].
    destruct (Hx m E) as (_ & xo & Hxo & _ & Hrow & _ & _ & Hshape). assert (xo = mo') by congruence. subst xo.
    destruct method_row as (Hmi & Hmrow & _). destruct method_shape as (Hsim & Hot).
    unfold rowis in Hrow. rewrite Hop', Hmi in Hrow. injection Hrow as Hrow.
    destruct (Hshape (or_introl Hop') aml_pOpMethod 33 methodAF) as (objs & Hk & Hf2 & _); [rewrite <- Hrow; exact Hmrow|exact Hsim|vm_compute; reflexivity|].
    rewrite Hot in Hf2. destruct (Forall2_inv2 _ _ _ _ _ Hf2) as (a0 & a1 & l1' & Eobjs & A0 & A1 & _). rewrite Eobjs in Hk.
    destruct A0 as (a0o & Ha0 & N0 & _). destruct (N0 eq_refl) as (Kn0 & Eop0 & Er0 & _).
    destruct A1 as (a1o & Ha1 & _ & B1 & _). destruct (B1 eq_refl) as (_ & Eop1 & Er1 & v & Ev1).
    exists a0, a1, l1', a0o, a1o, v. split; [exact Hk|]. split; [exact Ha0|]. split; [exact Eop0|]. split; [apply rowis_np; exact Er0|].
    split; [exact Kn0|]. split; [exact Ha1|]. split; [exact Eop1|]. split; [apply rowis_bp; exact Er1|exact Ev1].
Qed.

Lemma LI3_stable_holds X s s' g : LI3 X s g -> p_tree s' = p_tree s -> p_handle s' = p_handle s ->
  (forall y, In y (p_scopeStack s') -> In y (p_scopeStack s)) -> LI3 X s' g.
Proof. intros (HL & HTM) Et Eh Hst. split; [eapply LI_stable_holds; eauto|rewrite Et; exact HTM]. Qed.

(** ---- everything but parseDeferredBlocks: the load loop modulo ONE lemma about that pass ---- *)
(** [DEF3]: the missing lemma - a successful parseDeferredBlocks from the root keeps [TM3] (for the Methods that were there it follows
    from the frame of the walk; for Methods created inside a deferred block the block proof does not yet carry enough) *)
Definition DEF3 : Prop := forall f4 pf s g s1 g1,
  WI s g -> parseDeferredBlocks f4 pf 0 s = Ok (ROk, s1) -> WI s1 g1 -> wstep s g s1 g1 -> TM NoX s1 g1 ->
  TM3 (p_tree s) g -> TM3 (p_tree s1) g1.

(** [DEF3new]: the part of [DEF3] that is open - the Methods CREATED by a successful parseDeferredBlocks are typed.  For the Methods that
    were there before, [DEF3] follows from the frame of the walk ([ws_pre]: two leading children that are not pending stay in front;
    [ws_nil]: a childless object that is not pending stays childless; [ws_keep]: payloads; the number comes back from [TM NoX]). *)
Definition DEF3new : Prop := forall f4 pf s g s1 g1,
  WI s g -> parseDeferredBlocks f4 pf 0 s = Ok (ROk, s1) -> WI s1 g1 -> wstep s g s1 g1 -> TM NoX s1 g1 ->
  TM3 (p_tree s) g ->
  forall m mo, tget (p_tree s1) m = Some mo -> o_opcode mo = aml_pOpMethod -> ~ glive g m -> mtyped3 (p_tree s1) g1 m.

Lemma isflag_np s a o : tget (p_tree s) a = Some o -> o_infoIndex o = npIdx -> isflag s a = false.
Proof. intros Ho E. unfold isflag. rewrite Ho, E. vm_compute. reflexivity. Qed.
Lemma isflag_bp s a o : tget (p_tree s) a = Some o -> o_infoIndex o = bpIdx -> isflag s a = false.
Proof. intros Ho E. unfold isflag. rewrite Ho, E. vm_compute. reflexivity. Qed.

Lemma DEF3_of_new : DEF3new -> DEF3.
Proof.
  intros HN f4 pf s g s1 g1 H E H1 S1 T1 HTM m mo' Hm' Hop'.
  destruct (glive_dec g m) as [Hlm|Hnm]; [|exact (HN f4 pf s g s1 g1 H E H1 S1 T1 HTM m mo' Hm' Hop' Hnm)].
  pose proof (R_gwf _ _ (fi_R _ _ H)) as Hwf.
  destruct (FI_live_get _ _ _ H Hlm) as (mo & Hm & _).
  destruct (ws_keep _ _ _ _ S1 m mo Hlm Hm) as (mo2 & Hm2 & (E1 & _) & _). assert (mo2 = mo') by congruence. subst mo2.
  assert (Hop : o_opcode mo = aml_pOpMethod) by congruence.
  destruct (HTM m mo Hm Hop) as (a0 & a1 & rest & a0o & a1o & v & K1 & K2 & K3 & K4 & K5 & K6 & K7 & K8 & K9).
  assert (Hl0 : glive g a0) by (apply (Hwf m a0); rewrite K1; left; reflexivity).
  assert (Hl1 : glive g a1) by (apply (Hwf m a1); rewrite K1; right; left; reflexivity).
  pose proof (isflag_np s a0 a0o K2 K4) as Hf0. pose proof (isflag_bp s a1 a1o K6 K8) as Hf1.
  destruct (ws_pre _ _ _ _ S1 m a0 a1 rest Hlm Hf0 Hf1 K1) as (rest' & K1').
  destruct (ws_keep _ _ _ _ S1 a0 a0o Hl0 K2) as (a0o' & K2' & (A1 & A2 & _) & _).
  destruct (ws_keep _ _ _ _ S1 a1 a1o Hl1 K6) as (a1o' & K6' & (B1 & B2 & _) & _).
  (* the number: from the typing the walk re-establishes *)
  destruct (T1 m mo' Hm' Hop' (fun F => F)) as (c0 & c1 & r & c0o & c1o & w & C1 & _ & _ & C4 & C5 & _).
  rewrite K1' in C1. injection C1 as <- <- <-. assert (c1o = a1o') by congruence. subst c1o.
  exists a0, a1, rest', a0o', a1o', w. split; [exact K1'|]. split; [exact K2'|]. split; [congruence|]. split; [congruence|].
  split; [apply (ws_nil _ _ _ _ S1 a0 Hl0 Hf0 K5)|]. split; [exact K6'|]. split; [congruence|]. split; [congruence|exact C5].
Qed.

Definition K3 : T -> ghost -> Prop := fun t g => KR t g /\ TM3 t g.

Lemma K3_move : Kmove K3.
Proof.
  intros s g par x target pre post t2 HT (H1 & H2) Hk Hl Hne Htg Hp g2 HT2 A B C Hpf.
  split; [apply (KR_move s g par x target pre post t2 HT H1 Hk Hl Hne Htg Hp HT2 A B C Hpf)
         |apply (TM3_move s g par x target pre post t2 HT H2 Hk Hl Hne Htg Hp HT2 A B C Hpf)].
Qed.
Lemma K3_upd : Kupd K3.
Proof.
  intros t g p o f HR (H1 & H2) Ho Hop A B. split; [apply (KR_upd t g p o f HR H1 Ho Hop A B)|apply (TM3_upd t g p o f HR H2 Ho Hop A B)].
Qed.

Theorem parseAML_body_post3 : DEF3new -> forall tree g earlier handle data fuel,
  R tree g -> info_valid tree -> glive g 0 -> groot g 0 ->
  (exists o, tget tree 0 = Some o /\ o_opcode o = aml_pOpIntScopeBlock) ->
  TM3 tree g -> typed tree -> pool_ok earlier tree ->
  (forall i o, tget tree i = Some o -> o_tableHandle o <> handle) ->
  image_small data ->
  (let L := N.of_nat (length (t_pool tree)) + 4 * N.of_nat (length data) + 2 in
   L + L * (8 * N.of_nat (length data) + 3) + 4 <= InvalidIndex) ->
  match parseAML_body fuel (init_state tree earlier handle data) with
  | Ok (b, s') => tpost K3 b s'
  | Panic => False
  | OutOfFuel => True
  end.
Proof.
  intros HDn tree g earlier handle data fuel HR Hi H0 Hr0 Hsb HTM. pose proof (DEF3_of_new HDn) as HD.
  apply (parseAML_body_post K3 K3_move K3_upd
           (fun f4 pf s g s1 g1 H E H1 S1 T1 HK => conj (KR_walk f4 pf s g s1 g1 H E H1 S1 T1 (proj1 HK)) (HD f4 pf s g s1 g1 H E H1 S1 T1 (proj2 HK)))
           KS3 (fun s g H => proj1 H) KS3_loop
           (fun s g HM => conj (mi_sb0 _ _ _ _ HM) (proj2 (mi_K _ _ _ _ HM)))
           SH3 (fun s g H => proj1 H) SH3_conn
           (fun s g a b c HS => conj (KS_counters s g a b c (conj (proj1 (proj2 (proj2 (proj2 (proj2 (proj1 HS)))))) (proj2 (proj2 (proj2 (proj2 (proj2 (proj1 HS)))))))) (proj2 HS))
           LI3 TM3 (fun X s g H => proj1 H) (fun X s g H HP => conj H HP) LI3_next_holds LI3_stable_holds
           (fun X s g HL HN => conj (SH_of_LI X s g (proj1 HL) HN) (proj2 HL))
           tree g earlier handle data fuel HR Hi H0 Hr0 Hsb (TM3_TM2 _ _ HTM) HTM).
Qed.

(** the invariant of the load loop with the concrete Method typing *)
Definition INV3 (tree : T) (g : ghost) (earlier : list (list N)) (h : N) : Prop :=
  R tree g /\ info_valid tree /\ glive g 0 /\ groot g 0 /\
  (exists o, tget tree 0 = Some o /\ o_opcode o = aml_pOpIntScopeBlock) /\
  TM3 tree g /\ typed tree /\ pool_ok earlier tree /\
  (forall i o, tget tree i = Some o -> o_tableHandle o < h).

Lemma INV3_INV tree g earlier h : INV3 tree g earlier h -> INV tree g earlier h.
Proof.
  intros (A & B & C & D & E & F & G & H & I). repeat (split; [assumption|]). split; [apply TM3_TM2; exact F|]. repeat (split; [assumption|]). assumption.
Qed.

Theorem parseAML_keeps_INV3 : DEF3new -> forall tree g earlier h data s,
  INV3 tree g earlier h -> fits tree data -> parseAML tree earlier h data = Ok (true, s) ->
  exists g', INV3 (p_tree s) g' (earlier ++ [data]) (h + 1).
Proof.
  intros HD tree g earlier h data s (HR & Hi & H0 & Hr0 & Hsb & HTM & Hty & Hpool & Hh) (Him & Hcap) E.
  assert (Hfresh : forall i o, tget tree i = Some o -> o_tableHandle o <> h) by (intros i o Ho E'; specialize (Hh i o Ho); lia).
  pose proof (parseAML_body_post3 HD tree g earlier h data (parse_fuel (length data + length (t_pool tree)))
                HR Hi H0 Hr0 Hsb HTM Hty Hpool Hfresh Him Hcap) as W.
  unfold parseAML in E. rewrite E in W. destruct W as (g' & HR' & Hi' & _ & Hb). destruct (Hb eq_refl) as (B0 & B1 & B2 & B3 & B4).
  assert (Him' : image_ok data) by (destruct Him as (Hb' & Hl); split; [exact Hb'|unfold two32 in *; lia]).
  destruct (parseAML_inv tree earlier h data true s Him' Hpool E) as (Hp' & _).
  exists g'. split; [exact HR'|]. split; [exact Hi'|]. split; [exact B0|]. split; [exact B1|]. split; [exact B3|].
  split; [exact B4|]. split; [exact B2|]. split; [exact Hp'|].
  intros i o Ho. assert (Hle : o_tableHandle o <= h); [|lia].
  apply (parseAML_handles tree earlier h data true s (fun j oj Hj => N.lt_le_incl _ _ (Hh j oj Hj)) E i o Ho).
Qed.

(** the sizes only: the image and the quadratic memory bound over the pool at each step *)
Fixpoint SEQ3 (tree : T) (earlier : list (list N)) (h : N) (payloads : list (list N)) : Prop :=
  match payloads with
  | [] => True
  | p :: rest =>
      let data := table_image p in
      fits tree data /\
      forall s, parseAML tree earlier h data = Ok (true, s) -> SEQ3 (p_tree s) (earlier ++ [data]) (h + 1) rest
  end.

Theorem load_tables_never_panics3 : DEF3new -> forall payloads tree g earlier h,
  INV3 tree g earlier h -> SEQ3 tree earlier h payloads -> fst (fst (load_tables tree earlier h payloads)) <> 2.
Proof.
  intros HD. induction payloads as [|p rest IH]; intros tree g earlier h HI HS; cbn [load_tables]; [cbn; discriminate|].
  cbn [SEQ3] in HS. cbv zeta in HS. destruct HS as (Hfit & Hnext).
  pose proof (INV3_INV _ _ _ _ HI) as (HR & Hi & H0 & Hr0 & Hsb & HTM & Hty & Hpool & Hh). pose proof Hfit as (Him & Hcap).
  assert (Hfresh : forall i o, tget tree i = Some o -> o_tableHandle o <> h) by (intros i o Ho E; specialize (Hh i o Ho); lia).
  pose proof (parseAML_never_panics tree g earlier h (table_image p) HR Hi H0 Hr0 Hsb HTM Hty Hpool Hfresh Him Hcap) as W.
  cbv zeta. destruct (parseAML tree earlier h (table_image p)) as [[[|] s]| |] eqn:E; cbn [fst]; try discriminate; [|contradiction].
  destruct (parseAML_keeps_INV3 HD tree g earlier h (table_image p) s HI Hfit E) as (g' & HI').
  apply (IH (p_tree s) g' (earlier ++ [table_image p]) (h + 1) HI' (Hnext s eq_refl)).
Qed.

Lemma ds_INV3 : INV3 ds_tree ds_ghost [] 1.
Proof.
  destruct ds_INV as (A & B & C & D & E & _ & G & H & I). repeat (split; [assumption|]). split; [|repeat (split; [assumption|]); assumption].
  unfold TM3. apply (ds_all (fun m mo => o_opcode mo = aml_pOpMethod -> mtyped3 ds_tree ds_ghost m)). intros n o Hlt Hn Hop.
  ds_cases n Hlt Hn o ltac:(vm_compute in Hop; discriminate).
Qed.

Theorem load_never_panics3 : DEF3new -> forall payloads, SEQ3 ds_tree [] 1 payloads -> fst (fst (load payloads)) <> 2.
Proof.
  intros HD payloads HS. unfold load. rewrite ds_create. exact (load_tables_never_panics3 HD payloads ds_tree ds_ghost [] 1 ds_INV3 HS).
Qed.

(** ---- the hypotheses are satisfiable: a pool with a root scope and one Method (name path, flags byte); both passes return ok ---- *)
Definition mx_ops : list op :=
  [ OpNewNamed opScopeBlock 0 (name_of_list [0x5c; 0; 0; 0]);
    OpNew aml_pOpMethod 0; OpAppend 0 1;
    OpNew aml_pOpIntNamePath 0; OpAppend 1 2;
    OpNew aml_pOpBytePrefix 0; OpAppend 1 3 ].
Definition mx_tree0 : T := match run (@NewObjectTree value) mx_ops with Ok t => t | _ => NewObjectTree end.
Definition mx_tree : T := Eval vm_compute in tset mx_tree0 3 (set_value (Some (VNum 0))).
Definition mx_ghost : ghost := Eval vm_compute in arun ghost0 mx_ops.
Definition mx_state : pstate := mkP (init_reader [] 0) mx_tree [] [] 0 0 0 0 false 1 [].

Lemma mx_legal : legal_seq ghost0 mx_ops.
Proof.
  unfold mx_ops. cbn [legal_seq legal].
  split; [ds_new|]. split; [ds_new|]. split; [ds_app|]. split; [ds_new|]. split; [ds_app|]. split; [ds_new|]. split; [ds_app|]. exact I.
Qed.

Lemma mx_R : R mx_tree mx_ghost.
Proof.
  destruct (run_R mx_ops (@NewObjectTree value) ghost0 R_empty mx_legal) as (t' & Hrun & HR').
  change mx_tree with (tset mx_tree0 3 (set_value (Some (VNum 0)))). change mx_ghost with (arun ghost0 mx_ops).
  apply R_tset_lk; [unfold mx_tree0; rewrite Hrun; exact HR'|].
  intros o _. unfold lk_eq. cbn [o_opcode o_index o_parent o_prev o_next o_first o_last set_value]. repeat split; auto.
Qed.

Ltac mx_cases n Hn o tac :=
  do 4 (destruct n as [|n]; [vm_compute in Hn; inversion Hn; subst o; clear Hn; solve [tac]|]); vm_compute in Hn; destruct n; discriminate.

Lemma mx_hyps :
  R (p_tree mx_state) mx_ghost /\ info_valid (p_tree mx_state) /\ pool_ok (p_tables mx_state) (p_tree mx_state) /\ typed (p_tree mx_state) /\
  glive mx_ghost 0 /\ groot mx_ghost 0 /\ TM3 (p_tree mx_state) mx_ghost /\
  (exists m mo, tget (p_tree mx_state) m = Some mo /\ o_opcode mo = aml_pOpMethod) /\
  match resolveMethodCalls 10 0 mx_state with Ok (r, _) => r = ROk | _ => False end /\
  match connectNonNamedObjArgs 10 0 mx_state with Ok (r, _) => r = ROk | _ => False end.
Proof.
  change (p_tree mx_state) with mx_tree. change (p_tables mx_state) with (@nil (list N)).
  split; [exact mx_R|].
  split; [unfold info_valid; apply (pool_cases mx_tree (fun i o => o_opcode o <> opFreed -> opInfo (o_infoIndex o) <> None)); intros n o Hn _;
          mx_cases n Hn o ltac:(vm_compute; discriminate)|].
  split.
  { unfold pool_ok. rewrite Forall_forall. intros o Hin. destruct (In_nth_error _ _ Hin) as (n & Hn). mx_cases n Hn o ltac:(exact I). }
  split; [unfold typed; apply (pool_cases mx_tree (fun i o => o_opcode o <> opFreed -> o_opcode o = aml_pOpIntNamePathOrMethodCall -> exists tbl sl, o_value o = Some (VBytes tbl sl)));
          intros n o Hn _ Hop; mx_cases n Hn o ltac:(vm_compute in Hop; discriminate)|].
  split; [split; [vm_compute; reflexivity|vm_compute; intuition discriminate]|].
  split; [apply groot_chk; vm_compute; reflexivity|].
  split.
  { unfold TM3. apply (pool_cases mx_tree (fun m mo => o_opcode mo = aml_pOpMethod -> mtyped3 mx_tree mx_ghost m)). intros n o Hn Hop.
    destruct n as [|n]; [vm_compute in Hn; inversion Hn; subst o; vm_compute in Hop; discriminate|].
    destruct n as [|n].
    - eexists 2, 3, [], _, _, 0. split; [vm_compute; reflexivity|]. split; [vm_compute; reflexivity|].
      split; [vm_compute; reflexivity|]. split; [vm_compute; reflexivity|]. split; [vm_compute; reflexivity|].
      split; [vm_compute; reflexivity|]. split; [vm_compute; reflexivity|]. split; vm_compute; reflexivity.
    - do 2 (destruct n as [|n]; [vm_compute in Hn; inversion Hn; subst o; vm_compute in Hop; discriminate|]). vm_compute in Hn. destruct n; discriminate. }
  split; [eexists 1, _; split; vm_compute; reflexivity|].
  split; vm_compute; reflexivity.
Qed.
