(** C11, lexical level: the lexer functions of Aml/Lex.v invert the encoders of Aml/Grammar.v
    ([enc_pkglen] in each admissible width, [le_bytes], strings, every name form, [enc_op]). *)
From Coq Require Import NArith ZArith List Bool Lia.
From Coq Require Import ZifyBool ZifyN ZifyNat.
From FF Require Import Lib.Word Gen.Consts_device_acpi_aml Aml.Stream Aml.Lex Aml.LexProofs Aml.Grammar.
Import ListNotations.
Local Open Scope N_scope.

Ltac Zify.zify_post_hook ::= Z.div_mod_to_equations.

(** ---- bit arithmetic ---- *)
Lemma testbit_small b m : b < 2 ^ m -> N.testbit b m = false.
Proof.
  intros H. destruct (N.eq_dec b 0) as [->|Hb]; [apply N.bits_0|].
  apply N.bits_above_log2. apply N.log2_lt_pow2; lia.
Qed.

Lemma land_shiftl_small a n b : b < 2 ^ n -> N.land (a * 2 ^ n) b = 0.
Proof.
  intros H. apply N.bits_inj_iff. intros m. rewrite N.land_spec, N.bits_0.
  destruct (N.lt_ge_cases m n) as [L|L].
  - rewrite N.mul_pow2_bits_low by exact L. reflexivity.
  - rewrite (testbit_small b m), andb_false_r; auto.
    eapply N.lt_le_trans; [exact H|]. apply N.pow_le_mono_r; lia.
Qed.

Lemma lor_shiftl_small a n b : b < 2 ^ n -> N.lor (N.shiftl a n) b = a * 2 ^ n + b.
Proof.
  intros H. rewrite N.shiftl_mul_pow2.
  rewrite <- N.lxor_lor by (apply land_shiftl_small; exact H).
  symmetry. apply N.add_nocarry_lxor. apply land_shiftl_small; exact H.
Qed.

Lemma lor_small_shiftl acc a n : acc < 2 ^ n -> N.lor acc (N.shiftl a n) = acc + a * 2 ^ n.
Proof. intros H. rewrite N.lor_comm, lor_shiftl_small by exact H. lia. Qed.

Lemma lor_mul_small a n b : b < 2 ^ n -> N.lor (a * 2 ^ n) b = a * 2 ^ n + b.
Proof. intros H. rewrite <- (lor_shiftl_small a n b H). rewrite N.shiftl_mul_pow2. reflexivity. Qed.

Lemma lor2 b1 low : low < 16 -> N.lor (N.shiftl b1 4) low = b1 * 16 + low.
Proof. intros H. rewrite lor_shiftl_small by exact H. reflexivity. Qed.

Lemma lor3 b2 b1 low : b1 < 256 -> low < 16 ->
  N.lor (N.lor (N.shiftl b2 12) (N.shiftl b1 4)) low = b2 * 4096 + b1 * 16 + low.
Proof.
  intros H1 H0. rewrite (N.shiftl_mul_pow2 b1 4). change (2 ^ 4) with 16.
  rewrite lor_shiftl_small by (change (2 ^ 12) with 4096; lia). change (2 ^ 12) with 4096.
  replace (b2 * 4096 + b1 * 16) with ((b2 * 256 + b1) * 2 ^ 4) by (change (2 ^ 4) with 16; lia).
  rewrite lor_mul_small by exact H0. change (2 ^ 4) with 16. lia.
Qed.

Lemma lor4 b3 b2 b1 low : b2 < 256 -> b1 < 256 -> low < 16 ->
  N.lor (N.lor (N.lor (N.shiftl b3 20) (N.shiftl b2 12)) (N.shiftl b1 4)) low = b3 * 1048576 + b2 * 4096 + b1 * 16 + low.
Proof.
  intros H2 H1 H0. rewrite (N.shiftl_mul_pow2 b2 12), (N.shiftl_mul_pow2 b1 4). change (2 ^ 4) with 16. change (2 ^ 12) with 4096.
  rewrite lor_shiftl_small by (change (2 ^ 20) with 1048576; lia). change (2 ^ 20) with 1048576.
  replace (b3 * 1048576 + b2 * 4096) with ((b3 * 256 + b2) * 2 ^ 12) by (change (2 ^ 12) with 4096; lia).
  rewrite lor_mul_small by (change (2 ^ 12) with 4096; lia). change (2 ^ 12) with 4096.
  replace ((b3 * 256 + b2) * 4096 + b1 * 16) with ((b3 * 65536 + b2 * 256 + b1) * 2 ^ 4) by (change (2 ^ 4) with 16; lia).
  rewrite lor_mul_small by exact H0. change (2 ^ 4) with 16. lia.
Qed.

Lemma land_255 x : N.land x 0xff = x mod 256.
Proof. change 0xff with (N.ones 8). rewrite N.land_ones. reflexivity. Qed.
Lemma land_15 x : N.land x 0xf = x mod 16.
Proof. change 0xf with (N.ones 4). rewrite N.land_ones. reflexivity. Qed.

(** ---- reading the bytes of a token ---- *)
Lemma byte_at_app pre x post : byte_at (pre ++ x :: post) (lenN pre) = Some x.
Proof.
  unfold byte_at, lenN. rewrite Nat2N.id. rewrite nth_error_app2 by lia. rewrite Nat.sub_diag. reflexivity.
Qed.

(** a reader positioned in front of [tok]: data = pre ++ tok ++ post, offset = |pre|, the token lies inside the
    current package *)
Record at_token (r : reader) (pre tok post : list N) : Prop := mkAt {
  at_data : r_data r = pre ++ tok ++ post;
  at_off : r_offset r = lenN pre;
  at_end : lenN pre + lenN tok <= r_pkgEnd r;
  at_wf : reader_wf r
}.

Lemma lenN_app {A} (a b : list A) : lenN (a ++ b) = lenN a + lenN b.
Proof. unfold lenN. rewrite app_length. lia. Qed.
Lemma lenN_cons {A} (x : A) (l : list A) : lenN (x :: l) = 1 + lenN l.
Proof. unfold lenN. cbn [length]. lia. Qed.

(** one read: the reader moves behind the first byte of the token *)
Lemma read_token r pre b tok post : at_token r pre (b :: tok) post ->
  readByte r = Ok (Some b, set_offset_raw r (lenN pre + 1)) /\
  at_token (set_offset_raw r (lenN pre + 1)) (pre ++ [b]) tok post.
Proof.
  intros [D O E W]. rewrite lenN_cons in E.
  destruct W as (W1 & W2 & W3 & W4).
  unfold readByte, eof. rewrite O.
  assert (Hlt : r_pkgEnd r <=? lenN pre = false) by (apply N.leb_gt; lia). rewrite Hlt.
  rewrite D. cbn [app]. rewrite byte_at_app.
  rewrite w32_small by (unfold two32 in *; lia).
  split; [reflexivity|].
  constructor; cbn [r_data r_offset r_pkgEnd set_offset_raw].
  - rewrite D. rewrite <- app_assoc. reflexivity.
  - rewrite lenN_app. change (lenN [b]) with 1. lia.
  - rewrite lenN_app. change (lenN [b]) with 1. lia.
  - unfold reader_wf. cbn [r_data r_len r_pkgEnd]. auto.
Qed.

Lemma at_token_nil_offset r pre post : at_token r pre [] post -> r_offset r = lenN pre.
Proof. intros [D O E W]. exact O. Qed.

Lemma set_offset_raw_twice r a b : set_offset_raw (set_offset_raw r a) b = set_offset_raw r b.
Proof. reflexivity. Qed.

(** close  Ok (x, true, set_offset_raw .. o) = Ok (y, true, set_offset_raw r o')  by arithmetic on x and o *)
Ltac close_ok :=
  rewrite ?set_offset_raw_twice; rewrite ?lenN_app;
  repeat match goal with |- context [lenN [?b]] => change (lenN [b]) with 1 end;
  match goal with
  | |- Ok (?x, true, set_offset_raw ?r ?o) = Ok (?y, true, set_offset_raw ?r ?o') =>
      let Hx := fresh "Hx" in let Ho := fresh "Ho" in
      assert (Hx : x = y); [|assert (Ho : o = o'); [lia|rewrite Hx, Ho; reflexivity]]
  end.

(** ---- PkgLength ---- *)
Definition pkglen_admissible (k v : N) : Prop :=
  (k = 1 /\ v < 64) \/ (k = 2 /\ v < 2 ^ 12) \/ (k = 3 /\ v < 2 ^ 20) \/ (k = 4 /\ v < 2 ^ 28).

Lemma shiftr6 x : N.shiftr x 6 = x / 64.
Proof. rewrite N.shiftr_div_pow2. reflexivity. Qed.
Lemma shiftr4 x : N.shiftr x 4 = x / 16.
Proof. rewrite N.shiftr_div_pow2. reflexivity. Qed.
Lemma shiftr8 x : N.shiftr x 8 = x / 256.
Proof. rewrite N.shiftr_div_pow2. reflexivity. Qed.

Lemma lead_byte k v : 2 <= k <= 4 ->
  N.lor (N.shiftl (k - 1) 6) (N.land v 0xf) = (k - 1) * 64 + v mod 16.
Proof.
  intros H. rewrite land_15. rewrite lor_shiftl_small; [reflexivity|].
  change (2 ^ 6) with 64. pose proof (N.mod_lt v 16). lia.
Qed.

Theorem pkglen_roundtrip : forall k v r pre post,
  pkglen_admissible k v -> at_token r pre (enc_pkglen k v) post ->
  parsePkgLength r = Ok (v, true, set_offset_raw r (lenN pre + k)).
Proof.
  intros k v r pre post A T. unfold parsePkgLength.
  destruct A as [(-> & Hv)|[(-> & Hv)|[(-> & Hv)|(-> & Hv)]]].
  - (* one byte *)
    unfold enc_pkglen in T. cbn [N.eqb Pos.eqb] in T.
    destruct (read_token _ _ _ _ _ T) as (R & _). rewrite R. cbn [bind].
    rewrite shiftr6. assert (v / 64 = 0) by (apply N.div_small; lia). rewrite H. cbn [N.eqb]. reflexivity.
  - (* two bytes *)
    unfold enc_pkglen in T. change (2 =? 1) with false in T. cbn iota in T.
    rewrite lead_byte in T by lia. change (N.to_nat (2 - 1)) with 1%nat in T. cbn [le_bytes] in T.
    rewrite land_255, shiftr4 in T.
    destruct (read_token _ _ _ _ _ T) as (R & T1). rewrite R. cbn [bind].
    rewrite shiftr6.
    assert (E6 : ((2 - 1) * 64 + v mod 16) / 64 = 1) by (change (2 ^ 12) with 4096 in Hv; lia). rewrite E6. cbn [N.eqb Pos.eqb].
    destruct (read_token _ _ _ _ _ T1) as (R1 & _). rewrite R1. cbn [bind].
    rewrite land_15, lor2 by (pose proof (N.mod_lt ((2 - 1) * 64 + v mod 16) 16); lia).
    close_ok. change (2 ^ 12) with 4096 in Hv. lia.
  - (* three bytes *)
    unfold enc_pkglen in T. change (3 =? 1) with false in T. cbn iota in T.
    rewrite lead_byte in T by lia. change (N.to_nat (3 - 1)) with 2%nat in T. cbn [le_bytes] in T.
    rewrite !land_255, shiftr4, shiftr8 in T.
    destruct (read_token _ _ _ _ _ T) as (R & T1). rewrite R. cbn [bind].
    rewrite shiftr6.
    assert (E6 : ((3 - 1) * 64 + v mod 16) / 64 = 2) by lia. rewrite E6. cbn [N.eqb Pos.eqb].
    destruct (read_token _ _ _ _ _ T1) as (R1 & T2). rewrite R1. cbn [bind].
    destruct (read_token _ _ _ _ _ T2) as (R2 & _). rewrite R2. cbn [bind].
    rewrite land_15.
    change (2 ^ 20) with 1048576 in Hv.
    rewrite lor3 by lia.
    close_ok. lia.
  - (* four bytes *)
    unfold enc_pkglen in T. change (4 =? 1) with false in T. cbn iota in T.
    rewrite lead_byte in T by lia. change (N.to_nat (4 - 1)) with 3%nat in T. cbn [le_bytes] in T.
    rewrite !land_255, shiftr4, !shiftr8 in T.
    destruct (read_token _ _ _ _ _ T) as (R & T1). rewrite R. cbn [bind].
    rewrite shiftr6.
    assert (E6 : ((4 - 1) * 64 + v mod 16) / 64 = 3) by lia. rewrite E6. cbn [N.eqb Pos.eqb].
    destruct (read_token _ _ _ _ _ T1) as (R1 & T2). rewrite R1. cbn [bind].
    destruct (read_token _ _ _ _ _ T2) as (R2 & T3). rewrite R2. cbn [bind].
    destruct (read_token _ _ _ _ _ T3) as (R3 & _). rewrite R3. cbn [bind].
    rewrite land_15.
    change (2 ^ 28) with 268435456 in Hv.
    rewrite lor4 by lia.
    close_ok. lia.
Qed.

(** ---- numbers ---- *)
Lemma le_bytes_S c v : le_bytes (S c) v = v mod 256 :: le_bytes c (v / 256).
Proof. cbn [le_bytes]. rewrite land_255, shiftr8. reflexivity. Qed.

Lemma parseNum_go_roundtrip cnt : forall c acc x r pre post,
  c + N.of_nat cnt <= 8 -> acc < 2 ^ (c * 8) -> x < 2 ^ (N.of_nat cnt * 8) ->
  at_token r pre (le_bytes cnt x) post ->
  parseNum_go cnt c acc r = Ok (acc + x * 2 ^ (c * 8), true, set_offset_raw r (lenN pre + N.of_nat cnt)).
Proof.
  induction cnt as [|cnt IH]; intros c acc x r pre post Hc Hacc Hx T.
  - cbn [parseNum_go le_bytes] in *. change (N.of_nat 0 * 8) with 0 in Hx. change (2 ^ 0) with 1 in Hx.
    assert (x = 0) by lia. subst x. rewrite N.mul_0_l, !N.add_0_r.
    rewrite <- (at_token_nil_offset _ _ _ T). destruct r; reflexivity.
  - rewrite le_bytes_S in T. cbn [parseNum_go].
    destruct (read_token _ _ _ _ _ T) as (R & T1). rewrite R. cbn [bind].
    assert (Hw8 : w8 (c * 8) = c * 8) by (unfold w8, two8; apply N.mod_small; lia). rewrite Hw8.
    set (P := 2 ^ (c * 8)) in *.
    assert (HP : 0 < P) by (unfold P; apply N.neq_0_lt_0, N.pow_nonzero; discriminate).
    assert (Hb : x mod 256 < 256) by (apply N.mod_lt; discriminate).
    assert (Hw64 : w64 (N.shiftl (x mod 256) (c * 8)) = (x mod 256) * P).
    { rewrite N.shiftl_mul_pow2. fold P. unfold w64. apply N.mod_small.
      assert (P <= 2 ^ 56) by (unfold P; apply N.pow_le_mono_r; lia).
      change (2 ^ 56) with 72057594037927936 in H. unfold two64. nia. }
    rewrite Hw64.
    assert (Hlor : N.lor acc ((x mod 256) * P) = acc + (x mod 256) * P).
    { unfold P. rewrite <- (lor_small_shiftl acc (x mod 256) (c * 8) Hacc). rewrite N.shiftl_mul_pow2. reflexivity. }
    rewrite Hlor.
    assert (HP1 : 2 ^ ((c + 1) * 8) = 256 * P).
    { unfold P. replace ((c + 1) * 8) with (8 + c * 8) by lia. rewrite N.pow_add_r. reflexivity. }
    rewrite (IH (c + 1) (acc + x mod 256 * P) (x / 256) _ (pre ++ [x mod 256]) post); auto.
    + rewrite HP1. rewrite set_offset_raw_twice. rewrite lenN_app. change (lenN [x mod 256]) with 1.
      f_equal. f_equal; [f_equal|f_equal; lia].
      pose proof (N.div_mod x 256 ltac:(discriminate)) as DM.
      rewrite DM at 3. ring.
    + lia.
    + rewrite HP1. nia.
    + assert (E : N.of_nat (S cnt) * 8 = 8 + N.of_nat cnt * 8) by lia. rewrite E, N.pow_add_r in Hx.
      change (2 ^ 8) with 256 in Hx.
      apply N.div_lt_upper_bound; [discriminate|exact Hx].
Qed.

Theorem num_roundtrip : forall (n : nat) v r pre post,
  (n <= 8)%nat -> v < 2 ^ (N.of_nat n * 8) -> at_token r pre (le_bytes n v) post ->
  parseNumConstant (N.of_nat n) r = Ok (v, true, set_offset_raw r (lenN pre + N.of_nat n)).
Proof.
  intros n v r pre post Hn Hv T. unfold parseNumConstant. rewrite Nat2N.id.
  rewrite (parseNum_go_roundtrip n 0 0 v r pre post); auto; try lia.
  change (0 * 8) with 0. change (2 ^ 0) with 1. rewrite N.mul_1_r. reflexivity.
Qed.

(** ---- strings ---- *)
Definition ascii_char (c : N) : Prop := 1 <= c <= 127.

Lemma parseString_go_roundtrip str : forall fuel ptr len r pre post,
  (length str < fuel)%nat -> Forall ascii_char str -> at_token r pre (str ++ [0]) post ->
  parseString_go fuel ptr len r = Ok (mkSlice ptr (len + lenN str), true, set_offset_raw r (lenN pre + lenN str + 1)).
Proof.
  induction str as [|ch str IH]; intros fuel ptr len r pre post Hf Ha T; (destruct fuel as [|fuel]; [cbn in Hf; lia|]).
  - cbn [app] in T. cbn [parseString_go].
    destruct (read_token _ _ _ _ _ T) as (R & _). rewrite R. cbn [bind N.eqb].
    change (lenN (@nil N)) with 0. rewrite !N.add_0_r. reflexivity.
  - cbn [app] in T. cbn [parseString_go].
    destruct (read_token _ _ _ _ _ T) as (R & T1). rewrite R. cbn [bind].
    inversion Ha as [|? ? Hc Ha']; subst. unfold ascii_char in Hc.
    assert (E0 : ch =? 0 = false) by (apply N.eqb_neq; lia). rewrite E0.
    assert (E1 : (1 <=? ch) && (ch <=? 127) = true) by (apply andb_true_iff; split; apply N.leb_le; lia). rewrite E1.
    rewrite (IH fuel ptr (len + 1) _ (pre ++ [ch]) post); auto; [|cbn in Hf; lia].
    rewrite set_offset_raw_twice, lenN_app, !lenN_cons. change (lenN (@nil N)) with 0.
    f_equal. f_equal; [f_equal; f_equal; lia|f_equal; lia].
Qed.

Theorem string_roundtrip : forall str r pre post,
  Forall ascii_char str -> at_token r pre (str ++ [0]) post ->
  parseString r = Ok (mkSlice (Some (lenN pre)) (lenN str), true, set_offset_raw r (lenN pre + lenN str + 1)).
Proof.
  intros str r pre post Ha T. unfold parseString.
  assert (HP : dataPtr r = Ok (Some (lenN pre))).
  { destruct T as [D O E W]. destruct W as (W1 & W2 & W3 & W4). unfold dataPtr, eof. rewrite O.
    rewrite lenN_app in E. change (lenN [0]) with 1 in E.
    assert (E1 : r_pkgEnd r <=? lenN pre = false) by (apply N.leb_gt; lia). rewrite E1.
    assert (E2 : lenN pre <? r_len r = true) by (apply N.ltb_lt; lia). rewrite E2. reflexivity. }
  rewrite HP. cbn [bind].
  rewrite (parseString_go_roundtrip str _ _ 0 r pre post); auto.
  unfold stream_fuel. destruct T as [D O E W]. rewrite D. rewrite !app_length. cbn. lia.
Qed.

(** ---- opcodes ---- *)
Definition valid_opcode (op : N) : Prop :=
  op <= 0x1fe /\ exists i, opcodeTableIndex op false = Some i /\ i <> aml_badOpcode.

Lemma prefix_not_opcode : opcodeTableIndex aml_extOpPrefix false = Some aml_badOpcode.
Proof. reflexivity. Qed.

Theorem opcode_roundtrip : forall op r pre post,
  valid_opcode op -> at_token r pre (enc_op op) post ->
  nextOpcode r = Ok (op, true, set_offset_raw r (lenN pre + lenN (enc_op op))).
Proof.
  intros op r pre post (Hle & i & Hi & Hbad) T. unfold nextOpcode, enc_op in *.
  destruct (op <=? 255) eqn:E.
  - apply N.leb_le in E.
    destruct (read_token _ _ _ _ _ T) as (R & _). rewrite R. cbn [bind].
    assert (Hne : op =? aml_extOpPrefix = false).
    { apply N.eqb_neq. intros ->. rewrite prefix_not_opcode in Hi. congruence. }
    rewrite Hne, Hi.
    assert (Eb : i =? aml_badOpcode = false) by (apply N.eqb_neq; exact Hbad). rewrite Eb.
    reflexivity.
  - apply N.leb_gt in E.
    destruct (read_token _ _ _ _ _ T) as (R & T1). rewrite R. cbn [bind].
    change (91 =? aml_extOpPrefix) with true. cbn iota.
    destruct (read_token _ _ _ _ _ T1) as (R1 & _). rewrite R1. cbn [bind].
    assert (Ew : w16 (255 + (op - 255)) = op) by (unfold w16, two16; rewrite N.mod_small; lia).
    rewrite Ew, Hi.
    assert (Eb : i =? aml_badOpcode = false) by (apply N.eqb_neq; exact Hbad). rewrite Eb.
    rewrite set_offset_raw_twice, lenN_app. change (lenN [91]) with 1. change (lenN [91; op - 255]) with 2.
    f_equal. f_equal. f_equal. lia.
Qed.

(** ---- names ---- *)
Definition lead_char (b : N) : Prop := (0x41 <= b <= 0x5a) \/ b = 0x5f.
Definition seg_lead (s : N) : N := N.land (N.shiftr s 24) 0xff.

(** name strings the parser can take back: fewer than 64 segments (the parser computes 4*count in uint8), and a
    name written as a bare NameSeg has to start with a lead character *)
Definition wf_name (n : namestr) : Prop :=
  lenN (n_segs n) < 64 /\
  match n_segs n with
  | [s] => n_multi n = true \/ lead_char (seg_lead s)
  | _ => True
  end.

Definition name_prefix (n : namestr) : list N := (if n_root n then [0x5c] else []) ++ repeat 0x5e (N.to_nat (n_carets n)).
Definition name_body (n : namestr) : list N :=
  match n_segs n with
  | [] => [0x00]
  | segs => (if n_multi n || (2 <? lenN segs) then [0x2f; lenN segs] else if lenN segs =? 2 then [0x2e] else []) ++ flat_map seg_bytes segs
  end.
Lemma enc_name_split n : enc_name n = name_prefix n ++ name_body n.
Proof. unfold enc_name, name_prefix, name_body. rewrite <- app_assoc. reflexivity. Qed.

Lemma name_prefix_chars n : Forall (fun c => c = 0x5c \/ c = 0x5e) (name_prefix n).
Proof.
  unfold name_prefix. apply Forall_app. split.
  - destruct (n_root n); repeat constructor.
  - apply Forall_forall. intros x Hx. apply repeat_spec in Hx. auto.
Qed.

Lemma peek_token r pre b tok post : at_token r pre (b :: tok) post -> peekByte r = Ok (Some b).
Proof.
  intros [D O E W]. rewrite lenN_cons in E. unfold peekByte, eof. rewrite O.
  assert (Hlt : r_pkgEnd r <=? lenN pre = false) by (apply N.leb_gt; lia). rewrite Hlt.
  rewrite D. cbn [app]. rewrite byte_at_app. reflexivity.
Qed.

Lemma skipPrefix_roundtrip pfx : forall fuel r pre b rest post,
  Forall (fun c => c = 0x5c \/ c = 0x5e) pfx -> b <> 0x5c -> b <> 0x5e -> (length pfx < fuel)%nat ->
  at_token r pre (pfx ++ b :: rest) post ->
  skipPrefix_go fuel r = Ok (true, set_offset_raw r (lenN pre + lenN pfx)) /\
  at_token (set_offset_raw r (lenN pre + lenN pfx)) (pre ++ pfx) (b :: rest) post.
Proof.
  induction pfx as [|c pfx IH]; intros fuel r pre b rest post Hp Hb1 Hb2 Hf T; (destruct fuel as [|fuel]; [cbn in Hf; lia|]).
  - cbn [app] in T. cbn [skipPrefix_go]. rewrite (peek_token _ _ _ _ _ T). cbn [bind].
    assert (E : (b =? 92) || (b =? 94) = false).
    { apply orb_false_iff. split; apply N.eqb_neq; assumption. }
    rewrite E. change (lenN (@nil N)) with 0. rewrite N.add_0_r, app_nil_r.
    assert (ER : set_offset_raw r (lenN pre) = r) by (destruct T as [D O _ _]; rewrite <- O; destruct r; reflexivity).
    rewrite ER. split; [reflexivity|exact T].
  - cbn [app] in T. cbn [skipPrefix_go]. rewrite (peek_token _ _ _ _ _ T). cbn [bind].
    inversion Hp as [|? ? Hc Hp']; subst.
    assert (E : (c =? 92) || (c =? 94) = true).
    { apply orb_true_iff. destruct Hc as [->| ->]; [left|right]; reflexivity. }
    rewrite E.
    destruct (read_token _ _ _ _ _ T) as (R & T1). rewrite R. cbn [bind].
    destruct (IH fuel _ (pre ++ [c]) b rest post Hp' Hb1 Hb2 ltac:(cbn in Hf; lia) T1) as (SK & T2).
    rewrite SK. rewrite set_offset_raw_twice in *. rewrite lenN_app in *. change (lenN [c]) with 1 in *.
    rewrite lenN_cons.
    replace (lenN pre + (1 + lenN pfx)) with (lenN pre + 1 + lenN pfx) by lia.
    split; [reflexivity|]. rewrite <- app_assoc in T2. exact T2.
Qed.

Lemma lenN_seg_bytes s : lenN (seg_bytes s) = 4. Proof. reflexivity. Qed.
Lemma lenN_flat_seg segs : lenN (flat_map seg_bytes segs) = lenN segs * 4.
Proof.
  induction segs as [|s segs IH]; [reflexivity|].
  cbn [flat_map]. rewrite lenN_app, lenN_seg_bytes, IH, lenN_cons. lia.
Qed.

(** the length of the []byte the parser returns: the encoding without a NullName terminator *)
Definition name_slice_len (n : namestr) : N :=
  match n_segs n with [] => lenN (enc_name n) - 1 | _ => lenN (enc_name n) end.

Lemma at_token_facts r pre tok post : at_token r pre tok post ->
  r_offset r = lenN pre /\ lenN pre + lenN tok <= r_pkgEnd r /\ r_pkgEnd r <= r_len r /\ r_len r < two32.
Proof. intros [D O E (W1 & W2 & W3 & W4)]. auto. Qed.

Lemma set_offset_raw_fields r o : r_offset (set_offset_raw r o) = o /\ r_pkgEnd (set_offset_raw r o) = r_pkgEnd r /\
  r_len (set_offset_raw r o) = r_len r.
Proof. repeat split. Qed.

Lemma setOffset_small r o : o <= r_len r -> setOffset r o = set_offset_raw r o.
Proof. intros H. unfold setOffset. destruct (r_len r <? o) eqn:E; auto. apply N.ltb_lt in E. lia. Qed.

Lemma name_body_cases n :
  (n_segs n = [] /\ name_body n = [0]) \/
  (exists s, n_segs n = [s] /\ n_multi n = false /\ name_body n = seg_bytes s) \/
  (exists s1 s2, n_segs n = [s1; s2] /\ n_multi n = false /\ name_body n = 0x2e :: seg_bytes s1 ++ seg_bytes s2) \/
  (n_segs n <> [] /\ name_body n = 0x2f :: lenN (n_segs n) :: flat_map seg_bytes (n_segs n) /\
   (n_multi n = true \/ 2 < lenN (n_segs n))).
Proof.
  unfold name_body. destruct (n_segs n) as [|s1 [|s2 [|s3 rest]]].
  - left. auto.
  - destruct (n_multi n) eqn:Em.
    + right; right; right. split; [discriminate|]. split; [reflexivity|auto].
    + right; left. exists s1. cbn [flat_map]. rewrite app_nil_r. auto.
  - destruct (n_multi n) eqn:Em.
    + right; right; right. split; [discriminate|]. split; [reflexivity|auto].
    + right; right; left. exists s1, s2. cbn [flat_map]. rewrite app_nil_r. auto.
  - right; right; right. split; [discriminate|]. split.
    + assert (E : n_multi n || (2 <? lenN (s1 :: s2 :: s3 :: rest)) = true).
      { apply orb_true_iff. right. apply N.ltb_lt. rewrite !lenN_cons. lia. }
      rewrite E. reflexivity.
    + right. rewrite !lenN_cons. lia.
Qed.

Lemma w32_id x : x < two32 -> w32 x = x. Proof. apply w32_small. Qed.

Theorem name_roundtrip : forall n r pre post,
  wf_name n -> at_token r pre (enc_name n) post ->
  parseNameString r = Ok (mkSlice (Some (lenN pre)) (name_slice_len n), true, set_offset_raw r (lenN pre + lenN (enc_name n))).
Proof.
  intros n r pre post (Hcnt & Hlead) T.
  destruct (at_token_facts _ _ _ _ T) as (O & E & Wb & Wc).
  unfold name_slice_len. rewrite enc_name_split in *. rewrite lenN_app in *.
  assert (Hf : (length (name_prefix n) < stream_fuel r)%nat).
  { unfold stream_fuel. destruct T as [D _ _ _]. rewrite D, !app_length. lia. }
  pose proof (name_prefix_chars n) as Hpc.
  set (pfx := name_prefix n) in *.
  set (q := lenN pre + lenN pfx).
  assert (HP : forall body : list N, 1 <= lenN body -> lenN pre + (lenN pfx + lenN body) <= r_pkgEnd r -> dataPtr r = Ok (Some (lenN pre))).
  { intros body H1 H2. unfold dataPtr, eof. rewrite O.
    assert (E1 : r_pkgEnd r <=? lenN pre = false) by (apply N.leb_gt; lia). rewrite E1.
    assert (E2 : lenN pre <? r_len r = true) by (apply N.ltb_lt; lia). rewrite E2. reflexivity. }
  unfold parseNameString.
  destruct (name_body_cases n) as [(Es & Eb)|[(s & Es & Em & Eb)|[(s1 & s2 & Es & Em & Eb)|(Hne & Eb & Hm)]]];
    rewrite Eb in *; rewrite Es in * || idtac.
  - (* NullName *)
    rewrite (HP [0]) by (change (lenN [0]) with 1 in *; lia). cbn [bind]. rewrite O.
    destruct (skipPrefix_roundtrip pfx _ _ _ 0 [] post Hpc ltac:(discriminate) ltac:(discriminate) Hf T) as (SK & T1).
    rewrite SK. cbn [bind negb].
    destruct (read_token _ _ _ _ _ T1) as (R & _). rewrite R. cbn [bind]. rewrite set_offset_raw_twice.
    rewrite lenN_app. fold q. change (0 =? 0) with true. cbn iota.
    cbn [r_offset set_offset_raw]. change (lenN [0]) with 1 in *.
    f_equal. f_equal; [f_equal; f_equal; unfold w32, two32, q in *; lia|f_equal; unfold q; lia].
  - (* NameSeg *)
    assert (Hs4 : exists b0 b1 b2 b3, seg_bytes s = [b0; b1; b2; b3] /\ b0 = seg_lead s) by (unfold seg_bytes, seg_lead; eauto 10).
    destruct Hs4 as (b0 & b1 & b2 & b3 & E4 & Eb0). rewrite E4 in *.
    destruct Hlead as [Hm|Hl]; [congruence|]. unfold lead_char in Hl. rewrite <- Eb0 in Hl.
    change (lenN [b0; b1; b2; b3]) with 4 in *.
    rewrite (HP [b0; b1; b2; b3]) by (change (lenN [b0; b1; b2; b3]) with 4; lia). cbn [bind]. rewrite O.
    destruct (skipPrefix_roundtrip pfx _ _ _ b0 [b1; b2; b3] post Hpc ltac:(lia) ltac:(lia) Hf T) as (SK & T1).
    rewrite SK. cbn [bind negb].
    destruct (read_token _ _ _ _ _ T1) as (R & _). rewrite R. cbn [bind]. rewrite set_offset_raw_twice.
    rewrite lenN_app. fold q.
    assert (N0 : b0 =? 0 = false) by (apply N.eqb_neq; lia). rewrite N0.
    assert (N1 : b0 =? 46 = false) by (apply N.eqb_neq; lia). rewrite N1.
    assert (N2 : b0 =? 47 = false) by (apply N.eqb_neq; lia). rewrite N2.
    assert (N3 : ((b0 <? 65) || (90 <? b0)) && negb (b0 =? 95) = false).
    { destruct Hl as [Hl| ->]; [|reflexivity].
      assert (H1 : b0 <? 65 = false) by (apply N.ltb_ge; lia). assert (H2 : 90 <? b0 = false) by (apply N.ltb_ge; lia).
      rewrite H1, H2. reflexivity. }
    rewrite N3. cbn [r_offset r_pkgEnd set_offset_raw].
    change (w32 (aml_amlNameLen - 1)) with 3.
    rewrite w32_id by (unfold two32 in *; unfold q; lia).
    assert (Hok : r_pkgEnd r <? q + 1 + 3 = false) by (apply N.ltb_ge; unfold q; lia). rewrite Hok.
    rewrite setOffset_small by (cbn [r_len set_offset_raw]; unfold q; lia).
    rewrite set_offset_raw_twice. cbn [r_offset set_offset_raw].
    f_equal. f_equal; [f_equal; f_equal; unfold w32, two32, q in *; lia|f_equal; unfold q; lia].
  - (* DualNamePath *)
    assert (H8 : lenN (seg_bytes s1 ++ seg_bytes s2) = 8) by reflexivity.
    rewrite lenN_cons, H8 in *.
    rewrite (HP (46 :: seg_bytes s1 ++ seg_bytes s2)) by (rewrite lenN_cons, H8; lia). cbn [bind]. rewrite O.
    destruct (skipPrefix_roundtrip pfx _ _ _ 46 _ post Hpc ltac:(discriminate) ltac:(discriminate) Hf T) as (SK & T1).
    rewrite SK. cbn [bind negb].
    destruct (read_token _ _ _ _ _ T1) as (R & _). rewrite R. cbn [bind]. rewrite set_offset_raw_twice.
    rewrite lenN_app. fold q. change (46 =? 0) with false. change (46 =? 46) with true. cbn iota.
    cbn [r_offset r_pkgEnd set_offset_raw].
    change (w32 (aml_amlNameLen * 2)) with 8.
    rewrite w32_id by (unfold two32 in *; unfold q; lia).
    assert (Hok : r_pkgEnd r <? q + 1 + 8 = false) by (apply N.ltb_ge; unfold q; lia). rewrite Hok.
    rewrite setOffset_small by (cbn [r_len set_offset_raw]; unfold q; lia).
    rewrite set_offset_raw_twice. cbn [r_offset set_offset_raw].
    f_equal. f_equal; [f_equal; f_equal; unfold w32, two32, q in *; lia|f_equal; unfold q; lia].
  - (* MultiNamePath *)
    set (cnt := lenN (n_segs n)) in *.
    assert (Hcnt1 : 1 <= cnt).
    { unfold cnt. destruct (n_segs n); [congruence|]. rewrite lenN_cons. lia. }
    assert (HL : lenN (47 :: cnt :: flat_map seg_bytes (n_segs n)) = 2 + cnt * 4).
    { rewrite !lenN_cons, lenN_flat_seg. fold cnt. lia. }
    rewrite HL in *.
    assert (Hnz : match n_segs n with [] => lenN pfx + (2 + cnt * 4) - 1 | _ => lenN pfx + (2 + cnt * 4) end = lenN pfx + (2 + cnt * 4)).
    { destruct (n_segs n); [congruence|reflexivity]. }
    rewrite (HP (47 :: cnt :: flat_map seg_bytes (n_segs n))) by (rewrite HL; lia). cbn [bind]. rewrite O.
    destruct (skipPrefix_roundtrip pfx _ _ _ 47 _ post Hpc ltac:(discriminate) ltac:(discriminate) Hf T) as (SK & T1).
    rewrite SK. cbn [bind negb].
    destruct (read_token _ _ _ _ _ T1) as (R & T2). destruct (read_token _ _ _ _ _ T2) as (R2 & _).
    rewrite R. cbn [bind]. change (47 =? 0) with false. change (47 =? 46) with false. change (47 =? 47) with true. cbn iota.
    rewrite R2. cbn [bind]. rewrite !set_offset_raw_twice.
    rewrite !lenN_app. change (lenN [47]) with 1. fold q.
    assert (Hc0 : cnt =? 0 = false) by (apply N.eqb_neq; lia). rewrite Hc0.
    cbn [r_offset r_pkgEnd set_offset_raw].
    assert (Hw8 : w8 (cnt * aml_amlNameLen) = cnt * 4).
    { unfold w8, two8, aml_amlNameLen. apply N.mod_small. lia. }
    rewrite Hw8.
    rewrite w32_id by (unfold two32 in *; unfold q; lia).
    assert (Hok : r_pkgEnd r <? q + 1 + 1 + cnt * 4 = false) by (apply N.ltb_ge; unfold q; lia). rewrite Hok.
    rewrite setOffset_small by (cbn [r_len set_offset_raw]; unfold q; lia).
    rewrite set_offset_raw_twice. cbn [r_offset set_offset_raw].
    f_equal. f_equal; [f_equal; f_equal; rewrite Hnz; unfold w32, two32, q in *; lia|f_equal; unfold q; lia].
Qed.
