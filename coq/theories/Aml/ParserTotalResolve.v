(** C12 (stretch): the resolve passes chained - mergeScopeDirectives and relocateNamedObjects alternate (resolve_loop)
    without a panic; the invariant of mergeScopeDirectives survives a relocation. *)
From Coq Require Import NArith Arith List Bool Lia.
From Coq Require Import ZifyBool ZifyN ZifyNat.
From FF Require Import Lib.Word Gen.Consts_device_acpi_aml Gen.Consts_aml_tree Aml.Stream Aml.Lex Aml.LexProofs
  Aml.Tree Aml.Parser Aml.ParserProofs Aml.TreeSpec Aml.TreeProofs Aml.TreeProofsOps Aml.TreeProofsFind Aml.TreeProofsAnc
  Aml.ParserTotalTree Aml.ParserTotalTree2 Aml.ParserTotalLex Aml.ParserTotalTable Aml.ParserTotalBase Aml.ParserTotalLeaf
  Aml.ParserTotalConn Aml.ParserTotalNonNamed Aml.ParserTotalCalls Aml.ParserTotalReloc Aml.ParserTotalMerge.
Import ListNotations.
Local Open Scope N_scope.

Section ResolveK.
Variable KI : pstate -> ghost -> Prop.
Hypothesis K_counters : forall s g a b c, KI s g -> KI (with_counters s a b c) g.
Hypothesis K_move : forall s g c m tg (t2 : T) g2, TI s g -> KI s g -> In m (kids g c) -> is_sb s c -> is_sb s tg ->
  pframe (p_tree s) t2 -> shape_eq g g2 ->
  (forall q, kids g2 q = (if q =? c then remove1 m (kids g c) else kids g q) ++ (if q =? tg then [m] else [])) ->
  KI (with_tree s t2) g2.
Hypothesis K_free : forall s g y (t' : T) g', TI s g -> KI s g -> glive g y -> kids g y = [] -> scoped s g y ->
  fframe y (p_tree s) t' -> (forall p, kids g' p = remove1 y (kids g p)) ->
  (forall z, glive g' z <-> glive g z /\ z <> y) -> (forall o', tget t' y = Some o' -> o_opcode o' = opFreed) ->
  KI (with_tree s t') g'.
Hypothesis K_reloc : forall s g x xo op fl af par tg (t2 : T) g2 v,
  TI s g -> KI s g -> tget (p_tree s) x = Some xo -> opInfo (o_infoIndex xo) = Some (op, fl, af) ->
  hasFlag fl aml_pOpFlagNamed = true -> o_opcode xo <> aml_pOpIntScopeBlock -> o_tableHandle xo = p_handle s ->
  In x (kids g par) -> is_sb s tg -> glive g tg -> kids g x <> [] ->
  pframe (p_tree s) t2 -> shape_eq g g2 -> roots_iff g g2 ->
  (forall q, kids g2 q = (if q =? par then remove1 x (kids g par) else kids g q) ++ (if q =? tg then [x] else [])) ->
  KI (with_tree s (tset t2 (hd InvalidIndex (kids g x)) (set_value v))) g2.

(** what mergeScopeDirectives needs beyond [TI] and a live root *)
Definition JM (s : pstate) (g : ghost) : Prop :=
  groot g 0 /\ is_sb s 0 /\ tyS NoX (p_tables s) (p_handle s) (p_tree s) g /\ KI s g.

Lemma JM_counters s g a b c : JM s g -> JM (with_counters s a b c) g.
Proof. intros (A & B & C & D). split; [exact A|]. split; [exact B|]. split; [exact C|apply K_counters; exact D]. Qed.

Lemma JM_reloc s g x xo op fl af par tg (t2 : T) g2 v :
  TI s g -> JM s g -> tget (p_tree s) x = Some xo -> opInfo (o_infoIndex xo) = Some (op, fl, af) ->
  hasFlag fl aml_pOpFlagNamed = true -> o_opcode xo <> aml_pOpIntScopeBlock -> o_tableHandle xo = p_handle s ->
  In x (kids g par) -> is_sb s tg -> glive g tg -> kids g x <> [] ->
  pframe (p_tree s) t2 -> shape_eq g g2 -> roots_iff g g2 ->
  (forall q, kids g2 q = (if q =? par then remove1 x (kids g par) else kids g q) ++ (if q =? tg then [x] else [])) ->
  JM (with_tree s (tset t2 (hd InvalidIndex (kids g x)) (set_value v))) g2.
Proof.
  intros HT (Hr0 & Hsb0 & Hty & HK) Hxo Erow Enamed Hnsb Hh Hin Htg Hltg Hkx Hpf S2 R2 Hk.
  pose proof (ti_R _ _ HT) as HR.
  set (n := hd InvalidIndex (kids g x)).
  assert (Hn_in : In n (kids g x)) by (unfold n; destruct (kids g x); [contradiction|left; reflexivity]).
  (* objects other than [n] keep their payload; [n] keeps everything but its value *)
  assert (Hback : forall i o', tget (tset t2 n (set_value v)) i = Some o' ->
            exists o, tget (p_tree s) i = Some o /\ o_opcode o' = o_opcode o /\ o_infoIndex o' = o_infoIndex o /\
                      o_tableHandle o' = o_tableHandle o /\ o_name o' = o_name o /\ (i <> n -> o_value o' = o_value o)).
  { intros i o' Hg. rewrite get_tset in Hg. destruct (N.eqb_spec i n) as [->|Hne].
    - destruct (tget t2 n) as [o2|] eqn:E2; [|discriminate]. cbn [option_map] in Hg. inversion Hg; subst o'.
      destruct (pframe_inv _ _ _ _ Hpf E2) as (o & Ho & P1 & P2 & P3 & P4 & _).
      exists o. split; [exact Ho|]. cbn [set_value o_opcode o_infoIndex o_tableHandle o_name].
      repeat (split; [assumption|]). intros F; contradiction.
    - destruct (pframe_inv _ _ _ _ Hpf Hg) as (o & Ho & P1 & P2 & P3 & P4 & _ & _ & _ & P8).
      exists o. split; [exact Ho|]. repeat (split; [assumption|]). intros _. exact P8. }
  assert (Hfwd : forall i o, tget (p_tree s) i = Some o -> i <> n ->
            exists o', tget (tset t2 n (set_value v)) i = Some o' /\ o_opcode o' = o_opcode o /\ o_value o' = o_value o).
  { intros i o Ho Hne. destruct (proj2 Hpf _ _ Ho) as (o2 & Ho2 & P1 & _ & _ & _ & _ & _ & _ & P8).
    exists o2. rewrite get_tset. apply N.eqb_neq in Hne. rewrite Hne. auto. }
  split; [|split; [|split; [|eapply K_reloc; eauto]]].
  - intros q Hq. rewrite Hk in Hq. apply in_app_or in Hq. destruct Hq as [Hq|Hq].
    + revert Hq. destruct (N.eqb_spec q par) as [->|_]; intros Hq; [apply (Hr0 par); eapply remove1_In; exact Hq|apply (Hr0 q); exact Hq].
    + revert Hq. destruct (q =? tg); intros Hq; [|contradiction]. destruct Hq as [E|[]]. subst x. apply (Hr0 par). exact Hin.
  - destruct Hsb0 as (ro & Hro & Ero).
    assert (H0n : 0 <> n) by (intros E; apply (Hr0 x); rewrite E; exact Hn_in).
    destruct (Hfwd 0 ro Hro H0n) as (o' & Ho' & E1 & _). exists o'. split; [exact Ho'|congruence].
  - intros x' xo' Hg' Hop Hh' _. cbn [p_tree p_tables p_handle with_tree] in *.
    destruct (Hback x' xo' Hg') as (xo0 & Hxo0 & B1 & B2 & B3 & B4 & _).
    assert (Hop0 : o_opcode xo0 = aml_pOpScope) by congruence.
    assert (Hh0 : o_tableHandle xo0 = p_handle s) by congruence.
    destruct (Hty x' xo0 Hxo0 Hop0 Hh0 (fun F => F)) as (Hnl & Hnn & n' & c' & no' & co' & tbl & sl & K1 & K2 & K3 & K4 & K5 & K6 & K7 & K8 & K9).
    assert (Hxx : x' <> x).
    { intros ->. assert (xo0 = xo) by congruence. subst xo0. rewrite (Hnn _ _ _ Erow) in Enamed. discriminate. }
    assert (Hin_n' : In n' (kids g x')) by (rewrite K1; left; reflexivity).
    assert (Hin_c' : In c' (kids g x')) by (rewrite K1; right; left; reflexivity).
    assert (Hx'par : x' <> par).
    { intros ->. rewrite K1 in Hin. destruct Hin as [E|[E|[]]]; subst x.
      - apply Hkx. exact K2.
      - apply Hnsb. assert (co' = xo) by congruence. subst. exact K9. }
    assert (Hx'tg : x' <> tg).
    { intros ->. destruct Htg as (o & Ho & Eo). assert (o = xo0) by congruence. subst. rewrite Hop0 in Eo. discriminate. }
    assert (Hn'par : n' <> par) by (intros ->; rewrite K2 in Hin; contradiction).
    assert (Hn'tg : n' <> tg).
    { intros ->. destruct Htg as (o & Ho & Eo). assert (o = no') by congruence. subst. contradiction. }
    assert (Hsame : forall q, q <> par -> q <> tg -> kids g2 q = kids g q).
    { intros q Q1 Q2. rewrite Hk. apply N.eqb_neq in Q1. apply N.eqb_neq in Q2. rewrite Q1, Q2. apply app_nil_r. }
    assert (Hn'n : n' <> n) by (intros E; apply Hxx; eapply (R_parent_unique _ _ HR); [exact Hin_n'|rewrite E; exact Hn_in]).
    assert (Hc'n : c' <> n) by (intros E; apply Hxx; eapply (R_parent_unique _ _ HR); [exact Hin_c'|rewrite E; exact Hn_in]).
    destruct (Hfwd n' no' K3 Hn'n) as (no2 & Hno2 & F1 & F2).
    destruct (Hfwd c' co' K8 Hc'n) as (co2 & Hco2 & G1 & _).
    split; [congruence|]. split; [rewrite B2; exact Hnn|].
    exists n', c', no2, co2, tbl, sl.
    split; [rewrite Hsame; auto|]. split; [rewrite Hsame; auto|].
    repeat (split; [congruence|]). split; [exact K7|]. split; congruence.
Qed.

(** relocateNamedObjects keeps the invariant of mergeScopeDirectives *)
Notation MIK := (MI KI).

Lemma relocate_MI fuel s g : MIK NoX s g ->
  wp True (relocateNamedObjects fuel 0) s (fun _ s' => exists g', MIK NoX s' g').
Proof.
  intros [A B C D E F].
  eapply wp_weaken; [apply (proj1 (reloc_all JM JM_counters JM_reloc fuel) 0 s g A (conj C (conj D (conj E F))) B B (fun _ => D))|auto|].
  intros r s' (g' & HT' & S' & _ & (C' & D' & E' & F')). exists g'. constructor; auto.
  apply (shape_eq_glive _ _ _ S'). exact B.
Qed.

(** the loop of the resolve passes *)
Lemma resolve_loop_MI walkFuel : forall fuel s g, MIK NoX s g ->
  wp True (resolve_loop fuel walkFuel) s (fun _ s' => exists g', MIK NoX s' g').
Proof.
  induction fuel as [|fuel IH]; intros s g H; cbn [resolve_loop]; [apply wp_outOfFuel; exact I|].
  apply wp_bind. eapply wp_weaken; [apply (proj1 (merge_all KI K_counters K_move K_free walkFuel) 0 s g H (mi_live0 _ _ _ _ H))|auto|].
  intros mr s1 (g1 & H1 & _).
  destruct (pres_eqb mr RFailed); [apply wp_ret; eauto|].
  apply wp_bind. eapply wp_weaken; [apply (relocate_MI walkFuel s1 g1 H1)|auto|].
  intros rr s2 (g2 & H2).
  destruct (pres_eqb rr RFailed); [apply wp_ret; eauto|].
  destruct (pres_eqb mr ROk && pres_eqb rr ROk); [apply wp_ret; eauto|].
  apply wp_bind. apply wp_counters. apply (IH _ g2). apply MI_counters; [exact K_counters|exact H2].
Qed.
End ResolveK.

Theorem resolve_loop_never_panics : forall fuel walkFuel s g,
  R (p_tree s) g -> info_valid (p_tree s) -> pool_ok (p_tables s) (p_tree s) ->
  glive g 0 -> groot g 0 ->
  (exists o, tget (p_tree s) 0 = Some o /\ o_opcode o = aml_pOpIntScopeBlock) ->
  (forall d dobj, tget (p_tree s) d = Some dobj -> o_opcode dobj = aml_pOpScope -> o_tableHandle dobj = p_handle s ->
     name_lead (o_name dobj) = false /\
     (forall op fl af, opInfo (o_infoIndex dobj) = Some (op, fl, af) -> hasFlag fl aml_pOpFlagNamed = false) /\
     exists n c no co tbl sl,
       kids g d = [n; c] /\ kids g n = [] /\
       tget (p_tree s) n = Some no /\ o_opcode no <> aml_pOpIntScopeBlock /\ o_opcode no <> aml_pOpScope /\
       o_value no = Some (VBytes tbl sl) /\
       (forall s0 bytes, p_tables s0 = p_tables s -> slice_bytes s0 tbl sl = Ok bytes -> good_path bytes) /\
       tget (p_tree s) c = Some co /\ o_opcode co = aml_pOpIntScopeBlock) ->
  match resolve_loop fuel walkFuel s with
  | Ok (_, s') => exists g', R (p_tree s') g' /\ info_valid (p_tree s') /\ pool_ok (p_tables s') (p_tree s') /\
      glive g' 0 /\ groot g' 0 /\
      (exists o, tget (p_tree s') 0 = Some o /\ o_opcode o = aml_pOpIntScopeBlock) /\
      (forall d dobj, tget (p_tree s') d = Some dobj -> o_opcode dobj = aml_pOpScope -> o_tableHandle dobj = p_handle s' ->
         name_lead (o_name dobj) = false /\
         (forall op fl af, opInfo (o_infoIndex dobj) = Some (op, fl, af) -> hasFlag fl aml_pOpFlagNamed = false) /\
         exists n c no co tbl sl,
           kids g' d = [n; c] /\ kids g' n = [] /\
           tget (p_tree s') n = Some no /\ o_opcode no <> aml_pOpIntScopeBlock /\ o_opcode no <> aml_pOpScope /\
           o_value no = Some (VBytes tbl sl) /\
           (forall s0 bytes, p_tables s0 = p_tables s' -> slice_bytes s0 tbl sl = Ok bytes -> good_path bytes) /\
           tget (p_tree s') c = Some co /\ o_opcode co = aml_pOpIntScopeBlock)
  | Panic => False
  | OutOfFuel => True
  end.
Proof.
  intros fuel walkFuel s g HR Hi Hp H0 Hr0 Hsb Hty.
  set (K0 := fun (_ : pstate) (_ : ghost) => True).
  assert (HM : MI K0 NoX s g).
  { constructor; auto; [constructor; auto| |exact I]. intros d dobj Hd Hop Hh _. exact (Hty d dobj Hd Hop Hh). }
  pose proof (resolve_loop_MI K0 (fun _ _ _ _ _ _ => I) (fun _ _ _ _ _ _ _ _ _ _ _ _ _ _ _ => I)
                 (fun _ _ _ _ _ _ _ _ _ _ _ _ _ _ => I) (fun _ _ _ _ _ _ _ _ _ _ _ _ _ _ _ _ _ _ _ _ _ _ _ _ _ _ _ => I)
                 walkFuel fuel s g HM) as W. unfold wp in W.
  destruct (resolve_loop fuel walkFuel s) as [[r s']| |]; auto.
  destruct W as (g' & [[A B C] D E F G _]). exists g'.
  repeat (split; [assumption|]).
  intros d dobj Hd Hop Hh. exact (G d dobj Hd Hop Hh (fun K => K)).
Qed.
