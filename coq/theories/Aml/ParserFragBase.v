(** C11 (fragment proofs): exact Hoare-style reasoning about the parser model.

    The parser's object pool is described by a ghost forest [g] (C13's relation [R], Aml/TreeSpec.v) together
    with the list [pl] of the payloads of the pool slots ([Rep t g pl]).  Every tree primitive of the parser
    monad gets an exact step lemma: what it returns and the [Rep] of the new pool.  The lemmas are stated for
    the weakest-precondition predicate [wp] of Aml/ParserTotalBase.v (with [P := False]: no panic and no
    out-of-fuel). *)
From Coq Require Import NArith ZArith Arith List Bool Lia.
From Coq Require Import ZifyBool ZifyN ZifyNat.
From FF Require Import Lib.Word Gen.Consts_device_acpi_aml Gen.Consts_aml_tree Aml.Stream Aml.Lex Aml.LexProofs
  Aml.Tree Aml.TreeSpec Aml.TreeProofs Aml.TreeProofsOps Aml.TreeProofsFind Aml.Parser
  Aml.ParserTotalTree Aml.ParserTotalTree2 Aml.ParserTotalLex Aml.ParserTotalTable Aml.ParserTotalBase.
Import ListNotations.
Local Open Scope N_scope.

Ltac Zify.zify_post_hook ::= Z.div_mod_to_equations.

Ltac scbn := cbn [p_r p_tree p_scopeStack p_pkgEndStack p_streamEnd p_resolvePasses p_mergedScopes p_relocatedObjects
                  p_allBlocks p_handle p_tables
                  with_r with_tree with_scopeStack with_pkgEndStack with_counters with_allBlocks].
Ltac scbn_in H := cbn [p_r p_tree p_scopeStack p_pkgEndStack p_streamEnd p_resolvePasses p_mergedScopes p_relocatedObjects
                  p_allBlocks p_handle p_tables
                  with_r with_tree with_scopeStack with_pkgEndStack with_counters with_allBlocks] in H.

(** ---- payloads ---- *)
Record pay : Type := mkPay {
  y_op : N; y_info : N; y_th : N; y_name : Name; y_off : N; y_pkgEnd : N; y_val : option value
}.

Definition pay_of (o : Obj) : pay :=
  mkPay (o_opcode o) (o_infoIndex o) (o_tableHandle o) (o_name o) (o_amlOffset o) (o_pkgEnd o) (o_value o).

Definition pget (pl : list pay) (i : N) : option pay := nth_error pl (N.to_nat i).
Definition pupd (pl : list pay) (i : N) (f : pay -> pay) : list pay := list_upd pl (N.to_nat i) f.

Record Rep (t : T) (g : ghost) (pl : list pay) : Prop := mkRep {
  rep_R : R t g;
  rep_pl : map pay_of (t_pool t) = pl
}.

(** ---- lists ---- *)
Lemma nth_error_ext_eq {A} : forall (l l' : list A), (forall n, nth_error l n = nth_error l' n) -> l = l'.
Proof.
  induction l as [|x l IH]; intros [|y l'] H; auto.
  - specialize (H O). discriminate.
  - specialize (H O). discriminate.
  - pose proof (H O) as H0. cbn in H0. inversion H0; subst. f_equal. apply IH. intros n. apply (H (S n)).
Qed.

Lemma map_list_upd {A B} (h : A -> B) (f : A -> A) (f' : B -> B) :
  (forall x, h (f x) = f' (h x)) -> forall l n, map h (list_upd l n f) = list_upd (map h l) n f'.
Proof.
  intros Hf. induction l as [|x l IH]; intros n; cbn [list_upd map]; [destruct n; reflexivity|].
  destruct n; cbn [map]; [rewrite Hf; reflexivity|rewrite IH; reflexivity].
Qed.

Lemma list_upd_app_last {A} (l : list A) x f : list_upd (l ++ [x]) (length l) f = l ++ [f x].
Proof. induction l as [|y l IH]; cbn [app length list_upd]; [reflexivity|rewrite IH; reflexivity]. Qed.

Lemma pget_pupd pl i f j : pget (pupd pl i f) j = if j =? i then option_map f (pget pl j) else pget pl j.
Proof.
  unfold pget, pupd. rewrite nth_error_list_upd.
  destruct (N.eqb_spec j i) as [->|Hne]; [rewrite Nat.eqb_refl; reflexivity|].
  destruct (Nat.eqb_spec (N.to_nat j) (N.to_nat i)) as [E|E]; [apply N2Nat.inj in E; contradiction|reflexivity].
Qed.

Lemma pupd_length pl i f : length (pupd pl i f) = length pl.
Proof. apply list_upd_length. Qed.

Lemma pget_app_l pl x i : i < N.of_nat (length pl) -> pget (pl ++ [x]) i = pget pl i.
Proof. intros H. unfold pget. apply nth_error_app1. lia. Qed.

Lemma pget_app_last pl x : pget (pl ++ [x]) (N.of_nat (length pl)) = Some x.
Proof. unfold pget. rewrite Nat2N.id, nth_error_app2 by lia. rewrite Nat.sub_diag. reflexivity. Qed.

Lemma pget_lt pl i a : pget pl i = Some a -> i < N.of_nat (length pl).
Proof. unfold pget. intros H. assert (nth_error pl (N.to_nat i) <> None) by congruence. apply nth_error_Some in H0. lia. Qed.

Lemma pget_none pl i : N.of_nat (length pl) <= i -> pget pl i = None.
Proof. intros H. unfold pget. apply nth_error_None. lia. Qed.

Lemma pupd_app_last pl x f : pupd (pl ++ [x]) (N.of_nat (length pl)) f = pl ++ [f x].
Proof. unfold pupd. rewrite Nat2N.id. apply list_upd_app_last. Qed.

(** ---- reading through [Rep] ---- *)
Section RepFacts.
Context (t : T) (g : ghost) (pl : list pay) (H : Rep t g pl).

Lemma rep_len_pool : length pl = length (t_pool t).
Proof. rewrite <- (rep_pl _ _ _ H). apply map_length. Qed.

Lemma rep_len_g : length (g_kids g) = length pl.
Proof. rewrite rep_len_pool. apply (R_len _ _ (rep_R _ _ _ H)). Qed.

Lemma rep_get i a : pget pl i = Some a -> exists o, tget t i = Some o /\ pay_of o = a.
Proof.
  unfold pget, TreeSpec.get. rewrite <- (rep_pl _ _ _ H), nth_error_map.
  destruct (nth_error (t_pool t) (N.to_nat i)) as [o|]; cbn [option_map]; [|discriminate].
  intros E; inversion E. eauto.
Qed.

Lemma rep_get_inv i o : tget t i = Some o -> pget pl i = Some (pay_of o).
Proof. unfold pget, TreeSpec.get. rewrite <- (rep_pl _ _ _ H), nth_error_map. intros ->. reflexivity. Qed.

Lemma rep_live i a : pget pl i = Some a -> y_op a <> opFreed -> glive g i.
Proof.
  intros Hg Hl. destruct (rep_get _ _ Hg) as (o & Ho & E). apply (R_live_glive _ _ (rep_R _ _ _ H)).
  exists o. split; auto. subst a. exact Hl.
Qed.

Lemma rep_glive i : glive g i -> exists a, pget pl i = Some a /\ y_op a <> opFreed.
Proof.
  intros Hl. apply (R_live_glive _ _ (rep_R _ _ _ H)) in Hl. destruct Hl as (o & Ho & Hl).
  exists (pay_of o). split; [apply rep_get_inv; exact Ho|exact Hl].
Qed.

Lemma rep_ObjectAt i a : pget pl i = Some a -> y_op a <> opFreed -> ObjectAt t i = Some i.
Proof.
  intros Hg Hl. destruct (rep_get _ _ Hg) as (o & Ho & E). eapply ObjectAt_live; eauto.
  - apply (R_bound _ _ (rep_R _ _ _ H)).
  - subst a. exact Hl.
Qed.

Lemma rep_obj i a : pget pl i = Some a -> y_op a <> opFreed ->
  exists o, tget t i = Some o /\ pay_of o = a /\ o_index o = i /\
            o_first o = hd InvalidIndex (kids g i) /\ o_last o = last (kids g i) InvalidIndex.
Proof.
  intros Hg Hl. destruct (rep_get _ _ Hg) as (o & Ho & E). exists o. split; auto. split; auto.
  split; [apply (R_index _ _ (rep_R _ _ _ H) _ _ Ho)|].
  assert (Hl' : o_opcode o <> opFreed) by (subst a; exact Hl).
  destruct (R_kids _ _ (rep_R _ _ _ H) _ _ Ho Hl') as (F & L & _). auto.
Qed.

Lemma rep_sib p l1 c l2 : kids g p = l1 ++ c :: l2 ->
  exists o, tget t c = Some o /\ o_opcode o <> opFreed /\ o_index o = c /\ o_parent o = p /\
            o_prev o = last l1 InvalidIndex /\ o_next o = hd InvalidIndex l2.
Proof.
  intros Hk. pose proof (rep_R _ _ _ H) as HR.
  assert (Hin : In c (kids g p)) by (rewrite Hk; apply in_or_app; right; left; reflexivity).
  destruct (R_In_kids _ _ HR _ _ Hin) as ((po & Hpo & Hlpo) & _).
  destruct (R_kids _ _ HR _ _ Hpo Hlpo) as (_ & _ & Hch & _). rewrite Hk in Hch.
  destruct (chain_mid _ _ _ _ _ Hch) as (o & Ho & Hlo & Hp & Hpv & Hn).
  exists o. repeat split; auto. apply (R_index _ _ HR _ _ Ho).
Qed.

Lemma rep_root i a : pget pl i = Some a -> y_op a <> opFreed -> groot g i ->
  exists o, tget t i = Some o /\ o_parent o = InvalidIndex /\ o_prev o = InvalidIndex /\ o_next o = InvalidIndex.
Proof.
  intros Hg Hl Hr. destruct (rep_get _ _ Hg) as (o & Ho & E). pose proof (rep_R _ _ _ H) as HR.
  assert (Hl' : o_opcode o <> opFreed) by (subst a; exact Hl).
  exists o. split; auto. pose proof (proj1 (R_groot _ _ HR _ _ Ho Hl') Hr) as Hp.
  pose proof (R_up _ _ HR _ _ Ho Hl') as Hu. rewrite Hp, N.eqb_refl in Hu. tauto.
Qed.
End RepFacts.

(** ---- the ghost of a fresh slot ---- *)
Definition gnew (g : ghost) : ghost := mkGhost (g_kids g ++ [[]]) [].

Lemma kids_gnew g i : kids (gnew g) i = kids g i.
Proof. apply kids_app_nil. Qed.

Lemma len_gnew g : length (g_kids (gnew g)) = S (length (g_kids g)).
Proof. unfold gnew. cbn [g_kids]. rewrite app_length. cbn [length]. lia. Qed.

Lemma glive_gnew g x : g_free g = [] -> glive g x -> glive (gnew g) x.
Proof. intros Hf [A B]. split; [rewrite len_gnew; lia|cbn; tauto]. Qed.

Lemma glive_gnew_new g : glive (gnew g) (N.of_nat (length (g_kids g))).
Proof. split; [rewrite len_gnew; lia|cbn; tauto]. Qed.

Lemma len_set_kids g i l : length (g_kids (set_kids g i l)) = length (g_kids g).
Proof. apply set_kids_len. Qed.

Lemma desc_leaf g a x : kids g a = [] -> desc g a x -> x = a.
Proof.
  intros Hk Hd. induction Hd as [|p c Hd IH Hin]; [reflexivity|]. subst p. rewrite Hk in Hin. contradiction.
Qed.

(** ---- frames ---- *)
Lemma pay_eq_pay_of (o o' : Obj) : pay_eq o o' -> pay_of o' = pay_of o.
Proof. intros (E1 & E2 & E3 & E4 & E5 & E6 & E7 & E8). unfold pay_of. congruence. Qed.

Lemma pframe_pay (t t' : T) : pframe t t' -> map pay_of (t_pool t') = map pay_of (t_pool t).
Proof.
  intros [L Hf]. apply nth_error_ext_eq. intros n. rewrite !nth_error_map.
  destruct (nth_error (t_pool t) n) as [o|] eqn:E.
  - assert (Hg : tget t (N.of_nat n) = Some o) by (unfold TreeSpec.get; rewrite Nat2N.id; exact E).
    destruct (Hf _ _ Hg) as (o' & Hg' & Ep). unfold TreeSpec.get in Hg'. rewrite Nat2N.id in Hg'. rewrite Hg'.
    cbn [option_map]. f_equal. apply pay_eq_pay_of. exact Ep.
  - apply nth_error_None in E. assert (E' : nth_error (t_pool t') n = None) by (apply nth_error_None; lia).
    rewrite E'. reflexivity.
Qed.

(** ---- the tree edits ---- *)
Lemma rep_new (t : T) g pl opc th idx :
  Rep t g pl -> g_free g = [] -> N.of_nat (length pl) < InvalidIndex -> opc <> opFreed -> opcode_in_maps opc ->
  opcodeTableIndex opc true = Some idx ->
  exists t', newObject t opc th = Ok (t', N.of_nat (length pl)) /\
             Rep t' (gnew g) (pl ++ [mkPay opc idx th name_zero 0 0 None]).
Proof.
  intros H Hf Hroom Hopc Hmaps Hidx. pose proof (rep_R _ _ _ H) as HR.
  pose proof (rep_len_pool _ _ _ H) as Hlen. pose proof (rep_len_g _ _ _ H) as Hleng.
  destruct (newObject_R t g opc th HR) as (t' & p & E & HR' & _ & Hp).
  { split; auto. split; auto. intros _. rewrite Hleng. exact Hroom. }
  rewrite Hf in Hp. cbn [astep] in HR'. rewrite Hf in HR'. fold (gnew g) in HR'.
  exists t'. rewrite Hlen, <- Hp. split; [exact E|]. split; [exact HR'|].
  (* the payloads *)
  assert (Hfree : t_free t = InvalidIndex).
  { destruct (R_flist _ _ HR) as [Hc _]. rewrite Hf in Hc. exact Hc. }
  unfold newObject in E. rewrite Hfree, N.eqb_refl in E. cbn [bind] in E.
  rewrite pOpcodeTableIndex_eq, Hidx in E. cbn [bind] in E.
  set (t1 := mkTree (t_pool t ++ [blank_object (pool_len t)]) InvalidIndex) in E.
  assert (G1 : tget t1 (N.of_nat (length (t_pool t))) = Some (blank_object (pool_len t))).
  { unfold TreeSpec.get, t1. cbn [t_pool]. rewrite Nat2N.id, nth_error_app2 by lia. rewrite Nat.sub_diag. reflexivity. }
  rewrite (wr_ok _ _ _ _ G1) in E. cbn [bind] in E. inversion E; subst t' p.
  unfold tset, t1. cbn [t_pool]. rewrite Nat2N.id, list_upd_app_last, map_app, (rep_pl _ _ _ H). reflexivity.
Qed.

Lemma rep_tset (t : T) g pl p a f f' :
  Rep t g pl -> pget pl p = Some a -> y_op a <> opFreed ->
  (forall o, o_opcode o <> opFreed -> lk_eq o (f o)) -> (forall o, pay_of (f o) = f' (pay_of o)) ->
  Rep (tset t p f) g (pupd pl p f').
Proof.
  intros H Hg Hl Hlk Hf. destruct (rep_get _ _ _ H _ _ Hg) as (o & Ho & E). split.
  - apply R_tset_lk; [apply (rep_R _ _ _ H)|]. intros o' Ho'. apply Hlk. assert (o' = o) by congruence. subst. exact Hl.
  - unfold tset, pupd. cbn [t_pool]. rewrite (map_list_upd pay_of f f' Hf), (rep_pl _ _ _ H). reflexivity.
Qed.

Lemma rep_append (t : T) g pl o a :
  Rep t g pl -> glive g o -> glive g a -> groot g a -> ~ desc g a o ->
  exists t', append t o a = Ok t' /\ Rep t' (set_kids g o (kids g o ++ [a])) pl.
Proof.
  intros H H1 H2 H3 H4. destruct (append_full2 t g o a (rep_R _ _ _ H) H1 H2 H3 H4) as (t' & E & HR' & Hpf).
  exists t'. split; auto. split; [exact HR'|]. rewrite (pframe_pay _ _ Hpf). apply (rep_pl _ _ _ H).
Qed.

Lemma rep_detach (t : T) g pl o a :
  Rep t g pl -> In a (kids g o) ->
  exists t', detach t o a = Ok t' /\ Rep t' (set_kids g o (remove1 a (kids g o))) pl.
Proof.
  intros H Hin. destruct (detach_full t g o a (rep_R _ _ _ H) Hin) as (t' & E & HR' & Hpf).
  exists t'. split; auto. split; [exact HR'|]. rewrite (pframe_pay _ _ Hpf). apply (rep_pl _ _ _ H).
Qed.

(** ---- payload setters ---- *)
Definition ys_opcode (v : N) (a : pay) : pay := mkPay v (y_info a) (y_th a) (y_name a) (y_off a) (y_pkgEnd a) (y_val a).
Definition ys_info (v : N) (a : pay) : pay := mkPay (y_op a) v (y_th a) (y_name a) (y_off a) (y_pkgEnd a) (y_val a).
Definition ys_name (v : Name) (a : pay) : pay := mkPay (y_op a) (y_info a) (y_th a) v (y_off a) (y_pkgEnd a) (y_val a).
Definition ys_off (v : N) (a : pay) : pay := mkPay (y_op a) (y_info a) (y_th a) (y_name a) v (y_pkgEnd a) (y_val a).
Definition ys_pkgEnd (v : N) (a : pay) : pay := mkPay (y_op a) (y_info a) (y_th a) (y_name a) (y_off a) v (y_val a).
Definition ys_val (v : option value) (a : pay) : pay := mkPay (y_op a) (y_info a) (y_th a) (y_name a) (y_off a) (y_pkgEnd a) v.

(** [setter f f']: the write [f] keeps the links and acts as [f'] on the payload *)
Definition setter (f : Obj -> Obj) (f' : pay -> pay) : Prop :=
  (forall o, o_opcode o <> opFreed -> lk_eq o (f o)) /\ (forall o, pay_of (f o) = f' (pay_of o)).

Ltac setter_tac := split; [intros o Ho; unfold lk_eq; cbn; repeat split; auto; intros; try contradiction; try congruence
                          |intros o; reflexivity].

Lemma st_amlOffset v : setter (set_amlOffset v) (ys_off v). Proof. setter_tac. Qed.
Lemma st_pkgEnd v : setter (set_pkgEnd v) (ys_pkgEnd v). Proof. setter_tac. Qed.
Lemma st_value v : setter (set_value v) (ys_val v). Proof. setter_tac. Qed.
Lemma st_name v : setter (set_name v) (ys_name v). Proof. setter_tac. Qed.
Lemma st_infoIndex v : setter (set_infoIndex v) (ys_info v). Proof. setter_tac. Qed.
Lemma st_opcode v : v <> opFreed -> setter (set_opcode v) (ys_opcode v).
Proof. intros Hv. split; [intros o Ho; unfold lk_eq; cbn; repeat split; auto; intros; congruence|intros o; reflexivity]. Qed.

(** ---- wp steps over [Rep] ---- *)
Lemma wp_newObj_rep P opc idx s g pl (Q : N -> pstate -> Prop) :
  Rep (p_tree s) g pl -> g_free g = [] -> N.of_nat (length pl) < InvalidIndex -> opc <> opFreed -> opcode_in_maps opc ->
  opcodeTableIndex opc true = Some idx ->
  (forall t', Rep t' (gnew g) (pl ++ [mkPay opc idx (p_handle s) name_zero 0 0 None]) ->
              Q (N.of_nat (length pl)) (with_tree s t')) ->
  wp P (newObj opc) s Q.
Proof.
  intros H Hf Hroom Ho Hm Hi K. destruct (rep_new _ _ _ opc (p_handle s) idx H Hf Hroom Ho Hm Hi) as (t' & E & H').
  unfold wp, newObj. rewrite E. apply K. exact H'.
Qed.

Lemma wp_wrf_rep P p f f' a s g pl (Q : unit -> pstate -> Prop) :
  Rep (p_tree s) g pl -> pget pl p = Some a -> y_op a <> opFreed -> setter f f' ->
  (forall t', Rep t' g (pupd pl p f') -> Q tt (with_tree s t')) ->
  wp P (wrf p f) s Q.
Proof.
  intros H Hg Hl [S1 S2] K. destruct (rep_get _ _ _ H _ _ Hg) as (o & Ho & _).
  apply wp_wrf; [eauto|]. apply K. eapply rep_tset; eauto.
Qed.

Lemma wp_append_rep P o a s g pl (Q : unit -> pstate -> Prop) :
  Rep (p_tree s) g pl -> glive g o -> glive g a -> groot g a -> ~ desc g a o ->
  (forall t', Rep t' (set_kids g o (kids g o ++ [a])) pl -> Q tt (with_tree s t')) ->
  wp P (appendM (Some o) a) s Q.
Proof.
  intros H H1 H2 H3 H4 K. destruct (rep_append _ _ _ _ _ H H1 H2 H3 H4) as (t' & E & H').
  apply wp_appendM. exists t'. split; auto.
Qed.

Lemma wp_detachM' P o a s (Q : unit -> pstate -> Prop) :
  (exists t', detach (p_tree s) o a = Ok t' /\ Q tt (with_tree s t')) -> wp P (detachM (Some o) (Some a)) s Q.
Proof. intros H. unfold detachM. apply wp_bind. cbn [need]. apply wp_ret. apply wp_bind. apply wp_ret. apply wp_tu. exact H. Qed.

Lemma wp_detach_rep P o a s g pl (Q : unit -> pstate -> Prop) :
  Rep (p_tree s) g pl -> In a (kids g o) ->
  (forall t', Rep t' (set_kids g o (remove1 a (kids g o))) pl -> Q tt (with_tree s t')) ->
  wp P (detachM (Some o) (Some a)) s Q.
Proof.
  intros H Hin K. destruct (rep_detach _ _ _ _ _ H Hin) as (t' & E & H').
  apply wp_detachM'. exists t'. split; auto.
Qed.

Lemma wp_rdo_rep P p a s g pl (Q : Obj -> pstate -> Prop) :
  Rep (p_tree s) g pl -> pget pl p = Some a -> y_op a <> opFreed ->
  (forall o, pay_of o = a -> o_index o = p -> o_first o = hd InvalidIndex (kids g p) ->
             o_last o = last (kids g p) InvalidIndex -> Q o s) ->
  wp P (rdo p) s Q.
Proof.
  intros H Hg Hl K. destruct (rep_obj _ _ _ H _ _ Hg Hl) as (o & Ho & E1 & E2 & E3 & E4).
  apply wp_rdo. exists o. split; auto.
Qed.

Lemma wp_rdf_rep P p (f : Obj -> N) a s g pl (Q : N -> pstate -> Prop) :
  Rep (p_tree s) g pl -> pget pl p = Some a -> y_op a <> opFreed ->
  (forall o, pay_of o = a -> o_index o = p -> o_first o = hd InvalidIndex (kids g p) ->
             o_last o = last (kids g p) InvalidIndex -> Q (f o) s) ->
  wp P (rdf p f) s Q.
Proof.
  intros H Hg Hl K. destruct (rep_obj _ _ _ H _ _ Hg Hl) as (o & Ho & E1 & E2 & E3 & E4).
  apply wp_rdf. exists o. split; auto.
Qed.

(** reading the sibling links of the child [c] of [p] *)
Lemma wp_rdf_sib P p l1 c l2 (f : Obj -> N) s g pl (Q : N -> pstate -> Prop) :
  Rep (p_tree s) g pl -> kids g p = l1 ++ c :: l2 ->
  (forall o, o_index o = c -> o_parent o = p -> o_prev o = last l1 InvalidIndex -> o_next o = hd InvalidIndex l2 ->
             pget pl c = Some (pay_of o) -> Q (f o) s) ->
  wp P (rdf c f) s Q.
Proof.
  intros H Hk K. destruct (rep_sib _ _ _ H _ _ _ _ Hk) as (o & Ho & _ & E1 & E2 & E3 & E4).
  apply wp_rdf. exists o. split; auto. apply K; auto. eapply rep_get_inv; eauto.
Qed.

Lemma wp_objectAt_rep P i a s g pl (Q : N -> pstate -> Prop) :
  Rep (p_tree s) g pl -> pget pl i = Some a -> y_op a <> opFreed -> Q i s -> wp P (objectAt' i) s Q.
Proof. intros H Hg Hl K. apply wp_objectAt'; auto. eapply rep_ObjectAt; eauto. Qed.

Lemma wp_need P (o : N) s (Q : N -> pstate -> Prop) : Q o s -> wp P (need (Some o)) s Q.
Proof. intros H. exact H. Qed.

(** from a [wp False] to the value *)
Lemma wp_run {A} (m : M A) s (Q : A -> pstate -> Prop) : wp False m s Q -> exists a s', m s = Ok (a, s') /\ Q a s'.
Proof. unfold wp. destruct (m s) as [[a s']| |]; [eauto|tauto|tauto]. Qed.

Lemma wp_of_run {A} P (m : M A) s a s' (Q : A -> pstate -> Prop) : m s = Ok (a, s') -> Q a s' -> wp P m s Q.
Proof. intros E H. unfold wp. rewrite E. exact H. Qed.

Lemma wp_conseq {A} P (m : M A) s (Q Q' : A -> pstate -> Prop) :
  wp P m s Q' -> (forall a s', Q' a s' -> Q a s') -> wp P m s Q.
Proof. intros H K. eapply wp_weaken; eauto. Qed.
