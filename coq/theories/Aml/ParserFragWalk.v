(** C11 (fragment proofs): the tree walks of ParseAML that leave a tree alone.

    For each of mergeScopeDirectives, relocateNamedObjects, parseDeferredBlocks, resolveMethodCalls and
    connectNonNamedObjArgs: if every live object of the pool satisfies a local condition (read off its payload and
    its child list), the walk returns parseResultOk and the parser state is unchanged.  [fwalk f x]: the fuel [f]
    suffices for a walk below [x] (children first to last), [fwalkb] for the walks that go from the last child
    to the first. *)
From Coq Require Import NArith ZArith Arith List Bool Lia.
From Coq Require Import ZifyBool ZifyN ZifyNat.
From FF Require Import Lib.Word Gen.Consts_device_acpi_aml Gen.Consts_aml_tree Aml.Stream Aml.Lex Aml.LexProofs
  Aml.Tree Aml.TreeSpec Aml.TreeProofs Aml.TreeProofsOps Aml.TreeProofsFind Aml.Parser
  Aml.ParserTotalTree Aml.ParserTotalTree2 Aml.ParserTotalLex Aml.ParserTotalTable Aml.ParserTotalBase
  Aml.ParserFragBase Aml.ParserFragFirst Aml.ParserFragConn.
Import ListNotations.
Local Open Scope N_scope.

Ltac Zify.zify_post_hook ::= Z.div_mod_to_equations.

(** ---- unfolding equations ---- *)
Lemma mergeScopeDirectives_S fuel' objIndex : mergeScopeDirectives (S fuel') objIndex =
  (mlet obj <~ objectAt' objIndex ;;
  mlet firstArgIndex0 <~ rdf obj o_first ;;
  (if objIndex =? 0 then fun s => Ok (tt, with_counters s (p_resolvePasses s) 0 (p_relocatedObjects s)) else ret tt) ;;;
  mlet oo <~ rdo obj ;;
  mlet '(_, flags, _) <~ info (o_infoIndex oo) ;;
  if hasFlag flags aml_pOpFlagExecutable then ret ROk else
  mlet h <~ get p_handle ;;
  mlet r <~ (if (o_opcode oo =? aml_pOpScope) && (o_tableHandle oo =? h) then
          if o_first oo =? InvalidIndex then ret (inl RFailed) else
          mlet nameObj <~ objectAt' (o_first oo) ;;
          mlet no <~ rdo nameObj ;;
          match o_value no with
          | Some (VBytes tbl sl) =>
            mlet targetName <~ bytesOf tbl sl ;;
            mlet targetIndex <~ tq (fun t => Find t (o_parent oo) targetName) ;;
            if targetIndex =? InvalidIndex then
              mlet passes <~ get p_resolvePasses ;;
              mlet reloc <~ get p_relocatedObjects ;;
              if (1 <? passes) && (reloc =? 0) then ret (inl RFailed) else ret (inl RExtra)
            else
              mlet tgt <~ scopeOf targetIndex ;;
              match tgt with
              | None => ret (inl RFailed)
              | Some targetObj =>
                mlet lastIdx <~ rdf obj o_last ;;
                mlet contentsObj <~ objectAt' lastIdx ;;
                mlet firstArgIndex <~ rdf contentsObj o_first ;;
                mlet pf <~ poolFuel ;;
                moveContents_go pf contentsObj targetObj firstArgIndex ;;;
                freeM nameObj ;;;
                freeM contentsObj ;;;
                freeM obj ;;;
                (fun s => Ok (tt, with_counters s (p_resolvePasses s) (w32 (p_mergedScopes s + 1)) (p_relocatedObjects s))) ;;;
                ret (inr firstArgIndex)
              end
          | _ => panic
          end
        else ret (inr firstArgIndex0)) ;;
  match r with
  | inl res => ret res
  | inr firstArgIndex => mergeScope_loop fuel' firstArgIndex ROk
  end).
Proof. reflexivity. Qed.

Lemma mergeScope_loop_S fuel' siblingIndex res : mergeScope_loop (S fuel') siblingIndex res =
  (if siblingIndex =? InvalidIndex then ret res else
  mlet argObj <~ objectAt' siblingIndex ;;
  mlet nx <~ rdf argObj o_next ;;
  mlet ai <~ rdf argObj o_index ;;
  mlet r <~ mergeScopeDirectives fuel' ai ;;
  match r with
  | RFailed => ret RFailed
  | RExtra => mergeScope_loop fuel' nx RExtra
  | _ => mergeScope_loop fuel' nx res
  end).
Proof. reflexivity. Qed.

Lemma relocateNamedObjects_S fuel' objIndex : relocateNamedObjects (S fuel') objIndex =
  (mlet obj <~ objectAt' objIndex ;;
  mlet oo <~ rdo obj ;;
  mlet '(_, flags, _) <~ info (o_infoIndex oo) ;;
  (if objIndex =? 0 then fun s => Ok (tt, with_counters s (p_resolvePasses s) (p_mergedScopes s) 0) else ret tt) ;;;
  if hasFlag flags aml_pOpFlagExecutable then ret ROk else
  mlet h <~ get p_handle ;;
  mlet r <~ (if hasFlag flags aml_pOpFlagNamed && negb (o_first oo =? InvalidIndex) && (o_tableHandle oo =? h) && negb (o_opcode oo =? aml_pOpIntScopeBlock) then
          mlet nameObj <~ objectAt' (o_first oo) ;;
          mlet no <~ rdo nameObj ;;
          match valueBytes no with
          | None => ret (Some RFailed)
          | Some (tbl, sl) =>
            if aml_amlNameLen <? s_len sl then
              let nameIndex := s_len sl - aml_amlNameLen in
              mlet bytes <~ bytesOf tbl sl ;;
              mlet anc <~ tq (fun t => ClosestNamedAncestor t (Some obj)) ;;
              mlet targetIndex <~ tq (fun t => Find t anc (firstn (N.to_nat nameIndex) bytes)) ;;
              if targetIndex =? InvalidIndex then
                mlet passes <~ get p_resolvePasses ;;
                if aml_maxResolvePasses <? passes then ret (Some RFailed) else ret (Some RExtra)
              else
                mlet tgt <~ scopeOf targetIndex ;;
                match tgt with
                | None => ret (Some RFailed)
                | Some targetObj =>
                  mlet pf <~ poolFuel ;;
                  mlet inside <~ insideSelf_go pf (Some targetObj) obj ;;
                  if inside then ret (Some RFailed) else
                  mlet parIdx <~ rdf obj o_parent ;;
                  mlet par <~ objectAt parIdx ;;
                  detachM par (Some obj) ;;;
                  appendM (Some targetObj) obj ;;;
                  mlet fi <~ rdf obj o_first ;;
                  mlet nameObj2 <~ objectAt' fi ;;
                  wrf nameObj2 (set_value (Some (bytesValue tbl (mkSlice (match s_ptr sl with Some p => Some (p + nameIndex) | None => None end) aml_amlNameLen)))) ;;;
                  (fun s => Ok (tt, with_counters s (p_resolvePasses s) (p_mergedScopes s) (w32 (p_relocatedObjects s + 1)))) ;;;
                  ret None
                end
            else ret None
          end
        else ret None) ;;
  match r with
  | Some res => ret res
  | None =>
      mlet first <~ rdf obj o_first ;;
      relocate_loop fuel' first ROk
  end).
Proof. reflexivity. Qed.

Lemma relocate_loop_S fuel' siblingIndex res : relocate_loop (S fuel') siblingIndex res =
  (if siblingIndex =? InvalidIndex then ret res else
  mlet argObj <~ objectAt' siblingIndex ;;
  mlet nx <~ rdf argObj o_next ;;
  mlet ai <~ rdf argObj o_index ;;
  mlet r <~ relocateNamedObjects fuel' ai ;;
  match r with
  | RFailed => ret RFailed
  | RExtra => relocate_loop fuel' nx RExtra
  | _ => relocate_loop fuel' nx res
  end).
Proof. reflexivity. Qed.

Lemma parseDeferredBlocks_S fuel' parseFuel objIndex : parseDeferredBlocks (S fuel') parseFuel objIndex =
  (mlet obj <~ objectAt' objIndex ;;
  mlet oo <~ rdo obj ;;
  mlet '(_, flags, _) <~ info (o_infoIndex oo) ;;
  mlet h <~ get p_handle ;;
  if hasFlag flags aml_pOpFlagDeferParsing && (o_tableHandle oo =? h) then
    (fun s => Ok (tt, with_allBlocks s true)) ;;;
    mlet se <~ get p_streamEnd ;;
    setPkgEndM se ;;;
    setOffsetM (w32 (o_amlOffset oo + 1)) ;;;
    (if 0xff <? o_opcode oo then readByteM ;;; ret tt else ret tt) ;;;
    mlet res <~ parseObjectArgs parseFuel obj ;;
    if negb (pres_eqb res ROk) then ret RFailed else
    mlet n <~ get (fun s => S (length (p_pkgEndStack s))) ;;
    popAll_go n ;;;
    ret ROk
  else
    deferred_loop fuel' parseFuel (o_first oo)).
Proof. reflexivity. Qed.

Lemma deferred_loop_S fuel' parseFuel argIndex : deferred_loop (S fuel') parseFuel argIndex =
  (if argIndex =? InvalidIndex then ret ROk else
  mlet res <~ parseDeferredBlocks fuel' parseFuel argIndex ;;
  if negb (pres_eqb res ROk) then ret RFailed else
  mlet a <~ objectAt' argIndex ;;
  mlet nx <~ rdf a o_next ;;
  deferred_loop fuel' parseFuel nx).
Proof. reflexivity. Qed.

Lemma connectNonNamedObjArgs_S fuel' objIndex : connectNonNamedObjArgs (S fuel') objIndex =
  (mlet obj <~ objectAt' objIndex ;;
  mlet argIndex <~ rdf obj o_last ;;
  connectNonNamed_loop fuel' obj argIndex).
Proof. reflexivity. Qed.

Lemma connectNonNamed_loop_S fuel' obj argIndex : connectNonNamed_loop (S fuel') obj argIndex =
  (if argIndex =? InvalidIndex then ret ROk else
  mlet argObj <~ objectAt' argIndex ;;
  mlet ai <~ rdf argObj o_index ;;
  mlet res <~ connectNonNamedObjArgs fuel' ai ;;
  if negb (pres_eqb res ROk) then ret RFailed else
  mlet r <~ connectNonNamedObjArg fuel' obj argObj ;;
  if pres_eqb r RFailed then ret RFailed else
  mlet prev <~ rdf argObj o_prev ;; connectNonNamed_loop fuel' obj prev).
Proof. reflexivity. Qed.

Lemma resolveMethodCalls_S fuel' objIndex : resolveMethodCalls (S fuel') objIndex =
  (mlet obj <~ objectAt' objIndex ;;
  mlet argIndex <~ rdf obj o_last ;;
  resolveCalls_loop fuel' obj argIndex).
Proof. reflexivity. Qed.

Lemma resolveCalls_loop_S fuel' obj argIndex : resolveCalls_loop (S fuel') obj argIndex =
  (if argIndex =? InvalidIndex then ret ROk else
  mlet argObj <~ objectAt' argIndex ;;
  mlet ai <~ rdf argObj o_index ;;
  mlet res <~ resolveMethodCalls fuel' ai ;;
  if negb (pres_eqb res ROk) then ret RFailed else
  let continue := mlet prev <~ rdf argObj o_prev ;; resolveCalls_loop fuel' obj prev in
  mlet ao <~ rdo argObj ;;
  mlet h <~ get p_handle ;;
  if negb (o_opcode ao =? aml_pOpIntNamePathOrMethodCall) || negb (o_tableHandle ao =? h) then
    (mlet r <~ connectNonNamedObjArg fuel' obj argObj ;;
     if pres_eqb r RFailed then ret RFailed else continue)
  else
  match o_value ao with
  | Some (VBytes tbl sl) =>
    mlet expr <~ bytesOf tbl sl ;;
    mlet targetIndex <~ tq (fun t => Find t (o_parent ao) expr) ;;
    if targetIndex =? InvalidIndex then
      wrf argObj (set_opcode aml_pOpIntNamePath) ;;;
      mlet idx <~ tableIndex aml_pOpIntNamePath true ;;
      wrf argObj (set_infoIndex idx) ;;;
      continue
    else
      mlet resolvedObj <~ objectAt' targetIndex ;;
      mlet ro <~ rdo resolvedObj ;;
      if o_opcode ro =? aml_pOpMethod then
        wrf argObj (set_opcode aml_pOpIntMethodCall) ;;;
        mlet idx <~ tableIndex aml_pOpIntMethodCall true ;;
        wrf argObj (set_infoIndex idx) ;;;
        wrf argObj (set_value (Some (VIdx (o_index ro)))) ;;;
        mlet flagsObj <~ tq (fun t => ArgAt t (Some resolvedObj) 1) ;;
        match flagsObj with
        | None => ret RFailed
        | Some fo =>
          mlet fobj <~ rdo fo ;;
          match o_value fobj with
          | Some (VNum argCnt) =>
            mlet r <~ attachSiblingsAsArgs fuel' obj argObj (N.land argCnt 7) true ;;
            if negb (pres_eqb r ROk) then ret RFailed else continue
          | _ => ret RFailed
          end
        end
      else
        wrf argObj (set_opcode aml_pOpIntResolvedNamePath) ;;;
        mlet idx <~ tableIndex aml_pOpIntResolvedNamePath true ;;
        wrf argObj (set_infoIndex idx) ;;;
        wrf argObj (set_value (Some (VIdx (o_index ro)))) ;;;
        continue
  | _ => panic
  end).
Proof. reflexivity. Qed.

(** ---- fuel ---- *)
Section Walks.
Variable g : ghost.
Variable pl : list pay.

Fixpoint fwalk (f : nat) (x : N) : Prop :=
  match f with O => False | S f' => floop f' (kids g x) end
with floop (f : nat) (l : list N) : Prop :=
  match f with O => False | S f' => match l with [] => True | c :: r => fwalk f' c /\ floop f' r end end.

Fixpoint fwalkb (f : nat) (x : N) : Prop :=
  match f with O => False | S f' => floopb f' (rev (kids g x)) end
with floopb (f : nat) (l : list N) : Prop :=
  match f with O => False | S f' => match l with [] => True | c :: r => fwalkb f' c /\ floopb f' r end end.

Fixpoint deep (d : nat) (x : N) : Prop :=
  match d with O => False | S d' => forall c, In c (kids g x) -> deep d' c end.

Lemma fwalk_deep B : (forall y, (length (kids g y) <= B)%nat) ->
  forall d x f, deep d x -> (d * (B + 2) <= f)%nat -> fwalk f x.
Proof.
  intros HB. induction d as [|d IH]; intros x f Hd Hf; [destruct Hd|].
  destruct f as [|f1]; [lia|]. cbn [fwalk].
  assert (HL : forall l f1, (length l + 1 + d * (B + 2) <= f1)%nat -> (forall c, In c l -> deep d c) -> floop f1 l).
  { induction l as [|c r IHl]; intros f2 Hf2 Hall; (destruct f2 as [|f3]; [lia|]); cbn [floop]; [exact I|].
    split; [apply IH; [apply Hall; left; reflexivity|cbn [length] in Hf2; lia]|].
    apply IHl; [cbn [length] in Hf2; lia|]. intros c' Hc'. apply Hall. right. exact Hc'. }
  apply HL; [|exact Hd]. specialize (HB x). cbn [Nat.mul] in Hf. lia.
Qed.

Lemma fwalkb_deep B : (forall y, (length (kids g y) <= B)%nat) ->
  forall d x f, deep d x -> (d * (B + 2) <= f)%nat -> fwalkb f x.
Proof.
  intros HB. induction d as [|d IH]; intros x f Hd Hf; [destruct Hd|].
  destruct f as [|f1]; [lia|]. cbn [fwalkb].
  assert (HL : forall l f1, (length l + 1 + d * (B + 2) <= f1)%nat -> (forall c, In c l -> deep d c) -> floopb f1 l).
  { induction l as [|c r IHl]; intros f2 Hf2 Hall; (destruct f2 as [|f3]; [lia|]); cbn [floopb]; [exact I|].
    split; [apply IH; [apply Hall; left; reflexivity|cbn [length] in Hf2; lia]|].
    apply IHl; [cbn [length] in Hf2; lia|]. intros c' Hc'. apply Hall. right. exact Hc'. }
  apply HL; [rewrite rev_length; specialize (HB x); cbn [Nat.mul] in Hf; lia|].
  intros c Hc. apply Hd. apply in_rev. exact Hc.
Qed.

(** the children of a live object are live and have payloads *)
Lemma rep_kid_pay (t : T) p c : Rep t g pl -> In c (kids g p) -> exists a, pget pl c = Some a /\ y_op a <> opFreed.
Proof.
  intros H Hin. destruct (R_gwf _ _ (rep_R _ _ _ H) _ _ Hin) as (_ & Hl). apply (rep_glive _ _ _ H). exact Hl.
Qed.

Lemma state_counters_merge s : p_mergedScopes s = 0 -> with_counters s (p_resolvePasses s) 0 (p_relocatedObjects s) = s.
Proof. destruct s. cbn. intros ->. reflexivity. Qed.

Lemma state_counters_reloc s : p_relocatedObjects s = 0 -> with_counters s (p_resolvePasses s) (p_mergedScopes s) 0 = s.
Proof. destruct s. cbn. intros ->. reflexivity. Qed.

(** ---- mergeScopeDirectives ---- *)
Definition merge_ok (h : N) (a : pay) : Prop :=
  exists op flags af, opInfo (y_info a) = Some (op, flags, af) /\
    (hasFlag flags aml_pOpFlagExecutable = true \/ (y_op a =? aml_pOpScope) && (y_th a =? h) = false).

Section Merge.
Variable h : N.
Hypothesis Hall : forall y a, pget pl y = Some a -> y_op a <> opFreed -> merge_ok h a.

Definition MW (f : nat) : Prop := forall x a s, Rep (p_tree s) g pl -> p_handle s = h -> p_mergedScopes s = 0 ->
  pget pl x = Some a -> y_op a <> opFreed -> fwalk f x ->
  wp False (mergeScopeDirectives f x) s (fun r s' => r = ROk /\ s' = s).

Definition ML (f : nat) : Prop := forall p l1 l2 res s, Rep (p_tree s) g pl -> p_handle s = h -> p_mergedScopes s = 0 ->
  kids g p = l1 ++ l2 -> floop f l2 ->
  wp False (mergeScope_loop f (hd InvalidIndex l2) res) s (fun r s' => r = res /\ s' = s).

Lemma merge_walk f : ML f -> MW (S f).
Proof.
  intros IHl x a s H Hh Hm Ha Hl Hf. rewrite mergeScopeDirectives_S.
  apply wp_bind. eapply wp_objectAt_rep; [exact H|exact Ha|exact Hl|].
  apply wp_bind. eapply wp_rdf_rep; [exact H|exact Ha|exact Hl|]. intros o _ _ Hfirst _. rewrite Hfirst.
  apply wp_bind.
  assert (Hreset : wp False (if x =? 0 then fun s0 => Ok (tt, with_counters s0 (p_resolvePasses s0) 0 (p_relocatedObjects s0)) else ret tt) s
                     (fun _ s' => s' = s)).
  { destruct (x =? 0); [unfold wp; apply state_counters_merge; exact Hm|reflexivity]. }
  eapply wp_conseq; [exact Hreset|]. intros _ s' ->.
  apply wp_bind. eapply wp_rdo_rep; [exact H|exact Ha|exact Hl|]. intros oo Hpay _ Hfirst' _.
  destruct (Hall x a Ha Hl) as (op & flags & af & Hrow & Hcond). rewrite (pay_info _ _ Hpay).
  apply wp_bind. eapply wp_info; [exact Hrow|]. cbv beta iota.
  destruct (hasFlag flags aml_pOpFlagExecutable) eqn:Ex; [apply wp_ret; auto|].
  destruct Hcond as [Hc|Hc]; [discriminate|].
  apply wp_bind, wp_get. rewrite (pay_op _ _ Hpay), (pay_th _ _ Hpay), Hh, Hc.
  apply wp_bind. apply wp_ret. cbv iota.
  cbn [fwalk] in Hf. eapply wp_conseq; [apply (IHl x [] (kids g x) ROk s H Hh Hm eq_refl Hf)|]. intros r s' HQ. exact HQ.
Qed.

Lemma merge_loop f : MW f -> ML f -> ML (S f).
Proof.
  intros IHw IHl p l1 l2 res s H Hh Hm Hk Hf. rewrite mergeScope_loop_S.
  destruct l2 as [|c r]; cbn [hd]; [rewrite N.eqb_refl; apply wp_ret; auto|].
  assert (Hin : In c (kids g p)) by (rewrite Hk; apply in_or_app; right; left; reflexivity).
  destruct (rep_kid_pay _ _ _ H Hin) as (ac & Hac & Hlc).
  rewrite (rep_not_Inv _ _ _ _ _ H Hac).
  apply wp_bind. eapply wp_objectAt_rep; [exact H|exact Hac|exact Hlc|].
  apply wp_bind. eapply (wp_rdf_sib False p l1 c r); [exact H|exact Hk|]. intros o _ _ _ Hnext _. rewrite Hnext.
  apply wp_bind. eapply (wp_rdf_sib False p l1 c r); [exact H|exact Hk|]. intros o' Hidx _ _ _ _. rewrite Hidx.
  cbn [floop] in Hf. destruct Hf as [Hfc Hfr].
  apply wp_bind. eapply wp_conseq; [apply (IHw c ac s H Hh Hm Hac Hlc Hfc)|]. intros r0 s' (-> & ->).
  cbv iota. apply (IHl p (l1 ++ [c]) r res s H Hh Hm); [rewrite <- app_assoc; exact Hk|exact Hfr].
Qed.

Lemma merge_all : forall f, MW f /\ ML f.
Proof.
  induction f as [|f (IHw & IHl)].
  - split; intro; intros; cbn in *; contradiction.
  - split; [apply merge_walk; exact IHl|apply merge_loop; assumption].
Qed.
End Merge.

(** ---- relocateNamedObjects ---- *)
Definition reloc_ok (h : N) (y : N) (a : pay) : Prop :=
  exists op flags af, opInfo (y_info a) = Some (op, flags, af) /\
    (hasFlag flags aml_pOpFlagExecutable = true \/
     hasFlag flags aml_pOpFlagNamed && negb (hd InvalidIndex (kids g y) =? InvalidIndex) && (y_th a =? h) && negb (y_op a =? aml_pOpIntScopeBlock) = false \/
     exists p ap tbl sl, hd InvalidIndex (kids g y) = p /\ pget pl p = Some ap /\ y_op ap <> opFreed /\
                         y_val ap = Some (VBytes tbl sl) /\ s_len sl <= aml_amlNameLen).

Section Reloc.
Variable h : N.
Hypothesis Hall : forall y a, pget pl y = Some a -> y_op a <> opFreed -> reloc_ok h y a.

Definition RW (f : nat) : Prop := forall x a s, Rep (p_tree s) g pl -> p_handle s = h -> p_relocatedObjects s = 0 ->
  pget pl x = Some a -> y_op a <> opFreed -> fwalk f x ->
  wp False (relocateNamedObjects f x) s (fun r s' => r = ROk /\ s' = s).

Definition RL (f : nat) : Prop := forall p l1 l2 res s, Rep (p_tree s) g pl -> p_handle s = h -> p_relocatedObjects s = 0 ->
  kids g p = l1 ++ l2 -> floop f l2 ->
  wp False (relocate_loop f (hd InvalidIndex l2) res) s (fun r s' => r = res /\ s' = s).

Lemma reloc_walk f : RL f -> RW (S f).
Proof.
  intros IHl x a s H Hh Hm Ha Hl Hf. rewrite relocateNamedObjects_S.
  apply wp_bind. eapply wp_objectAt_rep; [exact H|exact Ha|exact Hl|].
  apply wp_bind. eapply wp_rdo_rep; [exact H|exact Ha|exact Hl|]. intros oo Hpay _ Hfirst _.
  destruct (Hall x a Ha Hl) as (op & flags & af & Hrow & Hcond). rewrite (pay_info _ _ Hpay).
  apply wp_bind. eapply wp_info; [exact Hrow|]. cbv beta iota.
  apply wp_bind.
  assert (Hreset : wp False (if x =? 0 then fun s0 => Ok (tt, with_counters s0 (p_resolvePasses s0) (p_mergedScopes s0) 0) else ret tt) s
                     (fun _ s' => s' = s)).
  { destruct (x =? 0); [unfold wp; apply state_counters_reloc; exact Hm|reflexivity]. }
  eapply wp_conseq; [exact Hreset|]. intros _ s' ->.
  destruct (hasFlag flags aml_pOpFlagExecutable) eqn:Ex; [apply wp_ret; auto|].
  assert (Hgo : wp False (mlet first <~ rdf x o_first ;; relocate_loop f first ROk) s (fun r s' => r = ROk /\ s' = s)).
  { apply wp_bind. eapply wp_rdf_rep; [exact H|exact Ha|exact Hl|]. intros o _ _ Hf1 _. rewrite Hf1.
    cbn [fwalk] in Hf. apply (IHl x [] (kids g x) ROk s H Hh Hm eq_refl Hf). }
  apply wp_bind, wp_get. rewrite Hfirst, (pay_op _ _ Hpay), (pay_th _ _ Hpay), Hh.
  destruct Hcond as [Hc|[Hc|Hc]]; [discriminate| |].
  - rewrite Hc. apply wp_bind. apply wp_ret. exact Hgo.
  - destruct Hc as (p & ap & tbl & sl & Ep & Hap & Hlp & Hval & Hlen).
    destruct (hasFlag flags aml_pOpFlagNamed && negb (hd InvalidIndex (kids g x) =? InvalidIndex) && (y_th a =? h) && negb (y_op a =? aml_pOpIntScopeBlock)).
    + rewrite Ep. apply wp_bind.
      apply wp_bind. eapply wp_objectAt_rep; [exact H|exact Hap|exact Hlp|].
      apply wp_bind. eapply wp_rdo_rep; [exact H|exact Hap|exact Hlp|]. intros nop Hpayp _ _ _.
      unfold valueBytes. rewrite (pay_val _ _ Hpayp), Hval.
      assert (E : aml_amlNameLen <? s_len sl = false) by (apply N.ltb_ge; exact Hlen). rewrite E.
      apply wp_ret. exact Hgo.
    + apply wp_bind. apply wp_ret. exact Hgo.
Qed.

Lemma reloc_loop f : RW f -> RL f -> RL (S f).
Proof.
  intros IHw IHl p l1 l2 res s H Hh Hm Hk Hf. rewrite relocate_loop_S.
  destruct l2 as [|c r]; cbn [hd]; [rewrite N.eqb_refl; apply wp_ret; auto|].
  assert (Hin : In c (kids g p)) by (rewrite Hk; apply in_or_app; right; left; reflexivity).
  destruct (rep_kid_pay _ _ _ H Hin) as (ac & Hac & Hlc).
  rewrite (rep_not_Inv _ _ _ _ _ H Hac).
  apply wp_bind. eapply wp_objectAt_rep; [exact H|exact Hac|exact Hlc|].
  apply wp_bind. eapply (wp_rdf_sib False p l1 c r); [exact H|exact Hk|]. intros o _ _ _ Hnext _. rewrite Hnext.
  apply wp_bind. eapply (wp_rdf_sib False p l1 c r); [exact H|exact Hk|]. intros o' Hidx _ _ _ _. rewrite Hidx.
  cbn [floop] in Hf. destruct Hf as [Hfc Hfr].
  apply wp_bind. eapply wp_conseq; [apply (IHw c ac s H Hh Hm Hac Hlc Hfc)|]. intros r0 s' (-> & ->).
  cbv iota. apply (IHl p (l1 ++ [c]) r res s H Hh Hm); [rewrite <- app_assoc; exact Hk|exact Hfr].
Qed.

Lemma reloc_all : forall f, RW f /\ RL f.
Proof.
  induction f as [|f (IHw & IHl)].
  - split; intro; intros; cbn in *; contradiction.
  - split; [apply reloc_walk; exact IHl|apply reloc_loop; assumption].
Qed.
End Reloc.

(** ---- parseDeferredBlocks ---- *)
Definition defer_ok (h : N) (a : pay) : Prop :=
  exists op flags af, opInfo (y_info a) = Some (op, flags, af) /\ hasFlag flags aml_pOpFlagDeferParsing && (y_th a =? h) = false.

Section Defer.
Variable h : N.
Hypothesis Hall : forall y a, pget pl y = Some a -> y_op a <> opFreed -> defer_ok h a.

Definition DW (f : nat) : Prop := forall pf x a s, Rep (p_tree s) g pl -> p_handle s = h ->
  pget pl x = Some a -> y_op a <> opFreed -> fwalk f x ->
  wp False (parseDeferredBlocks f pf x) s (fun r s' => r = ROk /\ s' = s).

Definition DL (f : nat) : Prop := forall pf p l1 l2 s, Rep (p_tree s) g pl -> p_handle s = h ->
  kids g p = l1 ++ l2 -> floop f l2 ->
  wp False (deferred_loop f pf (hd InvalidIndex l2)) s (fun r s' => r = ROk /\ s' = s).

Lemma defer_walk f : DL f -> DW (S f).
Proof.
  intros IHl pf x a s H Hh Ha Hl Hf. rewrite parseDeferredBlocks_S.
  apply wp_bind. eapply wp_objectAt_rep; [exact H|exact Ha|exact Hl|].
  apply wp_bind. eapply wp_rdo_rep; [exact H|exact Ha|exact Hl|]. intros oo Hpay _ Hfirst _.
  destruct (Hall x a Ha Hl) as (op & flags & af & Hrow & Hcond). rewrite (pay_info _ _ Hpay).
  apply wp_bind. eapply wp_info; [exact Hrow|]. cbv beta iota.
  apply wp_bind, wp_get. rewrite (pay_th _ _ Hpay), Hh, Hcond, Hfirst.
  cbn [fwalk] in Hf. apply (IHl pf x [] (kids g x) s H Hh eq_refl Hf).
Qed.

Lemma defer_loop f : DW f -> DL f -> DL (S f).
Proof.
  intros IHw IHl pf p l1 l2 s H Hh Hk Hf. rewrite deferred_loop_S.
  destruct l2 as [|c r]; cbn [hd]; [rewrite N.eqb_refl; apply wp_ret; auto|].
  assert (Hin : In c (kids g p)) by (rewrite Hk; apply in_or_app; right; left; reflexivity).
  destruct (rep_kid_pay _ _ _ H Hin) as (ac & Hac & Hlc).
  rewrite (rep_not_Inv _ _ _ _ _ H Hac).
  cbn [floop] in Hf. destruct Hf as [Hfc Hfr].
  apply wp_bind. eapply wp_conseq; [apply (IHw pf c ac s H Hh Hac Hlc Hfc)|]. intros r0 s' (-> & ->).
  change (negb (pres_eqb ROk ROk)) with false. cbv iota.
  apply wp_bind. eapply wp_objectAt_rep; [exact H|exact Hac|exact Hlc|].
  apply wp_bind. eapply (wp_rdf_sib False p l1 c r); [exact H|exact Hk|]. intros o _ _ _ Hnext _. rewrite Hnext.
  apply (IHl pf p (l1 ++ [c]) r s H Hh); [rewrite <- app_assoc; exact Hk|exact Hfr].
Qed.

Lemma defer_all : forall f, DW f /\ DL f.
Proof.
  induction f as [|f (IHw & IHl)].
  - split; intro; intros; cbn in *; contradiction.
  - split; [apply defer_walk; exact IHl|apply defer_loop; assumption].
Qed.
End Defer.

(** ---- connectNonNamedObjArg on an object that needs nothing ---- *)
Definition nonnamed_ok (h : N) (y : N) (a : pay) : Prop :=
  exists op flags af, opInfo (y_info a) = Some (op, flags, af) /\
    (hasFlag flags aml_pOpFlagNamed || negb (y_th a =? h) = true \/
     (argCount af <=? termArgIndex af) || (termArgIndex af <? N.of_nat (length (kids g y))) = true).

Lemma nonnamed_arg h fuel obj y a s (Q : pres -> pstate -> Prop) :
  Rep (p_tree s) g pl -> p_handle s = h -> pget pl y = Some a -> y_op a <> opFreed -> nonnamed_ok h y a -> Q ROk s ->
  wp False (connectNonNamedObjArg fuel obj y) s Q.
Proof.
  intros H Hh Ha Hl (op & flags & af & Hrow & Hcond) K. unfold connectNonNamedObjArg.
  apply wp_bind. eapply wp_rdo_rep; [exact H|exact Ha|exact Hl|]. intros ao Hpay _ _ _.
  rewrite (pay_info _ _ Hpay). apply wp_bind. eapply wp_info; [exact Hrow|]. cbv beta iota.
  apply wp_bind, wp_get. rewrite (pay_th _ _ Hpay), Hh.
  destruct (hasFlag flags aml_pOpFlagNamed || negb (y_th a =? h)) eqn:E1; [apply wp_ret; exact K|].
  destruct Hcond as [Hc|Hc]; [discriminate|].
  assert (Hlive : live (p_tree s) y) by (apply (R_live_glive _ _ (rep_R _ _ _ H)); eapply rep_live; eauto).
  apply wp_bind. eapply wp_tq; [apply (NumArgs_spec _ _ (rep_R _ _ _ H) y Hlive)|].
  rewrite Hc. apply wp_ret. exact K.
Qed.

Lemma last_rev_hd (l : list N) d : last (rev l) d = hd d l.
Proof. destruct l as [|x l]; [reflexivity|]. cbn [rev hd]. apply last_app_one. Qed.

(** ---- connectNonNamedObjArgs ---- *)
Section NonNamed.
Variable h : N.
Hypothesis Hall : forall y a, pget pl y = Some a -> y_op a <> opFreed -> nonnamed_ok h y a.

Definition NW (f : nat) : Prop := forall x a s, Rep (p_tree s) g pl -> p_handle s = h ->
  pget pl x = Some a -> y_op a <> opFreed -> fwalkb f x ->
  wp False (connectNonNamedObjArgs f x) s (fun r s' => r = ROk /\ s' = s).

Definition NL (f : nat) : Prop := forall p lr l2 s, Rep (p_tree s) g pl -> p_handle s = h ->
  kids g p = rev lr ++ l2 -> floopb f lr ->
  wp False (connectNonNamed_loop f p (hd InvalidIndex lr)) s (fun r s' => r = ROk /\ s' = s).

Lemma nonnamed_walk f : NL f -> NW (S f).
Proof.
  intros IHl x a s H Hh Ha Hl Hf. rewrite connectNonNamedObjArgs_S.
  apply wp_bind. eapply wp_objectAt_rep; [exact H|exact Ha|exact Hl|].
  apply wp_bind. eapply wp_rdf_rep; [exact H|exact Ha|exact Hl|]. intros o _ _ _ Hlast. rewrite Hlast.
  cbn [fwalkb] in Hf. rewrite <- (rev_involutive (kids g x)) at 1. rewrite last_rev_hd.
  apply (IHl x (rev (kids g x)) [] s H Hh); [rewrite rev_involutive, app_nil_r; reflexivity|exact Hf].
Qed.

Lemma nonnamed_loop f : NW f -> NL f -> NL (S f).
Proof.
  intros IHw IHl p lr l2 s H Hh Hk Hf. rewrite connectNonNamed_loop_S.
  destruct lr as [|c r]; cbn [hd]; [rewrite N.eqb_refl; apply wp_ret; auto|].
  cbn [rev] in Hk. rewrite <- app_assoc in Hk. cbn [app] in Hk.
  assert (Hin : In c (kids g p)) by (rewrite Hk; apply in_or_app; right; left; reflexivity).
  destruct (rep_kid_pay _ _ _ H Hin) as (ac & Hac & Hlc).
  rewrite (rep_not_Inv _ _ _ _ _ H Hac).
  apply wp_bind. eapply wp_objectAt_rep; [exact H|exact Hac|exact Hlc|].
  apply wp_bind. eapply (wp_rdf_sib False p (rev r) c l2); [exact H|exact Hk|]. intros o' Hidx _ _ _ _. rewrite Hidx.
  cbn [floopb] in Hf. destruct Hf as [Hfc Hfr].
  apply wp_bind. eapply wp_conseq; [apply (IHw c ac s H Hh Hac Hlc Hfc)|]. intros r0 s' (-> & ->).
  change (negb (pres_eqb ROk ROk)) with false. cbv iota.
  apply wp_bind. eapply (nonnamed_arg h); [exact H|exact Hh|exact Hac|exact Hlc|apply (Hall c ac Hac Hlc)|].
  change (pres_eqb ROk RFailed) with false. cbv iota.
  apply wp_bind. eapply (wp_rdf_sib False p (rev r) c l2); [exact H|exact Hk|]. intros o _ _ Hprev _ _. rewrite Hprev, last_rev_hd.
  apply (IHl p r (c :: l2) s H Hh); [exact Hk|exact Hfr].
Qed.

Lemma nonnamed_all : forall f, NW f /\ NL f.
Proof.
  induction f as [|f (IHw & IHl)].
  - split; intro; intros; cbn in *; contradiction.
  - split; [apply nonnamed_walk; exact IHl|apply nonnamed_loop; assumption].
Qed.
End NonNamed.

(** ---- resolveMethodCalls ---- *)
Definition calls_ok (h : N) (y : N) (a : pay) : Prop :=
  negb (y_op a =? aml_pOpIntNamePathOrMethodCall) || negb (y_th a =? h) = true /\ nonnamed_ok h y a.

Section Calls.
Variable h : N.
Hypothesis Hall : forall y a, pget pl y = Some a -> y_op a <> opFreed -> calls_ok h y a.

Definition CW (f : nat) : Prop := forall x a s, Rep (p_tree s) g pl -> p_handle s = h ->
  pget pl x = Some a -> y_op a <> opFreed -> fwalkb f x ->
  wp False (resolveMethodCalls f x) s (fun r s' => r = ROk /\ s' = s).

Definition CL (f : nat) : Prop := forall p lr l2 s, Rep (p_tree s) g pl -> p_handle s = h ->
  kids g p = rev lr ++ l2 -> floopb f lr ->
  wp False (resolveCalls_loop f p (hd InvalidIndex lr)) s (fun r s' => r = ROk /\ s' = s).

Lemma calls_walk f : CL f -> CW (S f).
Proof.
  intros IHl x a s H Hh Ha Hl Hf. rewrite resolveMethodCalls_S.
  apply wp_bind. eapply wp_objectAt_rep; [exact H|exact Ha|exact Hl|].
  apply wp_bind. eapply wp_rdf_rep; [exact H|exact Ha|exact Hl|]. intros o _ _ _ Hlast. rewrite Hlast.
  cbn [fwalkb] in Hf. rewrite <- (rev_involutive (kids g x)) at 1. rewrite last_rev_hd.
  apply (IHl x (rev (kids g x)) [] s H Hh); [rewrite rev_involutive, app_nil_r; reflexivity|exact Hf].
Qed.

Lemma calls_loop f : CW f -> CL f -> CL (S f).
Proof.
  intros IHw IHl p lr l2 s H Hh Hk Hf. rewrite resolveCalls_loop_S.
  destruct lr as [|c r]; cbn [hd]; [rewrite N.eqb_refl; apply wp_ret; auto|].
  cbn [rev] in Hk. rewrite <- app_assoc in Hk. cbn [app] in Hk.
  assert (Hin : In c (kids g p)) by (rewrite Hk; apply in_or_app; right; left; reflexivity).
  destruct (rep_kid_pay _ _ _ H Hin) as (ac & Hac & Hlc).
  rewrite (rep_not_Inv _ _ _ _ _ H Hac).
  apply wp_bind. eapply wp_objectAt_rep; [exact H|exact Hac|exact Hlc|].
  apply wp_bind. eapply (wp_rdf_sib False p (rev r) c l2); [exact H|exact Hk|]. intros o' Hidx _ _ _ _. rewrite Hidx.
  cbn [floopb] in Hf. destruct Hf as [Hfc Hfr].
  apply wp_bind. eapply wp_conseq; [apply (IHw c ac s H Hh Hac Hlc Hfc)|]. intros r0 s' (-> & ->).
  change (negb (pres_eqb ROk ROk)) with false. cbv iota zeta.
  apply wp_bind. eapply wp_rdo_rep; [exact H|exact Hac|exact Hlc|]. intros ao Hpay _ _ _.
  apply wp_bind, wp_get. destruct (Hall c ac Hac Hlc) as (Hc1 & Hc2).
  rewrite (pay_op _ _ Hpay), (pay_th _ _ Hpay), Hh, Hc1.
  apply wp_bind. eapply (nonnamed_arg h); [exact H|exact Hh|exact Hac|exact Hlc|exact Hc2|].
  change (pres_eqb ROk RFailed) with false. cbv iota.
  apply wp_bind. eapply (wp_rdf_sib False p (rev r) c l2); [exact H|exact Hk|]. intros o _ _ Hprev _ _. rewrite Hprev, last_rev_hd.
  apply (IHl p r (c :: l2) s H Hh); [exact Hk|exact Hfr].
Qed.

Lemma calls_all : forall f, CW f /\ CL f.
Proof.
  induction f as [|f (IHw & IHl)].
  - split; intro; intros; cbn in *; contradiction.
  - split; [apply calls_walk; exact IHl|apply calls_loop; assumption].
Qed.
End Calls.
End Walks.
