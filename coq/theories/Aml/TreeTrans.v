(** The hand-written model of ObjectTree (Aml/Tree.v) equals the Go -> Gallina translation of obj_tree.go
    (Gen/Trans_aml_tree.v, regenerated on every run by gen/gotrans in pool-pointer mode, gen/gotrans/ext_c13trans.go).
    Proofs; the statements are repeated in Props/C13_trans.v.

    [tr_tree] maps a model tree to the translation's record: the pool is the list of the translated objects
    (a name is the list of its four bytes), a model pointer [p] is the translation's [Some p], nil is [None]. *)
From Coq Require Import NArith PeanoNat List Bool Lia.
From FF Require Import Lib.Word Lib.GoOps Lib.GoPool Gen.Consts_aml_tree Gen.Trans_aml_tree Aml.Stream Aml.Tree.
Import ListNotations.
Local Open Scope N_scope.

Section WithValue.
Context {V : Type}.
Notation Obj := (Object V).
Notation Tree := (ObjectTree V).

Definition tr_obj (o : Obj) : @go_aml_Object V :=
  mk_go_aml_Object (o_opcode o) (o_infoIndex o) (o_tableHandle o) (name_bytes (o_name o)) (o_index o) (o_parent o)
                   (o_prev o) (o_next o) (o_first o) (o_last o) (o_amlOffset o) (o_pkgEnd o) (o_value o).

Definition tr_tree (t : Tree) : @go_aml_ObjectTree V :=
  mk_go_aml_ObjectTree (map tr_obj (t_pool t)) (t_free t).

(** outcome of the model -> result of the translation *)
Definition lift {A B} (f : A -> B) (r : outcome A) : gres B :=
  match r with Ok a => GOk (f a) | Panic => GPanic | OutOfFuel => GFuel end.

(** the tree with slot [p] replaced by [f] of it *)
Definition upd (t : Tree) (p : N) (f : Obj -> Obj) : Tree :=
  mkTree (list_upd (t_pool t) (N.to_nat p) f) (t_free t).

Lemma wr_upd : forall t p f, wr t p f = (do _ <- deref t p; Ok (upd t p f)).
Proof. reflexivity. Qed.

Lemma nth_error_list_upd : forall (l : list Obj) n m f,
  nth_error (list_upd l n f) m =
  if Nat.eqb n m then option_map f (nth_error l n) else nth_error l m.
Proof.
  induction l as [|x l IH]; intros n m f.
  - destruct n, m; simpl; try reflexivity. destruct (Nat.eqb n m); reflexivity.
  - destruct n as [|n], m as [|m]; simpl; try reflexivity. apply IH.
Qed.

Lemma length_list_upd : forall (l : list Obj) n f, length (list_upd l n f) = length l.
Proof. induction l; intros [|n] f; simpl; auto. Qed.

Lemma deref_upd : forall t q f p,
  deref (upd t q f) p =
  if q =? p then match deref t q with Ok o => Ok (f o) | e => e end else deref t p.
Proof.
  intros. unfold deref, upd. cbn [t_pool]. rewrite nth_error_list_upd.
  destruct (N.eqb_spec q p) as [->|ne].
  - rewrite Nat.eqb_refl. destruct (nth_error (t_pool t) (N.to_nat p)); reflexivity.
  - destruct (Nat.eqb_spec (N.to_nat q) (N.to_nat p)) as [e|_]; [apply N2Nat.inj in e; contradiction|reflexivity].
Qed.

Lemma pool_len_upd : forall t q f, pool_len (upd t q f) = pool_len t.
Proof. intros. unfold pool_len, upd. cbn [t_pool]. now rewrite length_list_upd. Qed.

Lemma t_free_upd : forall t q f, t_free (upd t q f) = t_free t.
Proof. reflexivity. Qed.

Lemma upd_free : forall t q f x, mkTree (t_pool (upd t q f)) x = upd (mkTree (t_pool t) x) q f.
Proof. reflexivity. Qed.

Lemma deref_mkTree : forall (t : Tree) x p, deref (mkTree (t_pool t) x) p = deref t p.
Proof. reflexivity. Qed.

(** ---- the translation's primitives on [tr_tree] ---- *)
Lemma gderef_tr : forall t p,
  gderef (f_ObjectTree_objPool (tr_tree t)) (Some p) =
  match deref t p with Ok o => Some (tr_obj o) | _ => None end.
Proof.
  intros. unfold gderef, gidxA, deref, tr_tree. cbn [f_ObjectTree_objPool].
  rewrite nth_error_map. destruct (nth_error (t_pool t) (N.to_nat p)); reflexivity.
Qed.

Lemma gderef_none : forall (l : list (@go_aml_Object V)), gderef l None = None.
Proof. reflexivity. Qed.

Lemma map_list_upd : forall (l : list Obj) n o f,
  nth_error l n = Some o ->
  firstn n (map tr_obj l) ++ tr_obj (f o) :: skipn (S n) (map tr_obj l) = map tr_obj (list_upd l n f).
Proof.
  induction l as [|x l IH]; intros [|n] o f H; simpl in *; try discriminate.
  - now inversion H.
  - f_equal. apply (IH n o f H).
Qed.

Lemma gpstore_tr : forall t p o f,
  deref t p = Ok o ->
  gpstore (f_ObjectTree_objPool (tr_tree t)) (Some p) (tr_obj (f o)) =
  Some (f_ObjectTree_objPool (tr_tree (upd t p f))).
Proof.
  intros t p o f H. unfold deref in H.
  destruct (nth_error (t_pool t) (N.to_nat p)) as [o'|] eqn:E; [|discriminate]. inversion H; subst o'.
  unfold gpstore, gsetA, glenA, tr_tree, upd. cbn [f_ObjectTree_objPool t_pool].
  assert (L : (N.to_nat p < length (t_pool t))%nat) by (apply nth_error_Some; congruence).
  rewrite map_length.
  replace (p <? N.of_nat (length (t_pool t))) with true by (symmetry; apply N.ltb_lt; lia).
  now rewrite (map_list_upd _ _ _ f E).
Qed.

Lemma set_pool_tr : forall t t',
  t_free t' = t_free t ->
  set_f_ObjectTree_objPool (tr_tree t) (f_ObjectTree_objPool (tr_tree t')) = tr_tree t'.
Proof. intros t t' H. unfold set_f_ObjectTree_objPool, tr_tree. cbn. now rewrite H. Qed.

Lemma set_pool_upd : forall t p f,
  set_f_ObjectTree_objPool (tr_tree t) (f_ObjectTree_objPool (tr_tree (upd t p f))) = tr_tree (upd t p f).
Proof. intros. now apply set_pool_tr. Qed.

Lemma free_tr : forall t, f_ObjectTree_freeListHeadIndex (tr_tree t) = t_free t.
Proof. reflexivity. Qed.

Lemma set_free_tr : forall t x,
  set_f_ObjectTree_freeListHeadIndex (tr_tree t) x = tr_tree (mkTree (t_pool t) x).
Proof. reflexivity. Qed.

Lemma glenA_tr : forall t, glenA (f_ObjectTree_objPool (tr_tree t)) = N.of_nat (length (t_pool t)).
Proof. intros. unfold glenA, tr_tree. cbn. now rewrite map_length. Qed.

(** field reads and writes commute with [tr_obj] *)
Lemma rd_fields : forall o : Obj,
  f_Object_opcode (tr_obj o) = o_opcode o /\ f_Object_infoIndex (tr_obj o) = o_infoIndex o /\
  f_Object_index (tr_obj o) = o_index o /\ f_Object_parentIndex (tr_obj o) = o_parent o /\
  f_Object_prevSiblingIndex (tr_obj o) = o_prev o /\ f_Object_nextSiblingIndex (tr_obj o) = o_next o /\
  f_Object_firstArgIndex (tr_obj o) = o_first o /\ f_Object_lastArgIndex (tr_obj o) = o_last o.
Proof. intros; repeat split. Qed.

Definition set_info (v : N) (o : Obj) : Obj :=
  mkObject (o_opcode o) v (o_tableHandle o) (o_name o) (o_index o) (o_parent o) (o_prev o) (o_next o) (o_first o) (o_last o) (o_amlOffset o) (o_pkgEnd o) (o_value o).
Definition set_th (v : N) (o : Obj) : Obj :=
  mkObject (o_opcode o) (o_infoIndex o) v (o_name o) (o_index o) (o_parent o) (o_prev o) (o_next o) (o_first o) (o_last o) (o_amlOffset o) (o_pkgEnd o) (o_value o).
Lemma set_info_tr : forall (o : Obj) x, set_f_Object_infoIndex (tr_obj o) x = tr_obj (set_info x o).
Proof. reflexivity. Qed.
Lemma set_th_tr : forall (o : Obj) x, set_f_Object_tableHandle (tr_obj o) x = tr_obj (set_th x o).
Proof. reflexivity. Qed.
Lemma set_opcode_tr : forall (o : Obj) x, set_f_Object_opcode (tr_obj o) x = tr_obj (set_opcode x o).
Proof. reflexivity. Qed.
Lemma set_name_tr : forall (o : Obj) x, set_f_Object_name (tr_obj o) (name_bytes x) = tr_obj (set_name x o).
Proof. reflexivity. Qed.
Lemma set_parent_tr : forall (o : Obj) x, set_f_Object_parentIndex (tr_obj o) x = tr_obj (set_parent x o).
Proof. reflexivity. Qed.
Lemma set_prev_tr : forall (o : Obj) x, set_f_Object_prevSiblingIndex (tr_obj o) x = tr_obj (set_prev x o).
Proof. reflexivity. Qed.
Lemma set_next_tr : forall (o : Obj) x, set_f_Object_nextSiblingIndex (tr_obj o) x = tr_obj (set_next x o).
Proof. reflexivity. Qed.
Lemma set_first_tr : forall (o : Obj) x, set_f_Object_firstArgIndex (tr_obj o) x = tr_obj (set_first x o).
Proof. reflexivity. Qed.
Lemma set_last_tr : forall (o : Obj) x, set_f_Object_lastArgIndex (tr_obj o) x = tr_obj (set_last x o).
Proof. reflexivity. Qed.
Lemma set_value_tr : forall (o : Obj) x, set_f_Object_value (tr_obj o) x = tr_obj (set_value x o).
Proof. reflexivity. Qed.

(** ---- ObjectAt ---- *)
Definition ObjectAt' (t : Tree) (index : N) : option N :=
  if pool_len t <=? index then None
  else match deref t index with
       | Ok o => if o_opcode o =? opFreed then None else Some index
       | _ => None
       end.

Lemma ObjectAt_eq : forall t i, ObjectAt t i = ObjectAt' t i.
Proof.
  intros. unfold ObjectAt, ObjectAt', deref.
  destruct (pool_len t <=? i); [reflexivity|].
  destruct (nth_error (t_pool t) (N.to_nat i)); reflexivity.
Qed.

Lemma w32_le : forall n, w32 n <= n.
Proof. intros. unfold w32. apply N.mod_le. discriminate. Qed.

Theorem ObjectAt_is_translation : forall (t : Tree) (index : N),
  go_aml_ObjectTree_ObjectAt (tr_tree t) index = GOk (tr_tree t, ObjectAt t index).
Proof.
  intros. rewrite ObjectAt_eq. unfold go_aml_ObjectTree_ObjectAt, ObjectAt', pool_len.
  rewrite glenA_tr. change (gw 32 ?x) with (w32 x).
  destruct (N.leb_spec (w32 (N.of_nat (length (t_pool t)))) index) as [le|lt]; [reflexivity|].
  unfold gpoolat. rewrite glenA_tr.
  pose proof (w32_le (N.of_nat (length (t_pool t)))) as W.
  replace (index <? N.of_nat (length (t_pool t))) with true by (symmetry; apply N.ltb_lt; lia).
  rewrite gderef_tr. unfold deref.
  destruct (nth_error (t_pool t) (N.to_nat index)) as [o|] eqn:E.
  - change (f_Object_opcode (tr_obj o)) with (o_opcode o). unfold opFreed.
    destruct (o_opcode o =? tree_pOpIntFreedObject); reflexivity.
  - exfalso. apply nth_error_None in E. lia.
Qed.

(** ---- constant updates: the normal form of a sequence of writes ---- *)
Definition put (t : Tree) (p : N) (x : Obj) : Tree := upd t p (fun _ => x).

Lemma list_upd_const : forall (l : list Obj) n f o, nth_error l n = Some o -> list_upd l n f = list_upd l n (fun _ => f o).
Proof. induction l as [|x l IH]; intros [|n] f o H; simpl in *; try discriminate; try reflexivity.
  - now inversion H. - f_equal. now apply IH. Qed.

Lemma wr_put : forall (t : Tree) p f, wr t p f = (do o <- deref t p; Ok (put t p (f o))).
Proof. intros. unfold wr, put, upd, deref, bind. destruct (nth_error (t_pool t) (N.to_nat p)) eqn:E; [|reflexivity].
  now rewrite (list_upd_const _ _ f o E). Qed.

Lemma deref_put : forall (t : Tree) q x p,
  deref (put t q x) p = if q =? p then match deref t q with Ok _ => Ok x | e => e end else deref t p.
Proof. intros. unfold put. rewrite deref_upd. destruct (q =? p); [|reflexivity]. destruct (deref t q); reflexivity. Qed.

Lemma gpstore_put : forall (t : Tree) p x,
  gpstore (f_ObjectTree_objPool (tr_tree t)) (Some p) (tr_obj x) =
  match deref t p with Ok _ => Some (f_ObjectTree_objPool (tr_tree (put t p x))) | _ => None end.
Proof. intros. destruct (deref t p) as [o| |] eqn:E.
  - apply (gpstore_tr t p o (fun _ => x) E).
  - unfold deref in E. destruct (nth_error (t_pool t) (N.to_nat p)) eqn:E2; [discriminate|].
    unfold gpstore, gsetA. rewrite glenA_tr. apply nth_error_None in E2.
    replace (p <? N.of_nat (length (t_pool t))) with false by (symmetry; apply N.ltb_ge; lia). reflexivity.
  - unfold deref in E. destruct (nth_error (t_pool t) (N.to_nat p)); discriminate.
Qed.

Lemma set_pool_put : forall (t : Tree) p x,
  set_f_ObjectTree_objPool (tr_tree t) (f_ObjectTree_objPool (tr_tree (put t p x))) = tr_tree (put t p x).
Proof. intros. apply set_pool_upd. Qed.
Lemma pool_len_put : forall (t : Tree) q x, pool_len (put t q x) = pool_len t.
Proof. intros. apply pool_len_upd. Qed.
Lemma t_free_put : forall (t : Tree) q x, t_free (put t q x) = t_free t.
Proof. reflexivity. Qed.

Lemma ObjectAt_deref_eq : forall (t : Tree) i, ObjectAt_deref t i = match ObjectAt' t i with Some p => Ok p | None => Panic end.
Proof. intros. unfold ObjectAt_deref. now rewrite ObjectAt_eq. Qed.

Lemma eqb_false_sym : forall a b : N, (a =? b) = false -> (b =? a) = false.
Proof. intros. now rewrite N.eqb_sym. Qed.


Lemma gpoolat_tr : forall (t : Tree) i,
  gpoolat (f_ObjectTree_objPool (tr_tree t)) i = match deref t i with Ok _ => Some (Some i) | _ => None end.
Proof.
  intros. unfold gpoolat, deref. rewrite glenA_tr.
  destruct (nth_error (t_pool t) (N.to_nat i)) eqn:E.
  - assert ((N.to_nat i < length (t_pool t))%nat) by (apply nth_error_Some; congruence).
    replace (i <? N.of_nat (length (t_pool t))) with true by (symmetry; apply N.ltb_lt; lia). reflexivity.
  - apply nth_error_None in E.
    replace (i <? N.of_nat (length (t_pool t))) with false by (symmetry; apply N.ltb_ge; lia). reflexivity.
Qed.

Lemma deref_not_fuel : forall (t : Tree) p, deref t p <> OutOfFuel.
Proof. intros. unfold deref. destruct (nth_error (t_pool t) (N.to_nat p)); discriminate. Qed.

Lemma put_put : forall (t : Tree) p x y, put (put t p x) p y = put t p y.
Proof.
  intros. unfold put, upd. cbn [t_pool t_free]. f_equal.
  generalize (N.to_nat p) as n. induction (t_pool t) as [|a l IH]; intros [|n]; simpl; try reflexivity. f_equal. apply IH.
Qed.

End WithValue.

(** ---- the stepping tactic: both sides are brought to case distinctions over the reads of the INITIAL tree and over
    equalities between pointers (aliasing), writes become nested [put]s ---- *)
Ltac fields := cbn [o_opcode o_infoIndex o_tableHandle o_name o_index o_parent o_prev o_next o_first o_last o_amlOffset o_pkgEnd o_value
                    set_opcode set_name set_parent set_prev set_next set_first set_last set_value set_amlOffset set_pkgEnd set_info set_th].

Ltac norm :=
  repeat first
  [ progress cbn [bind lift fst snd negb]
  | rewrite gderef_tr
  | rewrite gderef_none
  | rewrite ObjectAt_is_translation
  | rewrite ObjectAt_deref_eq
  | rewrite ObjectAt_eq
  | rewrite wr_put
  | rewrite gpstore_put
  | rewrite set_pool_put
  | rewrite free_tr
  | rewrite set_free_tr
  | rewrite pool_len_put
  | rewrite t_free_put
  | rewrite N.eqb_refl
  | rewrite set_info_tr | rewrite set_th_tr
  | rewrite set_opcode_tr | rewrite set_name_tr | rewrite set_parent_tr | rewrite set_prev_tr
  | rewrite set_next_tr | rewrite set_first_tr | rewrite set_last_tr | rewrite set_value_tr
  | progress change (f_Object_opcode (tr_obj ?o)) with (o_opcode o)
  | progress change (f_Object_index (tr_obj ?o)) with (o_index o)
  | progress change (f_Object_parentIndex (tr_obj ?o)) with (o_parent o)
  | progress change (f_Object_prevSiblingIndex (tr_obj ?o)) with (o_prev o)
  | progress change (f_Object_nextSiblingIndex (tr_obj ?o)) with (o_next o)
  | progress change (f_Object_firstArgIndex (tr_obj ?o)) with (o_first o)
  | progress change (f_Object_lastArgIndex (tr_obj ?o)) with (o_last o)
  | progress change (f_Object_infoIndex (tr_obj ?o)) with (o_infoIndex o)
  | progress fields
  | match goal with
    | H : deref ?T ?p = _ |- context [deref ?T ?p] => rewrite H
    | H : (?a =? ?b) = _ |- context [?a =? ?b] => rewrite H
    | H : (?a =? ?b) = false |- context [?b =? ?a] => rewrite (eqb_false_sym a b H)
    | H : (?a =? ?b) = true |- context [?b =? ?a] => rewrite (N.eqb_sym b a), H
    | H : (?a <=? ?b) = _ |- context [?a <=? ?b] => rewrite H
    end
  | rewrite deref_put
  ].

Ltac dedup :=
  repeat match goal with
  | H1 : deref ?T ?p = Ok ?a, H2 : deref ?T ?p = Ok ?b |- _ =>
      let X := fresh in assert (X : a = b) by congruence; subst b; clear H2
  | H1 : deref ?T ?p = Ok _, H2 : deref ?T ?p = Panic |- _ => congruence
  | H1 : deref ?T ?p = Ok _, H2 : deref ?T ?p = OutOfFuel |- _ => congruence
  end.

Ltac split1 :=
  match goal with
  | |- context [deref ?T ?p] =>
      is_var T; let H := fresh "D" in destruct (deref T p) eqn:H; [ | | exfalso; exact (deref_not_fuel _ _ H)]
  | |- context [if (?a =? ?b) then _ else _] =>
      let E := fresh "E" in let E' := fresh "E" in
      destruct (a =? b) eqn:E; [pose proof E as E'; apply N.eqb_eq in E'; try subst; dedup|]
  | |- context [if negb (?a =? ?b) then _ else _] =>
      let E := fresh "E" in let E' := fresh "E" in
      destruct (a =? b) eqn:E; [pose proof E as E'; apply N.eqb_eq in E'; try subst; dedup|]
  | |- context [if (?a <=? ?b) then _ else _] => destruct (a <=? b) eqn:?
  | |- context [match ObjectAt' ?T ?i with _ => _ end] => unfold ObjectAt'
  end.

Ltac go := repeat (norm; try reflexivity; try split1).

(** ---- statement-wise proofs: an if statement without jumps is translated as a JOIN
    [match (if c then .. else GOk state) with GOk st => rest | ..]; the model is cut at the same points, and the part
    after the join is proved for EVERY tree, so that the case distinctions of the statements add up instead of multiplying ---- *)
Definition gjoin {A B} (x : gres A) (k : A -> gres B) : gres B :=
  match x with GOk a => k a | GPanic => GPanic | GFuel => GFuel end.

Ltac at_join := match goal with |- (match ?X with GOk _ => _ | GPanic => _ | GFuel => _ end) = _ => idtac end.
Ltac fold_join :=
  match goal with
  | |- (match ?X with GOk st => @?K st | GPanic => GPanic | GFuel => GFuel end) = ?R => change (gjoin X K = R)
  end.
Ltac goj := repeat (norm; try reflexivity; tryif at_join then fail else split1).


Section Theorems.
Context {V : Type}.
Notation Obj := (Object V).
Notation Tree := (ObjectTree V).

(** the oracle that stands for pOpcodeTableIndex in the translation of newObject: the model's own function
    (tied to parser_opcode_table.go by the regenerated tables, differential testing and the source pin) *)
Definition table_oracle (opc : N) (b : bool) : option N :=
  match pOpcodeTableIndex opc b with Ok v => Some v | _ => None end.

Lemma pOpcodeTableIndex_not_fuel : forall opc b, pOpcodeTableIndex opc b <> OutOfFuel.
Proof.
  intros. unfold pOpcodeTableIndex. destruct (opc <=? 255).
  - destruct (nth_error tree_opcodeMap (N.to_nat opc)); discriminate.
  - destruct (nth_error tree_extendedOpcodeMap (N.to_nat (opc - 255))); [|discriminate].
    destruct ((n =? tree_badOpcode) && b); discriminate.
Qed.

Lemma deref_app_last : forall (t : Tree) x fr,
  deref (mkTree (t_pool t ++ [x]) fr) (N.of_nat (length (t_pool t))) = Ok x.
Proof. intros. unfold deref. cbn [t_pool]. rewrite Nat2N.id, nth_error_app2 by lia. now rewrite Nat.sub_diag. Qed.

Lemma tr_tree_app : forall (t : Tree) x,
  set_f_ObjectTree_objPool (tr_tree t) (gpappend (f_ObjectTree_objPool (tr_tree t)) (tr_obj x)) =
  tr_tree (mkTree (t_pool t ++ [x]) (t_free t)).
Proof. intros. unfold tr_tree, gpappend, set_f_ObjectTree_objPool. cbn. now rewrite map_app. Qed.

Theorem newObject_is_translation : forall (t : Tree) (opcode th : N),
  go_aml_ObjectTree_newObject (tr_tree t) opcode th table_oracle =
  lift (fun '(t', p) => (tr_tree t', Some p)) (newObject t opcode th).
Proof.
  intros. unfold go_aml_ObjectTree_newObject, newObject, table_oracle. unfold InvalidIndex.
  cbv zeta. rewrite free_tr.
  destruct (t_free t =? tree_InvalidIndex) eqn:F; cbn [negb bind].
  - (* no freed slot: the pool grows *)
    unfold gpnewptr. rewrite glenA_tr.
    change (gw 32 (N.of_nat (length (t_pool t)))) with (pool_len t).
    change (set_f_Object_index (mk_go_aml_Object 0 0 0 (gpad tree_amlNameLen nil) 0 0 0 0 0 0 0 0 None) (pool_len t))
      with (tr_obj (@blank_object V (pool_len t))).
    rewrite tr_tree_app.
    pose proof (deref_app_last t (blank_object (pool_len t)) (t_free t)) as D.
    set (T1 := mkTree (t_pool t ++ [blank_object (pool_len t)]) (t_free t)) in *.
    set (p := N.of_nat (length (t_pool t))) in *.
    destruct (pOpcodeTableIndex opcode true) as [info| |] eqn:PI.
    + change (gpad tree_amlNameLen nil) with (name_bytes name_zero).
      go. rewrite !put_put. reflexivity.
    + go.
    + exfalso; exact (pOpcodeTableIndex_not_fuel _ _ PI).
  - (* the head of the free list is reused *)
    rewrite gpoolat_tr.
    destruct (deref t (t_free t)) as [o| |] eqn:D; cbn [bind];
      [ | reflexivity | exfalso; exact (deref_not_fuel _ _ D)].
    rewrite gderef_tr, D. change (f_Object_nextSiblingIndex (tr_obj o)) with (o_next o).
    rewrite set_free_tr.
    assert (D1 : deref (mkTree (t_pool t) (o_next o)) (t_free t) = Ok o) by exact D.
    set (T1 := mkTree (t_pool t) (o_next o)) in *.
    destruct (pOpcodeTableIndex opcode true) as [info| |] eqn:PI.
    + change (gpad tree_amlNameLen nil) with (name_bytes name_zero).
      go. rewrite !put_put. reflexivity.
    + go.
    + exfalso; exact (pOpcodeTableIndex_not_fuel _ _ PI).
Qed.

Theorem newNamedObject_is_translation : forall (t : Tree) (opcode th : N) (nm : Name),
  go_aml_ObjectTree_newNamedObject (tr_tree t) opcode th (name_bytes nm) table_oracle =
  lift (fun '(t', p) => (tr_tree t', Some p)) (newNamedObject t opcode th nm).
Proof.
  intros. unfold go_aml_ObjectTree_newNamedObject, newNamedObject.
  rewrite newObject_is_translation.
  destruct (newObject t opcode th) as [[t1 p]| |]; cbn [lift bind]; try reflexivity.
  go.
Qed.

Theorem append_is_translation : forall (t : Tree) (obj arg : N),
  go_aml_ObjectTree_append (tr_tree t) (Some obj) (Some arg) = lift (fun t' => (tr_tree t', tt)) (append t obj arg).
Proof.
  intros. unfold go_aml_ObjectTree_append, append, rd. unfold InvalidIndex, opFreed in *.
  go.
Qed.

Theorem appendAfter_is_translation : forall (t : Tree) (obj arg nextTo : N),
  go_aml_ObjectTree_appendAfter (tr_tree t) (Some obj) (Some arg) (Some nextTo) =
  lift (fun t' => (tr_tree t', tt)) (appendAfter t obj arg nextTo).
Proof.
  intros. unfold go_aml_ObjectTree_appendAfter, appendAfter, rd. unfold InvalidIndex, opFreed in *.
  rewrite gderef_tr. destruct (deref t nextTo) as [n| |] eqn:D; cbn [bind];
    [ | reflexivity | exfalso; exact (deref_not_fuel _ _ D)].
  change (f_Object_nextSiblingIndex (tr_obj n)) with (o_next n).
  destruct (o_next n =? tree_InvalidIndex) eqn:E.
  - rewrite append_is_translation. destruct (append t obj arg); reflexivity.
  - go.
Qed.

Lemma gjoin_lift : forall {B C} (X : gres (@go_aml_ObjectTree V)) (M : outcome Tree) (K : @go_aml_ObjectTree V -> gres B)
                          (R : Tree -> outcome C) (f : C -> B),
  X = lift tr_tree M -> (forall T, K (tr_tree T) = lift f (R T)) -> gjoin X K = lift f (bind M R).
Proof. intros B C X M K R f -> H. destruct M; cbn; auto. Qed.

(** the model's detach, cut at the statement boundaries *)
Definition d_tail (t : Tree) (arg : N) : outcome Tree :=
  do t <- wr t arg (set_prev InvalidIndex);
  do t <- wr t arg (set_next InvalidIndex);
  wr t arg (set_parent InvalidIndex).
Definition d4 (t : Tree) (arg : N) : outcome Tree :=
  do p <- rd t arg o_prev;
  do t <- (if negb (p =? InvalidIndex)
           then do pv <- ObjectAt_deref t p; do n <- rd t arg o_next; wr t pv (set_next n)
           else Ok t);
  d_tail t arg.
Definition d3 (t : Tree) (arg : N) : outcome Tree :=
  do n <- rd t arg o_next;
  do t <- (if negb (n =? InvalidIndex)
           then do nx <- ObjectAt_deref t n; do p <- rd t arg o_prev; wr t nx (set_prev p)
           else Ok t);
  d4 t arg.
Definition d2 (t : Tree) (obj arg : N) : outcome Tree :=
  do last <- rd t obj o_last;
  do argIndex <- rd t arg o_index;
  do t <- (if last =? argIndex then do p <- rd t arg o_prev; wr t obj (set_last p) else Ok t);
  d3 t arg.
Lemma detach_d2 : forall (t : Tree) obj arg,
  detach t obj arg =
  (do first <- rd t obj o_first;
   do argIndex <- rd t arg o_index;
   do t <- (if first =? argIndex then do n <- rd t arg o_next; wr t obj (set_first n) else Ok t);
   d2 t obj arg).
Proof. reflexivity. Qed.

Theorem detach_is_translation : forall (t : Tree) (obj arg : N),
  go_aml_ObjectTree_detach (tr_tree t) (Some obj) (Some arg) = lift (fun t' => (tr_tree t', tt)) (detach t obj arg).
Proof.
  intros. unfold go_aml_ObjectTree_detach. rewrite detach_d2. unfold rd, InvalidIndex, opFreed.
  goj.
  all: fold_join; apply gjoin_lift; [ go | ].
  all: clear; intro t; cbv beta; unfold d2, rd, InvalidIndex, opFreed; goj.
  all: fold_join; apply gjoin_lift; [ go | ].
  all: clear; intro t; cbv beta; unfold d3, rd, InvalidIndex, opFreed; goj.
  all: fold_join; apply gjoin_lift; [ go | ].
  all: clear; intro t; cbv beta; unfold d4, rd, InvalidIndex, opFreed; goj.
  all: fold_join; apply gjoin_lift; [ go | ].
  all: clear; intro t; cbv beta; unfold d_tail, rd, InvalidIndex, opFreed; go.
Qed.

Definition free_rest (t : Tree) (obj : N) : outcome Tree :=
  do first <- rd t obj o_first;
  do last <- rd t obj o_last;
  if negb (first =? InvalidIndex) || negb (last =? InvalidIndex) then Panic
  else
    do t <- wr t obj (set_opcode opFreed);
    do t <- wr t obj (set_next (t_free t));
    do objIndex <- rd t obj o_index;
    Ok (mkTree (t_pool t) objIndex).
Lemma free_split : forall (t : Tree) obj,
  free t obj =
  (do par <- rd t obj o_parent;
   do t <- (if negb (par =? InvalidIndex) then do pp <- ObjectAt_deref t par; detach t pp obj else Ok t);
   free_rest t obj).
Proof. reflexivity. Qed.

Theorem free_is_translation : forall (t : Tree) (obj : N),
  go_aml_ObjectTree_free (tr_tree t) (Some obj) = lift (fun t' => (tr_tree t', tt)) (free t obj).
Proof.
  intros. unfold go_aml_ObjectTree_free. rewrite free_split. unfold rd, InvalidIndex, opFreed.
  goj.
  all: fold_join; apply gjoin_lift;
    [ repeat (norm; try rewrite detach_is_translation; try reflexivity; try split1);
      try (destruct (detach _ _ _); reflexivity) | ].
  all: clear; intro t; cbv beta; unfold free_rest, rd, InvalidIndex, opFreed; go.
Qed.

End Theorems.
