(** C12 (stretch): connectNamedObjArgs keeps the shape facts the later passes need ([SH]: root facts, the Scope-directive
    shape, TM2, PEND), so that everything after the first pass is chained. *)
From Coq Require Import NArith Arith List Bool Lia.
From Coq Require Import ZifyBool ZifyN ZifyNat.
From FF Require Import Lib.Word Gen.Consts_device_acpi_aml Gen.Consts_aml_tree Aml.Stream Aml.Lex Aml.LexProofs
  Aml.Tree Aml.Parser Aml.ParserProofs Aml.TreeSpec Aml.TreeProofs Aml.TreeProofsOps Aml.TreeProofsFind Aml.TreeProofsAnc
  Aml.ParserTotalTree Aml.ParserTotalTree2 Aml.ParserTotalLex Aml.ParserTotalTable Aml.ParserTotalBase Aml.ParserTotalLeaf
  Aml.ParserTotalFrame Aml.ParserTotalFirst Aml.ParserTotalConn Aml.ParserTotalNonNamed Aml.ParserTotalCalls Aml.ParserTotalReloc
  Aml.ParserTotalMerge Aml.ParserTotalResolve Aml.ParserTotalDefer Aml.ParserTotalDeferW Aml.ParserTotalDeferV
  Aml.ParserTotalTyped Aml.ParserTotalShape Aml.ParserTotalChain Aml.ParserTotalConn2.
Import ListNotations.
Local Open Scope N_scope.

Definition SH (s : pstate) (g : ghost) : Prop :=
  glive g 0 /\ groot g 0 /\ is_sb s 0 /\ tyS NoX (p_tables s) (p_handle s) (p_tree s) g /\ TM2 (p_tree s) g /\ PEND s g.

(** ---- the name of a named object is written ---- *)
Lemma SH_setname s g a nm : TI s g -> SH s g -> tgt_ok s g a -> SH (with_tree s (tset (p_tree s) a (set_name nm))) g.
Proof.
  intros HT (H0 & Hr & Hsb & Hty & HTM & HP) (ao & op & fl & af & Hao & Erow & En & Eh & Eo & Ek).
  set (t2 := tset (p_tree s) a (set_name nm)).
  assert (Hback : forall i o2, tget t2 i = Some o2 -> exists o, tget (p_tree s) i = Some o /\ sameobj o o2 /\ o_value o2 = o_value o /\
                                (i <> a -> o2 = o)).
  { intros i o2 Hg. unfold t2 in Hg. rewrite get_tset in Hg. destruct (N.eqb_spec i a) as [->|Hne].
    - rewrite Hao in Hg. cbn [option_map] in Hg. inversion Hg; subst o2. exists ao. split; [exact Hao|].
      split; [repeat split|]. split; [reflexivity|intros F; contradiction].
    - exists o2. split; [exact Hg|]. split; [repeat split|]. auto. }
  assert (Hfwd : forall i o, tget (p_tree s) i = Some o -> exists o2, tget t2 i = Some o2 /\ sameobj o o2 /\ o_value o2 = o_value o /\
                               (i <> a -> o2 = o)).
  { intros i o Ho. unfold t2. rewrite get_tset, Ho. cbn [option_map]. destruct (N.eqb_spec i a) as [->|Hne].
    - eexists. split; [reflexivity|]. split; [repeat split|]. split; [reflexivity|intros F; contradiction].
    - exists o. split; [reflexivity|]. split; [repeat split|]. auto. }
  split; [exact H0|]. split; [exact Hr|]. split.
  { destruct Hsb as (ro & Hro & Ero). destruct (Hfwd 0 ro Hro) as (ro2 & Hro2 & (E1 & _) & _). exists ro2. split; [exact Hro2|congruence]. }
  split.
  { intros x xo2 Hx2 Hop Hh HX. cbn [p_tree p_tables p_handle with_tree] in *.
    destruct (Hback x xo2 Hx2) as (xo & Hxo & (E1 & E2 & E3) & _ & Hsame).
    assert (Hop0 : o_opcode xo = aml_pOpScope) by congruence. assert (Hh0 : o_tableHandle xo = p_handle s) by congruence.
    destruct (Hty x xo Hxo Hop0 Hh0 HX) as (Hnl & Hnn & n & c & no & co & tbl & sl & K1 & K2 & K3 & K4 & K5 & K6 & K7 & K8 & K9).
    assert (Hxa : x <> a).
    { intros ->. assert (xo = ao) by congruence. subst. rewrite (Hnn _ _ _ Erow) in En. discriminate. }
    rewrite (Hsame Hxa). split; [exact Hnl|]. split; [exact Hnn|].
    assert (Hna : n <> a) by (intros ->; contradiction).
    assert (Hca : c <> a) by (intros ->; assert (co = ao) by congruence; subst; contradiction).
    destruct (Hfwd n no K3) as (no2 & Hno2 & _ & _ & S1). destruct (Hfwd c co K8) as (co2 & Hco2 & _ & _ & S2).
    rewrite (S1 Hna) in Hno2. rewrite (S2 Hca) in Hco2.
    exists n, c, no, co, tbl, sl. repeat (split; [assumption|]). assumption. }
  split.
  { cbn [p_tree with_tree]. eapply TM2_step; [exact HTM| | |].
    - intros i o2 Hg. destruct (Hback i o2 Hg) as (o & Ho & So & _). eauto.
    - intros i o Ho. destruct (Hfwd i o Ho) as (o2 & Ho2 & So & _). eauto.
    - intros m mo a0 a1 rest a1o Hm Hop Hkm Ha1. split; [exists rest; exact Hkm|].
      intros a1o2 Ha12. destruct (Hfwd a1 a1o Ha1) as (o2 & Ho2 & _ & Hv & _). assert (o2 = a1o2) by (fold t2 in Ha12; congruence). subst. exact Hv. }
  intros x o2 Hl Ho2 Hf2. cbn [p_tree with_tree] in Ho2. destruct (Hback x o2 Ho2) as (o & Ho & So & _).
  assert (Hf : isflag s x = true).
  { rewrite <- Hf2. symmetry. apply (isflag_same s (with_tree s t2) x o o2 Ho Ho2 So). reflexivity. }
  destruct (HP x o Hl Ho Hf) as (Hpar & Hnp). split; [exact Hpar|]. destruct So as (E1 & _). rewrite E1. exact Hnp.
Qed.

(** ---- the sibling that follows a named object moves to the end of that object's children ---- *)
Lemma SH_attach s g parent target sib l1 l2 (t2 : T) g2 : TI s g -> SH s g ->
  kids g parent = l1 ++ target :: sib :: l2 -> tgt_ok s g target ->
  pframe (p_tree s) t2 -> shape_eq g g2 -> roots_iff g g2 ->
  (forall q, kids g2 q = (if q =? parent then remove1 sib (kids g parent) else kids g q) ++ (if q =? target then [sib] else [])) ->
  SH (with_tree s t2) g2.
Proof.
  intros HT (H0 & Hr & Hsb & Hty & HTM & HP) Hkp (ao & op & fl & af & Hao & Erow & En & Eh & Eo & Ek) Hpf S2 R2 Hk.
  pose proof (ti_R _ _ HT) as HR.
  assert (Hin_t : In target (kids g parent)) by (rewrite Hkp; apply in_or_app; right; left; reflexivity).
  assert (Hin_s : In sib (kids g parent)) by (rewrite Hkp; apply in_or_app; right; right; left; reflexivity).
  destruct (TI_live_get _ _ _ HT (proj1 ((R_gwf _ _ HR) _ _ Hin_t))) as (po & Hpo & Hlpo).
  destruct (R_kids _ _ HR _ _ Hpo Hlpo) as (_ & _ & _ & Hnd). rewrite Hkp in Hnd.
  assert (Hsame : forall q, q <> parent -> q <> target -> kids g2 q = kids g q).
  { intros q Q1 Q2. rewrite Hk. apply N.eqb_neq in Q1. apply N.eqb_neq in Q2. rewrite Q1, Q2. apply app_nil_r. }
  split; [apply (shape_eq_glive _ _ _ S2); exact H0|]. split; [apply (R2 0 H0); exact Hr|]. split; [apply is_sb_pframe; auto|]. split.
  { intros x xo2 Hx2 Hop Hh HX. cbn [p_tree p_tables p_handle with_tree] in *.
    destruct (pframe_inv _ _ _ _ Hpf Hx2) as (xo & Hxo & (E1 & E2 & E3 & E4 & _)).
    assert (Hop0 : o_opcode xo = aml_pOpScope) by congruence. assert (Hh0 : o_tableHandle xo = p_handle s) by congruence.
    destruct (Hty x xo Hxo Hop0 Hh0 HX) as (Hnl & Hnn & n & c & no & co & tbl & sl & K1 & K2 & K3 & K4 & K5 & K6 & K7 & K8 & K9).
    assert (Hxt : x <> target).
    { intros ->. assert (xo = ao) by congruence. subst. rewrite (Hnn _ _ _ Erow) in En. discriminate. }
    assert (Hnt : n <> target) by (intros ->; contradiction).
    assert (Hxp : x <> parent).
    { intros ->. rewrite Hkp in K1. destruct l1 as [|b l1']; cbn [app] in K1.
      - injection K1 as E _. apply Hnt. symmetry. exact E.
      - injection K1 as _ K1'. destruct l1' as [|b' l1'']; cbn [app] in K1'.
        + injection K1' as E _. subst c. assert (co = ao) by congruence. subst. contradiction.
        + injection K1' as _ K1''. destruct l1''; discriminate. }
    assert (Hnp : n <> parent) by (intros ->; rewrite K2 in Hin_t; contradiction).
    split; [congruence|]. split; [rewrite E2; exact Hnn|].
    destruct (proj2 Hpf _ _ K3) as (no2 & Hno2 & (F1 & _ & _ & _ & _ & _ & _ & F8)).
    destruct (proj2 Hpf _ _ K8) as (co2 & Hco2 & (G1 & _)).
    exists n, c, no2, co2, tbl, sl.
    split; [rewrite (Hsame x Hxp Hxt); exact K1|]. split; [rewrite (Hsame n Hnp Hnt); exact K2|].
    repeat (split; [congruence|]). split; [exact K7|]. split; congruence. }
  split.
  { cbn [p_tree with_tree]. eapply TM2_step; [exact HTM|apply pframe_back; exact Hpf|apply pframe_fwd; exact Hpf|].
    intros m mo a0 a1 rest a1o Hm Hop Hkm Ha1.
    destruct (HTM m mo Hm Hop) as (b0 & b1 & r & b0o & b1o & w & K1 & K2 & P0 & K4 & K5 & P1).
    rewrite Hkm in K1. injection K1 as <- <- <-.
    split.
    - rewrite Hk. destruct (N.eqb_spec m parent) as [->|Hmp].
      + assert (Hs0 : sib <> a0 /\ sib <> a1).
        { rewrite Hkp in Hkm. destruct l1 as [|b l1']; cbn [app] in Hkm.
          - injection Hkm as E0 E1 _. exfalso. subst target. assert (b0o = ao) by congruence. subst.
            destruct P0 as (_ & B & _). rewrite (B _ _ _ Erow) in En. discriminate.
          - injection Hkm as E0 Hkm'. subst b. cbn [app] in Hnd. apply NoDup_cons_iff in Hnd. destruct Hnd as (Hn0 & Hnd').
            split; [intros E; apply Hn0; rewrite <- E; apply in_or_app; right; right; left; reflexivity|].
            destruct l1' as [|b' l1'']; cbn [app] in Hkm'.
            + injection Hkm' as E1 _. subst target. intros E. subst sib. cbn [app] in Hnd'. apply NoDup_cons_iff in Hnd'. destruct Hnd' as (F & _).
              apply F. left. reflexivity.
            + injection Hkm' as E1 _. subst b'. cbn [app] in Hnd'. apply NoDup_cons_iff in Hnd'. destruct Hnd' as (F & _).
              intros E. apply F. rewrite <- E. apply in_or_app. right. right. left. reflexivity. }
        destruct Hs0 as (S0 & S1). rewrite Hkm, (remove1_two sib a0 a1 rest S0 S1).
        destruct (parent =? target); cbn [app]; eexists; reflexivity.
      + destruct (N.eqb_spec m target) as [->|_]; [rewrite Hkm; cbn [app]; eexists; reflexivity|rewrite app_nil_r; exists rest; exact Hkm].
    - intros a1o2 Ha12. destruct (proj2 Hpf _ _ Ha1) as (o' & Ho' & E). assert (o' = a1o2) by congruence. subst.
      destruct E as (_ & _ & _ & _ & _ & _ & _ & E8). exact E8. }
  intros x o2 Hl2 Ho2 Hf2. cbn [p_tree with_tree] in Ho2.
  destruct (pframe_inv _ _ _ _ Hpf Ho2) as (o & Ho & E).
  assert (Hl : glive g x) by (apply (shape_eq_glive _ _ _ S2); exact Hl2).
  assert (Hf : isflag s x = true).
  { rewrite <- Hf2. symmetry. apply (isflag_same s (with_tree s t2) x o o2 Ho Ho2 (pay_same _ _ E)). reflexivity. }
  destruct (HP x o Hl Ho Hf) as (Hpar & Hnp). split; [eapply has_parent_move; eauto|]. destruct E as (E1 & _). rewrite E1. exact Hnp.
Qed.

(** ---- TM3 through connectNamedObjArgs: the abstract invariant [SH3] = [SH] /\ [TM3] ---- *)
Definition SH3 (s : pstate) (g : ghost) : Prop := SH s g /\ TM3 (p_tree s) g.

Lemma SH3_setname s g a nm : TI s g -> SH3 s g -> tgt_ok s g a -> SH3 (with_tree s (tset (p_tree s) a (set_name nm))) g.
Proof.
  intros HT (HS & HTM) Hok. split; [apply SH_setname; assumption|].
  cbn [p_tree with_tree]. set (t2 := tset (p_tree s) a (set_name nm)).
  assert (Hfwd : forall i o, tget (p_tree s) i = Some o -> exists o2, tget t2 i = Some o2 /\ sameobj o o2 /\ o_value o2 = o_value o).
  { intros i o Ho. unfold t2. rewrite get_tset, Ho. cbn [option_map]. destruct (i =? a); eexists; (split; [reflexivity|]); split; try reflexivity; repeat split. }
  assert (Hback : forall i o2, tget t2 i = Some o2 -> exists o, tget (p_tree s) i = Some o /\ sameobj o o2).
  { intros i o2 Hg. unfold t2 in Hg. rewrite get_tset in Hg. destruct (tget (p_tree s) i) as [o|] eqn:E; [|destruct (i =? a); discriminate].
    exists o. split; [reflexivity|]. destruct (i =? a); cbn [option_map] in Hg; inversion Hg; subst o2; repeat split. }
  eapply TM3_step; [exact HTM|exact Hback| |].
  - intros i o Ho. destruct (Hfwd i o Ho) as (o2 & Ho2 & So & _). eauto.
  - intros m mo a0 a1 rest a1o Hm Hop Hkm Hk0 Ha1. split; [exists rest; exact Hkm|]. split; [exact Hk0|].
    intros a1o2 Ha12. destruct (Hfwd a1 a1o Ha1) as (o2 & Ho2 & _ & Hv). assert (o2 = a1o2) by congruence. subst. exact Hv.
Qed.

Lemma SH3_attach s g parent target sib l1 l2 (t2 : T) g2 : TI s g -> SH3 s g ->
  kids g parent = l1 ++ target :: sib :: l2 -> tgt_ok s g target ->
  pframe (p_tree s) t2 -> shape_eq g g2 -> roots_iff g g2 ->
  (forall q, kids g2 q = (if q =? parent then remove1 sib (kids g parent) else kids g q) ++ (if q =? target then [sib] else [])) ->
  SH3 (with_tree s t2) g2.
Proof.
  intros HT (HS & HTM) Hkp Hok Hpf S2 R2 Hk. split; [eapply SH_attach; eauto|].
  destruct Hok as (ao & op & fl & af & Hao & Erow & En & Eh & Eo & Ek).
  pose proof (ti_R _ _ HT) as HR.
  assert (Hin_t : In target (kids g parent)) by (rewrite Hkp; apply in_or_app; right; left; reflexivity).
  destruct (TI_live_get _ _ _ HT (proj1 ((R_gwf _ _ HR) _ _ Hin_t))) as (po & Hpo & Hlpo).
  destruct (R_kids _ _ HR _ _ Hpo Hlpo) as (_ & _ & _ & Hnd). rewrite Hkp in Hnd.
  cbn [p_tree with_tree]. eapply TM3_step; [exact HTM|apply pframe_back; exact Hpf|apply pframe_fwd; exact Hpf|].
  intros m mo a0 a1 rest a1o Hm Hop Hkm Hk0 Ha1.
  destruct (HTM m mo Hm Hop) as (b0 & b1 & r & b0o & b1o & w & K1 & K2 & K3 & K4 & K5 & K6 & K7 & K8 & K9).
  rewrite Hkm in K1. injection K1 as <- <- <-.
  assert (Ht0 : target <> a0) by (intros ->; assert (b0o = ao) by congruence; subst; rewrite (np_not_named _ _ _ _ K4 Erow) in En; discriminate).
  assert (Ht1 : target <> a1) by (intros ->; assert (b1o = ao) by congruence; subst; rewrite (bp_not_named _ _ _ _ K8 Erow) in En; discriminate).
  split; [|split].
  - rewrite Hk. destruct (N.eqb_spec m parent) as [->|Hmp].
    + assert (Hs0 : sib <> a0 /\ sib <> a1).
      { rewrite Hkp in Hkm. destruct l1 as [|b l1']; cbn [app] in Hkm.
        - injection Hkm as E0 _ _. exfalso. apply Ht0. exact E0.
        - injection Hkm as E0 Hkm'. subst b. cbn [app] in Hnd. apply NoDup_cons_iff in Hnd. destruct Hnd as (Hn0 & Hnd').
          split; [intros E; apply Hn0; rewrite <- E; apply in_or_app; right; right; left; reflexivity|].
          destruct l1' as [|b' l1'']; cbn [app] in Hkm'.
          + injection Hkm' as E1 _. exfalso. apply Ht1. exact E1.
          + injection Hkm' as E1 _. subst b'. cbn [app] in Hnd'. apply NoDup_cons_iff in Hnd'. destruct Hnd' as (F & _).
            intros E. apply F. rewrite <- E. apply in_or_app. right. right. left. reflexivity. }
      destruct Hs0 as (S0 & S1). rewrite Hkm, (remove1_two sib a0 a1 rest S0 S1).
      destruct (parent =? target); cbn [app]; eexists; reflexivity.
    + destruct (N.eqb_spec m target) as [->|_]; [rewrite Hkm; cbn [app]; eexists; reflexivity|rewrite app_nil_r; exists rest; exact Hkm].
  - rewrite Hk.
    assert (E0p : (a0 =? parent) = false) by (apply N.eqb_neq; intros ->; rewrite Hk0 in Hin_t; contradiction).
    assert (E0t : (a0 =? target) = false) by (apply N.eqb_neq; intros E; apply Ht0; symmetry; exact E).
    rewrite E0p, E0t, app_nil_r. exact Hk0.
  - intros a1o2 Ha12. destruct (proj2 Hpf _ _ Ha1) as (o' & Ho' & E). assert (o' = a1o2) by congruence. subst.
    destruct E as (_ & _ & _ & _ & _ & _ & _ & E8). exact E8.
Qed.

Lemma SH3_conn : forall fuel, CN_spec2 SH3 fuel.
Proof. intros fuel. exact (proj1 (conn_all2 SH3 SH3_setname SH3_attach fuel)). Qed.

(** ---- connectNamedObjArgs touches neither the reader nor the stacks nor the size of the pool ---- *)
Lemma attachSiblings_go_quiet fuel : forall par tgt sib n up, quiet (attachSiblings_go fuel par tgt sib n up).
Proof.
  induction fuel as [|fuel IH]; intros; cbn [attachSiblings_go]; [apply quiet_fail; intros; right; reflexivity|].
  q_unf. quiet_tac ltac:(apply IH).
Qed.
Lemma connectNamed_quiet fuel : (forall i, quiet (connectNamedObjArgs fuel i)) /\ (forall o i, quiet (connectNamed_loop fuel o i)).
Proof.
  induction fuel as [|fuel (IH1 & IH2)]; (split; intros; [cbn [connectNamedObjArgs]|cbn [connectNamed_loop]]);
    try (apply quiet_fail; intros; right; reflexivity).
  - q_unf. quiet_tac ltac:(apply IH2).
  - unfold attachSiblingsAsArgs, setNameFrom. q_unf. quiet_tac ltac:(first [apply IH1 | apply IH2 | apply attachSiblings_go_quiet]).
Qed.

Section Pass2.
Variable tbls : list (list N).
Notation IV := (Inv tbls).

(** everything after the first pass, as in parseAML_body *)
Definition parse_rest2 (fuel : nat) : M bool :=
  mlet r2 <~ connectNamedObjArgs fuel 0 ;;
  if negb (pres_eqb r2 ROk) then ret false else
  (fun s => Ok (tt, with_counters s 1 (p_mergedScopes s) (p_relocatedObjects s))) ;;;
  parse_rest fuel.

Lemma parseAML_body_rest2 fuel :
  parseAML_body fuel =
  (scopeEnter 0 ;;;
   mlet r1 <~ parseObjectList fuel ;;
   if pres_eqb r1 RFailed then ret false else parse_rest2 fuel).
Proof. reflexivity. Qed.

Theorem rest2_never_panics : forall fuel s g,
  R (p_tree s) g -> info_valid (p_tree s) -> rok (p_r s) -> p_scopeStack s = [] -> IV s ->
  SH3 s g -> typed (p_tree s) ->
  lp s + lp s * (8 * r_len (p_r s) + 3) + 4 <= InvalidIndex ->
  match parse_rest2 fuel s with
  | Ok (_, s') => exists g', R (p_tree s') g' /\ info_valid (p_tree s') /\ pool_ok (p_tables s') (p_tree s')
  | Panic => False
  | OutOfFuel => True
  end.
Proof.
  intros fuel s g HR Hi Hrk Hst I0 HS Htyp Hcap.
  assert (Hpool : pool_ok (p_tables s) (p_tree s)) by (rewrite (inv_tbls _ _ I0); apply (inv_pool _ _ I0)).
  assert (HT : TI s g) by (constructor; auto).
  assert (W : wp True (parse_rest2 fuel) s (fun _ s' => exists g',
            R (p_tree s') g' /\ info_valid (p_tree s') /\ pool_ok (p_tables s') (p_tree s'))).
  { unfold parse_rest2.
    apply (wp_bind_inv tbls _ _ _ _ _ I0); [apply (proj1 (hoare_connectNamed tbls fuel))|].
    eapply wp_weaken; [apply (wp_and_pc _ _ _ _ (fun _ s' => (p_r s' = p_r s /\ p_scopeStack s' = p_scopeStack s /\
                                  length (t_pool (p_tree s')) = length (t_pool (p_tree s))) /\ typed (p_tree s'))
                         (SH3_conn fuel 0 s g HT HS (proj1 (proj1 HS))))|auto|].
    - intros a s' E. split; [apply (proj1 (connectNamed_quiet fuel) 0 s a s' E)|apply (proj1 (connectNamed_tyk fuel) 0 s a s' E Htyp)].
    - intros r2 s1 ((g1 & [A B C] & HS1 & _) & (Q1 & Q2 & Q3) & Ht1) I1.
      destruct (pres_eqb r2 ROk); cbn [negb].
      2:{ apply wp_ret. exists g1. auto. }
      apply wp_bind. apply wp_counters.
      set (s2 := with_counters s1 1 (p_mergedScopes s1) (p_relocatedObjects s1)).
      assert (I2 : IV s2) by (destruct I1 as [J1 J2 J3 J4 J5]; constructor; assumption).
      destruct HS1 as ((K0 & K1 & K2 & K3 & K4 & K5) & K6).
      assert (K6' : TM3 (p_tree s2) g1) by exact K6.
      pose proof (rest_never_panics tbls fuel s2 g1 A B) as T.
      unfold wp. destruct (parse_rest fuel s2) as [[b s']| |] eqn:Et; auto; apply T; auto;
        try (unfold s2; cbn [p_r with_counters]; rewrite Q1; exact Hrk); try (unfold s2; cbn [p_scopeStack with_counters]; rewrite Q2; exact Hst);
        try (unfold lp, s2 in *; cbn [p_r p_tree with_counters]; rewrite Q1, Q3; exact Hcap). }
  unfold wp in W. destruct (parse_rest2 fuel s) as [[b s']| |]; auto.
Qed.
(** the same with a postcondition (see ParserTotalChain.rest_post): [J] is an invariant of connectNamedObjArgs that implies [SH]
    and the invariant [KI] of the resolve loop *)
Section Post2.
Variable K : T -> ghost -> Prop.
Hypothesis K_move : Kmove K.
Hypothesis K_upd : Kupd K.
Hypothesis K_walk : forall f4 pf s g s1 g1, WI s g -> parseDeferredBlocks f4 pf 0 s = Ok (ROk, s1) -> WI s1 g1 -> wstep s g s1 g1 -> TM NoX s1 g1 ->
  K (p_tree s) g -> K (p_tree s1) g1.
Variable KI : pstate -> ghost -> Prop.
Hypothesis KI_KS : forall s g, KI s g -> KS s g.
Hypothesis KI_TM : forall s g, KI s g -> TM NoX s g.
Hypothesis KI_loop : forall wf fuel s g, MI KI NoX s g ->
  wp True (resolve_loop fuel wf) s (fun _ s' => exists g', MI KI NoX s' g').
Hypothesis K_start : forall s g, MI KI NoX s g -> K (p_tree s) g.
Variable J : pstate -> ghost -> Prop.
Hypothesis J_SH : forall s g, J s g -> SH s g.
Hypothesis J_conn : forall fuel, CN_spec2 J fuel.
Hypothesis J_KI : forall s g a b c, J s g -> KI (with_counters s a b c) g.

Theorem rest2_post : forall fuel s g,
  R (p_tree s) g -> info_valid (p_tree s) -> rok (p_r s) -> p_scopeStack s = [] -> IV s ->
  J s g -> typed (p_tree s) ->
  lp s + lp s * (8 * r_len (p_r s) + 3) + 4 <= InvalidIndex ->
  match parse_rest2 fuel s with
  | Ok (b, s') => tpost K b s'
  | Panic => False
  | OutOfFuel => True
  end.
Proof.
  intros fuel s g HR Hi Hrk Hst I0 HJ Htyp Hcap.
  assert (Hpool : pool_ok (p_tables s) (p_tree s)) by (rewrite (inv_tbls _ _ I0); apply (inv_pool _ _ I0)).
  assert (HT : TI s g) by (constructor; auto).
  assert (W : wp True (parse_rest2 fuel) s (tpost K)).
  { unfold parse_rest2.
    apply (wp_bind_inv tbls _ _ _ _ _ I0); [apply (proj1 (hoare_connectNamed tbls fuel))|].
    eapply wp_weaken; [apply (wp_and_pc _ _ _ _ (fun _ s' => (p_r s' = p_r s /\ p_scopeStack s' = p_scopeStack s /\
                                  length (t_pool (p_tree s')) = length (t_pool (p_tree s))) /\ typed (p_tree s'))
                         (J_conn fuel 0 s g HT HJ (proj1 (J_SH _ _ HJ))))|auto|].
    - intros a s' E. split; [apply (proj1 (connectNamed_quiet fuel) 0 s a s' E)|apply (proj1 (connectNamed_tyk fuel) 0 s a s' E Htyp)].
    - intros r2 s1 ((g1 & [A B C] & HJ1 & _) & (Q1 & Q2 & Q3) & Ht1) I1.
      destruct (pres_eqb r2 ROk); cbn [negb].
      2:{ apply wp_ret. exists g1. split; [exact A|]. split; [exact B|]. split; [exact C|discriminate]. }
      apply wp_bind. apply wp_counters.
      set (s2 := with_counters s1 1 (p_mergedScopes s1) (p_relocatedObjects s1)).
      assert (I2 : IV s2) by (destruct I1 as [J1 J2 J3 J4 J5]; constructor; assumption).
      destruct (J_SH _ _ HJ1) as (K0 & K1 & K2 & K3 & K4 & K5).
      pose proof (rest_post tbls K K_move K_upd K_walk KI KI_KS KI_TM KI_loop K_start fuel s2 g1 A B) as T.
      unfold wp. destruct (parse_rest fuel s2) as [[b s']| |] eqn:Et; auto; apply T; auto;
        try (unfold s2; cbn [p_r with_counters]; rewrite Q1; exact Hrk); try (unfold s2; cbn [p_scopeStack with_counters]; rewrite Q2; exact Hst);
        try (unfold lp, s2 in *; cbn [p_r p_tree with_counters]; rewrite Q1, Q3; exact Hcap);
        try (apply J_KI; exact HJ1). }
  unfold wp in W. destruct (parse_rest2 fuel s) as [[b s']| |]; auto.
Qed.
End Post2.
End Pass2.

Lemma rest2_hyps_example :
  exists (s : pstate) (g : ghost),
    R (p_tree s) g /\ info_valid (p_tree s) /\ rok (p_r s) /\ p_scopeStack s = [] /\ Inv (p_tables s) s /\
    SH3 s g /\ typed (p_tree s) /\
    lp s + lp s * (8 * r_len (p_r s) + 3) + 4 <= InvalidIndex /\
    match parse_rest2 10 s with Ok (b, s') => b = true /\ lp s' = 4 | _ => False end.
Proof.
  pose proof dex0_hyps as H. cbv zeta in H. destruct H as (A & B & C & D & E & F & G & H1 & H2 & H3 & H4 & H5 & H6).
  exists dex0_state, dex_ghost.
  split; [exact A|]. split; [exact B|]. split; [exact C|]. split; [exact D|]. split; [exact E|].
  split; [split; [split; [exact F|]; split; [exact G|]; split; [exact H1|]; split; [exact H2|]; split; [apply TM3_TM2; exact H3|exact H4]|exact H3]|].
  split; [exact H5|]. split; [exact H6|]. vm_compute. split; reflexivity.
Qed.
