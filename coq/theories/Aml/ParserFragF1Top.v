(** C11 (fragment F1): ParseAML on Name declarations and nested Device blocks over the default scopes succeeds,
    and the resulting pool is described by the tree [root_tree] (default scopes, then [lay2] of the program). *)
From Coq Require Import NArith ZArith Arith List Bool Lia.
From Coq Require Import ZifyBool ZifyN ZifyNat.
From FF Require Import Lib.Word Gen.Consts_device_acpi_aml Gen.Consts_aml_tree Aml.Stream Aml.Lex Aml.LexProofs
  Aml.Tree Aml.TreeSpec Aml.TreeProofs Aml.TreeProofsOps Aml.TreeProofsFind Aml.Parser Aml.Grammar Aml.LexRoundtrip
  Aml.ParserTotalTree Aml.ParserTotalBase
  Aml.ParserFragBase Aml.ParserFragFirst Aml.ParserFragF0 Aml.ParserFragF0Shape Aml.ParserFragConn Aml.ParserFragF0Conn Aml.ParserFragWalk
  Aml.ParserFragF0Top Aml.ParserFragRose Aml.ParserFragDev Aml.ParserFragArgs Aml.ParserFragF1 Aml.ParserFragF1First Aml.ParserFragF1Conn.
Import ListNotations.
Local Open Scope N_scope.

Ltac Zify.zify_post_hook ::= Z.div_mod_to_equations.

(** ---- sizes against the length of the encoding ---- *)
Lemma len_enc_fx l : (length l <= length (enc_fx l))%nat.
Proof. induction l as [|[w v] r IH]; [cbn; lia|]. cbn [enc_fx length]. rewrite app_length. pose proof (lenN_fw_enc w v) as E. unfold lenN, fw_len in E. destruct w; cbn [fw_n] in E; lia. Qed.

Lemma len_enc_ta ta : (length ta <= length (enc_ta ta))%nat.
Proof.
  induction ta as [|d r IH]; [cbn; lia|]. change (enc_ta (d :: r)) with (enc_targ d ++ enc_ta r). rewrite app_length.
  destruct d as [d|b]; cbn [enc_targ]; [unfold enc_const; rewrite app_length; destruct (enc_op_nonempty (d_op d)) as (x & l & E); rewrite E|]; cbn [length]; lia.
Qed.

Lemma enc_pels_len : forall es, (pels_sz es <= length (enc_pels es))%nat /\ (pels_cnt es <= length (enc_pels es))%nat.
Proof.
  induction es as [|a r IH|k n es r IHe IH] using pels_ind; [cbn; lia| |]; rewrite pels_sz_cons, pels_cnt_cons, enc_pels_cons, app_length.
  - cbn [pel_sz pel_cnt enc_pel]. pose proof (len_enc_ta [a]) as Ha. unfold enc_ta in Ha. cbn [flat_map length] in Ha. rewrite app_nil_r in Ha. lia.
  - rewrite pel_sz_sub, pel_cnt_sub, enc_pel_sub, !app_length. cbn [length].
    assert (Hk : (1 <= length (enc_pkglen k (k + lenN ([n] ++ enc_pels es))))%nat).
    { unfold enc_pkglen. destruct (k =? 1); cbn [length]; lia. }
    lia.
Qed.

Lemma enc_item_len it : (cfuel_item it <= 3 * length (enc_item it))%nat /\ (isz it <= length (enc_item it))%nat /\ (icnt it <= length (enc_item it))%nat.
Proof.
  revert it. fix IH 1. intros [d|bk k seg fa body|lk seg fa ta|seg k n elems].
  - cbn [cfuel_item isz icnt enc_item]. unfold enc_decl, enc_const. cbn [length]. rewrite !app_length. cbn [seg_bytes length].
    destruct (enc_op_nonempty (d_op d)) as (x & l & E). rewrite E. cbn [length]. lia.
  - rewrite cfuel_blk, isz_blk, icnt_blk, enc_blk. rewrite !app_length. cbn [seg_bytes length].
    destruct (enc_op_nonempty (bk_op bk)) as (x0 & l0 & E). rewrite E. cbn [length].
    assert (H : (cfuel body <= 3 * length (enc_items body))%nat /\ (iszs body <= length (enc_items body))%nat /\ (icnts body <= length (enc_items body))%nat).
    { induction body as [|x t IHt]; [cbn; lia|]. destruct (IH x) as (A & B & C). destruct IHt as (A' & B' & C').
      rewrite cfuel_cons, iszs_cons, icnts_cons, enc_items_cons, app_length. lia. }
    assert (Hk : (1 <= length (enc_pkglen k (k + lenN (seg_bytes seg ++ enc_fx (bfx bk fa) ++ enc_items body))))%nat).
    { unfold enc_pkglen. destruct (k =? 1); cbn [length]; lia. }
    pose proof (len_enc_fx (bfx bk fa)). lia.
  - rewrite cfuel_leaf, isz_leaf, icnt_leaf, enc_leaf. rewrite !app_length. cbn [seg_bytes length].
    destruct (enc_op_nonempty (lk_op lk)) as (x0 & l0 & E). rewrite E. cbn [length].
    pose proof (len_enc_fx (lfx lk fa)). pose proof (len_enc_ta ta). lia.
  - rewrite cfuel_pkg, isz_pkg, enc_pkg_item. cbn [icnt length]. rewrite !app_length. cbn [seg_bytes length].
    assert (Hk : (1 <= length (enc_pkglen k (k + lenN ([n] ++ enc_pels elems))))%nat).
    { unfold enc_pkglen. destruct (k =? 1); cbn [length]; lia. }
    pose proof (enc_pels_len elems). lia.
Qed.

Lemma enc_items_len l : (cfuel l <= 3 * length (enc_items l))%nat /\ (iszs l <= length (enc_items l))%nat /\ (icnts l <= length (enc_items l))%nat.
Proof.
  induction l as [|x t IHt]; [cbn; lia|]. destruct (enc_item_len x) as (A & B & C). destruct IHt as (A' & B' & C').
  rewrite cfuel_cons, iszs_cons, icnts_cons, enc_items_cons, app_length. lia.
Qed.

(** the bytes of the encoding *)
Lemma enc_pkglen_bytes k v : pkglen_admissible k v -> Forall (fun b => b < 256) (enc_pkglen k v).
Proof.
  intros [(-> & Hv)|[(-> & Hv)|[(-> & Hv)|(-> & Hv)]]]; unfold enc_pkglen.
  - cbn. constructor; [lia|constructor].
  - change (2 =? 1) with false. cbv iota. rewrite lead_byte by lia. constructor; [pose proof (N.mod_lt v 16); lia|apply gle_bytes_lt].
  - change (3 =? 1) with false. cbv iota. rewrite lead_byte by lia. constructor; [pose proof (N.mod_lt v 16); lia|apply gle_bytes_lt].
  - change (4 =? 1) with false. cbv iota. rewrite lead_byte by lia. constructor; [pose proof (N.mod_lt v 16); lia|apply gle_bytes_lt].
Qed.

Lemma seg_bytes_lt seg : Forall (fun b => b < 256) (seg_bytes seg).
Proof. unfold seg_bytes. repeat (constructor; [apply land255_lt|]). constructor. Qed.

Lemma enc_fx_bytes : forall l, fx_okb l = true -> Forall (fun b => b < 256) (enc_fx l).
Proof.
  induction l as [|[w v] r IH]; intros Hok; [constructor|]. cbn [fx_okb forallb] in Hok. apply andb_prop in Hok. destruct Hok as [Hv Hok].
  apply N.ltb_lt in Hv. cbn [enc_fx]. apply Forall_app. split; [|apply IH; exact Hok].
  destruct w; cbn [fw_enc]; [constructor; [exact Hv|constructor]|apply gle_bytes_lt|apply gle_bytes_lt].
Qed.

Lemma enc_ta_bytes : forall ta, forallb targ_okb ta = true -> Forall (fun b => b < 256) (enc_ta ta).
Proof.
  induction ta as [|d r IH]; intros Hok; [constructor|]. cbn [forallb] in Hok. apply andb_prop in Hok. destruct Hok as [Hd Hok].
  change (enc_ta (d :: r)) with (enc_targ d ++ enc_ta r). apply Forall_app. split; [|apply IH; exact Hok].
  destruct d as [d|b]; cbn [targ_okb enc_targ] in *.
  - unfold cst_okb in Hd. apply andb_prop in Hd. destruct Hd as [Hc Hv].
    unfold enc_const. apply Forall_app. split; [|apply gle_bytes_lt].
    destruct (is_constb_cases _ Hc) as [E|[E|[E|[E|[E|[E|E]]]]]]; rewrite E; repeat constructor.
  - constructor; [reflexivity|]. apply Forall_app. split; [|repeat constructor].
    unfold str_okb in Hd. rewrite forallb_forall in Hd. apply Forall_forall. intros c Hc. specialize (Hd c Hc).
    apply andb_prop in Hd. destruct Hd as [_ B]. apply N.leb_le in B. lia.
Qed.

Lemma enc_pels_bytes : forall es, forallb pel_okb es = true -> Forall (fun b => b < 256) (enc_pels es).
Proof.
  induction es as [|a r IH|k n es r IHe IH] using pels_ind; intros Hok; [constructor| |];
    cbn [forallb] in Hok; apply andb_prop in Hok; destruct Hok as [Hd Hok]; rewrite enc_pels_cons; (apply Forall_app; split; [|apply IH; exact Hok]).
  - cbn [pel_okb enc_pel] in *. pose proof (enc_ta_bytes [a]) as Ha. unfold enc_ta in Ha. cbn [flat_map forallb] in Ha. rewrite app_nil_r, andb_true_r in Ha. apply Ha. exact Hd.
  - rewrite pel_okb_sub in Hd. apply andb_prop in Hd. destruct Hd as [Hx Hes]. apply andb_prop in Hx. destruct Hx as [Hn Hpk]. apply pkglen_okb_adm in Hpk. apply N.ltb_lt in Hn.
    rewrite enc_pel_sub. apply Forall_app. split; [repeat constructor|]. apply Forall_app. split; [apply enc_pkglen_bytes; exact Hpk|].
    apply Forall_app. split; [constructor; [exact Hn|constructor]|apply IHe; exact Hes].
Qed.

Lemma enc_items_bytes : forall l, forallb item_okb l = true -> Forall (fun b => b < 256) (enc_items l).
Proof.
  induction l as [|d rest IH|bk k seg fa body rest IHb IH|lk seg fa ta rest IH|seg k n elems rest IH] using items_ind; intros Hok; [constructor| | | |].
  - apply forallb_item_cons in Hok. destruct Hok as [Hd Hok]. cbn [item_okb] in Hd. apply andb_prop in Hd. destruct Hd as [Hd _].
    rewrite enc_items_cons. apply Forall_app. split; [apply enc_decl_bytes; exact Hd|apply IH; exact Hok].
  - apply forallb_item_cons in Hok. destruct Hok as [Hd Hok]. cbn [item_okb] in Hd.
    apply andb_prop in Hd. destruct Hd as [Hx Hbody]. apply andb_prop in Hx. destruct Hx as [Hx Hpk]. apply pkglen_okb_adm in Hpk.
    apply andb_prop in Hx. destruct Hx as [_ Hfx].
    rewrite enc_items_cons, enc_blk. apply Forall_app. split; [|apply IH; exact Hok].
    apply Forall_app. split; [destruct bk; repeat constructor|]. apply Forall_app. split; [apply enc_pkglen_bytes; exact Hpk|].
    apply Forall_app. split; [apply seg_bytes_lt|]. apply Forall_app. split; [apply enc_fx_bytes; exact Hfx|apply IHb; exact Hbody].
  - apply forallb_item_cons in Hok. destruct Hok as [Hd Hok]. cbn [item_okb] in Hd.
    apply andb_prop in Hd. destruct Hd as [Hx Hta]. apply andb_prop in Hx. destruct Hx as [Hx _]. apply andb_prop in Hx. destruct Hx as [_ Hfx].
    rewrite enc_items_cons, enc_leaf. apply Forall_app. split; [|apply IH; exact Hok].
    apply Forall_app. split; [destruct lk; repeat constructor|]. apply Forall_app. split; [apply seg_bytes_lt|].
    apply Forall_app. split; [apply enc_fx_bytes; exact Hfx|apply enc_ta_bytes; exact Hta].
  - apply forallb_item_cons in Hok. destruct Hok as [Hd Hok]. cbn [item_okb] in Hd.
    apply andb_prop in Hd. destruct Hd as [Hx Hel]. apply andb_prop in Hx. destruct Hx as [Hx Hpk]. apply pkglen_okb_adm in Hpk.
    apply andb_prop in Hx. destruct Hx as [_ Hn]. apply N.ltb_lt in Hn.
    rewrite enc_items_cons, enc_pkg_item. apply Forall_app. split; [|apply IH; exact Hok].
    constructor; [reflexivity|]. apply Forall_app. split; [apply seg_bytes_lt|]. apply Forall_app. split; [repeat constructor|].
    apply Forall_app. split; [apply enc_pkglen_bytes; exact Hpk|]. apply Forall_app. split; [constructor; [exact Hn|constructor]|apply enc_pels_bytes; exact Hel].
Qed.

(** ---- all slots of the range are nodes of [lay2] ---- *)
Lemma lay2_nodes_all h tbl : forall l b off y, b <= y < b + N.of_nat (iszs l) -> In y (rnodesl (lay2 h tbl b off l)).
Proof.
  induction l as [|d rest IH|bk k seg fa body rest IHb IH|lk seg fa ta rest IH|seg k n elems rest IH] using items_ind; intros b off y Hy; [cbn in Hy; lia| | | |].
  - rewrite lay2_cons, rnodesl_app. rewrite iszs_cons in Hy. cbn [isz] in Hy. apply in_or_app.
    destruct (N.ltb_spec y (b + 3)) as [Hlt|Hge].
    + left. cbn [lay2_item rnodesl flat_map rnodes app In]. lia.
    + right. apply IH. cbn [isz]. lia.
  - rewrite lay2_cons, rnodesl_app. rewrite iszs_cons, isz_blk in Hy. apply in_or_app.
    set (nf := length (bfx bk fa)) in *.
    destruct (N.ltb_spec y (b + N.of_nat (3 + nf + iszs body))) as [Hlt|Hge].
    + left. rewrite lay2_blk. unfold rnodesl. cbn [flat_map]. rewrite app_nil_r, rnodes_eq.
      destruct (N.eq_dec y b) as [->|Hne]; [left; reflexivity|right].
      rewrite rnodesl_app. apply in_or_app. unfold nfx. fold nf.
      destruct (N.ltb_spec y (b + 2 + N.of_nat nf)) as [Hl2|Hg2].
      * left. apply leaf_row_nodes. rewrite len_hd_pays. fold nf. lia.
      * right. unfold rnodesl. cbn [flat_map]. rewrite app_nil_r, rnodes_eq.
        destruct (N.eq_dec y (b + 2 + N.of_nat nf)) as [->|Hne2]; [left; reflexivity|right]. apply IHb. lia.
    + right. apply IH. rewrite isz_blk. fold nf. lia.
  - rewrite lay2_cons, rnodesl_app. rewrite iszs_cons, isz_leaf in Hy. apply in_or_app.
    destruct (N.ltb_spec y (b + N.of_nat (2 + length (lfx lk fa) + length ta))) as [Hlt|Hge].
    + left. cbn [lay2_item]. unfold rnodesl. cbn [flat_map]. rewrite app_nil_r, rnodes_eq.
      destruct (N.eq_dec y b) as [->|Hne]; [left; reflexivity|right].
      apply leaf_row_nodes. rewrite app_length, len_lhd_pays, len_cst_pays. lia.
    + right. apply IH. rewrite isz_leaf. lia.
  - rewrite lay2_cons, rnodesl_app. rewrite iszs_cons, isz_pkg in Hy. apply in_or_app.
    destruct (N.ltb_spec y (b + N.of_nat (5 + pels_sz elems))) as [Hlt|Hge].
    + left. cbn [lay2_item]. unfold rnodesl. cbn [flat_map]. rewrite app_nil_r, rnodes_eq.
      destruct (N.eq_dec y b) as [->|Hne]; [left; reflexivity|right].
      unfold rnodesl. cbn [flat_map]. rewrite app_nil_r. apply in_or_app.
      destruct (N.eq_dec y (b + 1)) as [->|Hne1]; [left; rewrite rnodes_eq; left; reflexivity|right]. apply pkg_tree_nodes. lia.
    + right. apply IH. rewrite isz_pkg. lia.
Qed.

(** ---- the kinds of nodes of the final tree ---- *)
Definition f1_ok (h tbl : N) (r : rose) : Prop :=
  match r with RN i a ks =>
    (exists nm, a = mkPay opScopeBlock 113 0 nm 0 0 None) \/
    (exists bk off nm p po rest, a = blk_pay h bk off nm /\ ks = RN p (pth_pay h tbl po) [] :: rest) \/
    (exists off w v, a = num_pay h w off v /\ ks = []) \/
    (exists off, a = sb_pay h off) \/
    (exists off, a = pth_pay h tbl off /\ ks = []) \/
    (exists off nm p po c co d, a = nam_pay h off nm /\ ks = [RN p (pth_pay h tbl po) []; RN c (cst_pay h co d) []] /\ is_constb (d_op d) = true) \/
    (exists off d, a = cst_pay h off d /\ is_constb (d_op d) = true /\ ks = []) \/
    (exists lk off nm p po rest, a = lf_pay h lk off nm /\ ks = RN p (pth_pay h tbl po) [] :: rest) \/
    (exists off b, a = str_pay h tbl off b /\ ks = []) \/
    (exists off nm p po rest, a = nam_pay h off nm /\ ks = RN p (pth_pay h tbl po) [] :: rest) \/
    (exists off, a = pkg_pay h off)
  end.
(** for the objects of some table *)
Definition f1_okE (r : rose) : Prop := exists h tbl, f1_ok h tbl r.

Lemma fx_row_ok h : forall l b off, Forall (rallr f1_okE) (leaf_row b (fx_pays h off l)).
Proof.
  induction l as [|[w v] r IH]; intros b off; [constructor|]. cbn [fx_pays leaf_row]. constructor; [|apply IH].
  constructor; [|constructor]. exists h, 0. cbn [f1_ok]. right; right; left. do 3 eexists. split; reflexivity.
Qed.

Lemma cst_row_ok h tbl : forall ta b off, forallb targ_okb ta = true -> Forall (rallr f1_okE) (leaf_row b (cst_pays h tbl off ta)).
Proof.
  induction ta as [|d r IH]; intros b off Hok; [constructor|]. cbn [forallb] in Hok. apply andb_prop in Hok. destruct Hok as [Hd Hok].
  cbn [cst_pays leaf_row]. constructor; [|apply IH; exact Hok].
  constructor; [|constructor]. destruct d as [d|bs]; cbn [targ_okb targ_pay] in *.
  - unfold cst_okb in Hd. apply andb_prop in Hd. destruct Hd as [Hc _].
    exists h, tbl. cbn [f1_ok]. do 6 right. left. do 2 eexists. split; [reflexivity|split; [exact Hc|reflexivity]].
  - exists h, tbl. cbn [f1_ok]. do 8 right. left. do 2 eexists. split; reflexivity.
Qed.

Lemma pel_trees_okP h tbl (P : rose -> Prop) (HP : forall r, f1_ok h tbl r -> P r) :
  forall es b off, forallb pel_okb es = true -> Forall (rallr P) (pel_trees h tbl b off es).
Proof.
  induction es as [|d r IH|k n es r IHe IH] using pels_ind; intros b off Hok; [constructor| |];
    cbn [forallb] in Hok; apply andb_prop in Hok; destruct Hok as [Hd Hok]; rewrite pel_trees_cons; (constructor; [|apply IH; exact Hok]).
  - cbn [pel_tree pel_okb] in *. constructor; [|constructor]. apply HP. destruct d as [d|bs]; cbn [targ_okb targ_pay] in *.
    + unfold cst_okb in Hd. apply andb_prop in Hd. destruct Hd as [Hc _].
      cbn [f1_ok]. do 6 right. left. do 2 eexists. split; [reflexivity|split; [exact Hc|reflexivity]].
    + cbn [f1_ok]. do 8 right. left. do 2 eexists. split; reflexivity.
  - rewrite pel_okb_sub in Hd. apply andb_prop in Hd. destruct Hd as [_ Hes]. rewrite pel_tree_sub.
    constructor; [apply HP; cbn [f1_ok]; do 10 right; eexists; reflexivity|].
    constructor; [|constructor; [|constructor]].
    + constructor; [|constructor]. apply HP. cbn [f1_ok]. right; right; left. do 3 eexists. split; reflexivity.
    + constructor; [apply HP; cbn [f1_ok]; right; right; right; left; eexists; reflexivity|]. apply IHe. exact Hes.
Qed.

Lemma lay2_ok h tbl : forall l b off, forallb item_okb l = true -> Forall (rallr f1_okE) (lay2 h tbl b off l).
Proof.
  induction l as [|d rest IH|bk k seg fa body rest IHb IH|lk seg fa ta rest IH|seg k n elems rest IH] using items_ind; intros b off Hok; [constructor| | | |].
  - apply forallb_item_cons in Hok. destruct Hok as [Hd Hok]. cbn [item_okb] in Hd. apply andb_prop in Hd. destruct Hd as [Hd _].
    unfold decl_okb in Hd. apply andb_prop in Hd. destruct Hd as [Hd _]. apply andb_prop in Hd. destruct Hd as [_ Hc].
    rewrite lay2_cons. apply Forall_app. split; [|apply IH; exact Hok]. cbn [lay2_item]. constructor; [|constructor].
    constructor.
    + exists h, tbl. cbn [f1_ok]. right; right; right; right; right; left. do 7 eexists. split; [reflexivity|split; [reflexivity|exact Hc]].
    + constructor; [|constructor; [|constructor]].
      * constructor; [|constructor]. exists h, tbl. cbn [f1_ok]. right; right; right; right; left. eexists. split; reflexivity.
      * constructor; [|constructor]. exists h, tbl. cbn [f1_ok]. right; right; right; right; right; right; left. do 2 eexists. split; [reflexivity|split; [exact Hc|reflexivity]].
  - apply forallb_item_cons in Hok. destruct Hok as [Hd Hok]. cbn [item_okb] in Hd. apply andb_prop in Hd. destruct Hd as [_ Hbody].
    rewrite lay2_cons. apply Forall_app. split; [|apply IH; exact Hok]. rewrite lay2_blk. constructor; [|constructor].
    unfold hd_pays. cbn [leaf_row app]. constructor.
    + exists h, tbl. cbn [f1_ok]. right; left. do 6 eexists. split; reflexivity.
    + constructor; [|apply Forall_app; split; [apply fx_row_ok|constructor; [|constructor]]].
      * constructor; [|constructor]. exists h, tbl. cbn [f1_ok]. right; right; right; right; left. eexists. split; reflexivity.
      * constructor; [|apply IHb; exact Hbody]. exists h, tbl. cbn [f1_ok]. right; right; right; left. eexists. reflexivity.
  - apply forallb_item_cons in Hok. destruct Hok as [Hd Hok]. cbn [item_okb] in Hd. apply andb_prop in Hd. destruct Hd as [_ Hta].
    rewrite lay2_cons. apply Forall_app. split; [|apply IH; exact Hok]. cbn [lay2_item]. constructor; [|constructor].
    unfold lhd_pays. cbn [leaf_row app]. constructor.
    + exists h, tbl. cbn [f1_ok]. do 7 right. left. do 6 eexists. split; reflexivity.
    + constructor.
      * constructor; [|constructor]. exists h, tbl. cbn [f1_ok]. right; right; right; right; left. eexists. split; reflexivity.
      * rewrite leaf_row_app. apply Forall_app. split; [apply fx_row_ok|apply cst_row_ok; exact Hta].
  - apply forallb_item_cons in Hok. destruct Hok as [Hd Hok]. cbn [item_okb] in Hd. apply andb_prop in Hd. destruct Hd as [_ Hel].
    rewrite lay2_cons. apply Forall_app. split; [|apply IH; exact Hok]. cbn [lay2_item]. unfold pkg_tree. rewrite pel_tree_sub. constructor; [|constructor].
    constructor.
    + exists h, tbl. cbn [f1_ok]. do 9 right. left. do 5 eexists. split; reflexivity.
    + constructor; [|constructor; [|constructor]].
      * constructor; [|constructor]. exists h, tbl. cbn [f1_ok]. right; right; right; right; left. eexists. split; reflexivity.
      * constructor; [exists h, tbl; cbn [f1_ok]; do 10 right; eexists; reflexivity|].
        constructor; [|constructor; [|constructor]].
        -- constructor; [|constructor]. exists h, tbl. cbn [f1_ok]. right; right; left. do 3 eexists. split; reflexivity.
        -- constructor; [exists h, tbl; cbn [f1_ok]; right; right; right; left; eexists; reflexivity|]. apply (pel_trees_okP h tbl f1_okE (fun r Hr => ex_intro _ h (ex_intro _ tbl Hr))). exact Hel.
Qed.

Lemma fx_row_okh h tbl : forall l b off, Forall (rallr (f1_ok h tbl)) (leaf_row b (fx_pays h off l)).
Proof.
  induction l as [|[w v] r IH]; intros b off; [constructor|]. cbn [fx_pays leaf_row]. constructor; [|apply IH].
  constructor; [|constructor]. cbn [f1_ok]. right; right; left. do 3 eexists. split; reflexivity.
Qed.

Lemma cst_row_okh h tbl : forall ta b off, forallb targ_okb ta = true -> Forall (rallr (f1_ok h tbl)) (leaf_row b (cst_pays h tbl off ta)).
Proof.
  induction ta as [|d r IH]; intros b off Hok; [constructor|]. cbn [forallb] in Hok. apply andb_prop in Hok. destruct Hok as [Hd Hok].
  cbn [cst_pays leaf_row]. constructor; [|apply IH; exact Hok].
  constructor; [|constructor]. destruct d as [d|bs]; cbn [targ_okb targ_pay] in *.
  - unfold cst_okb in Hd. apply andb_prop in Hd. destruct Hd as [Hc _].
    cbn [f1_ok]. do 6 right. left. do 2 eexists. split; [reflexivity|split; [exact Hc|reflexivity]].
  - cbn [f1_ok]. do 8 right. left. do 2 eexists. split; reflexivity.
Qed.

Lemma lay2_okh h tbl : forall l b off, forallb item_okb l = true -> Forall (rallr (f1_ok h tbl)) (lay2 h tbl b off l).
Proof.
  induction l as [|d rest IH|bk k seg fa body rest IHb IH|lk seg fa ta rest IH|seg k n elems rest IH] using items_ind; intros b off Hok; [constructor| | | |].
  - apply forallb_item_cons in Hok. destruct Hok as [Hd Hok]. cbn [item_okb] in Hd. apply andb_prop in Hd. destruct Hd as [Hd _].
    unfold decl_okb in Hd. apply andb_prop in Hd. destruct Hd as [Hd _]. apply andb_prop in Hd. destruct Hd as [_ Hc].
    rewrite lay2_cons. apply Forall_app. split; [|apply IH; exact Hok]. cbn [lay2_item]. constructor; [|constructor].
    constructor.
    + cbn [f1_ok]. right; right; right; right; right; left. do 7 eexists. split; [reflexivity|split; [reflexivity|exact Hc]].
    + constructor; [|constructor; [|constructor]].
      * constructor; [|constructor]. cbn [f1_ok]. right; right; right; right; left. eexists. split; reflexivity.
      * constructor; [|constructor]. cbn [f1_ok]. right; right; right; right; right; right; left. do 2 eexists. split; [reflexivity|split; [exact Hc|reflexivity]].
  - apply forallb_item_cons in Hok. destruct Hok as [Hd Hok]. cbn [item_okb] in Hd. apply andb_prop in Hd. destruct Hd as [_ Hbody].
    rewrite lay2_cons. apply Forall_app. split; [|apply IH; exact Hok]. rewrite lay2_blk. constructor; [|constructor].
    unfold hd_pays. cbn [leaf_row app]. constructor.
    + cbn [f1_ok]. right; left. do 6 eexists. split; reflexivity.
    + constructor; [|apply Forall_app; split; [apply fx_row_okh|constructor; [|constructor]]].
      * constructor; [|constructor]. cbn [f1_ok]. right; right; right; right; left. eexists. split; reflexivity.
      * constructor; [|apply IHb; exact Hbody]. cbn [f1_ok]. right; right; right; left. eexists. reflexivity.
  - apply forallb_item_cons in Hok. destruct Hok as [Hd Hok]. cbn [item_okb] in Hd. apply andb_prop in Hd. destruct Hd as [_ Hta].
    rewrite lay2_cons. apply Forall_app. split; [|apply IH; exact Hok]. cbn [lay2_item]. constructor; [|constructor].
    unfold lhd_pays. cbn [leaf_row app]. constructor.
    + cbn [f1_ok]. do 7 right. left. do 6 eexists. split; reflexivity.
    + constructor.
      * constructor; [|constructor]. cbn [f1_ok]. right; right; right; right; left. eexists. split; reflexivity.
      * rewrite leaf_row_app. apply Forall_app. split; [apply fx_row_okh|apply cst_row_okh; exact Hta].
  - apply forallb_item_cons in Hok. destruct Hok as [Hd Hok]. cbn [item_okb] in Hd. apply andb_prop in Hd. destruct Hd as [_ Hel].
    rewrite lay2_cons. apply Forall_app. split; [|apply IH; exact Hok]. cbn [lay2_item pkg_tree]. constructor; [|constructor].
    constructor.
    + cbn [f1_ok]. do 9 right. left. do 5 eexists. split; reflexivity.
    + constructor; [|constructor; [|constructor]].
      * constructor; [|constructor]. cbn [f1_ok]. right; right; right; right; left. eexists. split; reflexivity.
      * constructor; [cbn [f1_ok]; do 10 right; eexists; reflexivity|].
        constructor; [|constructor; [|constructor]].
        -- constructor; [|constructor]. cbn [f1_ok]. right; right; left. do 3 eexists. split; reflexivity.
        -- constructor; [cbn [f1_ok]; right; right; right; left; eexists; reflexivity|]. apply (pel_trees_okP h tbl (f1_ok h tbl) (fun r Hr => Hr)). exact Hel.
Qed.


(** ---- the local conditions of the walks, for every node kind ---- *)
Lemma f1_conds (t : T) g pl R0 (H0 : N) : Rep t g pl -> Desc g pl R0 -> rallr f1_okE R0 ->
  (forall y a, pget pl y = Some a -> y_op a <> opFreed -> In y (rnodes R0)) ->
  forall y a, pget pl y = Some a -> y_op a <> opFreed ->
  merge_ok H0 a /\ defer_ok H0 a /\ reloc_ok g pl H0 y a /\ nonnamed_ok g H0 y a /\ calls_ok g H0 y a.
Proof.
  intros H HD Hok Hall y a Hy Hly.
  destruct (rallr_lookup g pl f1_okE R0 HD Hok y (Hall y a Hy Hly)) as (a' & ks & Dy & (h & tbl & Oy)).
  destruct (Desc_inv _ _ _ _ _ Dy) as (Py & Ky & Dks). assert (a' = a) by congruence. subst a'.
  assert (Hcalls : forall (P : Prop), P -> (negb (y_op a =? aml_pOpIntNamePathOrMethodCall) || negb (y_th a =? H0) = true) -> nonnamed_ok g H0 y a ->
            P /\ nonnamed_ok g H0 y a /\ calls_ok g H0 y a) by (intros P HP Hc Hn; split; [exact HP|split; [exact Hn|split; assumption]]).
  cbn [f1_ok] in Oy. destruct Oy as [(nm & ->)|[(bk & off & nm & p & po & rest & -> & ->)|[(off & w & v & -> & ->)|[(off & ->)|[(off & -> & ->)|[(off & nm & p & po & c & co & d & -> & -> & Hc)|[(off & d & -> & Hc & ->)|[(lk & off & nm & p & po & rest & -> & ->)|[(off & bs & -> & ->)|[(off & nm & p & po & rest & -> & ->)|(off & ->)]]]]]]]]]].
  - (* default scope *)
    split; [do 3 eexists; split; [reflexivity|right; reflexivity]|]. split; [do 3 eexists; split; reflexivity|].
    apply Hcalls; [|reflexivity|do 3 eexists; split; [reflexivity|left; reflexivity]].
    do 3 eexists. split; [reflexivity|]. right; left. cbn [y_th y_op]. change (negb (opScopeBlock =? aml_pOpIntScopeBlock)) with false. rewrite andb_false_r. reflexivity.
  - (* block-like named object *)
    destruct bk;
      (split; [do 3 eexists; split; [reflexivity|right; reflexivity]|]; split; [do 3 eexists; split; reflexivity|];
       apply Hcalls; [|reflexivity|do 3 eexists; split; [reflexivity|left; reflexivity]];
       do 3 eexists; split; [reflexivity|]; right; right;
       pose proof (Forall_inv Dks) as Dp; destruct (Desc_inv _ _ _ _ _ Dp) as (Pp & _ & _);
       exists p, (pth_pay h tbl po), tbl, (mkSlice (Some po) 4); rewrite Ky; cbn [map ridx hd];
       split; [reflexivity|]; split; [exact Pp|]; split; [discriminate|]; split; [reflexivity|]; cbn [s_len]; cbv; discriminate).
  - (* fixed data argument *)
    unfold num_pay, merge_ok, defer_ok, reloc_ok, nonnamed_ok, calls_ok. cbn [y_info y_op y_th].
    destruct w;
      (split; [do 3 eexists; split; [reflexivity|right; reflexivity]|]; split; [do 3 eexists; split; reflexivity|];
       split; [do 3 eexists; split; [reflexivity|right; left; reflexivity]|];
       split; [do 3 eexists; split; [reflexivity|right; reflexivity]|]; split; [reflexivity|do 3 eexists; split; [reflexivity|right; reflexivity]]).
  - (* ScopeBlock of a block *)
    split; [do 3 eexists; split; [reflexivity|right; reflexivity]|]. split; [do 3 eexists; split; reflexivity|].
    apply Hcalls; [|reflexivity|do 3 eexists; split; [reflexivity|left; reflexivity]].
    do 3 eexists. split; [reflexivity|]. right; left. cbn [sb_pay y_th y_op].
    change (negb (aml_pOpIntScopeBlock =? aml_pOpIntScopeBlock)) with false. rewrite andb_false_r. reflexivity.
  - (* name path *)
    split; [do 3 eexists; split; [reflexivity|right; reflexivity]|]. split; [do 3 eexists; split; reflexivity|].
    apply Hcalls; [|reflexivity|do 3 eexists; split; [reflexivity|right; reflexivity]].
    do 3 eexists. split; [reflexivity|]. right; left. reflexivity.
  - (* Name *)
    split; [do 3 eexists; split; [reflexivity|right; reflexivity]|]. split; [do 3 eexists; split; reflexivity|].
    apply Hcalls; [|reflexivity|do 3 eexists; split; [reflexivity|left; reflexivity]].
    do 3 eexists. split; [reflexivity|]. right; right.
    pose proof (Forall_inv Dks) as Dp. destruct (Desc_inv _ _ _ _ _ Dp) as (Pp & _ & _).
    exists p, (pth_pay h tbl po), tbl, (mkSlice (Some po) 4). rewrite Ky. cbn [map ridx hd].
    split; [reflexivity|]. split; [exact Pp|]. split; [discriminate|]. split; [reflexivity|]. cbn [s_len]. cbv. discriminate.
  - (* constant *)
    unfold cst_pay, merge_ok, defer_ok, reloc_ok, nonnamed_ok, calls_ok. cbn [y_info y_op y_th].
    destruct (is_constb_cases _ Hc) as [E|[E|[E|[E|[E|[E|E]]]]]]; rewrite E;
      (split; [do 3 eexists; split; [reflexivity|right; reflexivity]|]; split; [do 3 eexists; split; reflexivity|];
       split; [do 3 eexists; split; [reflexivity|right; left; reflexivity]|];
       split; [do 3 eexists; split; [reflexivity|right; reflexivity]|]; split; [reflexivity|do 3 eexists; split; [reflexivity|right; reflexivity]]).
  - (* leaf named object *)
    destruct lk;
      (split; [do 3 eexists; split; [reflexivity|right; reflexivity]|]; split; [do 3 eexists; split; reflexivity|];
       apply Hcalls; [|reflexivity|do 3 eexists; split; [reflexivity|left; reflexivity]];
       do 3 eexists; split; [reflexivity|]; right; right;
       pose proof (Forall_inv Dks) as Dp; destruct (Desc_inv _ _ _ _ _ Dp) as (Pp & _ & _);
       exists p, (pth_pay h tbl po), tbl, (mkSlice (Some po) 4); rewrite Ky; cbn [map ridx hd];
       split; [reflexivity|]; split; [exact Pp|]; split; [discriminate|]; split; [reflexivity|]; cbn [s_len]; cbv; discriminate).
  - (* string *)
    unfold str_pay, merge_ok, defer_ok, reloc_ok, nonnamed_ok, calls_ok. cbn [y_info y_op y_th].
    split; [do 3 eexists; split; [reflexivity|right; reflexivity]|]. split; [do 3 eexists; split; reflexivity|].
    split; [do 3 eexists; split; [reflexivity|right; left; reflexivity]|].
    split; [do 3 eexists; split; [reflexivity|right; reflexivity]|]. split; [reflexivity|do 3 eexists; split; [reflexivity|right; reflexivity]].
  - (* Name with any value *)
    split; [do 3 eexists; split; [reflexivity|right; reflexivity]|]. split; [do 3 eexists; split; reflexivity|].
    apply Hcalls; [|reflexivity|do 3 eexists; split; [reflexivity|left; reflexivity]].
    do 3 eexists. split; [reflexivity|]. right; right.
    pose proof (Forall_inv Dks) as Dp. destruct (Desc_inv _ _ _ _ _ Dp) as (Pp & _ & _).
    exists p, (pth_pay h tbl po), tbl, (mkSlice (Some po) 4). rewrite Ky. cbn [map ridx hd].
    split; [reflexivity|]. split; [exact Pp|]. split; [discriminate|]. split; [reflexivity|]. cbn [s_len]. cbv. discriminate.
  - (* Package *)
    unfold pkg_pay, merge_ok, defer_ok, reloc_ok, nonnamed_ok, calls_ok. cbn [y_info y_op y_th].
    split; [do 3 eexists; split; [reflexivity|right; reflexivity]|]. split; [do 3 eexists; split; reflexivity|].
    split; [do 3 eexists; split; [reflexivity|right; left; reflexivity]|].
    split; [do 3 eexists; split; [reflexivity|right; reflexivity]|]. split; [reflexivity|do 3 eexists; split; [reflexivity|right; reflexivity]].
Qed.

(** ---- passes 3 to 6 on any tree that satisfies the local conditions ---- *)
Lemma rest_generic fuel s g pl R0 a0 (H0 : N) :
  Rep (p_tree s) g pl -> Desc g pl R0 -> ridx R0 = 0 -> pget pl 0 = Some a0 -> y_op a0 <> opFreed ->
  (forall y a, pget pl y = Some a -> y_op a <> opFreed ->
     merge_ok H0 a /\ defer_ok H0 a /\ reloc_ok g pl H0 y a /\ nonnamed_ok g H0 y a /\ calls_ok g H0 y a) ->
  p_handle s = H0 -> p_mergedScopes s = 0 -> p_relocatedObjects s = 0 -> (3 * rsize R0 + 1 <= fuel)%nat ->
  wp False (rest_passes fuel) s (fun b s' => b = true /\ p_tree s' = p_tree s /\ p_tables s' = p_tables s).
Proof.
  intros H2 HD Hr0 Hp0' Hl0 Hc Hh Hm Hr Hfuel. unfold rest_passes.
  apply wp_bind. unfold wp at 1.
  set (s3 := with_counters s 1 (p_mergedScopes s) (p_relocatedObjects s)).
  assert (H3 : Rep (p_tree s3) g pl) by exact H2.
  assert (Hfw : fwalk g fuel 0) by (rewrite <- Hr0; apply (fwalk_size g pl R0 HD); lia).
  assert (Hfwb : fwalkb g fuel 0) by (rewrite <- Hr0; apply (fwalkb_size g pl R0 HD); lia).
  destruct fuel as [|F]; [lia|].
  apply wp_bind. rewrite resolve_loop_S.
  apply wp_bind. eapply wp_conseq.
  { apply (proj1 (merge_all g pl H0 (fun y a A B => proj1 (Hc y a A B)) (S F)) 0 _ s3 H3 Hh Hm Hp0' Hl0 Hfw). }
  intros r s' (-> & ->). change (pres_eqb ROk RFailed) with false. cbv iota.
  apply wp_bind. eapply wp_conseq.
  { apply (proj1 (reloc_all g pl H0 (fun y a A B => proj1 (proj2 (proj2 (Hc y a A B)))) (S F)) 0 _ s3 H3 Hh Hr Hp0' Hl0 Hfw). }
  intros r s' (-> & ->). change (pres_eqb ROk RFailed) with false. change (pres_eqb ROk ROk && pres_eqb ROk ROk) with true. cbv iota.
  apply wp_ret. change (negb (pres_eqb ROk ROk)) with false. cbv iota.
  apply wp_bind. eapply wp_conseq.
  { apply (proj1 (defer_all g pl H0 (fun y a A B => proj1 (proj2 (Hc y a A B))) (S F)) (S F) 0 _ s3 H3 Hh Hp0' Hl0 Hfw). }
  intros r s' (-> & ->). change (negb (pres_eqb ROk ROk)) with false. cbv iota.
  apply wp_bind. eapply wp_conseq.
  { apply (proj1 (calls_all g pl H0 (fun y a A B => proj2 (proj2 (proj2 (proj2 (Hc y a A B))))) (S F)) 0 _ s3 H3 Hh Hp0' Hl0 Hfwb). }
  intros r s' (-> & ->). change (negb (pres_eqb ROk ROk)) with false. cbv iota.
  apply wp_bind. eapply wp_conseq.
  { apply (proj1 (nonnamed_all g pl H0 (fun y a A B => proj1 (proj2 (proj2 (proj2 (Hc y a A B))))) (S F)) 0 _ s3 H3 Hh Hp0' Hl0 Hfwb). }
  intros r s' (-> & ->). change (negb (pres_eqb ROk ROk)) with false. cbv iota.
  apply wp_ret. split; [reflexivity|]. split; reflexivity.
Qed.

(** ---- the final tree ---- *)
Definition dflt_leaves : list rose :=
  [RN 1 (scope_pay 0 [95; 71; 80; 69]) []; RN 2 (scope_pay 0 [95; 80; 82; 95]) []; RN 3 (scope_pay 0 [95; 83; 66; 95]) [];
   RN 4 (scope_pay 0 [95; 83; 73; 95]) []; RN 5 (scope_pay 0 [95; 84; 90; 95]) []].

Definition root_tree (its : list item) : rose :=
  RN 0 (scope_pay 0 [92; 0; 0; 0]) (dflt_leaves ++ lay2 1 0 6 aml_sizeofSDTHeader its).

Lemma lay2_rsizes h tbl : forall l b off, rsizes (lay2 h tbl b off l) = iszs l.
Proof.
  induction l as [|d rest IH|bk k seg fa body rest IHb IH|lk seg fa ta rest IH|seg k n elems rest IH] using items_ind; intros b off; [reflexivity| | | |].
  - rewrite lay2_cons, rsizes_app, IH, iszs_cons. reflexivity.
  - rewrite lay2_cons, rsizes_app, IH, iszs_cons, lay2_blk, isz_blk. cbn [rsizes fold_right]. rewrite !rsize_eq.
    rewrite rsizes_app, leaf_row_rsizes, len_hd_pays. cbn [rsizes fold_right]. rewrite rsize_eq, IHb. lia.
  - rewrite lay2_cons, rsizes_app, IH, iszs_cons, isz_leaf. cbn [lay2_item rsizes fold_right]. rewrite rsize_eq, leaf_row_rsizes, app_length, len_lhd_pays, len_cst_pays. lia.
  - rewrite lay2_cons, rsizes_app, IH, iszs_cons, isz_pkg. cbn [lay2_item]. rewrite rsizes_cons, rsize_eq, rsizes_cons, rsizes_cons, rsize_eq, pkg_tree_rsize. cbn [rsizes fold_right]. lia.
Qed.

Lemma root_tree_size its : rsize (root_tree its) = (6 + iszs its)%nat.
Proof. unfold root_tree. rewrite rsize_eq, rsizes_app, lay2_rsizes. reflexivity. Qed.

Lemma dflt_okE i nm ks : f1_okE (RN i (mkPay opScopeBlock 113 0 nm 0 0 None) ks).
Proof. exists 0, 0. cbn [f1_ok]. left. eexists. reflexivity. Qed.

Lemma root_tree_ok its : forallb item_okb its = true -> rallr f1_okE (root_tree its).
Proof.
  intros Hok. unfold root_tree. constructor; [apply dflt_okE|].
  apply Forall_app. split; [|apply lay2_ok; exact Hok].
  unfold dflt_leaves. repeat (constructor; [constructor; [apply dflt_okE|constructor]|]). constructor.
Qed.

Lemma root_tree_nodes its y : y < 6 + N.of_nat (iszs its) -> In y (rnodes (root_tree its)).
Proof.
  intros Hy. unfold root_tree. rewrite rnodes_eq, rnodesl_app.
  destruct (N.ltb_spec y 6) as [Hlt|Hge].
  - assert (Hc : y = 0 \/ y = 1 \/ y = 2 \/ y = 3 \/ y = 4 \/ y = 5) by lia.
    destruct Hc as [ -> | [ -> | [ -> | [ -> | [ -> | -> ] ] ] ] ]; cbn; tauto.
  - right. apply in_or_app. right. apply lay2_nodes_all. lia.
Qed.

Lemma leaf_desc g pl d a : pget pl d = Some a -> kids g d = [] -> Desc g pl (RN d a []).
Proof. intros Hp Hk. constructor; [exact Hp|exact Hk|constructor]. Qed.

(** ---- connectNamedObjArgs on the whole tree ---- *)
Lemma pass2_f1 its fuel t1 g1 pl1 hdr :
  let data := hdr ++ enc_items its in
  forallb item_okb its = true -> lenN hdr = aml_sizeofSDTHeader ->
  Rep t1 g1 pl1 -> Post1 g0c pl0c g1 pl1 0 (lay1 1 0 6 aml_sizeofSDTHeader its) ->
  (cfuel its + 24 <= fuel)%nat ->
  wp False (connectNamedObjArgs fuel 0) (after_first t1 [] 1 data) (fun r s' => r = ROk /\ exists t2 g2 pl2,
    s' = with_tree (after_first t1 [] 1 data) t2 /\ Rep t2 g2 pl2 /\ Desc g2 pl2 (root_tree its) /\
    N.of_nat (length pl2) <= 6 + N.of_nat (iszs its)).
Proof.
  intros data Hok Hhdr H1 P1 Hfuel. destruct P1 as [A1 A2 A3 A4 A5 A6]. change (N.of_nat (length pl0c)) with 6 in *.
  set (s1 := after_first t1 [] 1 data).
  assert (Hp0 : pget pl1 0 = Some (scope_pay 0 [92; 0; 0; 0])) by (rewrite A6 by lia; reflexivity).
  assert (Hk0 : kids g1 0 = D0 ++ map ridx (lay1 1 0 6 aml_sizeofSDTHeader its) ++ []) by (rewrite A3, app_nil_r; reflexivity).
  destruct fuel as [|F]; [lia|]. rewrite connectNamedObjArgs_S.
  apply wp_bind. eapply wp_objectAt_rep; [exact H1|exact Hp0|discriminate|].
  apply wp_bind. eapply wp_rdf_rep; [exact H1|exact Hp0|discriminate|]. intros o0 _ _ _ Hlast. rewrite Hlast, A3.
  change (kids g0c 0) with D0.
  pose proof (clen_le_cfuel its) as Hcl.
  eapply (cspec_all 1 0 [data] data eq_refl its 0 D0 [] 6 aml_sizeofSDTHeader s1 g1 pl1 F _ (F - cfuel its)%nat hdr []);
    [exact H1|exact Hk0|exact A4|exact Hp0|discriminate|left; lia|reflexivity|reflexivity|unfold data; rewrite app_nil_r; reflexivity|symmetry; exact Hhdr|exact Hok|lia|lia|].
  intros t2 g2 pl2 H2 [Q1 Q2 Q3 Q4]. rewrite app_nil_r in Q1.
  replace (F - clen its)%nat with (length D0 + S (S (F - clen its - 7)))%nat by (cbn [D0 length]; lia).
  assert (HD0 : forall d, In d D0 -> kids g2 d = [] /\ pget pl2 d = pget pl0c d).
  { intros d Hd. destruct (D0_facts d Hd) as (Hlt & Hne & _). change (N.of_nat 6) with 6 in Hlt.
    split; [rewrite Q3 by lia; rewrite A5 by lia; apply kids_g0c; exact Hne|rewrite Q4 by lia; apply A6; exact Hlt]. }
  eapply (conn_leaves D0 _ 0 (map ridx (lay2 1 0 6 aml_sizeofSDTHeader its)) _ g2 pl2); [exact H2|exact Q1| |].
  { intros d Hd. destruct (HD0 d Hd) as (E1 & E2). split; [exact E1|]. destruct (D0_facts d Hd) as (_ & _ & a & row & Ha & Hl & Hrow).
    exists a, row. rewrite E2. auto. }
  split; [reflexivity|]. exists t2, g2, pl2. split; [reflexivity|]. split; [exact H2|]. split.
  - unfold root_tree. constructor.
    + rewrite Q4 by lia. exact Hp0.
    + rewrite Q1, map_app. reflexivity.
    + apply Forall_app. split; [|exact Q2]. apply Forall_forall. intros r Hr. unfold dflt_leaves in Hr. cbn [In] in Hr.
      destruct Hr as [ <- | [ <- | [ <- | [ <- | [ <- | [] ] ] ] ] ];
        (apply leaf_desc; [match goal with |- pget pl2 ?d = _ => rewrite (proj2 (HD0 d ltac:(cbn; tauto))) end; reflexivity|apply HD0; cbn; tauto]).
  - destruct (N.leb_spec (N.of_nat (length pl2)) (6 + N.of_nat (iszs its))) as [Hle|Hgt]; [exact Hle|]. exfalso.
    assert (Hnone : pget pl2 (6 + N.of_nat (iszs its)) = None).
    { rewrite Q4 by lia. apply pget_none. rewrite A2, lay1_rsizes. cbn [pl0c map length tree_defaultScopeNames]. lia. }
    assert (Hsome : pget pl2 (6 + N.of_nat (iszs its)) <> None).
    { unfold pget. apply nth_error_Some. lia. }
    contradiction.
Qed.

(** ---- ParseAML ---- *)
Theorem parse_f1x its t0 :
  forallb item_okb its = true -> lenN (enc_items its) < 0x10000000 -> Rep t0 g0c pl0c ->
  exists s' gF plF,
    parseAML t0 [] 1 (table_image (enc_items its)) = Ok (true, s') /\
    Rep (p_tree s') gF plF /\ Desc gF plF (root_tree its) /\ p_tables s' = [table_image (enc_items its)] /\
    N.of_nat (length plF) <= 6 + N.of_nat (iszs its).
Proof.
  intros Hok Hsz H0.
  destruct (enc_items_len its) as (Hcf & Hsz' & Hcn).
  rewrite table_image_hdr. set (hdr := hdr_of (enc_items its)). set (data := hdr ++ enc_items its).
  assert (Hhdr : lenN hdr = aml_sizeofSDTHeader) by reflexivity.
  assert (HlenD : lenN data = aml_sizeofSDTHeader + lenN (enc_items its)) by (unfold data; rewrite lenN_app, Hhdr; reflexivity).
  assert (Hpool : length (t_pool t0) = 6%nat) by (rewrite <- (rep_len_pool _ _ _ H0); reflexivity).
  unfold parseAML. rewrite Hpool.
  set (fuel := parse_fuel (length data + 6)).
  assert (Hfuel : (400 + 8 * length (enc_items its) <= fuel)%nat).
  { unfold fuel, parse_fuel. unfold lenN in *. change aml_sizeofSDTHeader with 36 in HlenD. lia. }
  clearbody fuel.
  assert (Hgoal : wp False (parseAML_body fuel) (init_state t0 [] 1 data) (fun b s' => b = true /\
            exists gF plF, Rep (p_tree s') gF plF /\ Desc gF plF (root_tree its) /\ p_tables s' = [data] /\ N.of_nat (length plF) <= 6 + N.of_nat (iszs its))).
  2:{ destruct (wp_run _ _ _ Hgoal) as (b & s' & E & -> & gF & plF & A & B & C & D). exists s', gF, plF. auto. }
  unfold wp. rewrite parseAML_body_eq.
  match goal with |- match ?m ?s with _ => _ end => change (wp False m s (fun b s' => b = true /\
            exists gF plF, Rep (p_tree s') gF plF /\ Desc gF plF (root_tree its) /\ p_tables s' = [data] /\ N.of_nat (length plF) <= 6 + N.of_nat (iszs its))) end.
  (* the first pass *)
  apply wp_bind. eapply wp_conseq.
  { eapply (first_f1 its fuel t0 g0c pl0c 1 hdr (scope_pay 0 [92; 0; 0; 0])); [exact Hhdr| | |exact H0|reflexivity| |reflexivity|discriminate|exact Hok|lia].
    - apply Forall_app. split; [apply hdr_bytes|apply enc_items_bytes; exact Hok].
    - fold data. rewrite HlenD. unfold two32. change aml_sizeofSDTHeader with 36. lia.
    - cbn [pl0c map length tree_defaultScopeNames]. change InvalidIndex with 0xffffffff. unfold lenN in *. lia. }
  intros res s1 (-> & t1 & g1 & pl1 & -> & H1 & P1). fold data in H1, P1 |- *.
  change (pres_eqb ROk RFailed) with false. cbv iota. change (N.of_nat (length pl0c)) with 6 in P1.
  (* connectNamedObjArgs *)
  apply wp_bind. eapply wp_conseq.
  { apply (pass2_f1 its fuel t1 g1 pl1 hdr Hok Hhdr H1 P1). lia. }
  intros r s2 (-> & t2 & g2 & pl2 & -> & H2 & D2 & Hl2).
  change (negb (pres_eqb ROk ROk)) with false. cbv iota.
  (* the remaining passes *)
  assert (Hp0 : pget pl2 0 = Some (scope_pay 0 [92; 0; 0; 0])) by (apply (Desc_inv _ _ _ _ _ D2)).
  eapply wp_conseq.
  { apply (rest_generic fuel (with_tree (after_first t1 [] 1 data) t2) g2 pl2 (root_tree its) _ 1 H2 D2 eq_refl Hp0 ltac:(discriminate)).
    - apply (f1_conds t2 g2 pl2 (root_tree its) 1 H2 D2 (root_tree_ok its Hok)). intros y a Hy _. apply root_tree_nodes. pose proof (pget_lt _ _ _ Hy). lia.
    - reflexivity.
    - reflexivity.
    - reflexivity.
    - rewrite root_tree_size. lia. }
  intros b s3 (-> & Et & Etb). split; [reflexivity|]. exists g2, pl2. rewrite Et, Etb. split; [exact H2|]. split; [exact D2|split; [reflexivity|exact Hl2]].
Qed.

Theorem parse_f1 its t0 :
  forallb item_okb its = true -> lenN (enc_items its) < 0x10000000 -> Rep t0 g0c pl0c ->
  exists s' gF plF,
    parseAML t0 [] 1 (table_image (enc_items its)) = Ok (true, s') /\
    Rep (p_tree s') gF plF /\ Desc gF plF (root_tree its) /\ p_tables s' = [table_image (enc_items its)].
Proof.
  intros Hok Hsz H0. destruct (parse_f1x its t0 Hok Hsz H0) as (s' & gF & plF & A & B & C & D & _). exists s', gF, plF. auto.
Qed.
