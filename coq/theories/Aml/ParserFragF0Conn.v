(** C11 (fragment F0): connectNamedObjArgs on the tree the first pass builds for a flat list of Name declarations.
    [Shape j]: the declarations [j ..] have been connected (name set, value moved below the Name object). *)
From Coq Require Import NArith ZArith Arith List Bool Lia.
From Coq Require Import ZifyBool ZifyN ZifyNat.
From FF Require Import Lib.Word Gen.Consts_device_acpi_aml Gen.Consts_aml_tree Aml.Stream Aml.Lex Aml.LexProofs
  Aml.Tree Aml.TreeSpec Aml.TreeProofs Aml.TreeProofsOps Aml.TreeProofsFind Aml.Parser Aml.Grammar Aml.LexRoundtrip
  Aml.ParserTotalTree Aml.ParserTotalTree2 Aml.ParserTotalLex Aml.ParserTotalTable Aml.ParserTotalBase
  Aml.ParserFragBase Aml.ParserFragFirst Aml.ParserFragF0 Aml.ParserFragF0Shape Aml.ParserFragConn.
Import ListNotations.
Local Open Scope N_scope.

Ltac Zify.zify_post_hook ::= Z.div_mod_to_equations.

Definition seg_nm (s : N) : Name :=
  (N.land (N.shiftr s 24) 0xff, N.land (N.shiftr s 16) 0xff, N.land (N.shiftr s 8) 0xff, N.land s 0xff).

Lemma names_from_cons L j m : names_from L j (S m) = Nn L j :: names_from L (S j) m.
Proof. reflexivity. Qed.

Section F0.
Variable Ln : nat.                 (* objects in the pool before the table *)
Variable D : list N.               (* children of the root before the table *)
Variable pl0 : list pay.           (* their payloads *)
Variable ds : list decl.
Variable h tbl off0 : N.

Let L := N.of_nat Ln.
Let n := length ds.
Definition off (i : nat) : N := decl_off off0 ds i.

Definition name_pay (i : nat) (d : decl) (named : bool) : pay :=
  mkPay aml_pOpName 3 h (if named then seg_nm (d_seg d) else name_zero) (off i) 0 None.
Definition path_pay' (i : nat) : pay :=
  mkPay aml_pOpIntNamePath 118 h name_zero (off i + 1) 0 (Some (VBytes tbl (mkSlice (Some (off i + 1)) 4))).
Definition const_pay' (i : nat) (d : decl) : pay :=
  mkPay (d_op d) (const_info (d_op d)) h name_zero (off i + 5) 0 (const_val (d_op d) (d_v d)).

Record Shape (j : nat) (g : ghost) (pl : list pay) : Prop := mkShape {
  sh_len : length (g_kids g) = (Ln + 3 * n)%nat;
  sh_root : kids g 0 = D ++ inter_rng L 0 j ++ names_from L j (n - j);
  sh_name : forall i, (i < n)%nat -> kids g (Nn L i) = if (i <? j)%nat then [Pn L i] else [Pn L i; Cn L i];
  sh_leaf : forall i, (i < n)%nat -> kids g (Pn L i) = [] /\ kids g (Cn L i) = [];
  sh_D : forall d, In d D -> kids g d = [];
  sh_old : forall i, i < L -> pget pl i = pget pl0 i;
  sh_pN : forall i d, nth_error ds i = Some d -> pget pl (Nn L i) = Some (name_pay i d (negb (i <? j)%nat));
  sh_pP : forall i d, nth_error ds i = Some d -> pget pl (Pn L i) = Some (path_pay' i);
  sh_pC : forall i d, nth_error ds i = Some d -> pget pl (Cn L i) = Some (const_pay' i d)
}.

(** what is assumed of the objects that were there before *)
Hypothesis HL0 : 0 < L.
Hypothesis Hpl0 : length pl0 = Ln.
Variable a0 : pay.
Hypothesis Ha0 : pget pl0 0 = Some a0.
Hypothesis Hla0 : y_op a0 <> opFreed.
Hypothesis HD : forall d, In d D -> d < L /\ d <> 0 /\ exists a row, pget pl0 d = Some a /\ y_op a <> opFreed /\ opInfo (y_info a) = Some row.
Hypothesis Hok : forallb decl_okb ds = true.

Lemma nth_lt i d : nth_error ds i = Some d -> (i < n)%nat.
Proof. intros H. apply nth_error_Some. congruence. Qed.

Lemma nth_ex i : (i < n)%nat -> exists d, nth_error ds i = Some d.
Proof. intros H. destruct (nth_error ds i) eqn:E; [eauto|]. apply nth_error_None in E. unfold n in H. lia. Qed.

Lemma const_row d : In d ds -> exists row, opInfo (const_info (d_op d)) = Some row /\ d_op d <> opFreed.
Proof.
  intros Hin. rewrite forallb_forall in Hok. specialize (Hok d Hin). unfold decl_okb in Hok.
  apply andb_prop in Hok. destruct Hok as [Hd _]. apply andb_prop in Hd. destruct Hd as [_ Hc].
  destruct (is_constb_cases _ Hc) as [E|[E|[E|[E|[E|[E|E]]]]]]; rewrite E; (eexists; split; [reflexivity|discriminate]).
Qed.

(** ---- the shape after the first pass ---- *)
Lemma shape_first g :
  length (g_kids g) = Ln -> kids g 0 = D -> (forall i, i <> 0 -> kids g i = []) -> off0 = off0 ->
  Shape n (g_decls g 0 ds) (pl0 ++ pl_decls h tbl off0 ds).
Proof.
  intros Hlen Hk0 Hk _.
  assert (HlenN : N.of_nat (length (g_kids g)) = L) by (unfold L; rewrite Hlen; reflexivity).
  constructor.
  - rewrite len_g_decls, Hlen. reflexivity.
  - rewrite kids_g_decls_root by lia. rewrite Hk0, HlenN, Nat.sub_diag. unfold names_from. cbn [seq map]. rewrite app_nil_r. reflexivity.
  - intros i Hi. destruct (kids_g_decls_name ds g 0 i) as (A & _); [lia|exact Hi|]. rewrite HlenN in A. cbv zeta in A.
    assert (E : (i <? n)%nat = true) by (apply Nat.ltb_lt; exact Hi). rewrite E. exact A.
  - intros i Hi. destruct (kids_g_decls_name ds g 0 i) as (_ & A & B); [lia|exact Hi|]. rewrite HlenN in A, B. split; assumption.
  - intros d Hd. destruct (HD d Hd) as (Hlt & Hne & _). rewrite kids_g_decls_old by lia. apply Hk. exact Hne.
  - intros i Hi. apply pget_app_old. rewrite Hpl0. exact Hi.
  - intros i d Hn. assert (E : (i <? n)%nat = true) by (apply Nat.ltb_lt; eapply nth_lt; eauto). rewrite E. cbn [negb].
    unfold Nn. replace L with (N.of_nat (length pl0)) by (rewrite Hpl0; reflexivity).
    replace (N.of_nat (length pl0) + 3 * N.of_nat i) with (N.of_nat (length pl0) + (3 * N.of_nat i + 0)) by lia.
    rewrite pget_app_new, (pget_pl_decls h tbl ds off0 i d 0 Hn) by lia. reflexivity.
  - intros i d Hn. unfold Pn, Nn. replace L with (N.of_nat (length pl0)) by (rewrite Hpl0; reflexivity).
    replace (N.of_nat (length pl0) + 3 * N.of_nat i + 1) with (N.of_nat (length pl0) + (3 * N.of_nat i + 1)) by lia.
    rewrite pget_app_new, (pget_pl_decls h tbl ds off0 i d 1 Hn) by lia. reflexivity.
  - intros i d Hn. unfold Cn, Nn. replace L with (N.of_nat (length pl0)) by (rewrite Hpl0; reflexivity).
    replace (N.of_nat (length pl0) + 3 * N.of_nat i + 2) with (N.of_nat (length pl0) + (3 * N.of_nat i + 2)) by lia.
    rewrite pget_app_new, (pget_pl_decls h tbl ds off0 i d 2 Hn) by lia. reflexivity.
Qed.

(** ---- one declaration ---- *)
Definition TB (s : pstate) : Prop :=
  forall i d, nth_error ds i = Some d -> slice_bytes s tbl (mkSlice (Some (off i + 1)) 4) = Ok (seg_bytes (d_seg d)).

Lemma shape_step j g pl d : (j < n)%nat -> nth_error ds j = Some d -> Shape (S j) g pl ->
  Shape j (set_kids (set_kids g 0 ((D ++ inter_rng L 0 j) ++ Nn L j :: names_from L (S j) (n - S j))) (Nn L j) [Pn L j; Cn L j])
          (pupd pl (Nn L j) (ys_name (seg_nm (d_seg d)))).
Proof.
  intros Hj Hd S1. destruct S1 as [A1 A2 A3 A4 A5 A6 A7 A8 A9].
  assert (H0lt : 0 < N.of_nat (length (g_kids g))) by (rewrite A1; lia).
  assert (HNlt : Nn L j < N.of_nat (length (g_kids g))) by (rewrite A1; unfold Nn; lia).
  set (g1 := set_kids g 0 ((D ++ inter_rng L 0 j) ++ Nn L j :: names_from L (S j) (n - S j))).
  assert (HK : forall x, kids (set_kids g1 (Nn L j) [Pn L j; Cn L j]) x =
                         if x =? Nn L j then [Pn L j; Cn L j] else if x =? 0 then (D ++ inter_rng L 0 j) ++ Nn L j :: names_from L (S j) (n - S j) else kids g x).
  { intros x. rewrite kids_set_kids by (unfold g1; rewrite len_set_kids; exact HNlt). unfold g1. rewrite kids_set_kids by exact H0lt. reflexivity. }
  constructor.
  - unfold g1. rewrite !len_set_kids. exact A1.
  - rewrite HK. destruct (N.eqb_spec 0 (Nn L j)); [unfold Nn in *; lia|]. rewrite N.eqb_refl.
    replace (n - j)%nat with (S (n - S j)) by lia. rewrite names_from_cons, <- app_assoc. reflexivity.
  - intros i Hi. rewrite HK. destruct (N.eqb_spec (Nn L i) (Nn L j)) as [E|E].
    + assert (i = j) by (unfold Nn in E; lia). subst i. rewrite Nat.ltb_irrefl. reflexivity.
    + destruct (N.eqb_spec (Nn L i) 0); [unfold Nn in *; lia|]. rewrite (A3 i Hi).
      assert (i <> j) by (intros ->; congruence).
      destruct (Nat.ltb_spec i (S j)), (Nat.ltb_spec i j); try lia; reflexivity.
  - intros i Hi. rewrite !HK. destruct (A4 i Hi) as (B1 & B2).
    destruct (N.eqb_spec (Pn L i) (Nn L j)); [unfold Pn, Nn in *; lia|]. destruct (N.eqb_spec (Pn L i) 0); [unfold Pn, Nn in *; lia|].
    destruct (N.eqb_spec (Cn L i) (Nn L j)); [unfold Cn, Nn in *; lia|]. destruct (N.eqb_spec (Cn L i) 0); [unfold Cn, Nn in *; lia|].
    split; assumption.
  - intros x Hx. rewrite HK. destruct (HD x Hx) as (Hlt & Hne & _).
    destruct (N.eqb_spec x (Nn L j)); [unfold Nn in *; lia|]. destruct (N.eqb_spec x 0); [contradiction|]. apply A5. exact Hx.
  - intros i Hi. rewrite pget_pupd. destruct (N.eqb_spec i (Nn L j)); [unfold Nn in *; lia|]. apply A6. exact Hi.
  - intros i di Hn. rewrite pget_pupd. destruct (N.eqb_spec (Nn L i) (Nn L j)) as [E|E].
    + assert (i = j) by (unfold Nn in E; lia). subst i. assert (di = d) by congruence. subst di.
      rewrite (A7 j d Hn). cbn [option_map]. unfold name_pay, ys_name. cbn [y_op y_info y_th y_name y_off y_pkgEnd y_val].
      rewrite Nat.ltb_irrefl. reflexivity.
    + rewrite (A7 i di Hn). assert (i <> j) by (intros ->; congruence).
      destruct (Nat.ltb_spec i (S j)), (Nat.ltb_spec i j); try lia; reflexivity.
  - intros i di Hn. rewrite pget_pupd. destruct (N.eqb_spec (Pn L i) (Nn L j)); [unfold Pn, Nn in *; lia|]. apply (A8 i di Hn).
  - intros i di Hn. rewrite pget_pupd. destruct (N.eqb_spec (Cn L i) (Nn L j)); [unfold Cn, Nn in *; lia|]. apply (A9 i di Hn).
Qed.

Lemma last_app_two {A} (l : list A) x y d : last (l ++ [x; y]) d = y.
Proof. replace (l ++ [x; y]) with ((l ++ [x]) ++ [y]) by (rewrite <- app_assoc; reflexivity). apply last_app_one. Qed.

Lemma conn_names : forall j f0 s g pl (Q : pres -> pstate -> Prop),
  (j <= n)%nat -> Rep (p_tree s) g pl -> Shape j g pl -> p_handle s = h -> TB s ->
  (forall t' g' pl', Rep t' g' pl' -> Shape 0 g' pl' ->
     wp False (connectNamed_loop (S (S (S (S f0)))) 0 (last D InvalidIndex)) (with_tree s t') Q) ->
  wp False (connectNamed_loop (2 * j + S (S (S (S f0)))) 0 (last (D ++ inter_rng L 0 j) InvalidIndex)) s Q.
Proof.
  induction j as [|j IH]; intros f0 s g pl Q Hj H S1 Hh Htb K.
  - unfold inter_rng. cbn [seq flat_map]. rewrite app_nil_r. cbn [Nat.mul Nat.add].
    pose proof (K (p_tree s) g pl H S1) as K0. destruct s; exact K0.
  - destruct (nth_ex j ltac:(lia)) as (d & Hd).
    pose proof S1 as S1'. destruct S1' as [A1 A2 A3 A4 A5 A6 A7 A8 A9].
    rewrite inter_rng_S in A2 |- *. cbn [Nat.add] in A2 |- *.
    set (l1 := D ++ inter_rng L 0 j) in *. set (l2 := names_from L (S j) (n - S j)) in *.
    assert (Hk : kids g 0 = l1 ++ Nn L j :: Cn L j :: l2).
    { rewrite A2. unfold l1. rewrite <- !app_assoc. reflexivity. }
    rewrite app_assoc. fold l1. rewrite last_app_two.
    replace (2 * S j + S (S (S (S f0))))%nat with (S (S (S (2 * j + S (S (S f0))))))%nat by lia.
    assert (HdIn : In d ds) by (eapply nth_error_In; eauto).
    destruct (const_row d HdIn) as (rowc & Hrowc & Hlc).
    assert (Hp0 : pget pl 0 = Some a0) by (rewrite A6 by exact HL0; exact Ha0).
    destruct (A4 j ltac:(lia)) as (HkP & HkC).
    (* the constant is stepped over *)
    eapply (CNloop_leaf _ 0 (Cn L j) (l1 ++ [Nn L j]) l2 (const_pay' j d) rowc);
      [exact H|rewrite <- app_assoc; exact Hk|apply (A9 j d Hd)|exact Hlc|exact HkC|exact Hrowc|].
    rewrite last_app_one.
    replace (S (S (2 * j + S (S (S f0)))))%nat with (S (S (S (S (S (2 * j + f0))))))%nat by lia.
    assert (HkN : kids g (Nn L j) = [Pn L j]).
    { rewrite (A3 j ltac:(lia)). assert (E : (j <? S j)%nat = true) by (apply Nat.ltb_lt; lia). rewrite E. reflexivity. }
    eapply (CNloop_name _ 0 (Nn L j) (Pn L j) (Cn L j) l1 l2 a0 (name_pay j d (negb (j <? S j)%nat)) (path_pay' j) (const_pay' j d)
              (aml_pOpIntNamePath, 8, 0) tbl (mkSlice (Some (off j + 1)) 4)
              (N.land (N.shiftr (d_seg d) 24) 0xff) (N.land (N.shiftr (d_seg d) 16) 0xff) (N.land (N.shiftr (d_seg d) 8) 0xff) (N.land (d_seg d) 0xff));
      [exact H|exact Hk|exact HkN|exact HkP|exact HkC|exact Hp0|exact Hla0|apply (A7 j d Hd)|reflexivity|reflexivity|symmetry; exact Hh
      |apply (A8 j d Hd)|discriminate|reflexivity|reflexivity|reflexivity|apply (Htb j d Hd)|apply (A9 j d Hd)|exact Hlc|].
    intros t1 H1.
    pose proof (shape_step j g pl d ltac:(lia) Hd S1) as S2. fold l1 in S2. fold l2 in S2.
    replace (S (S (S (S (2 * j + f0)))))%nat with (2 * j + S (S (S (S f0))))%nat by lia.
    eapply (IH f0 (with_tree s t1) _ _ Q); [lia|exact H1|exact S2|exact Hh|exact Htb|].
    intros t' g' pl' H' S'. exact (K t' g' pl' H' S').
Qed.
End F0.
