(** C12 (stretch): facts about the opcode table (pOpcodeTable, opcodeMap, extendedOpcodeMap) that the
    panic-freedom proof of the first pass relies on.  All of them are checked by computation over
    the constants dumped from /repo. *)
From Coq Require Import NArith Arith List Bool Lia.
From Coq Require Import ZifyBool ZifyN ZifyNat.
From FF Require Import Lib.Word Gen.Consts_device_acpi_aml Gen.Consts_aml_tree Aml.Stream Aml.Lex Aml.Tree Aml.TreeSpec.
Import ListNotations.
Local Open Scope N_scope.

(** the two constant dumps (parser package / tree part) agree *)
Lemma pOpcodeTableIndex_eq op b :
  pOpcodeTableIndex op b = match opcodeTableIndex op b with Some i => Ok i | None => Panic end.
Proof.
  unfold pOpcodeTableIndex, opcodeTableIndex, nthN.
  change tree_opcodeMap with aml_opcodeMap. change tree_extendedOpcodeMap with aml_extendedOpcodeMap.
  change tree_badOpcode with aml_badOpcode. change tree_opcodeTableLen with aml_opcodeTableLen.
  destruct (op <=? 0xff).
  - destruct (nth_error aml_opcodeMap (N.to_nat op)); reflexivity.
  - destruct (nth_error aml_extendedOpcodeMap (N.to_nat (op - 0xff))) as [i|]; [|reflexivity].
    destruct ((i =? aml_badOpcode) && b); [|reflexivity].
    f_equal. f_equal. lia.
Qed.

Lemma opFreed_val : opFreed = aml_pOpIntFreedObject. Proof. reflexivity. Qed.

(** ---- opcodes an object may be created with ---- *)
Definition newok (opc : N) : Prop :=
  opc <> opFreed /\ opcode_in_maps opc /\ exists i, opcodeTableIndex opc true = Some i /\ opInfo i <> None.

Definition newokb (opc : N) : bool :=
  negb (opc =? opFreed) && (opc <=? 0x1fe) &&
  match opcodeTableIndex opc true with
  | Some i => match opInfo i with Some _ => true | None => false end
  | None => false
  end.

Lemma newokb_sound opc : newokb opc = true -> newok opc.
Proof.
  unfold newokb, newok. intros H. apply andb_prop in H. destruct H as [H H3]. apply andb_prop in H. destruct H as [H1 H2].
  split; [intros E; rewrite E, N.eqb_refl in H1; discriminate|].
  split.
  - unfold opcode_in_maps. change (length tree_extendedOpcodeMap) with 256%nat. apply N.leb_le in H2. lia.
  - destruct (opcodeTableIndex opc true) as [i|]; [|discriminate]. exists i. split; auto.
    destruct (opInfo i); [discriminate|discriminate].
Qed.

Definition ops511 : list N := map N.of_nat (seq 0 511).

Lemma In_ops511 op : op <= 0x1fe -> In op ops511.
Proof.
  intros H. unfold ops511. apply in_map_iff. exists (N.to_nat op). split; [apply N2Nat.id|].
  apply in_seq. lia.
Qed.

Definition valid_op_check (op : N) : bool :=
  match opcodeTableIndex op false with
  | Some idx => (idx =? aml_badOpcode) ||
                (newokb op && match opcodeTableIndex op true with Some j => j =? idx | None => false end)
  | None => true
  end.

Lemma valid_ops_ok : forallb valid_op_check ops511 = true.
Proof. vm_compute. reflexivity. Qed.

(** an opcode accepted by nextOpcode *)
Lemma valid_op op idx : op <= 0x1fe -> opcodeTableIndex op false = Some idx -> idx <> aml_badOpcode ->
  newok op /\ opcodeTableIndex op true = Some idx.
Proof.
  intros Hop Hi Hb. pose proof (proj1 (forallb_forall _ _) valid_ops_ok op (In_ops511 op Hop)) as H.
  unfold valid_op_check in H. rewrite Hi in H. apply N.eqb_neq in Hb. rewrite Hb in H. cbn [orb] in H.
  apply andb_prop in H. destruct H as [H1 H2]. split; [apply newokb_sound; exact H1|].
  destruct (opcodeTableIndex op true) as [j|]; [|discriminate]. apply N.eqb_eq in H2. congruence.
Qed.

Lemma newok_const :
  newok 0 /\ newok aml_pOpIntConnection /\ newok aml_pOpIntByteList /\ newok aml_pOpIntNamePath /\
  newok aml_pOpIntNamedField /\ newok aml_pOpIntScopeBlock /\ newok aml_pOpIntNamePathOrMethodCall /\
  newok aml_pOpBytePrefix /\ newok aml_pOpWordPrefix /\ newok aml_pOpDwordPrefix /\ newok aml_pOpQwordPrefix /\
  newok aml_pOpStringPrefix.
Proof. repeat split; try (apply newokb_sound; reflexivity); apply (proj1 (newokb_sound _ eq_refl)). Qed.

(** ---- argument lists ---- *)
Definition idx8 : list N := [0; 1; 2; 3; 4; 5; 6; 7].

Lemma In_idx8 i : i < 8 -> In i idx8.
Proof.
  intros H. assert (C : i = 0 \/ i = 1 \/ i = 2 \/ i = 3 \/ i = 4 \/ i = 5 \/ i = 6 \/ i = 7) by lia.
  unfold idx8. cbn [In]. intuition.
Qed.

Lemma argCount_go_le n : forall fl, argCount_go n fl <= N.of_nat n.
Proof.
  induction n as [|n IH]; intros fl; cbn [argCount_go]; [lia|].
  destruct (N.land fl 0xf =? 0); [lia|]. specialize (IH (N.shiftr fl 8)). lia.
Qed.

Lemma argCount_le8 fl : argCount fl <= 8.
Proof. unfold argCount. pose proof (argCount_go_le 8 fl). lia. Qed.

Lemma opInfo_In ii op fl af : opInfo ii = Some (op, fl, af) -> In [op; fl; af] aml_opcodeTable.
Proof.
  unfold opInfo. destruct (nth_error aml_opcodeTable (N.to_nat ii)) as [row|] eqn:E; [|discriminate].
  destruct row as [|a [|b [|c [|d rest]]]]; try discriminate. intros H; inversion H; subst.
  eapply nth_error_In; eauto.
Qed.

(** a FieldList argument always follows a ByteData argument (the field flags) *)
Definition row_fl_check (row : list N) : bool :=
  match row with
  | [op; fl; af] =>
      forallb (fun i => negb (argType af i =? aml_pArgTypeFieldList) ||
                        ((1 <=? i) && (argType af (i - 1) =? aml_pArgTypeByteData))) idx8
  | _ => true
  end.

Lemma rows_fl_ok : forallb row_fl_check aml_opcodeTable = true.
Proof. vm_compute. reflexivity. Qed.

Lemma fieldlist_after_bytedata ii op fl af i :
  opInfo ii = Some (op, fl, af) -> i < 8 -> argType af i = aml_pArgTypeFieldList ->
  1 <= i /\ argType af (i - 1) = aml_pArgTypeByteData.
Proof.
  intros Hi Hlt Ht. pose proof (proj1 (forallb_forall _ _) rows_fl_ok _ (opInfo_In _ _ _ _ Hi)) as H.
  cbn [row_fl_check] in H. pose proof (proj1 (forallb_forall _ _) H i (In_idx8 i Hlt)) as H'. cbv beta in H'.
  rewrite Ht, N.eqb_refl in H'. cbn [negb orb] in H'. apply andb_prop in H'. destruct H' as [H1 H2].
  apply N.leb_le in H1. apply N.eqb_eq in H2. auto.
Qed.

(** the operators parseTarget accepts take no FieldList *)
Definition target_cond (op : N) : bool :=
  isArg op || (op =? aml_pOpRefOf) || (op =? aml_pOpDerefOf) || (op =? aml_pOpIndex) || (op =? aml_pOpDebug).

Definition no_fieldlist (af : N) : bool :=
  forallb (fun i => negb (argType af i =? aml_pArgTypeFieldList)) idx8.

Definition target_check (op : N) : bool :=
  negb (target_cond op) ||
  match opcodeTableIndex op true with
  | Some i => match opInfo i with Some (_, _, af) => no_fieldlist af | None => false end
  | None => false
  end.

Lemma target_ok : forallb target_check ops511 = true.
Proof. vm_compute. reflexivity. Qed.

Lemma target_no_fieldlist op i o fl af k :
  op <= 0x1fe -> target_cond op = true -> opcodeTableIndex op true = Some i -> opInfo i = Some (o, fl, af) ->
  k < 8 -> argType af k <> aml_pArgTypeFieldList.
Proof.
  intros Hop Hc Hi Hr Hk. pose proof (proj1 (forallb_forall _ _) target_ok op (In_ops511 op Hop)) as H.
  unfold target_check in H. rewrite Hc, Hi, Hr in H. cbn [negb orb] in H.
  pose proof (proj1 (forallb_forall _ _) H k (In_idx8 k Hk)) as H'. cbv beta in H'.
  intros E. rewrite E, N.eqb_refl in H'. discriminate.
Qed.

(** a ByteList argument only ever follows a TermArg / DataRefObj argument (Buffer), at which the first pass stops *)
Definition row_bl_check (row : list N) : bool :=
  match row with
  | [op; fl; af] =>
      forallb (fun j => negb (argType af j =? aml_pArgTypeByteList) ||
                        existsb (fun j' => (j' <? j) && ((argType af j' =? aml_pArgTypeTermArg) || (argType af j' =? aml_pArgTypeDataRefObj))) idx8) idx8
  | _ => true
  end.

Lemma rows_bl_ok : forallb row_bl_check aml_opcodeTable = true.
Proof. vm_compute. reflexivity. Qed.

Lemma bytelist_shielded ii op fl af j :
  opInfo ii = Some (op, fl, af) -> j < 8 -> argType af j = aml_pArgTypeByteList ->
  exists j', j' < j /\ (argType af j' = aml_pArgTypeTermArg \/ argType af j' = aml_pArgTypeDataRefObj).
Proof.
  intros Hi Hlt Ht. pose proof (proj1 (forallb_forall _ _) rows_bl_ok _ (opInfo_In _ _ _ _ Hi)) as H.
  cbn [row_bl_check] in H. pose proof (proj1 (forallb_forall _ _) H j (In_idx8 j Hlt)) as H'. cbv beta in H'.
  rewrite Ht, N.eqb_refl in H'. cbn [negb orb] in H'. apply existsb_exists in H'. destruct H' as (j' & _ & H').
  apply andb_prop in H'. destruct H' as [H1 H2]. apply N.ltb_lt in H1. exists j'. split; auto.
  apply orb_prop in H2. destruct H2 as [H2|H2]; apply N.eqb_eq in H2; auto.
Qed.

(** scanning the arguments from index [i]: is there a TermList (which enters a scope) that is not preceded by a
    PkgLen (which pushes a package end)? *)
Fixpoint owe_go (n : nat) (af i : N) : bool :=
  match n with
  | O => false
  | S n' => if argType af i =? aml_pArgTypeTermList then true
            else if argType af i =? aml_pArgTypePkgLen then false
            else owe_go n' af (i + 1)
  end.
Definition oweb (af i : N) : bool := owe_go (8 - N.to_nat i) af i.

Lemma oweb_step af i : i < 8 ->
  oweb af i = if argType af i =? aml_pArgTypeTermList then true
              else if argType af i =? aml_pArgTypePkgLen then false
              else oweb af (i + 1).
Proof.
  intros H. unfold oweb. replace (8 - N.to_nat i)%nat with (S (8 - N.to_nat (i + 1))) by lia. reflexivity.
Qed.

Definition ext_owe_check (op : N) : bool :=
  match opcodeTableIndex op false with
  | Some idx => (idx =? aml_badOpcode) ||
                match opInfo idx with Some (_, _, af) => negb (oweb af 0) | None => true end
  | None => true
  end.

Lemma ext_owe_ok : forallb ext_owe_check ops511 = true.
Proof. vm_compute. reflexivity. Qed.

(** in the row of every opcode that nextOpcode accepts, a TermList argument is preceded by a PkgLen argument
    (the internal pOpIntScopeBlock row is the only one where it is not) *)
Lemma termlist_after_pkglen op idx o fl af :
  op <= 0x1fe -> opcodeTableIndex op false = Some idx -> idx <> aml_badOpcode -> opInfo idx = Some (o, fl, af) ->
  oweb af 0 = false.
Proof.
  intros Hop Hi Hb Hr. pose proof (proj1 (forallb_forall _ _) ext_owe_ok op (In_ops511 op Hop)) as H.
  unfold ext_owe_check in H. rewrite Hi, Hr in H. apply N.eqb_neq in Hb. rewrite Hb in H. cbn [orb] in H.
  destruct (oweb af 0); [discriminate|reflexivity].
Qed.
