(** findRelative of obj_tree.go: the hand-written model (Aml/Tree.v, [findRelative] / [findRelative_go]: structural recursion on
    the expression as a list with a [skipping] flag) equals the Go -> Gallina translation (Gen/Trans_aml_tree.v: three nested
    index loops with labelled continues).  Continuation of Aml/TreeTrans.v.

    The regenerated term is compared, by [reflexivity] ([findRelative_unfold]), with a structured copy of itself - the step
    functions of its four loops as named definitions [fr_byte], [fr_skip], [fr_sib], [fr_outer] (cut out of the generated text;
    any change of the generated term breaks that lemma and with it the tie).  Then: the byte loop compares four bytes
    ([byte_loop]), the sibling loop is [find_sibling] on the same fuel ([sib_loop]), the skip loop advances by [skipcnt]
    ([skip_loop]), and the outer loop is the model's recursion with the invariant "the model's remaining list is
    [skipn segIndex expr]" ([outer_loop]).  Go ints are two's complement in 64 bits: the expression must be shorter than 2^62. *)
From Coq Require Import NArith PeanoNat List Bool Lia ZArith.
From Coq Require Import ZifyBool ZifyN ZifyNat.
From FF Require Import Lib.Word Lib.GoOps Lib.GoPool Gen.Consts_aml_tree Gen.Trans_aml_tree Aml.Stream Aml.Tree Aml.TreeTrans.
Import ListNotations.
Local Open Scope N_scope.
Local Open Scope bool_scope.
Ltac Zify.zify_post_hook ::= Z.div_mod_to_equations.

Section F.
Context {V : Type}.
Notation Obj := (Object V).
Notation Tree := (ObjectTree V).
Local Notation go_aml_ObjectTree := (@FF.Gen.Trans_aml_tree.go_aml_ObjectTree V).

Definition fr_byte (v_expr : list N) (ix : N -> N) (v_obj : option N)
  : (go_aml_ObjectTree * N * bool) -> gres (gctl (go_aml_ObjectTree * N * bool) (go_aml_ObjectTree * N)) :=
  (fun st : (go_aml_ObjectTree * N * bool)%type => let '(v_tree, v_byteIndex, v_cont_checkNextSibling) := st in
  if (gslt 64 v_byteIndex tree_amlNameLen)
  then (match gidxs 64 v_expr (ix v_byteIndex) with None => GPanic | Some t9 =>
  match gderef (f_ObjectTree_objPool v_tree) v_obj with None => GPanic | Some t10 =>
  match gidxs 64 (f_Object_name t10) v_byteIndex with None => GPanic | Some t11 =>
  if (negb (t9 =? t11))
  then (let v_cont_checkNextSibling := true in
  (GOk (GBreak (v_tree, v_byteIndex, v_cont_checkNextSibling))))
  else (let v_byteIndex := (gw 64 (v_byteIndex + 1)) in
  (GOk (GNext (v_tree, v_byteIndex, v_cont_checkNextSibling)))) end end end)
  else ((GOk (GBreak (v_tree, v_byteIndex, v_cont_checkNextSibling))))).

Definition fr_skip (v_expr : list N) (v_exprLen : N)
  : (go_aml_ObjectTree * N) -> gres (gctl (go_aml_ObjectTree * N) (go_aml_ObjectTree * N)) :=
  (fun st : (go_aml_ObjectTree * N)%type => let '(v_tree, v_segIndex) := st in
  if true
  then (if (gslt 64 v_segIndex v_exprLen)
  then (match gidxs 64 v_expr v_segIndex with None => GPanic | Some t1 =>
  if (negb (t1 =? (95)%N))
  then (match gidxs 64 v_expr v_segIndex with None => GPanic | Some t2 =>
  if (t2 <? (65)%N)
  then (match gidxs 64 v_expr v_segIndex with None => GPanic | Some t3 =>
  match (if (t3 =? (0x2f)%N)
  then (let v_segIndex := (gw 64 (v_segIndex + 1)) in
  (GOk (v_tree, v_segIndex)))
  else ((GOk (v_tree, v_segIndex)))) : gres (go_aml_ObjectTree * N)%type with
  | GPanic => GPanic | GFuel => GFuel
  | GOk st => let '(v_tree, v_segIndex) := st in
  let v_segIndex := (gw 64 (v_segIndex + 1)) in
  (GOk (GNext (v_tree, v_segIndex)))
  end end)
  else (match gidxs 64 v_expr v_segIndex with None => GPanic | Some t4 =>
  if ((90)%N <? t4)
  then (match gidxs 64 v_expr v_segIndex with None => GPanic | Some t5 =>
  match (if (t5 =? (0x2f)%N)
  then (let v_segIndex := (gw 64 (v_segIndex + 1)) in
  (GOk (v_tree, v_segIndex)))
  else ((GOk (v_tree, v_segIndex)))) : gres (go_aml_ObjectTree * N)%type with
  | GPanic => GPanic | GFuel => GFuel
  | GOk st => let '(v_tree, v_segIndex) := st in
  let v_segIndex := (gw 64 (v_segIndex + 1)) in
  (GOk (GNext (v_tree, v_segIndex)))
  end end)
  else ((GOk (GBreak (v_tree, v_segIndex)))) end) end)
  else ((GOk (GBreak (v_tree, v_segIndex)))) end)
  else ((GOk (GBreak (v_tree, v_segIndex)))))
  else ((GOk (GBreak (v_tree, v_segIndex))))).

Definition fr_sib (fuel : nat) (v_expr : list N) (v_segIndex : N)
  : (go_aml_ObjectTree * bool * bool * N * N) -> gres (gctl (go_aml_ObjectTree * bool * bool * N * N) (go_aml_ObjectTree * N)) :=
  (fun st : (go_aml_ObjectTree * bool * bool * N * N)%type => let '(v_tree, v_cont_checkNextSibling, v_cont_nextSegment, v_nextIndex, v_scopeIndex) := st in
  if (negb (v_nextIndex =? tree_InvalidIndex))
  then (match go_aml_ObjectTree_ObjectAt v_tree v_nextIndex with GPanic => GPanic | GFuel => GFuel | GOk (v_tree, t8) =>
  let v_obj := t8 in
  let v_cont_checkNextSibling := false in
  let v_byteIndex := (gw 64 (0)%N) in
  match gloop (R := (go_aml_ObjectTree * N)%type) fuel (fr_byte v_expr (fun b => (gw 64 (v_segIndex + b))) v_obj) (v_tree, v_byteIndex, v_cont_checkNextSibling) with
  | GPanic => GPanic | GFuel => GFuel
  | GOk (inr r) => (GOk (GRet r))
  | GOk (inl st) => let '(v_tree, v_byteIndex, v_cont_checkNextSibling) := st in
  if v_cont_checkNextSibling
  then (match go_aml_ObjectTree_ObjectAt v_tree v_nextIndex with GPanic => GPanic | GFuel => GFuel | GOk (v_tree, t12) =>
  match gderef (f_ObjectTree_objPool v_tree) t12 with None => GPanic | Some t13 =>
  let v_nextIndex := (f_Object_nextSiblingIndex t13) in
  (GOk (GNext (v_tree, v_cont_checkNextSibling, v_cont_nextSegment, v_nextIndex, v_scopeIndex))) end end)
  else (let v_scopeIndex := v_nextIndex in
  let v_cont_nextSegment := true in
  (GOk (GBreak (v_tree, v_cont_checkNextSibling, v_cont_nextSegment, v_nextIndex, v_scopeIndex))))
  end end)
  else ((GOk (GBreak (v_tree, v_cont_checkNextSibling, v_cont_nextSegment, v_nextIndex, v_scopeIndex))))).

Definition fr_outer (fuel : nat) (v_expr : list N) (v_exprLen : N)
  : (go_aml_ObjectTree * bool * N * N) -> gres (gctl (go_aml_ObjectTree * bool * N * N) (go_aml_ObjectTree * N)) :=
  (fun st : (go_aml_ObjectTree * bool * N * N)%type => let '(v_tree, v_cont_nextSegment, v_scopeIndex, v_segIndex) := st in
  if (gslt 64 v_segIndex v_exprLen)
  then (match gloop (R := (go_aml_ObjectTree * N)%type) fuel (fr_skip v_expr v_exprLen) (v_tree, v_segIndex) with
  | GPanic => GPanic | GFuel => GFuel
  | GOk (inr r) => (GOk (GRet r))
  | GOk (inl st) => let '(v_tree, v_segIndex) := st in
  if (gslt 64 (gsub 64 v_exprLen v_segIndex) tree_amlNameLen)
  then ((GOk (GRet (v_tree, tree_InvalidIndex))))
  else (match go_aml_ObjectTree_ObjectAt v_tree v_scopeIndex with GPanic => GPanic | GFuel => GFuel | GOk (v_tree, t6) =>
  let v_scopeObj := t6 in
  let v_cont_nextSegment := false in
  let v_cont_checkNextSibling := false in
  match gderef (f_ObjectTree_objPool v_tree) v_scopeObj with None => GPanic | Some t7 =>
  let v_nextIndex := (f_Object_firstArgIndex t7) in
  match gloop (R := (go_aml_ObjectTree * N)%type) fuel (fr_sib fuel v_expr v_segIndex) (v_tree, v_cont_checkNextSibling, v_cont_nextSegment, v_nextIndex, v_scopeIndex) with
  | GPanic => GPanic | GFuel => GFuel
  | GOk (inr r) => (GOk (GRet r))
  | GOk (inl st) => let '(v_tree, v_cont_checkNextSibling, v_cont_nextSegment, v_nextIndex, v_scopeIndex) := st in
  if v_cont_nextSegment
  then (let v_segIndex := (gw 64 (v_segIndex + tree_amlNameLen)) in
  (GOk (GNext (v_tree, v_cont_nextSegment, v_scopeIndex, v_segIndex))))
  else ((GOk (GRet (v_tree, tree_InvalidIndex))))
  end end end)
  end)
  else ((GOk (GBreak (v_tree, v_cont_nextSegment, v_scopeIndex, v_segIndex))))).

Definition fr_main (fuel : nat) (v_tree : go_aml_ObjectTree) (v_scopeIndex : N) (v_expr : list N) : gres (go_aml_ObjectTree * N) :=
  let v_exprLen := (glen v_expr) in
  let v_cont_nextSegment := false in
  let v_segIndex := (gw 64 (0)%N) in
  match gloop (R := (go_aml_ObjectTree * N)%type) fuel (fr_outer fuel v_expr v_exprLen) (v_tree, v_cont_nextSegment, v_scopeIndex, v_segIndex) with
  | GPanic => GPanic | GFuel => GFuel
  | GOk (inr r) => (GOk r)
  | GOk (inl st) => let '(v_tree, v_cont_nextSegment, v_scopeIndex, v_segIndex) := st in
  (GOk (v_tree, v_scopeIndex))
  end.

Lemma findRelative_unfold : forall fuel g scope expr,
  go_aml_ObjectTree_findRelative fuel g scope expr = fr_main fuel g scope expr.
Proof. reflexivity. Qed.

(** ---- arithmetic of Go int (two's complement in 64 bits) on small values ---- *)
Lemma gw64_small : forall x, x < 2 ^ 64 -> gw 64 x = x.
Proof. intros. unfold gw. now apply N.mod_small. Qed.

Lemma gslt_small : forall a b, a < 2 ^ 63 -> b < 2 ^ 63 -> gslt 64 a b = (a <? b).
Proof.
  intros a b Ha Hb. unfold gslt, gsbias. change (2 ^ (64 - 1)) with (2 ^ 63).
  change (2 ^ 63) with 9223372036854775808 in *. change (2 ^ 64) with 18446744073709551616.
  rewrite !N.mod_small by lia. destruct (N.ltb_spec a b); [apply N.ltb_lt | apply N.ltb_ge]; lia.
Qed.

Lemma gidxs_small : forall l i, i < 2 ^ 63 -> gidxs 64 l i = nth_error l (N.to_nat i).
Proof.
  intros l i Hi. unfold gidxs, gisneg, gidx. change (2 ^ (64 - 1)) with (2 ^ 63).
  replace (2 ^ 63 <=? i) with false; [reflexivity|]. symmetry. apply N.leb_gt. exact Hi.
Qed.

(** [exprLen - segIndex < amlNameLen] for 0 <= segIndex <= exprLen + 1 *)
Lemma gslt_sub_small : forall len k, len < 2 ^ 62 -> k <= len + 1 ->
  gslt 64 (gsub 64 len k) 4 = (len <? k + 4).
Proof.
  intros len k Hl Hk. unfold gslt, gsbias, gsub, gw. change (2 ^ (64 - 1)) with (2 ^ 63).
  change (2 ^ 63) with 9223372036854775808 in *. change (2 ^ 64) with 18446744073709551616.
  change (2 ^ 62) with 4611686018427387904 in *.
  destruct (N.ltb_spec len (k + 4)); [apply N.ltb_lt | apply N.ltb_ge]; lia.
Qed.

Lemma gloop_S : forall (St R : Type) f (step : St -> gres (gctl St R)) s,
  gloop (S f) step s =
  match step s with
  | GOk (GNext s') => gloop f step s'
  | GOk (GBreak s') => GOk (inl s')
  | GOk (GRet r) => GOk (inr r)
  | GPanic => GPanic
  | GFuel => GFuel
  end.
Proof. reflexivity. Qed.

Lemma amlNameLen_4 : tree_amlNameLen = 4.
Proof. reflexivity. Qed.

(** ---- the byte-compare loop ---- *)
Lemma fr_byte_step : forall (t : Tree) expr ix p o bi c b n,
  deref t p = Ok o -> bi < 4 -> ix bi < 2 ^ 63 ->
  nth_error expr (N.to_nat (ix bi)) = Some b ->
  nth_error (name_bytes (o_name o)) (N.to_nat bi) = Some n ->
  fr_byte expr ix (Some p) (tr_tree t, bi, c) =
  if b =? n then GOk (GNext (tr_tree t, bi + 1, c)) else GOk (GBreak (tr_tree t, bi, true)).
Proof.
  intros t expr ix p o bi c b n D Hb Hix Hb0 Hn. unfold fr_byte.
  assert (bi < 2 ^ 63) by (change (2 ^ 63) with 9223372036854775808; lia).
  rewrite gslt_small by (rewrite ?amlNameLen_4; trivial; reflexivity).
  rewrite amlNameLen_4. replace (bi <? 4) with true by (symmetry; now apply N.ltb_lt).
  rewrite gidxs_small by assumption. rewrite Hb0. rewrite gderef_tr, D.
  change (f_Object_name (tr_obj o)) with (name_bytes (o_name o)).
  rewrite gidxs_small by assumption. rewrite Hn.
  destruct (b =? n); cbn [negb]; [|reflexivity].
  rewrite gw64_small; [reflexivity|]. change (2 ^ 64) with 18446744073709551616. lia.
Qed.

Lemma fr_byte_end : forall (g : go_aml_ObjectTree) expr ix obj c,
  fr_byte expr ix obj (g, 4, c) = GOk (GBreak (g, 4, c)).
Proof. reflexivity. Qed.

Lemma byte_loop : forall (t : Tree) expr ix p o b0 b1 b2 b3 fuel,
  deref t p = Ok o ->
  ix 0 < 2 ^ 63 -> ix 1 < 2 ^ 63 -> ix 2 < 2 ^ 63 -> ix 3 < 2 ^ 63 ->
  nth_error expr (N.to_nat (ix 0)) = Some b0 -> nth_error expr (N.to_nat (ix 1)) = Some b1 ->
  nth_error expr (N.to_nat (ix 2)) = Some b2 -> nth_error expr (N.to_nat (ix 3)) = Some b3 ->
  (5 <= fuel)%nat ->
  exists bi, gloop fuel (fr_byte expr ix (Some p)) (tr_tree t, 0, false) =
             GOk (inl (tr_tree t, bi, negb (name_eqb (b0, b1, b2, b3) (o_name o)))).
Proof.
  intros t expr ix p o b0 b1 b2 b3 fuel D I0 I1 I2 I3 H0 H1 H2 H3 Hf.
  do 5 (destruct fuel as [|fuel]; [lia|]). clear Hf.
  destruct (o_name o) as [[[n0 n1] n2] n3] eqn:En.
  assert (N0 : nth_error (name_bytes (o_name o)) (N.to_nat 0) = Some n0) by (rewrite En; reflexivity).
  assert (N1 : nth_error (name_bytes (o_name o)) (N.to_nat 1) = Some n1) by (rewrite En; reflexivity).
  assert (N2 : nth_error (name_bytes (o_name o)) (N.to_nat 2) = Some n2) by (rewrite En; reflexivity).
  assert (N3 : nth_error (name_bytes (o_name o)) (N.to_nat 3) = Some n3) by (rewrite En; reflexivity).
  unfold name_eqb.
  rewrite gloop_S, (fr_byte_step t expr ix p o 0 false b0 n0 D eq_refl I0 H0 N0).
  destruct (b0 =? n0); [|eexists; reflexivity]. change (0 + 1) with 1.
  rewrite gloop_S, (fr_byte_step t expr ix p o 1 false b1 n1 D eq_refl I1 H1 N1).
  destruct (b1 =? n1); [|eexists; reflexivity]. change (1 + 1) with 2.
  rewrite gloop_S, (fr_byte_step t expr ix p o 2 false b2 n2 D eq_refl I2 H2 N2).
  destruct (b2 =? n2); [|eexists; reflexivity]. change (2 + 1) with 3.
  rewrite gloop_S, (fr_byte_step t expr ix p o 3 false b3 n3 D eq_refl I3 H3 N3).
  destruct (b3 =? n3); [|eexists; reflexivity]. change (3 + 1) with 4.
  rewrite gloop_S, fr_byte_end. eexists; reflexivity.
Qed.

Lemma byte_loop_nil : forall (g : go_aml_ObjectTree) expr ix b0 fuel,
  ix 0 < 2 ^ 63 -> nth_error expr (N.to_nat (ix 0)) = Some b0 -> (1 <= fuel)%nat ->
  gloop fuel (fr_byte expr ix None) (g, 0, false) = GPanic.
Proof.
  intros g expr ix b0 fuel I0 H0 Hf. destruct fuel as [|fuel]; [lia|].
  rewrite gloop_S. unfold fr_byte.
  rewrite gslt_small by (rewrite ?amlNameLen_4; reflexivity).
  rewrite amlNameLen_4. change (0 <? 4) with true. cbv iota.
  rewrite gidxs_small by assumption. rewrite H0. reflexivity.
Qed.

(** ---- the sibling loop of findRelative against [find_sibling] (same fuel on both sides) ---- *)
Lemma ObjectAt_some : forall (t : Tree) i p, ObjectAt t i = Some p -> p = i /\ exists o, deref t i = Ok o.
Proof.
  intros t i p. rewrite ObjectAt_eq. unfold ObjectAt'.
  destruct (pool_len t <=? i); [discriminate|].
  destruct (deref t i) as [o| |]; try discriminate.
  destruct (o_opcode o =? opFreed); [discriminate|]. intro H; inversion H. split; [reflexivity|eauto].
Qed.

Definition sib_expected (g : go_aml_ObjectTree) (ccs' cns : bool) (scope : N) (r : outcome (option N))
  : gres ((go_aml_ObjectTree * bool * bool * N * N) + (go_aml_ObjectTree * N)) :=
  match r with
  | Ok None => GOk (inl (g, ccs', cns, tree_InvalidIndex, scope))
  | Ok (Some c) => GOk (inl (g, false, true, c, c))
  | Panic => GPanic
  | OutOfFuel => GFuel
  end.

Lemma sib_loop : forall (t : Tree) expr seg b0 b1 b2 b3 fuel,
  seg + 4 < 2 ^ 63 -> (5 <= fuel)%nat ->
  nth_error expr (N.to_nat (seg + 0)) = Some b0 -> nth_error expr (N.to_nat (seg + 1)) = Some b1 ->
  nth_error expr (N.to_nat (seg + 2)) = Some b2 -> nth_error expr (N.to_nat (seg + 3)) = Some b3 ->
  forall f ccs cns next scope,
  exists ccs', gloop f (fr_sib fuel expr seg) (tr_tree t, ccs, cns, next, scope) =
               sib_expected (tr_tree t) ccs' cns scope (find_sibling f t next (b0, b1, b2, b3)).
Proof.
  intros t expr seg b0 b1 b2 b3 fuel Hs Hf H0 H1 H2 H3.
  assert (IX : forall k, k < 4 -> gw 64 (seg + k) = seg + k).
  { intros k Hk. apply gw64_small. change (2 ^ 63) with 9223372036854775808 in Hs.
    change (2 ^ 64) with 18446744073709551616. lia. }
  assert (IXb : forall k, k < 4 -> gw 64 (seg + k) < 2 ^ 63).
  { intros k Hk. rewrite IX by assumption. change (2 ^ 63) with 9223372036854775808 in *. lia. }
  induction f as [|f IH]; intros ccs cns next scope; [exists false; reflexivity|].
  cbn [find_sibling]. rewrite gloop_S. unfold fr_sib at 1. unfold InvalidIndex.
  destruct (next =? tree_InvalidIndex) eqn:E; cbn [negb].
  - apply N.eqb_eq in E. subst next. exists ccs; reflexivity.
  - rewrite ObjectAt_is_translation. unfold ObjectAt_deref.
    destruct (ObjectAt t next) as [p|] eqn:OA; cbn [bind].
    + destruct (ObjectAt_some _ _ _ OA) as [-> [o D]]. rewrite D. cbn [bind].
      cbv zeta. change (gw 64 0) with 0.
      destruct (byte_loop t expr (fun b => gw 64 (seg + b)) next o b0 b1 b2 b3 fuel D
                  (IXb 0 eq_refl) (IXb 1 eq_refl) (IXb 2 eq_refl) (IXb 3 eq_refl)) as [bi BL]; trivial;
        try (rewrite IX by reflexivity; assumption).
      rewrite BL. cbv iota beta.
      destruct (name_eqb (b0, b1, b2, b3) (o_name o)); cbn [negb].
      * exists false; reflexivity.
      * rewrite ObjectAt_is_translation, OA, gderef_tr, D.
        change (f_Object_nextSiblingIndex (tr_obj o)) with (o_next o).
        apply IH.
    + cbv zeta. change (gw 64 0) with 0.
      exists false. rewrite (byte_loop_nil (tr_tree t) expr (fun b => gw 64 (seg + b)) b0 fuel); trivial.
      * apply (IXb 0 eq_refl). * rewrite IX by reflexivity. assumption. * lia.
Qed.

(** ---- the skip loop: bytes that cannot start a name are stepped over (0x2f together with the byte behind it) ---- *)
Fixpoint skipcnt (l : list N) : nat :=
  match l with
  | [] => 0
  | b :: r => if is_lead b then 0
              else if b =? 0x2f then match r with _ :: r' => 2 + skipcnt r' | [] => 2 end
              else 1 + skipcnt r
  end.

Lemma skipcnt_le : forall n l, (length l <= n)%nat -> (skipcnt l <= length l + 1)%nat.
Proof.
  induction n as [|n IH]; intros [|b r] H; cbn [skipcnt length] in *; try lia.
  destruct (is_lead b); [lia|]. destruct (b =? 47).
  - destruct r as [|x r']; cbn [length] in *; [lia|]. specialize (IH r'). lia.
  - specialize (IH r). lia.
Qed.

Lemma skipn_cons_nth : forall (l : list N) k b r, skipn k l = b :: r -> nth_error l k = Some b /\ (k < length l)%nat.
Proof.
  induction l as [|x l IH]; intros [|k] b r H; cbn in *; try discriminate.
  - inversion H. split; [reflexivity|lia].
  - destruct (IH k b r H). split; [assumption|lia].
Qed.

Lemma skipn_nil_len : forall (l : list N) k, skipn k l = [] -> (length l <= k)%nat.
Proof. intros l k H. pose proof (skipn_length k l) as L. rewrite H in L. cbn in L. lia. Qed.

Lemma nth_error_skipn' : forall (l : list N) k i, nth_error (skipn k l) i = nth_error l (k + i).
Proof. induction l as [|x l IH]; intros [|k] i; cbn; try reflexivity. - now destruct i. - apply IH. Qed.

Lemma skipn_add : forall (l : list N) a b, skipn (a + b) l = skipn b (skipn a l).
Proof. induction l as [|x l IH]; intros [|a] b; cbn; try reflexivity. - now destruct b. - apply IH. Qed.

Lemma is_lead_go : forall b, is_lead b = negb (negb (b =? 95) && ((b <? 65) || (90 <? b))).
Proof.
  intros b. unfold is_lead.
  destruct (N.eqb_spec b 95), (N.leb_spec 65 b), (N.leb_spec b 90), (N.ltb_spec b 65), (N.ltb_spec 90 b); cbn; try reflexivity; lia.
Qed.

Section Expr.
Variable expr : list N.
Hypothesis expr_small : N.of_nat (length expr) < 2 ^ 62.

Lemma of_nat_small : forall k, (k <= length expr + 8)%nat -> N.of_nat k < 2 ^ 63.
Proof. intros. change (2 ^ 62) with 4611686018427387904 in *. change (2 ^ 63) with 9223372036854775808. lia. Qed.

Lemma fr_skip_step : forall (g : go_aml_ObjectTree) k, (k <= length expr + 1)%nat ->
  fr_skip expr (glen expr) (g, N.of_nat k) =
  match skipn k expr with
  | [] => GOk (GBreak (g, N.of_nat k))
  | b :: _ => if is_lead b then GOk (GBreak (g, N.of_nat k))
              else if b =? 0x2f then GOk (GNext (g, N.of_nat (k + 2))) else GOk (GNext (g, N.of_nat (k + 1)))
  end.
Proof.
  intros g k Hk. unfold fr_skip, glen.
  rewrite gslt_small by (apply of_nat_small; lia).
  destruct (skipn k expr) as [|b r] eqn:E.
  - apply skipn_nil_len in E. replace (N.of_nat k <? N.of_nat (length expr)) with false; [reflexivity|].
    symmetry. apply N.ltb_ge. lia.
  - destruct (skipn_cons_nth _ _ _ _ E) as [Nb Lk].
    replace (N.of_nat k <? N.of_nat (length expr)) with true by (symmetry; apply N.ltb_lt; lia).
    rewrite !gidxs_small by (apply of_nat_small; lia). rewrite Nat2N.id, Nb.
    rewrite is_lead_go.
    assert (W1 : gw 64 (N.of_nat k + 1) = N.of_nat (k + 1)).
    { rewrite gw64_small; [lia|]. change (2 ^ 62) with 4611686018427387904 in *. change (2 ^ 64) with 18446744073709551616. lia. }
    assert (W2 : gw 64 (N.of_nat (k + 1) + 1) = N.of_nat (k + 2)).
    { rewrite gw64_small; [lia|]. change (2 ^ 62) with 4611686018427387904 in *. change (2 ^ 64) with 18446744073709551616. lia. }
    destruct (b =? 95); cbn [negb andb]; [reflexivity|].
    destruct (b <? 65); cbn [orb negb].
    + destruct (b =? 47); cbv zeta iota beta; rewrite ?W1, ?W2; reflexivity.
    + destruct (90 <? b); cbn [negb]; [|reflexivity].
      destruct (b =? 47); cbv zeta iota beta; rewrite ?W1, ?W2; reflexivity.
Qed.

Lemma skip_loop : forall (g : go_aml_ObjectTree) n l k fs,
  (length l <= n)%nat -> l = skipn k expr -> (k <= length expr + 1)%nat -> (n + 2 <= fs)%nat ->
  gloop fs (fr_skip expr (glen expr)) (g, N.of_nat k) = GOk (inl (g, N.of_nat (k + skipcnt l))).
Proof.
  intros g. induction n as [|n IH]; intros l k fs Hl El Hk Hf; (destruct fs as [|fs]; [lia|]);
    rewrite gloop_S, fr_skip_step by assumption; rewrite <- El.
  - destruct l; [|cbn in Hl; lia]. cbn [skipcnt]. now rewrite Nat.add_0_r.
  - destruct l as [|b r]; [cbn [skipcnt]; now rewrite Nat.add_0_r|]. cbn [skipcnt].
    destruct (is_lead b); [now rewrite Nat.add_0_r|].
    symmetry in El. destruct (skipn_cons_nth _ _ _ _ El) as [_ Lk]. cbn [length] in Hl.
    destruct (b =? 47).
    + assert (E2 : skipn (k + 2) expr = skipn 1 r) by (rewrite skipn_add, El; reflexivity).
      pose proof (skipn_length k expr) as SL. rewrite El in SL. cbn [length] in SL.
      destruct r as [|x r']; cbn [length skipn] in *.
      * assert (A1 : (length (@nil N) <= n)%nat) by (cbn; lia).
        assert (A2 : [] = skipn (k + 2) expr) by (now rewrite E2).
        assert (A3 : (k + 2 <= length expr + 1)%nat) by lia.
        assert (A4 : (n + 2 <= fs)%nat) by lia.
        rewrite (IH [] (k + 2)%nat fs A1 A2 A3 A4). cbn [skipcnt]. do 3 f_equal; lia.
      * assert (A1 : (length r' <= n)%nat) by lia.
        assert (A2 : r' = skipn (k + 2) expr) by (now rewrite E2).
        assert (A3 : (k + 2 <= length expr + 1)%nat) by lia.
        assert (A4 : (n + 2 <= fs)%nat) by lia.
        rewrite (IH r' (k + 2)%nat fs A1 A2 A3 A4). do 3 f_equal; lia.
    + assert (E1 : skipn (k + 1) expr = r) by (rewrite skipn_add, El; reflexivity).
      assert (A1 : (length r <= n)%nat) by lia.
      assert (A2 : r = skipn (k + 1) expr) by (now rewrite E1).
      assert (A3 : (k + 1 <= length expr + 1)%nat) by lia.
      assert (A4 : (n + 2 <= fs)%nat) by lia.
      rewrite (IH r (k + 1)%nat fs A1 A2 A3 A4). do 3 f_equal; lia.
Qed.
End Expr.

(** ---- the model with the sibling-walk fuel as a parameter ([chain_fuel t] in Aml/Tree.v) ---- *)
Fixpoint findRelative_go_f (f : nat) (skipping : bool) (t : Tree) (scopeIndex : N) (expr : list N) : outcome N :=
  match expr with
  | [] => if skipping then Ok InvalidIndex else Ok scopeIndex
  | b0 :: rest0 =>
      if is_lead b0 then
        match rest0 with
        | b1 :: b2 :: b3 :: rest =>
            do scopeObj <- ObjectAt_deref t scopeIndex;
            do first <- rd t scopeObj o_first;
            do r <- find_sibling f t first (b0, b1, b2, b3);
            match r with
            | Some c => findRelative_go_f f false t c rest
            | None => Ok InvalidIndex
            end
        | _ => Ok InvalidIndex
        end
      else if b0 =? 0x2f then
        match rest0 with
        | _ :: rest1 => findRelative_go_f f true t scopeIndex rest1
        | [] => Ok InvalidIndex
        end
      else findRelative_go_f f true t scopeIndex rest0
  end.

Lemma findRelative_go_f_chain : forall (t : Tree) n l sk s,
  (length l <= n)%nat -> findRelative_go_f (chain_fuel t) sk t s l = findRelative_go sk t s l.
Proof.
  intros t. induction n as [|n IH]; intros l sk s H.
  - destruct l; [reflexivity|cbn in H; lia].
  - destruct l as [|b0 r0]; [reflexivity|]. cbn [findRelative_go_f findRelative_go]. cbn [length] in H.
    destruct (is_lead b0).
    + destruct r0 as [|b1 [|b2 [|b3 rest]]]; try reflexivity. cbn [length] in H.
      destruct (ObjectAt_deref t s); cbn [bind]; try reflexivity.
      destruct (rd t a o_first); cbn [bind]; try reflexivity.
      destruct (find_sibling (chain_fuel t) t a0 (b0, b1, b2, b3)) as [[c|]| |]; cbn [bind]; try reflexivity.
      apply IH. lia.
    + destruct (b0 =? 47).
      * destruct r0 as [|x r1]; [reflexivity|]. cbn [length] in H. apply IH. lia.
      * apply IH. lia.
Qed.

(** one segment: what both sides do once the skip loop has stopped at [l'] *)
Definition seg_step (f : nat) (t : Tree) (s : N) (l' : list N) : outcome N :=
  match l' with
  | b0 :: b1 :: b2 :: b3 :: rest =>
      do scopeObj <- ObjectAt_deref t s;
      do first <- rd t scopeObj o_first;
      do r <- find_sibling f t first (b0, b1, b2, b3);
      match r with
      | Some c => findRelative_go_f f false t c rest
      | None => Ok InvalidIndex
      end
  | _ => Ok InvalidIndex
  end.

Lemma model_skip : forall f (t : Tree) n l, (length l <= n)%nat -> l <> [] ->
  forall sk s, findRelative_go_f f sk t s l = seg_step f t s (skipn (skipcnt l) l).
Proof.
  intros f t. induction n as [|n IH]; intros l H Hne sk s.
  - destruct l; [contradiction|cbn in H; lia].
  - destruct l as [|b r]; [contradiction|]. cbn [findRelative_go_f skipcnt]. cbn [length] in H.
    destruct (is_lead b) eqn:Lb.
    + cbn [skipn]. unfold seg_step. destruct r as [|b1 [|b2 [|b3 rest]]]; reflexivity.
    + destruct (b =? 47).
      * destruct r as [|x r']; [reflexivity|]. cbn [length] in H.
        change (skipn (2 + skipcnt r') (b :: x :: r')) with (skipn (skipcnt r') r').
        destruct r' as [|y r'']; [reflexivity|]. apply IH; [cbn [length] in *; lia|discriminate].
      * change (skipn (1 + skipcnt r) (b :: r)) with (skipn (skipcnt r) r).
        destruct r as [|y r'']; [reflexivity|]. apply IH; [cbn [length] in *; lia|discriminate].
Qed.

(** ---- the outer loop of findRelative ---- *)
Definition fr_post (x : gres ((go_aml_ObjectTree * bool * N * N) + (go_aml_ObjectTree * N))) : gres (go_aml_ObjectTree * N) :=
  match x with
  | GPanic => GPanic | GFuel => GFuel
  | GOk (inr r) => GOk r
  | GOk (inl st) => let '(g, _, s, _) := st in GOk (g, s)
  end.

Section Expr2.
Variable expr : list N.
Hypothesis expr_small : N.of_nat (length expr) < 2 ^ 62.
Variable t : Tree.
Variable fuel : nat.
Hypothesis fuel_big : (length expr + 5 < fuel)%nat.

Lemma outer_loop : forall n l k scope cns fo,
  (length l <= n)%nat -> l = skipn k expr -> (k <= length expr)%nat -> (n < fo)%nat ->
  fr_post (gloop fo (fr_outer fuel expr (glen expr)) (tr_tree t, cns, scope, N.of_nat k)) =
  lift (fun r => (tr_tree t, r)) (findRelative_go_f fuel false t scope l).
Proof.
  induction n as [|n IH]; intros l k scope cns fo Hl El Hk Hfo; (destruct fo as [|fo]; [lia|]);
    rewrite gloop_S; unfold fr_outer at 1; unfold glen at 1;
    rewrite gslt_small by (apply (of_nat_small expr expr_small); lia).
  - destruct l; [|cbn in Hl; lia]. symmetry in El. apply skipn_nil_len in El.
    replace (N.of_nat k <? N.of_nat (length expr)) with false by (symmetry; apply N.ltb_ge; lia).
    reflexivity.
  - destruct l as [|b r].
    { symmetry in El. apply skipn_nil_len in El.
      replace (N.of_nat k <? N.of_nat (length expr)) with false by (symmetry; apply N.ltb_ge; lia).
      reflexivity. }
    pose proof (skipn_length k expr) as SL. rewrite <- El in SL.
    assert (Lk : (k < length expr)%nat) by (cbn [length] in SL; lia).
    replace (N.of_nat k <? N.of_nat (length expr)) with true by (symmetry; apply N.ltb_lt; lia).
    set (l := b :: r) in *.
    pose proof (skipcnt_le (length l) l (le_n _)) as SC.
    rewrite (skip_loop expr expr_small (tr_tree t) (length l) l k fuel (le_n _) El) by lia.
    cbv iota beta.
    set (k' := (k + skipcnt l)%nat).
    assert (El' : skipn k' expr = skipn (skipcnt l) l) by (unfold k'; rewrite skipn_add, <- El; reflexivity).
    rewrite (model_skip fuel t (length l) l (le_n _)) by (unfold l; discriminate).
    rewrite <- El'.
    pose proof (skipn_length k' expr) as SL'.
    unfold glen. rewrite amlNameLen_4.
    rewrite (gslt_sub_small (N.of_nat (length expr)) (N.of_nat k') expr_small) by lia.
    destruct (skipn k' expr) as [|b0 [|b1 [|b2 [|b3 rest]]]] eqn:E4; cbn [length] in SL';
      try (replace (N.of_nat (length expr) <? N.of_nat k' + 4) with true by (symmetry; apply N.ltb_lt; lia); reflexivity).
    replace (N.of_nat (length expr) <? N.of_nat k' + 4) with false by (symmetry; apply N.ltb_ge; lia).
    unfold seg_step. rewrite ObjectAt_is_translation. unfold ObjectAt_deref, rd.
    destruct (ObjectAt t scope) as [p|] eqn:OA; cbn [bind lift]; [|reflexivity].
    destruct (ObjectAt_some _ _ _ OA) as [-> [o D]]. cbv zeta. rewrite gderef_tr, D. cbn [bind].
    change (f_Object_firstArgIndex (tr_obj o)) with (o_first o).
    assert (NB : forall i, nth_error expr (N.to_nat (N.of_nat k' + N.of_nat i)) = nth_error (b0 :: b1 :: b2 :: b3 :: rest) i).
    { intros i. rewrite <- E4, nth_error_skipn'. f_equal. lia. }
    destruct (sib_loop t expr (N.of_nat k') b0 b1 b2 b3 fuel) with (f := fuel) (ccs := false) (cns := false)
      (next := o_first o) (scope := scope) as [ccs' SLp].
    { change (2 ^ 62) with 4611686018427387904 in *. change (2 ^ 63) with 9223372036854775808. lia. }
    { lia. }
    { exact (NB 0%nat). } { exact (NB 1%nat). } { exact (NB 2%nat). } { exact (NB 3%nat). }
    rewrite SLp.
    destruct (find_sibling fuel t (o_first o) (b0, b1, b2, b3)) as [[c|]| |]; cbn [sib_expected bind lift]; try reflexivity.
    cbv iota beta zeta.
    assert (W : gw 64 (N.of_nat k' + 4) = N.of_nat (k' + 4)).
    { rewrite gw64_small; [lia|]. change (2 ^ 62) with 4611686018427387904 in *. change (2 ^ 64) with 18446744073709551616. lia. }
    rewrite W.
    apply IH; try lia.
    all: first [ rewrite skipn_add, E4; reflexivity | unfold k', l in *; cbn [length] in *; lia ].
Qed.

Theorem findRelative_fuelled : forall scope,
  go_aml_ObjectTree_findRelative fuel (tr_tree t) scope expr =
  lift (fun r => (tr_tree t, r)) (findRelative_go_f fuel false t scope expr).
Proof.
  intros scope. rewrite findRelative_unfold. unfold fr_main. cbv zeta. change (gw 64 0) with (N.of_nat 0).
  exact (outer_loop (length expr) expr 0%nat scope false fuel (le_n _) eq_refl (Nat.le_0_l _) ltac:(lia)).
Qed.
End Expr2.

(** ---- more fuel does not change an answer ---- *)
Lemma find_sibling_mono : forall (t : Tree) nm f f' next,
  (f <= f')%nat -> find_sibling f t next nm <> OutOfFuel -> find_sibling f' t next nm = find_sibling f t next nm.
Proof.
  intros t nm. induction f as [|f IH]; intros f' next Hle Hne; [cbn in Hne; congruence|].
  destruct f' as [|f']; [lia|]. cbn [find_sibling] in *.
  destruct (next =? InvalidIndex); [reflexivity|].
  destruct (ObjectAt_deref t next); cbn [bind] in *; try reflexivity.
  destruct (deref t a); cbn [bind] in *; try reflexivity.
  destruct (name_eqb nm (o_name a0)); [reflexivity|]. apply IH; [lia|assumption].
Qed.

Lemma findRelative_go_f_mono : forall (t : Tree) f f', (f <= f')%nat -> forall n l sk s,
  (length l <= n)%nat -> findRelative_go_f f sk t s l <> OutOfFuel ->
  findRelative_go_f f' sk t s l = findRelative_go_f f sk t s l.
Proof.
  intros t f f' Hle. induction n as [|n IH]; intros l sk s H Hne.
  - destruct l; [reflexivity|cbn in H; lia].
  - destruct l as [|b0 r0]; [reflexivity|]. cbn [findRelative_go_f] in *. cbn [length] in H.
    destruct (is_lead b0).
    + destruct r0 as [|b1 [|b2 [|b3 rest]]]; try reflexivity. cbn [length] in H.
      destruct (ObjectAt_deref t s); cbn [bind] in *; try reflexivity.
      destruct (rd t a o_first); cbn [bind] in *; try reflexivity.
      destruct (find_sibling f t a0 (b0, b1, b2, b3)) as [[c|]| |] eqn:FS; cbn [bind] in *; try congruence;
        rewrite (find_sibling_mono t (b0, b1, b2, b3) f f' a0 Hle) by (rewrite FS; discriminate);
        rewrite FS; cbn [bind]; try reflexivity.
      apply IH; [lia|assumption].
    + destruct (b0 =? 47).
      * destruct r0 as [|x r1]; [reflexivity|]. cbn [length] in H. apply IH; [lia|assumption].
      * apply IH; [lia|assumption].
Qed.

(** findRelative: the translation equals the model
    (i) exactly, when both run the sibling walks on the same fuel (GFuel where the model says OutOfFuel),
    (ii) with the model's own fuel [chain_fuel t], for every fuel above it, whenever the model's walk ends. *)
Theorem findRelative_is_translation : forall (t : Tree) (scope : N) (expr : list N) (fuel : nat),
  N.of_nat (length expr) < 2 ^ 62 -> (length expr + 5 < fuel)%nat -> (chain_fuel t <= fuel)%nat ->
  findRelative t scope expr <> OutOfFuel ->
  go_aml_ObjectTree_findRelative fuel (tr_tree t) scope expr = lift (fun r => (tr_tree t, r)) (findRelative t scope expr).
Proof.
  intros t scope expr fuel Hs Hf Hc Hne.
  rewrite (findRelative_fuelled expr Hs t fuel Hf scope).
  unfold findRelative in *. rewrite <- (findRelative_go_f_chain t (length expr) expr false scope (le_n _)) in *.
  now rewrite (findRelative_go_f_mono t (chain_fuel t) fuel Hc (length expr) expr false scope (le_n _) Hne).
Qed.
End F.
