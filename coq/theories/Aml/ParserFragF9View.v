(** [F9 copy] This file is ParserFragF1View.v re-done over the item type of ParserFragF9.v (one more constructor, [IStmt]: statements
    with constant operands); the item type of F1 .. F8 is shared by those fragments and is left untouched.  New material is marked F9. *)
(** C11 (fragment F1): the namespace view of the tree [root_tree] lists, for every Device, the entries of its body
    and then the Device itself; Name declarations as in F0. *)
From Coq Require Import NArith ZArith Arith List Bool Lia Permutation.
From Coq Require Import ZifyBool ZifyN ZifyNat.
From FF Require Import Lib.Word Gen.Consts_device_acpi_aml Gen.Consts_aml_tree Aml.Stream Aml.Lex
  Aml.Tree Aml.TreeSpec Aml.TreeProofs Aml.Parser Aml.Grammar Aml.LexRoundtrip
  Aml.ParserTotalBase Aml.ParserFragBase Aml.ParserFragFirst Aml.ParserFragF0 Aml.ParserFragF0Conn Aml.ParserFragF0Top
  Aml.ParserFragRose Aml.ParserFragDev Aml.ParserFragArgs Aml.ParserFragF9 Aml.ParserFragF9First Aml.ParserFragF9Conn Aml.ParserFragF9Top Aml.ParserFragF9Calls Aml.ParserFragF9Parse
  Aml.View Aml.ParserFragView Aml.ParserFragF0View.
Import ListNotations.
Local Open Scope N_scope.

Ltac Zify.zify_post_hook ::= Z.div_mod_to_equations.

Definition name_entry (p : path) (d : decl) : list N :=
  [1] ++ tok_path (p ++ [d_seg d]) ++ [aml_pOpName] ++ const_tokens (d_op d) (const_val (d_op d) (d_v d)).
Definition blk_entry (p : path) (bk : bkind) (l : fxs) : list N :=
  [1] ++ tok_path p ++ [bk_op bk] ++ flat_map (fun '(w, v) => tok_const (fw_op w) v) l.
Definition cst_tokens (d : decl) : list N := const_tokens (d_op d) (const_val (d_op d) (d_v d)).
Definition targ_tokens (a : targ) : list N := match a with TInt d => cst_tokens d | TStr b => tok_bytes OP_STRING b end.
Definition leaf_entry (p : path) (lk : lkind) (l : fxs) (ta : list targ) : list N :=
  [1] ++ tok_path p ++ [lk_op lk] ++ flat_map (fun '(w, v) => tok_const (fw_op w) v) l ++ flat_map targ_tokens ta.
Fixpoint pel_tokens (e : pel) : list N :=
  match e with
  | PLeaf a => targ_tokens a
  | PSub _ n es => [OP_PACKAGE; 0; 1 + lenN es] ++ tok_const OP_BYTE n ++ flat_map pel_tokens es
  end.
Definition pkg_entry (p : path) (n : N) (elems : list pel) : list N :=
  [1] ++ tok_path p ++ [aml_pOpName] ++ [OP_PACKAGE; 0; 1 + lenN elems] ++ tok_const OP_BYTE n ++ flat_map pel_tokens elems.
Definition dev_entry (p : path) : list N := blk_entry p BDev [].
Definition meth_entry (p : path) (fl : N) : list N := blk_entry p BMeth [(W1, fl)].

(** F9: the rendering of a statement; the statements of a Method body are part of the Method's entry, those of any
    other scope are anonymous entries of that scope *)
Definition stmt_tokens (sk : skind) (ta : list targ) : list N := [sk_op sk; 0; lenN ta] ++ flat_map targ_tokens ta.
Definition stmt_of (it : item) : list (list N) := match it with IStmt sk ta => [stmt_tokens sk ta] | _ => [] end.
Definition vstmts (l : list item) : list (list N) := flat_map stmt_of l.

(** the view lists the body of a block before the block *)
Fixpoint ventry (p : path) (it : item) : list (list N) :=
  match it with
  | IName d => [name_entry p d]
  | IBlk bk _ seg fa body =>
      flat_map (ventry (p ++ [seg])) body ++ (if bk_op bk =? aml_pOpMethod then [] else anon (p ++ [seg]) (flat_map stmt_of body)) ++
      [blk_entry (p ++ [seg]) bk (bfx bk fa) ++ (if bk_op bk =? aml_pOpMethod then concat (flat_map stmt_of body) else [])]
  | ILeaf lk seg fa ta => [leaf_entry (p ++ [seg]) lk (lfx lk fa) ta]
  | IPkg seg _ n elems => [pkg_entry (p ++ [seg]) n elems]
  | IStmt _ _ => []
  end.
Definition ventries (p : path) (l : list item) : list (list N) := flat_map (ventry p) l.

(** the specification lists the block first; [inm]: the enclosing scope is a Method body (its statements are part of the
    Method's entry), otherwise a statement is an anonymous entry of the scope *)
Fixpoint sentry (inm : bool) (p : path) (it : item) : list (list N) :=
  match it with
  | IName d => [name_entry p d]
  | IBlk bk _ seg fa body =>
      (blk_entry (p ++ [seg]) bk (bfx bk fa) ++ (if bk_op bk =? aml_pOpMethod then concat (flat_map stmt_of body) else [])) ::
      flat_map (sentry (bk_op bk =? aml_pOpMethod) (p ++ [seg])) body
  | ILeaf lk seg fa ta => [leaf_entry (p ++ [seg]) lk (lfx lk fa) ta]
  | IPkg seg _ n elems => [pkg_entry (p ++ [seg]) n elems]
  | IStmt sk ta => if inm then [] else [[2] ++ tok_path p ++ stmt_tokens sk ta]
  end.
Definition sentries (inm : bool) (p : path) (l : list item) : list (list N) := flat_map (sentry inm p) l.

Lemma ventries_perm : forall l p,
  Permutation (ventries p l ++ anon p (vstmts l)) (sentries false p l) /\ Permutation (ventries p l) (sentries true p l).
Proof.
  induction l as [|d rest IH|bk k seg fa body rest IHb IH|lk seg fa ta rest IH|seg k n elems rest IH|sk ta rest IH] using items_ind; intros p.
  - split; constructor.
  - destruct (IH p) as (A & B). cbn [ventries sentries vstmts flat_map ventry sentry stmt_of app]. split; constructor; assumption.
  - destruct (IH p) as (A & B). destruct (IHb (p ++ [seg])) as (Ab & Bb).
    cbn [ventries sentries vstmts flat_map ventry sentry stmt_of app].
    fold (ventries (p ++ [seg]) body). fold (vstmts body). fold (ventries p rest). fold (vstmts rest).
    fold (sentries (bk_op bk =? aml_pOpMethod) (p ++ [seg]) body). fold (sentries false p rest). fold (sentries true p rest).
    set (hdr := blk_entry (p ++ [seg]) bk (bfx bk fa) ++ (if bk_op bk =? aml_pOpMethod then concat (vstmts body) else [])).
    set (X := if bk_op bk =? aml_pOpMethod then [] else anon (p ++ [seg]) (vstmts body)).
    assert (HB : Permutation (ventries (p ++ [seg]) body ++ X) (sentries (bk_op bk =? aml_pOpMethod) (p ++ [seg]) body)).
    { unfold X. destruct (bk_op bk =? aml_pOpMethod); [rewrite app_nil_r; exact Bb|exact Ab]. }
    assert (HG : forall T T', Permutation T T' ->
              Permutation ((ventries (p ++ [seg]) body ++ X ++ [hdr]) ++ T) (hdr :: sentries (bk_op bk =? aml_pOpMethod) (p ++ [seg]) body ++ T')).
    { intros T T' HT. rewrite (app_assoc (ventries (p ++ [seg]) body) X [hdr]).
      eapply Permutation_trans; [apply Permutation_app_tail; apply Permutation_sym; apply Permutation_cons_append|].
      cbn [app]. constructor. apply Permutation_app; assumption. }
    split; [rewrite <- app_assoc; apply HG; exact A|apply HG; exact B].
  - destruct (IH p) as (A & B). cbn [ventries sentries vstmts flat_map ventry sentry stmt_of app]. split; constructor; assumption.
  - destruct (IH p) as (A & B). cbn [ventries sentries vstmts flat_map ventry sentry stmt_of app]. split; constructor; assumption.
  - destruct (IH p) as (A & B). cbn [ventries sentries vstmts flat_map ventry sentry stmt_of app anon map].
    fold (ventries p rest). fold (vstmts rest). fold (anon p (vstmts rest)). fold (sentries false p rest). fold (sentries true p rest).
    split; [|exact B]. apply Permutation_sym. apply Permutation_cons_app. apply Permutation_sym. exact A.
Qed.

(** ---- the arguments of a named object, one by one ---- *)
Definition argF (t : T) (tables : list (list N)) (f : nat) (known : list path) (op : N) (p' argScope : path)
  (a : list (list N) * list N) (k : N) : list (list N) * list N :=
  let '(sub, args) := a in
  match obj t k with
  | Some ko =>
      if o_opcode ko =? aml_pOpIntScopeBlock then
        let '(es', st') := walk t tables f known k p' in
        if op =? aml_pOpMethod then (sub ++ es', args ++ concat st')
        else (sub ++ es' ++ anon p' st', args)
      else (sub, args ++ renderExpr t tables (pool_fuel t) known argScope k)
  | None => (sub ++ [bad], args)
  end.

Definition fx_obj (t : T) (k : N) (wv : fw * N) : Prop :=
  exists ko, obj t k = Some ko /\ o_opcode ko = fw_op (fst wv) /\ View.kids t ko = [] /\ o_value ko = Some (VNum (snd wv)).

Lemma argF_fx (t : T) tables f known op p' sc : forall ks (l : fxs) sub args, Forall2 (fx_obj t) ks l ->
  fold_left (argF t tables f known op p' sc) ks (sub, args) = (sub, args ++ flat_map (fun '(w, v) => tok_const (fw_op w) v) l).
Proof.
  induction ks as [|k ks IH]; intros l sub args HF; inversion HF as [|k0 [w v] ks0 l0 Hk Hr]; subst; cbn [fold_left flat_map]; [rewrite app_nil_r; reflexivity|].
  destruct Hk as (ko & Hko & Hop & Hkk & Hv). cbn [fst snd] in Hop, Hv.
  unfold argF at 2. rewrite Hko, Hop.
  assert (E : fw_op w =? aml_pOpIntScopeBlock = false) by (destruct w; reflexivity). rewrite E.
  unfold pool_fuel. rewrite (render_const t tables _ known sc k ko Hko Hkk); rewrite ?Hop; try (destruct w; reflexivity).
  2:{ rewrite Hv. exact I. }
  rewrite Hv. rewrite (IH l0 sub _ Hr). rewrite <- app_assoc. reflexivity.
Qed.

(** ---- a block-like named object ---- *)
Lemma walkF_blk (t : T) tables f known p es stmts c co bk pth fxi (l : fxs) sb ko es' :
  obj t c = Some co -> o_opcode co = bk_op bk -> View.kids t co = pth :: fxi ++ [sb] ->
  Forall2 (fx_obj t) fxi l ->
  obj t sb = Some ko -> o_opcode ko = aml_pOpIntScopeBlock ->
  walk t tables f known sb (p ++ [name_num (o_name co)]) = (es', []) ->
  walkF t tables f known p (es, stmts) c = (es ++ es' ++ [blk_entry (p ++ [name_num (o_name co)]) bk l], stmts).
Proof.
  intros Ho Hop Hk HF Hko Hopk Hw. unfold walkF. rewrite Ho. cbv zeta. rewrite Hop.
  assert (E1 : (bk_op bk =? aml_pOpIntScopeBlock) && negb (is_zero_scopeblock co) = false) by (destruct bk; reflexivity).
  assert (E2 : bk_op bk =? aml_pOpIntNamedField = false) by (destruct bk; reflexivity).
  assert (E3 : is_declop (bk_op bk) = true) by (destruct bk; reflexivity).
  rewrite E1, E2, E3. rewrite Hk.
  set (p' := p ++ [name_num (o_name co)]).
  change (fold_left _ (fxi ++ [sb]) ([], [])) with
    (fold_left (argF t tables f known (bk_op bk) p' (if bk_op bk =? aml_pOpMethod then p' else p)) (fxi ++ [sb]) ([], [])).
  rewrite fold_left_app, (argF_fx t tables f known _ p' _ fxi l [] [] HF). cbn [fold_left app].
  unfold argF. rewrite Hko, Hopk. change (aml_pOpIntScopeBlock =? aml_pOpIntScopeBlock) with true. cbv iota.
  fold p' in Hw. rewrite Hw. unfold blk_entry.
  destruct (bk_op bk =? aml_pOpMethod); cbn [anon map concat app]; rewrite ?app_nil_r; reflexivity.
Qed.

Definition cst_obj (t : T) (k : N) (d : decl) : Prop :=
  exists ko, obj t k = Some ko /\ o_opcode ko = d_op d /\ View.kids t ko = [] /\ o_value ko = const_val (d_op d) (d_v d).

Lemma const_ops' d : is_constb (d_op d) = true ->
  (d_op d =? aml_pOpIntScopeBlock) = false /\ (d_op d =? aml_pOpIntResolvedNamePath) = false /\ (d_op d =? aml_pOpIntNamePath) = false /\
  (d_op d =? aml_pOpIntNamePathOrMethodCall) = false /\ (d_op d =? aml_pOpIntMethodCall) = false.
Proof.
  intros Hc. destruct (is_constb_cases _ Hc) as [E|[E|[E|[E|[E|[E|E]]]]]]; rewrite E; repeat split.
Qed.

Definition str_obj (t : T) (tables : list (list N)) (k : N) (b : list N) : Prop :=
  exists ko tb sl, obj t k = Some ko /\ o_opcode ko = aml_pOpStringPrefix /\ View.kids t ko = [] /\
                   o_value ko = Some (VBytes tb sl) /\ value_bytes tables (o_value ko) = Some b.
Definition targ_obj (t : T) (tables : list (list N)) (k : N) (a : targ) : Prop :=
  match a with TInt d => cst_obj t k d | TStr b => str_obj t tables k b end.

Lemma render_str (t : T) tables f known scope k b : str_obj t tables k b ->
  renderExpr t tables (S f) known scope k = tok_bytes OP_STRING b.
Proof.
  intros (ko & tb & sl & Ho & Hop & Hk & Hv & Hb). cbn [renderExpr]. rewrite Ho. cbv zeta. rewrite Hop.
  change (aml_pOpStringPrefix =? aml_pOpIntResolvedNamePath) with false. change (aml_pOpStringPrefix =? aml_pOpIntNamePath) with false.
  change (aml_pOpStringPrefix =? aml_pOpIntNamePathOrMethodCall) with false. change (aml_pOpStringPrefix =? aml_pOpIntMethodCall) with false. cbn [orb].
  unfold exprKids. rewrite Hk. cbn [exprKids_go flat_map]. rewrite Hb, Hv. unfold tok_bytes. cbn [app]. rewrite <- ?app_assoc. reflexivity.
Qed.

Lemma argF_cst (t : T) tables f known op p' sc : forall ks (ta : list targ) sub args, Forall2 (targ_obj t tables) ks ta -> forallb targ_okb ta = true ->
  fold_left (argF t tables f known op p' sc) ks (sub, args) = (sub, args ++ flat_map targ_tokens ta).
Proof.
  induction ks as [|k ks IH]; intros ta sub args HF Hok; inversion HF as [|k0 d ks0 ta0 Hk Hr]; subst; cbn [fold_left flat_map]; [rewrite app_nil_r; reflexivity|].
  cbn [forallb] in Hok. apply andb_prop in Hok. destruct Hok as [Hd Hok].
  destruct d as [d|b]; cbn [targ_obj targ_okb targ_tokens] in *.
  - unfold cst_okb in Hd. apply andb_prop in Hd. destruct Hd as [Hc _].
    destruct (const_ops' d Hc) as (E0 & E1 & E2 & E3 & E4).
    destruct Hk as (ko & Hko & Hop & Hkk & Hv).
    unfold argF at 2. rewrite Hko, Hop, E0.
    unfold pool_fuel. rewrite (render_const t tables _ known sc k ko Hko Hkk); rewrite ?Hop; try assumption.
    2:{ rewrite Hv. unfold const_val. destruct (const_bytes (d_op d)); exact I. }
    rewrite Hv. rewrite (IH ta0 sub _ Hr Hok). rewrite <- app_assoc. reflexivity.
  - pose proof Hk as (ko & tb & sl & Hko & Hop & _).
    unfold argF at 2. rewrite Hko, Hop. change (aml_pOpStringPrefix =? aml_pOpIntScopeBlock) with false. cbv iota.
    unfold pool_fuel. rewrite (render_str t tables _ known sc k b Hk).
    rewrite (IH ta0 sub _ Hr Hok). rewrite <- app_assoc. reflexivity.
Qed.

(** ---- a leaf named object ---- *)
Lemma walkF_leaf (t : T) tables f known p es stmts c co lk pth fxi (l : fxs) csi ta :
  obj t c = Some co -> o_opcode co = lk_op lk -> View.kids t co = pth :: fxi ++ csi ->
  Forall2 (fx_obj t) fxi l -> Forall2 (targ_obj t tables) csi ta -> forallb targ_okb ta = true ->
  walkF t tables f known p (es, stmts) c = (es ++ [leaf_entry (p ++ [name_num (o_name co)]) lk l ta], stmts).
Proof.
  intros Ho Hop Hk HF HC Hok. unfold walkF. rewrite Ho. cbv zeta. rewrite Hop.
  assert (E1 : (lk_op lk =? aml_pOpIntScopeBlock) && negb (is_zero_scopeblock co) = false) by (destruct lk; reflexivity).
  assert (E2 : lk_op lk =? aml_pOpIntNamedField = false) by (destruct lk; reflexivity).
  assert (E3 : is_declop (lk_op lk) = true) by (destruct lk; reflexivity).
  rewrite E1, E2, E3. rewrite Hk.
  set (p' := p ++ [name_num (o_name co)]).
  change (fold_left _ (fxi ++ csi) ([], [])) with
    (fold_left (argF t tables f known (lk_op lk) p' (if lk_op lk =? aml_pOpMethod then p' else p)) (fxi ++ csi) ([], [])).
  rewrite fold_left_app, (argF_fx t tables f known _ p' _ fxi l [] [] HF). cbn [app].
  rewrite (argF_cst t tables f known _ p' _ csi ta [] _ HC Hok). unfold leaf_entry. cbn [app]. reflexivity.
Qed.

(** ---- a Name whose value is a Package of constants ---- *)
Lemma renderExpr_S (t : T) tables f known scope idx : renderExpr t tables (S f) known scope idx =
  match obj t idx with
  | None => bad
  | Some o =>
      let op := o_opcode o in
      if op =? aml_pOpIntResolvedNamePath then
        match o_value o with Some (VIdx i) => [TOK_NAMEREF; 1] ++ tok_path (objPath t i) | _ => bad end
      else if (op =? aml_pOpIntNamePath) || (op =? aml_pOpIntNamePathOrMethodCall) then
        match value_bytes tables (o_value o) with
        | None => bad
        | Some raw =>
            match resolveRaw known scope raw with
            | Some p => if (lenN raw =? 0) then [TOK_NAMEREF; 0; 0] else [TOK_NAMEREF; 1] ++ tok_path p
            | None => [TOK_NAMEREF; 0; lenN raw] ++ raw
            end
        end
      else if op =? aml_pOpIntMethodCall then
        match o_value o with
        | Some (VIdx i) =>
            let ks := exprKids t o in
            [TOK_CALL] ++ tok_path (objPath t i) ++ [lenN ks] ++ flat_map (renderExpr t tables f known scope) ks
        | _ => bad
        end
      else
        let ks := exprKids t o in
        [op] ++ (match o_value o with
                 | None => [0]
                 | Some (VNum v) => [1; v]
                 | Some (VBytes _ _) => match value_bytes tables (o_value o) with Some b => [2; lenN b] ++ b | None => bad end
                 | _ => [9]
                 end) ++ [lenN ks] ++ flat_map (renderExpr t tables f known scope) ks
  end.
Proof. reflexivity. Qed.


Lemma render_targs (t : T) tables f known sc : forall ks (ta : list targ), Forall2 (targ_obj t tables) ks ta -> forallb targ_okb ta = true ->
  flat_map (renderExpr t tables (S f) known sc) ks = flat_map targ_tokens ta.
Proof.
  induction ks as [|k ks IH]; intros ta HF Hok; inversion HF as [|k0 d ks0 ta0 Hk Hr]; subst; cbn [flat_map]; [reflexivity|].
  cbn [forallb] in Hok. apply andb_prop in Hok. destruct Hok as [Hd Hok]. rewrite (IH ta0 Hr Hok). f_equal.
  destruct d as [d|b]; cbn [targ_obj targ_okb targ_tokens] in *.
  - unfold cst_okb in Hd. apply andb_prop in Hd. destruct Hd as [Hc _].
    destruct (const_ops' d Hc) as (E0 & E1 & E2 & E3 & E4). destruct Hk as (ko & Hko & Hop & Hkk & Hv).
    rewrite (render_const t tables _ known sc k ko Hko Hkk); rewrite ?Hop; try assumption.
    + rewrite Hv. reflexivity.
    + rewrite Hv. unfold const_val. destruct (const_bytes (d_op d)); exact I.
  - apply render_str. exact Hk.
Qed.

(** the objects of a package element *)
Section All2.
Variable P : N -> pel -> Prop.
Fixpoint all2 (ks : list N) (es : list pel) {struct es} : Prop :=
  match es, ks with [], [] => True | e :: es', k :: ks' => P k e /\ all2 ks' es' | _, _ => False end.
End All2.
Fixpoint pel_obj (t : T) (tables : list (list N)) (idx : N) (e : pel) {struct e} : Prop :=
  match e with
  | PLeaf a => targ_obj t tables idx a
  | PSub _ n es =>
      exists po kb ksb so, obj t idx = Some po /\ o_opcode po = aml_pOpPackage /\ o_infoIndex po = 11 /\ o_value po = None /\
        View.kids t po = [kb; ksb] /\ fx_obj t kb (W1, n) /\ obj t ksb = Some so /\ o_opcode so = aml_pOpIntScopeBlock /\
        all2 (pel_obj t tables) (View.kids t so) es
  end.
Definition pels_obj (t : T) (tables : list (list N)) (ks : list N) (es : list pel) : Prop := all2 (pel_obj t tables) ks es.
Lemma pel_obj_sub t tables idx k n es : pel_obj t tables idx (PSub k n es) =
  (exists po kb ksb so, obj t idx = Some po /\ o_opcode po = aml_pOpPackage /\ o_infoIndex po = 11 /\ o_value po = None /\
     View.kids t po = [kb; ksb] /\ fx_obj t kb (W1, n) /\ obj t ksb = Some so /\ o_opcode so = aml_pOpIntScopeBlock /\
     pels_obj t tables (View.kids t so) es).
Proof. reflexivity. Qed.

Lemma render_pels (t : T) tables known sc : forall es ks f, pels_obj t tables ks es -> forallb pel_okb es = true -> (pels_sz es <= f)%nat ->
  flat_map (renderExpr t tables f known sc) ks = flat_map pel_tokens es /\ length ks = length es.
Proof.
  induction es as [|a rest IH|k n es rest IHe IH] using pels_ind; intros ks f HO Hok Hf.
  - destruct ks; [split; reflexivity|contradiction].
  - destruct ks as [|k0 ks]; [contradiction|]. unfold pels_obj; cbn [all2] in HO. destruct HO as (Hk & Hr).
    cbn [forallb] in Hok. apply andb_prop in Hok. destruct Hok as [Hd Hok]. rewrite pels_sz_cons in Hf. cbn [pel_sz] in Hf.
    destruct f as [|f']; [lia|]. destruct (IH ks (S f') Hr Hok ltac:(lia)) as (E & L). cbn [flat_map length]. rewrite E, L. split; [|reflexivity]. f_equal.
    cbn [pel_obj pel_okb pel_tokens] in *.
    pose proof (render_targs t tables f' known sc [k0] [a] ltac:(constructor; [exact Hk|constructor]) ltac:(cbn [forallb]; rewrite Hd; reflexivity)) as R.
    cbn [flat_map] in R. rewrite !app_nil_r in R. exact R.
  - destruct ks as [|k0 ks]; [contradiction|]. unfold pels_obj; cbn [all2] in HO. destruct HO as (Hk & Hr).
    cbn [forallb] in Hok. apply andb_prop in Hok. destruct Hok as [Hd Hok]. rewrite pels_sz_cons, pel_sz_sub in Hf.
    destruct f as [|f']; [lia|]. destruct (IH ks (S f') Hr Hok ltac:(lia)) as (E & L). cbn [flat_map length]. rewrite E, L. split; [|reflexivity]. f_equal.
    rewrite pel_obj_sub in Hk. destruct Hk as (po & kb & ksb & so & Hpo & Hopp & Hinf & Hvp & Hkp & Hkb & Hso & Hops & HF).
    rewrite pel_okb_sub in Hd. apply andb_prop in Hd. destruct Hd as [_ Hes].
    destruct f' as [|f'']; [lia|]. destruct (IHe (View.kids t so) (S f'') HF Hes ltac:(lia)) as (Ee & Le).
    rewrite renderExpr_S. rewrite Hpo. cbv zeta. rewrite Hopp.
    change (aml_pOpPackage =? aml_pOpIntResolvedNamePath) with false. change (aml_pOpPackage =? aml_pOpIntNamePath) with false.
    change (aml_pOpPackage =? aml_pOpIntNamePathOrMethodCall) with false. change (aml_pOpPackage =? aml_pOpIntMethodCall) with false. cbn [orb].
    assert (Ek : exprKids t po = kb :: View.kids t so).
    { unfold exprKids, argTypesOf. rewrite Hkp, Hinf. cbn [exprKids_go]. destruct Hkb as (ko & Hko & Hopk & _). cbn [fst] in Hopk.
      rewrite Hko, Hopk. change (aml_pOpBytePrefix =? aml_pOpIntScopeBlock) with false. change (aml_pOpBytePrefix =? aml_pOpZero) with false. cbn [andb].
      rewrite Hso, Hops. change (aml_pOpIntScopeBlock =? aml_pOpIntScopeBlock) with true. cbv iota. rewrite app_nil_r. reflexivity. }
    rewrite Ek, Hvp. cbn [flat_map lenN length app]. rewrite Ee.
    destruct Hkb as (ko & Hko & Hopk & Hkk & Hvk). cbn [fst snd] in Hopk, Hvk.
    rewrite (render_const t tables _ known sc kb ko Hko Hkk); rewrite ?Hopk; try reflexivity; [|rewrite Hvk; exact I].
    rewrite Hvk. unfold const_tokens, tok_const. cbn [app pel_tokens].
    replace (lenN (kb :: View.kids t so)) with (1 + lenN es) by (unfold lenN; cbn [length]; rewrite Le; lia). reflexivity.
Qed.

Lemma walkF_namepkg (t : T) tables f known p es stmts c co pth pk k n elems :
  obj t c = Some co -> o_opcode co = aml_pOpName -> View.kids t co = [pth; pk] ->
  pel_obj t tables pk (PSub k n elems) -> pel_okb (PSub k n elems) = true -> (3 + pels_sz elems <= pool_fuel t)%nat ->
  walkF t tables f known p (es, stmts) c = (es ++ [pkg_entry (p ++ [name_num (o_name co)]) n elems], stmts).
Proof.
  intros Ho Hop Hk HP Hok Hfuel. unfold walkF. rewrite Ho. cbv zeta. rewrite Hop.
  change ((aml_pOpName =? aml_pOpIntScopeBlock) && negb (is_zero_scopeblock co)) with false. cbv iota.
  change (aml_pOpName =? aml_pOpIntNamedField) with false. change (is_declop aml_pOpName) with true. cbv iota.
  pose proof HP as HP'. rewrite pel_obj_sub in HP'. destruct HP' as (po & kb & ksb & so & Hpo & Hopp & _).
  rewrite Hk. cbn [fold_left]. rewrite Hpo, Hopp. change (aml_pOpPackage =? aml_pOpIntScopeBlock) with false. cbv iota.
  change (aml_pOpName =? aml_pOpMethod) with false. cbv iota.
  assert (Hr : renderExpr t tables (pool_fuel t) known p pk = pel_tokens (PSub k n elems)).
  { destruct (render_pels t tables known p [PSub k n elems] [pk] (pool_fuel t)) as (E & _).
    - unfold pels_obj; cbn [all2]. split; [exact HP|exact I].
    - cbn [forallb]. rewrite Hok. reflexivity.
    - cbn [pels_sz fold_right]. rewrite pel_sz_sub. fold (pels_sz elems). lia.
    - cbn [flat_map] in E. rewrite !app_nil_r in E. exact E. }
  rewrite Hr. unfold pkg_entry. cbn [app pel_tokens]. reflexivity.
Qed.

(** ---- F9: a block whose ScopeBlock holds statements; a statement ---- *)
Lemma walkF_blk' (t : T) tables f known p es stmts c co bk pth fxi (l : fxs) sb ko es' st' :
  obj t c = Some co -> o_opcode co = bk_op bk -> View.kids t co = pth :: fxi ++ [sb] ->
  Forall2 (fx_obj t) fxi l ->
  obj t sb = Some ko -> o_opcode ko = aml_pOpIntScopeBlock ->
  walk t tables f known sb (p ++ [name_num (o_name co)]) = (es', st') ->
  walkF t tables f known p (es, stmts) c =
    (es ++ es' ++ (if bk_op bk =? aml_pOpMethod then [] else anon (p ++ [name_num (o_name co)]) st') ++
     [blk_entry (p ++ [name_num (o_name co)]) bk l ++ (if bk_op bk =? aml_pOpMethod then concat st' else [])], stmts).
Proof.
  intros Ho Hop Hk HF Hko Hopk Hw. unfold walkF. rewrite Ho. cbv zeta. rewrite Hop.
  assert (E1 : (bk_op bk =? aml_pOpIntScopeBlock) && negb (is_zero_scopeblock co) = false) by (destruct bk; reflexivity).
  assert (E2 : bk_op bk =? aml_pOpIntNamedField = false) by (destruct bk; reflexivity).
  assert (E3 : is_declop (bk_op bk) = true) by (destruct bk; reflexivity).
  rewrite E1, E2, E3. rewrite Hk.
  set (p' := p ++ [name_num (o_name co)]).
  change (fold_left _ (fxi ++ [sb]) ([], [])) with
    (fold_left (argF t tables f known (bk_op bk) p' (if bk_op bk =? aml_pOpMethod then p' else p)) (fxi ++ [sb]) ([], [])).
  rewrite fold_left_app, (argF_fx t tables f known _ p' _ fxi l [] [] HF). cbn [fold_left app].
  unfold argF. rewrite Hko, Hopk. change (aml_pOpIntScopeBlock =? aml_pOpIntScopeBlock) with true. cbv iota.
  fold p' in Hw. rewrite Hw. unfold blk_entry.
  destruct (bk_op bk =? aml_pOpMethod); cbn [app]; rewrite ?app_nil_r, <- ?app_assoc; reflexivity.
Qed.

Lemma exprKids_targs (t : T) tables : forall ks (ta : list targ) types, Forall2 (targ_obj t tables) ks ta -> forallb targ_okb ta = true ->
  Forall (fun ty => ty = aml_pArgTypeTermArg) types -> exprKids_go t ks types = ks.
Proof.
  induction ks as [|k ks IH]; intros ta types HF Hok Hty; [reflexivity|].
  inversion HF as [|k0 d ks0 ta0 Hk Hr]; subst. cbn [forallb] in Hok. apply andb_prop in Hok. destruct Hok as [Hd Hok].
  cbn [exprKids_go].
  assert (Hty' : Forall (fun ty => ty = aml_pArgTypeTermArg) (match types with [] => [] | _ :: tr => tr end)).
  { destruct types; [constructor|exact (Forall_inv_tail Hty)]. }
  assert (Hz : match types with
               | ty :: _ => (ty =? aml_pArgTypeTarget) || (ty =? aml_pArgTypeSuperName) || (ty =? aml_pArgTypeSimpleName)
               | [] => false end = false).
  { destruct types as [|ty tr]; [reflexivity|]. rewrite (Forall_inv Hty). reflexivity. }
  destruct d as [d|b]; cbn [targ_obj targ_okb] in *.
  - unfold cst_okb in Hd. apply andb_prop in Hd. destruct Hd as [Hc _]. destruct (const_ops' d Hc) as (E0 & _).
    destruct Hk as (ko & Hko & Hop & _). rewrite Hko, Hop, E0, Hz, andb_false_r. rewrite (IH ta0 _ Hr Hok Hty'). reflexivity.
  - destruct Hk as (ko & tb & sl & Hko & Hop & _). rewrite Hko, Hop.
    change (aml_pOpStringPrefix =? aml_pOpIntScopeBlock) with false. change (aml_pOpStringPrefix =? aml_pOpZero) with false. cbn [andb].
    rewrite (IH ta0 _ Hr Hok Hty'). reflexivity.
Qed.

Lemma sk_types sk : Forall (fun ty => ty = aml_pArgTypeTermArg) (argTypes_go 8 0 (sk_af sk)).
Proof. destruct sk; repeat constructor. Qed.

Lemma walkF_stmt (t : T) tables f known p es stmts c co sk ks (ta : list targ) :
  obj t c = Some co -> o_opcode co = sk_op sk -> o_infoIndex co = sk_info sk -> o_value co = None ->
  View.kids t co = ks -> Forall2 (targ_obj t tables) ks ta -> forallb targ_okb ta = true ->
  walkF t tables f known p (es, stmts) c = (es, stmts ++ [stmt_tokens sk ta]).
Proof.
  intros Ho Hop Hinf Hv Hk HF Hok. unfold walkF. rewrite Ho. cbv zeta. rewrite Hop.
  assert (E1 : (sk_op sk =? aml_pOpIntScopeBlock) && negb (is_zero_scopeblock co) = false) by (destruct sk; reflexivity).
  assert (E2 : sk_op sk =? aml_pOpIntNamedField = false) by (destruct sk; reflexivity).
  assert (E3 : is_declop (sk_op sk) = false) by (destruct sk; reflexivity).
  assert (E4 : sk_op sk =? aml_pOpScope = false) by (destruct sk; reflexivity).
  assert (E5 : is_fieldcontainerop (sk_op sk) = false) by (destruct sk; reflexivity).
  rewrite E1, E2, E3, E4, E5. f_equal. f_equal. f_equal.
  unfold pool_fuel. cbn [renderStmt]. rewrite Ho. cbv zeta. rewrite Hop.
  assert (E6 : (sk_op sk =? aml_pOpIf) || (sk_op sk =? aml_pOpElse) || (sk_op sk =? aml_pOpWhile) = false) by (destruct sk; reflexivity).
  rewrite E6. unfold pool_fuel. rewrite renderExpr_S, Ho. cbv zeta. rewrite Hop.
  assert (E7 : sk_op sk =? aml_pOpIntResolvedNamePath = false) by (destruct sk; reflexivity).
  assert (E8 : (sk_op sk =? aml_pOpIntNamePath) || (sk_op sk =? aml_pOpIntNamePathOrMethodCall) = false) by (destruct sk; reflexivity).
  assert (E9 : sk_op sk =? aml_pOpIntMethodCall = false) by (destruct sk; reflexivity).
  rewrite E7, E8, E9, Hv.
  assert (Ek : exprKids t co = ks).
  { unfold exprKids, argTypesOf. rewrite Hk, Hinf. destruct (sk_row sk) as (Hr & _). rewrite Hr.
    apply (exprKids_targs t tables ks ta _ HF Hok (sk_types sk)). }
  rewrite Ek. rewrite (render_targs t tables _ known p ks ta HF Hok).
  unfold stmt_tokens. assert (El : length ks = length ta) by (clear - HF; induction HF; cbn [length]; congruence). unfold lenN. rewrite El. reflexivity.
Qed.

Section ViewF1.
Variable t : T.
Variable g : ghost.
Variable pl : list pay.
Hypothesis H : Rep t g pl.
Variable tables : list (list N).

Lemma fold_leaves f known p : forall l acc,
  (forall c, In c l -> exists co, obj t c = Some co /\ o_opcode co = aml_pOpIntScopeBlock /\
                                  name_eqb (o_name co) (0, 0, 0, 0) = false /\ View.kids t co = []) ->
  fold_left (walkF t tables (S f) known p) l acc = acc.
Proof.
  induction l as [|c l IH]; intros acc Hall; cbn [fold_left]; [reflexivity|].
  destruct (Hall c (or_introl eq_refl)) as (co & Ho & Hop & Hnm & Hk).
  rewrite (walkF_empty_scope t tables f known p acc c co Ho Hop Hnm Hk). apply IH. intros c' Hc'. apply Hall. right. exact Hc'.
Qed.

Lemma fx_view vh : forall (l : fxs) b off, Forall (Desc g pl) (leaf_row b (fx_pays vh off l)) -> Forall2 (fx_obj t) (seqN b (length l)) l.
Proof.
  induction l as [|[w v] r IH]; intros b off HD; [constructor|]. cbn [fx_pays leaf_row length seqN] in HD |- *.
  constructor; [|apply (IH _ _ (Forall_inv_tail HD))].
  destruct (Desc_inv _ _ _ _ _ (Forall_inv HD)) as (Pb & Kb & _). cbn [map] in Kb.
  destruct (view_obj t g pl b _ H Pb ltac:(destruct w; discriminate)) as (ko & Hko & Epko & Hkko).
  exists ko. split; [exact Hko|]. split; [rewrite (pay_op _ _ Epko); reflexivity|]. split; [rewrite Hkko; exact Kb|rewrite (pay_val _ _ Epko); reflexivity].
Qed.

Lemma cst_view vh vtbl data : nth_error tables (N.to_nat vtbl) = Some data ->
  forall (ta : list targ) b off dpre dpost, data = dpre ++ enc_ta ta ++ dpost -> off = lenN dpre ->
  forallb targ_okb ta = true -> Forall (Desc g pl) (leaf_row b (cst_pays vh vtbl off ta)) ->
  Forall2 (targ_obj t tables) (seqN b (length ta)) ta.
Proof.
  intros Hnth. induction ta as [|d r IH]; intros b off dpre dpost Hdata Hoff Hok HD; [constructor|]. cbn [cst_pays leaf_row length seqN] in HD |- *.
  cbn [forallb] in Hok. apply andb_prop in Hok. destruct Hok as [Hd Hok].
  change (enc_ta (d :: r)) with (enc_targ d ++ enc_ta r) in Hdata.
  constructor.
  2:{ apply (IH (b + 1) (off + lenN (enc_targ d)) (dpre ++ enc_targ d) dpost); [rewrite Hdata, <- !app_assoc; reflexivity|rewrite lenN_app, Hoff; reflexivity|exact Hok|exact (Forall_inv_tail HD)]. }
  destruct (Desc_inv _ _ _ _ _ (Forall_inv HD)) as (Pb & Kb & _). cbn [map] in Kb.
  destruct d as [d|bs]; cbn [targ_okb targ_pay targ_obj enc_targ] in *.
  - unfold cst_okb in Hd. apply andb_prop in Hd. destruct Hd as [Hc _].
    assert (Hlc : y_op (cst_pay vh off d) <> opFreed).
    { cbn [cst_pay y_op]. destruct (is_constb_cases _ Hc) as [E|[E|[E|[E|[E|[E|E]]]]]]; rewrite E; discriminate. }
    destruct (view_obj t g pl b _ H Pb Hlc) as (ko & Hko & Epko & Hkko).
    exists ko. split; [exact Hko|]. split; [rewrite (pay_op _ _ Epko); reflexivity|]. split; [rewrite Hkko; exact Kb|rewrite (pay_val _ _ Epko); reflexivity].
  - destruct (view_obj t g pl b _ H Pb ltac:(discriminate)) as (ko & Hko & Epko & Hkko).
    exists ko, vtbl, (mkSlice (Some (off + 1)) (lenN bs)). split; [exact Hko|]. split; [rewrite (pay_op _ _ Epko); reflexivity|]. split; [rewrite Hkko; exact Kb|].
    split; [rewrite (pay_val _ _ Epko); reflexivity|]. rewrite (pay_val _ _ Epko). cbn [str_pay y_val value_bytes s_len s_ptr].
    destruct (N.eqb_spec (lenN bs) 0) as [E0|E0]; [destruct bs; [reflexivity|unfold lenN in E0; cbn [length] in E0; lia]|].
    rewrite Hnth.
    assert (Ed : data = (dpre ++ [OP_STRING]) ++ bs ++ ([0] ++ enc_ta r ++ dpost)).
    { rewrite Hdata. rewrite <- !app_assoc. cbn [app]. rewrite <- !app_assoc. reflexivity. }
    rewrite Ed.
    replace (N.to_nat (off + 1)) with (length (dpre ++ [OP_STRING])) by (rewrite app_length, Hoff; unfold lenN; cbn [length]; lia).
    replace (N.to_nat (lenN bs)) with (length bs) by (unfold lenN; lia).
    apply take_bytes_app.
Qed.

Lemma pel_view vh vtbl data : nth_error tables (N.to_nat vtbl) = Some data ->
  forall (els : list pel) b off dpre dpost, data = dpre ++ enc_pels els ++ dpost -> off = lenN dpre ->
  forallb pel_okb els = true -> Forall (Desc g pl) (pel_trees vh vtbl b off els) ->
  pels_obj t tables (map ridx (pel_trees vh vtbl b off els)) els.
Proof.
  intros Hnth. induction els as [|a rest IH|k n es rest IHe IH] using pels_ind; intros b off dpre dpost Hdata Hoff Hok HD; [exact I| |];
    cbn [forallb] in Hok; apply andb_prop in Hok; destruct Hok as [Hd Hok]; rewrite pel_trees_cons in HD |- *; cbn [map]; unfold pels_obj; cbn [all2];
    rewrite enc_pels_cons in Hdata.
  - split.
    + cbn [pel_tree ridx pel_obj pel_okb enc_pel] in *.
      pose proof (cst_view vh vtbl data Hnth [a] b off dpre (enc_pels rest ++ dpost)
                    ltac:(rewrite Hdata; unfold enc_ta; cbn [flat_map]; rewrite <- !app_assoc; reflexivity) Hoff
                    ltac:(cbn [forallb]; rewrite Hd; reflexivity)
                    ltac:(cbn [cst_pays leaf_row]; constructor; [exact (Forall_inv HD)|constructor])) as HC.
      cbn [length seqN] in HC. inversion HC; subst. assumption.
    + apply (IH _ _ (dpre ++ enc_pel (PLeaf a)) dpost); [rewrite Hdata, <- !app_assoc; reflexivity|rewrite lenN_app, Hoff; reflexivity|exact Hok|exact (Forall_inv_tail HD)].
  - split.
    2:{ apply (IH _ _ (dpre ++ enc_pel (PSub k n es)) dpost); [rewrite Hdata, <- !app_assoc; reflexivity|rewrite lenN_app, Hoff; reflexivity|exact Hok|exact (Forall_inv_tail HD)]. }
    rewrite pel_okb_sub in Hd. apply andb_prop in Hd. destruct Hd as [Hx Hes]. apply andb_prop in Hx. destruct Hx as [_ Hpk]. apply pkglen_okb_adm in Hpk.
    pose proof (Forall_inv HD) as DP. rewrite pel_tree_sub in DP |- *. cbn [ridx]. rewrite pel_obj_sub.
    destruct (Desc_inv _ _ _ _ _ DP) as (PP & KP & HDp). cbn [map ridx] in KP.
    pose proof (Forall_inv HDp) as DB. pose proof (Forall_inv (Forall_inv_tail HDp)) as DS.
    destruct (Desc_inv _ _ _ _ _ DB) as (PB & KB & _). cbn [map] in KB.
    destruct (Desc_inv _ _ _ _ _ DS) as (PS & KS & HDe).
    destruct (view_obj t g pl b _ H PP ltac:(discriminate)) as (po & Hpo & Eppo & Hkpo).
    destruct (view_obj t g pl (b + 1) _ H PB ltac:(discriminate)) as (bo & Hbo & Epbo & Hkbo).
    destruct (view_obj t g pl (b + 2) _ H PS ltac:(discriminate)) as (so & Hso & Epso & Hkso).
    rewrite KP in Hkpo. rewrite KB in Hkbo. rewrite KS in Hkso.
    exists po, (b + 1), (b + 2), so.
    split; [exact Hpo|]. split; [rewrite (pay_op _ _ Eppo); reflexivity|]. split; [rewrite (pay_info _ _ Eppo); reflexivity|].
    split; [rewrite (pay_val _ _ Eppo); reflexivity|]. split; [exact Hkpo|].
    split; [exists bo; split; [exact Hbo|split; [rewrite (pay_op _ _ Epbo); reflexivity|split; [exact Hkbo|rewrite (pay_val _ _ Epbo); reflexivity]]]|].
    split; [exact Hso|]. split; [rewrite (pay_op _ _ Epso); reflexivity|]. rewrite Hkso.
    rewrite enc_pel_sub in Hdata.
    apply (IHe (b + 3) (off + 1 + k + 1) (dpre ++ [OP_PACKAGE] ++ enc_pkglen k (k + lenN ([n] ++ enc_pels es)) ++ [n]) (enc_pels rest ++ dpost));
      [rewrite Hdata; repeat (first [rewrite <- app_assoc | progress cbn [app]]); reflexivity| |exact Hes|exact HDe].
    rewrite (lenN_app dpre), (lenN_app [OP_PACKAGE]), (lenN_app (enc_pkglen _ _)), (lenN_enc_pkglen _ _ Hpk), Hoff.
    change (lenN [OP_PACKAGE]) with 1. change (lenN [n]) with 1. lia.
Qed.

Definition VSpec (its : list item) : Prop := forall vh vtbl f known p es st b off data dpre dpost,
  nth_error tables (N.to_nat vtbl) = Some data -> data = dpre ++ enc_items its ++ dpost -> off = lenN dpre ->
  Forall (Desc g pl) (lay5 vh vtbl b off its) -> forallb item_okb its = true -> (iszs its < f)%nat ->
  fold_left (walkF t tables f known p) (map ridx (lay5 vh vtbl b off its)) (es, st) = (es ++ ventries p its, st ++ vstmts its).

Lemma const_ops d : is_constb (d_op d) = true ->
  (d_op d =? aml_pOpIntScopeBlock) = false /\ (d_op d =? aml_pOpIntResolvedNamePath) = false /\ (d_op d =? aml_pOpIntNamePath) = false /\
  (d_op d =? aml_pOpIntNamePathOrMethodCall) = false /\ (d_op d =? aml_pOpIntMethodCall) = false /\ d_op d <> opFreed.
Proof.
  intros Hc. destruct (is_constb_cases _ Hc) as [E|[E|[E|[E|[E|[E|E]]]]]]; rewrite E; repeat split; discriminate.
Qed.

Lemma vspec_all : forall its, VSpec its.
Proof.
  induction its as [|d rest IH|bk k seg fa body rest IHb IH|lk seg fa ta rest IH|seg k n elems rest IH|sk ta rest IH] using items_ind; intros vh vtbl f known p es st b off data dpre dpost Hnth Hdata Hoff HD Hok Hf; subst off.
  - cbn [lay5 map fold_left ventries vstmts flat_map]. rewrite !app_nil_r. reflexivity.
  - change (vstmts (IName d :: rest)) with (vstmts rest). apply forallb_item_cons in Hok. destruct Hok as [Hd Hok]. cbn [item_okb] in Hd. apply andb_prop in Hd. destruct Hd as [Hd Hseg].
    apply N.ltb_lt in Hseg. unfold decl_okb in Hd. apply andb_prop in Hd. destruct Hd as [Hd _]. apply andb_prop in Hd. destruct Hd as [_ Hc].
    rewrite lay5_cons in HD |- *. rewrite map_app, fold_left_app. apply Forall_app in HD. destruct HD as [HDit HDrest].
    cbn [lay5_item map ridx fold_left] in HDit |- *.
    pose proof (Forall_inv HDit) as DN. destruct (Desc_inv _ _ _ _ _ DN) as (PN & KN & HDk). cbn [map ridx] in KN.
    pose proof (Forall_inv (Forall_inv_tail HDk)) as DC. destruct (Desc_inv _ _ _ _ _ DC) as (PC & KC & _). cbn [map] in KC.
    destruct (const_ops d Hc) as (E0 & E1 & E2 & E3 & E4 & Hlc).
    destruct (view_obj t g pl b _ H PN ltac:(discriminate)) as (co & Hco & Epco & Hkco).
    destruct (view_obj t g pl (b + 2) _ H PC Hlc) as (ko & Hko & Epko & Hkko).
    rewrite KN in Hkco. rewrite KC in Hkko.
    assert (Hopk : o_opcode ko = d_op d) by (rewrite (pay_op _ _ Epko); reflexivity).
    assert (Hvk : o_value ko = const_val (d_op d) (d_v d)) by (rewrite (pay_val _ _ Epko); reflexivity).
    rewrite (walkF_name t tables f known p es st b co (b + 1) (b + 2) ko Hco ltac:(rewrite (pay_op _ _ Epco); reflexivity) Hkco Hko Hkko);
      try (rewrite Hopk; assumption).
    2:{ rewrite Hvk. unfold const_val. destruct (const_bytes (d_op d)); exact I. }
    rewrite iszs_cons in Hf.
    rewrite (IH vh vtbl f known p _ st (b + N.of_nat (isz (IName d))) (lenN dpre + lenN (enc_item (IName d))) data (dpre ++ enc_item (IName d)) dpost Hnth
               ltac:(rewrite Hdata, enc_items_cons, <- !app_assoc; reflexivity) ltac:(rewrite lenN_app; reflexivity) HDrest Hok ltac:(lia)).
    cbn [ventries flat_map ventry]. rewrite <- app_assoc. cbn [app]. f_equal. f_equal. f_equal.
    unfold name_entry. rewrite Hopk, Hvk, (pay_name _ _ Epco). cbn [nam_pay y_name]. rewrite (name_num_seg _ Hseg). reflexivity.
  - change (vstmts (IBlk bk k seg fa body :: rest)) with (vstmts rest).
    apply forallb_item_cons in Hok. destruct Hok as [Hd Hok]. cbn [item_okb] in Hd. apply andb_prop in Hd. destruct Hd as [Hx Hbody].
    apply andb_prop in Hx. destruct Hx as [Hx Hpk]. apply pkglen_okb_adm in Hpk. change (flat_map enc_item body) with (enc_items body) in Hpk.
    apply andb_prop in Hx. destruct Hx as [Hx _]. apply andb_prop in Hx. destruct Hx as [Hx _].
    apply andb_prop in Hx. destruct Hx as [_ Hseg]. apply N.ltb_lt in Hseg.
    rewrite lay5_cons in HD |- *. rewrite map_app, fold_left_app. apply Forall_app in HD. destruct HD as [HDit HDrest].
    rewrite lay5_blk in HDit |- *. cbn [map ridx fold_left].
    set (l := bfx bk fa) in *. set (nf := length l) in *. unfold nfx in *. fold l nf in HDit |- *.
    pose proof (Forall_inv HDit) as DD. destruct (Desc_inv _ _ _ _ _ DD) as (PD & KD & HDk).
    rewrite map_app, leaf_row_idx, len_hd_pays in KD. fold l nf in KD. cbn [map ridx seqN app] in KD.
    apply Forall_app in HDk. destruct HDk as [HDrow HDsb]. pose proof (Forall_inv HDsb) as DS.
    destruct (Desc_inv _ _ _ _ _ DS) as (PS & KS & HDbody).
    unfold hd_pays in HDrow. cbn [leaf_row] in HDrow. fold l in HDrow.
    pose proof (fx_view vh l _ _ (Forall_inv_tail HDrow)) as HF. fold nf in HF.
    destruct (view_obj t g pl b _ H PD ltac:(destruct bk; discriminate)) as (co & Hco & Epco & Hkco).
    destruct (view_obj t g pl (b + 2 + N.of_nat nf) _ H PS ltac:(discriminate)) as (ko & Hko & Epko & Hkko).
    rewrite KD in Hkco. rewrite KS in Hkko.
    rewrite iszs_cons, isz_blk in Hf. fold l nf in Hf. destruct f as [|f']; [lia|].
    assert (Hnm : name_num (o_name co) = seg) by (rewrite (pay_name _ _ Epco); cbn [blk_pay y_name]; apply name_num_seg; exact Hseg).
    assert (Hw : walk t tables (S f') known (b + 2 + N.of_nat nf) (p ++ [name_num (o_name co)]) = (ventries (p ++ [seg]) body, vstmts body)).
    { rewrite walk_S, Hko, Hkko, Hnm.
      rewrite (IHb vh vtbl f' known (p ++ [seg]) [] [] (b + 3 + N.of_nat nf) (sb_off bk (lenN dpre) k fa) data
                 (dpre ++ enc_op (bk_op bk) ++ enc_pkglen k (k + lenN (seg_bytes seg ++ enc_fx l ++ enc_items body)) ++ seg_bytes seg ++ enc_fx l)
                 (enc_items rest ++ dpost) Hnth
                 ltac:(rewrite Hdata, enc_items_cons, enc_blk; fold l; rewrite <- !app_assoc; reflexivity)
                 ltac:(unfold sb_off, blo; fold l; rewrite (lenN_app dpre), (lenN_app (enc_op _)), (lenN_app (enc_pkglen _ _)), (lenN_enc_pkglen _ _ Hpk), (lenN_app (seg_bytes seg)); change (lenN (seg_bytes seg)) with 4; lia)
                 HDbody Hbody ltac:(lia)). reflexivity. }
    rewrite (walkF_blk' t tables (S f') known p es st b co bk (b + 1) (seqN (b + 1 + 1) nf) l (b + 2 + N.of_nat nf) ko _ _ Hco
               ltac:(rewrite (pay_op _ _ Epco); reflexivity) Hkco HF Hko ltac:(rewrite (pay_op _ _ Epko); reflexivity) Hw).
    rewrite (IH vh vtbl (S f') known p _ st (b + N.of_nat (isz (IBlk bk k seg fa body))) (lenN dpre + lenN (enc_item (IBlk bk k seg fa body))) data (dpre ++ enc_item (IBlk bk k seg fa body)) dpost Hnth
               ltac:(rewrite Hdata, enc_items_cons, <- !app_assoc; reflexivity) ltac:(rewrite lenN_app; reflexivity) HDrest Hok ltac:(lia)).
    cbn [ventries flat_map ventry]. fold (ventries (p ++ [seg]) body). fold (vstmts body). fold l. rewrite Hnm, <- !app_assoc. reflexivity.
  - change (vstmts (ILeaf lk seg fa ta :: rest)) with (vstmts rest).
    apply forallb_item_cons in Hok. destruct Hok as [Hd Hok]. cbn [item_okb] in Hd. apply andb_prop in Hd. destruct Hd as [Hx Hta].
    apply andb_prop in Hx. destruct Hx as [Hx _]. apply andb_prop in Hx. destruct Hx as [Hx _]. apply andb_prop in Hx. destruct Hx as [Hx _].
    apply andb_prop in Hx. destruct Hx as [_ Hseg]. apply N.ltb_lt in Hseg.
    rewrite lay5_cons in HD |- *. rewrite map_app, fold_left_app. apply Forall_app in HD. destruct HD as [HDit HDrest].
    cbn [lay5_item map ridx fold_left] in HDit |- *.
    set (l := lfx lk fa) in *. set (nf := length l) in *.
    pose proof (Forall_inv HDit) as DD. destruct (Desc_inv _ _ _ _ _ DD) as (PD & KD & HDk).
    rewrite leaf_row_idx, app_length, len_lhd_pays, len_cst_pays in KD. fold l nf in KD.
    rewrite leaf_row_app, len_lhd_pays in HDk. fold l nf in HDk. apply Forall_app in HDk. destruct HDk as [HDrow HDcs].
    unfold lhd_pays in HDrow. cbn [leaf_row] in HDrow. fold l in HDrow.
    pose proof (fx_view vh l _ _ (Forall_inv_tail HDrow)) as HF. fold nf in HF.
    pose proof (cst_view vh vtbl data Hnth ta (b + 1 + N.of_nat (S nf)) (ta_off lk (lenN dpre) fa) (dpre ++ enc_op (lk_op lk) ++ seg_bytes seg ++ enc_fx l) (enc_items rest ++ dpost)
                  ltac:(rewrite Hdata, enc_items_cons, enc_leaf; fold l; rewrite <- !app_assoc; reflexivity)
                  ltac:(unfold ta_off; fold l; rewrite !lenN_app; unfold llo; change (lenN (seg_bytes seg)) with 4; lia) Hta HDcs) as HC.
    destruct (view_obj t g pl b _ H PD ltac:(destruct lk; discriminate)) as (co & Hco & Epco & Hkco).
    rewrite KD in Hkco. change (S nf + length ta)%nat with (S (nf + length ta)) in Hkco. cbn [seqN] in Hkco. rewrite seqN_app in Hkco.
    replace (b + 1 + 1 + N.of_nat nf) with (b + 1 + N.of_nat (S nf)) in Hkco by lia.
    assert (Hnm : name_num (o_name co) = seg) by (rewrite (pay_name _ _ Epco); cbn [lf_pay y_name]; apply name_num_seg; exact Hseg).
    rewrite (walkF_leaf t tables f known p es st b co lk (b + 1) (seqN (b + 1 + 1) nf) l (seqN (b + 1 + N.of_nat (S nf)) (length ta)) ta Hco
               ltac:(rewrite (pay_op _ _ Epco); reflexivity) Hkco HF HC Hta).
    rewrite iszs_cons, isz_leaf in Hf.
    rewrite (IH vh vtbl f known p _ st (b + N.of_nat (isz (ILeaf lk seg fa ta))) (lenN dpre + lenN (enc_item (ILeaf lk seg fa ta))) data (dpre ++ enc_item (ILeaf lk seg fa ta)) dpost Hnth
               ltac:(rewrite Hdata, enc_items_cons, <- !app_assoc; reflexivity) ltac:(rewrite lenN_app; reflexivity) HDrest Hok ltac:(lia)).
    cbn [ventries flat_map ventry]. fold l. rewrite Hnm, <- !app_assoc. reflexivity.
  - change (vstmts (IPkg seg k n elems :: rest)) with (vstmts rest).
    apply forallb_item_cons in Hok. destruct Hok as [Hd Hok]. cbn [item_okb] in Hd. apply andb_prop in Hd. destruct Hd as [Hx Hel].
    apply andb_prop in Hx. destruct Hx as [Hx Hpk]. pose proof Hpk as Hpkb. apply pkglen_okb_adm in Hpk. apply andb_prop in Hx. destruct Hx as [Hx Hn].
    apply andb_prop in Hx. destruct Hx as [_ Hseg]. apply N.ltb_lt in Hseg.
    rewrite lay5_cons in HD |- *. rewrite map_app, fold_left_app. apply Forall_app in HD. destruct HD as [HDit HDrest].
    cbn [lay5_item map ridx fold_left] in HDit |- *.
    pose proof (Forall_inv HDit) as DN. destruct (Desc_inv _ _ _ _ _ DN) as (PN & KN & HDk). cbn [map ridx] in KN.
    change (ridx (pkg_tree vh vtbl (b + 2) (lenN dpre + 5) k n elems)) with (b + 2) in KN.
    pose proof (Forall_inv (Forall_inv_tail HDk)) as DP. unfold pkg_tree in DP.
    destruct (view_obj t g pl b _ H PN ltac:(discriminate)) as (co & Hco & Epco & Hkco).
    rewrite KN in Hkco.
    assert (Hnm : name_num (o_name co) = seg) by (rewrite (pay_name _ _ Epco); cbn [nam_pay y_name]; apply name_num_seg; exact Hseg).
    assert (Hsub : pel_okb (PSub k n elems) = true).
    { rewrite pel_okb_sub, Hn, Hpkb, Hel. reflexivity. }
    pose proof (pel_view vh vtbl data Hnth [PSub k n elems] (b + 2) (lenN dpre + 5) (dpre ++ OP_NAME :: seg_bytes seg) (enc_items rest ++ dpost)
                  ltac:(rewrite Hdata, enc_items_cons, enc_pkg_item; cbn [enc_pels flat_map]; rewrite enc_pel_sub; repeat (first [rewrite <- app_assoc | progress cbn [app]]); reflexivity)
                  ltac:(rewrite (lenN_app dpre), lenN_cons; change (lenN (seg_bytes seg)) with 4; lia)
                  ltac:(cbn [forallb]; rewrite Hsub; reflexivity)
                  ltac:(cbn [pel_trees]; constructor; [exact DP|constructor])) as HC.
    unfold pels_obj in HC; cbn [pel_trees map all2] in HC. destruct HC as (HC & _). rewrite pel_tree_sub in HC. cbn [ridx] in HC.
    assert (Hpf : (3 + pels_sz elems <= pool_fuel t)%nat).
    { assert (Hin : In (b + 2 + N.of_nat (2 + pels_sz elems)) (rnodes (pel_tree vh vtbl (b + 2) (lenN dpre + 5) (PSub k n elems)))).
      { apply pel_tree_nodes. rewrite pel_sz_sub. lia. }
      destruct (Desc_lookup g pl _ DP _ Hin) as (a0 & ks0 & Dy). destruct (Desc_inv _ _ _ _ _ Dy) as (Py & _ & _). apply pget_lt in Py.
      unfold pool_fuel. rewrite <- (rep_len_pool _ _ _ H). lia. }
    rewrite (walkF_namepkg t tables f known p es st b co (b + 1) (b + 2) k n elems Hco ltac:(rewrite (pay_op _ _ Epco); reflexivity) Hkco HC Hsub Hpf).
    rewrite iszs_cons, isz_pkg in Hf.
    rewrite (IH vh vtbl f known p _ st (b + N.of_nat (isz (IPkg seg k n elems))) (lenN dpre + lenN (enc_item (IPkg seg k n elems))) data (dpre ++ enc_item (IPkg seg k n elems)) dpost Hnth
               ltac:(rewrite Hdata, enc_items_cons, <- !app_assoc; reflexivity) ltac:(rewrite lenN_app; reflexivity) HDrest Hok ltac:(lia)).
    cbn [ventries flat_map ventry]. rewrite Hnm, <- !app_assoc. reflexivity.
  - apply forallb_item_cons in Hok. destruct Hok as [Hd Hok]. cbn [item_okb] in Hd. apply andb_prop in Hd. destruct Hd as [_ Hta].
    rewrite lay5_cons in HD |- *. rewrite map_app, fold_left_app. apply Forall_app in HD. destruct HD as [HDit HDrest].
    cbn [lay5_item map ridx fold_left] in HDit |- *.
    pose proof (Forall_inv HDit) as DS. destruct (Desc_inv _ _ _ _ _ DS) as (PS & KS & HDk).
    rewrite leaf_row_idx, len_cst_pays in KS.
    pose proof (cst_view vh vtbl data Hnth ta (b + 1) (lenN dpre + slo sk) (dpre ++ enc_op (sk_op sk)) (enc_items rest ++ dpost)
                  ltac:(rewrite Hdata, enc_items_cons, enc_stmt, <- !app_assoc; reflexivity)
                  ltac:(rewrite lenN_app; reflexivity) Hta HDk) as HC.
    destruct (view_obj t g pl b _ H PS ltac:(destruct sk; discriminate)) as (co & Hco & Epco & Hkco).
    rewrite KS in Hkco.
    rewrite (walkF_stmt t tables f known p es st b co sk _ ta Hco ltac:(rewrite (pay_op _ _ Epco); reflexivity)
               ltac:(rewrite (pay_info _ _ Epco); reflexivity) ltac:(rewrite (pay_val _ _ Epco); reflexivity) Hkco HC Hta).
    rewrite iszs_cons, isz_stmt in Hf.
    rewrite (IH vh vtbl f known p _ _ (b + N.of_nat (isz (IStmt sk ta))) (lenN dpre + lenN (enc_item (IStmt sk ta))) data (dpre ++ enc_item (IStmt sk ta)) dpost Hnth
               ltac:(rewrite Hdata, enc_items_cons, <- !app_assoc; reflexivity) ltac:(rewrite lenN_app; reflexivity) HDrest Hok ltac:(lia)).
    cbn [ventries vstmts flat_map ventry stmt_of app]. rewrite <- app_assoc. reflexivity.
Qed.

(** ---- the whole view ---- *)
Theorem view_f9 its hdr : Desc g pl (root_tree5 its) -> forallb item_okb its = true -> (6 + iszs its <= length pl)%nat ->
  tables = [hdr ++ enc_items its] -> lenN hdr = aml_sizeofSDTHeader ->
  view t tables = ventries [] its ++ anon [] (vstmts its).
Proof.
  intros HD Hok Hlen Htb Hhdr. unfold view. set (known := [] :: collect_known t (pool_fuel t) 0 []).
  unfold pool_fuel at 1. rewrite walk_S.
  destruct (Desc_inv _ _ _ _ _ HD) as (P0 & K0 & HDk). apply Forall_app in HDk. destruct HDk as [HDl HD2].
  destruct (view_obj t g pl 0 _ H P0 ltac:(discriminate)) as (so & Hso & _ & Hkso).
  rewrite Hso, Hkso, K0, map_app, fold_left_app.
  rewrite (fold_leaves (length (t_pool t)) known [] (map ridx dflt_leaves)).
  2:{ intros c Hc. apply in_map_iff in Hc. destruct Hc as (r & <- & Hr). rewrite Forall_forall in HDl. pose proof (HDl r Hr) as Dr.
      unfold dflt_leaves in Hr. cbn [In] in Hr.
      destruct Hr as [ <- | [ <- | [ <- | [ <- | [ <- | [] ] ] ] ] ];
        (destruct (Desc_inv _ _ _ _ _ Dr) as (Pc & Kc & _); destruct (view_obj t g pl _ _ H Pc ltac:(discriminate)) as (co & Hco & Epco & Hkco);
         exists co; split; [exact Hco|]; split; [rewrite (pay_op _ _ Epco); reflexivity|];
         split; [rewrite (pay_name _ _ Epco); reflexivity|]; rewrite Hkco; exact Kc). }
  rewrite (vspec_all its 1 0 (S (length (t_pool t))) known [] [] [] _ _ (hdr ++ enc_items its) hdr [] ltac:(rewrite Htb; reflexivity) ltac:(rewrite app_nil_r; reflexivity) ltac:(symmetry; exact Hhdr) HD2 Hok).
  2:{ rewrite <- (rep_len_pool _ _ _ H). lia. }
  cbn [app]. reflexivity.
Qed.
End ViewF1.
