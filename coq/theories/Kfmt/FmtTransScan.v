(** Fprintf's scanner (Kfmt/Fmt.v: [scan], [finish], [write_block], [do_verb]) against the translation regenerated
    from kernel/kfmt/fmt.go (Gen/Trans_kfmt_fmt.v: [go_kfmt_Fprintf] and its loops): a simulation between the
    model's scanner state (mode, blockStart, blockEnd, nextArgIndex, numFmtBuf) and the loop states of the translation;
    the verb cases reuse Kfmt/FmtTrans.v. *)
From Coq Require Import NArith ZArith String List Bool Lia.
From Coq Require Import ZifyBool ZifyN ZifyNat.
From FF Require Import Lib.Word Lib.GoOps Lib.GoOpsExt Lib.GoOpsFmt Gen.Consts_kfmt Gen.Trans_kfmt_fmt.
From FF Require Import Kfmt.Fmt Kfmt.FmtSpec Kfmt.FmtProofs Kfmt.FmtScanProofs Kfmt.FmtTrans.
Import ListNotations.
Local Open Scope N_scope.
Ltac Zify.zify_post_hook ::= Z.div_mod_to_equations.

Lemma loop7_is_loop1 : go_kfmt_Fprintf_loop7 = go_kfmt_Fprintf_loop1. Proof. reflexivity. Qed.
Lemma loop5_is_loop3 : go_kfmt_Fprintf_loop5 = go_kfmt_Fprintf_loop3. Proof. reflexivity. Qed.
Lemma loop9_is_loop8 : go_kfmt_Fprintf_loop9 = go_kfmt_Fprintf_loop8. Proof. reflexivity. Qed.

Definition two62 : N := 4611686018427387904.

(** [for i := blockStart; i < blockEnd; i++ { singleByte[0] = format[i]; doWrite(w, singleByte) }] *)
Lemma block_sim w fmt gargs bsN flN aiN ch pad buf : (length fmt < N.to_nat two62)%nat ->
  forall n i tr x G blk,
  write_block fmt n i = Ok blk -> (n < G)%nat -> (i + n <= length fmt)%nat ->
  exists y,
    gloop G (go_kfmt_Fprintf_loop1 gargs (N.of_nat (i + n)) bsN flN fmt aiN ch pad w) (mkw tr buf [x], N.of_nat i)
      = GOk (inl (mkw (pushed w blk tr) buf [y], N.of_nat (i + n))).
Proof.
  intros Hl. unfold two62 in Hl.
  induction n as [|n IH]; intros i tr x G blk Hw HG Hin; (destruct G as [|G]; [lia|]);
    rewrite gloop_S; unfold go_kfmt_Fprintf_loop1 at 1; cbv beta iota zeta; wsimp; cbn [write_block] in Hw;
    rewrite gslt_small by (rewrite two63_lit; lia).
  - injection Hw as <-. rewrite Nat.add_0_r. rewrite N.ltb_irrefl. exists x. reflexivity.
  - destruct (N.ltb_spec (N.of_nat i) (N.of_nat (i + S n))); [|lia].
    unfold fget in Hw. destruct (nth_error fmt i) as [c|] eqn:Ec; [|discriminate]. cbn [bind] in Hw.
    rewrite single_ok in Hw. cbn [bind] in Hw.
    destruct (write_block fmt n (S i)) as [r| |] eqn:Er; try discriminate. cbn [bind] in Hw. injection Hw as <-.
    rewrite gidxs_small by (rewrite two63_lit; lia). unfold gidx. rewrite Nat2N.id, Ec.
    change (gset [x] 0 c) with (Some [c]). cbv beta iota. wsimp.
    rewrite (gw64_small' (N.of_nat i + 1)) by (rewrite two64_lit; lia).
    replace (N.of_nat i + 1) with (N.of_nat (S i)) by lia.
    destruct (IH (S i) (ev w [c] :: tr) c G r Er ltac:(lia) ltac:(lia)) as [y Hy].
    exists y. replace (i + S n)%nat with (S i + n)%nat by lia.
    transitivity (gloop G (go_kfmt_Fprintf_loop1 gargs (N.of_nat (S i + n)) bsN flN fmt aiN ch pad w)
                    (mkw (ev w [c] :: tr) buf [c], N.of_nat (S i))); [reflexivity|].
    rewrite Hy, pushed_cons. reflexivity.
Qed.

(** [for ; nextArgIndex < len(args); nextArgIndex++ { doWrite(w, errExtraArg) }] *)
Lemma extras_sim w fmt gargs beN bsN flN ch pad buf sb : (length gargs < N.to_nat two62)%nat ->
  forall k ai tr G, (ai + k = length gargs)%nat -> (k < G)%nat ->
  gloop G (go_kfmt_Fprintf_loop8 gargs beN bsN flN fmt ch pad w) (mkw tr buf sb, N.of_nat ai)
    = GOk (inl (mkw (pushed w (repeat kfmt_errExtraArg k) tr) buf sb, N.of_nat (length gargs))).
Proof.
  intros Hl. unfold two62 in Hl.
  induction k as [|k IH]; intros ai tr G Hk HG; (destruct G as [|G]; [lia|]);
    rewrite gloop_S; unfold go_kfmt_Fprintf_loop8 at 1; cbv beta iota zeta; wsimp;
    rewrite gslt_small by (rewrite two63_lit; unfold glenA; lia); unfold glenA.
  - destruct (N.ltb_spec (N.of_nat ai) (N.of_nat (length gargs))); [lia|]. replace ai with (length gargs) by lia. reflexivity.
  - destruct (N.ltb_spec (N.of_nat ai) (N.of_nat (length gargs))); [|lia].
    rewrite (gw64_small' (N.of_nat ai + 1)) by (rewrite two64_lit; lia).
    replace (N.of_nat ai + 1) with (N.of_nat (S ai)) by lia.
    transitivity (gloop G (go_kfmt_Fprintf_loop8 gargs beN bsN flN fmt ch pad w)
                    (mkw (ev w kfmt_errExtraArg :: tr) buf sb, N.of_nat (S ai))); [reflexivity|].
    rewrite IH by lia. cbn [repeat]. rewrite pushed_cons. reflexivity.
Qed.

(** what Fprintf does after its outer loop (copied from the translation; [fprintf_unfold] checks it is the same term) *)
Definition fp_post (FU : nat) (w : bool) (fmt : list N) (gargs : list gany)
  (r : gres ((go_kfmt_world * N * N * N * N * N) + (go_kfmt_world * unit))) : gres (go_kfmt_world * unit) :=
  match r with
  | GPanic => GPanic | GFuel => GFuel
  | GOk (inr r) => GOk r
  | GOk (inl st) => let '(v_world, v_blockEnd, v_blockStart, v_nextArgIndex, v_nextCh, v_padLen) := st in
    if negb (v_blockStart =? v_blockEnd)
    then
      match gloop (R := (go_kfmt_world * unit)%type) FU
              (go_kfmt_Fprintf_loop7 gargs v_blockEnd v_blockStart (glen fmt) fmt v_nextArgIndex v_nextCh v_padLen w)
              (v_world, v_blockStart) with
      | GPanic => GPanic | GFuel => GFuel | GOk (inr r) => GOk r
      | GOk (inl st) => let '(v_world, v_i) := st in
        match gloop (R := (go_kfmt_world * unit)%type) FU
                (go_kfmt_Fprintf_loop8 gargs v_blockEnd v_blockStart (glen fmt) fmt v_nextCh v_padLen w)
                (v_world, v_nextArgIndex) with
        | GPanic => GPanic | GFuel => GFuel | GOk (inr r) => GOk r
        | GOk (inl st) => let '(v_world, v_nextArgIndex) := st in GOk (v_world, tt)
        end
      end
    else
      match gloop (R := (go_kfmt_world * unit)%type) FU
              (go_kfmt_Fprintf_loop9 gargs v_blockEnd v_blockStart (glen fmt) fmt v_nextCh v_padLen w)
              (v_world, v_nextArgIndex) with
      | GPanic => GPanic | GFuel => GFuel | GOk (inr r) => GOk r
      | GOk (inl st) => let '(v_world, v_nextArgIndex) := st in GOk (v_world, tt)
      end
  end.

Lemma fprintf_unfold FU wd w fmt gargs :
  go_kfmt_Fprintf FU wd w fmt gargs =
  fp_post FU w fmt gargs (gloop FU (go_kfmt_Fprintf_loop6 FU gargs (glen fmt) fmt w) (wd, 0, 0, 0, 0, 0)).
Proof. reflexivity. Qed.

(** after the outer loop: the trailing literal block, then one marker per unused argument *)
Lemma finish_sim FU w fmt gargs tr buf x bs be ai ch pad cs buf' :
  (length fmt < N.to_nat two62)%nat -> (length gargs < N.to_nat two62)%nat ->
  (length fmt < FU)%nat -> (length gargs < FU)%nat ->
  (bs <= be)%nat -> (bs = be \/ be <= length fmt)%nat -> (be <= S (length fmt))%nat -> (ai <= length gargs)%nat ->
  finish fmt (map of_gany gargs) bs be ai buf = Ok (cs, buf') ->
  exists y,
    fp_post FU w fmt gargs (GOk (inl (mkw tr buf [x], N.of_nat be, N.of_nat bs, N.of_nat ai, ch, pad)))
      = GOk (mkw (pushed w cs tr) buf' [y], tt).
Proof.
  intros Hl Ha HF1 HF2 Hbs Hbe Hbe' Hai. unfold finish. rewrite map_length. unfold two62 in *.
  cbn [fp_post]. rewrite loop7_is_loop1, loop9_is_loop8.
  destruct (Nat.eqb_spec bs be) as [->|Hne]; cbn [negb].
  - cbn [bind]. intros E. injection E as <- <-. rewrite N.eqb_refl. cbn [negb].
    rewrite (extras_sim w fmt gargs _ _ _ ch pad buf [x] Ha (length gargs - ai) ai tr FU) by lia.
    exists x. reflexivity.
  - destruct (write_block fmt (be - bs) bs) as [blk| |] eqn:Ew; cbn [bind]; try discriminate.
    intros E. injection E as <- <-.
    destruct (N.eqb_spec (N.of_nat bs) (N.of_nat be)); [lia|]. cbn [negb].
    destruct (block_sim w fmt gargs (N.of_nat bs) (glen fmt) (N.of_nat ai) ch pad buf Hl (be - bs) bs tr x FU blk Ew
                ltac:(lia) ltac:(lia)) as [y Hy].
    replace (bs + (be - bs))%nat with be in Hy by lia. rewrite Hy.
    rewrite (extras_sim w fmt gargs _ _ _ ch pad buf [y] Ha (length gargs - ai) ai _ FU) by lia.
    exists y. rewrite pushed_app. reflexivity.
Qed.

(** ---- one verb ---- *)
Definition verb_call (FU : nat) (w : bool) (ch : N) (wd : go_kfmt_world) (g : gany) (p : N) : gres (go_kfmt_world * unit) :=
  if ch =? 111 then go_kfmt_fmtInt FU wd w g 8 p
  else if ch =? 100 then go_kfmt_fmtInt FU wd w g 10 p
  else if ch =? 120 then go_kfmt_fmtInt FU wd w g 16 p
  else if ch =? 115 then go_kfmt_fmtString FU wd w g p
  else if ch =? 116 then go_kfmt_fmtBool wd w g
  else GOk (wd, tt).

(** strings and byte slices as Go can have them: len is an int *)
Definition str_ok (g : gany) : Prop :=
  match g with GAStr s | GABytes s => glen s < 9223372036854775808 | _ => True end.

Lemma fmt_string_len g pd c : fmt_string (of_gany g) pd = Ok c ->
  match g with
  | GAStr s | GABytes s => length (List.concat c) = (Z.to_nat (wrap_int (pd - Z.of_nat (length s))) + length s)%nat
  | _ => True
  end.
Proof.
  destruct g; cbn [of_gany fmt_string]; try (intros; exact I); rewrite fmt_repeat_ok; cbn [bind].
  - rewrite singles_ok. cbn [bind]. intros E. injection E as <-.
    rewrite concat_app, app_length, concat_repeat_single, repeat_length, concat_singles. reflexivity.
  - intros E. injection E as <-.
    rewrite concat_app, app_length, concat_repeat_single, repeat_length. cbn [List.concat]. rewrite app_nil_r. reflexivity.
Qed.

Lemma verb_sim FU w ch tr buf x g p o :
  buf_ok buf -> gany_wf g -> str_ok g -> p < 2 ^ 64 -> (34 <= FU)%nat ->
  do_verb ch (of_gany g) (sz p) buf = Ok o -> (length (List.concat (fst o)) < FU)%nat ->
  exists y, verb_call FU w ch (mkw tr buf [x]) g p = GOk (mkw (pushed w (fst o) tr) (snd o) [y], tt) /\ buf_ok (snd o).
Proof.
  intros Hb Hg Hs Hp HF. unfold do_verb, verb_call.
  assert (HI : forall base, base = 8 \/ base = 10 \/ base = 16 ->
    fmt_int buf (of_gany g) (Z.of_N base) (sz p) = Ok o ->
    exists y, go_kfmt_fmtInt FU (mkw tr buf [x]) w g base p = GOk (mkw (pushed w (fst o) tr) (snd o) [y], tt) /\ buf_ok (snd o)).
  { intros base Hbase E.
    destruct (fmtInt_is_translation FU w tr buf [x] g base p Hb Hg Hbase Hp HF) as [cs [buf' [E' [T Hb']]]].
    rewrite E' in E. injection E as <-. exists x. split; [exact T|exact Hb']. }
  destruct (ch =? 111); [intros E _; apply (HI 8); [tauto|exact E]|].
  destruct (ch =? 100); [intros E _; apply (HI 10); [tauto|exact E]|].
  destruct (ch =? 120); [intros E _; apply (HI 16); [tauto|exact E]|].
  destruct (ch =? 115).
  - destruct (fmt_string (of_gany g) (sz p)) as [c| |] eqn:Es; cbn [bind]; try discriminate.
    intros E. injection E as <-. cbn [fst snd]. intros Hlen.
    pose proof (fmt_string_len g (sz p) c Es) as L.
    destruct (fmtString_is_translation FU w tr buf x g p Hp) as [cs [y [E' T]]].
    { destruct g; try exact I; cbn [str_ok] in Hs; (split; [exact Hs|]; lia). }
    rewrite E' in Es. injection Es as <-. exists y. split; [exact T|exact Hb].
  - destruct (ch =? 116); intros E _; injection E as <-; cbn [fst snd]; exists x; (split; [|exact Hb]).
    + apply fmtBool_is_translation.
    + reflexivity.
Qed.

Lemma gidxsA_small_some {A} (l : list A) i a : N.of_nat i < 4611686018427387904 -> nth_error l i = Some a ->
  gidxsA 64 l (N.of_nat i) = Some a.
Proof.
  intros Hi E. unfold gidxsA. rewrite gisneg_small by (rewrite two63_lit; lia). unfold gidxA. rewrite Nat2N.id. exact E.
Qed.

(** ---- the scanner ---- *)
Lemma gmul_zi a b : gw 64 (zi a * zi b) = zi (a * b).
Proof.
  unfold gw, zi. change (2 ^ 64) with 18446744073709551616.
  apply N2Z.inj. rewrite N2Z.inj_mod, N2Z.inj_mul, !Z2N.id; try (apply Z.mod_pos_bound; lia).
  change (Z.of_N 18446744073709551616) with 18446744073709551616%Z. symmetry. apply Zmult_mod.
Qed.

(** padLen = (padLen * 10) + int(nextCh-'0') *)
Lemma pad_digit p c : p < 2 ^ 64 ->
  let p' := gw 64 (gw 64 (p * 10) + gw 64 (gsub 8 c 48)) in
  p' < 2 ^ 64 /\ sz p' = wrap_int (sz p * 10 + Z.of_N (w8 (c + 256 - 48))).
Proof.
  intros Hp. cbv zeta. split; [unfold gw at 1; apply N.mod_lt; discriminate|].
  assert (Hd : gsub 8 c 48 = w8 (c + 256 - 48)) by reflexivity.
  rewrite Hd. set (d := w8 (c + 256 - 48)).
  assert (Hd256 : d < 256) by (unfold d, w8, two8; apply N.mod_lt; discriminate).
  rewrite (gw64_small' d) by (rewrite two64_lit; lia).
  rewrite <- (zi_sz p) at 1 by exact Hp. change 10 with (zi 10). rewrite gmul_zi.
  rewrite <- (zi_of_N d) at 1 by (rewrite two64_lit; lia). rewrite gadd_zi. apply sz_zi_wrap.
Qed.

Section ScanSim.
  Variables (FU : nat) (w : bool) (fmt : list N) (gargs : list gany).
  Hypothesis Hfl : (length fmt < N.to_nat two62)%nat.
  Hypothesis Hal : (length gargs < N.to_nat two62)%nat.
  Hypothesis HF34 : (34 <= FU)%nat.
  Hypothesis HFf : (S (length fmt) < FU)%nat.
  Hypothesis HFa : (length gargs < FU)%nat.
  Hypothesis Hwf : Forall gany_wf gargs.
  Hypothesis Hso : Forall str_ok gargs.

  Notation args := (map of_gany gargs).
  Notation step6 := (go_kfmt_Fprintf_loop6 FU gargs (glen fmt) fmt w).
  Notation step3 bsN := (go_kfmt_Fprintf_loop3 FU gargs bsN (glen fmt) fmt w).
  Notation R := (go_kfmt_world * unit)%type.

  (** the outer loop resumes after the labelled inner loop: blockStart, blockEnd = blockEnd+1, blockEnd+1 *)
  Definition inner_k (F : nat) (r : gres ((go_kfmt_world * N * N * N * N) + R))
    : gres ((go_kfmt_world * N * N * N * N * N) + R) :=
    match r with
    | GPanic => GPanic | GFuel => GFuel
    | GOk (inr r0) => GOk (inr r0)
    | GOk (inl st) => let '(wd, be, ai, ch, pad) := st in
        gloop F step6 (wd, gw 64 (be + 1), gw 64 (be + 1), ai, ch, pad)
    end.

  Lemma Sbe be : (be <= S (length fmt))%nat -> gw 64 (N.of_nat be + 1) = N.of_nat (S be).
  Proof. intros H. unfold two62 in Hfl. rewrite gw64_small' by (rewrite two64_lit; lia). lia. Qed.

  Lemma Sai ai : (ai <= length gargs)%nat -> gw 64 (N.of_nat ai + 1) = N.of_nat (S ai).
  Proof. intros H. unfold two62 in Hal. rewrite gw64_small' by (rewrite two64_lit; lia). lia. Qed.

  Lemma scan_sim : forall f,
    (forall bs be ai buf cs buf' tr x ch pad F,
       scan fmt args f None bs be ai buf = Ok (cs, buf') ->
       (bs <= be)%nat -> (be <= S (length fmt))%nat -> (bs = be \/ be <= length fmt)%nat -> (ai <= length gargs)%nat ->
       buf_ok buf -> (length (List.concat cs) < FU)%nat -> (S (length fmt) - be < F)%nat ->
       exists y, fp_post FU w fmt gargs (gloop F step6 (mkw tr buf [x], N.of_nat be, N.of_nat bs, N.of_nat ai, ch, pad))
                 = GOk (mkw (pushed w cs tr) buf' [y], tt)) /\
    (forall bs be ai buf cs buf' tr x ch p G F,
       scan fmt args f (Some (sz p)) bs be ai buf = Ok (cs, buf') ->
       p < 2 ^ 64 -> (be <= length fmt)%nat -> (ai <= length gargs)%nat ->
       buf_ok buf -> (length (List.concat cs) < FU)%nat -> (S (length fmt) - be < G)%nat -> (S (length fmt) - be < F)%nat ->
       exists y, fp_post FU w fmt gargs
                   (inner_k F (gloop G (step3 (N.of_nat bs)) (mkw tr buf [x], N.of_nat be, N.of_nat ai, ch, p)))
                 = GOk (mkw (pushed w cs tr) buf' [y], tt)).
  Proof.
    pose proof Hfl as Hfl'. pose proof Hal as Hal'. unfold two62 in Hfl', Hal'.
    induction f as [|f [IHn IHs]]; (split; [intros bs be ai buf cs buf' tr x ch pad F H | intros bs be ai buf cs buf' tr x ch p G F H]);
      try discriminate; cbn [scan] in H.
    - (* the head of the outer loop *)
      intros Hbs Hbe Hbe' Hai Hb Hout HF. destruct F as [|F]; [lia|].
      revert H. rewrite gloop_S. unfold go_kfmt_Fprintf_loop6 at 1. cbv beta iota zeta.
      rewrite gslt_small by (rewrite two63_lit; unfold glen; lia). unfold glen at 1.
      destruct (Nat.ltb_spec be (length fmt)) as [Hlt|Hge];
        destruct (N.ltb_spec (N.of_nat be) (N.of_nat (length fmt))) as [Hlt'|Hge']; try lia.
      2:{ (* the format is exhausted *)
          intros H. eapply finish_sim; eauto; lia. }
      unfold fget. destruct (nth_error fmt be) as [c|] eqn:Ec; [|discriminate]. cbn [bind].
      rewrite gidxs_small by (rewrite two63_lit; lia). unfold gidx. rewrite Nat2N.id, Ec.
      destruct (N.eqb_spec c 37) as [->|Hc]; cbn [negb].
      + (* '%': flush the pending literal block, enter the inner loop *)
        rewrite loop5_is_loop3. rewrite Sbe by lia. change (gw 64 0) with 0.
        rewrite gslt_small by (rewrite two63_lit; lia).
        destruct (Nat.ltb_spec bs be) as [Hb1|Hb1]; destruct (N.ltb_spec (N.of_nat bs) (N.of_nat be)) as [Hb2|Hb2]; try lia.
        * destruct (write_block fmt (be - bs) bs) as [blk| |] eqn:Ew; cbn [bind]; try discriminate.
          destruct (scan fmt args f (Some 0%Z) bs (S be) ai buf) as [[cs1 buf1]| |] eqn:Es; cbn [bind]; try discriminate.
          intros HH. injection HH as <- <-. cbn [fst snd] in *.
          destruct (block_sim w fmt gargs (N.of_nat bs) (glen fmt) (N.of_nat ai) 37 pad buf Hfl (be - bs) bs tr x FU blk Ew
                      ltac:(lia) ltac:(lia)) as [y1 Hy1].
          replace (bs + (be - bs))%nat with be in Hy1 by lia. rewrite Hy1. cbv beta iota.
          change 0%Z with (sz 0) in Es.
          destruct (IHs bs (S be) ai buf cs1 buf1 (pushed w blk tr) y1 37 0 FU F Es ltac:(reflexivity) ltac:(lia) Hai Hb
                      ltac:(rewrite concat_app, app_length in Hout; lia) ltac:(lia) ltac:(lia)) as [y Hy].
          exists y. rewrite pushed_app. revert Hy.
          generalize (gloop FU (step3 (N.of_nat bs)) (mkw (pushed w blk tr) buf [y1], N.of_nat (S be), N.of_nat ai, 37, 0)).
          intros r Hr. destruct r as [[[[[[wd1 be1] ai1] ch1] pad1]|r0]| |]; exact Hr.
        * cbn [bind]. destruct (scan fmt args f (Some 0%Z) bs (S be) ai buf) as [[cs1 buf1]| |] eqn:Es; cbn [bind]; try discriminate.
          intros HH. injection HH as <- <-. cbn [fst snd app] in *.
          change 0%Z with (sz 0) in Es.
          destruct (IHs bs (S be) ai buf cs1 buf1 tr x 37 0 FU F Es ltac:(reflexivity) ltac:(lia) Hai Hb
                      Hout ltac:(lia) ltac:(lia)) as [y Hy].
          exists y. revert Hy.
          generalize (gloop FU (step3 (N.of_nat bs)) (mkw tr buf [x], N.of_nat (S be), N.of_nat ai, 37, 0)).
          intros r Hr. destruct r as [[[[[[wd1 be1] ai1] ch1] pad1]|r0]| |]; exact Hr.
      + (* a literal byte *)
        destruct (N.eqb_spec c 37); [contradiction|]. cbn [negb]. rewrite Sbe by lia.
        intros H. apply (IHn bs (S be) ai buf cs buf' tr x c pad F H); try assumption; lia.
    - (* the head of the labelled inner loop *)
      intros Hp Hbe Hai Hb Hout HG HF. destruct G as [|G]; [lia|].
      revert H. rewrite gloop_S. unfold go_kfmt_Fprintf_loop3 at 1. cbv beta iota zeta.
      rewrite gslt_small by (rewrite two63_lit; unfold glen; lia). unfold glen at 1.
      destruct (Nat.ltb_spec be (length fmt)) as [Hlt|Hge];
        destruct (N.ltb_spec (N.of_nat be) (N.of_nat (length fmt))) as [Hlt'|Hge']; try lia.
      2:{ (* the format ends inside a verb: leave the inner loop *)
          intros H. cbn [inner_k]. rewrite Sbe by lia.
          apply (IHn (S be) (S be) ai buf cs buf' tr x ch p F H); try assumption; lia. }
      unfold fget. destruct (nth_error fmt be) as [c|] eqn:Ec; [|discriminate]. cbn [bind].
      rewrite gidxs_small by (rewrite two63_lit; lia). unfold gidx. rewrite Nat2N.id, Ec.
      destruct (N.eqb_spec c 37) as [->|Hc].
      + (* "%%" *)
        rewrite single_ok. cbn [bind]. wsimp. change (gset [x] 0 (gw 8 37)) with (Some [37]). cbv beta iota. wsimp.
        destruct (scan fmt args f None (S be) (S be) ai buf) as [[cs1 buf1]| |] eqn:Es; cbn [bind]; try discriminate.
        intros HH. injection HH as <- <-. cbn [fst snd] in *. cbn [inner_k]. rewrite Sbe by lia.
        destruct (IHn (S be) (S be) ai buf cs1 buf1 (ev w [37] :: tr) 37 37 p F Es ltac:(lia) ltac:(lia) ltac:(lia) Hai Hb
                    ltac:(cbn [List.concat app length] in Hout; lia) ltac:(lia)) as [y Hy].
        exists y. rewrite pushed_cons. exact Hy.
      + unfold is_digit, is_verb.
        destruct ((48 <=? c) && (c <=? 57)) eqn:Ed.
        * (* a width digit *)
          destruct (pad_digit p c Hp) as [Hp' Hpz]. cbv zeta in Hp', Hpz. rewrite <- Hpz. rewrite Sbe by lia.
          intros H. apply (IHs bs (S be) ai buf cs buf' tr x c _ G F H); try assumption; lia.
        * destruct (((((c =? 100) || (c =? 120)) || (c =? 111)) || (c =? 115)) || (c =? 116)) eqn:Ev.
          -- (* a verb *)
             rewrite gsle_small by (rewrite two63_lit; unfold glenA; lia). unfold glenA.
             rewrite nth_error_map.
             destruct (nth_error gargs ai) as [g|] eqn:Eg; cbn [option_map].
             ++ assert (Hai' : (ai < length gargs)%nat) by (apply nth_error_Some; congruence).
                destruct (N.leb_spec (N.of_nat (length gargs)) (N.of_nat ai)); [lia|].
                destruct (do_verb c (of_gany g) (sz p) buf) as [o| |] eqn:Eo; cbn [bind]; try discriminate.
                destruct (scan fmt args f None (S be) (S be) (S ai) (snd o)) as [[cs1 buf1]| |] eqn:Es; cbn [bind]; try discriminate.
                intros HH. injection HH as <- <-. cbn [fst snd] in *.
                assert (Hg : gany_wf g) by (eapply Forall_forall; [exact Hwf|eapply nth_error_In; exact Eg]).
                assert (Hs : str_ok g) by (eapply Forall_forall; [exact Hso|eapply nth_error_In; exact Eg]).
                destruct (verb_sim FU w c tr buf x g p o Hb Hg Hs Hp HF34 Eo
                            ltac:(rewrite concat_app, app_length in Hout; lia)) as [y1 [V Hb1]].
                destruct (IHn (S be) (S be) (S ai) (snd o) cs1 buf1 (pushed w (fst o) tr) y1 c p F Es
                            ltac:(lia) ltac:(lia) ltac:(lia) ltac:(lia) Hb1
                            ltac:(rewrite concat_app, app_length in Hout; lia) ltac:(lia)) as [y Hy].
                exists y. rewrite pushed_app.
                rewrite gidxsA_small_some with (a := g) by (try exact Eg; lia).
                unfold verb_call in V. revert V.
                destruct (c =? 111); [intros V; rewrite V; cbn [inner_k]; rewrite Sbe, Sai by lia; exact Hy|].
                destruct (c =? 100); [intros V; rewrite V; cbn [inner_k]; rewrite Sbe, Sai by lia; exact Hy|].
                destruct (c =? 120); [intros V; rewrite V; cbn [inner_k]; rewrite Sbe, Sai by lia; exact Hy|].
                destruct (c =? 115); [intros V; rewrite V; cbn [inner_k]; rewrite Sbe, Sai by lia; exact Hy|].
                destruct (c =? 116); [intros V; rewrite V; cbn [inner_k]; rewrite Sbe, Sai by lia; exact Hy|].
                discriminate Ev.
             ++ assert (Hai' : (length gargs <= ai)%nat) by (apply nth_error_None; exact Eg).
                destruct (N.leb_spec (N.of_nat (length gargs)) (N.of_nat ai)); [|lia].
                destruct (scan fmt args f None (S be) (S be) ai buf) as [[cs1 buf1]| |] eqn:Es; cbn [bind]; try discriminate.
                intros HH. injection HH as <- <-. cbn [fst snd] in *. wsimp. cbn [inner_k]. rewrite Sbe by lia.
                destruct (IHn (S be) (S be) ai buf cs1 buf1 (ev w kfmt_errMissingArg :: tr) x c p F Es
                            ltac:(lia) ltac:(lia) ltac:(lia) Hai Hb
                            ltac:(cbn [List.concat] in Hout; rewrite app_length in Hout; lia) ltac:(lia)) as [y Hy].
                exists y. rewrite pushed_cons. exact Hy.
          -- (* neither: the no-verb marker, go on scanning *)
             destruct (scan fmt args f (Some (sz p)) bs (S be) ai buf) as [[cs1 buf1]| |] eqn:Es; cbn [bind]; try discriminate.
             intros HH. injection HH as <- <-. cbn [fst snd] in *. wsimp. rewrite Sbe by lia.
             destruct (IHs bs (S be) ai buf cs1 buf1 (ev w kfmt_errNoVerb :: tr) x c p G F Es Hp ltac:(lia) Hai Hb
                         ltac:(cbn [List.concat] in Hout; rewrite app_length in Hout; lia) ltac:(lia) ltac:(lia)) as [y Hy].
             exists y. rewrite pushed_cons. exact Hy.
  Qed.
End ScanSim.

(** ---- Fprintf ---- *)
Theorem fprintf_is_translation w tr buf x fmt gargs :
  length buf = N.to_nat kfmt_numFmtBufLen ->
  N.of_nat (length fmt) < 4611686018427387904 -> N.of_nat (length gargs) < 4611686018427387904 ->
  Forall gany_wf gargs -> Forall str_ok gargs ->
  exists cs buf',
    fprintf fmt (map of_gany gargs) buf = Ok (cs, buf') /\
    forall FU, (length fmt + length gargs + length (List.concat cs) + 34 < FU)%nat ->
      exists y,
        go_kfmt_Fprintf FU (mk_go_kfmt_world tr buf [x]) w fmt gargs
          = GOk (mk_go_kfmt_world (pushed w cs tr) buf' [y], tt).
Proof.
  intros Hb Hfl Hal Hwf Hso.
  destruct (fprintf_never_panics fmt (map of_gany gargs) buf Hb) as [[cs buf'] E].
  exists cs, buf'. split; [exact E|].
  intros FU HFU. unfold fprintf in E.
  assert (Hfl' : (length fmt < N.to_nat two62)%nat) by (unfold two62; lia).
  assert (Hal' : (length gargs < N.to_nat two62)%nat) by (unfold two62; lia).
  destruct (scan_sim FU w fmt gargs Hfl' Hal' ltac:(lia) ltac:(lia) ltac:(lia) Hwf Hso (S (S (length fmt)))) as [Sn _].
  destruct (Sn 0%nat 0%nat 0%nat buf cs buf' tr x 0 0 FU E ltac:(lia) ltac:(lia) ltac:(lia) ltac:(lia) Hb ltac:(lia) ltac:(lia))
    as [y Hy].
  exists y. rewrite fprintf_unfold. exact Hy.
Qed.

(** the bytes-only corollary: the concatenation of the bytes of the doWrite events is the model's output *)
Theorem fprintf_translation_bytes w tr buf x fmt gargs :
  length buf = N.to_nat kfmt_numFmtBufLen ->
  N.of_nat (length fmt) < 4611686018427387904 -> N.of_nat (length gargs) < 4611686018427387904 ->
  Forall gany_wf gargs -> Forall str_ok gargs ->
  exists out,
    written (fprintf fmt (map of_gany gargs) buf) = Ok out /\
    forall FU, (length fmt + length gargs + length out + 34 < FU)%nat ->
      exists tr' buf' y,
        go_kfmt_Fprintf FU (mk_go_kfmt_world tr buf [x]) w fmt gargs = GOk (mk_go_kfmt_world tr' buf' [y], tt) /\
        trace_bytes tr' = trace_bytes tr ++ out.
Proof.
  intros Hb Hfl Hal Hwf Hso.
  destruct (fprintf_is_translation w tr buf x fmt gargs Hb Hfl Hal Hwf Hso) as [cs [buf' [E T]]].
  exists (List.concat cs). split; [unfold written; rewrite E; reflexivity|].
  intros FU HFU. destruct (T FU HFU) as [y Hy].
  exists (pushed w cs tr), buf', y. split; [exact Hy|apply trace_bytes_pushed].
Qed.

(** ---- with C15_fprintf_exact: what the translated Fprintf writes for a well-formed format ---- *)
Lemma of_gany_in_range g : gany_wf g ->
  match of_gany g with AInt k v => in_range k v | _ => True end.
Proof.
  destruct g as [n|n|n|n|n|n|n|n|n|n|b|s|s|]; cbn [gany_wf of_gany]; intros H; try exact I;
    unfold in_range, sgn; cbn [signed bits];
    repeat match goal with
           | |- context [(2 ^ ?e)%Z] => let v := eval vm_compute in (2 ^ e)%Z in change (2 ^ e)%Z with v
           | |- context [2 ^ ?e] => let v := eval vm_compute in (2 ^ e) in change (2 ^ e) with v
           | H : context [2 ^ ?e] |- _ => let v := eval vm_compute in (2 ^ e) in change (2 ^ e) with v in H
           end;
    try match goal with |- context [?a <? ?b] => destruct (N.ltb_spec a b) end; cbn [Z.of_N]; lia.
Qed.

Theorem fprintf_trans_render w tr buf x ps gargs :
  length buf = N.to_nat kfmt_numFmtBufLen ->
  N.of_nat (length (encode ps)) < 4611686018427387904 -> N.of_nat (length gargs) < 4611686018427387904 ->
  Forall piece_wf ps -> Forall gany_wf gargs ->
  Forall (fun g => match g with GAStr s | GABytes s => glen s < 4611686018427387904 | _ => True end) gargs ->
  exists cs buf',
    fprintf (encode ps) (map of_gany gargs) buf = Ok (cs, buf') /\
    List.concat cs = render ps (map of_gany gargs) /\
    forall FU, (length (encode ps) + length gargs + length (render ps (map of_gany gargs)) + 34 < FU)%nat ->
      exists y,
        go_kfmt_Fprintf FU (mk_go_kfmt_world tr buf [x]) w (encode ps) gargs
          = GOk (mk_go_kfmt_world (pushed w cs tr) buf' [y], tt).
Proof.
  intros Hb Hfl Hal Hps Hwf Hstr.
  assert (Hso : Forall str_ok gargs).
  { apply Forall_forall. intros g Hg. pose proof (proj1 (Forall_forall _ _) Hstr g Hg) as S.
    destruct g; try exact I; cbn [str_ok]; lia. }
  assert (Hok : Forall arg_ok (map of_gany gargs)).
  { apply Forall_forall. intros a Ha. apply in_map_iff in Ha. destruct Ha as [g [<- Hg]].
    pose proof (proj1 (Forall_forall _ _) Hwf g Hg) as W. apply of_gany_in_range in W.
    pose proof (proj1 (Forall_forall _ _) Hstr g Hg) as S.
    destruct g; cbn [of_gany arg_ok] in *; try exact W; try exact I; unfold glen in S;
      change (2 ^ 62)%Z with 4611686018427387904%Z; lia. }
  destruct (fprintf_is_translation w tr buf x (encode ps) gargs Hb Hfl Hal Hwf Hso) as [cs [buf' [E T]]].
  pose proof (fprintf_exact_written ps (map of_gany gargs) buf Hps Hok Hb) as R.
  unfold written in R. rewrite E in R. cbn [bind fst] in R. injection R as R.
  exists cs, buf'. split; [exact E|]. split; [exact R|].
  intros FU HFU. apply T. rewrite R. exact HFU.
Qed.
