(** Proofs about the PrefixWriter model (Kfmt/Prefix.v): the byte stream reaching the sink is the
    text with the prefix in front of every line, however the text is cut into Write calls. *)
From Coq Require Import NArith ZArith List Bool Lia.
From FF Require Import Lib.Word Gen.Consts_kfmt Kfmt.Fmt Kfmt.Prefix.
Import ListNotations.
Local Open Scope N_scope.

Lemma pw_loop_spec prefix rest : forall seg bap,
  concat (fst (pw_loop prefix seg rest bap)) = seg ++ inject prefix false rest /\
  (snd (pw_loop prefix seg rest bap) =? 0) = ends_line (match seg with [] => (bap =? 0) | _ => false end) rest.
Proof.
  induction rest as [|c rest IH]; intros seg bap.
  - cbn [pw_loop inject ends_line]. destruct seg as [|x seg].
    + split; reflexivity.
    + cbn [fst snd concat]. rewrite !app_nil_r. split; [reflexivity|]. cbn [length]. destruct (N.of_nat (S (length seg))) eqn:E; [lia|reflexivity].
  - cbn [pw_loop inject ends_line]. destruct (c =? 10) eqn:Ec.
    + destruct (pw_loop prefix [] rest 0) as [o b] eqn:El.
      destruct (IH [] 0) as [I1 I2]. rewrite El in I1, I2. cbn [fst snd] in *.
      split; [|exact I2].
      cbn [concat app]. rewrite concat_app, I1. cbn [app]. rewrite <- app_assoc. cbn [app]. f_equal. f_equal.
      destruct rest as [|c' rest']; cbn [concat inject app]; [reflexivity|]. rewrite app_nil_r. reflexivity.
    + destruct (IH (seg ++ [c]) bap) as [I1 I2]. split.
      * rewrite I1, <- app_assoc. reflexivity.
      * rewrite I2. destruct seg; reflexivity.
Qed.

Lemma prefix_write_spec prefix bap p :
  concat (fst (prefix_write prefix bap p)) = inject prefix (bap =? 0) p /\
  (snd (prefix_write prefix bap p) =? 0) = ends_line (bap =? 0) p.
Proof.
  unfold prefix_write. destruct (pw_loop prefix [] p bap) as [o b] eqn:El.
  destruct (pw_loop_spec prefix p [] bap) as [I1 I2]. rewrite El in I1, I2. cbn [fst snd app] in *.
  split; [|exact I2]. rewrite concat_app, I1.
  destruct p as [|c r]; cbn [inject]; [rewrite andb_false_r; reflexivity|].
  rewrite andb_true_r. destruct (bap =? 0); cbn [concat app]; rewrite ?app_nil_r; reflexivity.
Qed.

Lemma ends_line_app x : forall b y, ends_line b (x ++ y) = ends_line (ends_line b x) y.
Proof. induction x as [|c x IH]; intros b y; [reflexivity|]. cbn [app ends_line]. apply IH. Qed.

Lemma inject_app prefix x : forall b y,
  inject prefix b (x ++ y) = inject prefix b x ++ inject prefix (ends_line b x) y.
Proof.
  induction x as [|c x IH]; intros b y; [reflexivity|]. cbn [app inject ends_line].
  rewrite IH, <- app_assoc. reflexivity.
Qed.

Lemma prefix_writes_spec prefix ps : forall bap,
  concat (fst (prefix_writes prefix bap ps)) = inject prefix (bap =? 0) (concat ps) /\
  (snd (prefix_writes prefix bap ps) =? 0) = ends_line (bap =? 0) (concat ps).
Proof.
  induction ps as [|p ps IH]; intros bap; [split; reflexivity|].
  cbn [prefix_writes concat]. destruct (prefix_write prefix bap p) as [o1 b1] eqn:E1.
  destruct (prefix_writes prefix b1 ps) as [o2 b2] eqn:E2.
  destruct (prefix_write_spec prefix bap p) as [P1 P2]. rewrite E1 in P1, P2.
  destruct (IH b1) as [Q1 Q2]. rewrite E2 in Q1, Q2. cbn [fst snd] in *.
  rewrite concat_app, inject_app, ends_line_app, P1, Q1, Q2, P2. split; reflexivity.
Qed.

(** chunking independence *)
Lemma prefix_stream_chunking prefix bap ps ps' :
  concat ps = concat ps' ->
  concat (fst (prefix_writes prefix bap ps)) = concat (fst (prefix_writes prefix bap ps')).
Proof.
  intros H. destruct (prefix_writes_spec prefix ps bap) as [A _]. destruct (prefix_writes_spec prefix ps' bap) as [B _].
  rewrite A, B, H. reflexivity.
Qed.
