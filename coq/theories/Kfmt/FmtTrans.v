(** The hand-written model of kernel/kfmt/fmt.go (Kfmt/Fmt.v: [fmt_repeat], [fmt_bool], [fmt_string], [fmt_int])
    against the Gallina translation that gen/gotrans regenerates from fmt.go on every run (Gen/Trans_kfmt_fmt.v).

    In the translation the package-level buffers numFmtBuf / singleByte are fields of the record [go_kfmt_world],
    an interface{} value is a [gany] (Lib/GoOpsFmt.v), Go's int / int64 are their two's complement representatives in
    [0, 2^64), and every call [doWrite(w, p)] is the event [GCall "doWrite" [GNum (gref w); GBytes p]] pushed on the
    world's trace (most recent first).  The model computes on Z and returns the list of chunks written.

    Shape of the lemmas: whenever the model's run ends with [Ok] (which Kfmt/FmtProofs.v proves for every input), the
    translated function, with enough fuel, returns [GOk], has pushed exactly the model's chunks as doWrite events, in
    order, and leaves the model's numFmtBuf. *)
From Coq Require Import NArith ZArith String List Bool Lia.
From Coq Require Import ZifyBool ZifyN ZifyNat.
From FF Require Import Lib.Word Lib.GoOps Lib.GoOpsExt Lib.GoOpsFmt Gen.Consts_kfmt Gen.Trans_kfmt_fmt.
From FF Require Import Kfmt.Fmt Kfmt.FmtSpec Kfmt.FmtProofs Kfmt.FmtScanProofs.
Import ListNotations.
Local Open Scope N_scope.
Ltac Zify.zify_post_hook ::= Z.div_mod_to_equations.

(** ---- representations ---- *)
(** the Go int denoted by a two's complement representative *)
Definition sz (p : N) : Z :=
  if p <? 9223372036854775808 then Z.of_N p else (Z.of_N p - 18446744073709551616)%Z.
(** the representative of a Go int *)
Definition zi (z : Z) : N := Z.to_N (z mod 18446744073709551616).

Definition mkw (tr : list gcall) (buf sb : list N) : go_kfmt_world := mk_go_kfmt_world tr buf sb.
Definition ev (w : bool) (c : chunk) : gcall := GCall "doWrite" [GNum (gref w); GBytes c].
(** the trace after the chunks [cs] were written (most recent first) *)
Definition pushed (w : bool) (cs : list chunk) (tr : list gcall) : list gcall := rev (map (ev w) cs) ++ tr.

Ltac wsimp :=
  cbn [f_world_trace f_world_numFmtBuf f_world_singleByte set_f_world_trace set_f_world_numFmtBuf
       set_f_world_singleByte mkw].

Lemma two64_lit : 2 ^ 64 = 18446744073709551616. Proof. reflexivity. Qed.
Lemma two63_lit : two63 = 9223372036854775808. Proof. reflexivity. Qed.

Lemma gslt_sz a b : a < 2 ^ 64 -> b < 2 ^ 64 -> gslt 64 a b = (sz a <? sz b)%Z.
Proof.
  rewrite two64_lit. intros Ha Hb. unfold gslt. rewrite !gsbias64. unfold sz.
  destruct (N.ltb_spec a 9223372036854775808); destruct (N.ltb_spec b 9223372036854775808);
    match goal with |- (?x <? ?y) = (?u <? ?v)%Z => destruct (N.ltb_spec x y); destruct (Z.ltb_spec u v) end;
    try reflexivity; lia.
Qed.

Lemma gsle_sz a b : a < 2 ^ 64 -> b < 2 ^ 64 -> gsle 64 a b = (sz a <=? sz b)%Z.
Proof.
  rewrite two64_lit. intros Ha Hb. unfold gsle. rewrite !gsbias64. unfold sz.
  destruct (N.ltb_spec a 9223372036854775808); destruct (N.ltb_spec b 9223372036854775808);
    match goal with |- (?x <=? ?y) = (?u <=? ?v)%Z => destruct (N.leb_spec x y); destruct (Z.leb_spec u v) end;
    try reflexivity; lia.
Qed.

Lemma sz_small p : p < 9223372036854775808 -> sz p = Z.of_N p.
Proof. intros H. unfold sz. destruct (N.ltb_spec p 9223372036854775808); [reflexivity|lia]. Qed.

Lemma sz_zi z : (- 9223372036854775808 <= z < 9223372036854775808)%Z -> sz (zi z) = z.
Proof.
  intros H. unfold sz, zi.
  destruct (N.ltb_spec (Z.to_N (z mod 18446744073709551616)) 9223372036854775808); lia.
Qed.

Lemma zi_lt z : zi z < 2 ^ 64.
Proof. rewrite two64_lit. unfold zi. lia. Qed.

Lemma zi_small z : (0 <= z < 18446744073709551616)%Z -> zi z = Z.to_N z.
Proof. intros H. unfold zi. rewrite Z.mod_small by lia. reflexivity. Qed.

(** ---- buffer accesses: the model's bounds-checked operations and the translation's ---- *)
Lemma bset_gsets buf r v b : r < 9223372036854775808 ->
  bset buf (Z.of_N r) v = Ok b -> gsets 64 buf r v = Some b.
Proof.
  intros Hr. rewrite gsets_small by (rewrite two63_lit; exact Hr). unfold bset, gset, glen.
  destruct (Z.ltb_spec (Z.of_N r) 0); [lia|]. replace (Z.to_nat (Z.of_N r)) with (N.to_nat r) by lia.
  destruct (Nat.ltb_spec (N.to_nat r) (length buf)); [|discriminate].
  intros E. injection E as <-. destruct (N.ltb_spec r (N.of_nat (length buf))); [reflexivity|lia].
Qed.

Lemma bget_gidxs buf r c : r < 9223372036854775808 ->
  bget buf (Z.of_N r) = Ok c -> gidxs 64 buf r = Some c.
Proof.
  intros Hr. rewrite gidxs_small by (rewrite two63_lit; exact Hr). unfold bget, gidx.
  destruct (Z.ltb_spec (Z.of_N r) 0); [lia|]. replace (Z.to_nat (Z.of_N r)) with (N.to_nat r) by lia.
  destruct (nth_error buf (N.to_nat r)); [|discriminate]. intros E. injection E as <-. reflexivity.
Qed.

Lemma bset_len buf i v b : bset buf i v = Ok b -> length b = length buf /\ (0 <= i < Z.of_nat (length buf))%Z.
Proof.
  unfold bset. destruct (Z.ltb_spec i 0); [discriminate|].
  destruct (Nat.ltb_spec (Z.to_nat i) (length buf)); [|discriminate].
  intros E. injection E as <-. split; [apply upd_length; exact H0|lia].
Qed.

Lemma bget_range buf i c : bget buf i = Ok c -> (0 <= i < Z.of_nat (length buf))%Z.
Proof.
  unfold bget. destruct (Z.ltb_spec i 0); [discriminate|].
  destruct (nth_error buf (Z.to_nat i)) eqn:E; [|discriminate]. intros _.
  assert (Z.to_nat i < length buf)%nat by (apply nth_error_Some; congruence). lia.
Qed.

Lemma bslice_gslices buf e o : e < 9223372036854775808 ->
  bslice buf (Z.of_N e) = Ok o -> gslices 64 buf 0 e = Some o.
Proof.
  intros He. rewrite gslices_small by (rewrite two63_lit; lia). unfold bslice, gslice, glen.
  destruct (Z.ltb_spec (Z.of_N e) 0); [lia|]. replace (Z.to_nat (Z.of_N e)) with (N.to_nat e) by lia.
  destruct (Nat.leb_spec (N.to_nat e) (length buf)); [|discriminate].
  intros E. injection E as <-.
  destruct (N.leb_spec 0 e); [|lia]. destruct (N.leb_spec e (N.of_nat (length buf))); [|lia].
  cbn [andb skipn N.to_nat]. rewrite N.sub_0_r. reflexivity.
Qed.

(** ---- fmtInt: the four loops ---- *)
Definition buf_ok (buf : list N) : Prop := length buf = buf_len.

Lemma buf_len_33 : buf_len = 33%nat. Proof. reflexivity. Qed.

(** [for right < maxBufSize { .. }]: the digits, least significant first *)
Lemma digit_sim base dv e l pc pl sv g w tr sb : forall f buf r uval rem buf' r',
  buf_ok buf -> r <= 33 -> uval < 2 ^ 64 ->
  digit_loop f dv buf (Z.of_N r) uval = Ok (buf', r') ->
  exists rem' uval',
    gloop f (go_kfmt_fmtInt_loop3 base dv e l pc pl sv g w) (mkw tr buf sb, rem, r, uval)
      = GOk (inl (mkw tr buf' sb, rem', Z.to_N r', uval')) /\ buf_ok buf' /\ (0 <= r' <= 33)%Z.
Proof.
  induction f as [|f IH]; intros buf r uval rem buf' r' Hb Hr Hu; [discriminate|].
  cbn [digit_loop]. rewrite gloop_S. unfold go_kfmt_fmtInt_loop3 at 1. cbv beta iota zeta. wsimp.
  rewrite gslt_small by (rewrite two63_lit; try reflexivity; lia).
  change maxBufSize with (Z.of_N kfmt_maxBufSize).
  assert (Hm : kfmt_maxBufSize = 32) by reflexivity.
  destruct (Z.ltb_spec (Z.of_N r) (Z.of_N kfmt_maxBufSize)) as [Hlt|Hge];
    destruct (N.ltb_spec r kfmt_maxBufSize) as [Hlt'|Hge']; try (exfalso; lia).
  2:{ intros E. injection E as <- <-. exists rem, uval. rewrite N2Z.id. split; [reflexivity|]. split; [exact Hb|lia]. }
  unfold gmod, gdiv. destruct (N.eqb_spec dv 0) as [Hd|Hd]; [discriminate|].
  assert (Hrem : uval mod dv < 2 ^ 64) by (pose proof (N.mod_le uval dv Hd); rewrite two64_lit in *; lia).
  destruct (bset buf (Z.of_N r) (digit_char (uval mod dv))) as [buf1| |] eqn:Eb; cbn [bind]; try discriminate.
  pose proof (bset_len _ _ _ _ Eb) as [Hl1 Hr1].
  apply bset_gsets in Eb; [|lia].
  assert (Hq : uval / dv < 2 ^ 64).
  { rewrite two64_lit in *. pose proof (N.div_le_upper_bound uval dv uval Hd). nia. }
  assert (Hdc : forall x, x = digit_char (uval mod dv) -> gsets 64 buf r x = Some buf1) by (intros x ->; exact Eb).
  rewrite (gw64_small' (r + 1)) by (rewrite two64_lit; lia).
  replace (Z.of_N r + 1)%Z with (Z.of_N (r + 1)) by lia.
  intros E.
  destruct (N.ltb_spec (uval mod dv) 10) as [Hd10|Hd10].
  - rewrite (Hdc (gw 8 (gw 8 (uval mod dv) + 48))).
    2:{ unfold digit_char. destruct (N.ltb_spec (uval mod dv) 10); [reflexivity|lia]. }
    wsimp. destruct (N.eqb_spec (uval / dv) 0) as [Hz|Hz].
    + injection E as <- <-. exists (uval mod dv), (uval / dv). rewrite N2Z.id.
      split; [reflexivity|]. split; [unfold buf_ok in *; lia|lia].
    + apply IH with (rem := uval mod dv) in E; [exact E|unfold buf_ok in *; lia| |exact Hq].
      unfold buf_ok in Hb. rewrite buf_len_33 in Hb. lia.
  - rewrite (Hdc (gw 8 (gw 8 (gsub 64 (uval mod dv) 10) + 97))).
    2:{ unfold digit_char. destruct (N.ltb_spec (uval mod dv) 10); [lia|].
        unfold gsub, gw, w8, two8. rewrite two64_lit in *. change (2 ^ 8) with 256. change (2 ^ 64) with 18446744073709551616.
        f_equal. f_equal. rewrite (N.mod_small 10) by lia.
        replace (uval mod dv + 18446744073709551616 - 10) with (uval mod dv - 10 + 1 * 18446744073709551616) by lia.
        rewrite N.mod_add by lia. rewrite (N.mod_small (uval mod dv - 10) 18446744073709551616) by lia. reflexivity. }
    wsimp. destruct (N.eqb_spec (uval / dv) 0) as [Hz|Hz].
    + injection E as <- <-. exists (uval mod dv), (uval / dv). rewrite N2Z.id.
      split; [reflexivity|]. split; [unfold buf_ok in *; lia|lia].
    + apply IH with (rem := uval mod dv) in E; [exact E|unfold buf_ok in *; lia| |exact Hq].
      unfold buf_ok in Hb. rewrite buf_len_33 in Hb. lia.
Qed.

Lemma gsub_zi a b : gsub 64 (zi a) (zi b) = zi (a - b).
Proof.
  unfold gsub, gw, zi. change (2 ^ 64) with 18446744073709551616.
  apply N2Z.inj. rewrite N2Z.inj_mod, N2Z.inj_sub, N2Z.inj_add, N2Z.inj_mod, !Z2N.id.
  - change (Z.of_N 18446744073709551616) with 18446744073709551616%Z.
    rewrite (Z.mod_small (b mod _)) by (apply Z.mod_pos_bound; lia).
    replace (a mod 18446744073709551616 + 18446744073709551616 - b mod 18446744073709551616)%Z
      with ((a mod 18446744073709551616 - b mod 18446744073709551616) + 1 * 18446744073709551616)%Z by lia.
    rewrite Z.mod_add by lia. symmetry. apply Zminus_mod.
  - apply Z.mod_pos_bound; lia.
  - apply Z.mod_pos_bound; lia.
  - apply Z.mod_pos_bound; lia.
  - pose proof (Z.mod_pos_bound b 18446744073709551616 ltac:(lia)).
    pose proof (Z.mod_pos_bound a 18446744073709551616 ltac:(lia)). lia.
Qed.

Lemma gadd_zi a b : gw 64 (zi a + zi b) = zi (a + b).
Proof.
  unfold gw, zi. change (2 ^ 64) with 18446744073709551616.
  apply N2Z.inj. rewrite N2Z.inj_mod, N2Z.inj_add, !Z2N.id; try (apply Z.mod_pos_bound; lia).
  change (Z.of_N 18446744073709551616) with 18446744073709551616%Z. symmetry. apply Zplus_mod.
Qed.

Lemma zi_of_N r : r < 2 ^ 64 -> zi (Z.of_N r) = r.
Proof. rewrite two64_lit. intros H. rewrite zi_small by lia. apply N2Z.id. Qed.

(** [for ; right-left < padLen; right++ { numFmtBuf[right] = padCh }] with left = 0 *)
Lemma pad_sim base dv e pc pl rem sv uv g w tr sb : forall f buf r buf' r',
  buf_ok buf -> r <= 33 -> pl < 2 ^ 64 ->
  pad_loop f buf (Z.of_N r) (sz pl) pc = Ok (buf', r') ->
  gloop f (go_kfmt_fmtInt_loop4 base dv e 0 pc pl rem sv uv g w) (mkw tr buf sb, r)
    = GOk (inl (mkw tr buf' sb, Z.to_N r')) /\ buf_ok buf' /\ (0 <= r' <= 33)%Z.
Proof.
  induction f as [|f IH]; intros buf r buf' r' Hb Hr Hp; [discriminate|].
  cbn [pad_loop]. rewrite gloop_S. unfold go_kfmt_fmtInt_loop4 at 1. cbv beta iota zeta. wsimp.
  assert (H0 : gsub 64 r 0 = r).
  { unfold gsub, gw. change (2 ^ 64) with 18446744073709551616. rewrite (N.mod_small 0) by lia.
    replace (r + 18446744073709551616 - 0) with (r + 1 * 18446744073709551616) by lia.
    rewrite N.mod_add by lia. apply N.mod_small. lia. }
  rewrite H0, gslt_sz by (try exact Hp; rewrite two64_lit; lia).
  rewrite (sz_small r) by lia. rewrite Z.sub_0_r.
  destruct (Z.ltb_spec (Z.of_N r) (sz pl)) as [Hlt|Hge].
  2:{ intros E. injection E as <- <-. rewrite N2Z.id. split; [reflexivity|]. split; [exact Hb|lia]. }
  destruct (bset buf (Z.of_N r) pc) as [buf1| |] eqn:Eb; cbn [bind]; try discriminate.
  pose proof (bset_len _ _ _ _ Eb) as [Hl1 Hr1]. apply bset_gsets in Eb; [|lia]. rewrite Eb. wsimp.
  unfold buf_ok in Hb. rewrite buf_len_33 in Hb.
  rewrite (gw64_small' (r + 1)) by (rewrite two64_lit; lia).
  replace (Z.of_N r + 1)%Z with (Z.of_N (r + 1)) by lia.
  intros E. apply IH in E; [exact E|unfold buf_ok; rewrite buf_len_33; lia|lia|exact Hp].
Qed.

(** [for end = right - 1; numFmtBuf[end] == ' '; end-- {}] *)
Lemma sign_sim base dv l pc pl rem r0 sv uv g w tr sb : forall f buf e e',
  buf_ok buf -> (-1 <= e <= 33)%Z ->
  sign_search f buf e = Ok e' ->
  gloop f (go_kfmt_fmtInt_loop5 base dv l pc pl rem r0 sv uv g w) (mkw tr buf sb, zi e)
    = GOk (inl (mkw tr buf sb, zi e')) /\ (0 <= e' <= e)%Z.
Proof.
  induction f as [|f IH]; intros buf e e' Hb He; [discriminate|].
  cbn [sign_search]. rewrite gloop_S. unfold go_kfmt_fmtInt_loop5 at 1. cbv beta iota zeta. wsimp.
  destruct (bget buf e) as [c| |] eqn:Eg; cbn [bind]; try discriminate.
  pose proof (bget_range _ _ _ Eg) as Hr. 
  rewrite (zi_small e) by lia. rewrite <- (Z2N.id e) in Eg by lia.
  apply bget_gidxs in Eg; [|lia]. rewrite Eg.
  destruct (N.eqb_spec c 32) as [Hc|Hc].
  - intros E. change 1 with (zi 1) at 1. rewrite <- (zi_small e) by lia. rewrite gsub_zi.
    apply IH in E; [|exact Hb|lia]. destruct E as [E1 E2]. split; [exact E1|lia].
  - intros E. injection E as <-. rewrite <- (zi_small e) by lia. split; [reflexivity|lia].
Qed.

(** [for right = right - 1; left < right; left, right = left+1, right-1 { swap }] *)
Lemma rev_sim base dv e pc pl rem sv uv g w tr sb : forall f buf l r buf',
  buf_ok buf -> (0 <= l <= 34)%Z -> (-1 <= r <= 33)%Z ->
  reverse_loop f buf l r = Ok buf' ->
  exists l' r',
    gloop f (go_kfmt_fmtInt_loop6 base dv e pc pl rem sv uv g w) (mkw tr buf sb, zi l, zi r)
      = GOk (inl (mkw tr buf' sb, l', r')) /\ buf_ok buf'.
Proof.
  induction f as [|f IH]; intros buf l r buf' Hb Hl Hr; [discriminate|].
  cbn [reverse_loop]. rewrite gloop_S. unfold go_kfmt_fmtInt_loop6 at 1. cbv beta iota zeta. wsimp.
  rewrite gslt_sz by apply zi_lt. rewrite !sz_zi by lia.
  destruct (Z.ltb_spec l r) as [Hlt|Hge].
  2:{ intros E. injection E as <-. exists (zi l), (zi r). split; [reflexivity|exact Hb]. }
  destruct (bget buf l) as [a| |] eqn:Ea; cbn [bind]; try discriminate.
  destruct (bget buf r) as [b| |] eqn:Eb; cbn [bind]; try discriminate.
  destruct (bset buf l b) as [buf1| |] eqn:E1; cbn [bind]; try discriminate.
  destruct (bset buf1 r a) as [buf2| |] eqn:E2; cbn [bind]; try discriminate.
  pose proof (bset_len _ _ _ _ E1) as [L1 _]. pose proof (bset_len _ _ _ _ E2) as [L2 _].
  rewrite (zi_small l), (zi_small r) by lia.
  rewrite <- (Z2N.id l) in Ea, E1 by lia. rewrite <- (Z2N.id r) in Eb, E2 by lia.
  apply bget_gidxs in Ea; [|lia]. apply bget_gidxs in Eb; [|lia].
  apply bset_gsets in E1; [|lia]. apply bset_gsets in E2; [|lia].
  rewrite Eb, Ea, E1. wsimp. rewrite E2. wsimp.
  rewrite <- (zi_small l), <- (zi_small r) by lia.
  change 1 with (zi 1). rewrite gadd_zi, gsub_zi.
  intros E. apply IH in E; [exact E|unfold buf_ok in *; lia|lia|lia].
Qed.

Lemma loop7_is_loop6 : go_kfmt_fmtInt_loop7 = go_kfmt_fmtInt_loop6.
Proof. reflexivity. Qed.

Lemma gloop_fuel_ok {St R} (step : St -> gres (gctl St R)) f1 f2 s r :
  gloop f1 step s = GOk r -> (f1 <= f2)%nat -> gloop f2 step s = GOk r.
Proof. intros H Hle. rewrite (gloop_more_fuel step f1 s f2 Hle); [exact H|rewrite H; discriminate]. Qed.

Lemma zi_sz s : s < 2 ^ 64 -> zi (sz s) = s.
Proof.
  rewrite two64_lit. intros H. unfold zi, sz.
  destruct (N.ltb_spec s 9223372036854775808).
  - rewrite Z.mod_small by lia. apply N2Z.id.
  - replace (Z.of_N s - 18446744073709551616)%Z with (Z.of_N s + (-1) * 18446744073709551616)%Z by lia.
    rewrite Z.mod_add by lia. rewrite Z.mod_small by lia. apply N2Z.id.
Qed.

Lemma zi_inj a b : (-1 <= a <= 40)%Z -> (-1 <= b <= 40)%Z -> (zi a =? zi b) = (a =? b)%Z.
Proof.
  intros Ha Hb. destruct (Z.eqb_spec a b) as [->|Hne]; [apply N.eqb_refl|].
  apply N.eqb_neq. intros E. apply Hne. rewrite <- (sz_zi a), <- (sz_zi b) by lia. rewrite E. reflexivity.
Qed.

(** the magnitude fmtInt prints, as the translation computes it from sval / uval *)
Definition tmag (s u : N) : N :=
  if (sz s <? 0)%Z then zi (- sz s) else if (0 <? sz s)%Z then s else u.

(** everything after the type switch: sign handling, the four loops, the final doWrite *)
Lemma k8_sim fuel base dv pc pl g w tr buf sb s u cs buf' :
  buf_ok buf -> pl < 2 ^ 64 -> s < 2 ^ 64 -> u < 2 ^ 64 -> (34 <= fuel)%nat ->
  int_core buf dv pc (sz pl) (sz s <? 0)%Z (tmag s u) = Ok (cs, buf') ->
  go_kfmt_fmtInt_k8 fuel base dv 0 0 pc pl 0 0 g w (mkw tr buf sb, s, u)
    = GOk (mkw (pushed w cs tr) buf' sb, tt) /\ buf_ok buf'.
Proof.
  intros Hb Hp Hs Hu Hf. unfold go_kfmt_fmtInt_k8. cbv beta iota zeta.
  assert (Hz0 : sz 0 = 0%Z) by reflexivity.
  rewrite !(gslt_sz s 0), (gslt_sz 0 s) by (try exact Hs; reflexivity). rewrite Hz0.
  assert (Hmag : (if (sz s <? 0)%Z then gw 64 (gsub 64 0 s) else if (0 <? sz s)%Z then gw 64 s else u) = tmag s u).
  { unfold tmag. destruct (sz s <? 0)%Z.
    - rewrite <- (zi_sz s) at 1 by exact Hs. change 0 with (zi 0) at 1. rewrite gsub_zi.
      rewrite gw64_small' by apply zi_lt. reflexivity.
    - destruct (0 <? sz s)%Z; [apply gw64_small'; exact Hs|reflexivity]. }
  rewrite Hmag. clear Hmag.
  assert (Hmlt : tmag s u < 2 ^ 64).
  { unfold tmag. destruct (sz s <? 0)%Z; [apply zi_lt|]. destruct (0 <? sz s)%Z; assumption. }
  unfold int_core.
  destruct (digit_loop (S (Z.to_nat maxBufSize)) dv buf 0 (tmag s u)) as [[b1 r1]| |] eqn:E1; cbn [bind]; try discriminate.
  change 0%Z with (Z.of_N 0) in E1.
  destruct (digit_sim base dv 0 0 pc pl s g w tr sb _ _ 0 _ 0 _ _ Hb ltac:(lia) Hmlt E1) as [rem' [uval' [G1 [Hb1 Hr1]]]].
  rewrite (gloop_fuel_ok _ _ fuel _ _ G1) by (change (Z.to_nat maxBufSize) with 32%nat; lia).
  cbn [fst snd].
  assert (Hlen : length buf = 33%nat) by exact Hb.
  destruct (pad_loop (S (length buf)) b1 r1 (sz pl) pc) as [[b2 r2]| |] eqn:E2; cbn [bind]; try discriminate.
  rewrite <- (Z2N.id r1) in E2 by lia.
  destruct (pad_sim base dv 0 pc pl rem' s uval' g w tr sb _ _ (Z.to_N r1) _ _ Hb1 ltac:(lia) Hp E2) as [G2 [Hb2 Hr2]].
  rewrite (gloop_fuel_ok _ _ fuel _ _ G2) by lia.
  unfold int_tail. cbn [fst snd].
  assert (Hr2z : Z.to_N r2 = zi r2) by (rewrite zi_small by lia; reflexivity).
  destruct (sz s <? 0)%Z.
  - (* negative: look for the last blank, place the sign *)
    destruct (sign_search (S (length buf)) b2 (r2 - 1)) as [e'| |] eqn:E3; cbn [bind]; try discriminate.
    destruct (sign_sim base dv 0 pc pl rem' (zi r2) s uval' g w tr sb _ _ (r2 - 1)%Z _ Hb2 ltac:(lia) E3) as [G3 He'].
    rewrite Hr2z. change 1 with (zi 1). rewrite gsub_zi.
    rewrite (gloop_fuel_ok _ _ fuel _ _ G3) by lia.
    rewrite zi_inj by lia. rewrite !gadd_zi.
    change (gw 8 45) with 45.
    destruct (bset b2 (e' + 1) 45) as [b3| |] eqn:E4; cbn [bind]; try discriminate.
    pose proof (bset_len _ _ _ _ E4) as [L3 R3].
    rewrite <- (Z2N.id (e' + 1)) in E4 by lia. apply bset_gsets in E4; [|lia].
    rewrite (zi_small (e' + 1)) by lia. wsimp. rewrite E4. wsimp. cbn [fst snd].
    set (right' := if (e' =? r2 - 1)%Z then (r2 + 1)%Z else r2).
    replace (if (e' =? r2 - 1)%Z then zi (r2 + 1) else zi r2) with (zi right') by (unfold right'; destruct (e' =? r2 - 1)%Z; reflexivity).
    assert (Hr' : (0 <= right' <= 34)%Z) by (unfold right'; destruct (e' =? r2 - 1)%Z; lia).
    rewrite gsub_zi.
    destruct (reverse_loop (S (length buf)) b3 0 (right' - 1)) as [b4| |] eqn:E5; cbn [bind]; try discriminate.
    assert (Hb3 : buf_ok b3) by (unfold buf_ok in *; lia).
    destruct (rev_sim base dv (zi right') pc pl rem' s uval' g w tr sb _ _ 0%Z (right' - 1)%Z _ Hb3 ltac:(lia) ltac:(lia) E5) as [l' [r' [G5 Hb4]]].
    change (zi 0%Z) with 0 in G5. change (set_f_world_numFmtBuf (mkw tr b2 sb) b3) with (mkw tr b3 sb).
    rewrite (gloop_fuel_ok _ _ fuel _ _ G5) by lia.
    destruct (bslice b4 right') as [o| |] eqn:E6; cbn [bind]; try discriminate.
    rewrite <- (Z2N.id right') in E6 by lia. apply bslice_gslices in E6; [|lia].
    rewrite (zi_small right') by lia. wsimp. rewrite E6. wsimp.
    intros E. injection E as <- <-. split; [reflexivity|exact Hb4].
  - cbn [bind fst snd].
    destruct (reverse_loop (S (length buf)) b2 0 (r2 - 1)) as [b4| |] eqn:E5; cbn [bind]; try discriminate.
    rewrite loop7_is_loop6.
    destruct (rev_sim base dv (Z.to_N r2) pc pl rem' s uval' g w tr sb _ _ 0%Z (r2 - 1)%Z _ Hb2 ltac:(lia) ltac:(lia) E5) as [l' [r' [G5 Hb4]]].
    change (zi 0%Z) with 0 in G5. rewrite <- gsub_zi, <- Hr2z in G5. change (zi 1) with 1 in G5.
    rewrite (gloop_fuel_ok _ _ fuel _ _ G5) by lia.
    destruct (bslice b4 r2) as [o| |] eqn:E6; cbn [bind]; try discriminate.
    rewrite <- (Z2N.id r2) in E6 by lia. apply bslice_gslices in E6; [|lia].
    wsimp. rewrite E6. wsimp.
    intros E. injection E as <- <-. split; [reflexivity|exact Hb4].
Qed.

(** ---- interface{} values: the translation's [gany] and the model's [arg] ---- *)
(** the integer denoted by the [bits]-bit two's complement representative [n] *)
Definition sgn (bits n : N) : Z := if n <? 2 ^ (bits - 1) then Z.of_N n else (Z.of_N n - Z.of_N (2 ^ bits))%Z.

Definition of_gany (g : gany) : arg :=
  match g with
  | GAU8 n => AInt U8 (Z.of_N n) | GAU16 n => AInt U16 (Z.of_N n) | GAU32 n => AInt U32 (Z.of_N n)
  | GAU64 n => AInt U64 (Z.of_N n) | GAUptr n => AInt Uptr (Z.of_N n)
  | GAI8 n => AInt I8 (sgn 8 n) | GAI16 n => AInt I16 (sgn 16 n) | GAI32 n => AInt I32 (sgn 32 n)
  | GAI64 n => AInt I64 (sgn 64 n) | GAInt n => AInt Int (sgn 64 n)
  | GABool b => ABool b | GAStr s => AStr s | GABytes s => ABytes s | GAOther => AOther
  end.

(** the values Go can produce: an integer lies in the range of its type *)
Definition gany_wf (g : gany) : Prop :=
  match g with
  | GAU8 n | GAI8 n => n < 2 ^ 8 | GAU16 n | GAI16 n => n < 2 ^ 16 | GAU32 n | GAI32 n => n < 2 ^ 32
  | GAU64 n | GAUptr n | GAI64 n | GAInt n => n < 2 ^ 64
  | _ => True
  end.

Lemma zi_wrap z : zi (wrap_int z) = zi z.
Proof.
  unfold zi, wrap_int, two63z, two64z. f_equal.
  rewrite Zminus_mod, Z.mod_mod by lia. rewrite <- Zminus_mod. f_equal. lia.
Qed.

Lemma to_u64_zi z : to_u64 z = zi z. Proof. reflexivity. Qed.

Lemma sgn64_sz n : sgn 64 n = sz n. Proof. reflexivity. Qed.

Lemma gsext_sgn bits n : (bits = 8 \/ bits = 16 \/ bits = 32) -> n < 2 ^ bits -> sz (gsext bits 64 n) = sgn bits n.
Proof.
  intros [-> | [-> | ->]] H; unfold gsext, gisneg, sgn, sz;
    match goal with |- context [2 ^ (?b - 1)] => let v := eval vm_compute in (2 ^ (b - 1)) in change (2 ^ (b - 1)) with v end;
    match goal with |- context [(2 ^ 64 - 2 ^ ?b)] => let v := eval vm_compute in (2 ^ 64 - 2 ^ b) in change (2 ^ 64 - 2 ^ b) with v end;
    match goal with |- context [Z.of_N (2 ^ ?b)] => let v := eval vm_compute in (Z.of_N (2 ^ b)) in change (Z.of_N (2 ^ b)) with v end;
    match type of H with _ < 2 ^ ?b => let v := eval vm_compute in (2 ^ b) in change (2 ^ b) with v in H end;
    match goal with |- context [?c <=? n] => destruct (N.leb_spec c n); destruct (N.ltb_spec n c); try lia end;
    match goal with |- context [?x <? 9223372036854775808] => destruct (N.ltb_spec x 9223372036854775808); lia end.
Qed.

Lemma gsext_lt bits n : (bits = 8 \/ bits = 16 \/ bits = 32) -> n < 2 ^ bits -> gsext bits 64 n < 2 ^ 64.
Proof.
  intros [-> | [-> | ->]] H; unfold gsext, gisneg;
    match goal with |- context [(2 ^ 64 - 2 ^ ?b)] => let v := eval vm_compute in (2 ^ 64 - 2 ^ b) in change (2 ^ 64 - 2 ^ b) with v end;
    match type of H with _ < 2 ^ ?b => let v := eval vm_compute in (2 ^ b) in change (2 ^ b) with v in H end;
    rewrite two64_lit; match goal with |- context [if ?c then _ else _] => destruct c end; lia.
Qed.

(** signed kinds: the model's sval / magnitude from the 64-bit representative [s] of the value *)
Lemma signed_facts k s : signed k = true -> s < 2 ^ 64 ->
  model_sval k (sz s) = sz s /\ model_mag k (sz s) = tmag s 0.
Proof.
  intros Hk Hs. unfold model_mag, model_sval, tmag. rewrite Hk. split; [reflexivity|].
  rewrite Z.gtb_ltb. destruct (sz s <? 0)%Z; [rewrite to_u64_zi, zi_wrap; reflexivity|].
  destruct (0 <? sz s)%Z; [rewrite to_u64_zi; apply zi_sz; exact Hs|reflexivity].
Qed.

Lemma unsigned_facts k n : signed k = false -> n < 2 ^ 64 ->
  model_sval k (Z.of_N n) = sz 0 /\ model_mag k (Z.of_N n) = tmag 0 (gw 64 n).
Proof.
  intros Hk Hn. unfold model_mag, model_sval, tmag. rewrite Hk. split; [reflexivity|].
  change (sz 0) with 0%Z. cbn [Z.ltb Z.gtb Z.compare]. rewrite to_u64_zi, zi_of_N, gw64_small' by exact Hn. reflexivity.
Qed.

Lemma pad_clamp p : p < 2 ^ 64 ->
  let p' := if gsle 64 kfmt_maxBufSize p then gsub 64 kfmt_maxBufSize 1 else p in
  p' < 2 ^ 64 /\ sz p' = (if sz p >=? maxBufSize then maxBufSize - 1 else sz p)%Z.
Proof.
  intros Hp. cbv zeta. rewrite gsle_sz by (try exact Hp; reflexivity).
  change (sz kfmt_maxBufSize) with maxBufSize. rewrite Z.geb_leb.
  destruct (maxBufSize <=? sz p)%Z; [split; reflexivity|split; [exact Hp|reflexivity]].
Qed.

