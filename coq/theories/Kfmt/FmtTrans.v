(** The hand-written model of kernel/kfmt/fmt.go (Kfmt/Fmt.v: [fmt_repeat], [fmt_bool], [fmt_string], [fmt_int])
    against the Gallina translation that gen/gotrans regenerates from fmt.go on every run (Gen/Trans_kfmt_fmt.v).

    In the translation the package-level buffers numFmtBuf / singleByte are fields of the record [go_kfmt_world],
    an interface{} value is a [gany] (Lib/GoOpsFmt.v), Go's int / int64 are their two's complement representatives in
    [0, 2^64), and every call [doWrite(w, p)] is the event [GCall "doWrite" [GNum (gref w); GBytes p]] pushed on the
    world's trace (most recent first).  The model computes on Z and returns the list of chunks written.

    Shape of the lemmas: whenever the model's run ends with [Ok] (which Kfmt/FmtProofs.v proves for every input), the
    translated function, with enough fuel, returns [GOk], has pushed exactly the model's chunks as doWrite events, in
    order, and leaves the model's numFmtBuf. *)
From Coq Require Import NArith ZArith String List Bool Lia.
From Coq Require Import ZifyBool ZifyN ZifyNat.
From FF Require Import Lib.Word Lib.GoOps Lib.GoOpsExt Lib.GoOpsFmt Gen.Consts_kfmt Gen.Trans_kfmt_fmt.
From FF Require Import Kfmt.Fmt Kfmt.FmtSpec Kfmt.FmtProofs Kfmt.FmtScanProofs.
Import ListNotations.
Local Open Scope N_scope.
Ltac Zify.zify_post_hook ::= Z.div_mod_to_equations.

(** ---- representations ---- *)
(** the Go int denoted by a two's complement representative *)
Definition sz (p : N) : Z :=
  if p <? 9223372036854775808 then Z.of_N p else (Z.of_N p - 18446744073709551616)%Z.
(** the representative of a Go int *)
Definition zi (z : Z) : N := Z.to_N (z mod 18446744073709551616).

Definition mkw (tr : list gcall) (buf sb : list N) : go_kfmt_world := mk_go_kfmt_world tr buf sb.
Definition ev (w : bool) (c : chunk) : gcall := GCall "doWrite" [GNum (gref w); GBytes c].
(** the trace after the chunks [cs] were written (most recent first) *)
Definition pushed (w : bool) (cs : list chunk) (tr : list gcall) : list gcall := rev (map (ev w) cs) ++ tr.

Ltac wsimp :=
  cbn [f_world_trace f_world_numFmtBuf f_world_singleByte set_f_world_trace set_f_world_numFmtBuf
       set_f_world_singleByte mkw].

Lemma two64_lit : 2 ^ 64 = 18446744073709551616. Proof. reflexivity. Qed.
Lemma two63_lit : two63 = 9223372036854775808. Proof. reflexivity. Qed.

Lemma gslt_sz a b : a < 2 ^ 64 -> b < 2 ^ 64 -> gslt 64 a b = (sz a <? sz b)%Z.
Proof.
  rewrite two64_lit. intros Ha Hb. unfold gslt. rewrite !gsbias64. unfold sz.
  destruct (N.ltb_spec a 9223372036854775808); destruct (N.ltb_spec b 9223372036854775808);
    match goal with |- (?x <? ?y) = (?u <? ?v)%Z => destruct (N.ltb_spec x y); destruct (Z.ltb_spec u v) end;
    try reflexivity; lia.
Qed.

Lemma gsle_sz a b : a < 2 ^ 64 -> b < 2 ^ 64 -> gsle 64 a b = (sz a <=? sz b)%Z.
Proof.
  rewrite two64_lit. intros Ha Hb. unfold gsle. rewrite !gsbias64. unfold sz.
  destruct (N.ltb_spec a 9223372036854775808); destruct (N.ltb_spec b 9223372036854775808);
    match goal with |- (?x <=? ?y) = (?u <=? ?v)%Z => destruct (N.leb_spec x y); destruct (Z.leb_spec u v) end;
    try reflexivity; lia.
Qed.

Lemma sz_small p : p < 9223372036854775808 -> sz p = Z.of_N p.
Proof. intros H. unfold sz. destruct (N.ltb_spec p 9223372036854775808); [reflexivity|lia]. Qed.

Lemma sz_zi z : (- 9223372036854775808 <= z < 9223372036854775808)%Z -> sz (zi z) = z.
Proof.
  intros H. unfold sz, zi.
  destruct (N.ltb_spec (Z.to_N (z mod 18446744073709551616)) 9223372036854775808); lia.
Qed.

Lemma zi_lt z : zi z < 2 ^ 64.
Proof. rewrite two64_lit. unfold zi. lia. Qed.

Lemma zi_small z : (0 <= z < 18446744073709551616)%Z -> zi z = Z.to_N z.
Proof. intros H. unfold zi. rewrite Z.mod_small by lia. reflexivity. Qed.

(** ---- buffer accesses: the model's bounds-checked operations and the translation's ---- *)
Lemma bset_gsets buf r v b : r < 9223372036854775808 ->
  bset buf (Z.of_N r) v = Ok b -> gsets 64 buf r v = Some b.
Proof.
  intros Hr. rewrite gsets_small by (rewrite two63_lit; exact Hr). unfold bset, gset, glen.
  destruct (Z.ltb_spec (Z.of_N r) 0); [lia|]. replace (Z.to_nat (Z.of_N r)) with (N.to_nat r) by lia.
  destruct (Nat.ltb_spec (N.to_nat r) (length buf)); [|discriminate].
  intros E. injection E as <-. destruct (N.ltb_spec r (N.of_nat (length buf))); [reflexivity|lia].
Qed.

Lemma bget_gidxs buf r c : r < 9223372036854775808 ->
  bget buf (Z.of_N r) = Ok c -> gidxs 64 buf r = Some c.
Proof.
  intros Hr. rewrite gidxs_small by (rewrite two63_lit; exact Hr). unfold bget, gidx.
  destruct (Z.ltb_spec (Z.of_N r) 0); [lia|]. replace (Z.to_nat (Z.of_N r)) with (N.to_nat r) by lia.
  destruct (nth_error buf (N.to_nat r)); [|discriminate]. intros E. injection E as <-. reflexivity.
Qed.

Lemma bset_len buf i v b : bset buf i v = Ok b -> length b = length buf /\ (0 <= i < Z.of_nat (length buf))%Z.
Proof.
  unfold bset. destruct (Z.ltb_spec i 0); [discriminate|].
  destruct (Nat.ltb_spec (Z.to_nat i) (length buf)); [|discriminate].
  intros E. injection E as <-. split; [apply upd_length; exact H0|lia].
Qed.

Lemma bget_range buf i c : bget buf i = Ok c -> (0 <= i < Z.of_nat (length buf))%Z.
Proof.
  unfold bget. destruct (Z.ltb_spec i 0); [discriminate|].
  destruct (nth_error buf (Z.to_nat i)) eqn:E; [|discriminate]. intros _.
  assert (Z.to_nat i < length buf)%nat by (apply nth_error_Some; congruence). lia.
Qed.

Lemma bslice_gslices buf e o : e < 9223372036854775808 ->
  bslice buf (Z.of_N e) = Ok o -> gslices 64 buf 0 e = Some o.
Proof.
  intros He. rewrite gslices_small by (rewrite two63_lit; lia). unfold bslice, gslice, glen.
  destruct (Z.ltb_spec (Z.of_N e) 0); [lia|]. replace (Z.to_nat (Z.of_N e)) with (N.to_nat e) by lia.
  destruct (Nat.leb_spec (N.to_nat e) (length buf)); [|discriminate].
  intros E. injection E as <-.
  destruct (N.leb_spec 0 e); [|lia]. destruct (N.leb_spec e (N.of_nat (length buf))); [|lia].
  cbn [andb skipn N.to_nat]. rewrite N.sub_0_r. reflexivity.
Qed.

(** ---- fmtInt: the four loops ---- *)
Definition buf_ok (buf : list N) : Prop := length buf = buf_len.

Lemma buf_len_33 : buf_len = 33%nat. Proof. reflexivity. Qed.

(** [for right < maxBufSize { .. }]: the digits, least significant first *)
Lemma digit_sim base dv e l pc pl sv g w tr sb : forall f buf r uval rem buf' r',
  buf_ok buf -> r <= 33 -> uval < 2 ^ 64 ->
  digit_loop f dv buf (Z.of_N r) uval = Ok (buf', r') ->
  exists rem' uval',
    gloop f (go_kfmt_fmtInt_loop3 base dv e l pc pl sv g w) (mkw tr buf sb, rem, r, uval)
      = GOk (inl (mkw tr buf' sb, rem', Z.to_N r', uval')) /\ buf_ok buf' /\ (0 <= r' <= 33)%Z.
Proof.
  induction f as [|f IH]; intros buf r uval rem buf' r' Hb Hr Hu; [discriminate|].
  cbn [digit_loop]. rewrite gloop_S. unfold go_kfmt_fmtInt_loop3 at 1. cbv beta iota zeta. wsimp.
  rewrite gslt_small by (rewrite two63_lit; try reflexivity; lia).
  change maxBufSize with (Z.of_N kfmt_maxBufSize).
  assert (Hm : kfmt_maxBufSize = 32) by reflexivity.
  destruct (Z.ltb_spec (Z.of_N r) (Z.of_N kfmt_maxBufSize)) as [Hlt|Hge];
    destruct (N.ltb_spec r kfmt_maxBufSize) as [Hlt'|Hge']; try (exfalso; lia).
  2:{ intros E. injection E as <- <-. exists rem, uval. rewrite N2Z.id. split; [reflexivity|]. split; [exact Hb|lia]. }
  unfold gmod, gdiv. destruct (N.eqb_spec dv 0) as [Hd|Hd]; [discriminate|].
  assert (Hrem : uval mod dv < 2 ^ 64) by (pose proof (N.mod_le uval dv Hd); rewrite two64_lit in *; lia).
  destruct (bset buf (Z.of_N r) (digit_char (uval mod dv))) as [buf1| |] eqn:Eb; cbn [bind]; try discriminate.
  pose proof (bset_len _ _ _ _ Eb) as [Hl1 Hr1].
  apply bset_gsets in Eb; [|lia].
  assert (Hq : uval / dv < 2 ^ 64).
  { rewrite two64_lit in *. pose proof (N.div_le_upper_bound uval dv uval Hd). nia. }
  assert (Hdc : forall x, x = digit_char (uval mod dv) -> gsets 64 buf r x = Some buf1) by (intros x ->; exact Eb).
  rewrite (gw64_small' (r + 1)) by (rewrite two64_lit; lia).
  replace (Z.of_N r + 1)%Z with (Z.of_N (r + 1)) by lia.
  intros E.
  destruct (N.ltb_spec (uval mod dv) 10) as [Hd10|Hd10].
  - rewrite (Hdc (gw 8 (gw 8 (uval mod dv) + 48))).
    2:{ unfold digit_char. destruct (N.ltb_spec (uval mod dv) 10); [reflexivity|lia]. }
    wsimp. destruct (N.eqb_spec (uval / dv) 0) as [Hz|Hz].
    + injection E as <- <-. exists (uval mod dv), (uval / dv). rewrite N2Z.id.
      split; [reflexivity|]. split; [unfold buf_ok in *; lia|lia].
    + apply IH with (rem := uval mod dv) in E; [exact E|unfold buf_ok in *; lia| |exact Hq].
      unfold buf_ok in Hb. rewrite buf_len_33 in Hb. lia.
  - rewrite (Hdc (gw 8 (gw 8 (gsub 64 (uval mod dv) 10) + 97))).
    2:{ unfold digit_char. destruct (N.ltb_spec (uval mod dv) 10); [lia|].
        unfold gsub, gw, w8, two8. rewrite two64_lit in *. change (2 ^ 8) with 256. change (2 ^ 64) with 18446744073709551616.
        f_equal. f_equal. rewrite (N.mod_small 10) by lia.
        replace (uval mod dv + 18446744073709551616 - 10) with (uval mod dv - 10 + 1 * 18446744073709551616) by lia.
        rewrite N.mod_add by lia. rewrite (N.mod_small (uval mod dv - 10) 18446744073709551616) by lia. reflexivity. }
    wsimp. destruct (N.eqb_spec (uval / dv) 0) as [Hz|Hz].
    + injection E as <- <-. exists (uval mod dv), (uval / dv). rewrite N2Z.id.
      split; [reflexivity|]. split; [unfold buf_ok in *; lia|lia].
    + apply IH with (rem := uval mod dv) in E; [exact E|unfold buf_ok in *; lia| |exact Hq].
      unfold buf_ok in Hb. rewrite buf_len_33 in Hb. lia.
Qed.

Lemma gsub_zi a b : gsub 64 (zi a) (zi b) = zi (a - b).
Proof.
  unfold gsub, gw, zi. change (2 ^ 64) with 18446744073709551616.
  apply N2Z.inj. rewrite N2Z.inj_mod, N2Z.inj_sub, N2Z.inj_add, N2Z.inj_mod, !Z2N.id.
  - change (Z.of_N 18446744073709551616) with 18446744073709551616%Z.
    rewrite (Z.mod_small (b mod _)) by (apply Z.mod_pos_bound; lia).
    replace (a mod 18446744073709551616 + 18446744073709551616 - b mod 18446744073709551616)%Z
      with ((a mod 18446744073709551616 - b mod 18446744073709551616) + 1 * 18446744073709551616)%Z by lia.
    rewrite Z.mod_add by lia. symmetry. apply Zminus_mod.
  - apply Z.mod_pos_bound; lia.
  - apply Z.mod_pos_bound; lia.
  - apply Z.mod_pos_bound; lia.
  - pose proof (Z.mod_pos_bound b 18446744073709551616 ltac:(lia)).
    pose proof (Z.mod_pos_bound a 18446744073709551616 ltac:(lia)). lia.
Qed.

Lemma gadd_zi a b : gw 64 (zi a + zi b) = zi (a + b).
Proof.
  unfold gw, zi. change (2 ^ 64) with 18446744073709551616.
  apply N2Z.inj. rewrite N2Z.inj_mod, N2Z.inj_add, !Z2N.id; try (apply Z.mod_pos_bound; lia).
  change (Z.of_N 18446744073709551616) with 18446744073709551616%Z. symmetry. apply Zplus_mod.
Qed.

Lemma zi_of_N r : r < 2 ^ 64 -> zi (Z.of_N r) = r.
Proof. rewrite two64_lit. intros H. rewrite zi_small by lia. apply N2Z.id. Qed.

(** [for ; right-left < padLen; right++ { numFmtBuf[right] = padCh }] with left = 0 *)
Lemma pad_sim base dv e pc pl rem sv uv g w tr sb : forall f buf r buf' r',
  buf_ok buf -> r <= 33 -> pl < 2 ^ 64 ->
  pad_loop f buf (Z.of_N r) (sz pl) pc = Ok (buf', r') ->
  gloop f (go_kfmt_fmtInt_loop4 base dv e 0 pc pl rem sv uv g w) (mkw tr buf sb, r)
    = GOk (inl (mkw tr buf' sb, Z.to_N r')) /\ buf_ok buf' /\ (0 <= r' <= 33)%Z.
Proof.
  induction f as [|f IH]; intros buf r buf' r' Hb Hr Hp; [discriminate|].
  cbn [pad_loop]. rewrite gloop_S. unfold go_kfmt_fmtInt_loop4 at 1. cbv beta iota zeta. wsimp.
  assert (H0 : gsub 64 r 0 = r).
  { unfold gsub, gw. change (2 ^ 64) with 18446744073709551616. rewrite (N.mod_small 0) by lia.
    replace (r + 18446744073709551616 - 0) with (r + 1 * 18446744073709551616) by lia.
    rewrite N.mod_add by lia. apply N.mod_small. lia. }
  rewrite H0, gslt_sz by (try exact Hp; rewrite two64_lit; lia).
  rewrite (sz_small r) by lia. rewrite Z.sub_0_r.
  destruct (Z.ltb_spec (Z.of_N r) (sz pl)) as [Hlt|Hge].
  2:{ intros E. injection E as <- <-. rewrite N2Z.id. split; [reflexivity|]. split; [exact Hb|lia]. }
  destruct (bset buf (Z.of_N r) pc) as [buf1| |] eqn:Eb; cbn [bind]; try discriminate.
  pose proof (bset_len _ _ _ _ Eb) as [Hl1 Hr1]. apply bset_gsets in Eb; [|lia]. rewrite Eb. wsimp.
  unfold buf_ok in Hb. rewrite buf_len_33 in Hb.
  rewrite (gw64_small' (r + 1)) by (rewrite two64_lit; lia).
  replace (Z.of_N r + 1)%Z with (Z.of_N (r + 1)) by lia.
  intros E. apply IH in E; [exact E|unfold buf_ok; rewrite buf_len_33; lia|lia|exact Hp].
Qed.

(** [for end = right - 1; numFmtBuf[end] == ' '; end-- {}] *)
Lemma sign_sim base dv l pc pl rem r0 sv uv g w tr sb : forall f buf e e',
  buf_ok buf -> (-1 <= e <= 33)%Z ->
  sign_search f buf e = Ok e' ->
  gloop f (go_kfmt_fmtInt_loop5 base dv l pc pl rem r0 sv uv g w) (mkw tr buf sb, zi e)
    = GOk (inl (mkw tr buf sb, zi e')) /\ (0 <= e' <= e)%Z.
Proof.
  induction f as [|f IH]; intros buf e e' Hb He; [discriminate|].
  cbn [sign_search]. rewrite gloop_S. unfold go_kfmt_fmtInt_loop5 at 1. cbv beta iota zeta. wsimp.
  destruct (bget buf e) as [c| |] eqn:Eg; cbn [bind]; try discriminate.
  pose proof (bget_range _ _ _ Eg) as Hr. 
  rewrite (zi_small e) by lia. rewrite <- (Z2N.id e) in Eg by lia.
  apply bget_gidxs in Eg; [|lia]. rewrite Eg.
  destruct (N.eqb_spec c 32) as [Hc|Hc].
  - intros E. change 1 with (zi 1) at 1. rewrite <- (zi_small e) by lia. rewrite gsub_zi.
    apply IH in E; [|exact Hb|lia]. destruct E as [E1 E2]. split; [exact E1|lia].
  - intros E. injection E as <-. rewrite <- (zi_small e) by lia. split; [reflexivity|lia].
Qed.

(** [for right = right - 1; left < right; left, right = left+1, right-1 { swap }] *)
Lemma rev_sim base dv e pc pl rem sv uv g w tr sb : forall f buf l r buf',
  buf_ok buf -> (0 <= l <= 34)%Z -> (-1 <= r <= 33)%Z ->
  reverse_loop f buf l r = Ok buf' ->
  exists l' r',
    gloop f (go_kfmt_fmtInt_loop6 base dv e pc pl rem sv uv g w) (mkw tr buf sb, zi l, zi r)
      = GOk (inl (mkw tr buf' sb, l', r')) /\ buf_ok buf'.
Proof.
  induction f as [|f IH]; intros buf l r buf' Hb Hl Hr; [discriminate|].
  cbn [reverse_loop]. rewrite gloop_S. unfold go_kfmt_fmtInt_loop6 at 1. cbv beta iota zeta. wsimp.
  rewrite gslt_sz by apply zi_lt. rewrite !sz_zi by lia.
  destruct (Z.ltb_spec l r) as [Hlt|Hge].
  2:{ intros E. injection E as <-. exists (zi l), (zi r). split; [reflexivity|exact Hb]. }
  destruct (bget buf l) as [a| |] eqn:Ea; cbn [bind]; try discriminate.
  destruct (bget buf r) as [b| |] eqn:Eb; cbn [bind]; try discriminate.
  destruct (bset buf l b) as [buf1| |] eqn:E1; cbn [bind]; try discriminate.
  destruct (bset buf1 r a) as [buf2| |] eqn:E2; cbn [bind]; try discriminate.
  pose proof (bset_len _ _ _ _ E1) as [L1 _]. pose proof (bset_len _ _ _ _ E2) as [L2 _].
  rewrite (zi_small l), (zi_small r) by lia.
  rewrite <- (Z2N.id l) in Ea, E1 by lia. rewrite <- (Z2N.id r) in Eb, E2 by lia.
  apply bget_gidxs in Ea; [|lia]. apply bget_gidxs in Eb; [|lia].
  apply bset_gsets in E1; [|lia]. apply bset_gsets in E2; [|lia].
  rewrite Eb, Ea, E1. wsimp. rewrite E2. wsimp.
  rewrite <- (zi_small l), <- (zi_small r) by lia.
  change 1 with (zi 1). rewrite gadd_zi, gsub_zi.
  intros E. apply IH in E; [exact E|unfold buf_ok in *; lia|lia|lia].
Qed.

Lemma loop7_is_loop6 : go_kfmt_fmtInt_loop7 = go_kfmt_fmtInt_loop6.
Proof. reflexivity. Qed.

Lemma gloop_fuel_ok {St R} (step : St -> gres (gctl St R)) f1 f2 s r :
  gloop f1 step s = GOk r -> (f1 <= f2)%nat -> gloop f2 step s = GOk r.
Proof. intros H Hle. rewrite (gloop_more_fuel step f1 s f2 Hle); [exact H|rewrite H; discriminate]. Qed.

Lemma zi_sz s : s < 2 ^ 64 -> zi (sz s) = s.
Proof.
  rewrite two64_lit. intros H. unfold zi, sz.
  destruct (N.ltb_spec s 9223372036854775808).
  - rewrite Z.mod_small by lia. apply N2Z.id.
  - replace (Z.of_N s - 18446744073709551616)%Z with (Z.of_N s + (-1) * 18446744073709551616)%Z by lia.
    rewrite Z.mod_add by lia. rewrite Z.mod_small by lia. apply N2Z.id.
Qed.

Lemma zi_inj a b : (-1 <= a <= 40)%Z -> (-1 <= b <= 40)%Z -> (zi a =? zi b) = (a =? b)%Z.
Proof.
  intros Ha Hb. destruct (Z.eqb_spec a b) as [->|Hne]; [apply N.eqb_refl|].
  apply N.eqb_neq. intros E. apply Hne. rewrite <- (sz_zi a), <- (sz_zi b) by lia. rewrite E. reflexivity.
Qed.

(** the magnitude fmtInt prints, as the translation computes it from sval / uval *)
Definition tmag (s u : N) : N :=
  if (sz s <? 0)%Z then zi (- sz s) else if (0 <? sz s)%Z then s else u.

(** everything after the type switch: sign handling, the four loops, the final doWrite *)
Lemma k8_sim fuel base dv pc pl g w tr buf sb s u cs buf' :
  buf_ok buf -> pl < 2 ^ 64 -> s < 2 ^ 64 -> u < 2 ^ 64 -> (34 <= fuel)%nat ->
  int_core buf dv pc (sz pl) (sz s <? 0)%Z (tmag s u) = Ok (cs, buf') ->
  go_kfmt_fmtInt_k8 fuel base dv 0 0 pc pl 0 0 g w (mkw tr buf sb, s, u)
    = GOk (mkw (pushed w cs tr) buf' sb, tt) /\ buf_ok buf'.
Proof.
  intros Hb Hp Hs Hu Hf. unfold go_kfmt_fmtInt_k8. cbv beta iota zeta.
  assert (Hz0 : sz 0 = 0%Z) by reflexivity.
  rewrite !(gslt_sz s 0), (gslt_sz 0 s) by (try exact Hs; reflexivity). rewrite Hz0.
  assert (Hmag : (if (sz s <? 0)%Z then gw 64 (gsub 64 0 s) else if (0 <? sz s)%Z then gw 64 s else u) = tmag s u).
  { unfold tmag. destruct (sz s <? 0)%Z.
    - rewrite <- (zi_sz s) at 1 by exact Hs. change 0 with (zi 0) at 1. rewrite gsub_zi.
      rewrite gw64_small' by apply zi_lt. reflexivity.
    - destruct (0 <? sz s)%Z; [apply gw64_small'; exact Hs|reflexivity]. }
  rewrite Hmag. clear Hmag.
  assert (Hmlt : tmag s u < 2 ^ 64).
  { unfold tmag. destruct (sz s <? 0)%Z; [apply zi_lt|]. destruct (0 <? sz s)%Z; assumption. }
  unfold int_core.
  destruct (digit_loop (S (Z.to_nat maxBufSize)) dv buf 0 (tmag s u)) as [[b1 r1]| |] eqn:E1; cbn [bind]; try discriminate.
  change 0%Z with (Z.of_N 0) in E1.
  destruct (digit_sim base dv 0 0 pc pl s g w tr sb _ _ 0 _ 0 _ _ Hb ltac:(lia) Hmlt E1) as [rem' [uval' [G1 [Hb1 Hr1]]]].
  rewrite (gloop_fuel_ok _ _ fuel _ _ G1) by (change (Z.to_nat maxBufSize) with 32%nat; lia).
  cbn [fst snd].
  assert (Hlen : length buf = 33%nat) by exact Hb.
  destruct (pad_loop (S (length buf)) b1 r1 (sz pl) pc) as [[b2 r2]| |] eqn:E2; cbn [bind]; try discriminate.
  rewrite <- (Z2N.id r1) in E2 by lia.
  destruct (pad_sim base dv 0 pc pl rem' s uval' g w tr sb _ _ (Z.to_N r1) _ _ Hb1 ltac:(lia) Hp E2) as [G2 [Hb2 Hr2]].
  rewrite (gloop_fuel_ok _ _ fuel _ _ G2) by lia.
  unfold int_tail. cbn [fst snd].
  assert (Hr2z : Z.to_N r2 = zi r2) by (rewrite zi_small by lia; reflexivity).
  destruct (sz s <? 0)%Z.
  - (* negative: look for the last blank, place the sign *)
    destruct (sign_search (S (length buf)) b2 (r2 - 1)) as [e'| |] eqn:E3; cbn [bind]; try discriminate.
    destruct (sign_sim base dv 0 pc pl rem' (zi r2) s uval' g w tr sb _ _ (r2 - 1)%Z _ Hb2 ltac:(lia) E3) as [G3 He'].
    rewrite Hr2z. change 1 with (zi 1). rewrite gsub_zi.
    rewrite (gloop_fuel_ok _ _ fuel _ _ G3) by lia.
    rewrite zi_inj by lia. rewrite !gadd_zi.
    change (gw 8 45) with 45.
    destruct (bset b2 (e' + 1) 45) as [b3| |] eqn:E4; cbn [bind]; try discriminate.
    pose proof (bset_len _ _ _ _ E4) as [L3 R3].
    rewrite <- (Z2N.id (e' + 1)) in E4 by lia. apply bset_gsets in E4; [|lia].
    rewrite (zi_small (e' + 1)) by lia. wsimp. rewrite E4. wsimp. cbn [fst snd].
    set (right' := if (e' =? r2 - 1)%Z then (r2 + 1)%Z else r2).
    replace (if (e' =? r2 - 1)%Z then zi (r2 + 1) else zi r2) with (zi right') by (unfold right'; destruct (e' =? r2 - 1)%Z; reflexivity).
    assert (Hr' : (0 <= right' <= 34)%Z) by (unfold right'; destruct (e' =? r2 - 1)%Z; lia).
    rewrite gsub_zi.
    destruct (reverse_loop (S (length buf)) b3 0 (right' - 1)) as [b4| |] eqn:E5; cbn [bind]; try discriminate.
    assert (Hb3 : buf_ok b3) by (unfold buf_ok in *; lia).
    destruct (rev_sim base dv (zi right') pc pl rem' s uval' g w tr sb _ _ 0%Z (right' - 1)%Z _ Hb3 ltac:(lia) ltac:(lia) E5) as [l' [r' [G5 Hb4]]].
    change (zi 0%Z) with 0 in G5. change (set_f_world_numFmtBuf (mkw tr b2 sb) b3) with (mkw tr b3 sb).
    rewrite (gloop_fuel_ok _ _ fuel _ _ G5) by lia.
    destruct (bslice b4 right') as [o| |] eqn:E6; cbn [bind]; try discriminate.
    rewrite <- (Z2N.id right') in E6 by lia. apply bslice_gslices in E6; [|lia].
    rewrite (zi_small right') by lia. wsimp. rewrite E6. wsimp.
    intros E. injection E as <- <-. split; [reflexivity|exact Hb4].
  - cbn [bind fst snd].
    destruct (reverse_loop (S (length buf)) b2 0 (r2 - 1)) as [b4| |] eqn:E5; cbn [bind]; try discriminate.
    rewrite loop7_is_loop6.
    destruct (rev_sim base dv (Z.to_N r2) pc pl rem' s uval' g w tr sb _ _ 0%Z (r2 - 1)%Z _ Hb2 ltac:(lia) ltac:(lia) E5) as [l' [r' [G5 Hb4]]].
    change (zi 0%Z) with 0 in G5. rewrite <- gsub_zi, <- Hr2z in G5. change (zi 1) with 1 in G5.
    rewrite (gloop_fuel_ok _ _ fuel _ _ G5) by lia.
    destruct (bslice b4 r2) as [o| |] eqn:E6; cbn [bind]; try discriminate.
    rewrite <- (Z2N.id r2) in E6 by lia. apply bslice_gslices in E6; [|lia].
    wsimp. rewrite E6. wsimp.
    intros E. injection E as <- <-. split; [reflexivity|exact Hb4].
Qed.

(** ---- interface{} values: the translation's [gany] and the model's [arg] ---- *)
(** the integer denoted by the [bits]-bit two's complement representative [n] *)
Definition sgn (bits n : N) : Z := if n <? 2 ^ (bits - 1) then Z.of_N n else (Z.of_N n - Z.of_N (2 ^ bits))%Z.

Definition of_gany (g : gany) : arg :=
  match g with
  | GAU8 n => AInt U8 (Z.of_N n) | GAU16 n => AInt U16 (Z.of_N n) | GAU32 n => AInt U32 (Z.of_N n)
  | GAU64 n => AInt U64 (Z.of_N n) | GAUptr n => AInt Uptr (Z.of_N n)
  | GAI8 n => AInt I8 (sgn 8 n) | GAI16 n => AInt I16 (sgn 16 n) | GAI32 n => AInt I32 (sgn 32 n)
  | GAI64 n => AInt I64 (sgn 64 n) | GAInt n => AInt Int (sgn 64 n)
  | GABool b => ABool b | GAStr s => AStr s | GABytes s => ABytes s | GAOther => AOther
  end.

(** the values Go can produce: an integer lies in the range of its type *)
Definition gany_wf (g : gany) : Prop :=
  match g with
  | GAU8 n | GAI8 n => n < 2 ^ 8 | GAU16 n | GAI16 n => n < 2 ^ 16 | GAU32 n | GAI32 n => n < 2 ^ 32
  | GAU64 n | GAUptr n | GAI64 n | GAInt n => n < 2 ^ 64
  | _ => True
  end.

Lemma zi_wrap z : zi (wrap_int z) = zi z.
Proof.
  unfold zi, wrap_int, two63z, two64z. f_equal.
  rewrite Zminus_mod, Z.mod_mod by lia. rewrite <- Zminus_mod. f_equal. lia.
Qed.

Lemma to_u64_zi z : to_u64 z = zi z. Proof. reflexivity. Qed.

Lemma sgn64_sz n : sgn 64 n = sz n. Proof. reflexivity. Qed.

Lemma gsext_sgn bits n : (bits = 8 \/ bits = 16 \/ bits = 32) -> n < 2 ^ bits -> sz (gsext bits 64 n) = sgn bits n.
Proof.
  intros [-> | [-> | ->]] H; unfold gsext, gisneg, sgn, sz;
    match goal with |- context [2 ^ (?b - 1)] => let v := eval vm_compute in (2 ^ (b - 1)) in change (2 ^ (b - 1)) with v end;
    match goal with |- context [(2 ^ 64 - 2 ^ ?b)] => let v := eval vm_compute in (2 ^ 64 - 2 ^ b) in change (2 ^ 64 - 2 ^ b) with v end;
    match goal with |- context [Z.of_N (2 ^ ?b)] => let v := eval vm_compute in (Z.of_N (2 ^ b)) in change (Z.of_N (2 ^ b)) with v end;
    match type of H with _ < 2 ^ ?b => let v := eval vm_compute in (2 ^ b) in change (2 ^ b) with v in H end;
    match goal with |- context [?c <=? n] => destruct (N.leb_spec c n); destruct (N.ltb_spec n c); try lia end;
    match goal with |- context [?x <? 9223372036854775808] => destruct (N.ltb_spec x 9223372036854775808); lia end.
Qed.

Lemma gsext_lt bits n : (bits = 8 \/ bits = 16 \/ bits = 32) -> n < 2 ^ bits -> gsext bits 64 n < 2 ^ 64.
Proof.
  intros [-> | [-> | ->]] H; unfold gsext, gisneg;
    match goal with |- context [(2 ^ 64 - 2 ^ ?b)] => let v := eval vm_compute in (2 ^ 64 - 2 ^ b) in change (2 ^ 64 - 2 ^ b) with v end;
    match type of H with _ < 2 ^ ?b => let v := eval vm_compute in (2 ^ b) in change (2 ^ b) with v in H end;
    rewrite two64_lit; match goal with |- context [if ?c then _ else _] => destruct c end; lia.
Qed.

(** signed kinds: the model's sval / magnitude from the 64-bit representative [s] of the value *)
Lemma signed_facts k s : signed k = true -> s < 2 ^ 64 ->
  model_sval k (sz s) = sz s /\ model_mag k (sz s) = tmag s 0.
Proof.
  intros Hk Hs. unfold model_mag, model_sval, tmag. rewrite Hk. split; [reflexivity|].
  rewrite Z.gtb_ltb. destruct (sz s <? 0)%Z; [rewrite to_u64_zi, zi_wrap; reflexivity|].
  destruct (0 <? sz s)%Z; [rewrite to_u64_zi; apply zi_sz; exact Hs|reflexivity].
Qed.

Lemma unsigned_facts k n : signed k = false -> n < 2 ^ 64 ->
  model_sval k (Z.of_N n) = sz 0 /\ model_mag k (Z.of_N n) = tmag 0 (gw 64 n).
Proof.
  intros Hk Hn. unfold model_mag, model_sval, tmag. rewrite Hk. split; [reflexivity|].
  change (sz 0) with 0%Z. cbn [Z.ltb Z.gtb Z.compare]. rewrite to_u64_zi, zi_of_N, gw64_small' by exact Hn. reflexivity.
Qed.

Lemma pad_clamp p : p < 2 ^ 64 ->
  let p' := if gsle 64 kfmt_maxBufSize p then gsub 64 kfmt_maxBufSize 1 else p in
  p' < 2 ^ 64 /\ sz p' = (if sz p >=? maxBufSize then maxBufSize - 1 else sz p)%Z.
Proof.
  intros Hp. cbv zeta. rewrite gsle_sz by (try exact Hp; reflexivity).
  change (sz kfmt_maxBufSize) with maxBufSize. rewrite Z.geb_leb.
  destruct (maxBufSize <=? sz p)%Z; [split; reflexivity|split; [exact Hp|reflexivity]].
Qed.


Lemma signed_facts64 k n : signed k = true -> n < 2 ^ 64 ->
  model_sval k (sgn 64 n) = sz n /\ model_mag k (sgn 64 n) = tmag n 0.
Proof. intros Hk Hn. change (sgn 64 n) with (sz n). apply signed_facts; assumption. Qed.

(** ---- fmtInt ---- *)
Theorem fmtInt_is_translation fuel w tr buf sb g base pad :
  buf_ok buf -> gany_wf g -> base = 8 \/ base = 10 \/ base = 16 -> pad < 2 ^ 64 -> (34 <= fuel)%nat ->
  exists cs buf',
    fmt_int buf (of_gany g) (Z.of_N base) (sz pad) = Ok (cs, buf') /\
    go_kfmt_fmtInt fuel (mkw tr buf sb) w g base pad = GOk (mkw (pushed w cs tr) buf' sb, tt) /\
    buf_ok buf'.
Proof.
  intros Hb Hg Hbase Hp Hf.
  assert (HbZ : (Z.of_N base = 8 \/ Z.of_N base = 10 \/ Z.of_N base = 16)%Z) by lia.
  destruct (fmt_int_total buf (of_gany g) (Z.of_N base) (sz pad) Hb HbZ) as [[cs buf'] [E Hl]].
  exists cs, buf'. split; [exact E|].
  destruct (pad_clamp pad Hp) as [Hp' Hpz]. cbv zeta in Hp', Hpz.
  unfold go_kfmt_fmtInt.
  assert (Hpar : forall d0 c0 : N,
    (if base =? 8 then (gw 64 8, gw 8 48)
       else let '(v_divider, v_padCh) :=
              if base =? 10 then (gw 64 10, gw 8 32)
              else let '(v_divider, v_padCh) := if base =? 16 then (gw 64 16, gw 8 48) else (d0, c0) in
                   (v_divider, v_padCh) in
            (v_divider, v_padCh)) = (base, if (Z.of_N base =? 10)%Z then 32 else 48)).
  { intros d0 c0. destruct Hbase as [-> | [-> | ->]]; reflexivity. }
  cbv beta zeta. rewrite Hpar. cbv beta iota zeta.
  set (pl := if gsle 64 kfmt_maxBufSize pad then gsub 64 kfmt_maxBufSize 1 else pad) in *.
  set (pc := if (Z.of_N base =? 10)%Z then 32 else 48) in *.
  destruct g as [n|n|n|n|n|n|n|n|n|n|b|s|s|]; cbn [gany_wf] in Hg;
    cbn [gas_u8 gas_u16 gas_u32 gas_u64 gas_uptr gas_i8 gas_i16 gas_i32 gas_i64 gas_int of_gany] in *.
  11-14: destruct Hbase as [-> | [-> | ->]];
    match type of E with fmt_int ?b ?a ?x ?y = _ =>
      assert (E' : fmt_int b a x y = Ok ([kfmt_errWrongArgType], b)) by reflexivity; rewrite E' in E end;
    injection E as <- <-; (split; [reflexivity|exact Hb]).
  all: rewrite fmt_int_core in E by exact HbZ; rewrite N2Z.id in E; rewrite <- Hpz in E; fold pc in E.
  (* unsigned kinds *)
  1-5: match type of E with int_core _ _ _ _ (model_sval ?k _ <? 0)%Z _ = _ =>
         assert (Hn : n < 2 ^ 64) by (first [exact Hg | eapply N.lt_trans; [exact Hg|reflexivity]]);
         destruct (unsigned_facts k n eq_refl Hn) as [F1 F2]; rewrite F1, F2 in E end.
  1-3,5: apply k8_sim; [exact Hb|exact Hp'|reflexivity|rewrite gw64_small' by exact Hn; exact Hn|exact Hf|exact E].
  1: rewrite (gw64_small' n) in E by exact Hn;
     apply k8_sim; [exact Hb|exact Hp'|reflexivity|exact Hn|exact Hf|exact E].
  (* signed kinds *)
  1-3: match type of E with int_core _ _ _ _ (model_sval ?k (sgn ?bits _) <? 0)%Z _ = _ =>
         assert (Hs : gsext bits 64 n < 2 ^ 64) by (apply gsext_lt; [tauto|exact Hg]);
         rewrite <- (gsext_sgn bits n) in E by (try exact Hg; tauto);
         destruct (signed_facts k (gsext bits 64 n) eq_refl Hs) as [F1 F2]; rewrite F1, F2 in E end;
       apply k8_sim; [exact Hb|exact Hp'|exact Hs|reflexivity|exact Hf|exact E].
  1-2: match type of E with int_core _ _ _ _ (model_sval ?k _ <? 0)%Z _ = _ =>
         destruct (signed_facts64 k n eq_refl Hg) as [F1 F2]; rewrite F1, F2 in E end.
  - apply k8_sim; [exact Hb|exact Hp'|exact Hg|reflexivity|exact Hf|exact E].
  - rewrite gw64_small' by exact Hg. apply k8_sim; [exact Hb|exact Hp'|exact Hg|reflexivity|exact Hf|exact E].
Qed.

(** ---- fmtRepeat, fmtBool ---- *)
Lemma pushed_cons w c cs tr : pushed w (c :: cs) tr = pushed w cs (ev w c :: tr).
Proof. unfold pushed. cbn [map rev]. rewrite <- app_assoc. reflexivity. Qed.

Lemma pushed_app w a b tr : pushed w (a ++ b) tr = pushed w b (pushed w a tr).
Proof. unfold pushed. rewrite map_app, rev_app_distr, app_assoc. reflexivity. Qed.

Lemma repeat_sim ch cnt w buf sb : cnt < 2 ^ 64 -> forall k i tr f,
  (Z.of_N i + Z.of_nat k = Z.max 0 (sz cnt))%Z -> (k < f)%nat ->
  gloop f (go_kfmt_fmtRepeat_loop1 ch cnt w) (mkw tr buf sb, i)
    = GOk (inl (mkw (pushed w (repeat sb k) tr) buf sb, i + N.of_nat k)).
Proof.
  intros Hc. assert (Hc63 : (sz cnt < 9223372036854775808)%Z).
  { unfold sz. rewrite two64_lit in Hc. destruct (N.ltb_spec cnt 9223372036854775808); lia. }
  induction k as [|k IH]; intros i tr f Hik Hf; (destruct f as [|f]; [lia|]);
    rewrite gloop_S; unfold go_kfmt_fmtRepeat_loop1 at 1; cbv beta iota zeta; wsimp;
    rewrite gslt_sz by (try exact Hc; rewrite two64_lit; lia); rewrite (sz_small i) by lia.
  - destruct (Z.ltb_spec (Z.of_N i) (sz cnt)); [lia|]. rewrite N.add_0_r. reflexivity.
  - destruct (Z.ltb_spec (Z.of_N i) (sz cnt)); [|lia].
    rewrite (gw64_small' (i + 1)) by (rewrite two64_lit; lia).
    transitivity (gloop f (go_kfmt_fmtRepeat_loop1 ch cnt w) (mkw (ev w sb :: tr) buf sb, i + 1)); [reflexivity|].
    rewrite IH by lia. cbn [repeat]. rewrite pushed_cons.
    replace (i + 1 + N.of_nat k) with (i + N.of_nat (S k)) by lia. reflexivity.
Qed.

Theorem fmtRepeat_is_translation fuel w tr buf x ch cnt :
  cnt < 2 ^ 64 -> (Z.to_nat (sz cnt) < fuel)%nat ->
  fmt_repeat ch (sz cnt) = Ok (repeat [ch] (Z.to_nat (sz cnt))) /\
  go_kfmt_fmtRepeat fuel (mkw tr buf [x]) w ch cnt
    = GOk (mkw (pushed w (repeat [ch] (Z.to_nat (sz cnt))) tr) buf [ch], tt).
Proof.
  intros Hc Hf. split; [apply fmt_repeat_ok|].
  unfold go_kfmt_fmtRepeat. wsimp. change (gset [x] 0 ch) with (Some [ch]). cbv beta iota zeta.
  change (gw 64 0) with 0. change (set_f_world_singleByte (mkw tr buf [x]) [ch]) with (mkw tr buf [ch]).
  rewrite (repeat_sim ch cnt w buf [ch] Hc (Z.to_nat (sz cnt)) 0 tr fuel) by lia. reflexivity.
Qed.

Theorem fmtBool_is_translation w tr buf sb g :
  go_kfmt_fmtBool (mkw tr buf sb) w g = GOk (mkw (pushed w (fmt_bool (of_gany g)) tr) buf sb, tt).
Proof. destruct g as [n|n|n|n|n|n|n|n|n|n|b|s|s|]; try destruct b; reflexivity. Qed.

(** ---- fmtString ---- *)
Lemma sz_zi_wrap z : sz (zi z) = wrap_int z.
Proof.
  unfold sz, zi, wrap_int, two63z, two64z.
  destruct (N.ltb_spec (Z.to_N (z mod 18446744073709551616)) 9223372036854775808); lia.
Qed.

Lemma glen_zi (s : list N) : glen s < 2 ^ 64 -> glen s = zi (Z.of_nat (length s)).
Proof. unfold glen. rewrite two64_lit. intros H. rewrite zi_small by lia. lia. Qed.

(** [for i := 0; i < len(s); i++ { singleByte[0] = s[i]; doWrite(w, singleByte) }] *)
Lemma singles_sim s pad g w buf : glen s < 9223372036854775808 -> forall k i tr x f,
  (i + k = length s)%nat -> (k < f)%nat ->
  exists y,
    gloop f (go_kfmt_fmtString_loop3 s pad g w) (mkw tr buf [x], N.of_nat i)
      = GOk (inl (mkw (pushed w (map (fun c => [c]) (skipn i s)) tr) buf [y], N.of_nat (length s))).
Proof.
  intros Hs. unfold glen in Hs.
  induction k as [|k IH]; intros i tr x f Hik Hf; (destruct f as [|f]; [lia|]);
    rewrite gloop_S; unfold go_kfmt_fmtString_loop3 at 1; cbv beta iota zeta; wsimp;
    rewrite gslt_small by (rewrite two63_lit; unfold glen; lia); unfold glen.
  - destruct (N.ltb_spec (N.of_nat i) (N.of_nat (length s))); [lia|].
    rewrite skipn_all2 by lia. exists x. replace i with (length s) by lia. reflexivity.
  - destruct (N.ltb_spec (N.of_nat i) (N.of_nat (length s))); [|lia].
    rewrite gidxs_small by (rewrite two63_lit; lia). rewrite gidx_some by (unfold glen; lia).
    rewrite Nat2N.id. set (c := nth i s 0).
    change (gset [x] 0 c) with (Some [c]). cbv beta iota. wsimp.
    rewrite (gw64_small' (N.of_nat i + 1)) by (rewrite two64_lit; lia).
    replace (N.of_nat i + 1) with (N.of_nat (S i)) by lia.
    destruct (IH (S i) (ev w [c] :: tr) c f ltac:(lia) ltac:(lia)) as [y Hy].
    exists y.
    transitivity (gloop f (go_kfmt_fmtString_loop3 s pad g w) (mkw (ev w [c] :: tr) buf [c], N.of_nat (S i))); [reflexivity|].
    rewrite Hy. rewrite (FmtScanProofs.skipn_nth_cons s i c) by (unfold c; apply nth_error_nth'; lia).
    cbn [map]. rewrite pushed_cons. reflexivity.
Qed.

Theorem fmtString_is_translation fuel w tr buf x g pad :
  pad < 2 ^ 64 ->
  match g with GAStr s | GABytes s =>
    glen s < 9223372036854775808 /\ (length s < fuel)%nat /\
    (Z.to_nat (wrap_int (sz pad - Z.of_nat (length s))) < fuel)%nat
  | _ => True end ->
  exists cs y,
    fmt_string (of_gany g) (sz pad) = Ok cs /\
    go_kfmt_fmtString fuel (mkw tr buf [x]) w g pad = GOk (mkw (pushed w cs tr) buf [y], tt).
Proof.
  intros Hp Hg.
  destruct g as [n|n|n|n|n|n|n|n|n|n|b|s|s|]; cbn [of_gany fmt_string];
    try (exists [kfmt_errWrongArgType], x; split; reflexivity).
  - destruct Hg as [Hs [Hf1 Hf2]].
    assert (Hs64 : glen s < 2 ^ 64) by (rewrite two64_lit; lia).
    set (cnt := gsub 64 pad (glen s)).
    assert (Hcnt : sz cnt = wrap_int (sz pad - Z.of_nat (length s))).
    { unfold cnt. rewrite <- (zi_sz pad) at 1 by exact Hp. rewrite (glen_zi s Hs64), gsub_zi. apply sz_zi_wrap. }
    assert (Hcl : cnt < 2 ^ 64) by (unfold cnt, gsub, gw; apply N.mod_lt; discriminate).
    destruct (fmtRepeat_is_translation fuel w tr buf x 32 cnt Hcl ltac:(rewrite Hcnt; exact Hf2)) as [R1 R2].
    rewrite Hcnt in R1, R2. rewrite R1, singles_ok. cbn [bind].
    destruct (singles_sim s pad (GAStr s) w buf Hs (length s) 0%nat
                (pushed w (repeat [32] (Z.to_nat (wrap_int (sz pad - Z.of_nat (length s))))) tr) 32 fuel ltac:(lia) Hf1) as [y Hy].
    eexists. exists y. split; [reflexivity|].
    unfold go_kfmt_fmtString. cbv beta zeta. fold cnt. rewrite R2. cbv beta iota zeta.
    change (gw 64 0) with (N.of_nat 0). rewrite Hy. cbv beta iota zeta.
    unfold go_kfmt_fmtString_k2. cbn [skipn]. rewrite pushed_app. reflexivity.
  - destruct Hg as [Hs [Hf1 Hf2]].
    assert (Hs64 : glen s < 2 ^ 64) by (rewrite two64_lit; lia).
    set (cnt := gsub 64 pad (glen s)).
    assert (Hcnt : sz cnt = wrap_int (sz pad - Z.of_nat (length s))).
    { unfold cnt. rewrite <- (zi_sz pad) at 1 by exact Hp. rewrite (glen_zi s Hs64), gsub_zi. apply sz_zi_wrap. }
    assert (Hcl : cnt < 2 ^ 64) by (unfold cnt, gsub, gw; apply N.mod_lt; discriminate).
    destruct (fmtRepeat_is_translation fuel w tr buf x 32 cnt Hcl ltac:(rewrite Hcnt; exact Hf2)) as [R1 R2].
    rewrite Hcnt in R1, R2. rewrite R1. cbn [bind].
    eexists. exists 32. split; [reflexivity|].
    unfold go_kfmt_fmtString. cbv beta zeta. fold cnt. rewrite R2. cbv beta iota zeta.
    unfold go_kfmt_fmtString_k2. wsimp. rewrite pushed_app. reflexivity.
Qed.

(** ---- the bytes the writer received ---- *)
(** concatenation, in the order of the calls, of the byte slices handed to doWrite *)
Definition trace_bytes (tr : list gcall) : list N :=
  List.concat (map (fun c => match c with GCall _ [_; GBytes b] => b | _ => [] end) (rev tr)).

Lemma trace_bytes_pushed w cs tr : trace_bytes (pushed w cs tr) = trace_bytes tr ++ List.concat cs.
Proof.
  unfold trace_bytes, pushed. rewrite rev_app_distr, rev_involutive, map_app, concat_app, map_map.
  f_equal. f_equal. cbn [ev]. apply map_id.
Qed.

(** the three theorems in the form used by Props/C15_trans.v: what the translated function returns, and that the
    bytes its doWrite calls carry are the concatenation of the model's chunks *)
Theorem fmtInt_trans_full fuel w tr buf sb g base pad :
  length buf = N.to_nat kfmt_numFmtBufLen -> gany_wf g -> base = 8 \/ base = 10 \/ base = 16 -> pad < 2 ^ 64 ->
  (34 <= fuel)%nat ->
  exists cs buf',
    fmt_int buf (of_gany g) (Z.of_N base) (sz pad) = Ok (cs, buf') /\
    go_kfmt_fmtInt fuel (mk_go_kfmt_world tr buf sb) w g base pad
      = GOk (mk_go_kfmt_world (pushed w cs tr) buf' sb, tt) /\
    trace_bytes (pushed w cs tr) = trace_bytes tr ++ List.concat cs /\
    length buf' = N.to_nat kfmt_numFmtBufLen.
Proof.
  intros Hb Hg Hbase Hp Hf.
  destruct (fmtInt_is_translation fuel w tr buf sb g base pad Hb Hg Hbase Hp Hf) as [cs [buf' [E [T Hb']]]].
  exists cs, buf'. repeat split; [exact E|exact T|apply trace_bytes_pushed|exact Hb'].
Qed.

Theorem fmtString_trans_full fuel w tr buf x g pad :
  pad < 2 ^ 64 ->
  match g with GAStr s | GABytes s =>
    glen s < 9223372036854775808 /\ (length s < fuel)%nat /\
    (Z.to_nat (wrap_int (sz pad - Z.of_nat (length s))) < fuel)%nat
  | _ => True end ->
  exists cs y,
    fmt_string (of_gany g) (sz pad) = Ok cs /\
    go_kfmt_fmtString fuel (mk_go_kfmt_world tr buf [x]) w g pad
      = GOk (mk_go_kfmt_world (pushed w cs tr) buf [y], tt) /\
    trace_bytes (pushed w cs tr) = trace_bytes tr ++ List.concat cs.
Proof.
  intros Hp Hg. destruct (fmtString_is_translation fuel w tr buf x g pad Hp Hg) as [cs [y [E T]]].
  exists cs, y. repeat split; [exact E|exact T|apply trace_bytes_pushed].
Qed.

Theorem fmtBool_trans_full w tr buf sb g :
  go_kfmt_fmtBool (mk_go_kfmt_world tr buf sb) w g
    = GOk (mk_go_kfmt_world (pushed w (fmt_bool (of_gany g)) tr) buf sb, tt) /\
  trace_bytes (pushed w (fmt_bool (of_gany g)) tr) = trace_bytes tr ++ List.concat (fmt_bool (of_gany g)).
Proof. split; [apply fmtBool_is_translation|apply trace_bytes_pushed]. Qed.

Theorem fmtRepeat_trans_full fuel w tr buf x ch cnt :
  cnt < 2 ^ 64 -> (Z.to_nat (sz cnt) < fuel)%nat ->
  fmt_repeat ch (sz cnt) = Ok (repeat [ch] (Z.to_nat (sz cnt))) /\
  go_kfmt_fmtRepeat fuel (mk_go_kfmt_world tr buf [x]) w ch cnt
    = GOk (mk_go_kfmt_world (pushed w (repeat [ch] (Z.to_nat (sz cnt))) tr) buf [ch], tt).
Proof. apply fmtRepeat_is_translation. Qed.

(** a base other than 8 / 10 / 16 leaves divider = 0: the first [uval % divider] is Go's division-by-zero panic,
    in the model ([Panic DivZero]) and in the translation alike *)
Theorem fmtInt_bad_base_panics fuel w tr buf sb n pad :
  (1 <= fuel)%nat -> length buf = N.to_nat kfmt_numFmtBufLen ->
  go_kfmt_fmtInt fuel (mk_go_kfmt_world tr buf sb) w (GAU8 n) 7 pad = GPanic /\
  fmt_int buf (AInt U8 (Z.of_N n)) 7 (sz pad) = Panic DivZero.
Proof.
  intros Hf Hb. destruct fuel as [|f]; [lia|]. split.
  - unfold go_kfmt_fmtInt. cbv beta zeta. cbn [gas_u8 N.eqb Pos.eqb]. cbv beta iota zeta.
    unfold go_kfmt_fmtInt_k8. cbv beta iota zeta. rewrite gloop_S. reflexivity.
  - reflexivity.
Qed.
