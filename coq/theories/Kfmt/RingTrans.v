(** The hand-written model of the early ring buffer (Kfmt/Ring.v: [ring_write], [ring_read]) IS the
    Gallina translation that gen/gotrans regenerates from kernel/kfmt/ringbuf.go on every run
    (Gen/Trans_kfmt_ring.v: [go_kfmt_ringBuffer_Write], [go_kfmt_ringBuffer_Read]), on every state that
    satisfies the model's index invariant [valid] (rIndex, wIndex < ringBufferSize, which
    Kfmt/RingProofs.v shows every operation maintains) - values, new state and run-time panics alike.

    The translation works on a record whose [buffer] is the list of the ringBufferSize bytes and whose
    indices are Go ints (two's complement, signed comparisons, wrap at 2^64); the model keeps the
    bytes in a PositiveMap and the indices in unbounded [N].  [to_go] is the abstraction: the table
    of [mget] over 0 .. len-1.  Write's [for _, b := range p] is a fuelled loop in the translation:
    with fuel > len(p) (one iteration per byte and the final test) it never reports [GFuel]. *)
From Coq Require Import NArith ZArith String List Bool Lia FMapPositive.
From Coq Require Import ZifyBool ZifyN ZifyNat.
From FF Require Import Lib.Word Lib.GoOps Lib.GoOpsExt Gen.Consts_kfmt Gen.Trans_kfmt_ring.
From FF Require Import Kfmt.Fmt Kfmt.Ring Kfmt.RingProofs.
Import ListNotations.
Local Open Scope N_scope.
Ltac Zify.zify_post_hook ::= Z.div_mod_to_equations.

(** ---- the abstraction ---- *)
Definition buf_list (m : rmem) : list N := map (fun k => mget m (N.of_nat k)) (seq 0 (N.to_nat ring_len)).

Definition to_go (rb : ring) : go_kfmt_ringBuffer :=
  mk_go_kfmt_ringBuffer (buf_list (rbuf rb)) (rIdx rb) (wIdx rb).

(** facts about the generated constant (they hold for whatever power of two the source declares) *)
Lemma ring_len_small : ring_len < two63. Proof. reflexivity. Qed.
Lemma ring_mask_const : gsub 64 kfmt_ringBufferSize 1 = ring_size - 1. Proof. reflexivity. Qed.
Lemma ring_len_SZ : ring_len = SZ. Proof. reflexivity. Qed.

Lemma buf_list_length m : length (buf_list m) = N.to_nat ring_len.
Proof. unfold buf_list. rewrite map_length, seq_length. reflexivity. Qed.

Lemma buf_list_glen m : glen (buf_list m) = ring_len.
Proof. unfold glen. rewrite buf_list_length. apply N2Nat.id. Qed.

Lemma buf_list_nth m j : (j < N.to_nat ring_len)%nat -> nth j (buf_list m) 0 = mget m (N.of_nat j).
Proof.
  intros H. unfold buf_list. apply nth_error_nth.
  rewrite nth_error_map, (nth_error_nth' (seq 0 (N.to_nat ring_len)) 0%nat) by (rewrite seq_length; exact H).
  rewrite seq_nth by exact H. reflexivity.
Qed.

(** rb.buffer[i] = v *)
Lemma buf_list_set m i v : i < ring_len -> gset (buf_list m) i v = Some (buf_list (mset m i v)).
Proof.
  intros H. destruct (gset (buf_list m) i v) as [l'|] eqn:E.
  2:{ rewrite gset_some in E by (rewrite buf_list_glen; exact H). discriminate. }
  f_equal. apply nth_ext with (d := 0) (d' := 0).
  - rewrite (gset_length _ _ _ _ E), !buf_list_length. reflexivity.
  - intros j Hj. rewrite (gset_length _ _ _ _ E), buf_list_length in Hj.
    rewrite (gset_nth _ _ _ _ j E), !buf_list_nth by exact Hj. rewrite mget_mset.
    destruct (Nat.eqb_spec j (N.to_nat i)); destruct (N.eqb_spec (N.of_nat j) i); try reflexivity; lia.
Qed.

(** rb.buffer[lo:hi] *)
Lemma buf_list_slice m lo hi : lo <= hi -> hi <= ring_len ->
  gslice (buf_list m) lo hi = Some (map (fun k => mget m (lo + N.of_nat k)) (seq 0 (N.to_nat (hi - lo)))).
Proof.
  intros H1 H2. unfold buf_list. rewrite gslice_map_seq by lia. f_equal.
  apply map_ext. intros k. f_equal. lia.
Qed.

(** ---- Write ---- *)
Definition write_result (p : list N) (o : outcome ring) : gres (go_kfmt_ringBuffer * (N * option string)) :=
  match o with
  | Ok rb' => GOk (to_go rb', (glen p, None))
  | Panic _ => GPanic
  | OutOfFuel => GFuel
  end.

(** one iteration of the model, on a valid ring *)
Lemma ring_write1_valid rb b : valid rb ->
  ring_write1 rb b =
  Ok (mkRing (mset (rbuf rb) (wIdx rb) b)
             (if rIdx rb =? N.land (wIdx rb + 1) (ring_size - 1) then N.land (rIdx rb + 1) (ring_size - 1) else rIdx rb)
             (N.land (wIdx rb + 1) (ring_size - 1))).
Proof.
  intros [_ Hw]. unfold ring_write1, rset. rewrite ring_len_SZ.
  destruct (N.ltb_spec (wIdx rb) SZ); [reflexivity|lia].
Qed.

Theorem write_is_translation rb p fuel : valid rb -> (length p < fuel)%nat ->
  go_kfmt_ringBuffer_Write fuel (to_go rb) p = write_result p (ring_write rb p).
Proof.
  intros Hv Hf. unfold go_kfmt_ringBuffer_Write.
  match goal with |- context [gloop ?fu ?f ?s] => set (step := f) end.
  (* the loop invariant: from index k the loop does what the model does on the rest of p *)
  assert (L : forall n k rb0 fu, valid rb0 -> (k + n = length p)%nat -> (n < fu)%nat ->
            gloop fu step (to_go rb0, N.of_nat k) =
            match ring_write rb0 (skipn k p) with
            | Ok rb' => GOk (inl (to_go rb', glen p))
            | Panic _ => GPanic
            | OutOfFuel => GFuel
            end).
  { induction n as [|n IH]; intros k rb0 fu Hv0 Hk Hfu; (destruct fu as [|fu]; [lia|]).
    - (* k = len(p): the condition is false, break *)
      rewrite skipn_all2 by lia. cbn [ring_write].
      rewrite gloop_break with (s' := (to_go rb0, N.of_nat k)).
      + unfold glen. repeat f_equal. lia.
      + unfold step. unfold glen. destruct (N.ltb_spec (N.of_nat k) (N.of_nat (length p))); [lia|reflexivity].
    - (* k < len(p): one iteration *)
      assert (Hlt : (k < length p)%nat) by lia.
      destruct (nth_error p k) as [b|] eqn:Eb; [|apply nth_error_None in Eb; lia].
      assert (Esk : skipn k p = b :: skipn (S k) p).
      { clear - Eb. revert p Eb. induction k as [|k IH]; intros [|x p] Eb; try discriminate.
        - injection Eb as ->. reflexivity.
        - cbn [nth_error] in Eb. cbn [skipn]. apply IH. exact Eb. }
      rewrite Esk. cbn [ring_write]. rewrite ring_write1_valid by exact Hv0. cbn [bind].
      set (rb1 := mkRing _ _ _).
      assert (Hv1 : valid rb1).
      { destruct (write1_spec rb0 b Hv0) as (rb' & E' & V' & _). rewrite ring_write1_valid in E' by exact Hv0.
        injection E' as <-. exact V'. }
      rewrite <- (IH (S k) rb1 fu Hv1 ltac:(lia) ltac:(lia)).
      apply gloop_next. unfold step, to_go.
      destruct Hv0 as [Hr Hw]. unfold SZ, ring_size in Hr, Hw.
      assert (Hsz : kfmt_ringBufferSize < two63) by reflexivity. unfold two63 in Hsz.
      unfold glen. destruct (N.ltb_spec (N.of_nat k) (N.of_nat (length p))); [|lia].
      unfold gidx. rewrite Nat2N.id, Eb.
      cbn [f_ringBuffer_buffer f_ringBuffer_rIndex f_ringBuffer_wIndex set_f_ringBuffer_buffer set_f_ringBuffer_rIndex set_f_ringBuffer_wIndex rbuf rIdx wIdx].
      rewrite gsets_small by (unfold two63; lia).
      rewrite buf_list_set by (unfold ring_len, kfmt_ringBufferLen; unfold kfmt_ringBufferSize in Hw; exact Hw).
      cbn [f_ringBuffer_buffer f_ringBuffer_rIndex f_ringBuffer_wIndex set_f_ringBuffer_buffer set_f_ringBuffer_rIndex set_f_ringBuffer_wIndex rbuf rIdx wIdx].
      rewrite ring_mask_const, !gw64_small' by lia. unfold rb1, ring_size.
      replace (N.of_nat k + 1) with (N.of_nat (S k)) by lia.
      destruct (rIdx rb0 =? N.land (wIdx rb0 + 1) (kfmt_ringBufferSize - 1)); reflexivity. }
  change 0 with (N.of_nat 0).
  rewrite (L (length p) 0%nat rb fuel Hv eq_refl Hf). cbn [skipn].
  destruct (ring_write rb p) as [rb'| |]; reflexivity.
Qed.

(** the translation keeps the index invariant (so the theorems compose over histories) *)
Lemma write_keeps_valid rb p rb' : valid rb -> ring_write rb p = Ok rb' -> valid rb'.
Proof.
  intros Hv E. destruct (write_spec p rb Hv) as (rb2 & E2 & V2 & _). rewrite E in E2. injection E2 as <-. exact V2.
Qed.

(** ---- Read ---- *)
Definition eof_err (eof : bool) : option string := if eof then Some "io.EOF"%string else None.

(** [d] = the bytes copied into p; p afterwards = d followed by the untouched rest of p *)
Definition read_result (p : list N) (o : outcome (list N * bool * ring))
  : gres (go_kfmt_ringBuffer * (N * option string * list N)) :=
  match o with
  | Ok (d, eof, rb') => GOk (to_go rb', (glen d, eof_err eof, d ++ skipn (length d) p))
  | Panic _ => GPanic
  | OutOfFuel => GFuel
  end.

Lemma map_seq_glen {A} (f : nat -> A) n : N.of_nat (length (map f (seq 0 n))) = N.of_nat n.
Proof. rewrite map_length, seq_length. reflexivity. Qed.

Theorem read_is_translation rb p : valid rb -> glen p < two63 ->
  go_kfmt_ringBuffer_Read (to_go rb) p = read_result p (ring_read rb (glen p)).
Proof.
  intros [Hr Hw] Hp. unfold SZ, ring_size in Hr, Hw.
  assert (Hsz : kfmt_ringBufferSize < two63) by reflexivity.
  assert (Hlen : ring_len = kfmt_ringBufferSize) by reflexivity.
  unfold two63 in *.
  unfold go_kfmt_ringBuffer_Read, ring_read, to_go.
  cbn [f_ringBuffer_buffer f_ringBuffer_rIndex f_ringBuffer_wIndex set_f_ringBuffer_buffer set_f_ringBuffer_rIndex set_f_ringBuffer_wIndex rbuf rIdx wIdx].
  rewrite !buf_list_glen.
  rewrite (gslt_small (rIdx rb) (wIdx rb)), (gslt_small (wIdx rb) (rIdx rb)) by (unfold two63; lia).
  destruct (N.ltb_spec (rIdx rb) (wIdx rb)) as [A|A].
  - (* rIndex < wIndex *)
    rewrite gsub64_small' by lia.
    rewrite gslt_small by (unfold two63; lia).
    assert (En : (if glen p <? wIdx rb - rIdx rb then glen p else wIdx rb - rIdx rb) = N.min (wIdx rb - rIdx rb) (glen p)) by
      (destruct (N.ltb_spec (glen p) (wIdx rb - rIdx rb)); lia).
    set (n := N.min (wIdx rb - rIdx rb) (glen p)) in *.
    assert (Hn : n <= wIdx rb - rIdx rb /\ n <= glen p) by (unfold n; lia).
    assert (K : forall m, m = n ->
      match gslices 64 (buf_list (rbuf rb)) (rIdx rb) (gw 64 (rIdx rb + m)) with
      | Some t => GOk (mk_go_kfmt_ringBuffer (buf_list (rbuf rb)) (gw 64 (rIdx rb + m)) (wIdx rb), (m, @None string, gcopy p t))
      | None => GPanic
      end = read_result p (d <- rslice (rbuf rb) (rIdx rb) (rIdx rb + n);; Ok (d, false, mkRing (rbuf rb) (rIdx rb + n) (wIdx rb)))).
    { intros m ->. rewrite gw64_small' by lia. rewrite gslices_small by (unfold two63; lia).
      rewrite buf_list_slice by lia. unfold rslice.
      destruct (N.leb_spec (rIdx rb) (rIdx rb + n)); [|lia]. destruct (N.leb_spec (rIdx rb + n) ring_len); [|lia].
      cbn [andb bind read_result eof_err]. unfold to_go. cbn [rbuf rIdx wIdx].
      replace (rIdx rb + n - rIdx rb) with n by lia.
      rewrite gcopy_short by (rewrite map_length, seq_length; unfold glen in Hn; lia).
      unfold glen. rewrite map_seq_glen, N2Nat.id. reflexivity. }
    destruct (N.ltb_spec (glen p) (wIdx rb - rIdx rb)) as [B|B].
    + rewrite <- (K (glen p)) by lia.
      destruct (gslices 64 (buf_list (rbuf rb)) (rIdx rb) (gw 64 (rIdx rb + glen p))); reflexivity.
    + rewrite <- (K (wIdx rb - rIdx rb)) by lia.
      destruct (gslices 64 (buf_list (rbuf rb)) (rIdx rb) (gw 64 (rIdx rb + (wIdx rb - rIdx rb)))); reflexivity.
  - destruct (N.ltb_spec (wIdx rb) (rIdx rb)) as [A2|A2].
    + (* rIndex > wIndex *)
      rewrite gsub64_small' by lia.
      rewrite gslt_small by (unfold two63; lia).
      set (n := N.min (ring_len - rIdx rb) (glen p)).
      assert (Hn : n <= ring_len - rIdx rb /\ n <= glen p) by (unfold n; lia).
      assert (K : forall m, m = n ->
        match gslices 64 (buf_list (rbuf rb)) (rIdx rb) (gw 64 (rIdx rb + m)) with
        | Some t =>
            if gw 64 (rIdx rb + m) =? ring_len
            then GOk (mk_go_kfmt_ringBuffer (buf_list (rbuf rb)) (gw 64 0) (wIdx rb), (m, @None string, gcopy p t))
            else GOk (mk_go_kfmt_ringBuffer (buf_list (rbuf rb)) (gw 64 (rIdx rb + m)) (wIdx rb), (m, @None string, gcopy p t))
        | None => GPanic
        end = read_result p (d <- rslice (rbuf rb) (rIdx rb) (rIdx rb + n);;
                             Ok (d, false, mkRing (rbuf rb) (if rIdx rb + n =? ring_len then 0 else rIdx rb + n) (wIdx rb)))).
      { intros m ->. rewrite gw64_small' by lia. rewrite gslices_small by (unfold two63; lia).
        rewrite buf_list_slice by lia. unfold rslice.
        destruct (N.leb_spec (rIdx rb) (rIdx rb + n)); [|lia]. destruct (N.leb_spec (rIdx rb + n) ring_len); [|lia].
        cbn [andb bind read_result eof_err]. unfold to_go. cbn [rbuf rIdx wIdx].
        replace (rIdx rb + n - rIdx rb) with n by lia.
        rewrite gcopy_short by (rewrite map_length, seq_length; unfold glen in Hn; lia).
        unfold glen. rewrite !map_seq_glen, N2Nat.id. change (gw 64 0) with 0.
        destruct (rIdx rb + n =? ring_len); reflexivity. }
      destruct (N.ltb_spec (glen p) (ring_len - rIdx rb)) as [B|B].
      * rewrite <- (K (glen p)) by lia.
        destruct (gslices 64 (buf_list (rbuf rb)) (rIdx rb) (gw 64 (rIdx rb + glen p))); reflexivity.
      * rewrite <- (K (ring_len - rIdx rb)) by lia.
        destruct (gslices 64 (buf_list (rbuf rb)) (rIdx rb) (gw 64 (rIdx rb + (ring_len - rIdx rb)))); reflexivity.
    + (* rIndex == wIndex: io.EOF *)
      reflexivity.
Qed.

(** ---- the invariant, and the zero value ---- *)
Lemma read_keeps_valid rb plen d eof rb' : valid rb -> ring_read rb plen = Ok (d, eof, rb') -> valid rb'.
Proof.
  intros [Hr Hw]. unfold ring_read. rewrite ring_len_SZ.
  destruct (N.ltb_spec (rIdx rb) (wIdx rb)) as [A|A].
  - destruct (rslice _ _ _); cbn [bind]; intros E; [|discriminate|discriminate].
    injection E as _ _ <-. split; cbn [rIdx wIdx]; lia.
  - destruct (N.ltb_spec (wIdx rb) (rIdx rb)) as [B|B].
    + destruct (rslice _ _ _); cbn [bind]; intros E; [|discriminate|discriminate].
      match type of E with Ok (_, _, ?r) = _ => assert (E' : rb' = r) by congruence end.
      rewrite E'. split; cbn [rIdx wIdx]; [|exact Hw].
      destruct (N.eqb_spec (rIdx rb + N.min (SZ - rIdx rb) plen) SZ); [reflexivity|lia].
    + intros E. injection E as _ _ <-. split; assumption.
Qed.

Theorem trans_keeps_valid :
  valid empty_ring /\
  (forall rb p rb', valid rb -> ring_write rb p = Ok rb' -> valid rb') /\
  (forall rb plen d eof rb', valid rb -> ring_read rb plen = Ok (d, eof, rb') -> valid rb').
Proof.
  split; [exact valid_empty|]. split; [exact write_keeps_valid|exact read_keeps_valid].
Qed.

(** the model's empty ring is the zero value of the Go struct *)
Theorem to_go_empty : to_go empty_ring = mk_go_kfmt_ringBuffer (repeat 0 (N.to_nat ring_len)) 0 0.
Proof.
  assert (H : forall l : list nat, map (fun k => mget (PositiveMap.empty N) (N.of_nat k)) l = repeat 0 (length l)).
  { induction l as [|x l IH]; [reflexivity|]. cbn [map length repeat]. rewrite IH. unfold mget. rewrite PositiveMap.gempty. reflexivity. }
  unfold to_go, empty_ring, buf_list. cbn [rbuf rIdx wIdx]. rewrite H, seq_length. reflexivity.
Qed.
