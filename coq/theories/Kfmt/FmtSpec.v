(** Specification of the kernel formatter, written from the property text (C15) and independent of
    the model in Kfmt/Fmt.v (only the argument type [arg] and the generated marker strings are shared).
    Definitions only. *)
From Coq Require Import NArith ZArith List Bool.
From FF Require Import Lib.Word Gen.Consts_kfmt Kfmt.Fmt.
Import ListNotations.
Local Open Scope N_scope.

(** ---- well-formed formats ---- *)
Inductive verb := Vd | Vx | Vo | Vs | Vt.
Inductive piece :=
| Lit (s : list N)                    (* literal text: any bytes except '%' *)
| Percent                             (* "%%" *)
| Verb (wd : list N) (v : verb).      (* '%', the decimal digits of the optional width, the verb *)

Definition verb_char (v : verb) : N :=
  match v with Vd => 100 | Vx => 120 | Vo => 111 | Vs => 115 | Vt => 116 end.

(** value of a decimal digit string (most significant first); [] = no width = 0 *)
Definition width_of (wd : list N) : N := fold_left (fun a d => a * 10 + d) wd 0.

Definition encode_piece (p : piece) : list N :=
  match p with
  | Lit s => s
  | Percent => [37; 37]
  | Verb wd v => 37 :: map (fun d => d + 48) wd ++ [verb_char v]
  end.
Definition encode (ps : list piece) : list N := flat_map encode_piece ps.

Definition width_limit : N := 0x4000000000000000.      (* 2^62; the property asks for 0..10^6 *)

Definition piece_wf (p : piece) : Prop :=
  match p with
  | Lit s => ~ In 37 s
  | Percent => True
  | Verb wd v => Forall (fun d => d < 10) wd /\ width_of wd < width_limit
  end.

(** arguments as Go can produce them: integer values within their type, len(s) an int *)
Definition arg_ok (a : arg) : Prop :=
  match a with
  | AInt k v => in_range k v
  | AStr s | ABytes s => (Z.of_nat (length s) < 2 ^ 62)%Z
  | _ => True
  end.

(** ---- integers ---- *)
Definition digit_of (d : N) : N := if d <? 10 then 48 + d else 87 + d.     (* '0'+d , 'a'+(d-10) *)

(** digits of [n] in [base], most significant first, at least one digit *)
Fixpoint digits_fuel (fuel : nat) (base n : N) (acc : list N) : list N :=
  match fuel with
  | O => acc
  | S f =>
      let acc' := digit_of (n mod base) :: acc in
      if n / base =? 0 then acc' else digits_fuel f base (n / base) acc'
  end.
Definition digits (base n : N) : list N := digits_fuel (S (N.to_nat (N.log2 n))) base n [].

(** reading a digit string back *)
Definition digit_val (c : N) : N := if c <? 58 then c - 48 else c - 87.
Definition digit_ok (base c : N) : Prop :=
  ((48 <= c <= 57) \/ (97 <= c <= 102)) /\ digit_val c < base.
Definition value (base : N) (ds : list N) : N := fold_left (fun a c => a * base + digit_val c) ds 0.

Definition rep (c : N) (n : N) : list N := repeat c (N.to_nat n).

(** An integer of magnitude [mag] and sign [neg] in [base], left-padded to [min w 31]:
    decimal pads with spaces and the sign takes the last padding space if there is one, else it is
    prepended; octal/hex pad with zeros and the sign is prepended. *)
Definition render_int (base w : N) (neg : bool) (mag : N) : list N :=
  let ds := digits base mag in
  let w := N.min w 31 in
  let len := N.of_nat (length ds) in
  if base =? 10 then
    if neg then (if len <? w then rep 32 (w - len - 1) ++ 45 :: ds else 45 :: ds)
    else rep 32 (w - len) ++ ds
  else (if neg then [45] else []) ++ rep 48 (w - len) ++ ds.

Definition base_of (v : verb) : N := match v with Vx => 16 | Vo => 8 | _ => 10 end.

Definition render_verb (w : N) (v : verb) (a : arg) : list N :=
  match v with
  | Vd | Vx | Vo =>
      match a with
      | AInt k x => render_int (base_of v) w (x <? 0)%Z (Z.abs_N x)
      | _ => kfmt_errWrongArgType
      end
  | Vs =>
      match a with
      | AStr s | ABytes s => rep 32 (w - N.of_nat (length s)) ++ s
      | _ => kfmt_errWrongArgType
      end
  | Vt =>
      match a with
      | ABool true => kfmt_trueValue
      | ABool false => kfmt_falseValue
      | _ => kfmt_errWrongArgType
      end
  end.

(** literal text unchanged, %% as one percent sign, each verb consumes one argument (a fixed marker
    when none is left), and a fixed marker for each surplus argument at the end *)
Fixpoint render (ps : list piece) (args : list arg) : list N :=
  match ps with
  | [] => flat_map (fun _ => kfmt_errExtraArg) args
  | Lit s :: r => s ++ render r args
  | Percent :: r => 37 :: render r args
  | Verb wd v :: r =>
      match args with
      | [] => kfmt_errMissingArg ++ render r []
      | a :: args' => render_verb (width_of wd) v a ++ render r args'
      end
  end.
