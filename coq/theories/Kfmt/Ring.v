(** Model of kernel/kfmt/ringbuf.go (ringBuffer.Write / ringBuffer.Read) and of the drain loop that
    kfmt.SetOutputSink runs through io.Copy.  Definitions only (proofs: Kfmt/RingProofs.v).

    rIndex/wIndex are Go ints, here [N] (the Go code only ever
    stores values produced by [& (ringBufferSize-1)], [+ n] with a checked slice bound, or 0).
    Every array / slice access is bounds-checked and yields [Panic OOB] where Go would panic. *)
From Coq Require Import NArith ZArith List Bool FMapPositive.
From FF Require Import Lib.Word Gen.Consts_kfmt Kfmt.Fmt.
Import ListNotations.
Local Open Scope N_scope.

(** the byte array [buffer [ringBufferSize]byte]: a finite map from index to byte (absent = 0, the
    zero value) together with the bound [ring_len] that every access is checked against *)
Definition rmem : Type := PositiveMap.t N.
Definition mget (m : rmem) (i : N) : N :=
  match PositiveMap.find (N.succ_pos i) m with Some v => v | None => 0 end.
Definition mset (m : rmem) (i v : N) : rmem := PositiveMap.add (N.succ_pos i) v m.

Record ring := mkRing { rbuf : rmem; rIdx : N; wIdx : N }.

Definition ring_size : N := kfmt_ringBufferSize.       (* the constant ringBufferSize *)
Definition ring_len : N := kfmt_ringBufferLen.         (* len(rb.buffer) *)

Definition empty_ring : ring := mkRing (PositiveMap.empty N) 0 0.

(** rb.buffer[i] = b *)
Definition rset (m : rmem) (i : N) (v : N) : outcome rmem :=
  if i <? ring_len then Ok (mset m i v) else Panic OOB.

(** one iteration of [for _, b := range p] in Write *)
Definition ring_write1 (rb : ring) (b : N) : outcome ring :=
  buf' <- rset (rbuf rb) (wIdx rb) b ;;
  let w' := N.land (wIdx rb + 1) (ring_size - 1) in
  let r' := if rIdx rb =? w' then N.land (rIdx rb + 1) (ring_size - 1) else rIdx rb in
  Ok (mkRing buf' r' w').

Fixpoint ring_write (rb : ring) (p : list N) : outcome ring :=
  match p with
  | [] => Ok rb
  | b :: p' => rb' <- ring_write1 rb b ;; ring_write rb' p'
  end.

(** rb.buffer[lo:hi] *)
Definition rslice (m : rmem) (lo hi : N) : outcome (list N) :=
  if (lo <=? hi) && (hi <=? ring_len)
  then Ok (map (fun k => mget m (lo + N.of_nat k)) (seq 0 (N.to_nat (hi - lo)))) else Panic OOB.

(** Read(p) with len(p) = plen: the bytes copied into p, whether io.EOF was returned, the new state *)
Definition ring_read (rb : ring) (plen : N) : outcome (list N * bool * ring) :=
  if rIdx rb <? wIdx rb then
    let n := N.min (wIdx rb - rIdx rb) plen in
    d <- rslice (rbuf rb) (rIdx rb) (rIdx rb + n) ;;
    Ok (d, false, mkRing (rbuf rb) (rIdx rb + n) (wIdx rb))
  else if wIdx rb <? rIdx rb then
    let n := N.min (ring_len - rIdx rb) plen in
    d <- rslice (rbuf rb) (rIdx rb) (rIdx rb + n) ;;
    let r' := rIdx rb + n in
    Ok (d, false, mkRing (rbuf rb) (if r' =? ring_len then 0 else r') (wIdx rb))
  else Ok ([], true, rb).

(** the newest [k] elements of a list; the ring holds at most [capacity] bytes *)
Definition lastn {A} (k : nat) (l : list A) : list A := skipn (length l - k) l.
Definition capacity : nat := N.to_nat (ring_size - 1).

(** io.Copy(w, &earlyPrintBuffer) for a writer that accepts everything: Read into a 32 KiB buffer,
    hand what was read to w in one Write, until Read reports io.EOF. *)
Definition copy_buf_len : N := 32768.

Fixpoint drain (fuel : nat) (rb : ring) : outcome (list chunk * ring) :=
  match fuel with O => OutOfFuel | S f =>
    r <- ring_read rb copy_buf_len ;;
    let '(d, eof, rb') := r in
    if eof then Ok ([], rb')
    else
      rest <- drain f rb' ;;
      Ok ((match d with [] => [] | _ => [d] end) ++ fst rest, snd rest)
  end.

Definition drain_fuel : nat := 4.

(** ---- flat encoding for the correspondence driver (ring-only histories) ----
    case = ops ; op = 0 len bytes (Write) | 1 plen (Read with a plen-byte buffer) | 2 (drain as SetOutputSink does)
    obs  = per op: Write -> len ; Read -> n eof bytes ; drain -> total bytes.
    A panic ends the observation with 0xffff. *)
Fixpoint run_ops (fuel : nat) (rb : ring) (l : list N) : list N :=
  match fuel with O => [] | S f =>
  match l with
  | [] => []
  | 0 :: r =>
      let '(p, r') := take_list r in
      match ring_write rb p with
      | Ok rb' => N.of_nat (length p) :: run_ops f rb' r'
      | _ => [0xffff]
      end
  | 1 :: plen :: r =>
      match ring_read rb plen with
      | Ok (d, eof, rb') => N.of_nat (length d) :: (if eof then 1 else 0) :: d ++ run_ops f rb' r
      | _ => [0xffff]
      end
  | _ :: r =>
      match drain drain_fuel rb with
      | Ok (cs, rb') => let d := concat cs in N.of_nat (length d) :: d ++ run_ops f rb' r
      | _ => [0xffff]
      end
  end end.

Definition run_case (l : list N) : list N := run_ops (S (length l)) empty_ring l.
