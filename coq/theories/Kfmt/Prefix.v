(** Model of kernel/kfmt/prefix_writer.go (PrefixWriter.Write).  Definitions only.

    The sink is a writer that accepts every Write completely (n = len(p), err = nil), which is what
    both sinks used by the HAL do (the early ring buffer and a terminal); the error-return paths of
    PrefixWriter.Write are therefore not modelled.  The writer's state is bytesAfterPrefix. *)
From Coq Require Import NArith ZArith List Bool.
From FF Require Import Lib.Word Gen.Consts_kfmt Kfmt.Fmt.
Import ListNotations.
Local Open Scope N_scope.

(** The loop [for ; curIndex < len(p); curIndex++] with [seg] = p[startIndex:curIndex] and
    [rest] = p[curIndex:].  Returns the Writes made on the sink and the new bytesAfterPrefix. *)
Fixpoint pw_loop (prefix seg rest : list N) (bap : N) : list chunk * N :=
  match rest with
  | [] =>
      (* after the loop: [if startIndex < curIndex { n := Sink.Write(p[startIndex:curIndex]); bytesAfterPrefix = n }] *)
      match seg with
      | [] => ([], bap)
      | _ => ([seg], N.of_nat (length seg))
      end
  | c :: rest' =>
      if c =? 10 then
        (* Sink.Write(p[startIndex:curIndex+1]); if curIndex+1 != len(p) { Sink.Write(Prefix) }; bytesAfterPrefix = 0 *)
        let '(o, b) := pw_loop prefix [] rest' 0 in
        ((seg ++ [c]) :: (match rest' with [] => [] | _ => [prefix] end) ++ o, b)
      else pw_loop prefix (seg ++ [c]) rest' bap
  end.

(** PrefixWriter.Write(p) *)
Definition prefix_write (prefix : list N) (bap : N) (p : list N) : list chunk * N :=
  let '(o, b) := pw_loop prefix [] p bap in
  ((if (bap =? 0) && negb (match p with [] => true | _ => false end) then [prefix] else []) ++ o, b).

(** a sequence of Writes through the same PrefixWriter *)
Fixpoint prefix_writes (prefix : list N) (bap : N) (ps : list chunk) : list chunk * N :=
  match ps with
  | [] => ([], bap)
  | p :: r =>
      let '(o1, b1) := prefix_write prefix bap p in
      let '(o2, b2) := prefix_writes prefix b1 r in
      (o1 ++ o2, b2)
  end.

(** ---- specification: the per-line prefix, independent of how the text is cut into Write calls ----
    [inject prefix bol text]: [text] with [prefix] inserted in front of the first byte of every line;
    [bol] tells whether [text] starts at the beginning of a line. *)
Fixpoint inject (prefix : list N) (bol : bool) (text : list N) : list N :=
  match text with
  | [] => []
  | c :: r => (if bol then prefix else []) ++ c :: inject prefix (c =? 10) r
  end.
(** are we at the beginning of a line after [text]? *)
Fixpoint ends_line (bol : bool) (text : list N) : bool :=
  match text with
  | [] => bol
  | c :: r => ends_line (c =? 10) r
  end.
