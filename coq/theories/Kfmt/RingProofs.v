(** Proofs about the early ring buffer (Kfmt/Ring.v): FIFO with overwrite-oldest, capacity
    ringBufferSize-1, drained exactly once and in order by the io.Copy loop of SetOutputSink. *)
From Coq Require Import NArith ZArith List Bool Lia FMapPositive.
From Coq Require Import ZifyBool ZifyN ZifyNat.
From FF Require Import Lib.Word Gen.Consts_kfmt Kfmt.Fmt Kfmt.Ring.
Import ListNotations.
Ltac Zify.zify_post_hook ::= Z.div_mod_to_equations.
Local Open Scope N_scope.

(** ---- the generated constants ---- *)
(** ringBufferSize must be a power of two (this is what makes the index mask a modulo); the proofs
    below hold for whatever power of two the source declares *)
Lemma ring_size_eq : ring_size = 2 ^ N.log2 ring_size. Proof. reflexivity. Qed.
Lemma ring_len_eq : ring_len = ring_size. Proof. reflexivity. Qed.
Lemma ring_mask x : N.land x (ring_size - 1) = x mod ring_size.
Proof. rewrite ring_size_eq at 1 2. apply land_ones_mod. Qed.

Definition SZ : N := ring_size.
Ltac usz := unfold SZ, ring_size, copy_buf_len, kfmt_ringBufferSize in *.
Lemma SZ_eq : ring_size = SZ. Proof. reflexivity. Qed.

(** ---- the byte array ---- *)
Lemma succ_pos_inj i j : N.succ_pos i = N.succ_pos j -> i = j.
Proof.
  intros H. apply (f_equal N.pos) in H. rewrite !N.succ_pos_spec in H. lia.
Qed.

Lemma mget_mset m i v j : mget (mset m i v) j = if j =? i then v else mget m j.
Proof.
  unfold mget, mset. destruct (j =? i) eqn:E.
  - apply N.eqb_eq in E. subst. rewrite PositiveMap.gss. reflexivity.
  - apply N.eqb_neq in E. rewrite PositiveMap.gso; [reflexivity|].
    intros H. apply E. apply succ_pos_inj. exact H.
Qed.

(** ---- abstraction: what the ring holds, oldest first ---- *)
Definition valid (rb : ring) : Prop := rIdx rb < SZ /\ wIdx rb < SZ.
Definition count (rb : ring) : N := (wIdx rb + SZ - rIdx rb) mod SZ.
Definition contents (rb : ring) : list N :=
  map (fun j => mget (rbuf rb) ((rIdx rb + N.of_nat j) mod SZ)) (seq 0 (N.to_nat (count rb))).

Lemma capacity_eq : capacity = N.to_nat (SZ - 1). Proof. reflexivity. Qed.

Lemma contents_length rb : length (contents rb) = N.to_nat (count rb).
Proof. unfold contents. rewrite map_length, seq_length. reflexivity. Qed.

Lemma lastn_all {A} k (l : list A) : (length l <= k)%nat -> lastn k l = l.
Proof. intros H. unfold lastn. replace (length l - k)%nat with 0%nat by lia. reflexivity. Qed.

Lemma skipn_skipn' {A} (x y : nat) (l : list A) : skipn x (skipn y l) = skipn (y + x) l.
Proof.
  revert l. induction y as [|y IH]; intros l; [reflexivity|].
  destruct l as [|a l]; [destruct x; reflexivity|]. cbn [skipn Nat.add]. apply IH.
Qed.

Lemma lastn_lastn_app {A} k (a b : list A) : lastn k (lastn k a ++ b) = lastn k (a ++ b).
Proof.
  destruct (Nat.le_gt_cases (length a) k) as [H|H].
  - rewrite (lastn_all k a H). reflexivity.
  - unfold lastn. rewrite !app_length, skipn_length.
    replace (length a - (length a - k) + length b - k)%nat with (length b) by lia.
    replace (length a + length b - k)%nat with ((length a - k) + length b)%nat by lia.
    rewrite <- skipn_skipn'. f_equal.
    rewrite skipn_app. replace (length a - k - length a)%nat with 0%nat by lia. reflexivity.
Qed.

Lemma map_seq_snoc {A} (f : nat -> A) s n : map f (seq s (S n)) = map f (seq s n) ++ [f (s + n)%nat].
Proof. rewrite seq_S, map_app. reflexivity. Qed.

(** ---- Write ---- *)
Lemma write1_spec rb b : valid rb ->
  exists rb', ring_write1 rb b = Ok rb' /\ valid rb' /\ contents rb' = lastn capacity (contents rb ++ [b]).
Proof.
  intros [Hr Hw]. unfold ring_write1, rset. rewrite ring_len_eq, SZ_eq.
  destruct (wIdx rb <? SZ) eqn:E; [|lia]. cbn [bind]. rewrite !ring_mask, SZ_eq.
  set (w' := (wIdx rb + 1) mod SZ).
  assert (Hw' : w' < SZ) by (unfold w'; usz; lia).
  eexists. split; [reflexivity|].
  destruct (rIdx rb =? w') eqn:Efull.
  - (* full: the oldest byte is overwritten *)
    apply N.eqb_eq in Efull. split; [split; cbn [rIdx wIdx]; usz; lia|].
    assert (Hc : count rb = SZ - 1) by (unfold count, w' in *; usz; lia).
    unfold contents at 1. cbn [rIdx wIdx rbuf].
    assert (Hc' : count (mkRing (mset (rbuf rb) (wIdx rb) b) ((rIdx rb + 1) mod SZ) w') = SZ - 1)
      by (unfold count; cbn [rIdx wIdx]; unfold w' in *; usz; lia).
    rewrite Hc'.
    assert (Hlen : length (contents rb ++ [b]) = N.to_nat SZ).
    { rewrite app_length, contents_length, Hc. cbn [length]. usz. lia. }
    unfold lastn. rewrite Hlen, capacity_eq.
    replace (N.to_nat SZ - N.to_nat (SZ - 1))%nat with 1%nat by (usz; lia).
    unfold contents. rewrite Hc.
    replace (N.to_nat (SZ - 1)) with (S (N.to_nat (SZ - 2))) by (usz; lia).
    rewrite map_seq_snoc. cbn [seq map app skipn].
    rewrite <- seq_shift, map_map.
    f_equal.
    + apply map_ext_in. intros j Hj. apply in_seq in Hj. rewrite mget_mset.
      destruct ((((rIdx rb + 1) mod SZ + N.of_nat j) mod SZ) =? wIdx rb) eqn:Ej.
      * apply N.eqb_eq in Ej. unfold w' in *; usz. lia.
      * f_equal. usz. lia.
    + rewrite mget_mset.
      destruct ((((rIdx rb + 1) mod SZ + N.of_nat (0 + N.to_nat (SZ - 2))) mod SZ) =? wIdx rb) eqn:Ej.
      * reflexivity.
      * apply N.eqb_neq in Ej. unfold w' in *; usz. lia.
  - (* room left *)
    apply N.eqb_neq in Efull. split; [split; cbn [rIdx wIdx]; lia|].
    assert (Hc : count rb < SZ - 1) by (unfold count, w' in *; usz; lia).
    unfold contents at 1. cbn [rIdx wIdx rbuf].
    assert (Hc' : count (mkRing (mset (rbuf rb) (wIdx rb) b) (rIdx rb) w') = count rb + 1)
      by (unfold count; cbn [rIdx wIdx]; unfold w' in *; usz; lia).
    rewrite Hc'.
    rewrite lastn_all by (rewrite app_length, contents_length, capacity_eq; cbn [length]; usz; lia).
    replace (N.to_nat (count rb + 1)) with (S (N.to_nat (count rb))) by lia.
    rewrite map_seq_snoc. unfold contents. f_equal.
    + apply map_ext_in. intros j Hj. apply in_seq in Hj. rewrite mget_mset.
      destruct (((rIdx rb + N.of_nat j) mod SZ) =? wIdx rb) eqn:Ej; [|reflexivity].
      apply N.eqb_eq in Ej. unfold count in *; usz. lia.
    + rewrite mget_mset.
      destruct (((rIdx rb + N.of_nat (0 + N.to_nat (count rb))) mod SZ) =? wIdx rb) eqn:Ej; [reflexivity|].
      apply N.eqb_neq in Ej. unfold count in *; usz. lia.
Qed.

Lemma write_spec p : forall rb, valid rb ->
  exists rb', ring_write rb p = Ok rb' /\ valid rb' /\ contents rb' = lastn capacity (contents rb ++ p).
Proof.
  induction p as [|b p IH]; intros rb Hv.
  - exists rb. split; [reflexivity|]. split; [exact Hv|]. rewrite app_nil_r.
    symmetry. apply lastn_all. rewrite contents_length, capacity_eq. destruct Hv. unfold count in *; usz. lia.
  - destruct (write1_spec rb b Hv) as [rb1 [E1 [Hv1 Hc1]]].
    destruct (IH rb1 Hv1) as [rb2 [E2 [Hv2 Hc2]]].
    exists rb2. cbn [ring_write]. rewrite E1. cbn [bind]. split; [exact E2|]. split; [exact Hv2|].
    rewrite Hc2, Hc1, lastn_lastn_app, <- app_assoc. reflexivity.
Qed.

(** ---- Read / drain ---- *)
Lemma concat_opt_chunk (d : list N) rest : concat ((match d with [] => [] | _ => [d] end) ++ rest) = d ++ concat rest.
Proof. destruct d; reflexivity. Qed.

Lemma map_seq_shift {A} (f : nat -> A) s n : map f (seq s n) = map (fun k => f (s + k)%nat) (seq 0 n).
Proof.
  revert s. induction n as [|n IH]; intros s; [reflexivity|]. cbn [seq map].
  rewrite Nat.add_0_r. f_equal. rewrite IH. rewrite <- seq_shift, map_map.
  apply map_ext. intros k. f_equal. lia.
Qed.

Lemma drain_spec rb : valid rb ->
  exists cs rb', drain drain_fuel rb = Ok (cs, rb') /\ concat cs = contents rb /\
                 valid rb' /\ contents rb' = [] /\ drain drain_fuel rb' = Ok ([], rb').
Proof.
  intros [Hr Hw].
  assert (Hempty : forall m w, w < SZ ->
            drain drain_fuel (mkRing m w w) = Ok ([], mkRing m w w) /\ contents (mkRing m w w) = []).
  { intros m w Hlt. split.
    - unfold drain_fuel. cbn [drain]. unfold ring_read. cbn [rIdx wIdx]. rewrite N.ltb_irrefl. reflexivity.
    - unfold contents, count. cbn [rIdx wIdx]. replace ((w + SZ - w) mod SZ) with 0 by (usz; lia). reflexivity. }
  assert (Hread1 : forall m r w, r < w -> w < SZ ->
            ring_read (mkRing m r w) copy_buf_len =
              Ok (map (fun k => mget m (r + N.of_nat k)) (seq 0 (N.to_nat (w - r))), false, mkRing m w w)).
  { intros m r w Hlt Hws. unfold ring_read, rslice. cbn [rIdx wIdx rbuf].
    destruct (r <? w) eqn:E; [|lia].
    replace (N.min (w - r) copy_buf_len) with (w - r) by (unfold copy_buf_len in *; usz; lia).
    rewrite ring_len_eq, SZ_eq.
    destruct ((r <=? r + (w - r)) && (r + (w - r) <=? SZ)) eqn:E2; [|usz; lia].
    cbn [bind]. repeat f_equal; lia. }
  destruct rb as [m r w]. cbn [rIdx wIdx] in *.
  destruct (N.lt_trichotomy r w) as [Hlt | [Heq | Hgt]].
  - (* one segment *)
    exists [map (fun k => mget m (r + N.of_nat k)) (seq 0 (N.to_nat (w - r)))], (mkRing m w w).
    destruct (Hempty m w Hw) as [He1 He2].
    split; [|split; [|split; [split; assumption|split; assumption]]].
    + unfold drain_fuel. cbn [drain]. rewrite Hread1 by assumption. cbn [bind].
      unfold ring_read. cbn [rIdx wIdx]. rewrite N.ltb_irrefl. cbn [bind fst snd app].
      destruct (seq 0 (N.to_nat (w - r))) eqn:Es; [|reflexivity].
      exfalso. apply (f_equal (@length nat)) in Es. rewrite seq_length in Es. simpl in Es. lia.
    + cbn [concat]. rewrite app_nil_r. unfold contents, count. cbn [rIdx wIdx rbuf].
      replace ((w + SZ - r) mod SZ) with (w - r) by (usz; lia).
      apply map_ext_in. intros j Hj. apply in_seq in Hj. f_equal. usz. lia.
  - subst w. exists [], (mkRing m r r). destruct (Hempty m r Hr) as [He1 He2].
    split; [exact He1|]. split; [rewrite He2; reflexivity|]. split; [split; assumption|]. split; assumption.
  - (* wrapped: [r, SZ) then [0, w) *)
    set (d1 := map (fun k => mget m (r + N.of_nat k)) (seq 0 (N.to_nat (SZ - r)))).
    set (d2 := map (fun k => mget m (0 + N.of_nat k)) (seq 0 (N.to_nat (w - 0)))).
    assert (Hr1 : ring_read (mkRing m r w) copy_buf_len = Ok (d1, false, mkRing m 0 w)).
    { unfold ring_read, rslice. cbn [rIdx wIdx rbuf].
      destruct (r <? w) eqn:E; [lia|]. destruct (w <? r) eqn:E'; [|lia].
      rewrite ring_len_eq, SZ_eq.
      replace (N.min (SZ - r) copy_buf_len) with (SZ - r) by (unfold copy_buf_len in *; usz; lia).
      destruct ((r <=? r + (SZ - r)) && (r + (SZ - r) <=? SZ)) eqn:E2; [|usz; lia].
      cbn [bind]. destruct (r + (SZ - r) =? SZ) eqn:E3; [|usz; lia].
      unfold d1. replace (r + (SZ - r) - r) with (SZ - r) by lia. reflexivity. }
    destruct (Hempty m w Hw) as [He1 He2].
    assert (Hcont : contents (mkRing m r w) = d1 ++ (if w =? 0 then [] else d2)).
    { unfold contents, count. cbn [rIdx wIdx rbuf].
      replace ((w + SZ - r) mod SZ) with ((SZ - r) + w) by (usz; lia).
      rewrite N2Nat.inj_add, seq_app, map_app. f_equal.
      - apply map_ext_in. intros j Hj. apply in_seq in Hj. f_equal. usz. lia.
      - rewrite map_seq_shift. destruct (w =? 0) eqn:Ew0.
        + apply N.eqb_eq in Ew0. subst w. reflexivity.
        + unfold d2. rewrite N.sub_0_r. apply map_ext_in. intros j Hj. apply in_seq in Hj. f_equal. usz. lia. }
    destruct (w =? 0) eqn:Ew0.
    + apply N.eqb_eq in Ew0. subst w.
      exists (match d1 with [] => [] | _ => [d1] end), (mkRing m 0 0).
      split; [|split; [|split; [split; assumption|split; assumption]]].
      * unfold drain_fuel. cbn [drain]. rewrite Hr1. cbn [bind].
        unfold ring_read. cbn [rIdx wIdx]. cbn [N.ltb N.compare bind fst snd]. rewrite app_nil_r. reflexivity.
      * rewrite Hcont, app_nil_r. pose proof (concat_opt_chunk d1 []) as C. rewrite app_nil_r in C. cbn [concat] in C.
        rewrite app_nil_r in C. exact C.
    + apply N.eqb_neq in Ew0.
      exists ((match d1 with [] => [] | _ => [d1] end) ++ (match d2 with [] => [] | _ => [d2] end)), (mkRing m w w).
      split; [|split; [|split; [split; assumption|split; assumption]]].
      * unfold drain_fuel. cbn [drain]. rewrite Hr1. cbn [bind].
        rewrite (Hread1 m 0 w) by lia. cbn [bind].
        unfold ring_read. cbn [rIdx wIdx]. rewrite N.ltb_irrefl. cbn [bind fst snd]. rewrite app_nil_r. reflexivity.
      * rewrite Hcont, concat_opt_chunk. f_equal.
        pose proof (concat_opt_chunk d2 []) as C. rewrite app_nil_r in C. cbn [concat] in C.
        rewrite app_nil_r in C. exact C.
Qed.

(** ---- the FIFO theorem ---- *)
Lemma valid_empty : valid empty_ring.
Proof. split; reflexivity. Qed.
Lemma contents_empty : contents empty_ring = [].
Proof. reflexivity. Qed.

Fixpoint ring_writes (rb : ring) (ps : list (list N)) : outcome ring :=
  match ps with
  | [] => Ok rb
  | p :: r => rb' <- ring_write rb p ;; ring_writes rb' r
  end.

Lemma writes_spec ps : forall rb, valid rb ->
  exists rb', ring_writes rb ps = Ok rb' /\ valid rb' /\ contents rb' = lastn capacity (contents rb ++ concat ps).
Proof.
  induction ps as [|p ps IH]; intros rb Hv.
  - destruct (write_spec [] rb Hv) as [rb' [E [Hv' Hc]]]. cbn [ring_write] in E. inversion E; subst rb'.
    exists rb. split; [reflexivity|]. split; [exact Hv|exact Hc].
  - destruct (write_spec p rb Hv) as [rb1 [E1 [Hv1 Hc1]]].
    destruct (IH rb1 Hv1) as [rb2 [E2 [Hv2 Hc2]]].
    exists rb2. cbn [ring_writes]. rewrite E1. cbn [bind]. split; [exact E2|]. split; [exact Hv2|].
    rewrite Hc2, Hc1, lastn_lastn_app. cbn [concat]. rewrite <- app_assoc. reflexivity.
Qed.

Lemma ring_fifo_any rb ps : valid rb ->
  exists rb1 cs rb2,
    ring_writes rb ps = Ok rb1 /\
    drain drain_fuel rb1 = Ok (cs, rb2) /\
    concat cs = lastn capacity (contents rb ++ concat ps) /\
    valid rb2 /\ contents rb2 = [] /\ drain drain_fuel rb2 = Ok ([], rb2).
Proof.
  intros Hv. destruct (writes_spec ps rb Hv) as [rb1 [E1 [Hv1 Hc1]]].
  destruct (drain_spec rb1 Hv1) as [cs [rb2 [E2 [Hc2 [Hv2 [He2 Hd2]]]]]].
  exists rb1, cs, rb2. repeat split; try assumption; try (destruct Hv2; assumption). rewrite Hc2. exact Hc1.
Qed.
