(** The hand-written model of kfmt.PrefixWriter.Write (Kfmt/Prefix.v: [prefix_write]) IS the Gallina translation
    that gen/gotrans regenerates from kernel/kfmt/prefix_writer.go on every run (Gen/Trans_kfmt_prefix.v),
    FOR A SINK THAT ACCEPTS EVERY WRITE COMPLETELY (n = len(p), err = nil) - the only sinks the model describes
    (the early ring buffer and a terminal; the model does not have the error-return paths).

    In the translation the calls [w.Sink.Write(b)] are events [GCall "Write" [GBytes b]] pushed on the trace of
    the record (most recent first) and what the sink returns is an oracle [o_Write], a function of that
    trace; [accept_all] is the oracle of such a sink.  The theorem: with a non-nil sink, len(p) an int and
    fuel > len(p), the translation returns (len(p), nil), has made exactly the Writes of the model, in
    order, and leaves the model's bytesAfterPrefix.  With a nil sink a Write that reaches the sink panics. *)
From Coq Require Import NArith ZArith String List Bool Lia.
From Coq Require Import ZifyBool ZifyN ZifyNat.
From FF Require Import Lib.Word Lib.GoOps Lib.GoOpsExt Gen.Trans_kfmt_prefix Kfmt.Fmt Kfmt.Prefix.
Import ListNotations.
Local Open Scope N_scope.
Ltac Zify.zify_post_hook ::= Z.div_mod_to_equations.

(** the oracle of a sink that accepts everything *)
Definition accept_all (tr : list gcall) : N * option string :=
  match tr with
  | GCall _ (GBytes b :: _) :: _ => (glen b, None)
  | _ => (0, None)
  end.

Definition call_of (c : chunk) : gcall := GCall "Write" [GBytes c].

(** the record: a non-nil sink, the prefix, bytesAfterPrefix, the Writes made so far (most recent first) *)
Definition to_gop (prefix : list N) (bap : N) (tr : list gcall) : go_kfmt_PrefixWriter :=
  mk_go_kfmt_PrefixWriter true prefix bap tr.

Definition seg (p : list N) (s c : nat) : list N := firstn (c - s) (skipn s p).

Lemma skipn_nth_cons {A} (d : A) : forall k (l : list A), (k < length l)%nat -> skipn k l = nth k l d :: skipn (S k) l.
Proof.
  induction k as [|k IH]; intros [|x l] H; cbn [length] in H; try lia; [reflexivity|].
  cbn [skipn nth]. apply IH. lia.
Qed.

Lemma nth_skipn' {A} (d : A) : forall s (l : list A) k, nth k (skipn s l) d = nth (s + k) l d.
Proof.
  induction s as [|s IH]; intros l k; [reflexivity|].
  destruct l as [|x l]; [destruct k; reflexivity|]. cbn [skipn Nat.add nth]. apply IH.
Qed.

Lemma firstn_snoc {A} (d : A) : forall k (l : list A), (k < length l)%nat -> firstn (S k) l = firstn k l ++ [nth k l d].
Proof.
  induction k as [|k IH]; intros [|x l] H; cbn [length] in H; try lia; [reflexivity|].
  cbn [firstn nth app]. f_equal. apply IH. lia.
Qed.

Lemma seg_snoc p s c : (s <= c)%nat -> (c < length p)%nat -> seg p s (S c) = seg p s c ++ [nth c p 0].
Proof.
  intros H1 H2. unfold seg. replace (S c - s)%nat with (S (c - s)) by lia.
  rewrite (firstn_snoc 0) by (rewrite skipn_length; lia).
  rewrite nth_skipn'. do 3 f_equal. lia.
Qed.

Lemma seg_nil p c : seg p c c = [].
Proof. unfold seg. rewrite Nat.sub_diag. reflexivity. Qed.

Lemma seg_length p s c : (s <= c)%nat -> (c <= length p)%nat -> length (seg p s c) = (c - s)%nat.
Proof. intros. unfold seg. rewrite firstn_length, skipn_length. lia. Qed.

Lemma gslices_seg p s c : (s <= c)%nat -> (c <= length p)%nat -> glen p < two63 ->
  gslices 64 p (N.of_nat s) (N.of_nat c) = Some (seg p s c).
Proof.
  intros H1 H2 H3. unfold glen, two63 in *. rewrite gslices_small by (unfold two63; lia).
  unfold gslice, glen. destruct (N.leb_spec (N.of_nat s) (N.of_nat c)); [|lia].
  destruct (N.leb_spec (N.of_nat c) (N.of_nat (length p))); [|lia]. cbn [andb]. unfold seg.
  do 2 f_equal; [lia|]. f_equal. lia.
Qed.

(** what the translation returns, given the model's result *)
Definition pw_result (prefix p : list N) (tr : list gcall) (r : list chunk * N)
  : gres (go_kfmt_PrefixWriter * (N * option string)) :=
  let '(o, b) := r in GOk (to_gop prefix b (rev (map call_of o) ++ tr), (glen p, None)).

(** the code after the loop (copied from the translation; [change] checks that it is the same term) *)
Definition pw_post (p : list N)
  (r : gres ((go_kfmt_PrefixWriter * N * N * N) + (go_kfmt_PrefixWriter * (N * option string))))
  : gres (go_kfmt_PrefixWriter * (N * option string)) :=
  match r with
  | GOk (inl (v_w, v_curIndex, v_startIndex, v_written)) =>
      if gslt 64 v_startIndex v_curIndex
      then
       match gslices 64 p v_startIndex v_curIndex with
       | Some t3 =>
           if f_PrefixWriter_Sink v_w
           then
            let '(v_or2_0, v_or2_1) :=
              accept_all
                (f_PrefixWriter_trace
                   (set_f_PrefixWriter_trace v_w (GCall "Write" [GBytes t3] :: f_PrefixWriter_trace v_w))) in
            if negb (gerr_eqb v_or2_1 None)
            then
             GOk
               (set_f_PrefixWriter_bytesAfterPrefix
                  (set_f_PrefixWriter_trace v_w (GCall "Write" [GBytes t3] :: f_PrefixWriter_trace v_w)) v_or2_0,
                (gw 64 (v_written + v_or2_0), v_or2_1))
            else
             GOk
               (set_f_PrefixWriter_bytesAfterPrefix
                  (set_f_PrefixWriter_trace v_w (GCall "Write" [GBytes t3] :: f_PrefixWriter_trace v_w)) v_or2_0,
                (gw 64 (v_written + v_or2_0), None))
           else GPanic
       | None => GPanic
       end
      else GOk (v_w, (v_written, None))
  | GOk (inr r) => GOk r
  | GPanic => GPanic
  | GFuel => GFuel
  end.

Ltac psimp :=
  cbn [f_PrefixWriter_Sink f_PrefixWriter_Prefix f_PrefixWriter_bytesAfterPrefix f_PrefixWriter_trace
       set_f_PrefixWriter_Sink set_f_PrefixWriter_Prefix set_f_PrefixWriter_bytesAfterPrefix set_f_PrefixWriter_trace
       to_gop accept_all gerr_eqb negb].

Lemma rev_calls (a : list chunk) o tr0 :
  rev (map call_of (a ++ o)) ++ tr0 = rev (map call_of o) ++ (rev (map call_of a) ++ tr0).
Proof. rewrite map_app, rev_app_distr, app_assoc. reflexivity. Qed.

Theorem prefix_write_is_translation prefix bap tr p fuel :
  glen p < two63 -> (length p < fuel)%nat ->
  go_kfmt_PrefixWriter_Write fuel (to_gop prefix bap tr) p accept_all =
  pw_result prefix p tr (prefix_write prefix bap p).
Proof.
  intros Hp Hfuel. pose proof Hp as Hp'. unfold glen, two63 in Hp'. change (2 ^ 63) with 9223372036854775808 in Hp'.
  cbv delta [go_kfmt_PrefixWriter_Write]. cbv beta zeta.
  match goal with |- context [gloop fuel ?f _] => set (step := f) end.
  (* the loop and what follows it, from any position: seg = p[start:cur], written = start *)
  assert (L : forall n cur start bap0 tr0 fu, (start <= cur)%nat -> (cur + n = length p)%nat -> (n < fu)%nat ->
    pw_post p (gloop fu step (to_gop prefix bap0 tr0, N.of_nat cur, N.of_nat start, N.of_nat start)) =
    pw_result prefix p tr0 (pw_loop prefix (seg p start cur) (skipn cur p) bap0)).
  { induction n as [|n IH]; intros cur start bap0 tr0 fu Hsc Hcn Hfu; (destruct fu as [|fu]; [lia|]).
    - (* cur = len(p): the loop ends; the rest of the line, if any, is written *)
      rewrite gloop_break with (s' := (to_gop prefix bap0 tr0, N.of_nat cur, N.of_nat start, N.of_nat start)).
      2:{ unfold step. rewrite gslt_small by (unfold two63, glen; lia). unfold glen.
          destruct (N.ltb_spec (N.of_nat cur) (N.of_nat (length p))); [lia|reflexivity]. }
      rewrite skipn_all2 by lia. cbn [pw_post pw_loop].
      rewrite gslt_small by (unfold two63; lia).
      destruct (N.ltb_spec (N.of_nat start) (N.of_nat cur)) as [A|A].
      + rewrite gslices_seg by (try exact Hp; lia). psimp.
        pose proof (seg_length p start cur ltac:(lia) ltac:(lia)) as SL.
        destruct (seg p start cur) as [|x sg] eqn:Es; [cbn [length] in SL; lia|].
        cbn [pw_result map rev app call_of]. unfold glen at 1 2 3. rewrite SL.
        rewrite gw64_small' by lia. unfold to_gop, glen. repeat f_equal; lia.
      + assert (start = cur) by lia. subst start. rewrite seg_nil.
        cbn [pw_result map rev app]. unfold glen. repeat f_equal. lia.
    - (* one byte *)
      assert (Hlt : (cur < length p)%nat) by lia.
      rewrite (skipn_nth_cons 0 cur p Hlt). set (c := nth cur p 0).
      rewrite gloop_S. unfold step at 1. cbv beta iota zeta.
      rewrite gslt_small by (unfold two63, glen; lia). unfold glen at 1.
      destruct (N.ltb_spec (N.of_nat cur) (N.of_nat (length p))); [|lia].
      rewrite gidxs_small by (unfold two63; lia). rewrite gidx_some by (unfold glen; lia).
      rewrite Nat2N.id. fold c.
      rewrite !(gw64_small' (N.of_nat cur + 1)) by lia.
      replace (N.of_nat cur + 1) with (N.of_nat (S cur)) by lia.
      cbn [pw_loop].
      destruct (c =? 10).
      + rewrite gslices_seg by (try exact Hp; lia). psimp.
        rewrite (seg_snoc p start cur Hsc Hlt). fold c.
        assert (SL : glen (seg p start cur ++ [c]) = N.of_nat (S cur) - N.of_nat start).
        { unfold glen. rewrite app_length, seg_length by lia. cbn [length]. lia. }
        rewrite SL. rewrite (gw64_small' (N.of_nat start + _)) by lia.
        replace (N.of_nat start + (N.of_nat (S cur) - N.of_nat start)) with (N.of_nat (S cur)) by lia.
        change (gw 64 0) with 0.
        unfold glen. destruct (N.eqb_spec (N.of_nat (S cur)) (N.of_nat (length p))) as [E|E]; cbn [negb].
        * (* the line feed is the last byte: no prefix yet *)
          rewrite skipn_all2 by lia.
          specialize (IH (S cur) (S cur) 0 (call_of (seg p start cur ++ [c]) :: tr0) fu ltac:(lia) ltac:(lia) ltac:(lia)).
          rewrite seg_nil, skipn_all2 in IH by lia.
          match goal with |- context [gloop fu step (?X, _, _, _)] =>
            change X with (to_gop prefix 0 (call_of (seg p start cur ++ [c]) :: tr0)) end.
          exact IH.
        * psimp.
          specialize (IH (S cur) (S cur) 0 (call_of prefix :: call_of (seg p start cur ++ [c]) :: tr0) fu ltac:(lia) ltac:(lia) ltac:(lia)).
          rewrite seg_nil in IH.
          match goal with |- context [gloop fu step (?X, _, _, _)] =>
            change X with (to_gop prefix 0 (call_of prefix :: call_of (seg p start cur ++ [c]) :: tr0)) end.
          rewrite IH.
          destruct (skipn (S cur) p) as [|y r] eqn:Er.
          { apply (f_equal (@length N)) in Er. rewrite skipn_length in Er. cbn [length] in Er. lia. }
          destruct (pw_loop prefix [] (y :: r) 0) as [o b].
          cbn [pw_result app map rev]. rewrite <- !app_assoc. reflexivity.
      + specialize (IH (S cur) start bap0 tr0 fu ltac:(lia) ltac:(lia) ltac:(lia)).
        rewrite (seg_snoc p start cur Hsc Hlt) in IH. fold c in IH. exact IH. }
  (* the function: the prefix in front of a new line, then the loop from 0 *)
  unfold prefix_write.
  pose proof (L (length p) 0%nat 0%nat bap tr fuel ltac:(lia) ltac:(lia) Hfuel) as L0.
  pose proof (L (length p) 0%nat 0%nat bap (call_of prefix :: tr) fuel ltac:(lia) ltac:(lia) Hfuel) as L1.
  rewrite seg_nil in L0, L1. cbn [skipn N.of_nat] in L0, L1.
  psimp. unfold glen at 1.
  destruct (N.eqb_spec bap 0) as [->|Hb]; cbn [andb].
  - destruct p as [|x p'].
    + exact L0.
    + replace (negb (N.of_nat (length (x :: p')) =? 0)) with true
        by (cbn [length]; destruct (N.eqb_spec (N.of_nat (S (length p'))) 0); [lia|reflexivity]).
      cbn [negb andb app].
      match goal with |- context [gloop fuel step (?X, _, _, _)] => change X with (to_gop prefix 0 (call_of prefix :: tr)) end.
      change (pw_post (x :: p') (gloop fuel step (to_gop prefix 0 (call_of prefix :: tr), 0, 0, 0)) =
              pw_result prefix (x :: p') tr (let '(o, b) := pw_loop prefix [] (x :: p') 0 in ([prefix] ++ o, b))).
      rewrite L1. destruct (pw_loop prefix [] (x :: p') 0) as [o b].
      cbn [pw_result app map rev]. rewrite <- app_assoc. reflexivity.
  - change (pw_post p (gloop fuel step (to_gop prefix bap tr, 0, 0, 0)) =
            pw_result prefix p tr (let '(o, b) := pw_loop prefix [] p bap in ([] ++ o, b))).
    rewrite L0. destruct (pw_loop prefix [] p bap) as [o b]. reflexivity.
Qed.

(** a nil sink: the first Write that reaches it (here: the prefix of a new line) is a run-time panic *)
Theorem prefix_write_nil_sink prefix tr x p fuel o :
  go_kfmt_PrefixWriter_Write fuel (mk_go_kfmt_PrefixWriter false prefix 0 tr) (x :: p) o = GPanic.
Proof.
  cbv delta [go_kfmt_PrefixWriter_Write]. cbv beta zeta. psimp. unfold glen. cbn [length].
  destruct (N.eqb_spec (N.of_nat (S (length p))) 0); [lia|]. reflexivity.
Qed.
