(** Proofs about fmtInt (Kfmt/Fmt.v) against the specification Kfmt/FmtSpec.v. *)
From Coq Require Import NArith ZArith List Bool Lia.
From Coq Require Import ZifyBool ZifyN ZifyNat.
From FF Require Import Lib.Word Gen.Consts_kfmt Kfmt.Fmt Kfmt.FmtSpec.
Import ListNotations.
Ltac Zify.zify_post_hook ::= Z.div_mod_to_equations.
Local Open Scope Z_scope.

(** ---- the generated constants, as the proofs need them ---- *)
Lemma maxBufSize_eq : maxBufSize = 32. Proof. reflexivity. Qed.
Definition buf_len : nat := N.to_nat kfmt_numFmtBufLen.
(** any buffer of at least maxBufSize bytes is enough: 31 padded characters and the sign *)
Lemma buf_len_ge : (32 <= buf_len)%nat. Proof. apply Nat.leb_le. reflexivity. Qed.
Lemma buf_cap_eq : kfmt_numFmtBufCap = kfmt_numFmtBufLen. Proof. reflexivity. Qed.
Lemma single_ok c : single c = Ok [c]. Proof. reflexivity. Qed.

Ltac len_norm := repeat (progress (rewrite ?app_length, ?repeat_length, ?rev_length; cbn [length])).
Ltac norm_app := repeat (first [rewrite <- app_assoc | progress cbn [app]]).

(** ---- buffer access ---- *)
Lemma firstn_len_app (pre l : list N) : firstn (length pre) (pre ++ l) = pre.
Proof. induction pre as [|a pre IH]; simpl; [destruct l; reflexivity | f_equal; exact IH]. Qed.

Lemma skipn_S_len_app (pre : list N) x post : skipn (S (length pre)) (pre ++ x :: post) = post.
Proof. induction pre as [|a pre IH]; simpl; [reflexivity | exact IH]. Qed.

Lemma bset_at pre x post v r :
  r = Z.of_nat (length pre) -> bset (pre ++ x :: post) r v = Ok (pre ++ v :: post).
Proof.
  intros ->. unfold bset.
  destruct (Z.of_nat (length pre) <? 0) eqn:E; [lia|].
  rewrite Nat2Z.id.
  assert (Hl : (length pre <? length (pre ++ x :: post))%nat = true).
  { apply Nat.ltb_lt. rewrite app_length. simpl. lia. }
  rewrite Hl, firstn_len_app, skipn_S_len_app. reflexivity.
Qed.

Lemma bget_at pre x post r :
  r = Z.of_nat (length pre) -> bget (pre ++ x :: post) r = Ok x.
Proof.
  intros ->. unfold bget.
  destruct (Z.of_nat (length pre) <? 0) eqn:E; [lia|].
  rewrite Nat2Z.id, nth_error_app2 by lia. rewrite Nat.sub_diag. reflexivity.
Qed.

(** ---- digits ---- *)
Local Open Scope N_scope.

Lemma digit_char_of rem : rem < 16 -> digit_char rem = digit_of rem.
Proof.
  intros H. unfold digit_char, digit_of, w8, two8.
  destruct (rem <? 10) eqn:E.
  - rewrite (N.mod_small rem) by lia. rewrite N.mod_small by lia. lia.
  - rewrite (N.mod_small (rem - 10)) by lia. rewrite N.mod_small by lia. lia.
Qed.

Lemma digit_of_not_space d : d < 16 -> digit_of d <> 32.
Proof. intros H. unfold digit_of. destruct (d <? 10) eqn:E; lia. Qed.

Lemma digit_val_of d : d < 16 -> digit_val (digit_of d) = d.
Proof.
  intros H. unfold digit_val, digit_of. destruct (d <? 10) eqn:E.
  - destruct (48 + d <? 58) eqn:F; lia.
  - destruct (87 + d <? 58) eqn:F; lia.
Qed.

Lemma digit_ok_of base d : d < base -> base <= 16 -> digit_ok base (digit_of d).
Proof.
  intros H Hb. unfold digit_ok. rewrite digit_val_of by lia. split; [|exact H].
  unfold digit_of. destruct (d <? 10) eqn:E; lia.
Qed.

(** digits of [n], least significant first (what the loop leaves in the buffer) *)
Fixpoint lsd_digits (m : nat) (base n : N) : list N :=
  match m with
  | O => []
  | S f => digit_of (n mod base) :: (if n / base =? 0 then [] else lsd_digits f base (n / base))
  end.

Lemma digits_fuel_lsd m base n acc : digits_fuel m base n acc = rev (lsd_digits m base n) ++ acc.
Proof.
  revert n acc. induction m as [|m IH]; intros n acc; simpl; [reflexivity|].
  destruct (n / base =? 0).
  - reflexivity.
  - rewrite IH. rewrite <- app_assoc. reflexivity.
Qed.

Lemma lsd_length m base n : (length (lsd_digits m base n) <= m)%nat.
Proof.
  revert n. induction m as [|m IH]; intros n; simpl; [lia|].
  destruct (n / base =? 0); simpl; [lia|]. specialize (IH (n / base)). lia.
Qed.

Lemma lsd_nonempty m base n : (1 <= m)%nat -> (1 <= length (lsd_digits m base n))%nat.
Proof. intros H. destruct m; [lia|]. simpl. lia. Qed.

Lemma lsd_fuel_irrel base m : forall m' n, 2 <= base ->
  n < base ^ N.of_nat m -> n < base ^ N.of_nat m' -> (1 <= m)%nat -> (1 <= m')%nat ->
  lsd_digits m base n = lsd_digits m' base n.
Proof.
  induction m as [|m IH]; intros m' n Hb H1 H2 Hm Hm'; [lia|].
  destruct m' as [|m']; [lia|]. simpl.
  destruct (n / base =? 0) eqn:E; [reflexivity|]. f_equal.
  assert (Hd : forall k, n < base ^ N.of_nat (S k) -> n / base < base ^ N.of_nat k).
  { intros k Hk. apply N.div_lt_upper_bound; [lia|].
    rewrite Nat2N.inj_succ, N.pow_succ_r' in Hk. exact Hk. }
  assert (Hpos : forall k, n < base ^ N.of_nat (S k) -> (1 <= k)%nat).
  { intros k Hk. destruct k; [|lia]. change (N.of_nat 1) with 1%N in Hk. rewrite N.pow_1_r in Hk.
    apply N.eqb_neq in E. exfalso. apply E. apply N.div_small. exact Hk. }
  apply IH; auto.
Qed.

Lemma lsd_all_digits m base n : 2 <= base -> base <= 16 ->
  Forall (fun c => digit_ok base c /\ c <> 32) (lsd_digits m base n).
Proof.
  intros Hb Hb'. revert n. induction m as [|m IH]; intros n; simpl; [constructor|].
  assert (Hm : n mod base < base) by (apply N.mod_lt; lia).
  constructor.
  - split; [apply digit_ok_of; lia | apply digit_of_not_space; lia].
  - destruct (n / base =? 0); [constructor | apply IH].
Qed.

Lemma lsd_value m base : forall n, 2 <= base -> base <= 16 -> n < base ^ N.of_nat m ->
  fold_right (fun c a => a * base + digit_val c) 0 (lsd_digits m base n) = n.
Proof.
  induction m as [|m IH]; intros n Hb Hb' Hn.
  - simpl in *. lia.
  - cbn [lsd_digits fold_right].
    assert (Hm : n mod base < base) by (apply N.mod_lt; lia).
    rewrite digit_val_of by lia.
    destruct (n / base =? 0) eqn:E.
    + apply N.eqb_eq in E. cbn [fold_right]. pose proof (N.div_mod n base ltac:(lia)) as D. rewrite E in D. lia.
    + rewrite IH; auto.
      * pose proof (N.div_mod n base ltac:(lia)) as D. lia.
      * apply N.div_lt_upper_bound; [lia|]. rewrite Nat2N.inj_succ, N.pow_succ_r' in Hn. exact Hn.
Qed.

Lemma pow_ge_two base k : 2 <= base -> 2 ^ k <= base ^ k.
Proof. intros H. apply N.pow_le_mono_l. exact H. Qed.

Lemma digits_fuel_bound n base : 2 <= base -> n < base ^ N.of_nat (S (N.to_nat (N.log2 n))).
Proof.
  intros Hb. rewrite Nat2N.inj_succ, N2Nat.id.
  destruct (N.eq_dec n 0) as [->|Hn].
  - change (N.succ (N.log2 0)) with 1%N. rewrite N.pow_1_r. lia.
  - eapply N.lt_le_trans; [apply N.log2_spec; lia|]. apply pow_ge_two. exact Hb.
Qed.

Lemma digits_lsd base n m : 2 <= base -> n < base ^ N.of_nat m -> (1 <= m)%nat ->
  digits base n = rev (lsd_digits m base n).
Proof.
  intros Hb Hn Hm. unfold digits. rewrite digits_fuel_lsd, app_nil_r. f_equal.
  apply lsd_fuel_irrel; auto; try lia. apply digits_fuel_bound. exact Hb.
Qed.

Lemma value_digits base n : 2 <= base -> base <= 16 -> value base (digits base n) = n.
Proof.
  intros Hb Hb'. unfold value, digits. rewrite digits_fuel_lsd, app_nil_r.
  rewrite <- fold_left_rev_right, rev_involutive.
  apply lsd_value; auto. apply digits_fuel_bound. exact Hb.
Qed.

Lemma digits_ok base n : 2 <= base -> base <= 16 ->
  Forall (digit_ok base) (digits base n) /\ digits base n <> [].
Proof.
  intros Hb Hb'. unfold digits. rewrite digits_fuel_lsd, app_nil_r. split.
  - apply Forall_rev. eapply Forall_impl; [|apply lsd_all_digits; auto]. intros c [H _]. exact H.
  - intros E. apply (f_equal (@length N)) in E. rewrite rev_length in E. simpl in E.
    pose proof (lsd_nonempty (S (N.to_nat (N.log2 n))) base n ltac:(lia)). lia.
Qed.

Local Open Scope Z_scope.

(** ---- the four loops of fmtInt ---- *)
Lemma digit_loop_spec m : forall fuel divider pre post uval,
  (2 <= divider)%N -> (divider <= 16)%N ->
  (uval < divider ^ N.of_nat m)%N -> (1 <= m)%nat -> (m <= fuel)%nat ->
  (length pre + m <= 32)%nat -> (m <= length post)%nat ->
  let ds := lsd_digits m divider uval in
  digit_loop fuel divider (pre ++ post) (Z.of_nat (length pre)) uval =
    Ok (pre ++ ds ++ skipn (length ds) post, Z.of_nat (length pre + length ds)).
Proof.
  induction m as [|m IH]; intros fuel divider pre post uval Hd Hd' Hu Hm Hf Hlen Hpost; [lia|].
  destruct fuel as [|fuel]; [lia|].
  destruct post as [|x post]; [simpl in Hpost; lia|].
  cbn [digit_loop lsd_digits]. rewrite maxBufSize_eq.
  destruct (Z.of_nat (length pre) <? 32) eqn:E; [|lia].
  destruct (divider =? 0)%N eqn:E0; [lia|].
  assert (Hrem : (uval mod divider < divider)%N) by (apply N.mod_lt; lia).
  rewrite digit_char_of by lia.
  rewrite (bset_at pre x post) by reflexivity. cbn [bind].
  destruct (uval / divider =? 0)%N eqn:Eq.
  - cbn [length app skipn]. do 2 f_equal; lia.
  - assert (Hm2 : (1 <= m)%nat).
    { destruct m; [|lia]. change (N.of_nat 1) with 1%N in Hu. rewrite N.pow_1_r in Hu.
      apply N.eqb_neq in Eq. exfalso. apply Eq. apply N.div_small. exact Hu. }
    assert (Hu' : (uval / divider < divider ^ N.of_nat m)%N).
    { apply N.div_lt_upper_bound; [lia|]. rewrite Nat2N.inj_succ, N.pow_succ_r' in Hu. exact Hu. }
    specialize (IH fuel divider (pre ++ [digit_of (uval mod divider)]) post (uval / divider)%N Hd Hd' Hu' Hm2).
    rewrite app_length in IH. cbn [length] in IH.
    replace (Z.of_nat (length pre) + 1) with (Z.of_nat (length pre + 1)) by lia.
    rewrite <- app_assoc in IH. cbn [app] in IH.
    rewrite IH; try lia; [|simpl in Hpost; lia].
    cbn [length skipn app]. rewrite <- app_assoc. cbn [app]. do 2 f_equal; lia.
Qed.

Lemma pad_loop_spec k : forall fuel pre post padLen padCh,
  k = Z.to_nat (padLen - Z.of_nat (length pre)) -> (k < fuel)%nat -> (k <= length post)%nat ->
  pad_loop fuel (pre ++ post) (Z.of_nat (length pre)) padLen padCh =
    Ok (pre ++ repeat padCh k ++ skipn k post, Z.of_nat (length pre + k)).
Proof.
  induction k as [|k IH]; intros fuel pre post padLen padCh Hk Hf Hpost;
    (destruct fuel as [|fuel]; [lia|]); cbn [pad_loop].
  - destruct (Z.of_nat (length pre) - 0 <? padLen) eqn:E; [lia|].
    cbn [repeat app skipn]. do 2 f_equal; lia.
  - destruct (Z.of_nat (length pre) - 0 <? padLen) eqn:E; [|lia].
    destruct post as [|x post]; [simpl in Hpost; lia|].
    rewrite (bset_at pre x post) by reflexivity. cbn [bind].
    specialize (IH fuel (pre ++ [padCh]) post padLen padCh).
    rewrite app_length in IH. cbn [length] in IH.
    replace (Z.of_nat (length pre) + 1) with (Z.of_nat (length pre + 1)) by lia.
    rewrite <- app_assoc in IH. cbn [app] in IH.
    rewrite IH; try lia; [|simpl in Hpost; lia].
    cbn [repeat skipn app]. rewrite <- app_assoc. cbn [app]. do 2 f_equal; lia.
Qed.

Lemma sign_search_spec k : forall fuel ds c post,
  c <> 32%N -> (k < fuel)%nat ->
  sign_search fuel ((ds ++ [c]) ++ repeat 32%N k ++ post) (Z.of_nat (length ds + k)) = Ok (Z.of_nat (length ds)).
Proof.
  induction k as [|k IH]; intros fuel ds c post Hc Hf; (destruct fuel as [|fuel]; [lia|]); cbn [sign_search].
  - cbn [repeat app]. rewrite <- app_assoc. cbn [app].
    rewrite (bget_at ds c post) by lia. cbn [bind].
    destruct (c =? 32)%N eqn:E; [apply N.eqb_eq in E; contradiction|]. f_equal. lia.
  - replace (repeat 32%N (S k)) with (repeat 32%N k ++ [32%N]).
    2:{ clear. induction k; simpl; [reflexivity|]. rewrite IHk. reflexivity. }
    rewrite <- (app_assoc (repeat 32%N k)). cbn [app].
    rewrite (app_assoc (ds ++ [c])).
    rewrite (bget_at ((ds ++ [c]) ++ repeat 32%N k) 32%N post).
    2:{ rewrite !app_length, repeat_length. simpl. lia. }
    cbn [bind N.eqb Pos.eqb].
    specialize (IH fuel ds c (32%N :: post) Hc ltac:(lia)).
    replace (Z.of_nat (length ds + S k) - 1) with (Z.of_nat (length ds + k)) by lia.
    rewrite <- app_assoc. exact IH.
Qed.

Lemma reverse_loop_spec fuel : forall mid pre post,
  (length mid < fuel)%nat ->
  reverse_loop fuel (pre ++ mid ++ post) (Z.of_nat (length pre)) (Z.of_nat (length pre + length mid) - 1)
  = Ok (pre ++ rev mid ++ post).
Proof.
  induction fuel as [|fuel IH]; intros mid pre post Hf; [lia|]. cbn [reverse_loop].
  destruct mid as [|a mid].
  - cbn [length]. destruct (Z.of_nat (length pre) <? Z.of_nat (length pre + 0) - 1) eqn:E; [lia|]. reflexivity.
  - destruct (exists_last (l := a :: mid) ltac:(discriminate)) as [mid' [b Hm]].
    destruct mid' as [|a' mid'].
    + (* single element *)
      cbn [app] in Hm. injection Hm as -> ->. cbn [length].
      destruct (Z.of_nat (length pre) <? Z.of_nat (length pre + 1) - 1) eqn:E; [lia|]. reflexivity.
    + cbn [app] in Hm. injection Hm as <- ->. cbn [length]. rewrite app_length. cbn [length].
      destruct (Z.of_nat (length pre) <? Z.of_nat (length pre + S (length mid' + 1)) - 1) eqn:E; [|lia].
      cbn [app]. rewrite (bget_at pre a) by reflexivity. cbn [bind].
      (* right element *)
      assert (Hr : pre ++ a :: (mid' ++ [b]) ++ post = (pre ++ a :: mid') ++ b :: post).
      { norm_app. reflexivity. }
      rewrite Hr. rewrite (bget_at (pre ++ a :: mid') b post).
      2:{ rewrite app_length. cbn [length]. lia. }
      cbn [bind]. rewrite <- Hr.
      rewrite (bset_at pre a) by reflexivity. cbn [bind].
      assert (Hr2 : pre ++ b :: (mid' ++ [b]) ++ post = (pre ++ b :: mid') ++ b :: post).
      { norm_app. reflexivity. }
      rewrite Hr2. rewrite (bset_at (pre ++ b :: mid') b post).
      2:{ rewrite app_length. cbn [length]. lia. }
      cbn [bind].
      specialize (IH mid' (pre ++ [b]) (a :: post)).
      rewrite app_length in IH. cbn [length] in IH.
      replace (Z.of_nat (length pre) + 1) with (Z.of_nat (length pre + 1)) by lia.
      replace (Z.of_nat (length pre + S (length mid' + 1)) - 1 - 1) with (Z.of_nat (length pre + 1 + length mid') - 1) by lia.
      assert (Hr3 : (pre ++ b :: mid') ++ a :: post = (pre ++ [b]) ++ mid' ++ a :: post).
      { norm_app. reflexivity. }
      rewrite Hr3, IH by (cbn [length] in Hf; rewrite app_length in Hf; cbn [length] in Hf; lia).
      f_equal. cbn [rev]. rewrite rev_app_distr. cbn [rev app].
      rewrite <- !app_assoc. cbn [app]. reflexivity.
Qed.

(** ---- fmtInt assembled ---- *)
Lemma bslice_at pre post r : r = Z.of_nat (length pre) -> bslice (pre ++ post) r = Ok pre.
Proof.
  intros ->. unfold bslice. destruct (Z.of_nat (length pre) <? 0) eqn:E; [lia|].
  rewrite Nat2Z.id.
  assert (H : (length pre <=? length (pre ++ post))%nat = true).
  { apply Nat.leb_le. rewrite app_length. lia. }
  rewrite H, firstn_len_app. reflexivity.
Qed.

Lemma rev_repeat (c : N) k : rev (repeat c k) = repeat c k.
Proof.
  induction k as [|k IH]; [reflexivity|]. cbn [repeat rev]. rewrite IH.
  clear. induction k; simpl; [reflexivity|]. rewrite IHk. reflexivity.
Qed.

(** everything after the padding loop *)
Definition int_tail (fuel : nat) (r2 : list N * Z) (neg : bool) : outcome (list chunk * list N) :=
  r3 <- (if neg then
           e <- sign_search fuel (fst r2) (snd r2 - 1) ;;
           let right := if e =? snd r2 - 1 then snd r2 + 1 else snd r2 in
           buf' <- bset (fst r2) (e + 1) 45%N ;;
           Ok (buf', right)
         else Ok r2) ;;
  let e := snd r3 in
  buf4 <- reverse_loop fuel (fst r3) 0 (snd r3 - 1) ;;
  out <- bslice buf4 e ;;
  Ok ([out], buf4).

Definition int_core (buf : list N) (divider padCh : N) (padLen : Z) (neg : bool) (uval : N) :=
  r1 <- digit_loop (S (Z.to_nat maxBufSize)) divider buf 0 uval ;;
  r2 <- pad_loop (S (length buf)) (fst r1) (snd r1) padLen padCh ;;
  int_tail (S (length buf)) r2 neg.

Lemma reverse_loop_whole fuel mid post l r :
  l = 0 -> r = Z.of_nat (length mid) - 1 -> (length mid < fuel)%nat ->
  reverse_loop fuel (mid ++ post) l r = Ok (rev mid ++ post).
Proof.
  intros -> -> Hf. pose proof (reverse_loop_spec fuel mid [] post Hf) as R.
  cbn [app length] in R. rewrite Nat.add_0_l in R. exact R.
Qed.

Lemma sign_search_at fuel ds c k post e :
  c <> 32%N -> (k < fuel)%nat -> e = Z.of_nat (length ds + k) ->
  sign_search fuel ((ds ++ [c]) ++ repeat 32%N k ++ post) e = Ok (Z.of_nat (length ds)).
Proof. intros Hc Hf ->. apply sign_search_spec; assumption. Qed.

Lemma int_tail_pos fuel P post r :
  r = Z.of_nat (length P) -> (length P < fuel)%nat ->
  int_tail fuel (P ++ post, r) false = Ok ([rev P], rev P ++ post).
Proof.
  intros -> Hf. unfold int_tail. cbn [bind fst snd].
  rewrite (reverse_loop_whole fuel P post) by (auto; lia). cbn [bind].
  rewrite bslice_at by (rewrite rev_length; reflexivity). reflexivity.
Qed.

Lemma int_tail_neg_append fuel P0 c y post r :
  c <> 32%N -> (length P0 + 2 < fuel)%nat -> r = Z.of_nat (length P0 + 1) ->
  int_tail fuel ((P0 ++ [c]) ++ y :: post, r) true
  = Ok ([45%N :: rev (P0 ++ [c])], (45%N :: rev (P0 ++ [c])) ++ post).
Proof.
  intros Hc Hf ->. unfold int_tail. cbn [fst snd].
  rewrite (sign_search_at fuel P0 c 0 (y :: post)) by (auto; lia). cbn [bind].
  destruct (Z.of_nat (length P0) =? Z.of_nat (length P0 + 1) - 1) eqn:E; [|lia].
  rewrite (bset_at (P0 ++ [c]) y post) by (rewrite app_length; cbn [length]; lia).
  cbn [bind fst snd].
  assert (Hr : (P0 ++ [c]) ++ 45%N :: post = ((P0 ++ [c]) ++ [45%N]) ++ post) by (norm_app; reflexivity).
  rewrite Hr.
  rewrite (reverse_loop_whole fuel ((P0 ++ [c]) ++ [45%N]) post) by (rewrite ?app_length; cbn [length]; lia).
  cbn [bind]. rewrite rev_app_distr. cbn [rev app].
  rewrite (bslice_at (45%N :: rev (P0 ++ [c])) post).
  2:{ cbn [length]. rewrite rev_length, app_length. cbn [length]. lia. }
  reflexivity.
Qed.

Lemma int_tail_neg_inpad fuel P0 c k post r :
  c <> 32%N -> (length P0 + k + 3 < fuel)%nat -> r = Z.of_nat (length P0 + 1 + S k) ->
  int_tail fuel ((P0 ++ [c]) ++ repeat 32%N (S k) ++ post, r) true
  = Ok ([repeat 32%N k ++ 45%N :: rev (P0 ++ [c])], (repeat 32%N k ++ 45%N :: rev (P0 ++ [c])) ++ post).
Proof.
  intros Hc Hf ->. unfold int_tail. cbn [fst snd].
  rewrite (sign_search_at fuel P0 c (S k) post) by (auto; lia). cbn [bind].
  destruct (Z.of_nat (length P0) =? Z.of_nat (length P0 + 1 + S k) - 1) eqn:E; [lia|].
  cbn [repeat app].
  rewrite (bset_at (P0 ++ [c]) 32%N (repeat 32%N k ++ post)) by (rewrite app_length; cbn [length]; lia).
  cbn [bind fst snd].
  assert (Hr : (P0 ++ [c]) ++ 45%N :: repeat 32%N k ++ post = ((P0 ++ [c]) ++ 45%N :: repeat 32%N k) ++ post)
    by (norm_app; reflexivity).
  rewrite Hr.
  rewrite (reverse_loop_whole fuel ((P0 ++ [c]) ++ 45%N :: repeat 32%N k) post)
    by (rewrite ?app_length; cbn [length]; rewrite ?repeat_length; lia).
  cbn [bind]. rewrite rev_app_distr. cbn [rev]. rewrite rev_repeat.
  assert (Hr2 : (repeat 32%N k ++ [45%N]) ++ rev (P0 ++ [c]) = repeat 32%N k ++ 45%N :: rev (P0 ++ [c]))
    by (norm_app; reflexivity).
  rewrite Hr2.
  rewrite (bslice_at (repeat 32%N k ++ 45%N :: rev (P0 ++ [c])) post).
  2:{ rewrite app_length, repeat_length. cbn [length]. rewrite rev_length, app_length. cbn [length]. lia. }
  reflexivity.
Qed.

Lemma repeat_snoc (c : N) k : repeat c (S k) = repeat c k ++ [c].
Proof. induction k as [|k IH]; [reflexivity|]. cbn [repeat app] in *. rewrite <- IH. reflexivity. Qed.

Definition int_out (ds : list N) (padCh : N) (k : nat) (neg : bool) : list N :=
  if neg then
    if (padCh =? 32)%N then
      match k with O => 45%N :: rev ds | S k' => repeat 32%N k' ++ 45%N :: rev ds end
    else 45%N :: repeat padCh k ++ rev ds
  else repeat padCh k ++ rev ds.

Lemma int_core_spec buf divider padCh padLen neg uval :
  length buf = buf_len -> (divider = 8 \/ divider = 10 \/ divider = 16)%N ->
  (uval < 2 ^ 64)%N -> padLen <= 31 -> (padCh = 32 \/ padCh = 48)%N ->
  let ds := lsd_digits 22 divider uval in
  let k := Z.to_nat (padLen - Z.of_nat (length ds)) in
  exists buf', length buf' = buf_len /\
    int_core buf divider padCh padLen neg uval = Ok ([int_out ds padCh k neg], buf').
Proof.
  intros Hlen Hd Hu Hpad Hch ds k. pose proof buf_len_ge as Hge.
  assert (Hd2 : (2 <= divider)%N /\ (divider <= 16)%N) by lia. destruct Hd2 as [Hd2 Hd16].
  assert (Hpow : (2 ^ 64 <= divider ^ N.of_nat 22)%N).
  { destruct Hd as [-> | [-> | ->]]; vm_compute; discriminate. }
  assert (Hn1 : (1 <= length ds)%nat) by (apply lsd_nonempty; lia).
  assert (Hn2 : (length ds <= 22)%nat) by apply lsd_length.
  pose proof (lsd_all_digits 22 divider uval Hd2 Hd16) as Hall. fold ds in Hall.
  unfold int_core.
  pose proof (digit_loop_spec 22 (S (Z.to_nat maxBufSize)) divider [] buf uval Hd2 Hd16 ltac:(lia) ltac:(lia)) as D.
  cbv zeta in D. fold ds in D.
  assert (Hkdef : k = Z.to_nat (padLen - Z.of_nat (length ds))) by reflexivity.
  clearbody k. clearbody ds.
  rewrite maxBufSize_eq in *. cbn [app length] in D. change (Z.of_nat 0) with 0 in D.
  rewrite D by (cbn [Z.to_nat Pos.to_nat Pos.iter_op Nat.add]; lia). clear D. clear Hpow Hu. cbn [bind fst snd].
  set (post1 := skipn (length ds) buf).
  assert (Hp1 : length post1 = (buf_len - length ds)%nat) by (unfold post1; rewrite skipn_length; lia).
  rewrite Nat.add_0_l.
  rewrite (pad_loop_spec k (S (length buf)) ds post1 padLen padCh) by (try reflexivity; lia).
  cbn [bind]. set (post2 := skipn k post1).
  assert (Hp2 : length post2 = (buf_len - length ds - k)%nat) by (unfold post2; rewrite skipn_length; lia).
  clearbody post2. clearbody post1.
  assert (Hk : (length ds + k <= 31)%nat) by lia.
  destruct neg.
  - (* negative *)
    destruct (exists_last (l := ds) ltac:(intros E; rewrite E in Hn1; simpl in Hn1; lia)) as [P0 [c Hds]].
    assert (Hc : c <> 32%N).
    { pose proof Hall as F. rewrite Hds in F.
      apply Forall_app in F. destruct F as [_ F]. inversion F; subst. tauto. }
    assert (HlP : length ds = (length P0 + 1)%nat) by (rewrite Hds, app_length; simpl; lia).
    unfold int_out.
    destruct Hch as [-> | ->]; cbn [N.eqb Pos.eqb].
    + destruct k as [|k'] eqn:Ek.
      * cbn [repeat app]. destruct post2 as [|y post']; [cbn [length] in Hp2; lia|].
        rewrite Hds.
        rewrite (int_tail_neg_append (S (length buf)) P0 c y post').
        2:auto. 2:lia. 2:{ rewrite app_length; cbn [length]; lia. }
        eexists; split; [|reflexivity]. len_norm. cbn [length] in Hp2. lia.
      * rewrite Hds.
        rewrite (int_tail_neg_inpad (S (length buf)) P0 c k' post2) by (auto; rewrite ?app_length; cbn [length]; lia).
        eexists; split; [|reflexivity].
        len_norm. lia.
    + (* zero padding: the last written character is a digit or '0' *)
      destruct post2 as [|y post']; [cbn [length] in Hp2; lia|].
      assert (HP : exists Q c', ds ++ repeat 48%N k = Q ++ [c'] /\ c' <> 32%N).
      { destruct k as [|k'].
        - exists P0, c. cbn [repeat]. rewrite app_nil_r. auto.
        - exists (ds ++ repeat 48%N k'), 48%N. rewrite repeat_snoc, app_assoc. split; [reflexivity|discriminate]. }
      destruct HP as [Q [c' [HQ Hc']]].
      assert (HlQ : (length Q + 1 = length ds + k)%nat).
      { apply (f_equal (@length N)) in HQ. rewrite !app_length, repeat_length in HQ. simpl in HQ. lia. }
      rewrite app_assoc, HQ.
      rewrite (int_tail_neg_append (S (length buf)) Q c' y post') by (auto; rewrite ?app_length; cbn [length]; lia).
      rewrite <- HQ, rev_app_distr, rev_repeat.
      eexists; split; [|reflexivity].
      len_norm. cbn [length] in Hp2. lia.
  - rewrite app_assoc.
    rewrite (int_tail_pos (S (length buf)) (ds ++ repeat padCh k) post2)
      by (rewrite app_length, repeat_length; lia).
    rewrite rev_app_distr, rev_repeat. unfold int_out.
    eexists; split; [|reflexivity].
    len_norm. lia.
Qed.

(** ---- fmtInt = specification ---- *)
Definition model_sval (k : ikind) (x : Z) : Z := if signed k then x else 0.
Definition model_mag (k : ikind) (x : Z) : N :=
  let sval := model_sval k x in
  let uval := if signed k then 0%N else to_u64 x in
  if sval <? 0 then to_u64 (wrap_int (- sval)) else if sval >? 0 then to_u64 sval else uval.

Lemma fmt_int_core buf k x base pad : base = 8 \/ base = 10 \/ base = 16 ->
  fmt_int buf (AInt k x) base pad =
    int_core buf (Z.to_N base) (if base =? 10 then 32%N else 48%N)
      (if pad >=? maxBufSize then maxBufSize - 1 else pad) (model_sval k x <? 0) (model_mag k x).
Proof. intros [-> | [-> | ->]]; reflexivity. Qed.

Lemma to_u64_lt z : (to_u64 z < 2 ^ 64)%N.
Proof.
  unfold to_u64, two64z. change (2 ^ 64)%N with (Z.to_N 18446744073709551616).
  pose proof (Z.mod_pos_bound z 18446744073709551616 ltac:(lia)). lia.
Qed.

Lemma model_mag_lt k x : (model_mag k x < 2 ^ 64)%N.
Proof.
  unfold model_mag. destruct (model_sval k x <? 0); [apply to_u64_lt|].
  destruct (model_sval k x >? 0); [apply to_u64_lt|].
  destruct (signed k); [|apply to_u64_lt]. reflexivity.
Qed.

Lemma int_out_render base pad neg mag :
  (base = 8 \/ base = 10 \/ base = 16)%N -> (mag < 2 ^ 64)%N ->
  let padLen := if pad >=? 32 then 32 - 1 else pad in
  let ds := lsd_digits 22 base mag in
  int_out ds (if (base =? 10)%N then 32 else 48)%N (Z.to_nat (padLen - Z.of_nat (length ds))) neg
  = render_int base (Z.to_N pad) neg mag.
Proof.
  intros Hb Hm padLen ds.
  assert (Hb2 : (2 <= base)%N) by lia.
  assert (Hpow : (2 ^ 64 <= base ^ N.of_nat 22)%N).
  { destruct Hb as [-> | [-> | ->]]; vm_compute; discriminate. }
  unfold render_int. rewrite (digits_lsd base mag 22) by (auto; lia). fold ds.
  assert (HpadLen : padLen = if pad >=? 32 then 32 - 1 else pad) by reflexivity.
  clearbody ds. clearbody padLen.
  rewrite rev_length.
  set (w := N.min (Z.to_N pad) 31).
  set (k := Z.to_nat (padLen - Z.of_nat (length ds))).
  assert (Hk : k = N.to_nat (w - N.of_nat (length ds))).
  { unfold k, w. rewrite HpadLen. destruct (pad >=? 32) eqn:E; lia. }
  unfold int_out, rep.
  destruct (base =? 10)%N eqn:E10.
  - cbn [N.eqb Pos.eqb]. destruct neg.
    + destruct (N.of_nat (length ds) <? w)%N eqn:Ew.
      * destruct k as [|k'] eqn:Ek; [lia|]. replace (N.to_nat (w - N.of_nat (length ds) - 1)) with k' by lia. reflexivity.
      * replace k with 0%nat by lia. reflexivity.
    + rewrite Hk. reflexivity.
  - cbn [N.eqb Pos.eqb]. rewrite Hk. destruct neg; reflexivity.
Qed.

Lemma fmt_int_exact buf k x base pad :
  length buf = buf_len -> base = 8 \/ base = 10 \/ base = 16 ->
  exists buf', length buf' = buf_len /\
    fmt_int buf (AInt k x) base pad =
      Ok ([render_int (Z.to_N base) (Z.to_N pad) (model_sval k x <? 0) (model_mag k x)], buf').
Proof.
  intros Hlen Hb. rewrite fmt_int_core by exact Hb. rewrite maxBufSize_eq.
  assert (HbN : (Z.to_N base = 8 \/ Z.to_N base = 10 \/ Z.to_N base = 16)%N) by lia.
  assert (Hch : (if base =? 10 then 32%N else 48%N) = 32%N \/ (if base =? 10 then 32%N else 48%N) = 48%N)
    by (destruct (base =? 10); auto).
  assert (Hpad : (if pad >=? 32 then 32 - 1 else pad) <= 31) by (destruct (pad >=? 32) eqn:E; lia).
  destruct (int_core_spec buf (Z.to_N base) (if base =? 10 then 32%N else 48%N)
              (if pad >=? 32 then 32 - 1 else pad) (model_sval k x <? 0) (model_mag k x)
              Hlen HbN (model_mag_lt k x) Hpad Hch) as [buf' [Hl' Hc]].
  exists buf'. split; [exact Hl'|]. rewrite Hc.
  pose proof (int_out_render (Z.to_N base) pad (model_sval k x <? 0) (model_mag k x) HbN (model_mag_lt k x)) as R.
  cbv zeta in R.
  replace ((Z.to_N base =? 10)%N) with (base =? 10) in R by (destruct Hb as [-> | [-> | ->]]; reflexivity).
  rewrite R. reflexivity.
Qed.

Lemma model_in_range k x : in_range k x ->
  (model_sval k x <? 0) = (x <? 0) /\ model_mag k x = Z.abs_N x.
Proof.
  intros H. unfold model_mag, model_sval, to_u64, wrap_int, two64z, two63z.
  destruct k; cbv [in_range signed bits] in *;
    repeat match goal with
           | H : context [2 ^ ?e] |- _ => let v := eval vm_compute in (2 ^ e) in change (2 ^ e) with v in H
           end;
    repeat match goal with
           | |- context [?a <? ?b] => destruct (a <? b) eqn:?
           | |- context [?a >? ?b] => destruct (a >? b) eqn:?
           end; split; try reflexivity; try lia.
Qed.
