(** Proofs about Fprintf's scanner (Kfmt/Fmt.v): it never panics on any format, and on well-formed
    formats it writes exactly what the specification (Kfmt/FmtSpec.v) renders. *)
From Coq Require Import NArith ZArith List Bool Lia.
From Coq Require Import ZifyBool ZifyN ZifyNat.
From FF Require Import Lib.Word Gen.Consts_kfmt Kfmt.Fmt Kfmt.FmtSpec Kfmt.FmtProofs.
Import ListNotations.
Ltac Zify.zify_post_hook ::= Z.div_mod_to_equations.
Local Open Scope Z_scope.

Definition is_ok {A} (o : outcome A) : Prop := exists r, o = Ok r.

(** ---- the per-verb formatters are total ---- *)
Lemma singles_ok s : singles s = Ok (map (fun c => [c]) s).
Proof. induction s as [|c s IH]; [reflexivity|]. cbn [singles map]. rewrite single_ok, IH. reflexivity. Qed.

Lemma fmt_repeat_ok ch count : fmt_repeat ch count = Ok (repeat [ch] (Z.to_nat count)).
Proof.
  unfold fmt_repeat. rewrite single_ok. cbn [bind]. f_equal.
  rewrite <- Z_N_nat. rewrite N2Nat.inj_iter.
  induction (N.to_nat (Z.to_N count)) as [|n IH]; [reflexivity|]. cbn [Nat.iter repeat]. rewrite <- IH. reflexivity.
Qed.

Lemma concat_repeat_single (c : N) n : concat (repeat [c] n) = repeat c n.
Proof. induction n as [|n IH]; [reflexivity|]. cbn [repeat concat app]. rewrite IH. reflexivity. Qed.

Lemma concat_singles (s : list N) : concat (map (fun c => [c]) s) = s.
Proof. induction s as [|c s IH]; [reflexivity|]. cbn [map concat app]. rewrite IH. reflexivity. Qed.

Lemma fmt_int_total buf a base pad :
  length buf = buf_len -> base = 8 \/ base = 10 \/ base = 16 ->
  exists r, fmt_int buf a base pad = Ok r /\ length (snd r) = buf_len.
Proof.
  intros Hl Hb. destruct a as [k x| | | |].
  - destruct (fmt_int_exact buf k x base pad Hl Hb) as [buf' [Hl' E]]. eexists. split; [exact E|exact Hl'].
  - destruct Hb as [-> | [-> | ->]]; (eexists; split; [reflexivity|exact Hl]).
  - destruct Hb as [-> | [-> | ->]]; (eexists; split; [reflexivity|exact Hl]).
  - destruct Hb as [-> | [-> | ->]]; (eexists; split; [reflexivity|exact Hl]).
  - destruct Hb as [-> | [-> | ->]]; (eexists; split; [reflexivity|exact Hl]).
Qed.

Lemma fmt_string_total a pad : exists r, fmt_string a pad = Ok r.
Proof.
  destruct a; cbn [fmt_string]; try (eexists; reflexivity);
    rewrite fmt_repeat_ok; cbn [bind]; try rewrite singles_ok; cbn [bind]; eexists; reflexivity.
Qed.

Lemma do_verb_total ch a pad buf :
  length buf = buf_len -> exists r, do_verb ch a pad buf = Ok r /\ length (snd r) = buf_len.
Proof.
  intros Hl. unfold do_verb.
  destruct (ch =? 111)%N; [apply fmt_int_total; auto|].
  destruct (ch =? 100)%N; [apply fmt_int_total; auto|].
  destruct (ch =? 120)%N; [apply fmt_int_total; auto|].
  destruct (ch =? 115)%N.
  { destruct (fmt_string_total a pad) as [r E]. rewrite E. cbn [bind]. eexists; split; [reflexivity|exact Hl]. }
  destruct (ch =? 116)%N; (eexists; split; [reflexivity|exact Hl]).
Qed.

(** ---- literal blocks ---- *)
Lemma write_block_app blk : forall pre rest,
  write_block (pre ++ blk ++ rest) (length blk) (length pre) = Ok (map (fun c => [c]) blk).
Proof.
  induction blk as [|c blk IH]; intros pre rest; [reflexivity|].
  cbn [length write_block]. unfold fget.
  rewrite nth_error_app2, Nat.sub_diag by lia. cbn [app nth_error bind].
  rewrite single_ok. cbn [bind].
  specialize (IH (pre ++ [c]) rest). rewrite app_length in IH. cbn [length] in IH.
  rewrite <- app_assoc in IH. cbn [app] in IH.
  replace (S (length pre)) with (length pre + 1)%nat by lia. rewrite IH. reflexivity.
Qed.

Lemma write_block_total fmt n : forall i, (i + n <= length fmt)%nat ->
  exists r, write_block fmt n i = Ok r.
Proof.
  induction n as [|n IH]; intros i H; [eexists; reflexivity|]. cbn [write_block]. unfold fget.
  destruct (nth_error fmt i) as [c|] eqn:E.
  2:{ apply nth_error_None in E. lia. }
  cbn [bind]. rewrite single_ok. cbn [bind].
  destruct (IH (S i) ltac:(lia)) as [r Er]. rewrite Er. eexists; reflexivity.
Qed.

(** ---- Fprintf never panics ---- *)
Definition scan_inv (fmt : list N) (mode : option Z) (bs be : nat) : Prop :=
  (bs <= be)%nat /\
  match mode with
  | Some _ => (be <= length fmt)%nat
  | None => (be <= length fmt)%nat \/ (bs = be /\ be = S (length fmt))
  end.

Lemma scan_total fmt args fuel : forall mode bs be ai buf,
  length buf = buf_len -> scan_inv fmt mode bs be -> (length fmt + 2 <= fuel + be)%nat ->
  exists r, scan fmt args fuel mode bs be ai buf = Ok r /\ length (snd r) = buf_len.
Proof.
  induction fuel as [|fuel IH]; intros mode bs be ai buf Hl [Hbs Hinv] Hf.
  { exfalso. destruct mode; lia. }
  cbn [scan]. destruct mode as [pad|].
  - (* inside a format specifier *)
    destruct (be <? length fmt)%nat eqn:Ebe.
    + apply Nat.ltb_lt in Ebe. unfold fget.
      destruct (nth_error fmt be) as [ch|] eqn:E; [|apply nth_error_None in E; lia]. cbn [bind].
      destruct (ch =? 37)%N.
      { rewrite single_ok. cbn [bind].
        destruct (IH None (S be) (S be) ai buf Hl) as [r [Er Hr]]; [split; [lia|left; lia] | lia |].
        rewrite Er. cbn [bind]. eexists; split; [reflexivity|exact Hr]. }
      destruct (is_digit ch).
      { apply IH; [exact Hl | split; [lia|lia] | lia]. }
      destruct (is_verb ch).
      { destruct (nth_error args ai) as [a|].
        - destruct (do_verb_total ch a pad buf Hl) as [o [Eo Ho]]. rewrite Eo. cbn [bind].
          destruct (IH None (S be) (S be) (S ai) (snd o) Ho) as [r [Er Hr]]; [split; [lia|left; lia] | lia |].
          rewrite Er. cbn [bind]. eexists; split; [reflexivity|exact Hr].
        - destruct (IH None (S be) (S be) ai buf Hl) as [r [Er Hr]]; [split; [lia|left; lia] | lia |].
          rewrite Er. cbn [bind]. eexists; split; [reflexivity|exact Hr]. }
      destruct (IH (Some pad) bs (S be) ai buf Hl) as [r [Er Hr]]; [split; lia | lia |].
      rewrite Er. cbn [bind]. eexists; split; [reflexivity|exact Hr].
    + apply Nat.ltb_ge in Ebe.
      apply IH; [exact Hl | split; [lia | right; split; lia] | lia].
  - destruct (be <? length fmt)%nat eqn:Ebe.
    + apply Nat.ltb_lt in Ebe. unfold fget.
      destruct (nth_error fmt be) as [ch|] eqn:E; [|apply nth_error_None in E; lia]. cbn [bind].
      destruct (negb (ch =? 37)%N).
      { apply IH; [exact Hl | split; [lia | left; lia] | lia]. }
      assert (Hb : exists blk, (if (bs <? be)%nat then write_block fmt (be - bs) bs else Ok []) = Ok blk).
      { destruct (bs <? be)%nat; [|eexists; reflexivity]. apply write_block_total. lia. }
      destruct Hb as [blk Hb]. rewrite Hb. cbn [bind].
      destruct (IH (Some 0) bs (S be) ai buf Hl) as [r [Er Hr]]; [split; lia | lia |].
      rewrite Er. cbn [bind]. eexists; split; [reflexivity|exact Hr].
    + apply Nat.ltb_ge in Ebe. unfold finish.
      assert (Hb : exists blk, (if negb (bs =? be)%nat then write_block fmt (be - bs) bs else Ok []) = Ok blk).
      { destruct (bs =? be)%nat eqn:Eq; cbn [negb]; [eexists; reflexivity|].
        apply Nat.eqb_neq in Eq. apply write_block_total. lia. }
      destruct Hb as [blk Hb]. rewrite Hb. cbn [bind]. eexists; split; [reflexivity|exact Hl].
Qed.

Lemma fprintf_total fmt args buf :
  length buf = buf_len -> exists r, fprintf fmt args buf = Ok r /\ length (snd r) = buf_len.
Proof.
  intros Hl. unfold fprintf. apply scan_total; [exact Hl | split; [lia | left; lia] | lia].
Qed.

(** ---- one step of the scanner, by what it sees ---- *)
Section Steps.
  Variable fmt : list N.
  Variable args : list arg.

  Lemma nth_lt be (ch : N) : nth_error fmt be = Some ch -> (be <? length fmt)%nat = true.
  Proof. intros H. apply Nat.ltb_lt. apply nth_error_Some. rewrite H. discriminate. Qed.

  Lemma scan_None_lit f bs be ai buf ch :
    nth_error fmt be = Some ch -> ch <> 37%N ->
    scan fmt args (S f) None bs be ai buf = scan fmt args f None bs (S be) ai buf.
  Proof.
    intros H Hc. cbn [scan]. rewrite (nth_lt be ch H). unfold fget. rewrite H. cbn [bind].
    destruct (ch =? 37)%N eqn:E; [apply N.eqb_eq in E; contradiction|]. reflexivity.
  Qed.

  Lemma scan_None_pct f bs be ai buf :
    nth_error fmt be = Some 37%N ->
    scan fmt args (S f) None bs be ai buf =
      (blk <- (if (bs <? be)%nat then write_block fmt (be - bs) bs else Ok []) ;;
       r <- scan fmt args f (Some 0) bs (S be) ai buf ;;
       Ok (blk ++ fst r, snd r)).
  Proof.
    intros H. cbn [scan]. rewrite (nth_lt be _ H). unfold fget. rewrite H. reflexivity.
  Qed.

  Lemma scan_None_end f bs be ai buf :
    (length fmt <= be)%nat -> scan fmt args (S f) None bs be ai buf = finish fmt args bs be ai buf.
  Proof.
    intros H. cbn [scan]. destruct (be <? length fmt)%nat eqn:E; [apply Nat.ltb_lt in E; lia|]. reflexivity.
  Qed.

  Lemma scan_Some_pct f pad bs be ai buf :
    nth_error fmt be = Some 37%N ->
    scan fmt args (S f) (Some pad) bs be ai buf =
      (r <- scan fmt args f None (S be) (S be) ai buf ;; Ok ([37%N] :: fst r, snd r)).
  Proof.
    intros H. cbn [scan]. rewrite (nth_lt be _ H). unfold fget. rewrite H. reflexivity.
  Qed.

  Lemma scan_Some_digit f pad bs be ai buf ch :
    nth_error fmt be = Some ch -> is_digit ch = true ->
    scan fmt args (S f) (Some pad) bs be ai buf =
      scan fmt args f (Some (wrap_int (pad * 10 + Z.of_N (w8 (ch + 256 - 48))))) bs (S be) ai buf.
  Proof.
    intros H Hd. cbn [scan]. rewrite (nth_lt be _ H). unfold fget. rewrite H. cbn [bind].
    destruct (ch =? 37)%N eqn:E.
    { apply N.eqb_eq in E. subst ch. discriminate Hd. }
    rewrite Hd. reflexivity.
  Qed.

  Lemma scan_Some_verb f pad bs be ai buf ch :
    nth_error fmt be = Some ch -> is_verb ch = true ->
    scan fmt args (S f) (Some pad) bs be ai buf =
      match nth_error args ai with
      | None => r <- scan fmt args f None (S be) (S be) ai buf ;; Ok (kfmt_errMissingArg :: fst r, snd r)
      | Some a =>
          o <- do_verb ch a pad buf ;;
          r <- scan fmt args f None (S be) (S be) (S ai) (snd o) ;;
          Ok (fst o ++ fst r, snd r)
      end.
  Proof.
    intros H Hv. cbn [scan]. rewrite (nth_lt be _ H). unfold fget. rewrite H. cbn [bind].
    assert (E : (ch =? 37)%N = false /\ is_digit ch = false).
    { unfold is_verb in Hv. unfold is_digit.
      destruct (ch =? 100)%N eqn:E1; [apply N.eqb_eq in E1; subst; split; reflexivity|].
      destruct (ch =? 120)%N eqn:E2; [apply N.eqb_eq in E2; subst; split; reflexivity|].
      destruct (ch =? 111)%N eqn:E3; [apply N.eqb_eq in E3; subst; split; reflexivity|].
      destruct (ch =? 115)%N eqn:E4; [apply N.eqb_eq in E4; subst; split; reflexivity|].
      destruct (ch =? 116)%N eqn:E5; [apply N.eqb_eq in E5; subst; split; reflexivity|].
      discriminate Hv. }
    destruct E as [E1 E2]. rewrite E1, E2, Hv. reflexivity.
  Qed.
End Steps.

Lemma nth_error_mid (pre : list N) c rest : nth_error (pre ++ c :: rest) (length pre) = Some c.
Proof. rewrite nth_error_app2, Nat.sub_diag by lia. reflexivity. Qed.

(** ---- literal text ---- *)
Lemma scan_literal args s : forall pre rest fuel bs ai buf,
  ~ In 37%N s ->
  scan (pre ++ s ++ rest) args (length s + fuel) None bs (length pre) ai buf =
  scan (pre ++ s ++ rest) args fuel None bs (length pre + length s) ai buf.
Proof.
  induction s as [|c s IH]; intros pre rest fuel bs ai buf Hs.
  - cbn [length Nat.add]. rewrite Nat.add_0_r. reflexivity.
  - cbn [length Nat.add].
    rewrite (scan_None_lit _ _ _ _ _ _ _ c).
    2:{ cbn [app]. apply nth_error_mid. }
    2:{ intros E. apply Hs. left. exact E. }
    specialize (IH (pre ++ [c]) rest fuel bs ai buf ltac:(intros H; apply Hs; right; exact H)).
    rewrite <- app_assoc in IH. cbn [app] in IH. rewrite app_length in IH. cbn [length] in IH.
    replace (S (length pre)) with (length pre + 1)%nat by lia.
    cbn [app]. rewrite IH. f_equal. lia.
Qed.

(** ---- width digits ---- *)
Lemma wrap_int_small z : - two63z <= z < two63z -> wrap_int z = z.
Proof. unfold wrap_int, two63z, two64z. intros H. lia. Qed.

Lemma fold_width_ge wd : forall p, (p <= fold_left (fun a d => a * 10 + d) wd p)%N.
Proof.
  induction wd as [|d wd IH]; intros p; cbn [fold_left]; [lia|].
  specialize (IH (p * 10 + d)%N). lia.
Qed.

Lemma scan_width args wd : forall p pre rest fuel bs ai buf,
  Forall (fun d => (d < 10)%N) wd ->
  (fold_left (fun a d => a * 10 + d) wd p < width_limit)%N ->
  let fmt := pre ++ map (fun d => (d + 48)%N) wd ++ rest in
  scan fmt args (length wd + fuel) (Some (Z.of_N p)) bs (length pre) ai buf =
  scan fmt args fuel (Some (Z.of_N (fold_left (fun a d => a * 10 + d)%N wd p))) bs (length pre + length wd) ai buf.
Proof.
  induction wd as [|d wd IH]; intros p pre rest fuel bs ai buf Hwd Hlim fmt.
  - cbn [length Nat.add fold_left]. rewrite Nat.add_0_r. reflexivity.
  - inversion Hwd as [|d' wd' Hd Hwd']; subst. cbn [length Nat.add fold_left] in *.
    rewrite (scan_Some_digit _ _ _ _ _ _ _ _ (d + 48)%N).
    2:{ unfold fmt. cbn [map app]. apply nth_error_mid. }
    2:{ unfold is_digit. apply andb_true_intro. split; apply N.leb_le; lia. }
    pose proof (fold_width_ge wd (p * 10 + d)%N) as Hge. unfold width_limit in Hlim.
    assert (Hpad : wrap_int (Z.of_N p * 10 + Z.of_N (w8 (d + 48 + 256 - 48))) = Z.of_N (p * 10 + d)).
    { unfold w8, two8. rewrite wrap_int_small; unfold two63z; lia. }
    rewrite Hpad.
    specialize (IH (p * 10 + d)%N (pre ++ [(d + 48)%N]) rest fuel bs ai buf Hwd' Hlim).
    cbv zeta in IH. rewrite <- app_assoc in IH. cbn [app] in IH. rewrite app_length in IH. cbn [length] in IH.
    replace (S (length pre)) with (length pre + 1)%nat by lia.
    unfold fmt. cbn [map app]. rewrite IH. f_equal. lia.
Qed.

(** ---- one verb ---- *)
Lemma do_verb_render v a w buf :
  length buf = buf_len -> arg_ok a -> (w < width_limit)%N ->
  exists o, do_verb (verb_char v) a (Z.of_N w) buf = Ok o /\ length (snd o) = buf_len /\
            concat (fst o) = render_verb w v a.
Proof.
  intros Hl Ha Hw. unfold width_limit in Hw.
  assert (Hint : forall base k x, base = 8 \/ base = 10 \/ base = 16 -> in_range k x ->
            exists o, fmt_int buf (AInt k x) base (Z.of_N w) = Ok o /\ length (snd o) = buf_len /\
                      concat (fst o) = render_int (Z.to_N base) w (x <? 0) (Z.abs_N x)).
  { intros base k x Hb Hr. destruct (fmt_int_exact buf k x base (Z.of_N w) Hl Hb) as [buf' [Hl' E]].
    destruct (model_in_range k x Hr) as [E1 E2]. rewrite E1, E2, N2Z.id in E.
    eexists. split; [exact E|]. split; [exact Hl'|]. cbn [fst concat]. apply app_nil_r. }
  assert (Hwrong : forall base, base = 8 \/ base = 10 \/ base = 16 ->
            match a with AInt _ _ => True | _ =>
              exists o, fmt_int buf a base (Z.of_N w) = Ok o /\ length (snd o) = buf_len /\
                        concat (fst o) = kfmt_errWrongArgType end).
  { intros base Hb. destruct a; [exact I| | | |];
      (destruct Hb as [-> | [-> | ->]]; (eexists; split; [reflexivity|]; split; [exact Hl|]; cbn [fst concat]; apply app_nil_r)). }
  destruct v; unfold do_verb; cbn [verb_char N.eqb Pos.eqb].
  - (* d *) destruct a as [k x| | | |]; [apply (Hint 10); auto | | | |]; apply (Hwrong 10); auto.
  - (* x *) destruct a as [k x| | | |]; [apply (Hint 16); auto | | | |]; apply (Hwrong 16); auto.
  - (* o *) destruct a as [k x| | | |]; [apply (Hint 8); auto | | | |]; apply (Hwrong 8); auto.
  - (* s *)
    assert (Hpad : forall s : list N, Z.of_nat (length s) < 2 ^ 62 ->
              wrap_int (Z.of_N w - Z.of_nat (length s)) = Z.of_N w - Z.of_nat (length s)).
    { intros s Hs. apply wrap_int_small. unfold two63z. lia. }
    destruct a as [k x|s|s|b|]; cbn [fmt_string render_verb arg_ok] in *.
    + eexists; split; [reflexivity|]; split; [exact Hl|]. cbn [fst concat]. apply app_nil_r.
    + rewrite fmt_repeat_ok, singles_ok. cbn [bind]. eexists; split; [reflexivity|]; split; [exact Hl|].
      cbn [fst]. rewrite concat_app, concat_repeat_single, concat_singles, Hpad by exact Ha.
      unfold rep. f_equal. f_equal. lia.
    + rewrite fmt_repeat_ok. cbn [bind]. eexists; split; [reflexivity|]; split; [exact Hl|].
      cbn [fst]. rewrite concat_app, concat_repeat_single, Hpad by exact Ha.
      cbn [concat]. rewrite app_nil_r. unfold rep. f_equal. f_equal. lia.
    + eexists; split; [reflexivity|]; split; [exact Hl|]. cbn [fst concat]. apply app_nil_r.
    + eexists; split; [reflexivity|]; split; [exact Hl|]. cbn [fst concat]. apply app_nil_r.
  - (* t *)
    destruct a as [k x|s|s|b|]; cbn [fmt_bool render_verb]; try destruct b;
      (eexists; split; [reflexivity|]; split; [exact Hl|]; cbn [fst concat]; apply app_nil_r).
Qed.

(** ---- the whole format ---- *)
Lemma concat_extra (x : list N) (l : list arg) n : n = length l ->
  concat (repeat x n) = flat_map (fun _ => x) l.
Proof.
  intros ->. induction l as [|a l IH]; [reflexivity|]. cbn [length repeat concat flat_map]. rewrite IH. reflexivity.
Qed.

Lemma skipn_nth_cons {A} (l : list A) i a : nth_error l i = Some a -> skipn i l = a :: skipn (S i) l.
Proof.
  revert i. induction l as [|x l IH]; intros i H; destruct i; try discriminate.
  - inversion H. reflexivity.
  - cbn [nth_error] in H. cbn [skipn]. apply IH. exact H.
Qed.

Lemma skipn_nth_none {A} (l : list A) i : nth_error l i = None -> skipn i l = [] /\ (length l - i = 0)%nat.
Proof. intros H. apply nth_error_None in H. split; [apply skipn_all2; exact H | lia]. Qed.

Lemma pending_block (pre rest : list N) bs :
  (bs <= length pre)%nat ->
  (if (bs <? length pre)%nat then write_block (pre ++ rest) (length pre - bs) bs else Ok [])
  = Ok (map (fun c => [c]) (skipn bs pre)).
Proof.
  intros H. destruct (bs <? length pre)%nat eqn:E.
  - pose proof (write_block_app (skipn bs pre) (firstn bs pre) rest) as W.
    rewrite skipn_length, firstn_length_le in W by exact H.
    rewrite app_assoc, firstn_skipn in W. exact W.
  - apply Nat.ltb_ge in E. rewrite skipn_all2 by lia. reflexivity.
Qed.

Lemma scan_render args : Forall arg_ok args -> forall ps, Forall piece_wf ps ->
  forall pre fuel bs ai buf,
  length buf = buf_len -> (bs <= length pre)%nat -> ~ In 37%N (skipn bs pre) ->
  (length (encode ps) + 2 <= fuel)%nat ->
  exists r, scan (pre ++ encode ps) args fuel None bs (length pre) ai buf = Ok r /\
            length (snd r) = buf_len /\
            concat (fst r) = skipn bs pre ++ render ps (skipn ai args).
Proof.
  intros Hargs ps. induction ps as [|p ps IH]; intros Hwf pre fuel bs ai buf Hl Hbs Hpend Hf.
  - (* end of the format *)
    cbn [encode flat_map] in *. rewrite app_nil_r. destruct fuel as [|fuel]; [simpl in Hf; lia|].
    rewrite scan_None_end by lia. unfold finish.
    assert (Hb : (if negb (bs =? length pre)%nat then write_block pre (length pre - bs) bs else Ok [])
                 = Ok (map (fun c => [c]) (skipn bs pre))).
    { pose proof (pending_block pre [] bs Hbs) as P. rewrite app_nil_r in P.
      destruct (bs =? length pre)%nat eqn:E; cbn [negb].
      - apply Nat.eqb_eq in E. rewrite skipn_all2 by lia. reflexivity.
      - apply Nat.eqb_neq in E. destruct (bs <? length pre)%nat eqn:E2; [exact P|]. apply Nat.ltb_ge in E2. lia. }
    rewrite Hb. cbn [bind]. eexists; split; [reflexivity|]. split; [exact Hl|].
    cbn [fst render]. rewrite concat_app, concat_singles. f_equal.
    apply concat_extra. rewrite skipn_length. reflexivity.
  - inversion Hwf as [|p' ps' Hp Hps]; subst.
    assert (Henc : encode (p :: ps) = encode_piece p ++ encode ps) by reflexivity.
    rewrite Henc in *. rewrite app_length in Hf.
    destruct p as [s | | wd v]; cbn [encode_piece piece_wf] in *.
    + (* literal text *)
      replace fuel with (length s + (fuel - length s))%nat by lia.
      rewrite scan_literal by exact Hp.
      specialize (IH Hps (pre ++ s) (fuel - length s)%nat bs ai buf Hl).
      rewrite app_length, <- app_assoc in IH.
      destruct IH as [r [Er [Hr Hc]]]; [lia | | lia |].
      { rewrite skipn_app. replace (bs - length pre)%nat with 0%nat by lia. cbn [skipn].
        intros Hin. apply in_app_or in Hin. destruct Hin as [Hin|Hin]; [exact (Hpend Hin)|exact (Hp Hin)]. }
      exists r. split; [exact Er|]. split; [exact Hr|]. rewrite Hc. cbn [render].
      rewrite skipn_app. replace (bs - length pre)%nat with 0%nat by lia. cbn [skipn]. rewrite <- app_assoc. reflexivity.
    + (* %% *)
      destruct fuel as [|[|fuel]]; try (cbn [length] in Hf; lia). cbn [app].
      rewrite scan_None_pct by apply nth_error_mid.
      rewrite (pending_block pre (37%N :: 37%N :: encode ps) bs Hbs). cbn [bind].
      rewrite scan_Some_pct.
      2:{ replace (pre ++ 37%N :: 37%N :: encode ps) with ((pre ++ [37%N]) ++ 37%N :: encode ps) by (rewrite <- app_assoc; reflexivity).
          replace (S (length pre)) with (length (pre ++ [37%N])) by (rewrite app_length; cbn [length]; lia).
          apply nth_error_mid. }
      specialize (IH Hps (pre ++ [37%N; 37%N]) fuel (length (pre ++ [37%N; 37%N])) ai buf Hl).
      rewrite <- app_assoc in IH. cbn [app] in IH.
      destruct IH as [r [Er [Hr Hc]]]; [lia | rewrite skipn_all; intros [] | cbn [length] in Hf; lia |].
      rewrite app_length in Er. cbn [length] in Er.
      replace (length pre + 2)%nat with (S (S (length pre))) in Er by lia.
      rewrite Er. cbn [bind]. eexists; split; [reflexivity|]. split; [exact Hr|].
      cbn [fst]. rewrite concat_app, concat_singles. cbn [concat render]. rewrite Hc.
      rewrite skipn_all. reflexivity.
    + (* %<width><verb> *)
      destruct Hp as [Hwd Hlim].
      cbn [length] in Hf. rewrite app_length, map_length in Hf. cbn [length] in Hf.
      destruct fuel as [|fuel]; [lia|]. cbn [app].
      rewrite scan_None_pct by apply nth_error_mid.
      rewrite <- app_assoc. cbn [app].
      rewrite (pending_block pre _ bs Hbs). cbn [bind].
      (* the digits *)
      assert (Hfmt : pre ++ 37%N :: map (fun d => (d + 48)%N) wd ++ verb_char v :: encode ps
                     = (pre ++ [37%N]) ++ map (fun d => (d + 48)%N) wd ++ verb_char v :: encode ps)
        by (rewrite <- app_assoc; reflexivity).
      rewrite Hfmt.
      replace (S (length pre)) with (length (pre ++ [37%N])) by (rewrite app_length; cbn [length]; lia).
      replace fuel with (length wd + (fuel - length wd))%nat by lia.
      change 0 with (Z.of_N 0).
      rewrite (scan_width args wd 0%N (pre ++ [37%N]) (verb_char v :: encode ps)) by assumption.
      fold (width_of wd). set (w := width_of wd) in *.
      (* the verb *)
      destruct (fuel - length wd)%nat as [|fuel'] eqn:Efuel; [lia|].
      assert (Hnth : nth_error ((pre ++ [37%N]) ++ map (fun d => (d + 48)%N) wd ++ verb_char v :: encode ps)
                               (length (pre ++ [37%N]) + length wd) = Some (verb_char v)).
      { rewrite app_assoc. rewrite <- (map_length (fun d => (d + 48)%N) wd), <- app_length. apply nth_error_mid. }
      rewrite (scan_Some_verb _ _ _ _ _ _ _ _ (verb_char v) Hnth) by (destruct v; reflexivity).
      set (pre' := (pre ++ [37%N]) ++ map (fun d => (d + 48)%N) wd ++ [verb_char v]).
      assert (Hpre' : (pre ++ [37%N]) ++ map (fun d => (d + 48)%N) wd ++ verb_char v :: encode ps = pre' ++ encode ps).
      { unfold pre'. rewrite <- !app_assoc. reflexivity. }
      assert (Hlen' : S (length (pre ++ [37%N]) + length wd) = length pre').
      { unfold pre'. rewrite !app_length, map_length. cbn [length]. lia. }
      rewrite Hpre', Hlen'.
      destruct (nth_error args ai) as [a|] eqn:Ea.
      * assert (Haok : arg_ok a) by (eapply Forall_forall; [exact Hargs | eapply nth_error_In; exact Ea]).
        destruct (do_verb_render v a w buf Hl Haok Hlim) as [o [Eo [Ho Hco]]].
        rewrite Eo. cbn [bind].
        destruct (IH Hps pre' fuel' (length pre') (S ai) (snd o) Ho) as [r [Er [Hr Hc]]];
          [lia | rewrite skipn_all; intros [] | lia |].
        rewrite Er. cbn [bind]. eexists; split; [reflexivity|]. split; [exact Hr|].
        cbn [fst]. rewrite !concat_app, concat_singles, Hco, Hc, skipn_all. cbn [app render].
        rewrite (skipn_nth_cons args ai a Ea). reflexivity.
      * destruct (IH Hps pre' fuel' (length pre') ai buf Hl) as [r [Er [Hr Hc]]];
          [lia | rewrite skipn_all; intros [] | lia |].
        rewrite Er. cbn [bind]. eexists; split; [reflexivity|]. split; [exact Hr|].
        cbn [fst]. rewrite concat_app, concat_singles. cbn [concat]. rewrite Hc, skipn_all. cbn [app render].
        destruct (skipn_nth_none args ai Ea) as [Es _]. rewrite Es. reflexivity.
Qed.

Lemma fprintf_render ps args buf :
  Forall piece_wf ps -> Forall arg_ok args -> length buf = buf_len ->
  exists r, fprintf (encode ps) args buf = Ok r /\ length (snd r) = buf_len /\
            concat (fst r) = render ps args.
Proof.
  intros Hps Hargs Hl. unfold fprintf.
  destruct (scan_render args Hargs ps Hps [] (S (S (length (encode ps)))) 0%nat 0%nat buf Hl)
    as [r [Er [Hr Hc]]]; [cbn [length]; lia | cbn [skipn]; intros [] | lia |].
  exists r. split; [exact Er|]. split; [exact Hr|]. exact Hc.
Qed.

(** ---- statements as Props/C15.v uses them ---- *)
Lemma fprintf_exact_written ps args buf :
  Forall piece_wf ps -> Forall arg_ok args -> length buf = N.to_nat kfmt_numFmtBufLen ->
  written (fprintf (encode ps) args buf) = Ok (render ps args).
Proof.
  intros Hps Hargs Hl. destruct (fprintf_render ps args buf Hps Hargs Hl) as [r [Er [_ Hc]]].
  unfold written. rewrite Er. cbn [bind]. rewrite Hc. reflexivity.
Qed.

Lemma fprintf_never_panics fmt args buf :
  length buf = N.to_nat kfmt_numFmtBufLen -> exists r, fprintf fmt args buf = Ok r.
Proof. intros Hl. destruct (fprintf_total fmt args buf Hl) as [r [Er _]]. exists r. exact Er. Qed.

Lemma fmtint_digits buf k x base :
  length buf = N.to_nat kfmt_numFmtBufLen -> in_range k x -> base = 8 \/ base = 10 \/ base = 16 ->
  exists s buf', fmt_int buf (AInt k x) base 0 = Ok ([s], buf') /\
    let ds := if x <? 0 then tl s else s in
    (x < 0 -> hd 0%N s = 45%N) /\ ds <> [] /\
    Forall (digit_ok (Z.to_N base)) ds /\ value (Z.to_N base) ds = Z.abs_N x.
Proof.
  intros Hl Hr Hb. destruct (fmt_int_exact buf k x base 0 Hl Hb) as [buf' [_ E]].
  destruct (model_in_range k x Hr) as [E1 E2]. rewrite E1, E2 in E.
  eexists. exists buf'. split; [exact E|].
  assert (HbN : (2 <= Z.to_N base)%N /\ (Z.to_N base <= 16)%N) by lia. destruct HbN as [Hb2 Hb16].
  destruct (digits_ok (Z.to_N base) (Z.abs_N x) Hb2 Hb16) as [Hok Hne].
  pose proof (value_digits (Z.to_N base) (Z.abs_N x) Hb2 Hb16) as Hv.
  assert (Hren : render_int (Z.to_N base) (Z.to_N 0) (x <? 0) (Z.abs_N x) =
                 (if x <? 0 then [45%N] else []) ++ digits (Z.to_N base) (Z.abs_N x)).
  { unfold render_int. change (N.min (Z.to_N 0) 31) with 0%N.
    destruct (N.of_nat (length (digits (Z.to_N base) (Z.abs_N x))) <? 0)%N eqn:E0; [lia|].
    cbn [N.sub]. unfold rep. cbn [N.to_nat repeat app].
    destruct (Z.to_N base =? 10)%N; destruct (x <? 0); reflexivity. }
  rewrite Hren. destruct (x <? 0) eqn:Ex; cbn [app tl hd]; (split; [intros; try reflexivity; lia|]); auto.
Qed.

Lemma fmtint_exact_inrange :
  forall (buf : list N) (k : ikind) (x : Z) (base pad : Z),
    length buf = N.to_nat kfmt_numFmtBufLen -> base = 8 \/ base = 10 \/ base = 16 -> in_range k x ->
    exists buf', length buf' = length buf /\
      fmt_int buf (AInt k x) base pad = Ok ([render_int (Z.to_N base) (Z.to_N pad) (x <? 0) (Z.abs_N x)], buf').
Proof.
  intros buf k x base pad Hl Hb Hr.
  destruct (fmt_int_exact buf k x base pad Hl Hb) as [buf' [Hl' E]].
  destruct (model_in_range k x Hr) as [E1 E2]. rewrite E1, E2 in E.
  exists buf'. split; [rewrite Hl', Hl; reflexivity | exact E].
Qed.
