(** kfmt.SetOutputSink / kfmt.GetOutputSink (kernel/kfmt/fmt.go) against the Gallina translation regenerated on every run
    (Gen/Trans_kfmt_sink.v; gen/gotrans/ext_hal.go), and against the sink switch of the bring-up model (Hal/Model.v).

    In the translation the package variable [outputSink] (an io.Writer) is a reference (0 = nil, the terminal [t] of
    the model is [t + 1]); [&earlyPrintBuffer] is the reference [a] (a parameter); [io.Copy(w, &earlyPrintBuffer)] is
    library code: it is the event [GCall "io.Copy" [GNum w; GNum a]], and its CONTRACT - read the ring until EOF and
    hand every chunk to w.Write - is what the model's [drain] + [deliver] say ([io_copy_contract]; ringBuffer.Read
    itself is tied by translation: C16_ring_read_is_translation). *)
From Coq Require Import NArith ZArith String List Bool Lia.
From FF Require Import Lib.Word Lib.GoOps Lib.GoOpsHal Gen.Trans_kfmt_sink.
From FF Require Import Kfmt.Fmt Kfmt.Ring Kfmt.Prefix Hal.Model.
Import ListNotations.
Local Open Scope N_scope.

(** the value of the variable outputSink / what GetOutputSink returns *)
Definition sink_var (s : sink) : N := match s with SRing => 0 | STTY t => t + 1 end.
Definition sink_ref (a : N) (s : sink) : N := match s with SRing => a | STTY t => t + 1 end.

Definition to_ws (tr : list gcall) (st : hal) : go_kfmt_world := mk_go_kfmt_world tr (sink_var (h_sink st)).

(** the contract of io.Copy(t, &earlyPrintBuffer) on the model state *)
Definition io_copy_contract (t : N) (st : hal) : outcome hal :=
  r <- drain drain_fuel (h_ring st) ;; deliver (STTY t) (fst r) (set_ring st (snd r)).

(** the model's SetOutputSink IS: switch the sink, then the contract of the one io.Copy call *)
Lemma set_output_sink_contract t st : set_output_sink t st = io_copy_contract t (set_sink st (STTY t)).
Proof. reflexivity. Qed.

Theorem setOutputSink_is_translation tr st t a :
  go_kfmt_SetOutputSink (to_ws tr st) (t + 1) a
    = GOk (to_ws (GCall "io.Copy" [GNum (t + 1); GNum a] :: tr) (set_sink st (STTY t)), tt) /\
  set_output_sink t st = io_copy_contract t (set_sink st (STTY t)).
Proof.
  split; [|reflexivity]. unfold go_kfmt_SetOutputSink, to_ws.
  cbn [set_f_world_outputSink f_world_trace f_world_outputSink set_f_world_trace h_sink set_sink sink_var].
  destruct (N.eqb_spec (t + 1) 0); [lia|]. reflexivity.
Qed.

(** SetOutputSink(nil): back to the early buffer, nothing is copied *)
Theorem setOutputSink_nil tr st a :
  go_kfmt_SetOutputSink (to_ws tr st) 0 a = GOk (to_ws tr (set_sink st SRing), tt).
Proof. reflexivity. Qed.

(** whatever SetOutputSink's io.Copy delivers: afterwards the sink is the terminal, the devices are untouched *)
Theorem setOutputSink_model t st st' :
  set_output_sink t st = Ok st' ->
  h_sink st' = STTY t /\ h_console st' = h_console st /\ h_tty st' = h_tty st /\ h_active st' = h_active st.
Proof.
  unfold set_output_sink. destruct (drain drain_fuel _) as [[cs rb]| |]; cbn [bind]; try discriminate.
  unfold deliver. cbn [fst snd]. intros E. injection E as <-. destruct (concat cs); repeat split; reflexivity.
Qed.

Theorem getOutputSink_is_translation tr st a :
  go_kfmt_GetOutputSink (to_ws tr st) a = GOk (to_ws tr st, sink_ref a (h_sink st)).
Proof.
  unfold go_kfmt_GetOutputSink, to_ws. cbn [f_world_outputSink]. destruct (h_sink st) as [|t]; cbn [sink_var sink_ref].
  - reflexivity.
  - destruct (N.eqb_spec (t + 1) 0); [lia|]. reflexivity.
Qed.
