(** Model of kernel/kfmt/fmt.go: Fprintf's scanner, fmtInt, fmtString, fmtBool, fmtRepeat.
    Definitions only (proofs: Kfmt/FmtProofs.v, statements: Props/C15.v).

    Conventions: bytes and uint64 values are [N]; Go [int] values (padLen, indices into
    numFmtBuf, which may become -1) are [Z], with explicit 64-bit wrap where the Go code
    computes on user-controlled values (padLen accumulation, padLen-len(s)); indices into the
    format string are [nat] (they are bounded by len(format)+1, so they never wrap).
    Every slice/array access of the Go code is bounds-checked here and yields [Panic OOB]
    when the Go access would panic; an integer division by zero yields [Panic DivZero].
    The io.Writer is modelled by the sequence of Write calls it receives ([list chunk]). *)
From Coq Require Import NArith ZArith List Bool.
From FF Require Import Lib.Word Gen.Consts_kfmt.
Import ListNotations.
Local Open Scope Z_scope.

Inductive panic := OOB | DivZero | NilDeref.
Inductive outcome (A : Type) : Type := Ok (a : A) | Panic (p : panic) | OutOfFuel.
Arguments Ok {A} a.
Arguments Panic {A} p.
Arguments OutOfFuel {A}.

Definition bind {A B} (o : outcome A) (f : A -> outcome B) : outcome B :=
  match o with Ok a => f a | Panic p => Panic p | OutOfFuel => OutOfFuel end.
Notation "x <- a ;; b" := (bind a (fun x => b)) (at level 61, a at next level, right associativity).

Definition chunk : Type := list N.     (* the argument of one Write call *)

(** Go [int] on amd64: 64-bit two's complement. *)
Definition two63z : Z := 9223372036854775808.
Definition two64z : Z := 18446744073709551616.
Definition wrap_int (z : Z) : Z := (z + two63z) mod two64z - two63z.

(** ---- arguments (the dynamic type of each interface{} value) ---- *)
Inductive ikind := U8 | U16 | U32 | U64 | Uptr | I8 | I16 | I32 | I64 | Int.
Inductive arg :=
| AInt (k : ikind) (v : Z)        (* a value of one of the ten built-in integer types *)
| AStr (s : list N)               (* string *)
| ABytes (s : list N)             (* []byte *)
| ABool (b : bool)
| AOther.                         (* any other dynamic type, including nil *)

Definition signed (k : ikind) : bool :=
  match k with I8 | I16 | I32 | I64 | Int => true | _ => false end.
Definition bits (k : ikind) : Z :=
  match k with U8 | I8 => 8 | U16 | I16 => 16 | U32 | I32 => 32 | _ => 64 end.
(** the values of the Go type *)
Definition in_range (k : ikind) (v : Z) : Prop :=
  if signed k then - 2 ^ (bits k - 1) <= v < 2 ^ (bits k - 1) else 0 <= v < 2 ^ bits k.
Definition arg_wf (a : arg) : Prop :=
  match a with
  | AInt k v => in_range k v
  | AStr s | ABytes s => Forall (fun c => (c < 256)%N) s
  | _ => True
  end.

(** ---- package-level buffers ---- *)
Definition maxBufSize : Z := Z.of_N kfmt_maxBufSize.

(** numFmtBuf[i] read / write with Go's bounds check *)
Definition bget (b : list N) (i : Z) : outcome N :=
  if i <? 0 then Panic OOB
  else match nth_error b (Z.to_nat i) with Some v => Ok v | None => Panic OOB end.
Definition bset (b : list N) (i : Z) (v : N) : outcome (list N) :=
  if i <? 0 then Panic OOB
  else if (Z.to_nat i <? length b)%nat
       then Ok (firstn (Z.to_nat i) b ++ v :: skipn (S (Z.to_nat i)) b)
       else Panic OOB.
(** numFmtBuf[0:e] (len = cap for this buffer, checked by the constants dump) *)
Definition bslice (b : list N) (e : Z) : outcome (list N) :=
  if e <? 0 then Panic OOB
  else if (Z.to_nat e <=? length b)%nat then Ok (firstn (Z.to_nat e) b) else Panic OOB.

(** [singleByte[0] = c; doWrite(w, singleByte)] *)
Definition single (c : N) : outcome chunk :=
  if (0 <? kfmt_singleByteLen)%N then Ok [c] else Panic OOB.

(** fmtRepeat: [count] one-byte writes (none when count <= 0) *)
Definition fmt_repeat (ch : N) (count : Z) : outcome (list chunk) :=
  c <- single ch ;; Ok (N.iter (Z.to_N count) (cons c) []).

(** ---- fmtInt ---- *)
Definition digit_char (rem : N) : N :=
  if (rem <? 10)%N then w8 (w8 rem + 48) else w8 (w8 (rem - 10) + 97).

(** [for right < maxBufSize { ... ; right++ ; uval /= divider ; if uval == 0 { break } }] *)
Fixpoint digit_loop (fuel : nat) (divider : N) (buf : list N) (right : Z) (uval : N)
  : outcome (list N * Z) :=
  match fuel with O => OutOfFuel | S f =>
    if right <? maxBufSize then
      if (divider =? 0)%N then Panic DivZero else
      buf' <- bset buf right (digit_char (uval mod divider)%N) ;;
      let uval' := (uval / divider)%N in
      if (uval' =? 0)%N then Ok (buf', right + 1) else digit_loop f divider buf' (right + 1) uval'
    else Ok (buf, right)
  end.

(** [for ; right-left < padLen; right++ { numFmtBuf[right] = padCh }]  (left = 0) *)
Fixpoint pad_loop (fuel : nat) (buf : list N) (right padLen : Z) (padCh : N) : outcome (list N * Z) :=
  match fuel with O => OutOfFuel | S f =>
    if right - 0 <? padLen then
      buf' <- bset buf right padCh ;; pad_loop f buf' (right + 1) padLen padCh
    else Ok (buf, right)
  end.

(** [for end = right - 1; numFmtBuf[end] == ' '; end-- {}] *)
Fixpoint sign_search (fuel : nat) (buf : list N) (e : Z) : outcome Z :=
  match fuel with O => OutOfFuel | S f =>
    c <- bget buf e ;;
    if (c =? 32)%N then sign_search f buf (e - 1) else Ok e
  end.

(** [for right = right - 1; left < right; left, right = left+1, right-1 { swap }] *)
Fixpoint reverse_loop (fuel : nat) (buf : list N) (left right : Z) : outcome (list N) :=
  match fuel with O => OutOfFuel | S f =>
    if left <? right then
      a <- bget buf left ;; b <- bget buf right ;;
      buf1 <- bset buf left b ;; buf2 <- bset buf1 right a ;;
      reverse_loop f buf2 (left + 1) (right - 1)
    else Ok buf
  end.

(** uint64(x) of an int64 / of a value converted from a narrower type *)
Definition to_u64 (z : Z) : N := Z.to_N (z mod two64z).

(** fmtInt(w, v, base, padLen) on buffer [buf]: the Write calls made and the buffer afterwards *)
Definition fmt_int (buf : list N) (v : arg) (base : Z) (padLen : Z) : outcome (list chunk * list N) :=
  let padLen := if padLen >=? maxBufSize then maxBufSize - 1 else padLen in
  let '(divider, padCh) :=
    if base =? 8 then (8%N, 48%N) else if base =? 10 then (10%N, 32%N)
    else if base =? 16 then (16%N, 48%N) else (0%N, 0%N) in
  match v with
  | AInt k x =>
      let sval := if signed k then x else 0 in
      let uval := if signed k then 0%N else to_u64 x in
      let uval := if sval <? 0 then to_u64 (wrap_int (- sval))
                  else if sval >? 0 then to_u64 sval else uval in
      let fuel := S (length buf) in
      r1 <- digit_loop (S (Z.to_nat maxBufSize)) divider buf 0 uval ;;
      r2 <- pad_loop fuel (fst r1) (snd r1) padLen padCh ;;
      r3 <- (if sval <? 0 then
               e <- sign_search fuel (fst r2) (snd r2 - 1) ;;
               let right := if e =? snd r2 - 1 then snd r2 + 1 else snd r2 in
               buf' <- bset (fst r2) (e + 1) 45 ;;
               Ok (buf', right)
             else Ok r2) ;;
      let e := snd r3 in
      buf4 <- reverse_loop fuel (fst r3) 0 (snd r3 - 1) ;;
      out <- bslice buf4 e ;;
      Ok ([out], buf4)
  | _ => Ok ([kfmt_errWrongArgType], buf)
  end.

(** ---- fmtString / fmtBool ---- *)
Fixpoint singles (s : list N) : outcome (list chunk) :=
  match s with
  | [] => Ok []
  | c :: r => x <- single c ;; y <- singles r ;; Ok (x :: y)
  end.

Definition fmt_string (v : arg) (padLen : Z) : outcome (list chunk) :=
  match v with
  | AStr s =>
      p <- fmt_repeat 32 (wrap_int (padLen - Z.of_nat (length s))) ;;
      b <- singles s ;; Ok (p ++ b)
  | ABytes s =>
      p <- fmt_repeat 32 (wrap_int (padLen - Z.of_nat (length s))) ;;
      Ok (p ++ [s])
  | _ => Ok [kfmt_errWrongArgType]
  end.

Definition fmt_bool (v : arg) : list chunk :=
  match v with
  | ABool true => [kfmt_trueValue]
  | ABool false => [kfmt_falseValue]
  | _ => [kfmt_errWrongArgType]
  end.

(** ---- Fprintf ---- *)
Definition is_digit (c : N) : bool := ((48 <=? c) && (c <=? 57))%N.
Definition is_verb (c : N) : bool :=
  ((c =? 100) || (c =? 120) || (c =? 111) || (c =? 115) || (c =? 116))%N.   (* d x o s t *)

Definition do_verb (ch : N) (a : arg) (pad : Z) (buf : list N) : outcome (list chunk * list N) :=
  if (ch =? 111)%N then fmt_int buf a 8 pad
  else if (ch =? 100)%N then fmt_int buf a 10 pad
  else if (ch =? 120)%N then fmt_int buf a 16 pad
  else if (ch =? 115)%N then c <- fmt_string a pad ;; Ok (c, buf)
  else if (ch =? 116)%N then Ok (fmt_bool a, buf)
  else Ok ([], buf).

Section Scan.
  Variable fmt : list N.
  Variable args : list arg.

  Definition fget (i : nat) : outcome N :=
    match nth_error fmt i with Some c => Ok c | None => Panic OOB end.

  (** [for i := bs; i < be; i++ { singleByte[0] = format[i]; doWrite(w, singleByte) }], n = be - bs *)
  Fixpoint write_block (n : nat) (i : nat) : outcome (list chunk) :=
    match n with
    | O => Ok []
    | S n' => c <- fget i ;; x <- single c ;; r <- write_block n' (S i) ;; Ok (x :: r)
    end.

  (** after the outer loop: trailing literal block, then one marker per unused argument *)
  Definition finish (bs be ai : nat) (buf : list N) : outcome (list chunk * list N) :=
    blk <- (if negb (bs =? be)%nat then write_block (be - bs) bs else Ok []) ;;
    Ok (blk ++ repeat kfmt_errExtraArg (length args - ai), buf).

  (** One fixpoint for the two nested loops: [mode = None] is the head of the outer loop
      [for blockEnd < fmtLen], [mode = Some padLen] is the head of the labelled inner loop
      [parseFmt: for ; blockEnd < fmtLen; blockEnd++].  [bs]/[be]/[ai] are
      blockStart/blockEnd/nextArgIndex.  Leaving the inner loop (by [break parseFmt] or by its
      condition) executes [blockStart, blockEnd = blockEnd+1, blockEnd+1]. *)
  Fixpoint scan (fuel : nat) (mode : option Z) (bs be ai : nat) (buf : list N)
    : outcome (list chunk * list N) :=
    match fuel with O => OutOfFuel | S f =>
    match mode with
    | None =>
        if (be <? length fmt)%nat then
          ch <- fget be ;;
          if negb (ch =? 37)%N then scan f None bs (S be) ai buf
          else
            blk <- (if (bs <? be)%nat then write_block (be - bs) bs else Ok []) ;;
            r <- scan f (Some 0) bs (S be) ai buf ;;
            Ok (blk ++ fst r, snd r)
        else finish bs be ai buf
    | Some pad =>
        if (be <? length fmt)%nat then
          ch <- fget be ;;
          if (ch =? 37)%N then
            pc <- single 37 ;;
            r <- scan f None (S be) (S be) ai buf ;;
            Ok (pc :: fst r, snd r)
          else if is_digit ch then
            scan f (Some (wrap_int (pad * 10 + Z.of_N (w8 (ch + 256 - 48))))) bs (S be) ai buf
          else if is_verb ch then
            match nth_error args ai with
            | None =>
                r <- scan f None (S be) (S be) ai buf ;;
                Ok (kfmt_errMissingArg :: fst r, snd r)
            | Some a =>
                o <- do_verb ch a pad buf ;;
                r <- scan f None (S be) (S be) (S ai) (snd o) ;;
                Ok (fst o ++ fst r, snd r)
            end
          else
            r <- scan f (Some pad) bs (S be) ai buf ;;
            Ok (kfmt_errNoVerb :: fst r, snd r)
        else scan f None (S be) (S be) ai buf
    end end.

  Definition fprintf (buf : list N) : outcome (list chunk * list N) :=
    scan (S (S (length fmt))) None 0 0 0 buf.
End Scan.

(** bytes received by the writer *)
Definition written (o : outcome (list chunk * list N)) : outcome (list N) :=
  r <- o ;; Ok (concat (fst r)).

(** ---- flat encoding for the correspondence driver ----
    case = len(format) :: format bytes ++ nargs :: args ;
    arg  = kind(0..9 = U8 U16 U32 U64 Uptr I8 I16 I32 I64 Int) value(64-bit pattern, truncated to
           the type as the Go conversion does) | 10 len bytes (string) | 11 len bytes ([]byte)
           | 12 b (bool) | 13 (other)
    obs  = 0 :: run-length encoding (byte, count)* of the bytes written | 1 (panic) | 2 (out of fuel) *)
Definition kind_of (t : N) : ikind :=
  match t with
  | 0 => U8 | 1 => U16 | 2 => U32 | 3 => U64 | 4 => Uptr
  | 5 => I8 | 6 => I16 | 7 => I32 | 8 => I64 | _ => Int
  end%N.

Definition norm (k : ikind) (v : N) : Z :=
  let m := 2 ^ bits k in
  let u := Z.of_N v mod m in
  if signed k then (if u <? m / 2 then u else u - m) else u.

Fixpoint take (n : nat) (l : list N) : list N * list N :=
  match n, l with
  | O, _ => ([], l)
  | S n', x :: r => let '(a, b) := take n' r in (x :: a, b)
  | S _, [] => ([], [])
  end.

Definition take_list (l : list N) : list N * list N :=
  match l with
  | [] => ([], [])
  | n :: r => take (N.to_nat n) r
  end.

Fixpoint dec_args (fuel : nat) (l : list N) : list arg :=
  match fuel with O => [] | S f =>
  match l with
  | [] => []
  | 10%N :: r => let '(s, r') := take_list r in AStr s :: dec_args f r'
  | 11%N :: r => let '(s, r') := take_list r in ABytes s :: dec_args f r'
  | 12%N :: b :: r => ABool (negb (b =? 0)%N) :: dec_args f r
  | 13%N :: r => AOther :: dec_args f r
  | t :: v :: r => AInt (kind_of t) (norm (kind_of t) v) :: dec_args f r
  | _ => []
  end end.

Fixpoint rle_aux (cur cnt : N) (l : list N) : list N :=
  match l with
  | [] => [cur; cnt]
  | x :: r => if (x =? cur)%N then rle_aux cur (cnt + 1)%N r else cur :: cnt :: rle_aux x 1%N r
  end.
Definition rle (l : list N) : list N :=
  match l with [] => [] | x :: r => rle_aux x 1%N r end.

Definition init_buf : list N := repeat 0%N (N.to_nat kfmt_numFmtBufLen).

Definition run_case (l : list N) : list N :=
  let '(fmt, r) := take_list l in
  let args := match r with [] => [] | _ :: r' => dec_args (length r') r' end in
  match written (fprintf fmt args init_buf) with
  | Ok bytes => 0%N :: rle bytes
  | Panic _ => [1%N]
  | OutOfFuel => [2%N]
  end.
