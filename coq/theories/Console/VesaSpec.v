(** The pixel-level reading of property C19 for the framebuffer console: a reference painter.
    For every byte of the framebuffer it says where the byte lies (padding between rows, or byte
    [k] of the pixel in column [X], row [Y]), to which cell of the text grid that pixel belongs,
    and what Write / Fill / Scroll must leave in it.  Definitions only. *)
From Coq Require Import NArith List Bool.
From FF Require Import Lib.Word Console.Mem Console.Ops Console.Grid Console.Vesa.
Import ListNotations.
Local Open Scope N_scope.

(** where byte [i] of the framebuffer lies *)
Inductive place := Padding | PixelByte (X Y k : N).

Definition place_of (c : vesa) (i : N) : place :=
  let Y := i / pitch c in
  let b := i mod pitch c in
  if b <? pw c * bytespp c then PixelByte (b / bytespp c) Y (b mod bytespp c) else Padding.

(** the cell (cx, cy) (1-based) of the text grid that pixel (X, Y) belongs to, and the pixel's
    position (q, r) inside the cell; [None]: logo rows, or the margin right of / below the grid *)
Definition cell_of (c : vesa) (f : font) (X Y : N) : option (N * N * N * N) :=
  if (X <? wchars c * f_gw f) && (offsetY c <=? Y) && (Y <? offsetY c + hchars c * f_gh f)
  then Some (X / f_gw f + 1, (Y - offsetY c) / f_gh f + 1, X mod f_gw f, (Y - offsetY c) mod f_gh f)
  else None.

(** the text grid of the console (content irrelevant here: used for [in_grid] / [in_fill]) *)
Definition vesa_dims (c : vesa) : grid unit := mkGrid (wchars c) (hchars c) (fun _ _ => tt).

(** pixel (q, r) of glyph [ch]: bit 7 - q mod 8 of byte q/8 of row r *)
Definition glyph_bit (f : font) (ch r q : N) : bool :=
  negb (N.land (f_dat f (ch * f_bpr f * f_gh f + r * f_bpr f + q / 8)) (N.shiftr 128 (q mod 8)) =? 0).

(** number of bytes of a pixel that carry the colour (the 4th byte of a 32-bit pixel does not) *)
Definition ncomp (d : depth) : N := match d with D8 => 1 | D16 => 2 | D24 => 3 end.

(** Write(ch, fg, bg, x, y): the pixels of cell (x, y) show the glyph, fg where its bit is set, bg
    elsewhere, packed for the pixel format; every other byte is unchanged *)
Definition write_ref (c : vesa) (f : font) (d : depth) (m : fbuf) (ch x y : N) (fgb bgb : list N) (i : N) : N :=
  match place_of c i with
  | Padding => load m i
  | PixelByte X Y k =>
      match cell_of c f X Y with
      | Some (cx, cy, q, r) =>
          if (cx =? x) && (cy =? y) && (k <? ncomp d)
          then byte_at (if glyph_bit f ch r q then fgb else bgb) k
          else load m i
      | None => load m i
      end
  end.

(** Fill(x, y, width, height, _, bg): the pixels of the cells of the clamped and clipped rectangle
    become bg; every other byte is unchanged *)
Definition fill_ref (c : vesa) (f : font) (d : depth) (m : fbuf) (x y width height : N) (bgb : list N) (i : N) : N :=
  match place_of c i with
  | Padding => load m i
  | PixelByte X Y k =>
      match cell_of c f X Y with
      | Some (cx, cy, _, _) =>
          if in_fill (vesa_dims c) x y width height cx cy && (k <? ncomp d) then byte_at bgb k else load m i
      | None => load m i
      end
  end.

(** Scroll by [n] lines (1 <= n <= grid height): every pixel row below the logo receives the row
    [n] text lines further down (up) / up (down), as far as such a row exists in the framebuffer;
    logo rows and padding are unchanged *)
Definition scroll_ref (c : vesa) (f : font) (m : fbuf) (dir : scroll_dir) (n : N) (i : N) : N :=
  let Y := i / pitch c in
  let b := i mod pitch c in
  if b <? pw c * bytespp c then
    match dir with
    | ScrollUp =>
        if (offsetY c <=? Y) && (Y + n * f_gh f <? ph c) then load m ((Y + n * f_gh f) * pitch c + b) else load m i
    | ScrollDown =>
        if (offsetY c + n * f_gh f <=? Y) && (Y <? ph c) then load m ((Y - n * f_gh f) * pitch c + b) else load m i
    end
  else load m i.
