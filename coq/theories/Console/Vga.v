(** Model of kernel/device/video/console/vga_text.go: VgaTextConsole.{Write,Fill,Scroll} over a
    framebuffer of 16-bit cells.  All arithmetic is uint32 (uint16 for the cell value, uint8 for
    the colour bound) with explicit wrap-around; every slice access is bounds-checked
    ([Panic] = Go's "index out of range").  Definitions only. *)
From Coq Require Import NArith List Bool.
From FF Require Import Lib.Word Gen.Consts_device_video_console Console.Mem Console.Loop Console.Ops.
Import ListNotations.
Local Open Scope N_scope.

(** the console as NewVgaTextConsole(columns, rows, _) builds it: the palette (16 entries), the
    default colours and the clear character are the generated constants *)
Record vga := mkVga { vw : N; vh : N }.

(** [(((uint16(bg) << 4) | uint16(fg)) << 8) | uint16(ch)] *)
Definition attr16 (bg fg : N) : N := w16 (N.shiftl (N.lor (w16 (N.shiftl bg 4)) fg) 8).
Definition cell16 (bg fg ch : N) : N := N.lor (attr16 bg fg) ch.

(** ---- Write ---- *)
Definition vga_maxColorIndex : N := w8 (vga_paletteLen + two8 - 1).   (* uint8(len(palette) - 1) *)

Definition vga_write (c : vga) (m : fbuf) (ch fg bg x y : N) : res :=
  if (x <? 1) || (vw c <? x) || (y <? 1) || (vh c <? y) then Ok m else
  let fg := if vga_maxColorIndex <? fg then vga_defaultFg else fg in
  let bg := if vga_maxColorIndex <? bg then vga_defaultBg else bg in
  of_opt m (store_chk m (add32 (mul32 (sub32 y 1) (vw c)) (sub32 x 1)) (cell16 bg fg ch)).

(** ---- Fill ---- *)
(** [if x == 0 { x = 1 } else if x >= cons.width { x = cons.width }] *)
Definition clamp_org (v m : N) : N := if v =? 0 then 1 else if m <=? v then m else v.

(** [if width > cons.width-x+1 { width = cons.width - x + 1 }] *)
Definition clip_ext (ext org m : N) : N :=
  let room := add32 (sub32 m org) 1 in
  if room <? ext then room else ext.

(** the loops are [Ops.fill_row_step] / [Ops.fill_px_step] with pitch = cons.width, one cell per step:
    [for ; height > 0; height, rowOffset = height-1, rowOffset+cons.width {
       for colOffset = rowOffset; colOffset < rowOffset+width; colOffset++ { fb[colOffset] = clr } }] *)
Definition vga_fill (c : vga) (m : fbuf) (x y width height fg bg : N) : res :=
  let clr := N.lor (attr16 bg fg) vga_clearChar in
  let x := clamp_org x (vw c) in
  let y := clamp_org y (vh c) in
  let width := clip_ext width x (vw c) in
  let height := clip_ext height y (vh c) in
  let row := add32 (mul32 (sub32 y 1) (vw c)) (sub32 x 1) in
  res_of_loop (fun s => fst (fst s)) (whileP (fill_row_step (vw c) width 1 [clr]) fuel32 (m, height, row)).

(** ---- Scroll ---- *)
(** [for ; i < (cons.height-lines)*cons.width; i++ { fb[i] = fb[i+offset] }] *)
Definition vga_scroll_up_step (bound offset : N) : fbuf * N -> sres (fbuf * N) :=
  copy_fwd_step bound (fun i => add32 i offset).

(** [for i = cons.height*cons.width - 1; i >= lines*cons.width; i-- { fb[i] = fb[i-offset] }] *)
Definition vga_scroll_down_step (low offset : N) (s : fbuf * N) : sres (fbuf * N) :=
  let '(m, i) := s in
  if low <=? i then
    match copy_chk m i (sub32 i offset) with
    | Some m' => Next (m', sub32 i 1)
    | None => Fail s
    end
  else Done s.

Definition vga_scroll (c : vga) (m : fbuf) (dir lines : N) : res :=
  if (lines =? 0) || (vh c <? lines) then Ok m else
  let offset := mul32 lines (vw c) in
  if dir =? console_ScrollDirUp then
    res_of_loop fst (whileP (vga_scroll_up_step (mul32 (sub32 (vh c) lines) (vw c)) offset) fuel32 (m, 0))
  else if dir =? console_ScrollDirDown then
    res_of_loop fst (whileP (vga_scroll_down_step (mul32 lines (vw c)) offset) fuel32
                            (m, sub32 (mul32 (vh c) (vw c)) 1))
  else Ok m.

(** ---- flat interface for the correspondence driver ----
    ops:  0 ch fg bg x y  = Write | 1 x y width height fg bg = Fill | 2 dir lines = Scroll
    observation per op: status (0 ok, 1 panic, 2 out of fuel) followed by the whole buffer *)
Definition mix (seed i : N) : N := ((i + 1) * (seed * 2 + 1) * 40503) / 64.

Definition status_of (r : res) : N := match r with Ok _ => 0 | Panic _ => 1 | OutOfFuel _ => 2 end.

Fixpoint vga_run (fuel : nat) (c : vga) (m : fbuf) (l : list N) : list N :=
  match fuel with O => [] | S fuel =>
  match l with
  | 0 :: ch :: fg :: bg :: x :: y :: rest =>
      let r := vga_write c m ch fg bg x y in
      status_of r :: dump (res_mem r) ++ vga_run fuel c (res_mem r) rest
  | 1 :: x :: y :: w :: h :: fg :: bg :: rest =>
      let r := vga_fill c m x y w h fg bg in
      status_of r :: dump (res_mem r) ++ vga_run fuel c (res_mem r) rest
  | 2 :: dir :: lines :: rest =>
      let r := vga_scroll c m dir lines in
      status_of r :: dump (res_mem r) ++ vga_run fuel c (res_mem r) rest
  | _ => []
  end end.

(** case = W :: H :: seed :: ops ; the buffer has W*H cells, cell i initially [mix seed i mod 2^16] *)
Definition vga_run_case (l : list N) : list N :=
  match l with
  | w :: h :: seed :: ops =>
      vga_run (length ops) (mkVga w h) (fresh (w * h) (fun i => w16 (mix seed i))) ops
  | _ => []
  end.
