(** The parts of the two console drivers that build the geometry the C19 theorems quantify over - the constructors
    NewVesaFbConsole / NewVgaTextConsole, SetFont (the character grid, by uint32 division) and the size of the
    framebuffer mapping in DriverInit - against the Gallina translation regenerated from vesa_fb.go / vga_text.go on
    every run (Gen/Trans_console_vesa.v, Gen/Trans_console_vga.v; gen/gotrans/ext_ctor.go).

    [to_gs] / [to_gv] (Console/VesaTrans.v, Console/VgaTrans.v) map the model's console and framebuffer memory to the
    translation's record.  DriverInit as a whole is not translated (unsafe slice header, a call through a function
    variable): the translator emits the three integer expressions that matter - the size handed to mapRegionFn and
    the Len / Cap of the slice header - as functions of the record ("probes"), in the scope of [fbSize := ..]. *)
From Coq Require Import NArith ZArith PArith String List Bool Lia.
From Coq Require Import ZifyBool ZifyN ZifyNat.
From FF Require Import Lib.Word Lib.GoOps Lib.GoOpsExt Lib.GoOpsFmt Gen.Consts_device_tty Gen.Consts_device_video_console.
From FF Require Import Gen.Trans_console_vesa Gen.Trans_console_vga.
From FF Require Import Console.Mem Console.MemProofs Console.Loop Console.Ops Console.Vga Console.VgaProofs Console.Vesa Console.VesaProofs.
From FF Require Console.VgaTrans Console.VesaTrans.
Import ListNotations.
Local Open Scope N_scope.
Ltac Zify.zify_post_hook ::= Z.div_mod_to_equations.

Notation to_gs := VesaTrans.to_gs.
Notation to_gv := VgaTrans.to_gv.
Notation fb_list := VgaTrans.fb_list.

(** before DriverInit: no framebuffer *)
Definition no_fb : fbuf := fresh 0 (fun _ => 0).

Lemma gw32_gw8 x : gw 32 (gw 8 x) = gw 8 x.
Proof.
  unfold gw at 1. apply N.mod_small. unfold gw. change (2 ^ 8) with 256. change (2 ^ 32) with 4294967296.
  pose proof (N.mod_lt x 256 ltac:(discriminate)). lia.
Qed.

(** ---- NewVesaFbConsole ---- *)
(** the record the translated constructor returns is the model's [new_vesa] (no palette, no font, no framebuffer
    yet), for every argument; [ci] = whether colorInfo is non-nil, [bpp] a uint8 *)
Theorem vesa_constructor_is_translation w h bpp0 pitch0 (ci : bool) phys cinf p :
  bpp0 < 256 ->
  go_console_NewVesaFbConsole w h bpp0 pitch0 ci phys =
  set_f_VesaFbConsole_colorInfo (to_gs (new_vesa w h bpp0 pitch0 cinf 0 p) phys no_fb) ci.
Proof.
  intros Hb. unfold go_console_NewVesaFbConsole, new_vesa, VesaTrans.to_gs, set_f_VesaFbConsole_colorInfo.
  cbn [bpp bytespp pw ph offsetY pitch wchars hchars f_VesaFbConsole_bpp f_VesaFbConsole_bytesPerPixel
       f_VesaFbConsole_fbPhysAddr f_VesaFbConsole_fb f_VesaFbConsole_width f_VesaFbConsole_height f_VesaFbConsole_offsetY
       f_VesaFbConsole_pitch f_VesaFbConsole_font f_VesaFbConsole_widthInChars f_VesaFbConsole_heightInChars
       f_VesaFbConsole_palette f_VesaFbConsole_defaultFg f_VesaFbConsole_defaultBg f_VesaFbConsole_clearChar].
  rewrite gw32_gw8. rewrite (gw64_small' bpp0) || idtac.
  replace (gw 32 bpp0) with bpp0 by (unfold gw; symmetry; apply N.mod_small; change (2 ^ 32) with 4294967296; lia).
  reflexivity.
Qed.

(** ---- SetFont ---- *)
(** [font_GlyphHeight] / [font_GlyphWidth]: what the code reads through f.  Equal to the model's [set_font] for EVERY
    console and font, including the division-by-zero panics of a font with a zero dimension *)
Theorem vesa_setFont_is_translation c phys m f :
  go_console_VesaFbConsole_SetFont (to_gs c phys m) true (f_gh f) (f_gw f) =
  match set_font c f with Some c' => GOk (to_gs c' phys m, tt) | None => GPanic end.
Proof.
  unfold go_console_VesaFbConsole_SetFont, set_font, gdiv. cbn [negb]. VesaTrans.ssimp.
  cbn [set_f_VesaFbConsole_font set_f_VesaFbConsole_widthInChars set_f_VesaFbConsole_heightInChars
       f_VesaFbConsole_width f_VesaFbConsole_height f_VesaFbConsole_offsetY].
  destruct (f_gw f =? 0); [reflexivity|]. cbn [orb]. destruct (f_gh f =? 0); reflexivity.
Qed.

Theorem vesa_setFont_nil c phys m gh gw0 :
  go_console_VesaFbConsole_SetFont (to_gs c phys m) false gh gw0 = GOk (to_gs c phys m, tt).
Proof. reflexivity. Qed.

(** constructor, then SetFont (no logo): the translation's record is the model's console of C19_vesa_constructed *)
Theorem vesa_construct_setFont w h bpp0 pitch0 phys cinf p f :
  bpp0 < 256 ->
  go_console_VesaFbConsole_SetFont (go_console_NewVesaFbConsole w h bpp0 pitch0 true phys) true (f_gh f) (f_gw f) =
  match set_font (new_vesa w h bpp0 pitch0 cinf 0 p) f with
  | Some c' => GOk (to_gs c' phys no_fb, tt) | None => GPanic end.
Proof.
  intros Hb. rewrite (vesa_constructor_is_translation w h bpp0 pitch0 true phys cinf p Hb).
  change (set_f_VesaFbConsole_colorInfo (to_gs (new_vesa w h bpp0 pitch0 cinf 0 p) phys no_fb) true)
    with (to_gs (new_vesa w h bpp0 pitch0 cinf 0 p) phys no_fb).
  apply vesa_setFont_is_translation.
Qed.

(** ---- DriverInit: the size of the mapping and of the slice over it ---- *)
(** [fbSize := uintptr(cons.height * cons.pitch)]: a uint32 product, widened *)
Definition vesa_map_size (c : vesa) : N := mul32 (ph c) (pitch c).

Lemma gw64_gw32 x : gw 64 (gw 32 x) = gw 32 x.
Proof.
  unfold gw at 1. apply N.mod_small. unfold gw. change (2 ^ 32) with 4294967296. change (2 ^ 64) with 18446744073709551616.
  pose proof (N.mod_lt x 4294967296 ltac:(discriminate)). lia.
Qed.

Theorem vesa_driverInit_sizes c phys m :
  go_console_VesaFbConsole_DriverInit_mapSize (to_gs c phys m) = vesa_map_size c /\
  go_console_VesaFbConsole_DriverInit_fbLen (to_gs c phys m) = vesa_map_size c /\
  go_console_VesaFbConsole_DriverInit_fbCap (to_gs c phys m) = vesa_map_size c.
Proof.
  unfold go_console_VesaFbConsole_DriverInit_mapSize, go_console_VesaFbConsole_DriverInit_fbLen,
    go_console_VesaFbConsole_DriverInit_fbCap, vesa_map_size, mul32. VesaTrans.ssimp. cbv zeta.
  rewrite !gw64_gw32. repeat split; reflexivity.
Qed.

(** the framebuffer DriverInit maps has exactly the length [vesa_wf] demands ([wf_flen]) when height * pitch fits 32
    bits ([wf_size]); beyond that the uint32 product wraps and the mapping is SHORTER than height * pitch *)
Theorem vesa_map_size_wf c : ph c * pitch c < two32 -> vesa_map_size c = ph c * pitch c.
Proof. intros H. unfold vesa_map_size, mul32, w32. apply N.mod_small. exact H. Qed.

Theorem vesa_map_size_wraps c : two32 <= ph c * pitch c -> vesa_map_size c < ph c * pitch c.
Proof.
  intros H. unfold vesa_map_size, mul32, w32, two32 in *.
  pose proof (N.mod_lt (ph c * pitch c) 4294967296 ltac:(discriminate)). lia.
Qed.

(** a console whose other [vesa_wf] requirements hold gets [wf_flen] from DriverInit *)
Theorem vesa_driverInit_establishes_flen c phys m m' :
  ph c * pitch c < two32 ->
  flen m' = go_console_VesaFbConsole_DriverInit_fbLen (to_gs c phys m) -> flen m' = ph c * pitch c.
Proof.
  intros Hs E. rewrite E. destruct (vesa_driverInit_sizes c phys m) as [_ [L _]]. rewrite L. apply vesa_map_size_wf. exact Hs.
Qed.

(** ---- the text console ---- *)
Theorem vga_constructor_is_translation cols rows phys :
  go_console_NewVgaTextConsole cols rows phys = to_gv (mkVga cols rows) phys no_fb.
Proof. reflexivity. Qed.

(** [fbSize := uintptr(cons.width * cons.height * 2)], Len = Cap = [int(fbSize >> 1)] 16-bit cells *)
Definition vga_map_size (c : vga) : N := mul32 (mul32 (vw c) (vh c)) 2.
Definition vga_fb_cells (c : vga) : N := N.shiftr (vga_map_size c) 1.

Theorem vga_driverInit_sizes c phys m :
  go_console_VgaTextConsole_DriverInit_mapSize (to_gv c phys m) = vga_map_size c /\
  go_console_VgaTextConsole_DriverInit_fbLen (to_gv c phys m) = vga_fb_cells c /\
  go_console_VgaTextConsole_DriverInit_fbCap (to_gv c phys m) = vga_fb_cells c.
Proof.
  unfold go_console_VgaTextConsole_DriverInit_mapSize, go_console_VgaTextConsole_DriverInit_fbLen,
    go_console_VgaTextConsole_DriverInit_fbCap, vga_fb_cells, vga_map_size, mul32, VgaTrans.to_gv.
  cbn [f_VgaTextConsole_width f_VgaTextConsole_height]. cbv zeta. rewrite !gw64_gw32.
  assert (H : forall x, gw 64 (N.shiftr (gw 32 x) 1) = N.shiftr (gw 32 x) 1).
  { intros x. apply gw64_small'. rewrite N.shiftr_div_pow2. unfold gw. change (2 ^ 32) with 4294967296.
    change (2 ^ 64) with 18446744073709551616. change (2 ^ 1) with 2.
    pose proof (N.mod_lt x 4294967296 ltac:(discriminate)). lia. }
  rewrite H. repeat split; reflexivity.
Qed.

(** the slice DriverInit lays over the mapping has the [width * height] cells [vga_wf] demands when the BYTE size
    width * height * 2 fits 32 bits *)
Theorem vga_fb_cells_wf c : vw c * vh c * 2 < two32 -> vga_fb_cells c = vw c * vh c.
Proof.
  intros H. unfold vga_fb_cells, vga_map_size, mul32, w32, two32 in *.
  rewrite (N.mod_small (vw c * vh c)) by lia. rewrite N.mod_small by lia.
  rewrite N.shiftr_div_pow2. change (2 ^ 1) with 2. lia.
Qed.

Theorem vga_driverInit_establishes_wf c phys m m' :
  1 <= vw c -> 1 <= vh c -> vw c * vh c * 2 < two32 ->
  flen m' = go_console_VgaTextConsole_DriverInit_fbLen (to_gv c phys m) -> vga_wf c m'.
Proof.
  intros H1 H2 H3 E. destruct (vga_driverInit_sizes c phys m) as [_ [L _]]. rewrite L, vga_fb_cells_wf in E by exact H3.
  unfold vga_wf, two32 in *. repeat split; try assumption; lia.
Qed.

(** [vga_wf] asks only for width * height < 2^32: between 2^31 and 2^32 cells the byte size wraps and the slice
    DriverInit builds is shorter than [vga_wf] assumes (no such text mode exists; recorded as an observation) *)
Theorem vga_fb_cells_short : exists c, vw c * vh c < two32 /\ 1 <= vw c /\ 1 <= vh c /\ vga_fb_cells c < vw c * vh c.
Proof. exists (mkVga 65536 32768). vm_compute. repeat split; discriminate || reflexivity. Qed.
