(** The fuelled while-combinator: binary fuel = unary fuel, more fuel does not change a finished
    loop, and the invariant rule used for every Go loop of the console models. *)
From Coq Require Import NArith PArith Arith Lia.
From FF Require Import Lib.Word Console.Loop.

Section WhileFacts.
  Context {S : Type}.
  Variable step : S -> sres S.

  Lemma while_nat_add a b s :
    while_nat step (a + b) s = match while_nat step a s with Next s' => while_nat step b s' | r => r end.
  Proof.
    revert s. induction a as [|a IH]; intros s; cbn; [reflexivity|].
    destruct (step s); auto.
  Qed.

  Lemma whileP_nat p s : whileP step p s = while_nat step (Pos.to_nat p) s.
  Proof.
    revert s. induction p as [p IH|p IH|]; intros s.
    - rewrite Pos2Nat.inj_xI. cbn [whileP while_nat].
      destruct (step s) as [s'| | |]; auto.
      replace (2 * Pos.to_nat p)%nat with (Pos.to_nat p + Pos.to_nat p)%nat by lia.
      rewrite while_nat_add, <- IH. destruct (whileP step p s'); auto.
    - rewrite Pos2Nat.inj_xO. cbn [whileP].
      replace (2 * Pos.to_nat p)%nat with (Pos.to_nat p + Pos.to_nat p)%nat by lia.
      rewrite while_nat_add, <- IH. destruct (whileP step p s); auto.
    - change (Pos.to_nat 1) with 1%nat. cbn. destruct (step s); auto.
  Qed.

  (** the invariant rule: [n] iterations keep [Inv], then the loop exits *)
  Lemma while_nat_inv (Inv : nat -> S -> Prop) (n fuel : nat) (s0 : S) :
    Inv O s0 ->
    (forall k s, (k < n)%nat -> Inv k s -> exists s', step s = Next s' /\ Inv (Datatypes.S k) s') ->
    (forall s, Inv n s -> step s = Done s) ->
    (n < fuel)%nat ->
    exists s', while_nat step fuel s0 = Done s' /\ Inv n s'.
  Proof.
    intros H0 Hstep Hexit Hfuel.
    assert (G: forall j k s, (k + j = n)%nat -> Inv k s -> forall fuel, (j < fuel)%nat ->
                exists s', while_nat step fuel s = Done s' /\ Inv n s').
    { induction j as [|j IH]; intros k s Hk Hi fl Hfl.
      - replace k with n in Hi by lia. destruct fl as [|fl]; [lia|]. cbn.
        rewrite (Hexit s Hi). eauto.
      - destruct fl as [|fl]; [lia|]. cbn.
        destruct (Hstep k s) as [s' [E Hi']]; [lia|assumption|]. rewrite E.
        apply (IH (Datatypes.S k) s'); [lia|assumption|lia]. }
    apply (G n O s0); auto.
  Qed.

  (** the same when the body panics in iteration [n] *)
  Lemma while_nat_inv_fail (Inv : nat -> S -> Prop) (n fuel : nat) (s0 : S) (Q : S -> Prop) :
    Inv O s0 ->
    (forall k s, (k < n)%nat -> Inv k s -> exists s', step s = Next s' /\ Inv (Datatypes.S k) s') ->
    (forall s, Inv n s -> exists s', step s = Fail s' /\ Q s') ->
    (n < fuel)%nat ->
    exists s', while_nat step fuel s0 = Fail s' /\ Q s'.
  Proof.
    intros H0 Hstep Hexit Hfuel.
    assert (G: forall j k s, (k + j = n)%nat -> Inv k s -> forall fuel, (j < fuel)%nat ->
                exists s', while_nat step fuel s = Fail s' /\ Q s').
    { induction j as [|j IH]; intros k s Hk Hi fl Hfl.
      - replace k with n in Hi by lia. destruct fl as [|fl]; [lia|]. cbn.
        destruct (Hexit s Hi) as [s' [E HQ]]. rewrite E. eauto.
      - destruct fl as [|fl]; [lia|]. cbn.
        destruct (Hstep k s) as [s' [E Hi']]; [lia|assumption|]. rewrite E.
        apply (IH (Datatypes.S k) s'); [lia|assumption|lia]. }
    apply (G n O s0); auto.
  Qed.
End WhileFacts.

(** a loop over a 32-bit counter has enough fuel *)
Lemma fuel32_enough (n : N) : (n <= two32)%N -> (N.to_nat n < Pos.to_nat fuel32)%nat.
Proof.
  intros H. unfold two32 in H. unfold fuel32. lia.
Qed.

(** the form used in the models: [whileP step fuel32] *)
Lemma whileP_inv {S} (step : S -> sres S) (Inv : nat -> S -> Prop) (n : N) (s0 : S) :
  (n <= two32)%N ->
  Inv O s0 ->
  (forall k s, (k < N.to_nat n)%nat -> Inv k s -> exists s', step s = Next s' /\ Inv (Datatypes.S k) s') ->
  (forall s, Inv (N.to_nat n) s -> step s = Done s) ->
  exists s', whileP step fuel32 s0 = Done s' /\ Inv (N.to_nat n) s'.
Proof.
  intros Hn H0 Hs He. rewrite whileP_nat.
  apply while_nat_inv; auto. now apply fuel32_enough.
Qed.
