(** Building blocks shared by the two console models (Console/Vga.v, Console/Vesa.v): the Go loops
    that store a pixel/cell span, a rectangle of spans, and that copy a span.  All offsets are
    uint32 with explicit wrap-around, every access is bounds-checked.  Definitions only. *)
From Coq Require Import NArith List Bool.
From FF Require Import Lib.Word Console.Mem Console.Loop.
Import ListNotations.
Local Open Scope N_scope.

Definition of_opt (m : fbuf) (o : option fbuf) : res :=
  match o with Some m' => Ok m' | None => Panic m end.

Definition res_of_loop {S} (get : S -> fbuf) (r : sres S) : res :=
  match r with
  | Done s => Ok (get s)
  | Fail s => Panic (get s)
  | Next s | Fuel s => OutOfFuel (get s)
  end.

(** [fb[off] = b0; fb[off+1] = b1; ...] -> memory and whether all stores were in range
    (a store that is out of range panics: the earlier ones have happened) *)
Fixpoint store_seq (m : fbuf) (off : N) (k : N) (bytes : list N) : fbuf * bool :=
  match bytes with
  | [] => (m, true)
  | b :: rest =>
      match store_chk m (if k =? 0 then off else add32 off k) b with
      | Some m' => store_seq m' off (k + 1) rest
      | None => (m, false)
      end
  end.

(** element [j] of a byte sequence (0 beyond its end) *)
Definition byte_at (bytes : list N) (j : N) : N := nth (N.to_nat j) bytes 0.

(** [for off := start; off < bound; off += step { fb[off], fb[off+1].. = bytes }]   state = (memory, off)
    (text mode: step 1, one cell; framebuffer: step = bytes per pixel, the packed colour) *)
Definition fill_px_step (bound step : N) (bytes : list N) (s : fbuf * N) : sres (fbuf * N) :=
  let '(m, off) := s in
  if off <? bound then
    match store_seq m off 0 bytes with
    | (m', true) => Next (m', add32 off step)
    | (m', false) => Fail (m', off)
    end
  else Done s.

(** [for ; rows > 0; rows, rowOffset = rows-1, rowOffset+pitch { span loop with bound rowOffset+span }]
    state = (memory, rows, rowOffset) *)
Definition fill_row_step (pitch span step : N) (bytes : list N) (s : fbuf * N * N) : sres (fbuf * N * N) :=
  let '(m, rows, rowoff) := s in
  if 0 <? rows then
    match whileP (fill_px_step (add32 rowoff span) step bytes) fuel32 (m, rowoff) with
    | Done (m', _) => Next (m', sub32 rows 1, add32 rowoff pitch)
    | Fail (m', _) => Fail (m', rows, rowoff)
    | Next (m', _) | Fuel (m', _) => Fuel (m', rows, rowoff)
    end
  else Done s.

(** [fb[dst] = fb[src]] *)
Definition copy_chk (m : fbuf) (dst src : N) : option fbuf :=
  match load_chk m src with
  | Some v => store_chk m dst v
  | None => None
  end.

(** [for ; i < bound; i++ { fb[i] = fb[src i] }]   state = (memory, i) *)
Definition copy_fwd_step (bound : N) (src : N -> N) (s : fbuf * N) : sres (fbuf * N) :=
  let '(m, i) := s in
  if i <? bound then
    match copy_chk m i (src i) with
    | Some m' => Next (m', add32 i 1)
    | None => Fail s
    end
  else Done s.
