(** Flat interface of the C19 models for the correspondence driver: the first number selects the
    console (0 = text mode, 1 = framebuffer). *)
From Coq Require Import NArith List.
From FF Require Import Console.Vga Console.Vesa.
Import ListNotations.
Local Open Scope N_scope.

Definition run_case (l : list N) : list N :=
  match l with
  | 0 :: rest => vga_run_case rest
  | 1 :: rest => vesa_run_case rest
  | _ => []
  end.
