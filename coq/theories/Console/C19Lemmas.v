(** Derived statements of property C19, assembled from the per-operation proofs. *)
From Coq Require Import NArith ZArith PArith Arith Bool List Lia.
From Coq Require Import ZifyBool ZifyN ZifyNat.
From FF Require Import Lib.Word Gen.Consts_device_video_console.
From FF Require Import Console.Mem Console.MemProofs Console.Loop Console.LoopProofs Console.Ops Console.OpsProofs.
From FF Require Import Console.Grid Console.Vga Console.VgaProofs Console.Vesa Console.VesaSpec Console.VesaProofs.
From FF Require Import Console.VesaFillProofs Console.VesaScrollProofs Console.VesaWriteProofs.
Import ListNotations.
Local Open Scope N_scope.
Ltac Zify.zify_post_hook ::= Z.div_mod_to_equations.

(** ---- text mode: the value of a cell for the 16 colours ---- *)
Lemma forall_below (P : N -> bool) (n : nat) :
  forallb P (map N.of_nat (seq 0 n)) = true -> forall x, x < N.of_nat n -> P x = true.
Proof.
  intros H x Hx. rewrite forallb_forall in H. apply H.
  apply in_map_iff. exists (N.to_nat x). split; [lia|]. apply in_seq. lia.
Qed.

Lemma attr16_value bg fg : bg <= 15 -> fg <= 15 -> attr16 bg fg = (bg * 16 + fg) * 256.
Proof.
  intros Hb Hf.
  assert (H: forallb (fun b => forallb (fun f => attr16 b f =? (b * 16 + f) * 256) (map N.of_nat (seq 0 16)))
                     (map N.of_nat (seq 0 16)) = true) by (vm_compute; reflexivity).
  pose proof (forall_below _ 16 H bg ltac:(lia)) as H1. cbv beta in H1.
  pose proof (forall_below _ 16 H1 fg ltac:(lia)) as H2. cbv beta in H2.
  now apply N.eqb_eq in H2.
Qed.

Lemma lor_low a ch : a <= 255 -> ch <= 255 -> N.lor (a * 256) ch = a * 256 + ch.
Proof.
  intros Ha Hc.
  assert (H: forallb (fun a => forallb (fun c => N.lor (a * 256) c =? a * 256 + c) (map N.of_nat (seq 0 256)))
                     (map N.of_nat (seq 0 256)) = true) by (vm_compute; reflexivity).
  pose proof (forall_below _ 256 H a ltac:(lia)) as H1. cbv beta in H1.
  pose proof (forall_below _ 256 H1 ch ltac:(lia)) as H2. cbv beta in H2.
  now apply N.eqb_eq in H2.
Qed.

(** colours 0..15, any character: the cell is ((bg<<4 | fg) << 8) | ch *)
Lemma cell16_value bg fg ch : bg <= 15 -> fg <= 15 -> ch <= 255 -> cell16 bg fg ch = (bg * 16 + fg) * 256 + ch.
Proof.
  intros Hb Hf Hc. unfold cell16. rewrite attr16_value by assumption. apply lor_low; lia.
Qed.

Lemma vga_max_colour : vga_maxColorIndex = vga_paletteLen - 1.
Proof. reflexivity. Qed.

Lemma text_colour_in_range dflt v : v <= vga_maxColorIndex -> text_colour dflt v = v.
Proof. intros H. unfold text_colour. destruct (N.ltb_spec vga_maxColorIndex v); auto. lia. Qed.

Lemma text_colour_default dflt v : vga_maxColorIndex < v -> text_colour dflt v = dflt.
Proof. intros H. unfold text_colour. destruct (N.ltb_spec vga_maxColorIndex v); auto. lia. Qed.

(** ---- text mode: no operation escapes the framebuffer ---- *)
Lemma vga_no_escape c m :
  vga_wf c m ->
  (forall ch fg bg x y, x < two32 -> y < two32 ->
     exists m', vga_write c m ch fg bg x y = Ok m' /\ flen m' = flen m) /\
  (forall x y width height fg bg,
     exists m', vga_fill c m x y width height fg bg = Ok m' /\ flen m' = flen m) /\
  (forall dir lines, lines < two32 ->
     exists m', vga_scroll c m dir lines = Ok m' /\ flen m' = flen m).
Proof.
  intros W. repeat split.
  - intros ch fg bg x y Hx Hy. destruct (vga_write_spec c m ch fg bg x y W Hx Hy) as [m' [E [E1 _]]]. eauto.
  - intros x y w h fg bg. destruct (vga_fill_spec c m x y w h fg bg W) as [m' [E [E1 _]]]. eauto.
  - intros dir lines Hl. destruct (vga_scroll_spec c m dir lines W Hl) as [m' [E [E1 _]]]. eauto.
Qed.

(** ---- framebuffer console ---- *)
(** a console built the way the driver builds it satisfies the computed parts of [vesa_wf] *)
Lemma set_font_fields w0 h0 bpp0 pitch0 ci plen p lh f c :
  set_font (if lh =? 0 then new_vesa w0 h0 bpp0 pitch0 ci plen p
            else set_logo_height (new_vesa w0 h0 bpp0 pitch0 ci plen p) lh) f = Some c ->
  lh <= h0 -> h0 < two32 ->
  fnt c = Some f /\ bpp c = bpp0 /\ bytespp c = N.shiftr (w8 (bpp0 + 1)) 3 /\
  pw c = w0 /\ ph c = h0 /\ offsetY c = lh /\ pitch c = pitch0 /\
  wchars c = w0 / f_gw f /\ hchars c = (h0 - lh) / f_gh f /\ pal_len c = plen.
Proof.
  intros H Hl Hh. unfold set_font in H.
  destruct ((f_gw f =? 0) || (f_gh f =? 0)); [discriminate|]. inversion H; subst c; clear H.
  destruct (N.eqb_spec lh 0) as [->|Hne]; cbn; repeat split; auto.
  - rewrite sub32_small by lia. reflexivity.
  - rewrite sub32_small by lia. reflexivity.
Qed.

(** padding bytes and bytes outside the text area: never touched *)
Lemma write_ref_padding c f d m ch x y fgb bgb i : place_of c i = Padding -> write_ref c f d m ch x y fgb bgb i = load m i.
Proof. intros H. unfold write_ref. now rewrite H. Qed.

Lemma fill_ref_padding c f d m x y w h bgb i : place_of c i = Padding -> fill_ref c f d m x y w h bgb i = load m i.
Proof. intros H. unfold fill_ref. now rewrite H. Qed.

Lemma scroll_ref_padding c f m sd n i : place_of c i = Padding -> scroll_ref c f m sd n i = load m i.
Proof.
  intros H. unfold scroll_ref, place_of in *.
  destruct (i mod pitch c <? pw c * bytespp c); [discriminate|reflexivity].
Qed.

Lemma write_ref_outside c f d m ch x y fgb bgb i X Y k :
  place_of c i = PixelByte X Y k -> cell_of c f X Y = None -> write_ref c f d m ch x y fgb bgb i = load m i.
Proof. intros H1 H2. unfold write_ref. now rewrite H1, H2. Qed.

Lemma fill_ref_outside c f d m x y w h bgb i X Y k :
  place_of c i = PixelByte X Y k -> cell_of c f X Y = None -> fill_ref c f d m x y w h bgb i = load m i.
Proof. intros H1 H2. unfold fill_ref. now rewrite H1, H2. Qed.

(** the logo rows are not touched by a scroll *)
Lemma scroll_ref_logo c f m sd n i : i / pitch c < offsetY c -> scroll_ref c f m sd n i = load m i.
Proof.
  intros H. unfold scroll_ref.
  destruct (i mod pitch c <? pw c * bytespp c); auto.
  destruct sd.
  - replace (offsetY c <=? i / pitch c) with false by (symmetry; apply N.leb_gt; exact H). reflexivity.
  - replace (offsetY c + n * f_gh f <=? i / pitch c) with false by (symmetry; apply N.leb_gt; lia). reflexivity.
Qed.

Lemma vesa_no_escape c f d m :
  vesa_wf c f d m ->
  (forall ch fg bg x y, ch < 256 -> fg < 256 -> bg < 256 -> x < two32 -> y < two32 ->
     exists m', vesa_write c m ch fg bg x y = Ok m' /\ flen m' = flen m /\
       forall i, place_of c i = Padding -> load m' i = load m i) /\
  (forall x y width height fg bg, bg < 256 ->
     exists m', vesa_fill c m x y width height fg bg = Ok m' /\ flen m' = flen m /\
       forall i, place_of c i = Padding -> load m' i = load m i) /\
  (forall dir lines, lines < two32 ->
     exists m', vesa_scroll c m dir lines = Ok m' /\ flen m' = flen m /\
       forall i, place_of c i = Padding \/ i / pitch c < offsetY c -> load m' i = load m i).
Proof.
  intros W. repeat split.
  - intros ch fg bg x y H1 H2 H3 H4 H5.
    destruct (vesa_write_spec c f d m ch fg bg x y W H1 H2 H3 H4 H5) as [m' [fgb [bgb [_ [_ [E [E1 E2]]]]]]].
    exists m'. repeat split; auto. intros i Hp. rewrite E2.
    destruct (in_grid (vesa_dims c) x y); auto. now apply write_ref_padding.
  - intros x y w h fg bg H1.
    destruct (vesa_fill_spec c f d m x y w h fg bg W H1) as [m' [bgb [_ [E [E1 E2]]]]].
    exists m'. repeat split; auto. intros i Hp. rewrite E2. now apply fill_ref_padding.
  - intros dir lines Hl.
    destruct (vesa_scroll_spec c f d m dir lines W Hl) as [m' [E [E1 E2]]].
    exists m'. repeat split; auto. intros i Hp. rewrite E2.
    destruct (dir_of dir); auto. destruct (scroll_ok (vesa_dims c) lines); auto.
    destruct Hp; [now apply scroll_ref_padding|now apply scroll_ref_logo].
Qed.

(** ---- Scroll at the level of text lines ---- *)
(** pixel row [r] of text line [cy] (1-based) *)
Definition line_row (c : vesa) (f : font) (cy r : N) : N := offsetY c + (cy - 1) * f_gh f + r.

Lemma coord_index P Y b : b < P -> (Y * P + b) / P = Y /\ (Y * P + b) mod P = b.
Proof.
  intros Hb. assert (HP: P <> 0) by lia.
  pose proof (N.div_mod (Y * P + b) P HP) as D. pose proof (N.mod_lt (Y * P + b) P HP) as M.
  destruct (coord_unique P Y b ((Y * P + b) / P) ((Y * P + b) mod P)); try lia.
Qed.

Lemma vesa_scroll_lines c f d m dir lines sd :
  vesa_wf c f d m -> lines < two32 -> dir_of dir = Some sd -> scroll_ok (vesa_dims c) lines = true ->
  exists m', vesa_scroll c m dir lines = Ok m' /\ flen m' = flen m /\
    forall cy r b, 1 <= cy <= hchars c -> r < f_gh f -> b < pw c * bytespp c ->
      match sd with
      | ScrollUp => cy + lines <= hchars c ->
          load m' (line_row c f cy r * pitch c + b) = load m (line_row c f (cy + lines) r * pitch c + b)
      | ScrollDown => lines < cy ->
          load m' (line_row c f cy r * pitch c + b) = load m (line_row c f (cy - lines) r * pitch c + b)
      end.
Proof.
  intros W Hl Hd Hok.
  destruct (vesa_scroll_spec c f d m dir lines W Hl) as [m' [E [E1 E2]]].
  exists m'. repeat split; auto. rewrite Hd, Hok in E2.
  pose proof (geometry c f d m W) as [G1 [G2 [G3 [G4 [G5 [G6 [G7 [G8 [G9 [G10 [G11 G12]]]]]]]]]]].
  pose proof (wf_pitch _ _ _ _ W) as Hpitch. pose proof (wf_gh _ _ _ _ W) as Hgh.
  unfold scroll_ok in Hok. cbn [vesa_dims gh] in Hok.
  intros cy r b Hcy Hr Hb. unfold line_row.
  set (P := pitch c) in *. set (s := bytespp c) in *. set (g := f_gh f) in *.
  assert (HbP: b < P) by lia.
  destruct sd; intros Hmove.
  - set (Y := offsetY c + (cy - 1) * g + r).
    destruct (coord_index P Y b HbP) as [C1 C2].
    rewrite E2. unfold scroll_ref. fold P s g. rewrite C1, C2.
    replace (b <? pw c * s) with true by (symmetry; apply N.ltb_lt; exact Hb).
    assert (Hm: (cy + lines) * g <= hchars c * g) by (apply N.mul_le_mono_r; lia).
    assert (Hd1: (cy + lines - 1) * g + g = (cy + lines) * g).
    { replace (cy + lines) with (cy + lines - 1 + 1) at 2 by lia. lia. }
    assert (Hd2: (cy + lines - 1) * g = (cy - 1) * g + lines * g).
    { replace (cy + lines - 1) with (cy - 1 + lines) by lia. lia. }
    set (T1 := (cy - 1) * g) in *. set (T2 := lines * g) in *. set (T3 := (cy + lines - 1) * g) in *.
    set (T4 := (cy + lines) * g) in *. set (T5 := hchars c * g) in *. clearbody T1 T2 T3 T4 T5.
    replace (offsetY c <=? Y) with true by (symmetry; apply N.leb_le; subst Y; clear; lia).
    replace (Y + T2 <? ph c) with true by (symmetry; apply N.ltb_lt; subst Y; clear - Hm Hd1 Hd2 G2 Hr; lia).
    cbn [andb]. f_equal. f_equal. f_equal. subst Y. clear - Hd2. lia.
  - set (Y := offsetY c + (cy - 1) * g + r).
    destruct (coord_index P Y b HbP) as [C1 C2].
    rewrite E2. unfold scroll_ref. fold P s g. rewrite C1, C2.
    replace (b <? pw c * s) with true by (symmetry; apply N.ltb_lt; exact Hb).
    assert (Hm: cy * g <= hchars c * g) by (apply N.mul_le_mono_r; lia).
    assert (Hd1: (cy - 1) * g + g = cy * g).
    { replace cy with (cy - 1 + 1) at 2 by lia. lia. }
    assert (Hd2: (cy - 1) * g = (cy - lines - 1) * g + lines * g).
    { replace (cy - 1) with (cy - lines - 1 + lines) at 1 by lia. lia. }
    set (T1 := (cy - 1) * g) in *. set (T2 := lines * g) in *. set (T3 := (cy - lines - 1) * g) in *.
    set (T4 := cy * g) in *. set (T5 := hchars c * g) in *. clearbody T1 T2 T3 T4 T5.
    replace (offsetY c + T2 <=? Y) with true by (symmetry; apply N.leb_le; subst Y; clear - Hd2; lia).
    replace (Y <? ph c) with true by (symmetry; apply N.ltb_lt; subst Y; clear - Hm Hd1 G2 Hr; lia).
    cbn [andb]. f_equal. f_equal. f_equal. subst Y. clear - Hd2. lia.
Qed.

(** ---- colour packing: when do the three bytes written per 24/32-bit pixel hold the whole colour? ---- *)
Lemma lor_lt_pow2 a b n : a < 2 ^ n -> b < 2 ^ n -> N.lor a b < 2 ^ n.
Proof.
  intros Ha Hb.
  destruct (N.eq_dec (N.lor a b) 0) as [E|E]; [rewrite E; apply N.neq_0_lt_0, N.pow_nonzero; discriminate|].
  apply N.log2_lt_pow2; [lia|]. rewrite N.log2_lor.
  destruct (N.eq_dec a 0) as [->|Ha0]; destruct (N.eq_dec b 0) as [->|Hb0].
  - cbn in E. congruence.
  - cbn [N.log2]. rewrite N.max_r by apply N.le_0_l. apply N.log2_lt_pow2; lia.
  - cbn [N.log2]. rewrite N.max_l by apply N.le_0_l. apply N.log2_lt_pow2; lia.
  - apply N.max_lub_lt; apply N.log2_lt_pow2; lia.
Qed.

Lemma comp8_lt v size : v < 256 -> size <= 8 -> comp8 v size < 2 ^ size.
Proof.
  intros Hv Hs. unfold comp8.
  replace (w8 (8 + two8 - size)) with (8 - size) by (unfold w8, two8; lia).
  rewrite N.shiftr_div_pow2. apply N.div_lt_upper_bound; [apply N.pow_nonzero; discriminate|].
  rewrite <- N.pow_add_r. replace (8 - size + size) with 8 by lia. exact Hv.
Qed.

Lemma shifted_comp_lt v size pos lim :
  v < 256 -> size <= 8 -> pos + size <= lim -> N.shiftl (comp8 v size) pos < 2 ^ lim.
Proof.
  intros Hv Hs Hl. rewrite N.shiftl_mul_pow2.
  pose proof (comp8_lt v size Hv Hs) as Hc.
  assert (comp8 v size * 2 ^ pos < 2 ^ size * 2 ^ pos).
  { apply N.mul_lt_mono_pos_r; [apply N.neq_0_lt_0, N.pow_nonzero; discriminate|exact Hc]. }
  rewrite <- N.pow_add_r in H.
  assert (2 ^ (size + pos) <= 2 ^ lim) by (apply N.pow_le_mono_r; lia). lia.
Qed.

(** layouts inside the three bytes: nothing of the packed colour is lost *)
Lemma packed24_fits ci r g b :
  r < 256 -> g < 256 -> b < 256 ->
  rsize ci <= 8 -> gsize ci <= 8 -> bsize ci <= 8 ->
  rpos ci + rsize ci <= 24 -> gpos ci + gsize ci <= 24 -> bpos ci + bsize ci <= 24 ->
  packed24 ci (r, g, b) < 2 ^ 24 /\
  packed24 ci (r, g, b) =
    N.lor (N.lor (N.shiftl (comp8 r (rsize ci)) (rpos ci)) (N.shiftl (comp8 g (gsize ci)) (gpos ci)))
          (N.shiftl (comp8 b (bsize ci)) (bpos ci)).
Proof.
  intros Hr Hg Hb S1 S2 S3 P1 P2 P3. unfold packed24.
  pose proof (shifted_comp_lt r _ _ 24 Hr S1 P1) as A1.
  pose proof (shifted_comp_lt g _ _ 24 Hg S2 P2) as A2.
  pose proof (shifted_comp_lt b _ _ 24 Hb S3 P3) as A3.
  assert (H24: 2 ^ 24 < two32) by (unfold two32; cbn; lia).
  rewrite !w32_small by lia. split; [|reflexivity].
  apply lor_lt_pow2; [apply lor_lt_pow2|]; assumption.
Qed.

(** a 32-bit format with red in the 4th byte: the driver's three bytes miss it *)
Lemma packed24_high_byte_lost :
  exists ci rgb, rsize ci <= 8 /\ rpos ci + rsize ci <= 32 /\ 2 ^ 24 <= packed24 ci rgb.
Proof. exists (mkColorInfo 24 8 16 8 8 8), (255, 0, 0). vm_compute. repeat split; discriminate. Qed.

Lemma packed16_fits ci r g b :
  r < 256 -> g < 256 -> b < 256 ->
  rsize ci <= 8 -> gsize ci <= 8 -> bsize ci <= 8 ->
  rpos ci + rsize ci <= 16 -> gpos ci + gsize ci <= 16 -> bpos ci + bsize ci <= 16 ->
  packed16 ci (r, g, b) < 2 ^ 16 /\
  packed16 ci (r, g, b) =
    N.lor (N.lor (N.shiftl (comp8 r (rsize ci)) (rpos ci)) (N.shiftl (comp8 g (gsize ci)) (gpos ci)))
          (N.shiftl (comp8 b (bsize ci)) (bpos ci)).
Proof.
  intros Hr Hg Hb S1 S2 S3 P1 P2 P3. unfold packed16.
  pose proof (shifted_comp_lt r _ _ 16 Hr S1 P1) as A1.
  pose proof (shifted_comp_lt g _ _ 16 Hg S2 P2) as A2.
  pose proof (shifted_comp_lt b _ _ 16 Hb S3 P3) as A3.
  assert (H16: 2 ^ 16 = two16) by reflexivity.
  unfold w16. rewrite !N.mod_small by lia. split; [|reflexivity].
  apply lor_lt_pow2; [apply lor_lt_pow2|]; assumption.
Qed.

(** text mode: the value Fill stores, for the sixteen colours *)
Lemma vga_fill_value bg fg : bg <= 15 -> fg <= 15 ->
  N.lor (attr16 bg fg) vga_clearChar = (bg * 16 + fg) * 256 + vga_clearChar.
Proof.
  intros Hb Hf. rewrite attr16_value by assumption. apply lor_low; [lia|]. unfold vga_clearChar. lia.
Qed.
