(** Under C19's geometry [vesa_wf] the runs of the model's Write / Fill / Scroll end with [Ok] (Console/VesaGridProofs.v),
    hence the translation of vesa_fb.go (Gen/Trans_console_vesa.v) returns the model's state (Console/VesaTrans.v). *)
From Coq Require Import NArith PArith String List Bool Lia.
From FF Require Import Lib.Word Lib.GoOps Gen.Consts_device_tty Gen.Consts_device_video_console Gen.Trans_console_vesa.
From FF Require Import Console.Mem Console.Loop Console.Vesa Console.VesaProofs Console.VgaProofs Console.VesaGridProofs.
From FF Require Import Console.VesaTrans.
Local Open Scope N_scope.

(** ---- under C19's geometry the translated Write / Fill / Scroll return the model's [Ok] state ---- *)
Theorem trans_no_panic c f d phys m fuel :
  vesa_wf c f d m -> bytes_ok c -> (Pos.to_nat fuel32 <= fuel)%nat ->
  (forall ch fg bg x y, ch < 256 -> fg < 256 -> bg < 256 -> x < two32 -> y < two32 ->
     exists m', vesa_write c m ch fg bg x y = Ok m' /\ vesa_wf c f d m' /\
       go_console_VesaFbConsole_Write fuel (to_gs c phys m) ch fg bg x y (bsize (cinfo c)) (bpos (cinfo c)) (gsize (cinfo c))
         (gpos (cinfo c)) (rsize (cinfo c)) (rpos (cinfo c)) (fbpr c) (fdata c) (fgh c) (fgw c) = GOk (to_gs c phys m', tt)) /\
  (forall x y width height fg bg, bg < 256 ->
     exists m', vesa_fill c m x y width height fg bg = Ok m' /\ vesa_wf c f d m' /\
       go_console_VesaFbConsole_Fill fuel (to_gs c phys m) x y width height fg bg (bsize (cinfo c)) (bpos (cinfo c)) (gsize (cinfo c))
         (gpos (cinfo c)) (rsize (cinfo c)) (rpos (cinfo c)) (fgh c) (fgw c) = GOk (to_gs c phys m', tt)) /\
  (forall dir lines, lines < two32 -> dir = console_ScrollDirUp \/ dir = console_ScrollDirDown ->
     exists m', vesa_scroll c m dir lines = Ok m' /\ vesa_wf c f d m' /\
       go_console_VesaFbConsole_Scroll fuel (to_gs c phys m) dir lines (fgh c) = GOk (to_gs c phys m', tt)).
Proof.
  intros W Hb Hfuel. split; [|split].
  - intros ch fg bg x y H1 H2 H3 H4 H5.
    destruct (vesa_write_refines c f d m ch fg bg x y W H1 H2 H3 H4 H5) as (m' & fgb & bgb & _ & _ & E & W' & _).
    exists m'. split; [exact E|]. split; [exact W'|].
    pose proof (write_is_translation_explicit c phys m ch fg bg x y fuel H1 Hb Hfuel) as T. rewrite E in T. exact T.
  - intros x y width height fg bg H1.
    destruct (vesa_fill_refines c f d m x y width height fg bg W H1) as (m' & bgb & _ & E & W' & _).
    exists m'. split; [exact E|]. split; [exact W'|].
    pose proof (fill_is_translation_explicit c phys m x y width height fg bg fuel Hb Hfuel) as T. rewrite E in T. exact T.
  - intros dir lines H1 Hd.
    assert (exists sd, dir_of dir = Some sd) as [sd Hsd] by (destruct Hd as [-> | ->]; eexists; reflexivity).
    destruct (vesa_scroll_refines c f d m dir sd lines W H1 Hsd) as (m' & E & W' & _).
    exists m'. split; [exact E|]. split; [exact W'|].
    pose proof (scroll_is_translation_explicit c phys m dir lines fuel Hfuel) as T. rewrite E in T. exact T.
Qed.
