(** The framebuffer console refines the cell-level semantics of Console/Grid.v: the content of a
    cell is the colour bytes of its pixels. *)
From Coq Require Import NArith ZArith PArith Arith Bool List Lia.
From Coq Require Import ZifyBool ZifyN ZifyNat.
From FF Require Import Lib.Word Gen.Consts_device_video_console.
From FF Require Import Console.Mem Console.MemProofs Console.Loop Console.LoopProofs Console.Ops Console.OpsProofs.
From FF Require Import Console.Grid Console.Vga Console.VgaProofs Console.Vesa Console.VesaSpec Console.VesaProofs.
From FF Require Import Console.VesaFillProofs Console.VesaScrollProofs Console.VesaWriteProofs Console.C19Lemmas.
Import ListNotations.
Local Open Scope N_scope.
Ltac Zify.zify_post_hook ::= Z.div_mod_to_equations.

(** content of a cell: byte [k] of pixel (column [q], row [r]) of the cell *)
Definition cell_pix : Type := N -> N -> N -> N.

(** framebuffer index of that byte for cell (cx, cy), 1-based *)
Definition pix_index (c : vesa) (f : font) (cx cy r q k : N) : N :=
  (offsetY c + (cy - 1) * f_gh f + r) * pitch c + ((cx - 1) * f_gw f + q) * bytespp c + k.

Definition vesa_grid (c : vesa) (f : font) (m : fbuf) : grid cell_pix :=
  mkGrid (wchars c) (hchars c) (fun cx cy r q k => load m (pix_index c f cx cy r q k)).

(** two cells show the same thing: equal colour bytes in every pixel of the cell *)
Definition cell_rel (f : font) (d : depth) (a b : cell_pix) : Prop :=
  forall r q k, r < f_gh f -> q < f_gw f -> k < ncomp d -> a r q k = b r q k.

(** the picture of character [ch] in colours fgb / bgb, and of a blank cell *)
Definition glyph_cell (f : font) (ch : N) (fgb bgb : list N) : cell_pix :=
  fun r q k => byte_at (if glyph_bit f ch r q then fgb else bgb) k.
Definition solid_cell (bgb : list N) : cell_pix := fun _ _ k => byte_at bgb k.

Lemma vesa_wf_keep c f d m m' : vesa_wf c f d m -> flen m' = flen m -> vesa_wf c f d m'.
Proof. intros W E. destruct W. constructor; auto. now rewrite E. Qed.

Lemma div_mod_of g a q : q < g -> (a * g + q) / g = a /\ (a * g + q) mod g = q.
Proof.
  intros Hq. assert (Hg: g <> 0) by lia.
  pose proof (N.div_mod (a * g + q) g Hg) as D. pose proof (N.mod_lt (a * g + q) g Hg) as M.
  destruct (N.div_mod_unique g a ((a * g + q) / g) q ((a * g + q) mod g)); try lia.
Qed.

(** where the bytes of a cell lie *)
Lemma pix_place c f d m cx cy r q k :
  vesa_wf c f d m -> 1 <= cx <= wchars c -> 1 <= cy <= hchars c ->
  r < f_gh f -> q < f_gw f -> k < bytespp c ->
  place_of c (pix_index c f cx cy r q k) = PixelByte ((cx - 1) * f_gw f + q) (offsetY c + (cy - 1) * f_gh f + r) k /\
  cell_of c f ((cx - 1) * f_gw f + q) (offsetY c + (cy - 1) * f_gh f + r) = Some (cx, cy, q, r).
Proof.
  intros W Hcx Hcy Hr Hq Hk.
  pose proof (geometry c f d m W) as [G1 [G2 [G3 [G4 [G5 [G6 [G7 [G8 [G9 [G10 [G11 G12]]]]]]]]]]].
  pose proof (wf_pitch _ _ _ _ W) as Hpitch.
  assert (HX: (cx - 1) * f_gw f + f_gw f <= wchars c * f_gw f).
  { replace ((cx - 1) * f_gw f + f_gw f) with ((cx - 1 + 1) * f_gw f) by lia. apply N.mul_le_mono_r. lia. }
  assert (HY: (cy - 1) * f_gh f + f_gh f <= hchars c * f_gh f).
  { replace ((cy - 1) * f_gh f + f_gh f) with ((cy - 1 + 1) * f_gh f) by lia. apply N.mul_le_mono_r. lia. }
  destruct (div_mod_of (f_gw f) (cx - 1) q Hq) as [E1 E2].
  destruct (div_mod_of (f_gh f) (cy - 1) r Hr) as [E3 E4].
  remember ((cx - 1) * f_gw f) as A eqn:HA0. remember ((cy - 1) * f_gh f) as B eqn:HB0.
  remember (wchars c * f_gw f) as WG eqn:HWG. remember (hchars c * f_gh f) as HG eqn:HHG.
  set (X := A + q) in *. set (Y := offsetY c + B + r) in *.
  assert (HXw: X < WG) by (subst X; clear - HX Hq; lia).
  assert (HX1: (X + 1) * bytespp c <= pw c * bytespp c) by (apply N.mul_le_mono_r; clear - HXw G1; lia).
  assert (Hb: X * bytespp c + k < pw c * bytespp c) by (clear - HX1 Hk; lia).
  assert (HbP: X * bytespp c + k < pitch c) by (clear - Hb Hpitch; lia).
  unfold pix_index. rewrite <- HA0, <- HB0. fold X Y. rewrite <- N.add_assoc.
  destruct (coord_index (pitch c) Y (X * bytespp c + k) HbP) as [C1 C2].
  destruct (div_mod_of (bytespp c) X k Hk) as [D1 D2].
  split.
  - unfold place_of. rewrite C1, C2, D1, D2.
    replace (X * bytespp c + k <? pw c * bytespp c) with true by (symmetry; apply N.ltb_lt; exact Hb). reflexivity.
  - unfold cell_of. rewrite <- HWG, <- HHG.
    replace (X <? WG) with true by (symmetry; apply N.ltb_lt; exact HXw).
    replace (offsetY c <=? Y) with true by (symmetry; apply N.leb_le; subst Y; clear; lia).
    replace (Y <? offsetY c + HG) with true by (symmetry; apply N.ltb_lt; subst Y; clear - HY Hr; lia).
    cbn [andb].
    replace (Y - offsetY c) with (B + r) by (subst Y; clear; lia).
    rewrite E1, E2, E3, E4.
    replace (cx - 1 + 1) with cx by (clear - Hcx; lia). replace (cy - 1 + 1) with cy by (clear - Hcy; lia).
    reflexivity.
Qed.

Lemma vesa_write_refines c f d m ch fg bg x y :
  vesa_wf c f d m -> ch < 256 -> fg < 256 -> bg < 256 -> x < two32 -> y < two32 ->
  exists m' fgb bgb, pixel_bytes c d fg = Some fgb /\ pixel_bytes c d bg = Some bgb /\
    vesa_write c m ch fg bg x y = Ok m' /\ vesa_wf c f d m' /\
    grid_equiv (cell_rel f d) (vesa_grid c f m') (g_write (vesa_grid c f m) x y (glyph_cell f ch fgb bgb)).
Proof.
  intros W H1 H2 H3 H4 H5.
  destruct (vesa_write_spec c f d m ch fg bg x y W H1 H2 H3 H4 H5) as [m' [fgb [bgb [P1 [P2 [E [E1 E2]]]]]]].
  exists m', fgb, bgb.
  split; [exact P1|]. split; [exact P2|]. split; [exact E|]. split; [eapply vesa_wf_keep; eauto|].
  destruct (g_write_dims (vesa_grid c f m) x y (glyph_cell f ch fgb bgb)) as [D1 D2].
  unfold grid_equiv. rewrite D1, D2. repeat split; auto.
  intros cx cy G. apply in_grid_spec in G. cbn [vesa_grid gw gh] in G.
  intros r q k Hr Hq Hk. cbn [vesa_grid gcell]. rewrite E2.
  pose proof (ncomp_le c f d m W) as Hnc.
  destruct (pix_place c f d m cx cy r q k W ltac:(lia) ltac:(lia) Hr Hq ltac:(lia)) as [PL CE].
  replace (in_grid (vesa_dims c) x y) with (in_grid (vesa_grid c f m) x y) by reflexivity.
  unfold g_write. destruct (in_grid (vesa_grid c f m) x y) eqn:Gx; cbn [gcell vesa_grid]; auto.
  unfold write_ref. rewrite PL, CE.
  replace (k <? ncomp d) with true by (symmetry; apply N.ltb_lt; exact Hk). rewrite andb_true_r.
  destruct ((cx =? x) && (cy =? y)); reflexivity.
Qed.

Lemma vesa_fill_refines c f d m x y width height fg bg :
  vesa_wf c f d m -> bg < 256 ->
  exists m' bgb, pixel_bytes c d bg = Some bgb /\
    vesa_fill c m x y width height fg bg = Ok m' /\ vesa_wf c f d m' /\
    grid_equiv (cell_rel f d) (vesa_grid c f m') (g_fill (vesa_grid c f m) x y width height (solid_cell bgb)).
Proof.
  intros W H1.
  destruct (vesa_fill_spec c f d m x y width height fg bg W H1) as [m' [bgb [P1 [E [E1 E2]]]]].
  exists m', bgb.
  split; [exact P1|]. split; [exact E|]. split; [eapply vesa_wf_keep; eauto|].
  unfold grid_equiv. cbn [g_fill gw gh vesa_grid]. split; [reflexivity|]. split; [reflexivity|].
  intros cx cy G. apply in_grid_spec in G. cbn [vesa_grid gw gh] in G.
  intros r q k Hr Hq Hk. cbn [vesa_grid g_fill gcell gw gh]. rewrite E2.
  pose proof (ncomp_le c f d m W) as Hnc.
  destruct (pix_place c f d m cx cy r q k W ltac:(lia) ltac:(lia) Hr Hq ltac:(lia)) as [PL CE].
  unfold fill_ref. rewrite PL, CE.
  replace (k <? ncomp d) with true by (symmetry; apply N.ltb_lt; exact Hk). rewrite andb_true_r.
  replace (in_fill (vesa_dims c) x y width height cx cy)
    with (in_fill (vesa_grid c f m) x y width height cx cy) by reflexivity.
  destruct (in_fill (vesa_grid c f m) x y width height cx cy); reflexivity.
Qed.

(** Scroll: the lines that exist on both sides of the move show what the source lines showed; the
    vacated lines hold SOME content (here: whatever the driver left there) *)
Lemma vesa_scroll_refines c f d m dir sd lines :
  vesa_wf c f d m -> lines < two32 -> dir_of dir = Some sd ->
  exists m', vesa_scroll c m dir lines = Ok m' /\ vesa_wf c f d m' /\
    grid_equiv (cell_rel f d) (vesa_grid c f m')
               (g_scroll (vesa_grid c f m) sd lines (gcell (vesa_grid c f m'))).
Proof.
  intros W Hl Hd.
  destruct (scroll_ok (vesa_dims c) lines) eqn:Hok.
  - destruct (vesa_scroll_lines c f d m dir lines sd W Hl Hd Hok) as [m' [E [E1 E2]]].
    exists m'. split; [exact E|]. split; [eapply vesa_wf_keep; eauto|].
    unfold grid_equiv. split; [|split].
    + unfold g_scroll. destruct (scroll_ok (vesa_grid c f m) lines); reflexivity.
    + unfold g_scroll. destruct (scroll_ok (vesa_grid c f m) lines); reflexivity.
    + intros cx cy G. apply in_grid_spec in G. cbn [vesa_grid gw gh] in G.
      intros r q k Hr Hq Hk. unfold g_scroll.
      replace (scroll_ok (vesa_grid c f m) lines) with true by (symmetry; exact Hok).
      cbn [gcell vesa_grid gh]. unfold pix_index.
      pose proof (ncomp_le c f d m W) as Hnc.
      pose proof (geometry c f d m W) as [G1 _].
      assert (HX: (cx - 1) * f_gw f + f_gw f <= wchars c * f_gw f).
      { replace ((cx - 1) * f_gw f + f_gw f) with ((cx - 1 + 1) * f_gw f) by lia. apply N.mul_le_mono_r. lia. }
      assert (Hb: ((cx - 1) * f_gw f + q) * bytespp c + k < pw c * bytespp c).
      { assert (((cx - 1) * f_gw f + q + 1) * bytespp c <= pw c * bytespp c) by (apply N.mul_le_mono_r; lia). lia. }
      specialize (E2 cy r (((cx - 1) * f_gw f + q) * bytespp c + k) ltac:(lia) Hr Hb).
      unfold line_row in E2. rewrite !N.add_assoc in E2.
      destruct sd.
      * destruct (N.leb_spec (cy + lines) (hchars c)); auto.
      * destruct (N.ltb_spec lines cy); auto.
  - destruct (vesa_scroll_spec c f d m dir lines W Hl) as [m' [E [E1 E2]]].
    exists m'. split; [exact E|]. split; [eapply vesa_wf_keep; eauto|].
    unfold grid_equiv. split; [|split].
    + unfold g_scroll. destruct (scroll_ok (vesa_grid c f m) lines); reflexivity.
    + unfold g_scroll. destruct (scroll_ok (vesa_grid c f m) lines); reflexivity.
    + intros cx cy G r q k Hr Hq Hk. unfold g_scroll.
      replace (scroll_ok (vesa_grid c f m) lines) with false by (symmetry; exact Hok).
      cbn [gcell vesa_grid]. rewrite E2, Hd, Hok. reflexivity.
Qed.
