(** Proofs about the framebuffer console model (Console/Vesa.v). *)
From Coq Require Import NArith ZArith PArith Arith Bool List Lia.
From Coq Require Import ZifyBool ZifyN ZifyNat.
From FF Require Import Lib.Word Gen.Consts_device_video_console.
From FF Require Import Console.Mem Console.MemProofs Console.Loop Console.LoopProofs Console.Ops Console.OpsProofs.
From FF Require Import Console.Grid Console.Vga Console.VgaProofs Console.Vesa Console.VesaSpec.
Import ListNotations.
Local Open Scope N_scope.
Ltac Zify.zify_post_hook ::= Z.div_mod_to_equations.

(** ---- geometry in the property's quantifier ---- *)
Record vesa_wf (c : vesa) (f : font) (d : depth) (m : fbuf) : Prop := mkVesaWf {
  wf_font : fnt c = Some f;
  wf_depth : depth_of (bpp c) = Some d;
  wf_bytespp : bytespp c = N.shiftr (w8 (bpp c + 1)) 3;       (* as NewVesaFbConsole computes it *)
  wf_gw : 8 <= f_gw f <= 16;                                   (* font 8..16 pixels wide *)
  wf_gh : 1 <= f_gh f;
  wf_bpr : f_bpr f = (f_gw f + 7) / 8;
  wf_dlen : 256 * f_bpr f * f_gh f <= f_dlen f;               (* 256 glyphs *)
  wf_dlen32 : f_dlen f < two32;
  wf_wchars : wchars c = pw c / f_gw f;                        (* as SetFont computes them *)
  wf_hchars : hchars c = (ph c - offsetY c) / f_gh f;
  wf_w1 : 1 <= wchars c;                                       (* the grid has a cell *)
  wf_h1 : 1 <= hchars c;
  wf_offsetY : offsetY c <= ph c;                              (* the logo fits *)
  wf_pitch : pw c * bytespp c <= pitch c;                      (* pitch >= row bytes *)
  wf_size : ph c * pitch c < two32;
  wf_flen : flen m = ph c * pitch c;                           (* the buffer DriverInit maps *)
  wf_pal : pal_len c = 256
}.

Lemma depth_cases c f d m : vesa_wf c f d m ->
  (d = D8 /\ bytespp c = 1) \/ (d = D16 /\ bytespp c = 2) \/ (d = D24 /\ (bytespp c = 3 \/ bytespp c = 4)).
Proof.
  intros W. pose proof (wf_depth _ _ _ _ W) as Hd. pose proof (wf_bytespp _ _ _ _ W) as Hb.
  unfold depth_of in Hd.
  destruct (N.eqb_spec (bpp c) 8) as [E|_]; [rewrite E in Hb; inversion Hd; subst; left; split; [reflexivity|exact Hb]|].
  destruct (N.eqb_spec (bpp c) 15) as [E|_]; [rewrite E in Hb; inversion Hd; subst; right; left; split; [reflexivity|exact Hb]|].
  destruct (N.eqb_spec (bpp c) 16) as [E|_]; [rewrite E in Hb; inversion Hd; subst; right; left; split; [reflexivity|exact Hb]|].
  cbn [orb] in Hd.
  destruct (N.eqb_spec (bpp c) 24) as [E|_]; [rewrite E in Hb; inversion Hd; subst; right; right; split; [reflexivity|left; exact Hb]|].
  destruct (N.eqb_spec (bpp c) 32) as [E|_]; [rewrite E in Hb; inversion Hd; subst; right; right; split; [reflexivity|right; exact Hb]|].
  discriminate.
Qed.

Lemma px_step_eq c f d m : vesa_wf c f d m -> px_step c d = bytespp c.
Proof. intros W. destruct (depth_cases c f d m W) as [[-> E]|[[-> E]|[-> E]]]; cbn; auto. Qed.

Lemma step_ok_bytespp c f d m : vesa_wf c f d m -> step_ok (bytespp c).
Proof. intros W. unfold step_ok. destruct (depth_cases c f d m W) as [[_ E]|[[_ E]|[_ [E|E]]]]; rewrite E; auto. Qed.

Lemma ncomp_le c f d m : vesa_wf c f d m -> ncomp d <= bytespp c.
Proof. intros W. destruct (depth_cases c f d m W) as [[-> E]|[[-> E]|[-> [E|E]]]]; rewrite E; cbn; lia. Qed.

Lemma pixel_bytes_ok c f d m idx : vesa_wf c f d m -> idx < 256 ->
  exists bytes, pixel_bytes c d idx = Some bytes /\ N.of_nat (length bytes) = ncomp d.
Proof.
  intros W Hi. pose proof (wf_pal _ _ _ _ W) as Hp. unfold pixel_bytes.
  assert (E: idx <? pal_len c = true) by (apply N.ltb_lt; lia).
  destruct d; rewrite ?E; eexists; split; reflexivity.
Qed.

(** linear facts about the geometry, products kept as atoms *)
Lemma geometry c f d m : vesa_wf c f d m ->
  wchars c * f_gw f <= pw c /\ offsetY c + hchars c * f_gh f <= ph c /\
  1 <= pitch c /\ pitch c < two32 /\ ph c < two32 /\ pw c < two32 /\ 1 <= ph c /\ 1 <= pw c /\
  pw c <= pw c * bytespp c /\ 1 <= bytespp c <= 4 /\ f_gw f <= pw c /\ f_gh f <= ph c.
Proof.
  intros W. destruct W.
  assert (Hs: 1 <= bytespp c <= 4).
  { unfold depth_of in wf_depth0. rewrite wf_bytespp0.
    destruct (N.eqb_spec (bpp c) 8) as [E|_]; [rewrite E; cbn; lia|].
    destruct (N.eqb_spec (bpp c) 15) as [E|_]; [rewrite E; cbn; lia|].
    destruct (N.eqb_spec (bpp c) 16) as [E|_]; [rewrite E; cbn; lia|].
    destruct (N.eqb_spec (bpp c) 24) as [E|_]; [rewrite E; cbn; lia|].
    destruct (N.eqb_spec (bpp c) 32) as [E|_]; [rewrite E; cbn; lia|]. discriminate. }
  assert (A: wchars c * f_gw f <= pw c).
  { rewrite wf_wchars0, N.mul_comm. apply N.mul_div_le. lia. }
  assert (B: hchars c * f_gh f <= ph c - offsetY c).
  { rewrite wf_hchars0, N.mul_comm. apply N.mul_div_le. lia. }
  assert (C1: 1 * f_gw f <= wchars c * f_gw f) by (apply N.mul_le_mono_r; lia).
  assert (C2: 1 * f_gh f <= hchars c * f_gh f) by (apply N.mul_le_mono_r; lia).
  assert (D1: pw c * 1 <= pw c * bytespp c) by (apply N.mul_le_mono_l; lia).
  assert (D2: 1 * pitch c <= ph c * pitch c) by (apply N.mul_le_mono_r; lia).
  assert (D3: ph c * 1 <= ph c * pitch c) by (apply N.mul_le_mono_l; lia).
  lia.
Qed.

(** ---- Fill: the rectangle in (row, byte column) coordinates ---- *)
Lemma vesa_fill_coord c f d m x y width height fg bg :
  vesa_wf c f d m -> bg < 256 ->
  let x0 := clamp1 x (wchars c) in
  let y0 := clamp1 y (hchars c) in
  let w' := N.min width (wchars c - x0 + 1) in
  let h' := N.min height (hchars c - y0 + 1) in
  let s := bytespp c in
  let a := (x0 - 1) * f_gw f * s in
  let Y0 := (y0 - 1) * f_gh f + offsetY c in
  exists m' bytes, pixel_bytes c d bg = Some bytes /\ N.of_nat (length bytes) = ncomp d /\
    vesa_fill c m x y width height fg bg = Ok m' /\ flen m' = flen m /\
    forall Y b, b < pitch c ->
      load m' (Y * pitch c + b) =
        if (Y0 <=? Y) && (Y <? Y0 + h' * f_gh f) && (a <=? b) && (b <? a + w' * f_gw f * s) && ((b - a) mod s <? ncomp d)
        then byte_at bytes ((b - a) mod s) else load m (Y * pitch c + b).
Proof.
  intros W Hbg. cbv zeta.
  pose proof (geometry c f d m W) as [G1 [G2 [G3 [G4 [G5 [G6 [G7 [G8 [G9 [G10 [G11 G12]]]]]]]]]]].
  pose proof (wf_w1 _ _ _ _ W) as Hw1. pose proof (wf_h1 _ _ _ _ W) as Hh1.
  pose proof (wf_gw _ _ _ _ W) as Hgw. pose proof (wf_gh _ _ _ _ W) as Hgh.
  pose proof (wf_pitch _ _ _ _ W) as Hpitch. pose proof (wf_size _ _ _ _ W) as Hsize.
  pose proof (wf_flen _ _ _ _ W) as Hflen.
  pose proof (clamp1_range x (wchars c) Hw1) as Hx. pose proof (clamp1_range y (hchars c) Hh1) as Hy.
  unfold vesa_fill. rewrite (wf_font _ _ _ _ W), (wf_depth _ _ _ _ W). cbv zeta.
  rewrite !(clamp_org_eq x), !(clamp_org_eq y).
  set (x0 := clamp1 x (wchars c)) in *. set (y0 := clamp1 y (hchars c)) in *.
  assert (Hwc: wchars c * 1 <= wchars c * f_gw f) by (apply N.mul_le_mono_l; lia).
  assert (Hhc: hchars c * 1 <= hchars c * f_gh f) by (apply N.mul_le_mono_l; lia).
  rewrite !clip_ext_eq by lia.
  set (w' := N.min width (wchars c - x0 + 1)). set (h' := N.min height (hchars c - y0 + 1)).
  destruct (pixel_bytes_ok c f d m bg W Hbg) as [bytes [Hpb Hlen]]. rewrite Hpb.
  rewrite (px_step_eq c f d m W). set (s := bytespp c) in *.
  (* the pixel rectangle, products as atoms *)
  assert (HA: (x0 - 1) * f_gw f + w' * f_gw f <= wchars c * f_gw f).
  { rewrite <- N.mul_add_distr_r. apply N.mul_le_mono_r. lia. }
  assert (HC: (y0 - 1) * f_gh f + h' * f_gh f <= hchars c * f_gh f).
  { rewrite <- N.mul_add_distr_r. apply N.mul_le_mono_r. lia. }
  assert (HC1: (y0 - 1) * f_gh f + 1 * f_gh f <= hchars c * f_gh f).
  { rewrite <- N.mul_add_distr_r. apply N.mul_le_mono_r. lia. }
  set (A := (x0 - 1) * f_gw f) in *. set (B := w' * f_gw f) in *.
  set (Cy := (y0 - 1) * f_gh f) in *. set (Dy := h' * f_gh f) in *.
  assert (HAs: A * s + B * s <= pw c * s).
  { rewrite <- N.mul_add_distr_r. apply N.mul_le_mono_r. lia. }
  assert (HY: (Cy + offsetY c + 1) * pitch c <= ph c * pitch c) by (apply N.mul_le_mono_r; lia).
  assert (HYR: (Cy + offsetY c + Dy) * pitch c <= ph c * pitch c) by (apply N.mul_le_mono_r; lia).
  rewrite (sub32_small x0 1), (sub32_small y0 1) by lia.
  rewrite (mul32_small (x0 - 1)), (mul32_small (y0 - 1)) by (fold A Cy; lia). fold A Cy.
  rewrite (mul32_small w'), (mul32_small h') by (fold B Dy; lia). fold B Dy.
  rewrite (mul32_small B) by lia.
  unfold fb_offset. fold s. rewrite (add32_small Cy) by lia. rewrite (mul32_small A) by lia.
  rewrite mul32_small by lia. rewrite add32_small by lia.
  destruct (fill_rect s bytes (pitch c) B Dy m (Cy + offsetY c) (A * s)) as [m' [r' [E [E1 E2]]]]; try lia.
  { apply (step_ok_bytespp c f d m W). }
  { rewrite Hlen. apply (ncomp_le c f d m W). }
  rewrite E. cbn [res_of_loop fst]. exists m', bytes. repeat split; auto.
  intros Y b Hb. rewrite E2 by assumption. rewrite Hlen. reflexivity.
Qed.

