(** Cell-level semantics of a console device (kernel/device/video/console/device.go: the
    [Device] interface).  A console is a grid of cells addressed 1-based: column [x] in
    [1..gw], line [y] in [1..gh].  The three operations below are what the property C19 states
    at cell level; [Console/VgaProofs.v] and [Console/VesaProofs.v] prove that the text-mode and
    the framebuffer driver refine them, C18 composes the terminal emulator with them.

    Definitions and a few structural lemmas only; polymorphic in the cell content [C]
    (text mode: the 16-bit cell value; framebuffer: the pixels of the cell). *)
From Coq Require Import NArith Bool Lia.
Local Open Scope N_scope.

Inductive scroll_dir := ScrollUp | ScrollDown.

Section Grid.
  Context {C : Type}.

  (** [gcell x y] is meaningful for [1 <= x <= gw], [1 <= y <= gh] only. *)
  Record grid := mkGrid { gw : N; gh : N; gcell : N -> N -> C }.

  Definition in_grid (g : grid) (x y : N) : bool :=
    (1 <=? x) && (x <=? gw g) && (1 <=? y) && (y <=? gh g).

  (** Write: sets exactly the addressed cell; coordinates outside the grid: nothing happens. *)
  Definition g_write (g : grid) (x y : N) (c : C) : grid :=
    if in_grid g x y
    then mkGrid (gw g) (gh g) (fun x' y' => if (x' =? x) && (y' =? y) then c else gcell g x' y')
    else g.

  (** Fill: the origin is clamped into the grid (0 -> 1, beyond the edge -> the edge), the extent
      [width] x [height] (any natural numbers, e.g. 2^32-1) is clipped at the right and bottom
      edges.  [in_fill g x y width height cx cy]: cell (cx,cy) belongs to the effective area. *)
  Definition clamp1 (v m : N) : N := if v =? 0 then 1 else if m <=? v then m else v.

  Definition in_fill (g : grid) (x y width height cx cy : N) : bool :=
    let x0 := clamp1 x (gw g) in
    let y0 := clamp1 y (gh g) in
    (x0 <=? cx) && (cx <? x0 + width) && (cx <=? gw g) &&
    (y0 <=? cy) && (cy <? y0 + height) && (cy <=? gh g).

  Definition g_fill (g : grid) (x y width height : N) (c : C) : grid :=
    mkGrid (gw g) (gh g)
      (fun cx cy => if in_fill g x y width height cx cy then c else gcell g cx cy).

  (** Scroll by [n] lines, [1 <= n <= gh]: line [y] receives the former line [y+n] (up) /
      [y-n] (down).  The content of the [n] vacated lines is the caller's business (device.go:
      "The caller is responsible for updating the contents of the region that was scrolled"); it is
      a parameter [junk] here: a driver refines [g_scroll] for SOME junk, a client must be correct
      for EVERY junk.  Any other [n]: nothing happens. *)
  Definition scroll_ok (g : grid) (n : N) : bool := (1 <=? n) && (n <=? gh g).

  Definition g_scroll (g : grid) (d : scroll_dir) (n : N) (junk : N -> N -> C) : grid :=
    if scroll_ok g n then
      mkGrid (gw g) (gh g)
        (fun x y => match d with
                    | ScrollUp => if y + n <=? gh g then gcell g x (y + n) else junk x y
                    | ScrollDown => if n <? y then gcell g x (y - n) else junk x y
                    end)
    else g.

  (** Two grids show the same thing: same dimensions, related content in every cell of the grid. *)
  Definition grid_equiv (R : C -> C -> Prop) (g g' : grid) : Prop :=
    gw g = gw g' /\ gh g = gh g' /\
    forall x y, in_grid g x y = true -> R (gcell g x y) (gcell g' x y).

  Definition grid_eq : grid -> grid -> Prop := grid_equiv eq.

  (** ---- structural facts ---- *)
  Lemma g_write_dims g x y c : gw (g_write g x y c) = gw g /\ gh (g_write g x y c) = gh g.
  Proof. unfold g_write. destruct (in_grid g x y); auto. Qed.

  Lemma g_fill_dims g x y w h c : gw (g_fill g x y w h c) = gw g /\ gh (g_fill g x y w h c) = gh g.
  Proof. auto. Qed.

  Lemma g_scroll_dims g d n j : gw (g_scroll g d n j) = gw g /\ gh (g_scroll g d n j) = gh g.
  Proof. unfold g_scroll. destruct (scroll_ok g n); auto. Qed.

  Lemma g_write_same g x y c : in_grid g x y = true -> gcell (g_write g x y c) x y = c.
  Proof. intros H. unfold g_write. rewrite H. cbn. now rewrite !N.eqb_refl. Qed.

  Lemma g_write_other g x y c x' y' : (x', y') <> (x, y) -> gcell (g_write g x y c) x' y' = gcell g x' y'.
  Proof.
    intros H. unfold g_write. destruct (in_grid g x y); auto. cbn.
    destruct (N.eqb_spec x' x); destruct (N.eqb_spec y' y); cbn; auto. subst. congruence.
  Qed.

  Lemma g_write_outside g x y c : in_grid g x y = false -> g_write g x y c = g.
  Proof. intros H. unfold g_write. now rewrite H. Qed.

  (** the clamped origin lies in the grid (when the grid has a cell at all) *)
  Lemma clamp1_range v m : 1 <= m -> 1 <= clamp1 v m <= m.
  Proof.
    intros H. unfold clamp1. destruct (N.eqb_spec v 0); [lia|].
    destruct (N.leb_spec m v); lia.
  Qed.

  (** the effective fill area in closed form: a cell of the grid is filled iff it lies right of /
      below the clamped origin and within [width] x [height] of it *)
  Lemma in_fill_spec g x y w h cx cy :
    in_fill g x y w h cx cy = true <->
    clamp1 x (gw g) <= cx < clamp1 x (gw g) + w /\ cx <= gw g /\
    clamp1 y (gh g) <= cy < clamp1 y (gh g) + h /\ cy <= gh g.
  Proof.
    unfold in_fill. rewrite !andb_true_iff, !N.leb_le, !N.ltb_lt. tauto.
  Qed.

  Lemma in_fill_in_grid g x y w h cx cy :
    1 <= gw g -> 1 <= gh g -> in_fill g x y w h cx cy = true -> in_grid g cx cy = true.
  Proof.
    intros Hw Hh H. apply in_fill_spec in H.
    pose proof (clamp1_range x (gw g) Hw). pose proof (clamp1_range y (gh g) Hh).
    unfold in_grid. rewrite !andb_true_iff, !N.leb_le. lia.
  Qed.

  Lemma g_scroll_ignored g d n j : scroll_ok g n = false -> g_scroll g d n j = g.
  Proof. intros H. unfold g_scroll. now rewrite H. Qed.
End Grid.

Arguments grid : clear implicits.
