(** Model of kernel/device/video/console/vesa_fb.go: VesaFbConsole.{SetFont, SetLogo (its effect on
    the geometry: offsetY), Write -> write8/16/24, Fill -> fill8/16/24, Scroll, fbOffset,
    packColor16/24} over a framebuffer of bytes.  uint32 arithmetic with explicit wrap-around, the
    uint8/uint16 arithmetic of packColor, every slice access (framebuffer, font data, palette)
    bounds-checked ([Panic] = Go's run-time panic).  Definitions only. *)
From Coq Require Import NArith List Bool.
From FF Require Import Lib.Word Gen.Consts_device_video_console Console.Mem Console.Loop Console.Ops Console.Vga.
Import ListNotations.
Local Open Scope N_scope.

(** font.Font: the fields the driver reads.  [f_dat] is the content of [Data], [f_dlen] its length. *)
Record font := mkFont { f_gw : N; f_gh : N; f_bpr : N; f_dlen : N; f_dat : N -> N }.

(** multiboot.FramebufferRGBColorInfo *)
Record colorinfo := mkColorInfo { rpos : N; rsize : N; gpos : N; gsize : N; bpos : N; bsize : N }.

Record vesa := mkVesa {
  bpp : N; bytespp : N; cinfo : colorinfo;
  pw : N; ph : N;                      (* width, height in pixels *)
  offsetY : N; pitch : N;
  fnt : option font; wchars : N; hchars : N;
  pal_len : N; pal : N -> N * N * N    (* palette: [pal_len] entries (R,G,B), all set *)
}.

(** NewVesaFbConsole: [bytesPerPixel: uint32(bpp+1) >> 3] with [bpp] a uint8 *)
Definition new_vesa (w h bpp pitch : N) (ci : colorinfo) (plen : N) (p : N -> N * N * N) : vesa :=
  mkVesa bpp (N.shiftr (w8 (bpp + 1)) 3) ci w h 0 pitch None 0 0 plen p.

(** SetLogo(l), l != nil: besides drawing the logo, [cons.offsetY = l.Height] *)
Definition set_logo_height (c : vesa) (lh : N) : vesa :=
  mkVesa (bpp c) (bytespp c) (cinfo c) (pw c) (ph c) lh (pitch c) (fnt c) (wchars c) (hchars c) (pal_len c) (pal c).

(** SetFont(f), f != nil; [None] = integer division by zero (run-time panic) *)
Definition set_font (c : vesa) (f : font) : option vesa :=
  if (f_gw f =? 0) || (f_gh f =? 0) then None else
  Some (mkVesa (bpp c) (bytespp c) (cinfo c) (pw c) (ph c) (offsetY c) (pitch c) (Some f)
               (pw c / f_gw f) (sub32 (ph c) (offsetY c) / f_gh f) (pal_len c) (pal c)).

(** fbOffset: [((y + cons.offsetY) * cons.pitch) + (x * cons.bytesPerPixel)] *)
Definition fb_offset (c : vesa) (x y : N) : N :=
  add32 (mul32 (add32 y (offsetY c)) (pitch c)) (mul32 x (bytespp c)).

(** ---- colour packing ---- *)
(** [c.R >> (8 - size)]: uint8 value, uint8 count with wrap-around; a count >= 8 gives 0 *)
Definition comp8 (v size : N) : N := N.shiftr v (w8 (8 + two8 - size)).

Definition packed24 (ci : colorinfo) (rgb : N * N * N) : N :=
  let '(r, g, b) := rgb in
  N.lor (N.lor (w32 (N.shiftl (comp8 r (rsize ci)) (rpos ci)))
               (w32 (N.shiftl (comp8 g (gsize ci)) (gpos ci))))
        (w32 (N.shiftl (comp8 b (bsize ci)) (bpos ci))).

Definition packed16 (ci : colorinfo) (rgb : N * N * N) : N :=
  let '(r, g, b) := rgb in
  N.lor (N.lor (w16 (N.shiftl (comp8 r (rsize ci)) (rpos ci)))
               (w16 (N.shiftl (comp8 g (gsize ci)) (gpos ci))))
        (w16 (N.shiftl (comp8 b (bsize ci)) (bpos ci))).

Definition pack_color24 (c : vesa) (idx : N) : list N :=
  let p := packed24 (cinfo c) (pal c idx) in [w8 p; w8 (N.shiftr p 8); w8 (N.shiftr p 16)].

Definition pack_color16 (c : vesa) (idx : N) : list N :=
  let p := packed16 (cinfo c) (pal c idx) in [w8 p; w8 (N.shiftr p 8)].

(** which of write8/16/24 (fill8/16/24) the [switch cons.bpp] selects *)
Inductive depth := D8 | D16 | D24.

Definition depth_of (b : N) : option depth :=
  if b =? 8 then Some D8
  else if (b =? 15) || (b =? 16) then Some D16
  else if (b =? 24) || (b =? 32) then Some D24
  else None.

(** the bytes stored per pixel for palette entry [idx]; [None]: [cons.palette[idx]] out of range *)
Definition pixel_bytes (c : vesa) (d : depth) (idx : N) : option (list N) :=
  match d with
  | D8 => Some [idx]
  | D16 => if idx <? pal_len c then Some (pack_color16 c idx) else None
  | D24 => if idx <? pal_len c then Some (pack_color24 c idx) else None
  end.

(** write8/fill8 advance by 1, the others by [cons.bytesPerPixel] *)
Definition px_step (c : vesa) (d : depth) : N := match d with D8 => 1 | _ => bytespp c end.

(** ---- Write ---- *)
(** inner loop of write8/16/24:
    [for x = 0; x < GlyphWidth; x, fbOffset, mask = x+1, fbOffset+step, mask>>1]
    state = (memory, x, fbOffset, mask, fontOffset, fontRowData) *)
Definition wstate : Type := fbuf * N * N * N * N * N.
Definition wmem (s : wstate) : fbuf := let '(m, _, _, _, _, _) := s in m.

Definition write_px_step (f : font) (step : N) (fgb bgb : list N) (s : wstate) : sres wstate :=
  let '(m, x, off, mask, foff, row) := s in
  if x <? f_gw f then
    (* if mask == 0 { fontOffset++; fontRowData = Data[fontOffset]; mask = 1 << 7 } *)
    let foff' := if mask =? 0 then add32 foff 1 else foff in
    if (mask =? 0) && negb (foff' <? f_dlen f) then Fail s else
    let row' := if mask =? 0 then f_dat f foff' else row in
    let mask' := if mask =? 0 then 128 else mask in
    let bytes := if N.land row' mask' =? 0 then bgb else fgb in
    match store_seq m off 0 bytes with
    | (m', true) => Next (m', add32 x 1, add32 off step, N.shiftr mask' 1, foff', row')
    | (m', false) => Fail (m', x, off, mask', foff', row')
    end
  else Done s.

(** outer loop:
    [for y = 0; y < GlyphHeight; y, fbRowOffset, fontOffset = y+1, fbRowOffset+pitch, fontOffset+1]
    state = (memory, y, fbRowOffset, fontOffset) *)
Definition write_row_step (c : vesa) (f : font) (step : N) (fgb bgb : list N)
                          (s : fbuf * N * N * N) : sres (fbuf * N * N * N) :=
  let '(m, y, rowoff, foff) := s in
  if y <? f_gh f then
    if negb (foff <? f_dlen f) then Fail s else     (* fontRowData := Data[fontOffset] *)
    match whileP (write_px_step f step fgb bgb) fuel32 (m, 0, rowoff, 128, foff, f_dat f foff) with
    | Done (m', _, _, _, foff', _) => Next (m', add32 y 1, add32 rowoff (pitch c), add32 foff' 1)
    | Fail s' => Fail (wmem s', y, rowoff, foff)
    | Next s' | Fuel s' => Fuel (wmem s', y, rowoff, foff)
    end
  else Done s.

Definition vesa_write (c : vesa) (m : fbuf) (ch fg bg x y : N) : res :=
  match fnt c with
  | None => Ok m
  | Some f =>
    if (x <? 1) || (wchars c <? x) || (y <? 1) || (hchars c <? y) then Ok m else
    let pX := mul32 (sub32 x 1) (f_gw f) in
    let pY := mul32 (sub32 y 1) (f_gh f) in
    match depth_of (bpp c) with
    | None => Ok m
    | Some d =>
      let foff := mul32 (mul32 ch (f_bpr f)) (f_gh f) in
      let rowoff := fb_offset c pX pY in
      (* fgComp = packColor(fg); bgComp = packColor(bg): evaluated before the loops *)
      match pixel_bytes c d fg, pixel_bytes c d bg with
      | Some fgb, Some bgb =>
          res_of_loop (fun s => fst (fst (fst s)))
            (whileP (write_row_step c f (px_step c d) fgb bgb) fuel32 (m, 0, rowoff, foff))
      | _, _ => Panic m
      end
    end
  end.

(** ---- Fill ---- *)
(** fill8/16/24 are [Ops.fill_row_step] / [Ops.fill_px_step]:
    [for ; pH > 0; pH, fbRowOffset = pH-1, fbRowOffset+cons.pitch {
       for fbOffset := fbRowOffset; fbOffset < fbRowOffset+pW*step; fbOffset += step { fb[fbOffset..] = comp } }] *)
Definition vesa_fill (c : vesa) (m : fbuf) (x y width height fg bg : N) : res :=
  match fnt c with
  | None => Ok m
  | Some f =>
    let x := clamp_org x (wchars c) in
    let y := clamp_org y (hchars c) in
    let width := clip_ext width x (wchars c) in
    let height := clip_ext height y (hchars c) in
    let pX := mul32 (sub32 x 1) (f_gw f) in
    let pY := mul32 (sub32 y 1) (f_gh f) in
    let pW := mul32 width (f_gw f) in
    let pH := mul32 height (f_gh f) in
    match depth_of (bpp c) with
    | None => Ok m
    | Some d =>
      match pixel_bytes c d bg with
      | Some bytes =>
          res_of_loop (fun s => fst (fst s))
            (whileP (fill_row_step (pitch c) (mul32 pW (px_step c d)) (px_step c d) bytes) fuel32 (m, pH, fb_offset c pX pY))
      | None => Panic m
      end
    end
  end.

(** ---- Scroll (row by row: the bytes of the visible pixels only) ---- *)
(** up: [for rowOffset := startOffset; rowOffset < endOffset; rowOffset += cons.pitch {
           for i := rowOffset; i < rowOffset+rowBytes; i++ { fb[i] = fb[i+offset] } }]   state = (memory, rowOffset) *)
Definition scroll_up_row_step (c : vesa) (stop rowBytes offset : N) (s : fbuf * N) : sres (fbuf * N) :=
  let '(m, rowoff) := s in
  if rowoff <? stop then
    match whileP (copy_fwd_step (add32 rowoff rowBytes) (fun i => add32 i offset)) fuel32 (m, rowoff) with
    | Done (m', _) => Next (m', add32 rowoff (pitch c))
    | Fail (m', _) => Fail (m', rowoff)
    | Next (m', _) | Fuel (m', _) => Fuel (m', rowoff)
    end
  else Done s.

(** down: [for rowOffset := endOffset; rowOffset > startOffset; rowOffset -= cons.pitch {
           for i := rowOffset - cons.pitch; i < rowOffset-cons.pitch+rowBytes; i++ { fb[i] = fb[i-offset] } }] *)
Definition scroll_down_row_step (c : vesa) (start rowBytes offset : N) (s : fbuf * N) : sres (fbuf * N) :=
  let '(m, rowoff) := s in
  if start <? rowoff then
    let first := sub32 rowoff (pitch c) in
    match whileP (copy_fwd_step (add32 first rowBytes) (fun i => sub32 i offset)) fuel32 (m, first) with
    | Done (m', _) => Next (m', sub32 rowoff (pitch c))
    | Fail (m', _) => Fail (m', rowoff)
    | Next (m', _) | Fuel (m', _) => Fuel (m', rowoff)
    end
  else Done s.

Definition vesa_scroll (c : vesa) (m : fbuf) (dir lines : N) : res :=
  match fnt c with
  | None => Ok m
  | Some f =>
    if (lines =? 0) || (hchars c <? lines) then Ok m else
    let lpx := mul32 lines (f_gh f) in
    let offset := fb_offset c 0 (sub32 lpx (offsetY c)) in
    let rowBytes := mul32 (pw c) (bytespp c) in
    if dir =? console_ScrollDirUp then
      let start := fb_offset c 0 0 in
      let stop := fb_offset c 0 (sub32 (sub32 (ph c) lpx) (offsetY c)) in
      res_of_loop fst (whileP (scroll_up_row_step c stop rowBytes offset) fuel32 (m, start))
    else if dir =? console_ScrollDirDown then
      let start := fb_offset c 0 lpx in
      let stop := fb_offset c 0 (sub32 (ph c) (offsetY c)) in
      res_of_loop fst (whileP (scroll_down_row_step c start rowBytes offset) fuel32 (m, stop))
    else Ok m
  end.

(** SetPaletteColor(idx, rgb): the palette entry changes (the repainting of pixels that showed the old
    colour, replace16/24, is not modelled: the harness undoes it) *)
Definition set_palette (c : vesa) (idx : N) (rgb : N * N * N) : vesa :=
  mkVesa (bpp c) (bytespp c) (cinfo c) (pw c) (ph c) (offsetY c) (pitch c) (fnt c) (wchars c) (hchars c)
         (pal_len c) (fun i => if i =? idx then rgb else pal c i).

(** ---- flat interface for the correspondence driver ----
    ops: 0 ch fg bg x y = Write | 1 x y width height fg bg = Fill | 2 dir lines = Scroll |
         3 = SetFont with the font already set | 4 = SetLogo with the logo already set (its drawing undone) |
         5 idx r g b = SetPaletteColor (its repainting undone).  3 and 4 leave the console as it is;
    the observation of 3, 4, 5 is the status only. *)
Fixpoint vesa_run (fuel : nat) (c : vesa) (m : fbuf) (l : list N) : list N :=
  match fuel with O => [] | S fuel =>
  match l with
  | 0 :: ch :: fg :: bg :: x :: y :: rest =>
      let r := vesa_write c m ch fg bg x y in
      status_of r :: dump (res_mem r) ++ vesa_run fuel c (res_mem r) rest
  | 1 :: x :: y :: w :: h :: fg :: bg :: rest =>
      let r := vesa_fill c m x y w h fg bg in
      status_of r :: dump (res_mem r) ++ vesa_run fuel c (res_mem r) rest
  | 2 :: dir :: lines :: rest =>
      let r := vesa_scroll c m dir lines in
      status_of r :: dump (res_mem r) ++ vesa_run fuel c (res_mem r) rest
  | 3 :: rest => 0 :: vesa_run fuel c m rest
  | 4 :: rest => 0 :: vesa_run fuel c m rest
  | 5 :: idx :: r :: g :: b :: rest => 0 :: vesa_run fuel (set_palette c idx (r, g, b)) m rest
  | _ => []
  end end.

Definition nth_font (k : N) : option font :=
  match nth_error console_font_table (N.to_nat k) with
  | Some (gw, gh, bpr, data) => Some (mkFont gw gh bpr (N.of_nat (length data)) (fun i => nth (N.to_nat i) data 0))
  | None => None
  end.

(** case = W H bpp pitch rpos rsize gpos gsize bpos bsize logoH fontKind gw gh bpr fseed pseed seed ops
    fontKind: 0 = synthetic font (256 glyphs, byte i of Data = mix fseed i mod 256),
              k = 1.. = shipped font number k-1 of the generated table, 255 = no font set.
    logoH > 0: SetLogo with a logo of that height was called before SetFont.
    palette entry i = (mix pseed 3i, mix pseed (3i+1), mix pseed (3i+2)) mod 256, 256 entries;
    the buffer has H*pitch bytes, byte i initially mix seed i mod 256.
    A SetFont that panics gives the single observation 9. *)
Definition vesa_run_case (l : list N) : list N :=
  match l with
  | w :: h :: bpp :: pitch :: rp :: rs :: gp :: gs :: bp :: bs :: logoh :: fkind :: gw :: gh :: bpr :: fseed :: pseed :: seed :: ops =>
      let p := fun i => (w8 (mix pseed (i * 3)), w8 (mix pseed (i * 3 + 1)), w8 (mix pseed (i * 3 + 2))) in
      let c0 := new_vesa w h bpp pitch (mkColorInfo rp rs gp gs bp bs) 256 p in
      let c1 := if logoh =? 0 then c0 else set_logo_height c0 logoh in
      let fo := if fkind =? 0 then Some (mkFont gw gh bpr (256 * bpr * gh) (fun i => w8 (mix fseed i)))
                else if fkind =? 255 then None
                else nth_font (fkind - 1) in
      let m := fresh (h * pitch) (fun i => w8 (mix seed i)) in
      match fo with
      | None => vesa_run (length ops) c1 m ops
      | Some f =>
          match set_font c1 f with
          | Some c2 => vesa_run (length ops) c2 m ops
          | None => [9]
          end
      end
  | _ => []
  end.
