(** Fill of the framebuffer console equals the reference painter (Console/VesaSpec.v). *)
From Coq Require Import NArith ZArith PArith Arith Bool List Lia.
From Coq Require Import ZifyBool ZifyN ZifyNat.
From FF Require Import Lib.Word Gen.Consts_device_video_console.
From FF Require Import Console.Mem Console.MemProofs Console.Loop Console.LoopProofs Console.Ops Console.OpsProofs.
From FF Require Import Console.Grid Console.Vga Console.VgaProofs Console.Vesa Console.VesaSpec Console.VesaProofs.
Import ListNotations.
Local Open Scope N_scope.
Ltac Zify.zify_post_hook ::= Z.div_mod_to_equations.

Lemma div_le_iff g a X : 1 <= g -> (a * g <= X <-> a <= X / g).
Proof.
  intros Hg. assert (Hg0: g <> 0) by lia. pose proof (N.mul_div_le X g Hg0) as Hle. split; intros H.
  - apply N.div_le_lower_bound; lia.
  - assert (a * g <= X / g * g) by (apply N.mul_le_mono_r; lia). lia.
Qed.

Lemma div_lt_iff g a X : 1 <= g -> (X < a * g <-> X / g < a).
Proof. intros Hg. pose proof (div_le_iff g a X Hg). lia. Qed.

(** decomposition of a framebuffer index *)
Lemma index_coord c f d m i : vesa_wf c f d m ->
  i = (i / pitch c) * pitch c + i mod pitch c /\ i mod pitch c < pitch c.
Proof.
  intros W. pose proof (geometry c f d m W) as [_ [_ [G3 _]]].
  pose proof (N.div_mod i (pitch c) ltac:(lia)). pose proof (N.mod_lt i (pitch c) ltac:(lia)). lia.
Qed.

(** byte column <-> pixel column and component, for the four pixel sizes *)
Lemma px_range s A B b : step_ok s ->
  (A * s <=? b) && (b <? A * s + B * s) = (A <=? b / s) && (b / s <? A + B).
Proof. intros Hs. unfold step_ok in Hs. destruct Hs as [-> | [-> | [-> | ->]]]; lia. Qed.

Lemma px_comp s A b : step_ok s -> A * s <= b -> (b - A * s) mod s = b mod s.
Proof. intros Hs. unfold step_ok in Hs. destruct Hs as [-> | [-> | [-> | ->]]]; lia. Qed.

Lemma px_before s A b : step_ok s -> b < A * s -> b / s < A.
Proof. intros Hs. unfold step_ok in Hs. destruct Hs as [-> | [-> | [-> | ->]]]; lia. Qed.

(** clipping at the edge, cell-wise: q is the 0-based cell coordinate *)
Lemma clip_cells x0 width wc q :
  1 <= x0 <= wc ->
  (q <? x0 - 1 + N.min width (wc - x0 + 1)) = (q + 1 <? x0 + width) && (q + 1 <=? wc).
Proof. intros H. lia. Qed.

(** cell coordinates of a pixel: the four elementary facts relating the pixel rectangle of a
    clamped/clipped cell rectangle to [in_fill] *)
Lemma cell_lo g x0 X : 1 <= g -> 1 <= x0 -> ((x0 - 1) * g <=? X) = (x0 <=? X / g + 1).
Proof.
  intros Hg Hx. pose proof (div_le_iff g (x0 - 1) X Hg) as D.
  apply Bool.eq_iff_eq_true. rewrite !N.leb_le. lia.
Qed.

Lemma cell_hi g x0 width wc X :
  1 <= g -> 1 <= x0 <= wc ->
  (X <? (x0 - 1) * g + N.min width (wc - x0 + 1) * g) = (X / g + 1 <? x0 + width) && (X / g + 1 <=? wc).
Proof.
  intros Hg Hx. rewrite <- N.mul_add_distr_r.
  pose proof (div_lt_iff g (x0 - 1 + N.min width (wc - x0 + 1)) X Hg) as D.
  rewrite <- clip_cells by assumption.
  apply Bool.eq_iff_eq_true. rewrite !N.ltb_lt. exact D.
Qed.

Lemma vesa_fill_spec c f d m x y width height fg bg :
  vesa_wf c f d m -> bg < 256 ->
  exists m' bgb, pixel_bytes c d bg = Some bgb /\
    vesa_fill c m x y width height fg bg = Ok m' /\ flen m' = flen m /\
    forall i, load m' i = fill_ref c f d m x y width height bgb i.
Proof.
  intros W Hbg.
  destruct (vesa_fill_coord c f d m x y width height fg bg W Hbg) as [m' [bgb [P1 [P2 [P3 [P4 P5]]]]]].
  exists m', bgb. repeat split; auto. intros i.
  destruct (index_coord c f d m i W) as [Hi Hb].
  pose proof (geometry c f d m W) as [G1 [G2 [G3 [G4 [G5 [G6 [G7 [G8 [G9 [G10 [G11 G12]]]]]]]]]]].
  pose proof (wf_w1 _ _ _ _ W) as Hw1. pose proof (wf_h1 _ _ _ _ W) as Hh1.
  pose proof (wf_gw _ _ _ _ W) as Hgw. pose proof (wf_gh _ _ _ _ W) as Hgh.
  pose proof (clamp1_range x (wchars c) Hw1) as Hx. pose proof (clamp1_range y (hchars c) Hh1) as Hy.
  assert (Hs: step_ok (bytespp c)) by apply (step_ok_bytespp c f d m W).
  unfold fill_ref, place_of.
  set (Y := i / pitch c) in *. set (b := i mod pitch c) in *.
  rewrite Hi at 1. rewrite P5 by assumption. clear P5. rewrite <- Hi.
  set (x0 := clamp1 x (wchars c)) in *. set (y0 := clamp1 y (hchars c)) in *.
  set (s := bytespp c) in *.
  assert (HA: (x0 - 1) * f_gw f + N.min width (wchars c - x0 + 1) * f_gw f <= wchars c * f_gw f).
  { rewrite <- N.mul_add_distr_r. apply N.mul_le_mono_r. lia. }
  assert (HC: (y0 - 1) * f_gh f + N.min height (hchars c - y0 + 1) * f_gh f <= hchars c * f_gh f).
  { rewrite <- N.mul_add_distr_r. apply N.mul_le_mono_r. lia. }
  rewrite <- (andb_assoc _ ((x0 - 1) * f_gw f * s <=? b) _), px_range by assumption.
  (* padding bytes *)
  destruct (N.ltb_spec b (pw c * s)) as [Hvis|Hpad].
  2:{ assert (HX: pw c <= b / s).
      { clear - Hpad Hs. unfold step_ok in Hs. destruct Hs as [-> | [-> | [-> | ->]]]; lia. }
      replace (b / s <? (x0 - 1) * f_gw f + N.min width (wchars c - x0 + 1) * f_gw f) with false
        by (symmetry; apply N.ltb_ge; lia).
      rewrite ?andb_false_r. reflexivity. }
  unfold cell_of, in_fill. cbn [vesa_dims gw gh]. fold x0 y0.
  set (X := b / s) in *.
  destruct (N.le_gt_cases ((x0 - 1) * f_gw f * s) b) as [Hab|Hab].
  2:{ (* left of the rectangle *)
      pose proof (px_before s _ b Hs Hab) as HX. fold X in HX.
      replace ((x0 - 1) * f_gw f <=? X) with false by (symmetry; apply N.leb_gt; lia).
      rewrite ?andb_false_r. cbn [andb].
      destruct ((X <? wchars c * f_gw f) && (offsetY c <=? Y) && (Y <? offsetY c + hchars c * f_gh f)); auto.
      assert (E: (x0 <=? X / f_gw f + 1) = false).
      { rewrite <- (cell_lo (f_gw f)) by lia. apply N.leb_gt. lia. }
      rewrite E. cbn [andb]. reflexivity. }
  rewrite px_comp by assumption. fold X.
  rewrite (cell_lo (f_gw f) x0 X) by lia.
  rewrite (cell_hi (f_gw f) x0 width (wchars c) X) by lia.
  destruct (N.ltb_spec X (wchars c * f_gw f)) as [HXw|HXw].
  2:{ (* right margin *)
      assert (E: (X / f_gw f + 1 <=? wchars c) = false).
      { apply N.leb_gt. pose proof (div_lt_iff (f_gw f) (wchars c) X ltac:(lia)). lia. }
      rewrite E, ?andb_false_r. cbn [andb]. reflexivity. }
  destruct (N.leb_spec (offsetY c) Y) as [HYo|HYo].
  2:{ (* logo rows *)
      replace ((y0 - 1) * f_gh f + offsetY c <=? Y) with false by (symmetry; apply N.leb_gt; clear - HYo; nia).
      cbn [andb]. reflexivity. }
  destruct (N.ltb_spec Y (offsetY c + hchars c * f_gh f)) as [HYh|HYh].
  2:{ (* below the grid *)
      replace (Y <? (y0 - 1) * f_gh f + offsetY c + N.min height (hchars c - y0 + 1) * f_gh f) with false
        by (symmetry; apply N.ltb_ge; clear - HYh HC; lia).
      rewrite ?andb_false_r. cbn [andb]. reflexivity. }
  cbn [andb].
  (* a pixel of the text grid *)
  replace ((y0 - 1) * f_gh f + offsetY c <=? Y) with ((y0 - 1) * f_gh f <=? Y - offsetY c)
    by (apply Bool.eq_iff_eq_true; rewrite !N.leb_le; clear - HYo; lia).
  replace (Y <? (y0 - 1) * f_gh f + offsetY c + N.min height (hchars c - y0 + 1) * f_gh f)
    with (Y - offsetY c <? (y0 - 1) * f_gh f + N.min height (hchars c - y0 + 1) * f_gh f)
    by (apply Bool.eq_iff_eq_true; rewrite !N.ltb_lt; clear - HYo; lia).
  rewrite (cell_lo (f_gh f) y0 (Y - offsetY c)) by lia.
  rewrite (cell_hi (f_gh f) y0 height (hchars c) (Y - offsetY c)) by lia.
  match goal with |- (if ?p then _ else _) = (if ?q then _ else _) => replace q with p; [reflexivity|] end.
  destruct (x0 <=? X / f_gw f + 1), (X / f_gw f + 1 <? x0 + width), (X / f_gw f + 1 <=? wchars c),
    (y0 <=? (Y - offsetY c) / f_gh f + 1), ((Y - offsetY c) / f_gh f + 1 <? y0 + height),
    ((Y - offsetY c) / f_gh f + 1 <=? hchars c), (b mod s <? ncomp d); reflexivity.
Qed.
