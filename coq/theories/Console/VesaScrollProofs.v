(** Scroll of the framebuffer console equals the reference painter (Console/VesaSpec.v). *)
From Coq Require Import NArith ZArith PArith Arith Bool List Lia.
From Coq Require Import ZifyBool ZifyN ZifyNat.
From FF Require Import Lib.Word Gen.Consts_device_video_console.
From FF Require Import Console.Mem Console.MemProofs Console.Loop Console.LoopProofs Console.Ops Console.OpsProofs.
From FF Require Import Console.Grid Console.Vga Console.VgaProofs Console.Vesa Console.VesaSpec Console.VesaProofs Console.VesaFillProofs.
Import ListNotations.
Local Open Scope N_scope.
Ltac Zify.zify_post_hook ::= Z.div_mod_to_equations.

Lemma add32_sub32 a b : a < two32 -> b < two32 -> add32 (sub32 a b) b = a.
Proof. intros Ha Hb. unfold add32, sub32, w32, two32 in *. lia. Qed.

Lemma fb_offset_0 c y : fb_offset c 0 y = mul32 (add32 y (offsetY c)) (pitch c).
Proof.
  unfold fb_offset, add32, mul32, w32. rewrite N.mul_0_l, N.mod_0_l, N.add_0_r by discriminate.
  apply N.mod_mod. discriminate.
Qed.

(** rows [Ys, Ys+R) receive the first [rb] bytes of the rows [D] further down, top to bottom *)
Lemma scroll_up_rows c m Ys R D rb :
  1 <= pitch c -> rb <= pitch c -> 1 <= D ->
  (Ys + R + D) * pitch c <= flen m -> flen m < two32 ->
  exists m', whileP (scroll_up_row_step c ((Ys + R) * pitch c) rb (D * pitch c)) fuel32 (m, Ys * pitch c)
             = Done (m', (Ys + R) * pitch c) /\
    flen m' = flen m /\
    forall Y b, b < pitch c ->
      load m' (Y * pitch c + b) =
        if (Ys <=? Y) && (Y <? Ys + R) && (b <? rb) then load m ((Y + D) * pitch c + b) else load m (Y * pitch c + b).
Proof.
  intros HP Hrb HD Hfit Hlen. set (P := pitch c) in *.
  pose (Inv := fun (j : nat) (st : fbuf * N) =>
    snd st = (Ys + N.of_nat j) * P /\ flen (fst st) = flen m /\
    forall Y b, b < P ->
      load (fst st) (Y * P + b) =
        if (Ys <=? Y) && (Y <? Ys + N.of_nat j) && (b <? rb) then load m ((Y + D) * P + b) else load m (Y * P + b)).
  assert (HR: R < two32).
  { assert (R * 1 <= R * P) by (apply N.mul_le_mono_l; lia).
    assert (R * P <= (Ys + R + D) * P) by (apply N.mul_le_mono_r; lia). lia. }
  destruct (whileP_inv (scroll_up_row_step c ((Ys + R) * P) rb (D * P)) Inv R (m, Ys * P)) as [[m' ro'] [E [I1 [I2 I3]]]].
  - lia.
  - unfold Inv. cbn [fst snd]. repeat split; try lia. intros Y b Hb.
    replace (Y <? Ys + N.of_nat 0) with (Y <? Ys) by (f_equal; lia).
    destruct (N.leb_spec Ys Y); destruct (N.ltb_spec Y Ys); try lia; reflexivity.
  - intros j [mj ro] Hj [I1 [I2 I3]]. cbn [fst snd] in *. subst ro.
    assert (Hj': N.of_nat j < R) by lia.
    unfold scroll_up_row_step. fold P.
    assert (Hmono: (Ys + N.of_nat j + 1) * P <= (Ys + R) * P) by (apply N.mul_le_mono_r; lia).
    assert (Hmono2: (Ys + R) * P + D * P <= flen m) by (rewrite <- N.mul_add_distr_r; exact Hfit).
    assert (Hlt: (Ys + N.of_nat j) * P <? (Ys + R) * P = true) by (apply N.ltb_lt; lia). rewrite Hlt.
    assert (HDP: 1 * P <= D * P) by (apply N.mul_le_mono_r; lia).
    destruct (copy_span (fun i => add32 i (D * P)) rb mj ((Ys + N.of_nat j) * P)) as [m2 [S1 [S2 S3]]]; try lia.
    { intros i Hi. rewrite add32_small by lia. lia. }
    rewrite S1. eexists. split; [reflexivity|]. unfold Inv. cbn [fst snd].
    rewrite add32_small by lia. repeat split; try lia.
    intros Y b Hb. rewrite S3. rewrite Nat2N.inj_succ.
    pose proof (span_coord P Y b (Ys + N.of_nat j) 0 rb Hb ltac:(lia)) as SC. rewrite !N.add_0_r in SC.
    destruct (N.eq_dec Y (Ys + N.of_nat j)) as [Heq|Hne].
    + subst Y. destruct (N.ltb_spec b rb) as [Hbr|Hbr].
      * replace (((Ys + N.of_nat j) * P <=? (Ys + N.of_nat j) * P + b) && ((Ys + N.of_nat j) * P + b <? (Ys + N.of_nat j) * P + rb)) with true
          by (symmetry; apply andb_true_iff; split; [apply N.leb_le|apply N.ltb_lt]; lia).
        rewrite add32_small by lia.
        replace ((Ys + N.of_nat j) * P + b + D * P) with ((Ys + N.of_nat j + D) * P + b) by lia.
        rewrite I3 by assumption.
        replace (Ys + N.of_nat j + D <? Ys + N.of_nat j) with false by (symmetry; apply N.ltb_ge; lia).
        replace (Ys <=? Ys + N.of_nat j) with true by (symmetry; apply N.leb_le; lia).
        replace (Ys + N.of_nat j <? Ys + N.succ (N.of_nat j)) with true by (symmetry; apply N.ltb_lt; lia).
        rewrite ?andb_false_r. reflexivity.
      * replace ((Ys + N.of_nat j) * P + b <? (Ys + N.of_nat j) * P + rb) with false by (symmetry; apply N.ltb_ge; lia).
        rewrite !andb_false_r. rewrite I3 by assumption.
        replace (b <? rb) with false by (symmetry; apply N.ltb_ge; lia). rewrite !andb_false_r. reflexivity.
    + assert (F: ((Ys + N.of_nat j) * P <=? Y * P + b) && (Y * P + b <? (Ys + N.of_nat j) * P + rb) = false).
      { apply andb_false_iff. destruct (N.leb_spec ((Ys + N.of_nat j) * P) (Y * P + b)); auto.
        right. apply N.ltb_ge. destruct (N.le_gt_cases ((Ys + N.of_nat j) * P + rb) (Y * P + b)); auto.
        exfalso. apply Hne. apply SC. lia. }
      rewrite F, I3 by assumption.
      replace (Y <? Ys + N.succ (N.of_nat j)) with (Y <? Ys + N.of_nat j); auto.
      destruct (N.ltb_spec Y (Ys + N.of_nat j)); symmetry; [apply N.ltb_lt|apply N.ltb_ge]; lia.
  - intros [mj ro] [I1 _]. cbn [fst snd] in *. unfold scroll_up_row_step. rewrite N2Nat.id in I1. subst ro.
    fold P. rewrite N.ltb_irrefl. reflexivity.
  - cbn [fst snd] in *. rewrite N2Nat.id in *. subst ro'. exists m'. rewrite E. repeat split; auto.
Qed.

(** rows [Ys, Ys+R) receive the first [rb] bytes of the rows [D] further up, bottom to top *)
Lemma scroll_down_rows c m Ys R D rb :
  1 <= pitch c -> rb <= pitch c -> 1 <= D -> D <= Ys ->
  (Ys + R) * pitch c <= flen m -> flen m < two32 ->
  exists m', whileP (scroll_down_row_step c (Ys * pitch c) rb (D * pitch c)) fuel32 (m, (Ys + R) * pitch c)
             = Done (m', Ys * pitch c) /\
    flen m' = flen m /\
    forall Y b, b < pitch c ->
      load m' (Y * pitch c + b) =
        if (Ys <=? Y) && (Y <? Ys + R) && (b <? rb) then load m ((Y - D) * pitch c + b) else load m (Y * pitch c + b).
Proof.
  intros HP Hrb HD HDY Hfit Hlen. set (P := pitch c) in *.
  pose (Inv := fun (j : nat) (st : fbuf * N) =>
    snd st = (Ys + R - N.of_nat j) * P /\ flen (fst st) = flen m /\
    forall Y b, b < P ->
      load (fst st) (Y * P + b) =
        if (Ys + R - N.of_nat j <=? Y) && (Y <? Ys + R) && (b <? rb) then load m ((Y - D) * P + b) else load m (Y * P + b)).
  assert (HR: R < two32).
  { assert (R * 1 <= R * P) by (apply N.mul_le_mono_l; lia).
    assert (R * P <= (Ys + R) * P) by (apply N.mul_le_mono_r; lia). lia. }
  destruct (whileP_inv (scroll_down_row_step c (Ys * P) rb (D * P)) Inv R (m, (Ys + R) * P)) as [[m' ro'] [E [I1 [I2 I3]]]].
  - lia.
  - unfold Inv. cbn [fst snd]. repeat split; try (f_equal; lia). intros Y b Hb.
    replace (Ys + R - N.of_nat 0 <=? Y) with (Ys + R <=? Y) by (f_equal; lia).
    destruct (N.leb_spec (Ys + R) Y); destruct (N.ltb_spec Y (Ys + R)); try lia; reflexivity.
  - intros j [mj ro] Hj [I1 [I2 I3]]. cbn [fst snd] in *. subst ro.
    assert (Hj': N.of_nat j < R) by lia.
    set (T := Ys + R - N.of_nat j) in *.
    assert (HT: Ys + 1 <= T <= Ys + R) by (subst T; lia).
    unfold scroll_down_row_step. fold P.
    assert (Hm1: (Ys + 1) * P <= T * P) by (apply N.mul_le_mono_r; lia).
    assert (Hm2: T * P <= (Ys + R) * P) by (apply N.mul_le_mono_r; lia).
    assert (Hm3: (T - 1) * P + P = T * P) by (replace T with (T - 1 + 1) at 2 by lia; lia).
    assert (HDP: 1 * P <= D * P) by (apply N.mul_le_mono_r; lia).
    assert (HDT: D * P <= (T - 1) * P) by (apply N.mul_le_mono_r; lia).
    assert (Hlt: Ys * P <? T * P = true) by (apply N.ltb_lt; lia). rewrite Hlt.
    rewrite sub32_small by lia. replace (T * P - P) with ((T - 1) * P) by lia.
    destruct (copy_span (fun i => sub32 i (D * P)) rb mj ((T - 1) * P)) as [m2 [S1 [S2 S3]]]; try lia.
    { intros i Hi. rewrite sub32_small by lia. lia. }
    rewrite S1. eexists. split; [reflexivity|]. unfold Inv. cbn [fst snd].
    rewrite Nat2N.inj_succ. replace (Ys + R - N.succ (N.of_nat j)) with (T - 1) by lia.
    repeat split; try lia.
    intros Y b Hb. rewrite S3.
    pose proof (span_coord P Y b (T - 1) 0 rb Hb ltac:(lia)) as SC. rewrite !N.add_0_r in SC.
    destruct (N.eq_dec Y (T - 1)) as [Heq|Hne].
    + subst Y. destruct (N.lt_ge_cases b rb) as [Hbr|Hbr].
      * replace (((T - 1) * P <=? (T - 1) * P + b) && ((T - 1) * P + b <? (T - 1) * P + rb)) with true
          by (symmetry; apply andb_true_iff; split; [apply N.leb_le|apply N.ltb_lt]; lia).
        rewrite sub32_small by lia.
        assert (HDm: (T - 1 - D) * P + D * P = (T - 1) * P) by (rewrite <- N.mul_add_distr_r; f_equal; lia).
        replace ((T - 1) * P + b - D * P) with ((T - 1 - D) * P + b) by lia.
        rewrite I3 by assumption.
        replace (T <=? T - 1 - D) with false by (symmetry; apply N.leb_gt; lia).
        replace (T - 1 <=? T - 1) with true by (symmetry; apply N.leb_le; lia).
        replace (T - 1 <? Ys + R) with true by (symmetry; apply N.ltb_lt; lia).
        replace (b <? rb) with true by (symmetry; apply N.ltb_lt; lia).
        reflexivity.
      * replace ((T - 1) * P + b <? (T - 1) * P + rb) with false by (symmetry; apply N.ltb_ge; lia).
        rewrite !andb_false_r. rewrite I3 by assumption.
        replace (b <? rb) with false by (symmetry; apply N.ltb_ge; lia). rewrite !andb_false_r. reflexivity.
    + assert (F: ((T - 1) * P <=? Y * P + b) && (Y * P + b <? (T - 1) * P + rb) = false).
      { apply andb_false_iff. destruct (N.leb_spec ((T - 1) * P) (Y * P + b)); auto.
        right. apply N.ltb_ge. destruct (N.le_gt_cases ((T - 1) * P + rb) (Y * P + b)); auto.
        exfalso. apply Hne. apply SC. lia. }
      rewrite F, I3 by assumption.
      replace (T - 1 <=? Y) with (T <=? Y); auto.
      destruct (N.leb_spec T Y); symmetry; [apply N.leb_le|apply N.leb_gt]; lia.
  - intros [mj ro] [I1 _]. cbn [fst snd] in *. unfold scroll_down_row_step. rewrite N2Nat.id in I1. subst ro.
    fold P. replace (Ys + R - R) with Ys by lia. rewrite N.ltb_irrefl. reflexivity.
  - cbn [fst snd] in *. rewrite N2Nat.id in *. replace (Ys + R - R) with Ys in * by lia.
    subst ro'. exists m'. rewrite E. repeat split; auto.
Qed.

Lemma vesa_scroll_spec c f d m dir lines :
  vesa_wf c f d m -> lines < two32 ->
  exists m', vesa_scroll c m dir lines = Ok m' /\ flen m' = flen m /\
    forall i, load m' i =
      match dir_of dir with
      | Some sd => if scroll_ok (vesa_dims c) lines then scroll_ref c f m sd lines i else load m i
      | None => load m i
      end.
Proof.
  intros W Hl.
  pose proof (geometry c f d m W) as [G1 [G2 [G3 [G4 [G5 [G6 [G7 [G8 [G9 [G10 [G11 G12]]]]]]]]]]].
  pose proof (wf_gh _ _ _ _ W) as Hgh. pose proof (wf_pitch _ _ _ _ W) as Hpitch.
  pose proof (wf_size _ _ _ _ W) as Hsize. pose proof (wf_flen _ _ _ _ W) as Hflen.
  pose proof (wf_offsetY _ _ _ _ W) as HoY.
  unfold vesa_scroll, scroll_ok. cbn [vesa_dims gh]. rewrite (wf_font _ _ _ _ W).
  destruct ((lines =? 0) || (hchars c <? lines)) eqn:G.
  { exists m. repeat split; auto. intros i.
    replace ((1 <=? lines) && (lines <=? hchars c)) with false by (symmetry; clear - G; lia).
    destruct (dir_of dir); auto. }
  assert (Hr: 1 <= lines <= hchars c) by (clear - G; lia).
  replace ((1 <=? lines) && (lines <=? hchars c)) with true by (symmetry; clear - Hr; lia).
  cbv zeta.
  assert (HL: lines * f_gh f <= hchars c * f_gh f) by (apply N.mul_le_mono_r; lia).
  assert (HL1: 1 * 1 <= lines * f_gh f) by (apply N.mul_le_mono; lia).
  set (L := lines * f_gh f) in *.
  rewrite (mul32_small lines) by (fold L; lia). fold L.
  rewrite !fb_offset_0.
  assert (HLP: L * pitch c <= ph c * pitch c) by (apply N.mul_le_mono_r; lia).
  rewrite (add32_sub32 L) by lia. rewrite (mul32_small L) by lia.
  rewrite (mul32_small (pw c)) by lia.
  set (P := pitch c) in *. set (s := bytespp c) in *.
  assert (HoP: offsetY c * P <= ph c * P) by (apply N.mul_le_mono_r; lia).
  unfold dir_of. destruct (dir =? console_ScrollDirUp) eqn:Du.
  - (* up *)
    rewrite (sub32_small (ph c)) by lia. rewrite (add32_sub32 (ph c - L)) by lia.
    rewrite (add32_small 0) by lia. rewrite N.add_0_l.
    assert (HsP: (ph c - L) * P <= ph c * P) by (apply N.mul_le_mono_r; lia).
    rewrite !mul32_small by lia.
    replace (ph c - L) with (offsetY c + (ph c - L - offsetY c)) by lia.
    destruct (scroll_up_rows c m (offsetY c) (ph c - L - offsetY c) L (pw c * s)) as [m' [E [E1 E2]]]; fold P; try lia.
    { replace (offsetY c + (ph c - L - offsetY c) + L) with (ph c) by lia. lia. }
    fold P in E, E2. rewrite E. exists m'. repeat split; auto.
    intros i. destruct (index_coord c f d m i W) as [Hi Hb]. fold P in Hi, Hb.
    unfold scroll_ref. cbv zeta. fold P s L.
    set (Y := i / P) in *. set (b := i mod P) in *.
    rewrite Hi at 1. rewrite E2 by assumption. rewrite <- Hi.
    destruct (N.ltb_spec b (pw c * s)); rewrite ?andb_false_r, ?andb_true_r; auto.
    replace (Y <? offsetY c + (ph c - L - offsetY c)) with (Y + L <? ph c); auto.
    apply Bool.eq_iff_eq_true. rewrite !N.ltb_lt. clear - G2 HL. lia.
  - destruct (dir =? console_ScrollDirDown) eqn:Dd.
    + (* down *)
      rewrite (add32_sub32 (ph c)) by lia. rewrite (add32_small L) by lia.
      assert (HsP2: (L + offsetY c) * P <= ph c * P) by (apply N.mul_le_mono_r; lia).
      rewrite !mul32_small by lia.
      replace (ph c * P) with ((L + offsetY c + (ph c - offsetY c - L)) * P) by (f_equal; lia).
      destruct (scroll_down_rows c m (L + offsetY c) (ph c - offsetY c - L) L (pw c * s)) as [m' [E [E1 E2]]]; fold P; try lia.
      fold P in E, E2. rewrite E. exists m'. repeat split; auto.
      intros i. destruct (index_coord c f d m i W) as [Hi Hb]. fold P in Hi, Hb.
      unfold scroll_ref. cbv zeta. fold P s L.
      set (Y := i / P) in *. set (b := i mod P) in *.
      rewrite Hi at 1. rewrite E2 by assumption. rewrite <- Hi.
      destruct (N.ltb_spec b (pw c * s)); rewrite ?andb_false_r, ?andb_true_r; auto.
      replace (L + offsetY c <=? Y) with (offsetY c + L <=? Y) by (f_equal; lia).
      replace (Y <? L + offsetY c + (ph c - offsetY c - L)) with (Y <? ph c); auto.
      f_equal. clear - G2 HL. lia.
    + exists m. repeat split; auto.
Qed.
