(** Go [for] loops of the console drivers as a fuelled while-combinator.  The fuel is a binary
    number (no data-sized [nat]); evaluation stops as soon as the body exits or panics, so a
    loop that would run 2^32 times but panics in its first iteration costs one iteration in the
    extracted model. *)
From Coq Require Import NArith PArith.

(** one evaluation of "condition; body; post statement" *)
Inductive sres (S : Type) :=
| Next (s : S)     (* condition held, body and post statement done: go round again *)
| Done (s : S)     (* condition false: normal loop exit *)
| Fail (s : S)     (* the body panicked *)
| Fuel (s : S).    (* a loop nested in the body ran out of fuel *)
Arguments Next {S}. Arguments Done {S}. Arguments Fail {S}. Arguments Fuel {S}.

Section While.
  Context {S : Type}.
  Variable step : S -> sres S.

  (** at most [p] iterations; [Next s] = fuel exhausted in state [s] *)
  Fixpoint whileP (p : positive) (s : S) : sres S :=
    match p with
    | xH => step s
    | xO q => match whileP q s with Next s' => whileP q s' | r => r end
    | xI q => match step s with
              | Next s' => match whileP q s' with Next s'' => whileP q s'' | r => r end
              | r => r
              end
    end.

  (** reference: the same with unary fuel (used in proofs only) *)
  Fixpoint while_nat (n : nat) (s : S) : sres S :=
    match n with
    | O => Next s
    | Datatypes.S n => match step s with Next s' => while_nat n s' | r => r end
    end.
End While.

(** More iterations than any loop over 32-bit counters can make without repeating a state of
    its counter. *)
Definition fuel32 : positive := 0x200000000%positive.
