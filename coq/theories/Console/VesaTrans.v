(** The hand-written model of the VESA framebuffer console (Console/Vesa.v: [fb_offset], [pack_color16/24],
    [vesa_fill], [vesa_scroll], [vesa_write]) IS the Gallina translation that gen/gotrans regenerates from
    kernel/device/video/console/vesa_fb.go on every run (Gen/Trans_console_vesa.v).

    The translation's record has the fields of VesaFbConsole (fb = the []uint8 framebuffer as a list; colorInfo and
    font as "is non-nil"; palette as the list of its RGBA entries); what the code reads through the two pointers -
    cons.font.{GlyphWidth, GlyphHeight, BytesPerRow, Data} and cons.colorInfo.{Red,Green,Blue}{MaskSize,Position} -
    are extra parameters of the translated functions.  [to_gs] maps the model's console [c] and framebuffer
    memory [m] to the record; [font_data f] / the fields of [cinfo c] are those parameters.
    Assumptions that say the data are Go values: palette components and colour-info fields are bytes.
    Loops: the model's on the binary fuel [fuel32]; any translation fuel >= fuel32 reproduces every run of the
    model that ends. *)
From Coq Require Import NArith ZArith PArith String List Bool Lia.
From Coq Require Import ZifyBool ZifyN ZifyNat.
From FF Require Import Lib.Word Lib.GoOps Lib.GoOpsExt Gen.Consts_device_tty Gen.Consts_device_video_console Gen.Trans_console_vesa.
From FF Require Import Console.Mem Console.MemProofs Console.Loop Console.LoopProofs Console.Ops Console.Vga Console.Vesa.
From FF Require Console.VgaTrans.
Import ListNotations.
Local Open Scope N_scope.
Ltac Zify.zify_post_hook ::= Z.div_mod_to_equations.

Notation fb_list := VgaTrans.fb_list.

(** ---- the abstraction ---- *)
Definition rgba_of (t : N * N * N) : go_color_RGBA := let '(r, g, b) := t in mk_go_color_RGBA r g b 255.

Definition pal_list (c : vesa) : list go_color_RGBA :=
  map (fun k => rgba_of (pal c (N.of_nat k))) (seq 0 (N.to_nat (pal_len c))).

Definition has_font (c : vesa) : bool := match fnt c with Some _ => true | None => false end.

Definition to_gs (c : vesa) (phys : N) (m : fbuf) : go_console_VesaFbConsole :=
  mk_go_console_VesaFbConsole (bpp c) (bytespp c) phys (fb_list m) true (pw c) (ph c) (offsetY c) (pitch c)
    (has_font c) (wchars c) (hchars c) (pal_list c) vesa_defaultFg vesa_defaultBg vesa_clearChar.

Definition font_data (f : font) : list N := map (fun k => f_dat f (N.of_nat k)) (seq 0 (N.to_nat (f_dlen f))).

Ltac ssimp :=
  cbn [to_gs f_VesaFbConsole_bpp f_VesaFbConsole_bytesPerPixel f_VesaFbConsole_fbPhysAddr f_VesaFbConsole_fb
       f_VesaFbConsole_colorInfo f_VesaFbConsole_width f_VesaFbConsole_height f_VesaFbConsole_offsetY f_VesaFbConsole_pitch
       f_VesaFbConsole_font f_VesaFbConsole_widthInChars f_VesaFbConsole_heightInChars f_VesaFbConsole_palette
       f_VesaFbConsole_defaultFg f_VesaFbConsole_defaultBg f_VesaFbConsole_clearChar
       f_RGBA_R f_RGBA_G f_RGBA_B f_RGBA_A].

Lemma fold_fb c phys m l : set_f_VesaFbConsole_fb (to_gs c phys m) (fb_list l) = to_gs c phys l.
Proof. reflexivity. Qed.

Definition sres_ (c : vesa) (phys : N) (r : res) : gres (go_console_VesaFbConsole * unit) :=
  match r with Ok m' => GOk (to_gs c phys m', tt) | Panic _ => GPanic | OutOfFuel _ => GFuel end.

Definition claim (c : vesa) (phys : N) (r : res) (g : gres (go_console_VesaFbConsole * unit)) : Prop :=
  match r with OutOfFuel _ => True | _ => g = sres_ c phys r end.

(** ---- Dimensions, DefaultColors, fbOffset ---- *)
Theorem dimensions_trans c phys m dim :
  go_console_VesaFbConsole_Dimensions (to_gs c phys m) dim =
  GOk (to_gs c phys m, if dim =? console_Characters then (wchars c, hchars c) else (pw c, ph c)).
Proof. unfold go_console_VesaFbConsole_Dimensions. ssimp. destruct (dim =? console_Characters); reflexivity. Qed.

Theorem defaultColors_trans c phys m :
  go_console_VesaFbConsole_DefaultColors (to_gs c phys m) = GOk (to_gs c phys m, (vesa_defaultFg, vesa_defaultBg)).
Proof. reflexivity. Qed.

Theorem fbOffset_trans c phys m x y :
  go_console_VesaFbConsole_fbOffset (to_gs c phys m) x y = GOk (to_gs c phys m, fb_offset c x y).
Proof. reflexivity. Qed.

(** ---- packColor16 / packColor24 ---- *)
Lemma pal_list_idx c i :
  gidxA (pal_list c) i = if i <? pal_len c then Some (rgba_of (pal c i)) else None.
Proof.
  unfold gidxA, pal_list. destruct (N.ltb_spec i (pal_len c)) as [A|A].
  - rewrite nth_error_map, (nth_error_nth' (seq 0 (N.to_nat (pal_len c))) 0%nat) by (rewrite seq_length; lia).
    rewrite seq_nth by lia. cbn [option_map Nat.add]. rewrite N2Nat.id. reflexivity.
  - apply nth_error_None. rewrite map_length, seq_length. lia.
Qed.

Lemma gw_lor n a b : gw n (N.lor a b) = N.lor (gw n a) (gw n b).
Proof. unfold gw. rewrite <- !N.land_ones. apply N.land_lor_distr_l. Qed.

Lemma gw_idem n a : gw n (gw n a) = gw n a.
Proof. unfold gw. apply N.mod_mod. apply N.pow_nonzero. discriminate. Qed.

Definition bytes_ok (c : vesa) : Prop :=
  (forall i, i < pal_len c -> let '(r, g, b) := pal c i in r < 256 /\ g < 256 /\ b < 256) /\
  rsize (cinfo c) < 256 /\ gsize (cinfo c) < 256 /\ bsize (cinfo c) < 256.

Lemma comp_trans v size : size < 256 -> N.shiftr v (gsub 8 8 size) = comp8 v size.
Proof.
  intros H. unfold comp8, gsub, gw, w8, two8. change (2 ^ 8) with 256. rewrite (N.mod_small size) by exact H. reflexivity.
Qed.

Lemma shiftr_small v k : v < 256 -> N.shiftr v k < 256.
Proof. intros H. rewrite N.shiftr_div_pow2. pose proof (N.pow_nonzero 2 k ltac:(discriminate)). apply N.le_lt_trans with v; [|exact H]. apply N.div_le_upper_bound; [assumption|]. nia. Qed.

Theorem packColor24_trans c phys m idx :
  bytes_ok c ->
  go_console_VesaFbConsole_packColor24 (to_gs c phys m) idx (bsize (cinfo c)) (bpos (cinfo c)) (gsize (cinfo c)) (gpos (cinfo c))
    (rsize (cinfo c)) (rpos (cinfo c)) =
  if idx <? pal_len c then GOk (to_gs c phys m, pack_color24 c idx) else GPanic.
Proof.
  intros (Hp & Hr & Hg & Hb). unfold go_console_VesaFbConsole_packColor24. ssimp. rewrite pal_list_idx.
  destruct (N.ltb_spec idx (pal_len c)) as [Hi|Hi]; [|reflexivity].
  specialize (Hp idx Hi). unfold pack_color24, packed24. destruct (pal c idx) as [[r g] b]. destruct Hp as (H1 & H2 & H3).
  cbn [rgba_of f_RGBA_R f_RGBA_G f_RGBA_B]. rewrite !comp_trans by assumption.
  rewrite !(gw64_small' (comp8 _ _)) || idtac.
  assert (S : forall v s, v < 256 -> s < 256 -> gw 32 (comp8 v s) = comp8 v s).
  { intros v s Hv Hs. unfold gw. apply N.mod_small. rewrite <- comp_trans by exact Hs.
    apply N.lt_trans with 256; [apply shiftr_small; exact Hv|reflexivity]. }
  rewrite !S by assumption. rewrite N.lor_0_l.
  rewrite !(gw_lor 32), !(gw_idem 32). reflexivity.
Qed.

Theorem packColor16_trans c phys m idx :
  bytes_ok c ->
  go_console_VesaFbConsole_packColor16 (to_gs c phys m) idx (bsize (cinfo c)) (bpos (cinfo c)) (gsize (cinfo c)) (gpos (cinfo c))
    (rsize (cinfo c)) (rpos (cinfo c)) =
  if idx <? pal_len c then GOk (to_gs c phys m, pack_color16 c idx) else GPanic.
Proof.
  intros (Hp & Hr & Hg & Hb). unfold go_console_VesaFbConsole_packColor16. ssimp. rewrite pal_list_idx.
  destruct (N.ltb_spec idx (pal_len c)) as [Hi|Hi]; [|reflexivity].
  specialize (Hp idx Hi). unfold pack_color16, packed16. destruct (pal c idx) as [[r g] b]. destruct Hp as (H1 & H2 & H3).
  cbn [rgba_of f_RGBA_R f_RGBA_G f_RGBA_B]. rewrite !comp_trans by assumption.
  assert (S : forall v s, v < 256 -> s < 256 -> gw 16 (comp8 v s) = comp8 v s).
  { intros v s Hv Hs. unfold gw. apply N.mod_small. rewrite <- comp_trans by exact Hs.
    apply N.lt_trans with 256; [apply shiftr_small; exact Hv|reflexivity]. }
  rewrite !S by assumption. rewrite N.lor_0_l.
  rewrite !(gw_lor 16), !(gw_idem 16). reflexivity.
Qed.

(** ---- fill8 / fill16 / fill24 ---- *)
Notation whileP_sim := VgaTrans.whileP_sim.

Lemma gidx_fb m i : gidx (fb_list m) i = load_chk m i.
Proof. apply VgaTrans.gidx_fb. Qed.
Lemma gset_fb m i v : gset (fb_list m) i v = option_map fb_list (store_chk m i v).
Proof. apply VgaTrans.gset_fb. Qed.

(** the rows loop of fill8/16/24 given its pixel loop: one outer iteration = [fill_row_step] *)
Section FillRows.
  Variables (c : vesa) (phys : N) (fuel : nat) (span step : N) (bytes : list N).
  Variable gstepI : N -> go_console_VesaFbConsole * N -> gres (gctl (go_console_VesaFbConsole * N) (go_console_VesaFbConsole * unit)).
  Hypothesis Hfuel : (Pos.to_nat fuel32 <= fuel)%nat.
  Let RelI := fun (s : fbuf * N) (t : go_console_VesaFbConsole * N) => t = (to_gs c phys (fst s), snd s).
  Hypothesis HsI : forall rowoff s t, RelI s t ->
    match fill_px_step (add32 rowoff span) step bytes s with
    | Next s' => exists t', gstepI rowoff t = GOk (GNext t') /\ RelI s' t'
    | Done s' => exists t', gstepI rowoff t = GOk (GBreak t') /\ RelI s' t'
    | Fail _ => gstepI rowoff t = GPanic
    | Fuel _ => True
    end.

  Definition gstepO (t : go_console_VesaFbConsole * N * N) : gres (gctl (go_console_VesaFbConsole * N * N) (go_console_VesaFbConsole * unit)) :=
    let '(v_cons, v_fbRowOffset, v_pH) := t in
    if 0 <? v_pH
    then match gloop fuel (gstepI v_fbRowOffset) (v_cons, v_fbRowOffset) with
         | GOk (inl (v_cons0, _)) =>
             GOk (GNext (v_cons0, gw 32 (v_fbRowOffset + f_VesaFbConsole_pitch v_cons0), gsub 32 v_pH 1))
         | GOk (inr r) => GOk (GRet r)
         | GPanic => GPanic
         | GFuel => GFuel
         end
    else GOk (GBreak (v_cons, v_fbRowOffset, v_pH)).

  Lemma fill_rows m rows row :
    claim c phys (res_of_loop (fun s => fst (fst s)) (whileP (fill_row_step (pitch c) span step bytes) fuel32 (m, rows, row)))
          (match gloop fuel gstepO (to_gs c phys m, row, rows) with
           | GOk (inl (v_cons, _, _)) => GOk (v_cons, tt)
           | GOk (inr r) => GOk r
           | GPanic => GPanic
           | GFuel => GFuel
           end).
  Proof.
    set (RelO := fun (s : fbuf * N * N) (t : go_console_VesaFbConsole * N * N) =>
                   t = (to_gs c phys (fst (fst s)), snd s, snd (fst s))).
    assert (HsO : forall s t, RelO s t ->
              match fill_row_step (pitch c) span step bytes s with
              | Next s' => exists t', gstepO t = GOk (GNext t') /\ RelO s' t'
              | Done s' => exists t', gstepO t = GOk (GBreak t') /\ RelO s' t'
              | Fail _ => gstepO t = GPanic
              | Fuel _ => True
              end).
    { intros [[m0 rws] rowoff] t ->. cbn [fst snd]. unfold fill_row_step, gstepO.
      destruct (0 <? rws); [|eexists; split; reflexivity].
      pose proof (whileP_sim (fill_px_step (add32 rowoff span) step bytes) (gstepI rowoff) RelI (HsI rowoff)
                    (m0, rowoff) (to_gs c phys m0, rowoff) fuel eq_refl Hfuel) as Sim.
      revert Sim. destruct (whileP (fill_px_step (add32 rowoff span) step bytes) fuel32 (m0, rowoff)) as [[m' o']|[m' o']|[m' o']|[m' o']];
        intros Sim; try exact I.
      - destruct Sim as (t' & E & HR). unfold RelI in HR. subst t'. rewrite E. cbv beta iota. ssimp.
        eexists; split; reflexivity.
      - rewrite Sim. reflexivity. }
    pose proof (whileP_sim (fill_row_step (pitch c) span step bytes) gstepO RelO HsO (m, rows, row) (to_gs c phys m, row, rows) fuel
                  eq_refl Hfuel) as Sim.
    revert Sim. destruct (whileP (fill_row_step (pitch c) span step bytes) fuel32 (m, rows, row)) as [s'|s'|s'|s'];
      intros Sim; cbn [res_of_loop claim]; try exact I.
    - destruct Sim as (t' & E & HR). unfold RelO in HR. subst t'. rewrite E. reflexivity.
    - rewrite Sim. reflexivity.
  Qed.
End FillRows.

Lemma add32_w32_r a b : add32 a (w32 b) = add32 a b.
Proof. unfold add32, w32, two32. rewrite N.add_mod_idemp_r by discriminate. reflexivity. Qed.

(** (a notation, not a definition: the kernel must never have to unfold a constant to find a [whileP .. fuel32 ..] -
    comparing two such stuck loops structurally is exponential in the 33 bits of the fuel) *)
Notation fill_model c m d pX pY pW pH bytes :=
  (res_of_loop (fun s => fst (fst s))
    (whileP (fill_row_step (pitch c) (mul32 pW (px_step c d)) (px_step c d) bytes) fuel32 (m, pH, fb_offset c pX pY))).

Theorem fill8_trans c phys m pX pY pW pH bg fuel :
  (Pos.to_nat fuel32 <= fuel)%nat ->
  claim c phys (fill_model c m D8 pX pY pW pH [bg]) (go_console_VesaFbConsole_fill8 fuel (to_gs c phys m) pX pY pW pH bg).
Proof.
  intros Hfuel. cbv delta [go_console_VesaFbConsole_fill8]. cbv beta zeta. rewrite fbOffset_trans. cbv beta iota zeta.
  set (gI := fun (rowoff : N) (st : go_console_VesaFbConsole * N) =>
     let '(v_cons, v_fbOffset) := st in
     if v_fbOffset <? gw 32 (rowoff + pW)
     then match gset (f_VesaFbConsole_fb v_cons) v_fbOffset bg with
          | Some t2 => GOk (GNext (set_f_VesaFbConsole_fb v_cons t2, gw 32 (v_fbOffset + 1)))
          | None => @GPanic (gctl (go_console_VesaFbConsole * N) (go_console_VesaFbConsole * unit))
          end
     else GOk (GBreak (v_cons, v_fbOffset))).
  change (claim c phys (fill_model c m D8 pX pY pW pH [bg])
           (match gloop fuel (gstepO fuel gI) (to_gs c phys m, fb_offset c pX pY, pH) with
            | GOk (inl (v_cons, _, _)) => GOk (v_cons, tt)
            | GOk (inr r) => GOk r
            | GPanic => GPanic
            | GFuel => GFuel
            end)).
  cbn [px_step].
  apply (fill_rows c phys fuel (mul32 pW 1) 1 [bg] gI Hfuel).
  intros rowoff [m1 off] t ->. cbn [fst snd]. unfold fill_px_step, store_seq, gI. ssimp.
  replace (add32 rowoff (mul32 pW 1)) with (gw 32 (rowoff + pW))
    by (unfold mul32; rewrite N.mul_1_r, add32_w32_r; reflexivity).
  destruct (off <? gw 32 (rowoff + pW)); [|eexists; split; reflexivity].
  cbn [N.eqb]. rewrite gset_fb. destruct (store_chk m1 off bg) as [m2|]; [|reflexivity].
  cbn [option_map]. rewrite fold_fb. eexists; split; reflexivity.
Qed.

Notation CI c := (bsize (cinfo c)) (only parsing).

Theorem fill16_trans c phys m pX pY pW pH bg fuel :
  bytes_ok c -> (Pos.to_nat fuel32 <= fuel)%nat ->
  match pixel_bytes c D16 bg with
  | Some bytes =>
      claim c phys (fill_model c m D16 pX pY pW pH bytes)
        (go_console_VesaFbConsole_fill16 fuel (to_gs c phys m) pX pY pW pH bg (bsize (cinfo c)) (bpos (cinfo c)) (gsize (cinfo c))
           (gpos (cinfo c)) (rsize (cinfo c)) (rpos (cinfo c)))
  | None =>
      go_console_VesaFbConsole_fill16 fuel (to_gs c phys m) pX pY pW pH bg (bsize (cinfo c)) (bpos (cinfo c)) (gsize (cinfo c))
        (gpos (cinfo c)) (rsize (cinfo c)) (rpos (cinfo c)) = GPanic
  end.
Proof.
  intros Hb Hfuel. cbv delta [go_console_VesaFbConsole_fill16]. cbv beta zeta.
  rewrite (packColor16_trans c phys m bg Hb). cbn [pixel_bytes].
  destruct (bg <? pal_len c); [|reflexivity]. cbv beta iota zeta. rewrite fbOffset_trans. cbv beta iota zeta.
  unfold pack_color16. set (p := packed16 (cinfo c) (pal c bg)). set (b0 := w8 p). set (b1 := w8 (N.shiftr p 8)).
  change (gidx [b0; b1] 0) with (Some b0). change (gidx [b0; b1] 1) with (Some b1). cbv beta iota.
  set (gI := fun (rowoff : N) (st : go_console_VesaFbConsole * N) =>
     let '(v_cons, v_fbOffset) := st in
     if v_fbOffset <? gw 32 (rowoff + gw 32 (pW * f_VesaFbConsole_bytesPerPixel v_cons))
     then match gset (f_VesaFbConsole_fb v_cons) v_fbOffset b0 with
          | Some t4 =>
              match gset (f_VesaFbConsole_fb (set_f_VesaFbConsole_fb v_cons t4)) (gw 32 (v_fbOffset + 1)) b1 with
              | Some t6 =>
                  GOk (GNext (set_f_VesaFbConsole_fb (set_f_VesaFbConsole_fb v_cons t4) t6,
                              gw 32 (v_fbOffset + f_VesaFbConsole_bytesPerPixel (set_f_VesaFbConsole_fb (set_f_VesaFbConsole_fb v_cons t4) t6))))
              | None => @GPanic (gctl (go_console_VesaFbConsole * N) (go_console_VesaFbConsole * unit))
              end
          | None => GPanic
          end
     else GOk (GBreak (v_cons, v_fbOffset))).
  change (claim c phys (fill_model c m D16 pX pY pW pH [b0; b1])
           (match gloop fuel (gstepO fuel gI) (to_gs c phys m, fb_offset c pX pY, pH) with
            | GOk (inl (v_cons, _, _)) => GOk (v_cons, tt)
            | GOk (inr r) => GOk r
            | GPanic => GPanic
            | GFuel => GFuel
            end)).
  cbn [px_step].
  apply (fill_rows c phys fuel (mul32 pW (bytespp c)) (bytespp c) [b0; b1] gI Hfuel).
  intros rowoff [m1 off] t ->. cbn [fst snd]. unfold fill_px_step, store_seq, gI. ssimp.
  change (gw 32 (rowoff + gw 32 (pW * bytespp c))) with (add32 rowoff (mul32 pW (bytespp c))).
  destruct (off <? add32 rowoff (mul32 pW (bytespp c))); [|eexists; split; reflexivity].
  change (0 + 1) with 1. change (1 + 1) with 2. cbn [N.eqb]. rewrite gset_fb. destruct (store_chk m1 off b0) as [m2|]; [|reflexivity].
  cbn [option_map]. rewrite fold_fb. ssimp. change (gw 32 (off + 1)) with (add32 off 1).
  rewrite gset_fb. destruct (store_chk m2 (add32 off 1) b1) as [m3|]; [|reflexivity].
  cbn [option_map]. rewrite fold_fb. ssimp. eexists; split; reflexivity.
Qed.

Theorem fill24_trans c phys m pX pY pW pH bg fuel :
  bytes_ok c -> (Pos.to_nat fuel32 <= fuel)%nat ->
  match pixel_bytes c D24 bg with
  | Some bytes =>
      claim c phys (fill_model c m D24 pX pY pW pH bytes)
        (go_console_VesaFbConsole_fill24 fuel (to_gs c phys m) pX pY pW pH bg (bsize (cinfo c)) (bpos (cinfo c)) (gsize (cinfo c))
           (gpos (cinfo c)) (rsize (cinfo c)) (rpos (cinfo c)))
  | None =>
      go_console_VesaFbConsole_fill24 fuel (to_gs c phys m) pX pY pW pH bg (bsize (cinfo c)) (bpos (cinfo c)) (gsize (cinfo c))
        (gpos (cinfo c)) (rsize (cinfo c)) (rpos (cinfo c)) = GPanic
  end.
Proof.
  intros Hb Hfuel. cbv delta [go_console_VesaFbConsole_fill24]. cbv beta zeta.
  rewrite (packColor24_trans c phys m bg Hb). cbn [pixel_bytes].
  destruct (bg <? pal_len c); [|reflexivity]. cbv beta iota zeta. rewrite fbOffset_trans. cbv beta iota zeta.
  unfold pack_color24. set (p := packed24 (cinfo c) (pal c bg)).
  set (b0 := w8 p). set (b1 := w8 (N.shiftr p 8)). set (b2 := w8 (N.shiftr p 16)).
  change (gidx [b0; b1; b2] 0) with (Some b0). change (gidx [b0; b1; b2] 1) with (Some b1). change (gidx [b0; b1; b2] 2) with (Some b2).
  cbv beta iota.
  set (gI := fun (rowoff : N) (st : go_console_VesaFbConsole * N) =>
     let '(v_cons, v_fbOffset) := st in
     if v_fbOffset <? gw 32 (rowoff + gw 32 (pW * f_VesaFbConsole_bytesPerPixel v_cons))
     then match gset (f_VesaFbConsole_fb v_cons) v_fbOffset b0 with
          | Some t4 =>
              match gset (f_VesaFbConsole_fb (set_f_VesaFbConsole_fb v_cons t4)) (gw 32 (v_fbOffset + 1)) b1 with
              | Some t6 =>
                  match gset (f_VesaFbConsole_fb (set_f_VesaFbConsole_fb (set_f_VesaFbConsole_fb v_cons t4) t6)) (gw 32 (v_fbOffset + 2)) b2 with
                  | Some t8 =>
                      GOk (GNext (set_f_VesaFbConsole_fb (set_f_VesaFbConsole_fb (set_f_VesaFbConsole_fb v_cons t4) t6) t8,
                                  gw 32 (v_fbOffset + f_VesaFbConsole_bytesPerPixel
                                           (set_f_VesaFbConsole_fb (set_f_VesaFbConsole_fb (set_f_VesaFbConsole_fb v_cons t4) t6) t8))))
                  | None => @GPanic (gctl (go_console_VesaFbConsole * N) (go_console_VesaFbConsole * unit))
                  end
              | None => GPanic
              end
          | None => GPanic
          end
     else GOk (GBreak (v_cons, v_fbOffset))).
  change (claim c phys (fill_model c m D24 pX pY pW pH [b0; b1; b2])
           (match gloop fuel (gstepO fuel gI) (to_gs c phys m, fb_offset c pX pY, pH) with
            | GOk (inl (v_cons, _, _)) => GOk (v_cons, tt)
            | GOk (inr r) => GOk r
            | GPanic => GPanic
            | GFuel => GFuel
            end)).
  cbn [px_step].
  apply (fill_rows c phys fuel (mul32 pW (bytespp c)) (bytespp c) [b0; b1; b2] gI Hfuel).
  intros rowoff [m1 off] t ->. cbn [fst snd]. unfold fill_px_step, store_seq, gI. ssimp.
  change (gw 32 (rowoff + gw 32 (pW * bytespp c))) with (add32 rowoff (mul32 pW (bytespp c))).
  destruct (off <? add32 rowoff (mul32 pW (bytespp c))); [|eexists; split; reflexivity].
  change (0 + 1) with 1. change (1 + 1) with 2. cbn [N.eqb]. rewrite gset_fb. destruct (store_chk m1 off b0) as [m2|]; [|reflexivity].
  cbn [option_map]. rewrite fold_fb. ssimp. change (gw 32 (off + 1)) with (add32 off 1).
  rewrite gset_fb. destruct (store_chk m2 (add32 off 1) b1) as [m3|]; [|reflexivity].
  cbn [option_map]. rewrite fold_fb. ssimp. change (gw 32 (off + 2)) with (add32 off 2). 
  rewrite gset_fb. destruct (store_chk m3 (add32 off 2) b2) as [m4|]; [|reflexivity].
  cbn [option_map]. rewrite fold_fb. ssimp. eexists; split; reflexivity.
Qed.

(** ---- Fill ---- *)
(** the font parameters: the fields of the font the console holds (anything when it holds none) *)
Definition fgw (c : vesa) : N := match fnt c with Some f => f_gw f | None => 0 end.
Definition fgh (c : vesa) : N := match fnt c with Some f => f_gh f | None => 0 end.

Lemma gw32_mul a b : gw 32 (a * b) = mul32 a b. Proof. reflexivity. Qed.
Lemma gw32_add a b : gw 32 (a + b) = add32 a b. Proof. reflexivity. Qed.
Lemma gsub32_sub a b : gsub 32 a b = sub32 a b. Proof. reflexivity. Qed.
Lemma clamp_eq v w : (if v =? 0 then gw 32 1 else if w <=? v then w else v) = clamp_org v w. Proof. reflexivity. Qed.
Lemma clip_eq ext org w : (if add32 (sub32 w org) 1 <? ext then add32 (sub32 w org) 1 else ext) = clip_ext ext org w. Proof. reflexivity. Qed.

(** NB: rewriting, not [change]: the kernel re-checks a [change] of gw into w32 at every occurrence *)
Ltac w32fix := repeat match goal with
  | |- context [gsub 32 ?a ?b] => rewrite (gsub32_sub a b)
  | |- context [gw 32 (?a * ?b)] => rewrite (gw32_mul a b)
  | |- context [gw 32 (?a + ?b)] => rewrite (gw32_add a b)
  end.

Lemma claim_bind c phys r (g : gres (go_console_VesaFbConsole * unit)) :
  claim c phys r g ->
  claim c phys r (match g with GOk (v, _) => GOk (v, tt) | GPanic => GPanic | GFuel => GFuel end).
Proof. destruct r; cbn [claim]; intros H; try exact I; rewrite H; reflexivity. Qed.

Lemma claim_panic c phys m (g : gres (go_console_VesaFbConsole * unit)) :
  g = GPanic -> claim c phys (Panic m) (match g with GOk (v, _) => GOk (v, tt) | GPanic => GPanic | GFuel => GFuel end).
Proof. intros ->. reflexivity. Qed.

Theorem fill_is_translation c phys m x y width height fg bg fuel :
  bytes_ok c -> (Pos.to_nat fuel32 <= fuel)%nat ->
  claim c phys (vesa_fill c m x y width height fg bg)
    (go_console_VesaFbConsole_Fill fuel (to_gs c phys m) x y width height fg bg (bsize (cinfo c)) (bpos (cinfo c)) (gsize (cinfo c))
       (gpos (cinfo c)) (rsize (cinfo c)) (rpos (cinfo c)) (fgh c) (fgw c)).
Proof.
  intros Hb Hfuel. cbv delta [go_console_VesaFbConsole_Fill vesa_fill]. cbv beta zeta. ssimp.
  unfold has_font, fgw, fgh. destruct (fnt c) as [f|]; cbn [negb]; [|reflexivity].
  rewrite !clamp_eq.
  set (x' := clamp_org x (wchars c)). set (y' := clamp_org y (hchars c)).
  w32fix. rewrite !clip_eq.
  set (width' := clip_ext width x' (wchars c)). set (height' := clip_ext height y' (hchars c)).
  set (pX := mul32 (sub32 x' 1) (f_gw f)). set (pY := mul32 (sub32 y' 1) (f_gh f)).
  set (pW := mul32 width' (f_gw f)). set (pH := mul32 height' (f_gh f)).
  unfold depth_of.
  destruct (bpp c =? 8).
  { cbn [pixel_bytes]. apply claim_bind. exact (fill8_trans c phys m pX pY pW pH bg fuel Hfuel). }
  destruct ((bpp c =? 15) || (bpp c =? 16)).
  { pose proof (fill16_trans c phys m pX pY pW pH bg fuel Hb Hfuel) as T.
    destruct (pixel_bytes c D16 bg) as [bytes|]; [apply claim_bind; exact T|apply claim_panic; exact T]. }
  destruct ((bpp c =? 24) || (bpp c =? 32)); [|reflexivity].
  pose proof (fill24_trans c phys m pX pY pW pH bg fuel Hb Hfuel) as T.
  destruct (pixel_bytes c D24 bg) as [bytes|]; [apply claim_bind; exact T|apply claim_panic; exact T].
Qed.

(** ---- Scroll ---- *)
Theorem scroll_is_translation c phys m dir lines fuel :
  (Pos.to_nat fuel32 <= fuel)%nat ->
  claim c phys (vesa_scroll c m dir lines) (go_console_VesaFbConsole_Scroll fuel (to_gs c phys m) dir lines (fgh c)).
Proof.
  intros Hfuel. cbv delta [go_console_VesaFbConsole_Scroll vesa_scroll]. cbv beta zeta. ssimp.
  unfold has_font, fgh. destruct (fnt c) as [f|]; cbn [negb orb]; [|reflexivity].
  destruct ((lines =? 0) || (hchars c <? lines)); [reflexivity|].
  rewrite !fbOffset_trans. cbv beta iota zeta. ssimp. w32fix.
  set (lpx := mul32 lines (f_gh f)). set (offset := fb_offset c 0 (sub32 lpx (offsetY c))).
  set (rowBytes := mul32 (pw c) (bytespp c)).
  set (RelI := fun (s : fbuf * N) (t : go_console_VesaFbConsole * N) => t = (to_gs c phys (fst s), snd s)).
  destruct (dir =? console_ScrollDirUp).
  - set (start := fb_offset c 0 0). set (stop := fb_offset c 0 (sub32 (sub32 (ph c) lpx) (offsetY c))).
    match goal with |- context [gloop fuel ?f0 (_, start)] => set (gO := f0) end.
    assert (HsO : forall s t, RelI s t ->
              match scroll_up_row_step c stop rowBytes offset s with
              | Next s' => exists t', gO t = GOk (GNext t') /\ RelI s' t'
              | Done s' => exists t', gO t = GOk (GBreak t') /\ RelI s' t'
              | Fail _ => gO t = GPanic
              | Fuel _ => True
              end).
    { intros [m0 rowoff] t ->. cbn [fst snd]. unfold scroll_up_row_step, gO. cbv beta iota zeta.
      destruct (rowoff <? stop); [|eexists; split; reflexivity].
      w32fix.
      match goal with |- context [gloop fuel ?f0 _] => set (gI := f0) end.
      assert (HsI : forall s t, RelI s t ->
                match copy_fwd_step (add32 rowoff rowBytes) (fun i => add32 i offset) s with
                | Next s' => exists t', gI t = GOk (GNext t') /\ RelI s' t'
                | Done s' => exists t', gI t = GOk (GBreak t') /\ RelI s' t'
                | Fail _ => gI t = GPanic
                | Fuel _ => True
                end).
      { intros [m1 i] t' ->. cbn [fst snd]. unfold copy_fwd_step, copy_chk, gI. ssimp. w32fix.
        destruct (i <? add32 rowoff rowBytes); [|eexists; split; reflexivity].
        rewrite gidx_fb. destruct (load_chk m1 (add32 i offset)) as [v|]; [|reflexivity].
        rewrite gset_fb. destruct (store_chk m1 i v) as [m2|]; [|reflexivity].
        cbn [option_map]. rewrite fold_fb. eexists; split; reflexivity. }
      pose proof (whileP_sim (copy_fwd_step (add32 rowoff rowBytes) (fun i => add32 i offset)) gI RelI HsI
                    (m0, rowoff) (to_gs c phys m0, rowoff) fuel eq_refl Hfuel) as Sim.
      revert Sim. destruct (whileP (copy_fwd_step (add32 rowoff rowBytes) (fun i => add32 i offset)) fuel32 (m0, rowoff))
        as [[m' o']|[m' o']|[m' o']|[m' o']]; intros Sim; try exact I.
      - destruct Sim as (t' & E & HR). unfold RelI in HR. subst t'. rewrite E. cbv beta iota. ssimp.
        eexists; split; reflexivity.
      - rewrite Sim. reflexivity. }
    pose proof (whileP_sim (scroll_up_row_step c stop rowBytes offset) gO RelI HsO (m, start) (to_gs c phys m, start) fuel eq_refl Hfuel) as Sim.
    revert Sim. destruct (whileP (scroll_up_row_step c stop rowBytes offset) fuel32 (m, start)) as [s'|s'|s'|s'];
      intros Sim; cbn [res_of_loop claim]; try exact I.
    + destruct Sim as (t' & E & HR). unfold RelI in HR. subst t'. rewrite E. reflexivity.
    + rewrite Sim. reflexivity.
  - destruct (dir =? console_ScrollDirDown); [|reflexivity].
    set (start := fb_offset c 0 lpx). set (stop := fb_offset c 0 (sub32 (ph c) (offsetY c))).
    match goal with |- context [gloop fuel ?f0 (_, stop)] => set (gO := f0) end.
    assert (HsO : forall s t, RelI s t ->
              match scroll_down_row_step c start rowBytes offset s with
              | Next s' => exists t', gO t = GOk (GNext t') /\ RelI s' t'
              | Done s' => exists t', gO t = GOk (GBreak t') /\ RelI s' t'
              | Fail _ => gO t = GPanic
              | Fuel _ => True
              end).
    { intros [m0 rowoff] t ->. cbn [fst snd]. unfold scroll_down_row_step, gO. cbv beta iota zeta. ssimp.
      destruct (start <? rowoff); [|eexists; split; reflexivity].
      w32fix. set (first := sub32 rowoff (pitch c)).
      match goal with |- context [gloop fuel ?f0 _] => set (gI := f0) end.
      assert (HsI : forall s t, RelI s t ->
                match copy_fwd_step (add32 first rowBytes) (fun i => sub32 i offset) s with
                | Next s' => exists t', gI t = GOk (GNext t') /\ RelI s' t'
                | Done s' => exists t', gI t = GOk (GBreak t') /\ RelI s' t'
                | Fail _ => gI t = GPanic
                | Fuel _ => True
                end).
      { intros [m1 i] t' ->. cbn [fst snd]. unfold copy_fwd_step, copy_chk, gI. ssimp. w32fix. fold first.
        destruct (i <? add32 first rowBytes); [|eexists; split; reflexivity].
        rewrite gidx_fb. destruct (load_chk m1 (sub32 i offset)) as [v|]; [|reflexivity].
        rewrite gset_fb. destruct (store_chk m1 i v) as [m2|]; [|reflexivity].
        cbn [option_map]. rewrite fold_fb. eexists; split; reflexivity. }
      pose proof (whileP_sim (copy_fwd_step (add32 first rowBytes) (fun i => sub32 i offset)) gI RelI HsI
                    (m0, first) (to_gs c phys m0, first) fuel eq_refl Hfuel) as Sim.
      revert Sim. destruct (whileP (copy_fwd_step (add32 first rowBytes) (fun i => sub32 i offset)) fuel32 (m0, first))
        as [[m' o']|[m' o']|[m' o']|[m' o']]; intros Sim; try exact I.
      - destruct Sim as (t' & E & HR). unfold RelI in HR. subst t'. rewrite E. cbv beta iota. ssimp. w32fix.
        eexists; split; reflexivity.
      - rewrite Sim. reflexivity. }
    pose proof (whileP_sim (scroll_down_row_step c start rowBytes offset) gO RelI HsO (m, stop) (to_gs c phys m, stop) fuel eq_refl Hfuel) as Sim.
    revert Sim. destruct (whileP (scroll_down_row_step c start rowBytes offset) fuel32 (m, stop)) as [s'|s'|s'|s'];
      intros Sim; cbn [res_of_loop claim]; try exact I.
    + destruct Sim as (t' & E & HR). unfold RelI in HR. subst t'. rewrite E. reflexivity.
    + rewrite Sim. reflexivity.
Qed.

(** ---- the claims with [claim] unfolded (the forms stated in Props/C19_vesa_trans.v) ---- *)
Theorem fill_is_translation_explicit c phys m x y width height fg bg fuel :
  bytes_ok c -> (Pos.to_nat fuel32 <= fuel)%nat ->
  match vesa_fill c m x y width height fg bg with
  | Ok m' =>
      go_console_VesaFbConsole_Fill fuel (to_gs c phys m) x y width height fg bg (bsize (cinfo c)) (bpos (cinfo c)) (gsize (cinfo c))
        (gpos (cinfo c)) (rsize (cinfo c)) (rpos (cinfo c)) (fgh c) (fgw c) = GOk (to_gs c phys m', tt)
  | Panic _ =>
      go_console_VesaFbConsole_Fill fuel (to_gs c phys m) x y width height fg bg (bsize (cinfo c)) (bpos (cinfo c)) (gsize (cinfo c))
        (gpos (cinfo c)) (rsize (cinfo c)) (rpos (cinfo c)) (fgh c) (fgw c) = GPanic
  | OutOfFuel _ => True
  end.
Proof.
  intros H1 H2. pose proof (fill_is_translation c phys m x y width height fg bg fuel H1 H2) as T.
  destruct (vesa_fill c m x y width height fg bg); exact T.
Qed.

Theorem scroll_is_translation_explicit c phys m dir lines fuel :
  (Pos.to_nat fuel32 <= fuel)%nat ->
  match vesa_scroll c m dir lines with
  | Ok m' => go_console_VesaFbConsole_Scroll fuel (to_gs c phys m) dir lines (fgh c) = GOk (to_gs c phys m', tt)
  | Panic _ => go_console_VesaFbConsole_Scroll fuel (to_gs c phys m) dir lines (fgh c) = GPanic
  | OutOfFuel _ => True
  end.
Proof.
  intros H. pose proof (scroll_is_translation c phys m dir lines fuel H) as T.
  destruct (vesa_scroll c m dir lines); exact T.
Qed.

Theorem queries_trans c phys m dim x y :
  go_console_VesaFbConsole_Dimensions (to_gs c phys m) dim =
    GOk (to_gs c phys m, if dim =? console_Characters then (wchars c, hchars c) else (pw c, ph c)) /\
  go_console_VesaFbConsole_DefaultColors (to_gs c phys m) = GOk (to_gs c phys m, (vesa_defaultFg, vesa_defaultBg)) /\
  go_console_VesaFbConsole_fbOffset (to_gs c phys m) x y = GOk (to_gs c phys m, fb_offset c x y).
Proof. split; [apply dimensions_trans|split; [apply defaultColors_trans|apply fbOffset_trans]]. Qed.

Theorem packColor_trans c phys m idx :
  bytes_ok c ->
  go_console_VesaFbConsole_packColor16 (to_gs c phys m) idx (bsize (cinfo c)) (bpos (cinfo c)) (gsize (cinfo c)) (gpos (cinfo c))
    (rsize (cinfo c)) (rpos (cinfo c)) =
    (if idx <? pal_len c then GOk (to_gs c phys m, pack_color16 c idx) else GPanic) /\
  go_console_VesaFbConsole_packColor24 (to_gs c phys m) idx (bsize (cinfo c)) (bpos (cinfo c)) (gsize (cinfo c)) (gpos (cinfo c))
    (rsize (cinfo c)) (rpos (cinfo c)) =
    (if idx <? pal_len c then GOk (to_gs c phys m, pack_color24 c idx) else GPanic).
Proof. intros H. split; [apply packColor16_trans|apply packColor24_trans]; exact H. Qed.

(** ---- write8 / write16 / write24 ---- *)
Lemma font_idx f i : gidx (font_data f) i = if i <? f_dlen f then Some (f_dat f i) else None.
Proof.
  unfold gidx, font_data. destruct (N.ltb_spec i (f_dlen f)) as [A|A].
  - rewrite nth_error_map, (nth_error_nth' (seq 0 (N.to_nat (f_dlen f))) 0%nat) by (rewrite seq_length; lia).
    rewrite seq_nth by lia. cbn [option_map Nat.add]. rewrite N2Nat.id. reflexivity.
  - apply nth_error_None. rewrite map_length, seq_length. lia.
Qed.

Definition RelW (c : vesa) (phys : N) (s : wstate) (t : go_console_VesaFbConsole * N * N * N * N * N) : Prop :=
  let '(m, x, off, mask, foff, row) := s in t = (to_gs c phys m, off, foff, row, mask, x).

Definition RelR (c : vesa) (phys : N) (s : fbuf * N * N * N) (t : go_console_VesaFbConsole * N * N * N * N * N * N) : Prop :=
  let '(m, y, rowoff, foff) := s in exists a b d, t = (to_gs c phys m, a, rowoff, foff, b, d, y).

(** the model's result of the rows loop of write8/16/24 *)
Notation write_model c f m d pX pY ch fgb bgb :=
  (res_of_loop (fun s => fst (fst (fst s)))
     (whileP (write_row_step c f (px_step c d) fgb bgb) fuel32
        (m, 0, fb_offset c pX pY, mul32 (mul32 ch (f_bpr f)) (f_gh f)))).

Ltac store_chain :=
  cbn [store_seq N.eqb N.add Pos.add Pos.succ Pos.eqb]; cbv beta iota zeta;
  repeat (rewrite gset_fb;
          match goal with |- context [store_chk ?mm ?oo ?bb] => destruct (store_chk mm oo bb); [cbn [option_map]; rewrite fold_fb; ssimp; w32fix|reflexivity] end).

Theorem write8_trans c phys m f ch fg bg pX pY fuel :
  ch < 256 -> (Pos.to_nat fuel32 <= fuel)%nat ->
  claim c phys (write_model c f m D8 pX pY ch [fg] [bg])
    (go_console_VesaFbConsole_write8 fuel (to_gs c phys m) ch fg bg pX pY (f_bpr f) (font_data f) (f_gh f) (f_gw f)).
Proof.
  intros Hch Hfuel. cbv delta [go_console_VesaFbConsole_write8]. cbv beta zeta. rewrite fbOffset_trans. cbv beta iota zeta.
  rewrite (gw64_small' ch) || idtac.
  replace (gw 32 ch) with ch by (unfold gw; symmetry; apply N.mod_small; change (2 ^ 32) with 4294967296; lia).
  w32fix. change (gw 32 0) with 0. change (gw 8 (N.shiftl 1 7)) with 128. cbn [px_step].
  match goal with |- context [gloop fuel ?f0 _] => set (gO := f0) end.
  assert (HsO : forall s t, RelR c phys s t ->
            match write_row_step c f 1 [fg] [bg] s with
            | Next s' => exists t', gO t = GOk (GNext t') /\ RelR c phys s' t'
            | Done s' => exists t', gO t = GOk (GBreak t') /\ RelR c phys s' t'
            | Fail _ => gO t = GPanic
            | Fuel _ => True
            end).
  { intros [[[m0 y] rowoff] foff] t HR. unfold RelR in HR. destruct HR as (a & b & d & ->). unfold write_row_step, gO. cbv beta iota zeta.
    destruct (y <? f_gh f); [|eexists; split; [reflexivity|exists a, b, d; reflexivity]].
    rewrite font_idx. destruct (foff <? f_dlen f); cbn [negb]; [|reflexivity]. cbv beta iota.
    match goal with |- context [gloop fuel ?f0 _] => set (gI := f0) end.
    assert (HsI : forall s t, RelW c phys s t ->
              match write_px_step f 1 [fg] [bg] s with
              | Next s' => exists t', gI t = GOk (GNext t') /\ RelW c phys s' t'
              | Done s' => exists t', gI t = GOk (GBreak t') /\ RelW c phys s' t'
              | Fail _ => gI t = GPanic
              | Fuel _ => True
              end).
    { intros [[[[[m1 x] off] mask] fo] row] t' HR. unfold RelW in HR. subst t'. unfold write_px_step, gI. cbv beta iota zeta. ssimp.
      destruct (x <? f_gw f); [|eexists; split; reflexivity].
      change (0 + 1) with 1. cbn [N.eqb]. w32fix.
      destruct (mask =? 0); cbn [andb].
      - rewrite font_idx. destruct (add32 fo 1 <? f_dlen f); cbn [negb]; [|reflexivity]. cbv beta iota.
        destruct (N.land (f_dat f (add32 fo 1)) 128 =? 0); cbn [negb]; store_chain; eexists; split; reflexivity.
      - destruct (N.land row mask =? 0); cbn [negb]; store_chain; eexists; split; reflexivity. }
    pose proof (whileP_sim (write_px_step f 1 [fg] [bg]) gI (RelW c phys) HsI
                  (m0, 0, rowoff, 128, foff, f_dat f foff) (to_gs c phys m0, rowoff, foff, f_dat f foff, 128, 0) fuel eq_refl Hfuel) as Sim.
    revert Sim. destruct (whileP (write_px_step f 1 [fg] [bg]) fuel32 (m0, 0, rowoff, 128, foff, f_dat f foff))
      as [s'|s'|s'|s']; intros Sim; try exact I.
    - destruct s' as [[[[[m' x'] o'] k'] fo'] r']. destruct Sim as (t' & E & HR). unfold RelW in HR. subst t'. rewrite E.
      cbv beta iota. ssimp. w32fix. eexists; split; [reflexivity|]. exists o', k', x'. reflexivity.
    - rewrite Sim. reflexivity. }
  pose proof (whileP_sim (write_row_step c f 1 [fg] [bg]) gO (RelR c phys) HsO
                (m, 0, fb_offset c pX pY, mul32 (mul32 ch (f_bpr f)) (f_gh f))
                (to_gs c phys m, 0, fb_offset c pX pY, mul32 (mul32 ch (f_bpr f)) (f_gh f), 0, 0, 0) fuel
                (ex_intro _ 0 (ex_intro _ 0 (ex_intro _ 0 eq_refl))) Hfuel) as Sim.
  revert Sim. destruct (whileP (write_row_step c f 1 [fg] [bg]) fuel32 _) as [s'|s'|s'|s'];
    intros Sim; cbn [res_of_loop claim]; try exact I.
  - destruct s' as [[[m' y'] ro'] fo']. destruct Sim as (t' & E & (a & b & d & HR)). subst t'. rewrite E. reflexivity.
  - rewrite Sim. reflexivity.
Qed.

Theorem write16_trans c phys m f ch fg bg pX pY fuel :
  ch < 256 -> bytes_ok c -> (Pos.to_nat fuel32 <= fuel)%nat ->
  match pixel_bytes c D16 fg, pixel_bytes c D16 bg with
  | Some fgb, Some bgb =>
      claim c phys (write_model c f m D16 pX pY ch fgb bgb) (go_console_VesaFbConsole_write16 fuel (to_gs c phys m) ch fg bg pX pY (bsize (cinfo c)) (bpos (cinfo c)) (gsize (cinfo c)) (gpos (cinfo c)) (rsize (cinfo c)) (rpos (cinfo c)) (f_bpr f) (font_data f) (f_gh f) (f_gw f))
  | _, _ => go_console_VesaFbConsole_write16 fuel (to_gs c phys m) ch fg bg pX pY (bsize (cinfo c)) (bpos (cinfo c)) (gsize (cinfo c)) (gpos (cinfo c)) (rsize (cinfo c)) (rpos (cinfo c)) (f_bpr f) (font_data f) (f_gh f) (f_gw f) = GPanic
  end.
Proof.
  intros Hch Hb Hfuel. cbv delta [go_console_VesaFbConsole_write16]. cbv beta zeta. rewrite fbOffset_trans. cbv beta iota zeta.
  rewrite (packColor16_trans c phys m fg Hb). cbn [pixel_bytes].
  destruct (fg <? pal_len c); [|reflexivity]. cbv beta iota zeta.
  rewrite (packColor16_trans c phys m bg Hb).
  destruct (bg <? pal_len c); [|reflexivity]. cbv beta iota zeta.
  unfold pack_color16. set (pf := packed16 (cinfo c) (pal c fg)). set (f0 := w8 pf). set (f1 := w8 (N.shiftr pf 8)). set (pb := packed16 (cinfo c) (pal c bg)). set (g0 := w8 pb). set (g1 := w8 (N.shiftr pb 8)).
  change (gidx [f0; f1] 0) with (Some f0).
  change (gidx [f0; f1] 1) with (Some f1).
  change (gidx [g0; g1] 0) with (Some g0).
  change (gidx [g0; g1] 1) with (Some g1).
  cbv beta iota.
  replace (gw 32 ch) with ch by (unfold gw; symmetry; apply N.mod_small; change (2 ^ 32) with 4294967296; lia).
  w32fix. change (gw 32 0) with 0. change (gw 8 (N.shiftl 1 7)) with 128. cbn [px_step].
  match goal with |- context [gloop fuel ?f0 _] => set (gO := f0) end.
  assert (HsO : forall s t, RelR c phys s t ->
            match write_row_step c f (bytespp c) [f0; f1] [g0; g1] s with
            | Next s' => exists t', gO t = GOk (GNext t') /\ RelR c phys s' t'
            | Done s' => exists t', gO t = GOk (GBreak t') /\ RelR c phys s' t'
            | Fail _ => gO t = GPanic
            | Fuel _ => True
            end).
  { intros [[[m0 y] rowoff] foff] t HR. unfold RelR in HR. destruct HR as (a & b & d & ->). unfold write_row_step, gO. cbv beta iota zeta.
    destruct (y <? f_gh f); [|eexists; split; [reflexivity|exists a, b, d; reflexivity]].
    rewrite font_idx. destruct (foff <? f_dlen f); cbn [negb]; [|reflexivity]. cbv beta iota.
    match goal with |- context [gloop fuel ?f0 _] => set (gI := f0) end.
    assert (HsI : forall s t, RelW c phys s t ->
              match write_px_step f (bytespp c) [f0; f1] [g0; g1] s with
              | Next s' => exists t', gI t = GOk (GNext t') /\ RelW c phys s' t'
              | Done s' => exists t', gI t = GOk (GBreak t') /\ RelW c phys s' t'
              | Fail _ => gI t = GPanic
              | Fuel _ => True
              end).
    { intros [[[[[m1 x] off] mask] fo] row] t' HR. unfold RelW in HR. subst t'. unfold write_px_step, gI. cbv beta iota zeta. ssimp.
      destruct (x <? f_gw f); [|eexists; split; reflexivity].
      w32fix.
      destruct (mask =? 0); cbn [andb].
      - rewrite font_idx. destruct (add32 fo 1 <? f_dlen f); cbn [negb]; [|reflexivity]. cbv beta iota.
        destruct (N.land (f_dat f (add32 fo 1)) 128 =? 0); cbn [negb]; store_chain; eexists; split; reflexivity.
      - destruct (N.land row mask =? 0); cbn [negb]; store_chain; eexists; split; reflexivity. }
    pose proof (whileP_sim (write_px_step f (bytespp c) [f0; f1] [g0; g1]) gI (RelW c phys) HsI
                  (m0, 0, rowoff, 128, foff, f_dat f foff) (to_gs c phys m0, rowoff, foff, f_dat f foff, 128, 0) fuel eq_refl Hfuel) as Sim.
    revert Sim. destruct (whileP (write_px_step f (bytespp c) [f0; f1] [g0; g1]) fuel32 (m0, 0, rowoff, 128, foff, f_dat f foff))
      as [s'|s'|s'|s']; intros Sim; try exact I.
    - destruct s' as [[[[[m' x'] o'] k'] fo'] r']. destruct Sim as (t' & E & HR). unfold RelW in HR. subst t'. rewrite E.
      cbv beta iota. ssimp. w32fix. eexists; split; [reflexivity|]. exists o', k', x'. reflexivity.
    - rewrite Sim. reflexivity. }
  pose proof (whileP_sim (write_row_step c f (bytespp c) [f0; f1] [g0; g1]) gO (RelR c phys) HsO
                (m, 0, fb_offset c pX pY, mul32 (mul32 ch (f_bpr f)) (f_gh f))
                (to_gs c phys m, 0, fb_offset c pX pY, mul32 (mul32 ch (f_bpr f)) (f_gh f), 0, 0, 0) fuel
                (ex_intro _ 0 (ex_intro _ 0 (ex_intro _ 0 eq_refl))) Hfuel) as Sim.
  revert Sim. destruct (whileP (write_row_step c f (bytespp c) [f0; f1] [g0; g1]) fuel32 _) as [s'|s'|s'|s'];
    intros Sim; cbn [res_of_loop claim]; try exact I.
  - destruct s' as [[[m' y'] ro'] fo']. destruct Sim as (t' & E & (a & b & d & HR)). subst t'. rewrite E. reflexivity.
  - rewrite Sim. reflexivity.
Qed.

Theorem write24_trans c phys m f ch fg bg pX pY fuel :
  ch < 256 -> bytes_ok c -> (Pos.to_nat fuel32 <= fuel)%nat ->
  match pixel_bytes c D24 fg, pixel_bytes c D24 bg with
  | Some fgb, Some bgb =>
      claim c phys (write_model c f m D24 pX pY ch fgb bgb) (go_console_VesaFbConsole_write24 fuel (to_gs c phys m) ch fg bg pX pY (bsize (cinfo c)) (bpos (cinfo c)) (gsize (cinfo c)) (gpos (cinfo c)) (rsize (cinfo c)) (rpos (cinfo c)) (f_bpr f) (font_data f) (f_gh f) (f_gw f))
  | _, _ => go_console_VesaFbConsole_write24 fuel (to_gs c phys m) ch fg bg pX pY (bsize (cinfo c)) (bpos (cinfo c)) (gsize (cinfo c)) (gpos (cinfo c)) (rsize (cinfo c)) (rpos (cinfo c)) (f_bpr f) (font_data f) (f_gh f) (f_gw f) = GPanic
  end.
Proof.
  intros Hch Hb Hfuel. cbv delta [go_console_VesaFbConsole_write24]. cbv beta zeta. rewrite fbOffset_trans. cbv beta iota zeta.
  rewrite (packColor24_trans c phys m fg Hb). cbn [pixel_bytes].
  destruct (fg <? pal_len c); [|reflexivity]. cbv beta iota zeta.
  rewrite (packColor24_trans c phys m bg Hb).
  destruct (bg <? pal_len c); [|reflexivity]. cbv beta iota zeta.
  unfold pack_color24. set (pf := packed24 (cinfo c) (pal c fg)). set (f0 := w8 pf). set (f1 := w8 (N.shiftr pf 8)). set (f2 := w8 (N.shiftr pf 16)). set (pb := packed24 (cinfo c) (pal c bg)). set (g0 := w8 pb). set (g1 := w8 (N.shiftr pb 8)). set (g2 := w8 (N.shiftr pb 16)).
  change (gidx [f0; f1; f2] 0) with (Some f0).
  change (gidx [f0; f1; f2] 1) with (Some f1).
  change (gidx [f0; f1; f2] 2) with (Some f2).
  change (gidx [g0; g1; g2] 0) with (Some g0).
  change (gidx [g0; g1; g2] 1) with (Some g1).
  change (gidx [g0; g1; g2] 2) with (Some g2).
  cbv beta iota.
  replace (gw 32 ch) with ch by (unfold gw; symmetry; apply N.mod_small; change (2 ^ 32) with 4294967296; lia).
  w32fix. change (gw 32 0) with 0. change (gw 8 (N.shiftl 1 7)) with 128. cbn [px_step].
  match goal with |- context [gloop fuel ?f0 _] => set (gO := f0) end.
  assert (HsO : forall s t, RelR c phys s t ->
            match write_row_step c f (bytespp c) [f0; f1; f2] [g0; g1; g2] s with
            | Next s' => exists t', gO t = GOk (GNext t') /\ RelR c phys s' t'
            | Done s' => exists t', gO t = GOk (GBreak t') /\ RelR c phys s' t'
            | Fail _ => gO t = GPanic
            | Fuel _ => True
            end).
  { intros [[[m0 y] rowoff] foff] t HR. unfold RelR in HR. destruct HR as (a & b & d & ->). unfold write_row_step, gO. cbv beta iota zeta.
    destruct (y <? f_gh f); [|eexists; split; [reflexivity|exists a, b, d; reflexivity]].
    rewrite font_idx. destruct (foff <? f_dlen f); cbn [negb]; [|reflexivity]. cbv beta iota.
    match goal with |- context [gloop fuel ?f0 _] => set (gI := f0) end.
    assert (HsI : forall s t, RelW c phys s t ->
              match write_px_step f (bytespp c) [f0; f1; f2] [g0; g1; g2] s with
              | Next s' => exists t', gI t = GOk (GNext t') /\ RelW c phys s' t'
              | Done s' => exists t', gI t = GOk (GBreak t') /\ RelW c phys s' t'
              | Fail _ => gI t = GPanic
              | Fuel _ => True
              end).
    { intros [[[[[m1 x] off] mask] fo] row] t' HR. unfold RelW in HR. subst t'. unfold write_px_step, gI. cbv beta iota zeta. ssimp.
      destruct (x <? f_gw f); [|eexists; split; reflexivity].
      w32fix.
      destruct (mask =? 0); cbn [andb].
      - rewrite font_idx. destruct (add32 fo 1 <? f_dlen f); cbn [negb]; [|reflexivity]. cbv beta iota.
        destruct (N.land (f_dat f (add32 fo 1)) 128 =? 0); cbn [negb]; store_chain; eexists; split; reflexivity.
      - destruct (N.land row mask =? 0); cbn [negb]; store_chain; eexists; split; reflexivity. }
    pose proof (whileP_sim (write_px_step f (bytespp c) [f0; f1; f2] [g0; g1; g2]) gI (RelW c phys) HsI
                  (m0, 0, rowoff, 128, foff, f_dat f foff) (to_gs c phys m0, rowoff, foff, f_dat f foff, 128, 0) fuel eq_refl Hfuel) as Sim.
    revert Sim. destruct (whileP (write_px_step f (bytespp c) [f0; f1; f2] [g0; g1; g2]) fuel32 (m0, 0, rowoff, 128, foff, f_dat f foff))
      as [s'|s'|s'|s']; intros Sim; try exact I.
    - destruct s' as [[[[[m' x'] o'] k'] fo'] r']. destruct Sim as (t' & E & HR). unfold RelW in HR. subst t'. rewrite E.
      cbv beta iota. ssimp. w32fix. eexists; split; [reflexivity|]. exists o', k', x'. reflexivity.
    - rewrite Sim. reflexivity. }
  pose proof (whileP_sim (write_row_step c f (bytespp c) [f0; f1; f2] [g0; g1; g2]) gO (RelR c phys) HsO
                (m, 0, fb_offset c pX pY, mul32 (mul32 ch (f_bpr f)) (f_gh f))
                (to_gs c phys m, 0, fb_offset c pX pY, mul32 (mul32 ch (f_bpr f)) (f_gh f), 0, 0, 0) fuel
                (ex_intro _ 0 (ex_intro _ 0 (ex_intro _ 0 eq_refl))) Hfuel) as Sim.
  revert Sim. destruct (whileP (write_row_step c f (bytespp c) [f0; f1; f2] [g0; g1; g2]) fuel32 _) as [s'|s'|s'|s'];
    intros Sim; cbn [res_of_loop claim]; try exact I.
  - destruct s' as [[[m' y'] ro'] fo']. destruct Sim as (t' & E & (a & b & d & HR)). subst t'. rewrite E. reflexivity.
  - rewrite Sim. reflexivity.
Qed.

(** ---- Write ---- *)
Definition fbpr (c : vesa) : N := match fnt c with Some f => f_bpr f | None => 0 end.
Definition fdata (c : vesa) : list N := match fnt c with Some f => font_data f | None => [] end.

Theorem write_is_translation c phys m ch fg bg x y fuel :
  ch < 256 -> bytes_ok c -> (Pos.to_nat fuel32 <= fuel)%nat ->
  claim c phys (vesa_write c m ch fg bg x y)
    (go_console_VesaFbConsole_Write fuel (to_gs c phys m) ch fg bg x y (bsize (cinfo c)) (bpos (cinfo c)) (gsize (cinfo c))
       (gpos (cinfo c)) (rsize (cinfo c)) (rpos (cinfo c)) (fbpr c) (fdata c) (fgh c) (fgw c)).
Proof.
  intros Hch Hb Hfuel. cbv delta [go_console_VesaFbConsole_Write vesa_write]. cbv beta zeta. ssimp.
  unfold has_font, fgw, fgh, fbpr, fdata. destruct (fnt c) as [f|]; cbn [negb]; [|rewrite Bool.orb_true_r; reflexivity].
  rewrite Bool.orb_false_r.
  destruct ((x <? 1) || (wchars c <? x) || (y <? 1) || (hchars c <? y)); [reflexivity|].
  w32fix.
  set (pX := mul32 (sub32 x 1) (f_gw f)). set (pY := mul32 (sub32 y 1) (f_gh f)).
  unfold depth_of.
  destruct (bpp c =? 8).
  { cbn [pixel_bytes]. apply claim_bind. exact (write8_trans c phys m f ch fg bg pX pY fuel Hch Hfuel). }
  destruct ((bpp c =? 15) || (bpp c =? 16)).
  { pose proof (write16_trans c phys m f ch fg bg pX pY fuel Hch Hb Hfuel) as T.
    destruct (pixel_bytes c D16 fg) as [fgb|]; [|apply claim_panic; exact T].
    destruct (pixel_bytes c D16 bg) as [bgb|]; [apply claim_bind; exact T|apply claim_panic; exact T]. }
  destruct ((bpp c =? 24) || (bpp c =? 32)); [|reflexivity].
  pose proof (write24_trans c phys m f ch fg bg pX pY fuel Hch Hb Hfuel) as T.
  destruct (pixel_bytes c D24 fg) as [fgb|]; [|apply claim_panic; exact T].
  destruct (pixel_bytes c D24 bg) as [bgb|]; [apply claim_bind; exact T|apply claim_panic; exact T].
Qed.

Theorem write_is_translation_explicit c phys m ch fg bg x y fuel :
  ch < 256 -> bytes_ok c -> (Pos.to_nat fuel32 <= fuel)%nat ->
  match vesa_write c m ch fg bg x y with
  | Ok m' =>
      go_console_VesaFbConsole_Write fuel (to_gs c phys m) ch fg bg x y (bsize (cinfo c)) (bpos (cinfo c)) (gsize (cinfo c))
        (gpos (cinfo c)) (rsize (cinfo c)) (rpos (cinfo c)) (fbpr c) (fdata c) (fgh c) (fgw c) = GOk (to_gs c phys m', tt)
  | Panic _ =>
      go_console_VesaFbConsole_Write fuel (to_gs c phys m) ch fg bg x y (bsize (cinfo c)) (bpos (cinfo c)) (gsize (cinfo c))
        (gpos (cinfo c)) (rsize (cinfo c)) (rpos (cinfo c)) (fbpr c) (fdata c) (fgh c) (fgw c) = GPanic
  | OutOfFuel _ => True
  end.
Proof.
  intros H0 H1 H2. pose proof (write_is_translation c phys m ch fg bg x y fuel H0 H1 H2) as T.
  destruct (vesa_write c m ch fg bg x y); exact T.
Qed.
