(** Proofs about the text-mode console model (Console/Vga.v): Write, Fill and Scroll touch exactly
    the cells the property C19 names, for every geometry and every 32-bit argument, never index
    outside the framebuffer, and refine the cell-level semantics of Console/Grid.v. *)
From Coq Require Import NArith ZArith PArith Arith Bool List Lia.
From Coq Require Import ZifyBool ZifyN ZifyNat.
From FF Require Import Lib.Word Gen.Consts_device_video_console.
From FF Require Import Console.Mem Console.MemProofs Console.Loop Console.LoopProofs Console.Ops Console.OpsProofs.
From FF Require Import Console.Grid Console.Vga.
Import ListNotations.
Local Open Scope N_scope.
Ltac Zify.zify_post_hook ::= Z.div_mod_to_equations.

(** geometry: at least one cell, the buffer is the W*H cells DriverInit maps, sizes fit 32 bits *)
Definition vga_wf (c : vga) (m : fbuf) : Prop :=
  1 <= vw c /\ 1 <= vh c /\ vw c * vh c < two32 /\ flen m = vw c * vh c.

(** the framebuffer element of cell (x,y), 1-based *)
Definition cell_idx (c : vga) (x y : N) : N := (y - 1) * vw c + (x - 1).

(** what the screen shows *)
Definition vga_grid (c : vga) (m : fbuf) : grid N :=
  mkGrid (vw c) (vh c) (fun x y => load m (cell_idx c x y)).

Lemma in_grid_spec {C} (g : grid C) x y : in_grid g x y = true <-> 1 <= x <= gw g /\ 1 <= y <= gh g.
Proof. unfold in_grid. rewrite !andb_true_iff, !N.leb_le. tauto. Qed.

Lemma cell_idx_lt c m x y : vga_wf c m -> 1 <= x <= vw c -> 1 <= y <= vh c -> cell_idx c x y < flen m.
Proof.
  intros [H1 [H2 [H3 H4]]] Hx Hy. unfold cell_idx. rewrite H4.
  assert ((y - 1 + 1) * vw c <= vh c * vw c) by (apply N.mul_le_mono_r; lia). lia.
Qed.

Lemma cell_idx_inj c x y x' y' :
  1 <= x <= vw c -> 1 <= x' <= vw c -> 1 <= y -> 1 <= y' ->
  cell_idx c x y = cell_idx c x' y' -> x = x' /\ y = y'.
Proof.
  intros Hx Hx' Hy Hy' E. unfold cell_idx in E.
  destruct (coord_unique (vw c) (y - 1) (x - 1) (y' - 1) (x' - 1)); try lia.
Qed.

(** every element of the buffer is a cell of the grid *)
Lemma cell_idx_surj c m i :
  vga_wf c m -> i < flen m ->
  exists x y, 1 <= x <= vw c /\ 1 <= y <= vh c /\ i = cell_idx c x y.
Proof.
  intros [H1 [H2 [H3 H4]]] Hi. exists (i mod vw c + 1), (i / vw c + 1). unfold cell_idx.
  assert (i mod vw c < vw c) by (apply N.mod_lt; lia).
  assert (i / vw c < vh c) by (apply N.div_lt_upper_bound; lia).
  pose proof (N.div_mod i (vw c) ltac:(lia)).
  set (q := i / vw c) in *. set (r := i mod vw c) in *. clearbody q r.
  replace (q + 1 - 1) with q by lia. replace (r + 1 - 1) with r by lia.
  repeat split; lia.
Qed.

(** ---- Write ---- *)
(** colours above the palette are replaced by the default (vga_text.go: "If fg or bg exceed the
    supported colors for this console, they will be set to their default value") *)
Definition text_colour (dflt v : N) : N := if vga_maxColorIndex <? v then dflt else v.

Lemma vga_write_spec c m ch fg bg x y :
  vga_wf c m -> x < two32 -> y < two32 ->
  exists m', vga_write c m ch fg bg x y = Ok m' /\ flen m' = flen m /\
    forall i, load m' i =
      if in_grid (vga_grid c m) x y && (i =? cell_idx c x y)
      then cell16 (text_colour vga_defaultBg bg) (text_colour vga_defaultFg fg) ch
      else load m i.
Proof.
  intros Hwf Hx Hy. pose proof Hwf as [H1 [H2 [H3 H4]]]. unfold vga_write.
  destruct (in_grid (vga_grid c m) x y) eqn:G.
  - apply in_grid_spec in G. cbn [vga_grid gw gh] in G.
    replace ((x <? 1) || (vw c <? x) || (y <? 1) || (vh c <? y)) with false by (symmetry; lia).
    pose proof (cell_idx_lt c m x y Hwf ltac:(lia) ltac:(lia)) as Hlt. unfold cell_idx in Hlt.
    rewrite (sub32_small y 1), (sub32_small x 1) by lia.
    rewrite mul32_small by lia. rewrite add32_small by lia.
    unfold of_opt. rewrite store_chk_some by lia.
    eexists. split; [reflexivity|]. split; [apply flen_store|].
    intros i. rewrite load_store. unfold cell_idx, text_colour. cbn [andb]. reflexivity.
  - assert (E: (x <? 1) || (vw c <? x) || (y <? 1) || (vh c <? y) = true).
    { unfold in_grid in G. cbn [vga_grid gw gh] in G. lia. }
    rewrite E. exists m. repeat split; auto.
Qed.

(** ---- Fill ---- *)
Lemma clamp_org_eq v m : clamp_org v m = clamp1 v m.
Proof. reflexivity. Qed.

Lemma clip_ext_eq ext org m : 1 <= org <= m -> m < two32 -> clip_ext ext org m = N.min ext (m - org + 1).
Proof.
  intros H Hm. unfold clip_ext. rewrite sub32_small, add32_small by lia.
  destruct (N.ltb_spec (m - org + 1) ext); lia.
Qed.

Lemma vga_fill_spec c m x y width height fg bg :
  vga_wf c m ->
  exists m', vga_fill c m x y width height fg bg = Ok m' /\ flen m' = flen m /\
    forall cx cy, in_grid (vga_grid c m) cx cy = true ->
      load m' (cell_idx c cx cy) =
        if in_fill (vga_grid c m) x y width height cx cy
        then N.lor (attr16 bg fg) vga_clearChar
        else load m (cell_idx c cx cy).
Proof.
  intros Hwf. pose proof Hwf as [H1 [H2 [H3 H4]]]. unfold vga_fill. cbv zeta.
  rewrite !(clamp_org_eq x), !(clamp_org_eq y).
  pose proof (clamp1_range x (vw c) H1) as Hx. pose proof (clamp1_range y (vh c) H2) as Hy.
  set (x0 := clamp1 x (vw c)) in *. set (y0 := clamp1 y (vh c)) in *.
  assert (Hw32: vw c < two32) by nia. assert (Hh32: vh c < two32) by nia.
  rewrite !clip_ext_eq by lia.
  set (w' := N.min width (vw c - x0 + 1)). set (h' := N.min height (vh c - y0 + 1)).
  pose proof (cell_idx_lt c m x0 y0 Hwf Hx Hy) as Hlt. unfold cell_idx in Hlt.
  rewrite (sub32_small y0 1), (sub32_small x0 1) by lia.
  rewrite mul32_small by lia. rewrite add32_small by lia.
  set (clr := N.lor (attr16 bg fg) vga_clearChar).
  assert (Hrows: (y0 - 1 + h') * vw c <= flen m).
  { rewrite H4, (N.mul_comm (vw c)). apply N.mul_le_mono_r. lia. }
  destruct (fill_rect 1 [clr] (vw c) w' h' m (y0 - 1) (x0 - 1)) as [m' [r' [E [E1 E2]]]];
    try (unfold step_ok; cbn [length]; lia).
  rewrite N.mul_1_r in *. rewrite E. cbn [res_of_loop fst].
  exists m'. repeat split; auto.
  intros cx cy G. apply in_grid_spec in G. cbn [vga_grid gw gh] in G.
  unfold cell_idx. rewrite E2 by lia. unfold in_fill. cbn [vga_grid gw gh]. fold x0 y0.
  rewrite N.mod_1_r. cbn [length N.of_nat Pos.of_succ_nat]. unfold byte_at. cbn [N.to_nat nth].
  replace (0 <? 1) with true by reflexivity. rewrite andb_true_r.
  match goal with |- (if ?a then _ else _) = (if ?b then _ else _) => replace a with b; [reflexivity|] end.
  subst w' h'. lia.
Qed.

(** ---- Scroll ---- *)
Lemma vga_scroll_down_loop m low top off :
  1 <= off -> off <= low -> low <= top + 1 -> top < flen m -> flen m < two32 ->
  exists m', whileP (vga_scroll_down_step low off) fuel32 (m, top) = Done (m', low - 1) /\
    flen m' = flen m /\
    forall j, load m' j = if (low <=? j) && (j <=? top) then load m (j - off) else load m j.
Proof.
  intros Hoff Hlow Htop Hfit Hlen.
  pose (Inv := fun (k : nat) (st : fbuf * N) =>
    snd st = top - N.of_nat k /\ flen (fst st) = flen m /\
    forall j, load (fst st) j = if (top - N.of_nat k <? j) && (j <=? top) then load m (j - off) else load m j).
  destruct (whileP_inv (vga_scroll_down_step low off) Inv (top + 1 - low) (m, top)) as [[m' i'] [E [I1 [I2 I3]]]].
  - lia.
  - unfold Inv. cbn [fst snd]. repeat split; try lia. intros j. bdestr; auto; lia.
  - intros k [mk i] Hk [I1 [I2 I3]]. cbn [fst snd] in *. subst i.
    unfold vga_scroll_down_step.
    assert (Hge: low <=? top - N.of_nat k = true) by (apply N.leb_le; lia). rewrite Hge.
    unfold copy_chk. rewrite sub32_small by lia. rewrite load_chk_some, store_chk_some by lia.
    eexists. split; [reflexivity|]. unfold Inv. cbn [fst snd]. rewrite sub32_small by lia.
    repeat split; rewrite ?flen_store; try lia. intros j. rewrite load_store, !I3, Nat2N.inj_succ.
    bdestr; try lia; try reflexivity; subst; try reflexivity.
  - intros [mk i] [I1 _]. cbn [fst snd] in *. unfold vga_scroll_down_step.
    assert (Hlt: low <=? i = false) by (apply N.leb_gt; lia). rewrite Hlt. reflexivity.
  - cbn [fst snd] in *. exists m'. rewrite E. replace i' with (low - 1) by lia. repeat split; auto.
    intros j. rewrite I3. bdestr; auto; lia.
Qed.

Definition dir_of (d : N) : option scroll_dir :=
  if d =? console_ScrollDirUp then Some ScrollUp
  else if d =? console_ScrollDirDown then Some ScrollDown else None.

(** the element-level effect of a scroll by [n] lines *)
Definition vga_scrolled (c : vga) (m : fbuf) (d : scroll_dir) (n i : N) : N :=
  match d with
  | ScrollUp => if i <? (vh c - n) * vw c then load m (i + n * vw c) else load m i
  | ScrollDown => if (n * vw c <=? i) && (i <? vh c * vw c) then load m (i - n * vw c) else load m i
  end.

Lemma vga_scroll_spec c m dir lines :
  vga_wf c m -> lines < two32 ->
  exists m', vga_scroll c m dir lines = Ok m' /\ flen m' = flen m /\
    forall i, load m' i =
      match dir_of dir with
      | Some d => if scroll_ok (vga_grid c m) lines then vga_scrolled c m d lines i else load m i
      | None => load m i
      end.
Proof.
  intros Hwf Hl. pose proof Hwf as [H1 [H2 [H3 H4]]]. unfold vga_scroll, scroll_ok. cbn [vga_grid gh].
  assert (Hw32: vw c < two32) by nia. assert (Hh32: vh c < two32) by nia.
  destruct ((lines =? 0) || (vh c <? lines)) eqn:G.
  - exists m. repeat split; auto. intros i.
    replace ((1 <=? lines) && (lines <=? vh c)) with false by (symmetry; clear - G H2; lia).
    destruct (dir_of dir); auto.
  - assert (Hr: 1 <= lines <= vh c) by (clear - G; lia).
    replace ((1 <=? lines) && (lines <=? vh c)) with true by (symmetry; clear - Hr; lia).
    assert (Hlw: lines * vw c <= vh c * vw c) by (apply N.mul_le_mono_r; lia).
    assert (Hlw1: 1 * vw c <= lines * vw c) by (apply N.mul_le_mono_r; lia).
    rewrite (mul32_small lines) by lia.
    unfold dir_of. destruct (dir =? console_ScrollDirUp) eqn:Du.
    + rewrite sub32_small by lia.
      assert (Hn: (vh c - lines) * vw c + lines * vw c = vh c * vw c) by (rewrite <- N.mul_add_distr_r; f_equal; lia).
      rewrite mul32_small by lia.
      destruct (copy_span (fun i => add32 i (lines * vw c)) ((vh c - lines) * vw c) m 0) as [m' [E [E1 E2]]]; try lia.
      { intros i Hi. rewrite add32_small by lia. lia. }
      unfold vga_scroll_up_step. rewrite add32_small in E by lia. rewrite N.add_0_l in E. rewrite E.
      exists m'. repeat split; auto. intros i. rewrite E2. unfold vga_scrolled.
      rewrite N.add_0_l. cbn [N.leb]. replace (0 <=? i) with true by (symmetry; lia). cbn [andb].
      destruct (N.ltb_spec i ((vh c - lines) * vw c)); auto. rewrite add32_small by lia. reflexivity.
    + destruct (dir =? console_ScrollDirDown) eqn:Dd.
      * rewrite (mul32_small (vh c)) by lia. rewrite sub32_small by lia.
        destruct (vga_scroll_down_loop m (lines * vw c) (vh c * vw c - 1) (lines * vw c)) as [m' [E [E1 E2]]]; try lia.
        rewrite E. exists m'. repeat split; auto. intros i. rewrite E2. unfold vga_scrolled.
        replace (i <=? vh c * vw c - 1) with (i <? vh c * vw c) by lia. reflexivity.
      * exists m. repeat split; auto.
Qed.

(** ---- the driver refines the cell-level semantics (Console/Grid.v) ---- *)
Lemma vga_wf_keep c m m' : vga_wf c m -> flen m' = flen m -> vga_wf c m'.
Proof. unfold vga_wf. intros [A [B [C D]]] E. rewrite E. auto. Qed.

Lemma vga_write_refines c m ch fg bg x y :
  vga_wf c m -> x < two32 -> y < two32 ->
  exists m', vga_write c m ch fg bg x y = Ok m' /\ vga_wf c m' /\
    grid_eq (vga_grid c m')
            (g_write (vga_grid c m) x y (cell16 (text_colour vga_defaultBg bg) (text_colour vga_defaultFg fg) ch)).
Proof.
  intros Hwf Hx Hy. destruct (vga_write_spec c m ch fg bg x y Hwf Hx Hy) as [m' [E [E1 E2]]].
  exists m'. split; auto. split; [eapply vga_wf_keep; eauto|].
  unfold grid_eq, grid_equiv. destruct (g_write_dims (vga_grid c m) x y (cell16 (text_colour vga_defaultBg bg) (text_colour vga_defaultFg fg) ch)) as [D1 D2].
  rewrite D1, D2. repeat split; auto.
  intros cx cy G. cbn [vga_grid gcell]. rewrite E2.
  apply in_grid_spec in G. cbn [vga_grid gw gh] in G.
  unfold g_write. destruct (in_grid (vga_grid c m) x y) eqn:Gx; cbn [andb gcell vga_grid].
  - apply in_grid_spec in Gx. cbn [vga_grid gw gh] in Gx.
    destruct (N.eqb_spec (cell_idx c cx cy) (cell_idx c x y)) as [Heq|Hne].
    + apply cell_idx_inj in Heq; try lia. destruct Heq; subst. now rewrite !N.eqb_refl.
    + destruct (N.eqb_spec cx x); destruct (N.eqb_spec cy y); cbn [andb]; auto. subst. congruence.
  - reflexivity.
Qed.

Lemma vga_fill_refines c m x y width height fg bg :
  vga_wf c m ->
  exists m', vga_fill c m x y width height fg bg = Ok m' /\ vga_wf c m' /\
    grid_eq (vga_grid c m') (g_fill (vga_grid c m) x y width height (N.lor (attr16 bg fg) vga_clearChar)).
Proof.
  intros Hwf. destruct (vga_fill_spec c m x y width height fg bg Hwf) as [m' [E [E1 E2]]].
  exists m'. split; auto. split; [eapply vga_wf_keep; eauto|].
  unfold grid_eq, grid_equiv. cbn [g_fill gw gh vga_grid gcell]. repeat split; auto.
Qed.

Lemma vga_scroll_refines c m dir d lines :
  vga_wf c m -> lines < two32 -> dir_of dir = Some d ->
  exists m', vga_scroll c m dir lines = Ok m' /\ vga_wf c m' /\
    grid_eq (vga_grid c m') (g_scroll (vga_grid c m) d lines (gcell (vga_grid c m))).
Proof.
  intros Hwf Hl Hd. destruct (vga_scroll_spec c m dir lines Hwf Hl) as [m' [E [E1 E2]]].
  exists m'. split; auto. split; [eapply vga_wf_keep; eauto|]. rewrite Hd in E2.
  pose proof Hwf as [H1 [H2 [H3 H4]]].
  unfold grid_eq, grid_equiv.
  destruct (g_scroll_dims (vga_grid c m) d lines (gcell (vga_grid c m))) as [D1 D2]. rewrite D1, D2.
  repeat split; auto.
  intros cx cy G. apply in_grid_spec in G. cbn [vga_grid gw gh] in G.
  cbn [vga_grid gcell]. rewrite E2. unfold g_scroll.
  destruct (scroll_ok (vga_grid c m) lines) eqn:So; [|reflexivity].
  unfold scroll_ok in So. cbn [vga_grid gh] in So. cbn [gcell gh vga_grid].
  unfold vga_scrolled, cell_idx.
  assert (Hb: cx - 1 < vw c) by lia.
  destruct d.
  - pose proof (row_lt (vw c) (cy - 1) (cx - 1) (vh c - lines) Hb) as R.
    destruct (N.ltb_spec ((cy - 1) * vw c + (cx - 1)) ((vh c - lines) * vw c)) as [L|L];
      destruct (N.leb_spec (cy + lines) (vh c)) as [L'|L']; try lia; auto.
    f_equal. replace (cy + lines - 1) with (cy - 1 + lines) by lia. lia.
  - pose proof (row_le (vw c) (cy - 1) (cx - 1) lines Hb) as R.
    pose proof (row_lt (vw c) (cy - 1) (cx - 1) (vh c) Hb) as R'.
    destruct (N.leb_spec (lines * vw c) ((cy - 1) * vw c + (cx - 1))) as [L|L];
      destruct (N.ltb_spec ((cy - 1) * vw c + (cx - 1)) (vh c * vw c)) as [L2|L2];
      destruct (N.ltb_spec lines cy) as [L'|L']; cbn [andb]; try lia; auto.
    f_equal. replace (cy - lines - 1) with (cy - 1 - lines) by lia.
    assert (Hm: lines * vw c <= (cy - 1) * vw c) by (apply N.mul_le_mono_r; lia).
    rewrite (N.mul_sub_distr_r (cy - 1) lines (vw c)). clear - Hm. lia.
Qed.
