(** Write of the framebuffer console equals the reference painter (Console/VesaSpec.v). *)
From Coq Require Import NArith ZArith PArith Arith Bool List Lia.
From Coq Require Import ZifyBool ZifyN ZifyNat.
From FF Require Import Lib.Word Gen.Consts_device_video_console.
From FF Require Import Console.Mem Console.MemProofs Console.Loop Console.LoopProofs Console.Ops Console.OpsProofs.
From FF Require Import Console.Grid Console.Vga Console.VgaProofs Console.Vesa Console.VesaSpec Console.VesaProofs Console.VesaFillProofs.
Import ListNotations.
Local Open Scope N_scope.
Ltac Zify.zify_post_hook ::= Z.div_mod_to_equations.

(** ---- the glyph bit walk: mask and font offset in closed form ---- *)
(** value of [mask] when pixel [x] of a row is reached (before the reload test) *)
Definition mask_at (x : N) : N := if x =? 0 then 128 else N.shiftr 128 ((x - 1) mod 8 + 1).

Lemma shiftr128_cases k : k <= 8 ->
  (k = 0 /\ N.shiftr 128 k = 128) \/ (k = 1 /\ N.shiftr 128 k = 64) \/ (k = 2 /\ N.shiftr 128 k = 32) \/
  (k = 3 /\ N.shiftr 128 k = 16) \/ (k = 4 /\ N.shiftr 128 k = 8) \/ (k = 5 /\ N.shiftr 128 k = 4) \/
  (k = 6 /\ N.shiftr 128 k = 2) \/ (k = 7 /\ N.shiftr 128 k = 1) \/ (k = 8 /\ N.shiftr 128 k = 0).
Proof.
  intros H.
  assert (C: k = 0 \/ k = 1 \/ k = 2 \/ k = 3 \/ k = 4 \/ k = 5 \/ k = 6 \/ k = 7 \/ k = 8) by lia.
  destruct C as [->|[->|[->|[->|[->|[->|[->|[->| ->]]]]]]]]; cbn; tauto.
Qed.

Lemma mask_at_zero x : (mask_at x =? 0) = (1 <=? x) && ((x - 1) mod 8 =? 7).
Proof.
  unfold mask_at. destruct (N.eqb_spec x 0) as [->|Hx]; [reflexivity|].
  assert (Hr: (x - 1) mod 8 + 1 <= 8) by lia.
  destruct (shiftr128_cases _ Hr) as [[E1 E2]|[[E1 E2]|[[E1 E2]|[[E1 E2]|[[E1 E2]|[[E1 E2]|[[E1 E2]|[[E1 E2]|[E1 E2]]]]]]]]];
    rewrite E2; lia.
Qed.

(** the mask actually tested for pixel [x] (after the reload): bit 7 - x mod 8 *)
Lemma mask_eff x : (if mask_at x =? 0 then 128 else mask_at x) = N.shiftr 128 (x mod 8).
Proof.
  rewrite mask_at_zero. unfold mask_at. destruct (N.eqb_spec x 0) as [->|Hx]; [reflexivity|].
  replace (1 <=? x) with true by (symmetry; apply N.leb_le; lia). cbn [andb].
  destruct (N.eqb_spec ((x - 1) mod 8) 7) as [E|E].
  - replace (x mod 8) with 0 by lia. reflexivity.
  - f_equal. lia.
Qed.

Lemma mask_next x : N.shiftr (N.shiftr 128 (x mod 8)) 1 = mask_at (x + 1).
Proof.
  unfold mask_at. replace (x + 1 =? 0) with false by (symmetry; apply N.eqb_neq; lia).
  rewrite N.shiftr_shiftr. f_equal. lia.
Qed.

(** the font offset actually read for pixel [x] *)
Lemma foff_eff x f0 : (if mask_at x =? 0 then f0 + (x - 1) / 8 + 1 else f0 + (x - 1) / 8) = f0 + x / 8.
Proof.
  rewrite mask_at_zero. destruct (N.leb_spec 1 x) as [Hx|Hx]; cbn [andb].
  - destruct (N.eqb_spec ((x - 1) mod 8) 7) as [E|E]; lia.
  - replace x with 0 by lia. reflexivity.
Qed.

(** bit of pixel [q] in the glyph row whose bytes start at font offset [f0] *)
Definition row_bit (f : font) (f0 q : N) : bool :=
  negb (N.land (f_dat f (f0 + q / 8)) (N.shiftr 128 (q mod 8)) =? 0).

(** ---- one glyph row: the inner loop of write8/16/24 ---- *)
Lemma write_span f s fgb bgb nb m ro f0 :
  step_ok s -> N.of_nat (length fgb) = nb -> N.of_nat (length bgb) = nb -> nb <= s ->
  1 <= f_gw f -> f0 + (f_gw f - 1) / 8 < f_dlen f -> f_dlen f < two32 ->
  ro + f_gw f * s <= flen m -> flen m < two32 ->
  exists m' mk rw,
    whileP (write_px_step f s fgb bgb) fuel32 (m, 0, ro, 128, f0, f_dat f f0)
      = Done (m', f_gw f, ro + f_gw f * s, mk, f0 + (f_gw f - 1) / 8, rw) /\
    flen m' = flen m /\
    forall i, load m' i =
      if (ro <=? i) && (i <? ro + f_gw f * s) && ((i - ro) mod s <? nb)
      then byte_at (if row_bit f f0 ((i - ro) / s) then fgb else bgb) ((i - ro) mod s)
      else load m i.
Proof.
  intros Hs Hfg Hbg Hnb Hgw Hfont Hdlen Hfit Hlen.
  pose (Inv := fun (x : nat) (st : wstate) =>
    let '(mx, xv, off, mask, foff, row) := st in
    xv = N.of_nat x /\ off = ro + N.of_nat x * s /\ mask = mask_at (N.of_nat x) /\
    foff = f0 + (N.of_nat x - 1) / 8 /\ row = f_dat f foff /\ flen mx = flen m /\
    forall i, load mx i =
      if (ro <=? i) && (i <? ro + N.of_nat x * s) && ((i - ro) mod s <? nb)
      then byte_at (if row_bit f f0 ((i - ro) / s) then fgb else bgb) ((i - ro) mod s)
      else load m i).
  assert (Hgw32: f_gw f < two32) by (unfold step_ok in Hs; unfold two32 in *; nia).
  destruct (whileP_inv (write_px_step f s fgb bgb) Inv (f_gw f) (m, 0, ro, 128, f0, f_dat f f0))
    as [[[[[[m' xv] off] mk] foff] rw] [E I]]; auto; try lia.
  - unfold Inv. repeat split; try reflexivity; try lia. intros i. bdestr; auto; lia.
  - intros x [[[[[mx xv] off] mask] foff] row] Hx [I1 [I2 [I3 [I4 [I5 [I6 I7]]]]]].
    set (X := N.of_nat x) in *. assert (HX: X < f_gw f) by lia.
    unfold write_px_step. subst xv.
    assert (Hlt: X <? f_gw f = true) by (apply N.ltb_lt; lia). rewrite Hlt.
    assert (Hdiv: X / 8 <= (f_gw f - 1) / 8) by (clear - HX; lia).
    assert (Hdiv1: (X - 1) / 8 <= X / 8) by (clear; lia).
    rewrite (add32_small foff 1) by lia.
    assert (Efoff: (if mask =? 0 then foff + 1 else foff) = f0 + X / 8).
    { subst mask foff. apply foff_eff. }
    rewrite Efoff.
    replace (f0 + X / 8 <? f_dlen f) with true by (symmetry; apply N.ltb_lt; lia).
    cbn [negb]. rewrite andb_false_r.
    assert (Erow: (if mask =? 0 then f_dat f (f0 + X / 8) else row) = f_dat f (f0 + X / 8)).
    { destruct (mask =? 0) eqn:Em; auto. subst row. f_equal. exact Efoff. }
    rewrite Erow.
    assert (Emask: (if mask =? 0 then 128 else mask) = N.shiftr 128 (X mod 8)) by (subst mask; apply mask_eff).
    rewrite Emask.
    assert (Ebytes: (if N.land (f_dat f (f0 + X / 8)) (N.shiftr 128 (X mod 8)) =? 0 then bgb else fgb)
                    = (if row_bit f f0 X then fgb else bgb)).
    { unfold row_bit. destruct (N.land (f_dat f (f0 + X / 8)) (N.shiftr 128 (X mod 8)) =? 0); reflexivity. }
    rewrite Ebytes. set (bytes := if row_bit f f0 X then fgb else bgb).
    assert (Hblen: N.of_nat (length bytes) = nb) by (subst bytes; destruct (row_bit f f0 X); assumption).
    assert (Hk1: X * s + s <= f_gw f * s) by (unfold step_ok in Hs; clear - HX Hs; nia).
    destruct (store_seq_ok bytes mx off 0) as [m2 [S1 [S2 S3]]]; try lia.
    rewrite S1. eexists. split; [reflexivity|]. unfold Inv.
    rewrite Nat2N.inj_succ. fold X.
    rewrite (add32_small X 1) by lia. rewrite add32_small by lia.
    replace (N.succ X) with (X + 1) by lia.
    rewrite mask_next. replace (X + 1 - 1) with X by lia.
    repeat split; try lia.
    intros i. rewrite S3, I7. rewrite Hblen. subst off.
    unfold step_ok in Hs. clear - Hs Hnb. subst bytes.
    destruct Hs as [-> | [-> | [-> | ->]]].
    + bdestr; try lia; try (replace ((i - ro) / 1) with X by lia); try (f_equal; lia).
    + bdestr; try lia; try (replace ((i - ro) / 2) with X by lia); try (f_equal; lia).
    + bdestr; try lia; try (replace ((i - ro) / 3) with X by lia); try (f_equal; lia).
    + bdestr; try lia; try (replace ((i - ro) / 4) with X by lia); try (f_equal; lia).
  - intros [[[[[mx xv] off] mask] foff] row] [I1 _]. unfold write_px_step. subst xv.
    rewrite N2Nat.id, N.ltb_irrefl. reflexivity.
  - unfold Inv in I. destruct I as [I1 [I2 [I3 [I4 [I5 [I6 I7]]]]]]. rewrite N2Nat.id in *.
    subst xv off foff. exists m', mk, rw. rewrite E. repeat split; auto.
Qed.

(** ---- the glyph: the outer loop of write8/16/24, in (row, byte column) coordinates ---- *)
Lemma write_rows c f s fgb bgb nb m Y0 a F0 :
  step_ok s -> N.of_nat (length fgb) = nb -> N.of_nat (length bgb) = nb -> nb <= s ->
  1 <= f_gw f -> f_bpr f = (f_gw f + 7) / 8 ->
  F0 + f_gh f * f_bpr f <= f_dlen f -> f_dlen f < two32 ->
  1 <= pitch c -> a + f_gw f * s <= pitch c -> (Y0 + f_gh f) * pitch c <= flen m -> flen m < two32 ->
  exists m' r' fo',
    whileP (write_row_step c f s fgb bgb) fuel32 (m, 0, Y0 * pitch c + a, F0) = Done (m', f_gh f, r', fo') /\
    flen m' = flen m /\
    forall Y b, b < pitch c ->
      load m' (Y * pitch c + b) =
        if (Y0 <=? Y) && (Y <? Y0 + f_gh f) && (a <=? b) && (b <? a + f_gw f * s) && ((b - a) mod s <? nb)
        then byte_at (if row_bit f (F0 + (Y - Y0) * f_bpr f) ((b - a) / s) then fgb else bgb) ((b - a) mod s)
        else load m (Y * pitch c + b).
Proof.
  intros Hs Hfg Hbg Hnb Hgw Hbpr Hfont Hdlen HP Hfit Hrows Hlen.
  set (P := pitch c) in *. set (gh := f_gh f) in *. set (bpr := f_bpr f) in *.
  assert (Hbpr1: (f_gw f - 1) / 8 + 1 = bpr) by (rewrite Hbpr; clear - Hgw; lia).
  pose (Inv := fun (r : nat) (st : fbuf * N * N * N) =>
    let '(mr, y, ro, foff) := st in
    y = N.of_nat r /\ (N.of_nat r < gh -> ro = (Y0 + N.of_nat r) * P + a) /\ foff = F0 + N.of_nat r * bpr /\
    flen mr = flen m /\
    forall Y b, b < P ->
      load mr (Y * P + b) =
        if (Y0 <=? Y) && (Y <? Y0 + N.of_nat r) && (a <=? b) && (b <? a + f_gw f * s) && ((b - a) mod s <? nb)
        then byte_at (if row_bit f (F0 + (Y - Y0) * bpr) ((b - a) / s) then fgb else bgb) ((b - a) mod s)
        else load m (Y * P + b)).
  assert (HR: gh < two32).
  { assert (gh * 1 <= gh * P) by (apply N.mul_le_mono_l; lia).
    assert (gh * P <= (Y0 + gh) * P) by (apply N.mul_le_mono_r; lia). lia. }
  destruct (whileP_inv (write_row_step c f s fgb bgb) Inv gh (m, 0, Y0 * P + a, F0))
    as [[[[m' y'] r'] fo'] [E I]].
  - lia.
  - unfold Inv. repeat split; try lia. intros Y b Hb.
    destruct (Y <? Y0 + N.of_nat 0) eqn:E0; [apply N.ltb_lt in E0|]; bdestr; auto; lia.
  - intros r [[[mr y] ro] foff] Hr [I1 [I2 [I3 [I4 I5]]]]. subst y.
    set (R := N.of_nat r) in *.
    assert (Hr': R < gh) by lia. specialize (I2 Hr'). subst ro.
    unfold write_row_step. fold gh P.
    assert (Hlt: R <? gh = true) by (apply N.ltb_lt; lia). rewrite Hlt.
    assert (Hmono: (Y0 + R + 1) * P <= (Y0 + gh) * P) by (apply N.mul_le_mono_r; lia).
    assert (Hfm: (R + 1) * bpr <= gh * bpr) by (apply N.mul_le_mono_r; lia).
    assert (Hfo: foff + bpr <= f_dlen f) by (subst foff; lia).
    replace (foff <? f_dlen f) with true by (symmetry; apply N.ltb_lt; lia). cbn [negb].
    destruct (write_span f s fgb bgb nb mr ((Y0 + R) * P + a) foff) as [m2 [mk [rw [S1 [S2 S3]]]]]; auto; try lia.
    rewrite S1. eexists. split; [reflexivity|]. unfold Inv.
    rewrite Nat2N.inj_succ. fold R. rewrite (add32_small R 1) by lia.
    rewrite (add32_small (foff + (f_gw f - 1) / 8) 1) by lia.
    repeat split; try lia.
    + intros Hnext. rewrite add32_small.
      * lia.
      * assert ((Y0 + R + 2) * P <= (Y0 + gh) * P) by (apply N.mul_le_mono_r; lia). lia.
    + intros Y b Hb. rewrite S3, I5 by assumption.
      pose proof (span_coord P Y b (Y0 + R) a (f_gw f * s) Hb Hfit) as SC.
      destruct (N.eq_dec Y (Y0 + R)) as [Heq|Hne].
      * subst Y. destruct (N.le_gt_cases a b) as [Hab|Hab].
        -- replace ((Y0 + R) * P + b - ((Y0 + R) * P + a)) with (b - a) by lia.
           replace (Y0 + R - Y0) with R by lia. subst foff.
           generalize ((b - a) mod s). intros k. generalize ((b - a) / s). intros q.
           destruct (k <? nb); rewrite ?andb_false_r, ?andb_true_r.
           ++ destruct (N.ltb_spec b (a + f_gw f * s)); rewrite ?andb_false_r, ?andb_true_r.
              ** replace ((Y0 + R) * P + a <=? (Y0 + R) * P + b) with true by (symmetry; apply N.leb_le; lia).
                 replace ((Y0 + R) * P + b <? (Y0 + R) * P + a + f_gw f * s) with true by (symmetry; apply N.ltb_lt; lia).
                 replace (Y0 <=? Y0 + R) with true by (symmetry; apply N.leb_le; lia).
                 replace (Y0 + R <? Y0 + N.succ R) with true by (symmetry; apply N.ltb_lt; lia).
                 replace (a <=? b) with true by (symmetry; apply N.leb_le; lia). reflexivity.
              ** replace ((Y0 + R) * P + b <? (Y0 + R) * P + a + f_gw f * s) with false by (symmetry; apply N.ltb_ge; lia).
                 rewrite ?andb_false_r. reflexivity.
           ++ reflexivity.
        -- replace ((Y0 + R) * P + a <=? (Y0 + R) * P + b) with false by (symmetry; apply N.leb_gt; lia).
           replace (a <=? b) with false by (symmetry; apply N.leb_gt; lia).
           rewrite ?andb_false_r. reflexivity.
      * assert (F: ((Y0 + R) * P + a <=? Y * P + b) && (Y * P + b <? (Y0 + R) * P + a + f_gw f * s) = false).
        { apply andb_false_iff. destruct (N.leb_spec ((Y0 + R) * P + a) (Y * P + b)); auto.
          right. apply N.ltb_ge. destruct (N.le_gt_cases ((Y0 + R) * P + a + f_gw f * s) (Y * P + b)); auto.
          exfalso. apply Hne. apply SC. lia. }
        rewrite F. cbn [andb].
        replace (Y <? Y0 + N.succ R) with (Y <? Y0 + R); auto.
        destruct (N.ltb_spec Y (Y0 + R)); symmetry; [apply N.ltb_lt|apply N.ltb_ge]; lia.
  - intros [[[mr y] ro] foff] [I1 _]. unfold write_row_step. subst y. fold gh.
    rewrite N2Nat.id, N.ltb_irrefl. reflexivity.
  - unfold Inv in I. destruct I as [I1 [_ [I3 [I4 I5]]]]. rewrite N2Nat.id in *.
    exists m', r', fo'. rewrite E. subst y'. repeat split; auto.
Qed.

Lemma px_sub s A b : step_ok s -> A * s <= b -> (b - A * s) / s = b / s - A.
Proof. intros Hs. unfold step_ok in Hs. destruct Hs as [-> | [-> | [-> | ->]]]; lia. Qed.

(** the pixel columns of cell column [x] (1-based) are exactly those with X / g + 1 = x *)
Lemma cell_exact g x X : 1 <= g -> 1 <= x ->
  ((x - 1) * g <=? X) && (X <? (x - 1) * g + g) = (X / g + 1 =? x).
Proof.
  intros Hg Hx.
  pose proof (div_le_iff g (x - 1) X Hg) as D1. pose proof (div_lt_iff g x X Hg) as D2.
  replace ((x - 1) * g + g) with (x * g) by (replace x with (x - 1 + 1) at 1 by lia; lia).
  apply Bool.eq_iff_eq_true. rewrite andb_true_iff, N.leb_le, N.ltb_lt, N.eqb_eq. lia.
Qed.

Lemma cell_offset g x X : 1 <= g -> 1 <= x -> X / g + 1 = x -> X mod g = X - (x - 1) * g.
Proof.
  intros Hg Hx E. pose proof (N.div_mod X g ltac:(lia)) as D.
  replace (X / g) with (x - 1) in D by lia. lia.
Qed.

Lemma vesa_write_spec c f d m ch fg bg x y :
  vesa_wf c f d m -> ch < 256 -> fg < 256 -> bg < 256 -> x < two32 -> y < two32 ->
  exists m' fgb bgb, pixel_bytes c d fg = Some fgb /\ pixel_bytes c d bg = Some bgb /\
    vesa_write c m ch fg bg x y = Ok m' /\ flen m' = flen m /\
    forall i, load m' i = if in_grid (vesa_dims c) x y then write_ref c f d m ch x y fgb bgb i else load m i.
Proof.
  intros W Hch Hfg Hbg Hx32 Hy32.
  pose proof (geometry c f d m W) as [G1 [G2 [G3 [G4 [G5 [G6 [G7 [G8 [G9 [G10 [G11 G12]]]]]]]]]]].
  pose proof (wf_gw _ _ _ _ W) as Hgw. pose proof (wf_gh _ _ _ _ W) as Hgh.
  pose proof (wf_pitch _ _ _ _ W) as Hpitch. pose proof (wf_size _ _ _ _ W) as Hsize.
  pose proof (wf_flen _ _ _ _ W) as Hflen. pose proof (wf_bpr _ _ _ _ W) as Hbpr.
  pose proof (wf_dlen _ _ _ _ W) as Hdl. pose proof (wf_dlen32 _ _ _ _ W) as Hdl32.
  assert (Hs: step_ok (bytespp c)) by apply (step_ok_bytespp c f d m W).
  destruct (pixel_bytes_ok c f d m fg W Hfg) as [fgb [Pf Lf]].
  destruct (pixel_bytes_ok c f d m bg W Hbg) as [bgb [Pb Lb]].
  unfold vesa_write. rewrite (wf_font _ _ _ _ W).
  destruct (in_grid (vesa_dims c) x y) eqn:G.
  2:{ assert (E: (x <? 1) || (wchars c <? x) || (y <? 1) || (hchars c <? y) = true).
      { unfold in_grid in G. cbn [vesa_dims gw gh] in G. clear - G. lia. }
      rewrite E. exists m, fgb, bgb. repeat split; auto. }
  apply in_grid_spec in G. cbn [vesa_dims gw gh] in G.
  replace ((x <? 1) || (wchars c <? x) || (y <? 1) || (hchars c <? y)) with false by (symmetry; clear - G; lia).
  cbv zeta. rewrite (wf_depth _ _ _ _ W), Pf, Pb. rewrite (px_step_eq c f d m W).
  set (s := bytespp c) in *. set (P := pitch c) in *.
  (* the pixel rectangle of the cell, products as atoms *)
  assert (HA: (x - 1) * f_gw f + f_gw f <= wchars c * f_gw f).
  { replace ((x - 1) * f_gw f + f_gw f) with ((x - 1 + 1) * f_gw f) by lia. apply N.mul_le_mono_r. lia. }
  assert (HC: (y - 1) * f_gh f + f_gh f <= hchars c * f_gh f).
  { replace ((y - 1) * f_gh f + f_gh f) with ((y - 1 + 1) * f_gh f) by lia. apply N.mul_le_mono_r. lia. }
  set (A := (x - 1) * f_gw f) in *. set (Cy := (y - 1) * f_gh f) in *.
  assert (HAs: A * s + f_gw f * s <= pw c * s).
  { rewrite <- N.mul_add_distr_r. apply N.mul_le_mono_r. lia. }
  assert (HY: (Cy + offsetY c + f_gh f) * P <= ph c * P) by (apply N.mul_le_mono_r; lia).
  assert (HY1: (Cy + offsetY c + 1) * P <= (Cy + offsetY c + f_gh f) * P) by (apply N.mul_le_mono_r; lia).
  (* the glyph in the font data *)
  assert (Hbpr1: 1 <= f_bpr f <= 2) by (rewrite Hbpr; clear - Hgw; lia).
  assert (HF: ch * f_bpr f * f_gh f + f_gh f * f_bpr f <= f_dlen f).
  { assert ((ch + 1) * (f_bpr f * f_gh f) <= 256 * (f_bpr f * f_gh f)) by (apply N.mul_le_mono_r; lia). lia. }
  assert (HF1: ch * f_bpr f * 1 <= ch * f_bpr f * f_gh f) by (apply N.mul_le_mono_l; lia).
  rewrite (sub32_small x 1), (sub32_small y 1) by lia.
  rewrite (mul32_small (x - 1)), (mul32_small (y - 1)) by (fold A Cy; lia). fold A Cy.
  rewrite (mul32_small ch) by lia. rewrite (mul32_small (ch * f_bpr f)) by lia.
  unfold fb_offset. fold s P. rewrite (add32_small Cy) by lia. rewrite (mul32_small A) by lia.
  rewrite mul32_small by lia. rewrite add32_small by lia.
  destruct (write_rows c f s fgb bgb (ncomp d) m (Cy + offsetY c) (A * s) (ch * f_bpr f * f_gh f))
    as [m' [r' [fo' [E [E1 E2]]]]]; fold P; auto; try lia.
  { apply (ncomp_le c f d m W). }
  fold P in E, E2. rewrite E. cbn [res_of_loop fst]. exists m', fgb, bgb. repeat split; auto.
  intros i. destruct (index_coord c f d m i W) as [Hi Hb]. fold P in Hi, Hb.
  unfold write_ref, place_of. fold P s.
  set (Y := i / P) in *. set (b := i mod P) in *.
  rewrite Hi at 1. rewrite E2 by assumption. clear E2. rewrite <- Hi.
  rewrite <- (andb_assoc _ (A * s <=? b) _).
  replace (A * s + f_gw f * s) with (A * s + f_gw f * s) by reflexivity.
  rewrite (px_range s A (f_gw f) b Hs).
  (* padding bytes *)
  destruct (N.ltb_spec b (pw c * s)) as [Hvis|Hpad].
  2:{ assert (HX: pw c <= b / s).
      { clear - Hpad Hs. unfold step_ok in Hs. destruct Hs as [-> | [-> | [-> | ->]]]; lia. }
      replace (b / s <? A + f_gw f) with false by (symmetry; apply N.ltb_ge; lia).
      rewrite ?andb_false_r. reflexivity. }
  unfold cell_of. set (X := b / s) in *.
  destruct (N.le_gt_cases (A * s) b) as [Hab|Hab].
  2:{ (* left of the cell *)
      pose proof (px_before s _ b Hs Hab) as HX. fold X in HX.
      replace (A <=? X) with false by (symmetry; apply N.leb_gt; lia).
      rewrite ?andb_false_r. cbn [andb].
      destruct ((X <? wchars c * f_gw f) && (offsetY c <=? Y) && (Y <? offsetY c + hchars c * f_gh f)); auto.
      assert (E0: (X / f_gw f + 1 =? x) = false).
      { rewrite <- (cell_exact (f_gw f)) by lia. fold A.
        replace (A <=? X) with false by (symmetry; apply N.leb_gt; lia). reflexivity. }
      rewrite E0. reflexivity. }
  rewrite px_comp by assumption. rewrite px_sub by assumption. fold X.
  unfold A at 1 2. rewrite (cell_exact (f_gw f) x X) by lia. fold A.
  destruct (N.eqb_spec (X / f_gw f + 1) x) as [Ecx|Ecx].
  2:{ rewrite ?andb_false_r. cbn [andb].
      destruct ((X <? wchars c * f_gw f) && (offsetY c <=? Y) && (Y <? offsetY c + hchars c * f_gh f)); auto.
      replace (X / f_gw f + 1 =? x) with false by (symmetry; apply N.eqb_neq; exact Ecx). reflexivity. }
  assert (HXw: X < wchars c * f_gw f).
  { pose proof (div_lt_iff (f_gw f) (wchars c) X ltac:(clear - Hgw; lia)) as D. clear - D Ecx G. lia. }
  replace (X <? wchars c * f_gw f) with true by (symmetry; apply N.ltb_lt; exact HXw).
  rewrite andb_true_r. cbn [andb].
  destruct (N.leb_spec (offsetY c) Y) as [HYo|HYo].
  2:{ replace (Cy + offsetY c <=? Y) with false by (symmetry; apply N.leb_gt; clear - HYo; lia).
      cbn [andb]. reflexivity. }
  cbn [andb].
  replace (Cy + offsetY c <=? Y) with (Cy <=? Y - offsetY c)
    by (apply Bool.eq_iff_eq_true; rewrite !N.leb_le; clear - HYo; lia).
  replace (Y <? Cy + offsetY c + f_gh f) with (Y - offsetY c <? Cy + f_gh f)
    by (apply Bool.eq_iff_eq_true; rewrite !N.ltb_lt; clear - HYo; lia).
  unfold Cy at 1 2. rewrite (cell_exact (f_gh f) y (Y - offsetY c)) by lia. fold Cy.
  destruct (N.eqb_spec ((Y - offsetY c) / f_gh f + 1) y) as [Ecy|Ecy].
  2:{ cbn [andb]. destruct (Y <? offsetY c + hchars c * f_gh f); auto.
      replace ((Y - offsetY c) / f_gh f + 1 =? y) with false by (symmetry; apply N.eqb_neq; exact Ecy).
      rewrite andb_false_r. reflexivity. }
  assert (HYh: Y - offsetY c < hchars c * f_gh f).
  { pose proof (div_lt_iff (f_gh f) (hchars c) (Y - offsetY c) ltac:(clear - Hgh; lia)) as D. clear - D Ecy G. lia. }
  replace (Y <? offsetY c + hchars c * f_gh f) with true by (symmetry; apply N.ltb_lt; clear - HYh HYo; lia).
  cbn [andb].
  rewrite (cell_offset (f_gw f) x X ltac:(clear - Hgw; lia) ltac:(clear - G; lia) Ecx).
  rewrite (cell_offset (f_gh f) y (Y - offsetY c) ltac:(clear - Hgh; lia) ltac:(clear - G; lia) Ecy).
  fold A Cy. replace (Y - (Cy + offsetY c)) with (Y - offsetY c - Cy) by (clear; lia).
  replace (X / f_gw f + 1 =? x) with true by (symmetry; apply N.eqb_eq; exact Ecx).
  replace ((Y - offsetY c) / f_gh f + 1 =? y) with true by (symmetry; apply N.eqb_eq; exact Ecy).
  cbn [andb]. unfold glyph_bit, row_bit. reflexivity.
Qed.
