(** The hand-written model of the VGA text console (Console/Vga.v: [vga_write], [vga_fill], [vga_scroll]) IS the
    Gallina translation that gen/gotrans regenerates from kernel/device/video/console/vga_text.go on every run
    (Gen/Trans_console_vga.v: Write, Fill, Scroll; Dimensions and DefaultColors have no counterpart in the model
    and are stated directly).

    The translation's record has the fields of VgaTextConsole: width, height, fbPhysAddr, fb (the []uint16 cells
    as a list), palette (only its length is used), defaultFg/Bg, clearChar.  [to_gv] maps the model's
    console [c] and framebuffer memory [m] (Console/Mem.v: a length and a load function) to it, with the
    generated constants for the colours; [fb_list m] is the table of [load m] over 0 .. flen-1.
    The model's loops run on the binary fuel [fuel32]; the translation's on unary fuel: any fuel
    >= fuel32 (2^33) reproduces every run of the model that ends ([Ok] or [Panic]). *)
From Coq Require Import NArith ZArith PArith String List Bool Lia.
From Coq Require Import ZifyBool ZifyN ZifyNat.
From FF Require Import Lib.Word Lib.GoOps Lib.GoOpsExt Gen.Consts_device_tty Gen.Consts_device_video_console Gen.Trans_console_vga.
From FF Require Import Console.Mem Console.MemProofs Console.Loop Console.LoopProofs Console.Ops Console.Vga.
Import ListNotations.
Local Open Scope N_scope.
Ltac Zify.zify_post_hook ::= Z.div_mod_to_equations.

(** ---- the abstraction ---- *)
Definition fb_list (m : fbuf) : list N := map (fun k => load m (N.of_nat k)) (seq 0 (N.to_nat (flen m))).

Definition to_gv (c : vga) (phys : N) (m : fbuf) : go_console_VgaTextConsole :=
  mk_go_console_VgaTextConsole (vw c) (vh c) phys (fb_list m) vga_paletteLen vga_defaultFg vga_defaultBg vga_clearChar.

Lemma fb_list_length m : length (fb_list m) = N.to_nat (flen m).
Proof. unfold fb_list. rewrite map_length, seq_length. reflexivity. Qed.

Lemma fb_list_nth m j : (j < N.to_nat (flen m))%nat -> nth j (fb_list m) 0 = load m (N.of_nat j).
Proof.
  intros H. unfold fb_list. apply nth_error_nth.
  rewrite nth_error_map, (nth_error_nth' (seq 0 (N.to_nat (flen m))) 0%nat) by (rewrite seq_length; exact H).
  rewrite seq_nth by exact H. reflexivity.
Qed.

(** fb[i] *)
Lemma gidx_fb m i : gidx (fb_list m) i = load_chk m i.
Proof.
  unfold load_chk. destruct (N.ltb_spec i (flen m)) as [A|A].
  - rewrite gidx_some by (unfold glen; rewrite fb_list_length; lia). rewrite fb_list_nth by lia. rewrite N2Nat.id. reflexivity.
  - apply gidx_none. unfold glen. rewrite fb_list_length. lia.
Qed.

(** fb[i] = v *)
Lemma gset_fb m i v : gset (fb_list m) i v = option_map fb_list (store_chk m i v).
Proof.
  unfold store_chk. destruct (N.ltb_spec i (flen m)) as [A|A].
  - cbn [option_map]. destruct (gset (fb_list m) i v) as [l'|] eqn:E.
    2:{ rewrite gset_some in E by (unfold glen; rewrite fb_list_length; lia). discriminate. }
    f_equal. apply nth_ext with (d := 0) (d' := 0).
    + rewrite (gset_length _ _ _ _ E), !fb_list_length, flen_store. reflexivity.
    + intros j Hj. rewrite (gset_length _ _ _ _ E), fb_list_length in Hj.
      rewrite (gset_nth _ _ _ _ j E), !fb_list_nth by (rewrite ?flen_store; exact Hj). rewrite load_store.
      destruct (Nat.eqb_spec j (N.to_nat i)); destruct (N.eqb_spec (N.of_nat j) i); try reflexivity; lia.
  - cbn [option_map]. apply gset_none. unfold glen. rewrite fb_list_length. lia.
Qed.

Ltac vsimp :=
  cbn [to_gv f_VgaTextConsole_width f_VgaTextConsole_height f_VgaTextConsole_fbPhysAddr f_VgaTextConsole_fb
       f_VgaTextConsole_palette f_VgaTextConsole_defaultFg f_VgaTextConsole_defaultBg f_VgaTextConsole_clearChar].

Lemma fold_fb c phys m l : set_f_VgaTextConsole_fb (to_gv c phys m) (fb_list l) = to_gv c phys l.
Proof. reflexivity. Qed.

Definition vres (c : vga) (phys : N) (r : res) : gres (go_console_VgaTextConsole * unit) :=
  match r with Ok m' => GOk (to_gv c phys m', tt) | Panic _ => GPanic | OutOfFuel _ => GFuel end.

(** ---- Dimensions, DefaultColors ---- *)
Theorem dimensions_trans c phys m dim :
  go_console_VgaTextConsole_Dimensions (to_gv c phys m) dim =
  GOk (to_gv c phys m, if dim =? console_Characters then (vw c, vh c) else (w32 (vw c * 8), w32 (vh c * 16))).
Proof. unfold go_console_VgaTextConsole_Dimensions. vsimp. destruct (dim =? console_Characters); reflexivity. Qed.

Theorem defaultColors_trans c phys m :
  go_console_VgaTextConsole_DefaultColors (to_gv c phys m) = GOk (to_gv c phys m, (vga_defaultFg, vga_defaultBg)).
Proof. reflexivity. Qed.

(** ---- Write ---- *)
Lemma w16_small x : x < two16 -> gw 16 x = x.
Proof. intros H. unfold gw. apply N.mod_small. exact H. Qed.

Lemma cell_trans bg fg ch : bg < two16 -> fg < two16 -> ch < two16 ->
  N.lor (gw 16 (N.shiftl (N.lor (gw 16 (N.shiftl (gw 16 bg) 4)) (gw 16 fg)) 8)) (gw 16 ch) = cell16 bg fg ch.
Proof. intros H1 H2 H3. rewrite (w16_small bg H1), (w16_small fg H2), (w16_small ch H3). reflexivity. Qed.

Theorem write_is_translation c phys m ch fg bg x y :
  ch < 256 -> fg < 256 -> bg < 256 ->
  go_console_VgaTextConsole_Write (to_gv c phys m) ch fg bg x y = vres c phys (vga_write c m ch fg bg x y).
Proof.
  intros Hch Hfg Hbg.
  cbv delta [go_console_VgaTextConsole_Write vga_write]. cbv beta zeta. vsimp.
  destruct ((x <? 1) || (vw c <? x) || (y <? 1) || (vh c <? y)); [reflexivity|].
  change (gw 8 (gsub 64 vga_paletteLen 1)) with vga_maxColorIndex.
  assert (Hd : vga_defaultFg < 256 /\ vga_defaultBg < 256) by (split; reflexivity).
  set (fg' := if vga_maxColorIndex <? fg then vga_defaultFg else fg).
  set (bg' := if vga_maxColorIndex <? bg then vga_defaultBg else bg).
  assert (Hf' : fg' < 256) by (unfold fg'; destruct (vga_maxColorIndex <? fg); lia).
  assert (Hb' : bg' < 256) by (unfold bg'; destruct (vga_maxColorIndex <? bg); lia).
  rewrite cell_trans by (unfold two16; lia).
  change (gw 32 (gw 32 (gsub 32 y 1 * vw c) + gsub 32 x 1)) with (add32 (mul32 (sub32 y 1) (vw c)) (sub32 x 1)).
  rewrite gset_fb. destruct (store_chk m _ _) as [m'|]; reflexivity.
Qed.

(** ---- the model's fuelled while-loops and the translation's [gloop] ---- *)
Section Sim.
  Context {S St R : Type} (step : S -> sres S) (gstep : St -> gres (gctl St R)) (Rel : S -> St -> Prop).
  Hypothesis Hstep : forall s t, Rel s t ->
    match step s with
    | Next s' => exists t', gstep t = GOk (GNext t') /\ Rel s' t'
    | Done s' => exists t', gstep t = GOk (GBreak t') /\ Rel s' t'
    | Fail _ => gstep t = GPanic
    | Fuel _ => True
    end.

  Lemma while_sim : forall n s t fu, Rel s t -> (n <= fu)%nat ->
    match while_nat step n s with
    | Done s' => exists t', gloop fu gstep t = GOk (inl t') /\ Rel s' t'
    | Fail _ => gloop fu gstep t = GPanic
    | _ => True
    end.
  Proof.
    induction n as [|n IH]; intros s t fu HR Hfu; [exact I|].
    destruct fu as [|fu]; [lia|]. cbn [while_nat]. specialize (Hstep s t HR).
    destruct (step s) as [s'|s'|s'|s'].
    - destruct Hstep as (t' & E & HR'). rewrite (gloop_next _ _ _ _ E). apply IH; [exact HR'|lia].
    - destruct Hstep as (t' & E & HR'). exists t'. split; [apply gloop_break; exact E|exact HR'].
    - apply gloop_panic. exact Hstep.
    - exact I.
  Qed.

  Lemma whileP_sim s t fu : Rel s t -> (Pos.to_nat fuel32 <= fu)%nat ->
    match whileP step fuel32 s with
    | Done s' => exists t', gloop fu gstep t = GOk (inl t') /\ Rel s' t'
    | Fail _ => gloop fu gstep t = GPanic
    | _ => True
    end.
  Proof. intros HR Hfu. rewrite whileP_nat. apply while_sim; assumption. Qed.
End Sim.

(** ---- Scroll ---- *)
Definition claim (c : vga) (phys : N) (r : res) (g : gres (go_console_VgaTextConsole * unit)) : Prop :=
  match r with OutOfFuel _ => True | _ => g = vres c phys r end.

Theorem scroll_is_translation c phys m dir lines fuel :
  (Pos.to_nat fuel32 <= fuel)%nat ->
  claim c phys (vga_scroll c m dir lines) (go_console_VgaTextConsole_Scroll fuel (to_gv c phys m) dir lines).
Proof.
  intros Hfuel.
  cbv delta [go_console_VgaTextConsole_Scroll vga_scroll]. cbv beta zeta. vsimp.
  destruct ((lines =? 0) || (vh c <? lines)); [reflexivity|].
  change (gw 32 (lines * vw c)) with (mul32 lines (vw c)).
  change (gw 32 (gsub 32 (vh c) lines * vw c)) with (mul32 (sub32 (vh c) lines) (vw c)).
  change (gsub 32 (gw 32 (vh c * vw c)) 1) with (sub32 (mul32 (vh c) (vw c)) 1).
  set (offset := mul32 lines (vw c)).
  set (Rel := fun (s : fbuf * N) (t : go_console_VgaTextConsole * N) => t = (to_gv c phys (fst s), snd s)).
  destruct (dir =? console_ScrollDirUp).
  - match goal with |- context [gloop fuel ?f0 _] => set (gstep := f0) end.
    set (bound := mul32 (sub32 (vh c) lines) (vw c)).
    pose proof (whileP_sim (vga_scroll_up_step bound offset) gstep Rel) as Sim.
    assert (Hs : forall s t, Rel s t ->
              match vga_scroll_up_step bound offset s with
              | Next s' => exists t', gstep t = GOk (GNext t') /\ Rel s' t'
              | Done s' => exists t', gstep t = GOk (GBreak t') /\ Rel s' t'
              | Fail _ => gstep t = GPanic
              | Fuel _ => True
              end).
    { intros [m0 i] t ->. cbn [fst snd]. unfold vga_scroll_up_step, copy_fwd_step, copy_chk, gstep. vsimp.
      change (gw 32 (gsub 32 (vh c) lines * vw c)) with bound.
      destruct (i <? bound); [|eexists; split; reflexivity].
      change (gw 32 (i + offset)) with (add32 i offset).
      rewrite gidx_fb. destruct (load_chk m0 (add32 i offset)) as [v|]; [|reflexivity].
      rewrite gset_fb. destruct (store_chk m0 i v) as [m1|]; [|reflexivity].
      cbn [option_map]. rewrite fold_fb. eexists; split; reflexivity. }
    specialize (Sim Hs (m, 0) (to_gv c phys m, 0) fuel eq_refl Hfuel).
    revert Sim. destruct (whileP (vga_scroll_up_step bound offset) fuel32 (m, 0)) as [s'|s'|s'|s']; intros Sim; cbn [res_of_loop claim]; try exact I.
    + destruct Sim as (t' & E & HR). unfold Rel in HR. subst t'. rewrite E. reflexivity.
    + rewrite Sim. reflexivity.
  - destruct (dir =? console_ScrollDirDown); [|reflexivity].
    match goal with |- context [gloop fuel ?f0 _] => set (gstep := f0) end.
    pose proof (whileP_sim (vga_scroll_down_step offset offset) gstep Rel) as Sim.
    assert (Hs : forall s t, Rel s t ->
              match vga_scroll_down_step offset offset s with
              | Next s' => exists t', gstep t = GOk (GNext t') /\ Rel s' t'
              | Done s' => exists t', gstep t = GOk (GBreak t') /\ Rel s' t'
              | Fail _ => gstep t = GPanic
              | Fuel _ => True
              end).
    { intros [m0 i] t ->. cbn [fst snd]. unfold vga_scroll_down_step, copy_chk, gstep. vsimp.
      change (gw 32 (lines * vw c)) with offset.
      destruct (offset <=? i); [|eexists; split; reflexivity].
      change (gsub 32 i offset) with (sub32 i offset).
      rewrite gidx_fb. destruct (load_chk m0 (sub32 i offset)) as [v|]; [|reflexivity].
      rewrite gset_fb. destruct (store_chk m0 i v) as [m1|]; [|reflexivity].
      cbn [option_map]. rewrite fold_fb. eexists; split; reflexivity. }
    specialize (Sim Hs (m, sub32 (mul32 (vh c) (vw c)) 1) (to_gv c phys m, sub32 (mul32 (vh c) (vw c)) 1) fuel eq_refl Hfuel).
    revert Sim. destruct (whileP (vga_scroll_down_step offset offset) fuel32 _) as [s'|s'|s'|s']; intros Sim; cbn [res_of_loop claim]; try exact I.
    + destruct Sim as (t' & E & HR). unfold Rel in HR. subst t'. rewrite E. reflexivity.
    + rewrite Sim. reflexivity.
Qed.

(** ---- Fill ---- *)
Theorem fill_is_translation c phys m x y width height fg bg fuel :
  fg < 256 -> bg < 256 -> (Pos.to_nat fuel32 <= fuel)%nat ->
  claim c phys (vga_fill c m x y width height fg bg)
        (go_console_VgaTextConsole_Fill fuel (to_gv c phys m) x y width height fg bg).
Proof.
  intros Hfg Hbg Hfuel.
  cbv delta [go_console_VgaTextConsole_Fill vga_fill]. cbv beta zeta. vsimp.
  rewrite (w16_small bg) by (unfold two16; lia). rewrite (w16_small fg) by (unfold two16; lia).
  change (N.lor (gw 16 (N.shiftl (N.lor (gw 16 (N.shiftl bg 4)) fg) 8)) vga_clearChar) with (N.lor (attr16 bg fg) vga_clearChar).
  set (clr := N.lor (attr16 bg fg) vga_clearChar).
  change (gw 32 1) with 1.
  change (if x =? 0 then 1 else if vw c <=? x then vw c else x) with (clamp_org x (vw c)).
  set (x' := clamp_org x (vw c)).
  change (if y =? 0 then 1 else if vh c <=? y then vh c else y) with (clamp_org y (vh c)).
  set (y' := clamp_org y (vh c)).
  change (gw 32 (gsub 32 (vw c) x' + 1)) with (add32 (sub32 (vw c) x') 1).
  change (if add32 (sub32 (vw c) x') 1 <? width then add32 (sub32 (vw c) x') 1 else width) with (clip_ext width x' (vw c)).
  set (width' := clip_ext width x' (vw c)).
  change (gw 32 (gsub 32 (vh c) y' + 1)) with (add32 (sub32 (vh c) y') 1).
  change (if add32 (sub32 (vh c) y') 1 <? height then add32 (sub32 (vh c) y') 1 else height) with (clip_ext height y' (vh c)).
  set (height' := clip_ext height y' (vh c)).
  change (gw 32 (gw 32 (gsub 32 y' 1 * vw c) + gsub 32 x' 1)) with (add32 (mul32 (sub32 y' 1) (vw c)) (sub32 x' 1)).
  set (row := add32 (mul32 (sub32 y' 1) (vw c)) (sub32 x' 1)).
  match goal with |- context [gloop fuel ?f0 _] => set (gstepO := f0) end.
  set (RelO := fun (s : fbuf * N * N) (t : go_console_VgaTextConsole * N * N * N) =>
                 exists col, t = (to_gv c phys (fst (fst s)), col, snd (fst s), snd s)).
  assert (HsO : forall s t, RelO s t ->
            match fill_row_step (vw c) width' 1 [clr] s with
            | Next s' => exists t', gstepO t = GOk (GNext t') /\ RelO s' t'
            | Done s' => exists t', gstepO t = GOk (GBreak t') /\ RelO s' t'
            | Fail _ => gstepO t = GPanic
            | Fuel _ => True
            end).
  { intros [[m0 rows] rowoff] t (col & ->). cbn [fst snd]. unfold fill_row_step, gstepO. cbv beta iota zeta. vsimp.
    destruct (0 <? rows); [|eexists; split; [reflexivity|exists col; reflexivity]].
    change (gw 32 (rowoff + width')) with (add32 rowoff width').
    match goal with |- context [gloop fuel ?f0 _] => set (gstepI := f0) end.
    set (RelI := fun (s : fbuf * N) (t : go_console_VgaTextConsole * N) => t = (to_gv c phys (fst s), snd s)).
    pose proof (whileP_sim (fill_px_step (add32 rowoff width') 1 [clr]) gstepI RelI) as Sim.
    assert (HsI : forall s t, RelI s t ->
              match fill_px_step (add32 rowoff width') 1 [clr] s with
              | Next s' => exists t', gstepI t = GOk (GNext t') /\ RelI s' t'
              | Done s' => exists t', gstepI t = GOk (GBreak t') /\ RelI s' t'
              | Fail _ => gstepI t = GPanic
              | Fuel _ => True
              end).
    { intros [m1 off] t' ->. cbn [fst snd]. unfold fill_px_step, store_seq, gstepI. vsimp.
      destruct (off <? add32 rowoff width'); [|eexists; split; reflexivity].
      cbn [N.eqb]. rewrite gset_fb. destruct (store_chk m1 off clr) as [m2|]; [|reflexivity].
      cbn [option_map]. rewrite fold_fb. change (gw 32 (off + 1)) with (add32 off 1). eexists; split; reflexivity. }
    specialize (Sim HsI (m0, rowoff) (to_gv c phys m0, rowoff) fuel eq_refl Hfuel).
    revert Sim. destruct (whileP (fill_px_step (add32 rowoff width') 1 [clr]) fuel32 (m0, rowoff)) as [[m' o']|[m' o']|[m' o']|[m' o']];
      intros Sim; try exact I.
    - destruct Sim as (t' & E & HR). unfold RelI in HR. subst t'. rewrite E. cbv beta iota. vsimp.
      change (gsub 32 rows 1) with (sub32 rows 1). change (gw 32 (rowoff + vw c)) with (add32 rowoff (vw c)).
      eexists; split; [reflexivity|]. exists o'. reflexivity.
    - rewrite Sim. reflexivity. }
  pose proof (whileP_sim (fill_row_step (vw c) width' 1 [clr]) gstepO RelO HsO (m, height', row) (to_gv c phys m, 0, height', row) fuel
                (ex_intro _ 0 eq_refl) Hfuel) as Sim.
  revert Sim. destruct (whileP (fill_row_step (vw c) width' 1 [clr]) fuel32 (m, height', row)) as [s'|s'|s'|s'];
    intros Sim; cbn [res_of_loop claim]; try exact I.
  - destruct Sim as (t' & E & (col & HR)). subst t'. rewrite E. reflexivity.
  - rewrite Sim. reflexivity.
Qed.

(** ---- with the geometry of C19 ([vga_wf]: W, H >= 1, W*H < 2^32 cells): the runs end, so the translation,
    with fuel >= fuel32, returns the model's framebuffer ---- *)
From FF Require Import Console.VgaProofs Console.C19Lemmas.

Corollary fill_trans_ok c phys m x y width height fg bg fuel :
  vga_wf c m -> fg < 256 -> bg < 256 -> (Pos.to_nat fuel32 <= fuel)%nat ->
  exists m', vga_fill c m x y width height fg bg = Ok m' /\
             go_console_VgaTextConsole_Fill fuel (to_gv c phys m) x y width height fg bg = GOk (to_gv c phys m', tt).
Proof.
  intros W Hfg Hbg Hfuel. destruct (vga_fill_spec c m x y width height fg bg W) as (m' & E & _).
  exists m'. split; [exact E|]. pose proof (fill_is_translation c phys m x y width height fg bg fuel Hfg Hbg Hfuel) as T.
  rewrite E in T. exact T.
Qed.

Corollary scroll_trans_ok c phys m dir lines fuel :
  vga_wf c m -> lines < two32 -> (Pos.to_nat fuel32 <= fuel)%nat ->
  exists m', vga_scroll c m dir lines = Ok m' /\
             go_console_VgaTextConsole_Scroll fuel (to_gv c phys m) dir lines = GOk (to_gv c phys m', tt).
Proof.
  intros W Hl Hfuel. destruct (vga_scroll_spec c m dir lines W Hl) as (m' & E & _).
  exists m'. split; [exact E|]. pose proof (scroll_is_translation c phys m dir lines fuel Hfuel) as T.
  rewrite E in T. exact T.
Qed.

(** the two claims with [claim] unfolded (the form stated in Props/C19_vga_trans.v) *)
Theorem fill_is_translation_explicit c phys m x y width height fg bg fuel :
  fg < 256 -> bg < 256 -> (Pos.to_nat fuel32 <= fuel)%nat ->
  match vga_fill c m x y width height fg bg with
  | Ok m' => go_console_VgaTextConsole_Fill fuel (to_gv c phys m) x y width height fg bg = GOk (to_gv c phys m', tt)
  | Panic _ => go_console_VgaTextConsole_Fill fuel (to_gv c phys m) x y width height fg bg = GPanic
  | OutOfFuel _ => True
  end.
Proof.
  intros H1 H2 H3. pose proof (fill_is_translation c phys m x y width height fg bg fuel H1 H2 H3) as T.
  destruct (vga_fill c m x y width height fg bg); exact T.
Qed.

Theorem scroll_is_translation_explicit c phys m dir lines fuel :
  (Pos.to_nat fuel32 <= fuel)%nat ->
  match vga_scroll c m dir lines with
  | Ok m' => go_console_VgaTextConsole_Scroll fuel (to_gv c phys m) dir lines = GOk (to_gv c phys m', tt)
  | Panic _ => go_console_VgaTextConsole_Scroll fuel (to_gv c phys m) dir lines = GPanic
  | OutOfFuel _ => True
  end.
Proof.
  intros H. pose proof (scroll_is_translation c phys m dir lines fuel H) as T.
  destruct (vga_scroll c m dir lines); exact T.
Qed.

Theorem trans_no_panic c phys m fuel :
  vga_wf c m -> (Pos.to_nat fuel32 <= fuel)%nat ->
  (forall x y width height fg bg, fg < 256 -> bg < 256 ->
     exists m', vga_fill c m x y width height fg bg = Ok m' /\
       go_console_VgaTextConsole_Fill fuel (to_gv c phys m) x y width height fg bg = GOk (to_gv c phys m', tt)) /\
  (forall dir lines, lines < two32 ->
     exists m', vga_scroll c m dir lines = Ok m' /\
       go_console_VgaTextConsole_Scroll fuel (to_gv c phys m) dir lines = GOk (to_gv c phys m', tt)).
Proof.
  intros W F. split.
  - intros x y width height fg bg H1 H2. exact (fill_trans_ok c phys m x y width height fg bg fuel W H1 H2 F).
  - intros dir lines H. exact (scroll_trans_ok c phys m dir lines fuel W H F).
Qed.
